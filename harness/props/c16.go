package props

import (
	"bytes"
	"context"
	"encoding/hex"
	"encoding/json"
	"fmt"
	"io"
	"math"
	"math/rand"
	"os"
	"os/exec"
	"reflect"
	"sort"
	"strings"
	"sync"
	"time"

	"github.com/parquet-go/parquet-go"

	"verifharness/core"
	"verifharness/gen"
)

// C16 — values handed to the caller are not changed by later library activity.
//
// The library is built with -tags verif, which activates poison-on-release (hook_verif.go): storage
// going back to a pool is overwritten with 0xA5, so a caller-visible alias of pooled storage shows up
// as a changed value deterministically instead of depending on GC / sync.Pool timing.

func init() {
	RegisterSub("C16", "histories", RunC16Histories)
	RegisterSub("C16", "pool", RunC16Pool)
	workers["c16hist"] = c16HistWorker
}

// The histories run in a worker subprocess: a broken ownership protocol shows up as a panic
// ("BUG: buffer reference count underflow"), possibly on the finalizer goroutine, which would
// otherwise take the whole check down. The worker writes its result file; the parent merges it.

type c16CaseRec struct {
	Canon      string `json:"c"`
	Nontrivial bool   `json:"n"`
}

var c16WorkerCases struct {
	sync.Mutex
	on   bool
	list []c16CaseRec
}

// c16Count counts a case (and remembers it when running as a worker, for the parent to merge).
func c16Count(ctx *core.Ctx, canon string, nontrivial bool) {
	ctx.Case(canon, nontrivial)
	c16WorkerCases.Lock()
	if c16WorkerCases.on {
		// only the hash matters for distinctness; keep the record small
		c16WorkerCases.list = append(c16WorkerCases.list, c16CaseRec{fmt.Sprintf("%x", hashString(canon)), nontrivial})
	}
	c16WorkerCases.Unlock()
}

func hashString(s string) uint64 {
	var h uint64 = 14695981039346656037
	for i := 0; i < len(s); i++ {
		h ^= uint64(s[i])
		h *= 1099511628211
	}
	return h
}

// args: sub seed tier variant driver outfile
func c16HistWorker(args []string) int {
	if len(args) != 6 {
		return 2
	}
	ctx := core.NewCtx()
	ctx.Prop = "C16"
	fmt.Sscan(args[1], &ctx.Seed)
	ctx.Tier, ctx.Variant, ctx.DriverPath = args[2], args[3], args[4]
	c16WorkerCases.on = true
	switch args[0] {
	case "histories":
		c16HistoriesInProcess(ctx)
	case "pool":
		c16PoolInProcess(ctx)
	case "mixed":
		c16MixedInProcess(ctx)
	case "asyncown":
		c16AsyncOwnInProcess(ctx)
	case "chunkflag":
		c16ChunkFlagInProcess(ctx)
	default:
		return 2
	}
	if err := ctx.Finish(args[5]); err != nil {
		return 2
	}
	c16WorkerCases.Lock()
	b, _ := json.Marshal(c16WorkerCases.list)
	c16WorkerCases.Unlock()
	if err := os.WriteFile(args[5]+".cases", b, 0o644); err != nil {
		return 2
	}
	return 0
}

func RunC16Histories(ctx *core.Ctx) {
	ctx.SetRule(c16Rule)
	c16RunIsolated(ctx, "histories", "L1", c16HistoriesInProcess)
}

func RunC16Pool(ctx *core.Ctx) {
	c16RunIsolated(ctx, "pool", "L2", c16PoolInProcess)
}

func c16RunIsolated(ctx *core.Ctx, sub, layer string, inproc func(*core.Ctx)) {
	exe, err := os.Executable()
	if err != nil {
		inproc(ctx)
		return
	}
	out, err := os.CreateTemp("", "c16-"+sub+"-*.json")
	if err != nil {
		inproc(ctx)
		return
	}
	out.Close()
	defer os.Remove(out.Name())
	defer os.Remove(out.Name() + ".cases")
	cctx, cancel := context.WithTimeout(context.Background(), time.Duration(ctx.Scale(700, 2400))*time.Second)
	defer cancel()
	drv := ctx.DriverPath
	if drv == "" {
		drv = "-"
	}
	cmd := exec.CommandContext(cctx, exe, "-worker", "c16hist", sub, fmt.Sprint(ctx.Seed), ctx.Tier, ctx.Variant, drv, out.Name())
	var stderr bytes.Buffer
	cmd.Stderr = &stderr
	cmd.Stdout = &stderr
	runErr := cmd.Run()
	var res core.Result
	merged := false
	if b, err := os.ReadFile(out.Name()); err == nil && len(b) > 0 && json.Unmarshal(b, &res) == nil {
		merged = true
		for _, f := range res.Failures {
			ctx.Fail(f.Layer, f.Key, f.What, f.Detail)
		}
		for name, m := range res.Histograms {
			for k, v := range m {
				ctx.HistN(name, k, v)
			}
		}
		for _, s := range res.Samples {
			ctx.Sample(s)
		}
		var cases []c16CaseRec
		if b, err := os.ReadFile(out.Name() + ".cases"); err == nil && json.Unmarshal(b, &cases) == nil {
			for _, c := range cases {
				ctx.Case(c.Canon, c.Nontrivial)
			}
		}
	}
	if runErr != nil || !merged {
		tail := stderr.String()
		if len(tail) > 6000 {
			tail = tail[:3000] + "\n...\n" + tail[len(tail)-3000:]
		}
		class := "crash"
		for _, line := range strings.Split(stderr.String(), "\n") {
			if strings.HasPrefix(line, "panic:") || strings.HasPrefix(line, "fatal error:") {
				class = strings.TrimSpace(line)
				if len(class) > 70 {
					class = class[:70]
				}
				break
			}
		}
		if cctx.Err() != nil {
			// not a verdict about the library: the machine was too slow (or the worker hangs)
			ctx.Fail("L2", "harness-timeout:"+sub, "the worker process running the "+sub+" histories did not finish in time", map[string]any{"output": tail})
			return
		}
		ctx.Fail(layer, "library-panic:"+sub+":"+class, "the process running the "+sub+" histories on valid files died (a refcount panic of the library, possibly on the finalizer goroutine, takes the process down): "+class,
			map[string]any{"exit": fmt.Sprint(runErr), "output": tail, "replay": fmt.Sprintf("pqcheck -worker c16hist %s %d %s %s <pqdriver> <out>", sub, ctx.Seed, ctx.Tier, ctx.Variant)})
	}
}

// ---------------------------------------------------------------- snapshots of Go values

// c16Canon writes a canonical text of a Go value (pointers by pointee, floats by bit pattern).
func c16Canon(v reflect.Value, sb *strings.Builder) {
	switch v.Kind() {
	case reflect.Ptr:
		if v.IsNil() {
			sb.WriteString("nil")
			return
		}
		sb.WriteByte('&')
		c16Canon(v.Elem(), sb)
	case reflect.Interface:
		if v.IsNil() {
			sb.WriteString("nil")
			return
		}
		sb.WriteString("I(" + v.Elem().Type().String() + ")")
		c16Canon(v.Elem(), sb)
	case reflect.Struct:
		sb.WriteByte('{')
		for i := 0; i < v.NumField(); i++ {
			c16Canon(v.Field(i), sb)
			sb.WriteByte(';')
		}
		sb.WriteByte('}')
	case reflect.Slice:
		if v.IsNil() {
			sb.WriteString("~")
			return
		}
		if v.Type().Elem().Kind() == reflect.Uint8 {
			sb.WriteByte('b')
			sb.WriteString(hex.EncodeToString(v.Bytes()))
			return
		}
		fmt.Fprintf(sb, "[%d:", v.Len())
		for i := 0; i < v.Len(); i++ {
			c16Canon(v.Index(i), sb)
			sb.WriteByte(',')
		}
		sb.WriteByte(']')
	case reflect.Array:
		sb.WriteByte('a')
		for i := 0; i < v.Len(); i++ {
			c16Canon(v.Index(i), sb)
			sb.WriteByte(',')
		}
	case reflect.String:
		sb.WriteByte('s')
		sb.WriteString(hex.EncodeToString([]byte(v.String())))
	case reflect.Float32, reflect.Float64:
		fmt.Fprintf(sb, "f%x", math.Float64bits(v.Float()))
	case reflect.Bool:
		if v.Bool() {
			sb.WriteByte('T')
		} else {
			sb.WriteByte('F')
		}
	case reflect.Int, reflect.Int8, reflect.Int16, reflect.Int32, reflect.Int64:
		fmt.Fprintf(sb, "i%d", v.Int())
	case reflect.Uint, reflect.Uint8, reflect.Uint16, reflect.Uint32, reflect.Uint64:
		fmt.Fprintf(sb, "u%d", v.Uint())
	default:
		sb.WriteString("?" + v.Kind().String())
	}
}

func c16CanonOf(v reflect.Value) string {
	var sb strings.Builder
	c16Canon(v, &sb)
	return sb.String()
}

// c16Clone makes a deep copy sharing no memory with v (strings are re-allocated too).
func c16Clone(v reflect.Value) reflect.Value {
	out := reflect.New(v.Type()).Elem()
	switch v.Kind() {
	case reflect.Ptr:
		if !v.IsNil() {
			p := reflect.New(v.Type().Elem())
			p.Elem().Set(c16Clone(v.Elem()))
			out.Set(p)
		}
	case reflect.Interface:
		if !v.IsNil() {
			out.Set(c16Clone(v.Elem()))
		}
	case reflect.Struct:
		for i := 0; i < v.NumField(); i++ {
			if v.Type().Field(i).PkgPath != "" {
				// foreign struct with unexported fields (*big.Float behind an `any`): no deep copy by
				// reflection; the canonical text taken at hand-over still covers its content
				if v.CanInterface() {
					out.Set(v)
				}
				return out
			}
		}
		for i := 0; i < v.NumField(); i++ {
			out.Field(i).Set(c16Clone(v.Field(i)))
		}
	case reflect.Slice:
		if !v.IsNil() {
			s := reflect.MakeSlice(v.Type(), v.Len(), v.Len())
			for i := 0; i < v.Len(); i++ {
				s.Index(i).Set(c16Clone(v.Index(i)))
			}
			out.Set(s)
		}
	case reflect.Array:
		for i := 0; i < v.Len(); i++ {
			out.Index(i).Set(c16Clone(v.Index(i)))
		}
	case reflect.String:
		out.SetString(string(append([]byte(nil), v.String()...)))
	default:
		out.Set(v)
	}
	return out
}

// c16Diff returns the path and the kind of the first difference between a deep copy and the object.
func c16Diff(a, b reflect.Value, path string) (string, string, bool) {
	switch a.Kind() {
	case reflect.Ptr:
		if a.IsNil() || b.IsNil() {
			if a.IsNil() != b.IsNil() {
				return path, "pointer-nilness", true
			}
			return "", "", false
		}
		return c16Diff(a.Elem(), b.Elem(), path)
	case reflect.Struct:
		for i := 0; i < a.NumField(); i++ {
			if p, k, d := c16Diff(a.Field(i), b.Field(i), path+"."+a.Type().Field(i).Name); d {
				return p, k, true
			}
		}
		return "", "", false
	case reflect.Slice:
		if a.Type().Elem().Kind() == reflect.Uint8 {
			if a.IsNil() != b.IsNil() || !bytes.Equal(a.Bytes(), b.Bytes()) {
				return path, "[]byte", true
			}
			return "", "", false
		}
		if a.Len() != b.Len() || a.IsNil() != b.IsNil() {
			return path, "slice-length", true
		}
		for i := 0; i < a.Len(); i++ {
			if p, k, d := c16Diff(a.Index(i), b.Index(i), fmt.Sprintf("%s[%d]", path, i)); d {
				return p, k, true
			}
		}
		return "", "", false
	case reflect.Array:
		if a.Type().Elem().Kind() == reflect.Uint8 {
			if c16CanonOf(a) != c16CanonOf(b) {
				return path, fmt.Sprintf("[%d]byte", a.Len()), true
			}
			return "", "", false
		}
		for i := 0; i < a.Len(); i++ {
			if p, k, d := c16Diff(a.Index(i), b.Index(i), fmt.Sprintf("%s[%d]", path, i)); d {
				return p, k, true
			}
		}
		return "", "", false
	default:
		if c16CanonOf(a) != c16CanonOf(b) {
			return path, a.Kind().String(), true
		}
		return "", "", false
	}
}

func c16RowText(row parquet.Row) string {
	var sb strings.Builder
	for _, v := range row {
		fmt.Fprintf(&sb, "%d:%s ", v.Column(), gen.TripleOf(v))
	}
	return sb.String()
}

func c16RowsText(rows []parquet.Row) string {
	var sb strings.Builder
	for _, r := range rows {
		sb.WriteString(c16RowText(r))
		sb.WriteByte('|')
	}
	return sb.String()
}

func c16ValuesText(vs []parquet.Value) string {
	var sb strings.Builder
	for _, v := range vs {
		fmt.Fprintf(&sb, "%d:%s ", v.Column(), gen.TripleOf(v))
	}
	return sb.String()
}

// ---------------------------------------------------------------- churn

var c16ChurnEntries []*gen.Entry
var c16ChurnOnce sync.Once

func c16HasBytes(e *gen.Entry) bool {
	for _, p := range e.Schema.Columns() {
		if leaf, ok := e.Schema.Lookup(p...); ok {
			switch leaf.Node.Type().Kind() {
			case parquet.ByteArray, parquet.FixedLenByteArray:
				return true
			}
		}
	}
	return false
}

// c16Churn runs unrelated writers and readers (all codecs, both page versions) so that pooled
// buffers get recycled by somebody else.
func c16Churn(r *rand.Rand, rounds int) {
	c16ChurnOnce.Do(func() {
		for _, e := range gen.Catalog {
			if c16HasBytes(e) {
				c16ChurnEntries = append(c16ChurnEntries, e)
			}
		}
		if len(c16ChurnEntries) == 0 {
			c16ChurnEntries = gen.Catalog
		}
	})
	for i := 0; i < rounds; i++ {
		e := c16ChurnEntries[r.Intn(len(c16ChurnEntries))]
		n := 20 + r.Intn(120)
		rows := e.NewRows(n)
		gen.FillRows(r, rows, &gen.Profile{NullProb: 0.2, MaxLen: 3})
		codec := gen.CodecNames[(i+r.Intn(2))%len(gen.CodecNames)]
		opts := []parquet.WriterOption{parquet.Compression(gen.Codecs[codec]), parquet.DataPageVersion(1 + r.Intn(2)),
			parquet.PageBufferSize(64 + r.Intn(2000))}
		var buf bytes.Buffer
		if err := e.WriteGeneric(&buf, rows.Interface(), nil, opts...); err != nil {
			continue
		}
		file := buf.Bytes()
		switch r.Intn(3) {
		case 0:
			e.ReadAll(bytes.NewReader(file), int64(len(file)))
		case 1:
			gen.ReadRowsColumns(file, 1+r.Intn(64))
		default:
			gen.ReadColumns(file)
		}
	}
}

// ---------------------------------------------------------------- L1 histories

type c16Str struct {
	S string `parquet:"s,plain"`
}

// c16PoisonSelfTest checks that the poison hook is really active in this binary: a value that is
// (wrongly, on purpose) kept after its page was released and the reader closed must read 0xA5.
func c16PoisonSelfTest(ctx *core.Ctx) {
	defer c16Recover(ctx, "poison self-test", nil)
	rows := make([]c16Str, 200)
	for i := range rows {
		rows[i].S = fmt.Sprintf("value-%04d-abcdefghijklmnopqrstuvwxyz", i)
	}
	var buf bytes.Buffer
	w := parquet.NewGenericWriter[c16Str](&buf, parquet.Compression(&parquet.Uncompressed))
	w.Write(rows)
	w.Close()
	f, err := parquet.OpenFile(bytes.NewReader(buf.Bytes()), int64(buf.Len()))
	if err != nil {
		ctx.Fail("L2", "poison-selftest-open", err.Error(), nil)
		return
	}
	pages := f.RowGroups()[0].ColumnChunks()[0].Pages()
	p, err := pages.ReadPage()
	if err != nil {
		ctx.Fail("L2", "poison-selftest-read", err.Error(), nil)
		return
	}
	vals := make([]parquet.Value, 8)
	n, _ := p.Values().ReadValues(vals)
	if n == 0 {
		ctx.Fail("L2", "poison-selftest-read", "no values", nil)
		return
	}
	before := string(vals[0].ByteArray())
	b0, s0 := parquet.VerifPoisonStats()
	parquet.Release(p)
	pages.Close()
	b1, s1 := parquet.VerifPoisonStats()
	after := vals[0].ByteArray() // dangling on purpose
	poisoned := len(after) > 0
	for _, c := range after {
		if c != 0xA5 {
			poisoned = false
		}
	}
	ctx.Hist("selftest", fmt.Sprintf("poisoned=%v", poisoned))
	if !poisoned || b1 == b0 || s1 == s0 {
		ctx.Fail("L2", "poison-hook-inactive", "a value kept after Release+Close still reads its old bytes: the poison-on-release hook is not active, the L1 comparisons would depend on pool timing",
			map[string]any{"before": before, "after": hex.EncodeToString(after), "buffers_poisoned": b1 - b0, "slices_poisoned": s1 - s0})
	}
}

type c16Held struct {
	what string        // which hand-over
	obj  reflect.Value // the caller's object ([]T)
	copy reflect.Value // deep copy taken at hand-over
	snap string
}

type c16Hist struct {
	ctx    *core.Ctx
	e      *gen.Entry
	detail func(extra map[string]any) map[string]any
	ops    []string
	held   []c16Held
	// parquet rows / values held by the caller
	clones []c16HeldRows
}

type c16HeldRows struct {
	what string
	rows []parquet.Row
	snap string
}

func (h *c16Hist) op(format string, a ...any) { h.ops = append(h.ops, fmt.Sprintf(format, a...)) }

func (h *c16Hist) hold(what string, batch any) {
	v := reflect.ValueOf(batch)
	h.held = append(h.held, c16Held{what: what, obj: v, copy: c16Clone(v), snap: c16CanonOf(v)})
}

func (h *c16Hist) holdClones(what string, rows []parquet.Row) {
	cl := make([]parquet.Row, len(rows))
	for i, r := range rows {
		cl[i] = r.Clone()
	}
	h.clones = append(h.clones, c16HeldRows{what: what, rows: cl, snap: c16RowsText(cl)})
}

// verify re-compares EVERY object handed over so far.
func (h *c16Hist) verify(stage string) {
	for i := range h.held {
		x := &h.held[i]
		if c16CanonOf(x.obj) == x.snap {
			continue
		}
		path, kind, _ := c16Diff(x.copy, x.obj, h.e.Name)
		if kind == "" {
			kind, path = "unstable", "(content keeps changing while it is compared)"
		}
		key := "go-value-aliases-pooled-buffer:" + kind
		if strings.Contains(x.what, "reused batch") {
			// rows kept by shallow copy while the destination slice is reused: a later Read wrote
			// through memory that belongs to rows already handed out
			key = "go-value-overwritten-by-later-read:" + kind
		}
		h.ctx.Fail("L1", key,
			fmt.Sprintf("a Go value filled by %s changed after %s (at %s)", x.what, stage, path),
			h.detail(map[string]any{"handed_over_by": x.what, "changed_after": stage, "path": path, "history": h.ops}))
		x.snap = c16CanonOf(x.obj) // report once
	}
	for i := range h.clones {
		x := &h.clones[i]
		if now := c16RowsText(x.rows); now != x.snap {
			h.ctx.Fail("L1", "cloned-row-changed",
				fmt.Sprintf("a cloned row/value obtained from %s changed after %s", x.what, stage),
				h.detail(map[string]any{"handed_over_by": x.what, "changed_after": stage, "before": c16Trunc(x.snap), "after": c16Trunc(now), "history": h.ops}))
			x.snap = now
		}
	}
}

func c16Trunc(s string) string {
	if len(s) > 600 {
		return s[:600] + "..."
	}
	return s
}

const c16Rule = "catalogue struct types x random rows x random writer configuration (page version, codec, page/row-group/dictionary limits) x histories with poison-on-release active: GenericReader.Read/Read[T] batches deep-copied at hand-over and re-compared after every later Read, SeekToRow, ReadRows, Close and heavy pool churn by unrelated readers/writers of all codecs; ReadRows results compared just before the next call on the same reader, their clones forever; page values while the page is held (file pages and AsyncPages), clones after Release; rows and slices passed to Write/WriteRows/Buffer (with sorting) compared before/after; non-trivial = the type has a byte-array column holding a non-empty value and at least two hand-overs were held across later calls; plus row readers over converted and merged row groups (permuted schema), caller []Row batches kept alive across Reset / later writes / sorting-run flushes, and hand-written map-typed struct fields read into reused destination slices; plus the matrix leaf type of the reader's schema (BYTE_ARRAY, STRING, JSON, BSON, ENUM, DECIMAL, FIXED_LEN_BYTE_ARRAY(1/12/16/33), UUID, INTERVAL) x Go kind of the destination field ([]byte, string, [N]byte, any, pointers to and slices of them; required, optional, repeated) read with the schema handed over explicitly (GenericReader, Reader.Read(&row), Schema.Reconstruct) and with the derived schema (converted file) into reused destinations kept by shallow copy"

func c16HistoriesInProcess(ctx *core.Ctx) {
	ctx.SetRule(c16Rule)
	c16PoisonSelfTest(ctx)
	c16MapHistories(ctx)
	c16CrossHistories(ctx)
	ncases := ctx.Scale(5, 20)
	var wg sync.WaitGroup
	sem := make(chan struct{}, 16)
	for _, e := range gen.Catalog {
		t := gen.TypedByName[e.Name]
		if t == nil {
			ctx.Hist("typed", "missing")
			continue
		}
		wg.Add(1)
		sem <- struct{}{}
		go func(e *gen.Entry, t *gen.Typed) {
			defer wg.Done()
			defer func() { <-sem }()
			r := ctx.Rand("c16/" + e.Name)
			for k := 0; k < ncases; k++ {
				c16Case(ctx, e, t, r, k)
			}
		}(e, t)
	}
	wg.Wait()
}

// c16Recover turns a panic of the library on valid input (e.g. "BUG: buffer reference count
// underflow") into an L1 failure of the case instead of killing the check.
func c16Recover(ctx *core.Ctx, where string, detail func(map[string]any) map[string]any) {
	if p := recover(); p != nil {
		msg := fmt.Sprint(p)
		class := msg
		if len(class) > 60 {
			class = class[:60]
		}
		d := map[string]any{"panic": msg, "where": where}
		if detail != nil {
			d = detail(d)
		}
		ctx.Fail("L1", "library-panic:"+class, "the library panicked on a valid file during "+where+": "+msg, d)
	}
}

func c16Case(ctx *core.Ctx, e *gen.Entry, t *gen.Typed, r *rand.Rand, k int) {
	var detail func(extra map[string]any) map[string]any
	defer func() { c16Recover(ctx, "history of type "+e.Name, detail) }()
	n := []int{1, 2, 9, 33, 65, 100, 257, 300}[r.Intn(8)]
	prof := &gen.Profile{NullProb: []float64{0.1, 0.5}[r.Intn(2)], MaxLen: 1 + r.Intn(4), SmallDomain: r.Intn(4) == 0}
	rows := e.NewRows(n)
	gen.FillRows(r, rows, prof)
	cfg := gen.RandWriterCfg(r)
	if r.Intn(2) == 0 {
		// many small pages, so that read batches straddle page boundaries
		pb := []int{1, 24, 64, 200}[r.Intn(4)]
		cfg.Opts = append(cfg.Opts, parquet.PageBufferSize(pb))
		cfg.PageBuf = pb
		cfg.Desc += fmt.Sprintf(" pagebuf:=%d", pb)
	}
	var sh gen.Shredder
	var valTexts []string
	for i := 0; i < n; i++ {
		valTexts = append(valTexts, sh.ShredRow(e.Schema, rows.Index(i)))
	}
	detail = func(extra map[string]any) map[string]any {
		m := map[string]any{"type": e.Name, "config": cfg.Desc, "case": k, "rows": valTexts}
		if len(valTexts) > 30 {
			m["rows"] = append(append([]string{}, valTexts[:30]...), fmt.Sprintf("... %d rows, regenerate with the run seed (stream c16/%s, case %d)", len(valTexts), e.Name, k))
		}
		for kk, v := range extra {
			m[kk] = v
		}
		return m
	}
	h := &c16Hist{ctx: ctx, e: e, detail: detail}
	hasBytes := c16HasBytes(e)
	nonEmptyBytes := false
	if hasBytes {
		for _, c := range sh.Cols {
			for _, tr := range c {
				if !tr.Null && tr.Val != "-" && len(tr.Val) > 16 {
					nonEmptyBytes = true
				}
			}
		}
	}

	// ---- write side: the library must not modify what the caller passes in
	file := c16WriteSide(ctx, h, e, t, rows, cfg, r)
	c16WriteRowsKeepAlive(ctx, h, e, rows, cfg, r)
	if file == nil {
		ctx.Hist("outcome", "write-error")
		c16Count(ctx, e.Name+"|"+cfg.Desc+"|"+strings.Join(valTexts, "|"), false)
		return
	}
	ctx.Hist("codec", cfg.Codec)
	ctx.Hist("pageversion", fmt.Sprint(cfg.PageVersion))
	ctx.Hist("rows", fmt.Sprint(n))

	// ---- read side
	c16TypedHistory(h, t, file, n, r)
	c16ReaderHistory(h, e, file, n, r)
	c16ConvertedHistory(h, e, file, r)
	c16RowsHistory(h, file, r)
	c16PagesHistory(h, file, r)
	c16ValueReaderHistory(h, file, r)
	// everything is closed by now: heavy churn, then the final comparison of all hand-overs
	c16Churn(r, 6)
	h.op("churn")
	h.verify("Close of all readers and pool churn by unrelated readers and writers")
	if all, err := e.ReadAll(bytes.NewReader(file), int64(len(file))); err == nil {
		h.hold("parquet.Read[T]", all)
		c16Churn(r, 3)
		h.verify("parquet.Read[T] returned and pool churn")
	}
	c16Count(ctx, e.Name+"|"+cfg.Desc+"|"+strings.Join(valTexts, "|")+"|"+strings.Join(h.ops, ","), nonEmptyBytes && len(h.held)+len(h.clones) >= 2)
	ctx.HistN("handovers", "go-batches", int64(len(h.held)))
	ctx.HistN("handovers", "cloned-row-sets", int64(len(h.clones)))
	if k == 0 && e.Name == "T003" {
		ctx.Sample(detail(map[string]any{"history": h.ops}))
	}
}

// c16WriteSide writes the rows through several ingestion APIs, comparing the caller's data before
// and after every call, and returns the file of the GenericWriter (nil on a write error).
func c16WriteSide(ctx *core.Ctx, h *c16Hist, e *gen.Entry, t *gen.Typed, rows reflect.Value, cfg *gen.WriterCfg, r *rand.Rand) []byte {
	n := rows.Len()
	before := c16CanonOf(rows)
	keep := c16Clone(rows)
	check := func(api string) {
		if c16CanonOf(rows) == before {
			return
		}
		path, kind, _ := c16Diff(keep, rows, e.Name)
		ctx.Fail("L1", "caller-slice-modified-by-write:"+api+":"+kind, "rows passed to "+api+" were modified by the library at "+path,
			h.detail(map[string]any{"api": api, "path": path}))
		before = c16CanonOf(rows)
		keep = c16Clone(rows)
	}
	// 1. GenericWriter.Write in batches (this file is the one read back)
	var buf bytes.Buffer
	tw, err := t.NewWriter(&buf, cfg.Opts...)
	if err != nil {
		return nil
	}
	for pos := 0; pos < n; {
		b := 1 + r.Intn(n-pos)
		if r.Intn(3) == 0 {
			b = n - pos
		}
		if _, err := tw.Write(rows.Slice(pos, pos+b).Interface()); err != nil {
			return nil
		}
		check("GenericWriter.Write")
		pos += b
		if r.Intn(4) == 0 {
			if tw.Flush() != nil {
				return nil
			}
			check("GenericWriter.Flush")
		}
	}
	if err := tw.Close(); err != nil {
		return nil
	}
	check("GenericWriter.Close")
	ctx.Hist("write-api", "GenericWriter")
	// 2. one more ingestion path per case
	var sink bytes.Buffer
	switch r.Intn(5) {
	case 0:
		e.WriteReflect(&sink, rows.Interface(), cfg.Opts...)
		check("Writer.Write")
		ctx.Hist("write-api", "Writer.Write")
	case 1:
		e.WriteBuffer(&sink, rows.Interface(), cfg.Opts...)
		check("Buffer.Write")
		ctx.Hist("write-api", "Buffer.Write")
	case 2:
		e.WriteRowBuffer(&sink, rows.Interface(), cfg.Opts...)
		check("RowBuffer.Write")
		ctx.Hist("write-api", "RowBuffer.Write")
	case 3:
		// Writer.WriteRows with caller-owned parquet rows
		prs := make([]parquet.Row, n)
		for i := 0; i < n; i++ {
			prs[i] = e.Schema.Deconstruct(nil, rows.Index(i).Addr().Interface())
		}
		snap := c16RowsText(prs)
		func() {
			defer func() { recover() }()
			pw := parquet.NewWriter(&sink, append([]parquet.WriterOption{e.Schema}, cfg.Opts...)...)
			for pos := 0; pos < n; {
				b := 1 + r.Intn(n-pos)
				pw.WriteRows(prs[pos : pos+b])
				pos += b
			}
			pw.Close()
		}()
		if now := c16RowsText(prs); now != snap {
			ctx.Fail("L1", "caller-slice-modified-by-write:Writer.WriteRows:row", "parquet rows passed to Writer.WriteRows were modified by the library",
				h.detail(map[string]any{"api": "Writer.WriteRows", "before": c16Trunc(snap), "after": c16Trunc(now)}))
		}
		check("Writer.WriteRows")
		ctx.Hist("write-api", "Writer.WriteRows")
	default:
		// sorting buffer: Write, sort.Sort, write the row group: the caller's slice keeps its order
		var sorting []parquet.SortingColumn
		for _, p := range e.Schema.Columns() {
			if leaf, ok := e.Schema.Lookup(p...); ok && leaf.MaxRepetitionLevel == 0 {
				if r.Intn(2) == 0 {
					sorting = append(sorting, parquet.Ascending(p...))
				} else {
					sorting = append(sorting, parquet.Descending(p...))
				}
				break
			}
		}
		// The sort / write-row-group path of an optional column can loop forever or panic on the
		// unchanged tree (cyclic reorder in optionalColumnBuffer.Page fed by a wrong permutation:
		// property C10's territory). It runs on its own goroutine; if it does not come back the case
		// goes on without it (the worker process ends the spinning goroutine when it exits).
		done := make(chan struct{})
		var stage struct {
			sync.Mutex
			checks []string
		}
		go func() {
			defer close(done)
			defer func() { recover() }()
			tb, err := t.NewBuffer(parquet.SortingRowGroupConfig(parquet.SortingColumns(sorting...)))
			if err != nil {
				return
			}
			if _, err := tb.Write(rows.Interface()); err != nil {
				return
			}
			stage.Lock()
			stage.checks = append(stage.checks, "GenericBuffer.Write")
			stage.Unlock()
			tb.Sort()
			stage.Lock()
			stage.checks = append(stage.checks, "sort.Sort(GenericBuffer)")
			stage.Unlock()
			var sortSink bytes.Buffer
			pw := parquet.NewWriter(&sortSink, append([]parquet.WriterOption{e.Schema}, cfg.Opts...)...)
			pw.WriteRowGroup(tb.RowGroup())
			pw.Close()
			stage.Lock()
			stage.checks = append(stage.checks, "Writer.WriteRowGroup(GenericBuffer)")
			stage.Unlock()
		}()
		select {
		case <-done:
		case <-time.After(20 * time.Second):
			ctx.Hist("write-api", "GenericBuffer+Sort:did-not-return(abandoned)")
		}
		stage.Lock()
		reached := "GenericBuffer.Write"
		if len(stage.checks) > 0 {
			reached = stage.checks[len(stage.checks)-1]
		}
		stage.Unlock()
		check(reached)
		ctx.Hist("write-api", "GenericBuffer+Sort")
	}
	return buf.Bytes()
}

// GenericReader.Read batches, SeekToRow, ReadRows, Close.
// c16PendingRows is what the previous ReadRows call on one reader returned (not cloned): it must be
// intact until the next call on that reader, whatever else happens in the process.
type c16PendingRows struct {
	rows []parquet.Row
	snap string
}

func (p *c16PendingRows) set(rows []parquet.Row) {
	p.rows, p.snap = rows, c16RowsText(rows)
}

func (p *c16PendingRows) check(h *c16Hist, r *rand.Rand, reader string) {
	if p.rows == nil {
		return
	}
	if r.Intn(2) == 0 {
		c16Churn(r, 1)
	}
	if now := c16RowsText(p.rows); now != p.snap {
		key := "row-changed-before-next-call"
		if strings.Contains(reader, "(") || strings.Contains(reader, "RowGroup") {
			key += ":" + reader // converted / merged views: re-indexed column chunks (convertedPage)
		}
		h.ctx.Fail("L1", key, "rows returned by "+reader+".ReadRows changed before the next call on the same reader",
			h.detail(map[string]any{"reader": reader, "before": c16Trunc(p.snap), "after": c16Trunc(now), "history": h.ops}))
	}
	p.rows = nil
}

// GenericReader: Read batches (fresh and REUSED destination slices, the caller keeping shallow
// copies of the rows), ReadRows, SeekToRow, Reset (rewind and re-read), Close.
func c16TypedHistory(h *c16Hist, t *gen.Typed, file []byte, n int, r *rand.Rand) {
	tr, err := t.NewReader(bytes.NewReader(file))
	if err != nil {
		h.ctx.Hist("outcome", "open-error")
		return
	}
	var pending c16PendingRows
	// one destination slice reused by every ReadInto call, as an application looping over Read does
	reuseLen := []int{1, 2, 3, 7, 20, 64}[r.Intn(6)]
	reused := reflect.ValueOf(tr.NewBatch(reuseLen))
	nops := 5 + r.Intn(8)
	for i := 0; i < nops; i++ {
		pending.check(h, r, "GenericReader")
		switch r.Intn(10) {
		case 0, 1:
			k := []int{1, 2, 7, 64, 300}[r.Intn(5)]
			batch, got, err := tr.Read(k)
			h.op("Read(%d)=%d", k, got)
			if got > 0 {
				h.hold(fmt.Sprintf("GenericReader.Read(batch of %d)", k), batch)
			}
			h.verify(fmt.Sprintf("GenericReader.Read(%d)", k))
			if err != nil && err != io.EOF {
				h.ctx.Hist("outcome", "read-error")
			}
		case 2, 3, 4:
			// the destination is reused; the caller keeps the rows it got (shallow: struct values with
			// their slice headers, strings and pointers), like `kept = append(kept, batch[:n]...)`
			got, _ := tr.ReadInto(reused.Interface())
			h.op("ReadInto(reused %d)=%d", reuseLen, got)
			if got > 0 {
				kept := reflect.MakeSlice(reused.Type(), got, got)
				reflect.Copy(kept, reused.Slice(0, got))
				h.hold(fmt.Sprintf("GenericReader.Read into a reused batch of %d (rows kept by shallow copy)", reuseLen), kept.Interface())
				h.ctx.Hist("typed-op", "read-reused")
			}
			h.verify("GenericReader.Read into the reused batch")
		case 5:
			pos := int64(r.Intn(n + 1))
			if r.Intn(3) == 0 {
				pos = 0
			}
			tr.SeekToRow(pos)
			h.op("SeekToRow(%d)", pos)
			h.verify("GenericReader.SeekToRow")
		case 6:
			tr.Reset()
			h.op("Reset")
			h.ctx.Hist("typed-op", "reset")
			h.verify("GenericReader.Reset")
		case 7, 8:
			rows := make([]parquet.Row, 1+r.Intn(40))
			got, _ := tr.ReadRows(rows)
			h.op("ReadRows(%d)=%d", len(rows), got)
			if got > 0 {
				pending.set(rows[:got])
				h.holdClones("GenericReader.ReadRows + Row.Clone", rows[:got])
			}
			h.verify("GenericReader.ReadRows")
		default:
			c16Churn(r, 1)
			h.op("churn1")
			h.verify("unrelated reader/writer activity")
		}
	}
	pending.check(h, r, "GenericReader")
	tr.Close()
	h.op("Close")
	h.verify("GenericReader.Close")
}

// The deprecated Reader: Read(&row) one by one, ReadRows, Reset, SeekToRow.
func c16ReaderHistory(h *c16Hist, e *gen.Entry, file []byte, n int, r *rand.Rand) {
	defer func() {
		if p := recover(); p != nil {
			h.ctx.Hist("outcome", "reader-panic")
		}
	}()
	rd := parquet.NewReader(bytes.NewReader(file), e.Schema)
	var pending c16PendingRows
	for i := 0; i < 4+r.Intn(6); i++ {
		pending.check(h, r, "Reader")
		switch r.Intn(5) {
		case 0, 1:
			rows := make([]parquet.Row, 1+r.Intn(40))
			got, _ := rd.ReadRows(rows)
			h.op("Reader.ReadRows(%d)=%d", len(rows), got)
			if got > 0 {
				pending.set(rows[:got])
				h.holdClones("Reader.ReadRows + Row.Clone", rows[:got])
			}
			h.verify("Reader.ReadRows")
		case 2:
			row := reflect.New(e.Type)
			if err := rd.Read(row.Interface()); err == nil {
				one := reflect.MakeSlice(reflect.SliceOf(e.Type), 1, 1)
				one.Index(0).Set(row.Elem())
				h.hold("Reader.Read(&row)", one.Interface())
			}
			h.op("Reader.Read")
			h.verify("Reader.Read")
		case 3:
			rd.Reset()
			h.op("Reader.Reset")
			h.ctx.Hist("typed-op", "reader-reset")
			h.verify("Reader.Reset")
		default:
			pos := int64(0)
			if r.Intn(2) == 0 {
				pos = int64(r.Intn(n + 1))
			}
			rd.SeekToRow(pos)
			h.op("Reader.SeekToRow(%d)", pos)
			h.verify("Reader.SeekToRow")
		}
	}
	pending.check(h, r, "Reader")
	rd.Close()
	h.op("Reader.Close")
	h.verify("Reader.Close")
}

// Rows().ReadRows: the returned rows must be unchanged until the next call on the same reader.
func c16RowsHistory(h *c16Hist, file []byte, r *rand.Rand) {
	f, err := parquet.OpenFile(bytes.NewReader(file), int64(len(file)))
	if err != nil {
		return
	}
	for gi, rg := range f.RowGroups() {
		if gi >= 3 {
			break
		}
		func() {
			defer func() {
				if p := recover(); p != nil {
					h.ctx.Hist("outcome", "rows-panic")
				}
			}()
			rows := rg.Rows()
			buf := make([]parquet.Row, 1+r.Intn(40))
			var pending []parquet.Row // returned by the previous call, not cloned
			var pendingSnap string
			calls := 0
			for calls < 16 {
				calls++
				// before the next call on this reader: what the previous call returned is intact
				if pending != nil {
					if r.Intn(2) == 0 {
						c16Churn(r, 1)
					}
					if now := c16RowsText(pending); now != pendingSnap {
						h.ctx.Fail("L1", "row-changed-before-next-call", "rows returned by Rows.ReadRows changed before the next call on the same reader",
							h.detail(map[string]any{"row_group": gi, "before": c16Trunc(pendingSnap), "after": c16Trunc(now), "history": h.ops}))
					}
				}
				if r.Intn(5) == 0 && rg.NumRows() > 0 {
					pos := r.Int63n(rg.NumRows())
					if r.Intn(3) == 0 {
						pos = 0
					}
					rows.SeekToRow(pos)
					h.op("rg%d.SeekToRow(%d)", gi, pos)
					pending = nil
					h.verify("Rows.SeekToRow")
					continue
				}
				if rs, ok := rows.(interface{ Reset() }); ok && r.Intn(6) == 0 {
					rs.Reset()
					h.op("rg%d.Reset", gi)
					h.ctx.Hist("typed-op", "rows-reset")
					pending = nil
					h.verify("Rows.Reset")
					continue
				}
				if r.Intn(2) == 0 {
					buf = make([]parquet.Row, 1+r.Intn(40)) // fresh row buffers: the old rows stay with the caller
				}
				got, err := rows.ReadRows(buf)
				h.op("rg%d.ReadRows(%d)=%d", gi, len(buf), got)
				if got > 0 {
					pending = buf[:got]
					pendingSnap = c16RowsText(pending)
					h.holdClones("Rows.ReadRows + Row.Clone", pending)
				} else {
					pending = nil
				}
				h.verify("Rows.ReadRows")
				if err != nil || got == 0 {
					break
				}
			}
			rows.Close()
			h.op("rg%d.Close", gi)
			h.verify("Rows.Close")
		}()
	}
}

// Pages: values of a page stay while the page is held; cloned values stay after Release.
func c16PagesHistory(h *c16Hist, file []byte, r *rand.Rand) {
	f, err := parquet.OpenFile(bytes.NewReader(file), int64(len(file)))
	if err != nil {
		return
	}
	type heldPage struct {
		page parquet.Page
		raw  []parquet.Value
		snap string
		col  int
	}
	rgs := f.RowGroups()
	if len(rgs) == 0 {
		return
	}
	rg := rgs[r.Intn(len(rgs))]
	ccs := rg.ColumnChunks()
	for try := 0; try < 3 && try < len(ccs); try++ {
		ci := r.Intn(len(ccs))
		func() {
			defer func() {
				if p := recover(); p != nil {
					h.ctx.Hist("outcome", "pages-panic")
				}
			}()
			pages := ccs[ci].Pages()
			if r.Intn(3) == 0 {
				// the asynchronous page reader: pages are read ahead on another goroutine and handed
				// over through a channel; what the caller holds must be just as stable
				pages = parquet.AsyncPages(pages)
				h.op("col%d.AsyncPages", ci)
				h.ctx.Hist("pages-reader", "async")
			} else {
				h.ctx.Hist("pages-reader", "sync")
			}
			var held []heldPage
			checkHeld := func(stage string) {
				for i := range held {
					if now := c16ValuesText(held[i].raw); now != held[i].snap {
						h.ctx.Fail("L1", "page-values-changed-while-held", "values read from a page the caller still holds changed after "+stage,
							h.detail(map[string]any{"column": held[i].col, "before": c16Trunc(held[i].snap), "after": c16Trunc(now), "history": h.ops}))
						held[i].snap = now
					}
				}
			}
			readAll := func(p parquet.Page) []parquet.Value {
				var out []parquet.Value
				vr := p.Values()
				b := make([]parquet.Value, 64)
				for {
					n, err := vr.ReadValues(b)
					out = append(out, b[:n]...)
					if err != nil || n == 0 {
						return out
					}
				}
			}
			for np := 0; np < 8; np++ {
				if r.Intn(6) == 0 && rg.NumRows() > 0 {
					pos := r.Int63n(rg.NumRows())
					pages.SeekToRow(pos)
					h.op("col%d.pages.SeekToRow(%d)", ci, pos)
					checkHeld("Pages.SeekToRow")
				}
				p, err := pages.ReadPage()
				if err != nil {
					break
				}
				h.op("col%d.ReadPage", ci)
				checkHeld("Pages.ReadPage")
				raw := readAll(p)
				rowOf := parquet.Row(raw)
				h.holdClones("Page.Values + Value.Clone", []parquet.Row{rowOf})
				switch r.Intn(4) {
				case 0: // release at once: only the clones survive
					parquet.Release(p)
					h.op("Release")
				case 1: // hold across later calls
					held = append(held, heldPage{p, raw, c16ValuesText(raw), ci})
				case 2: // Retain + Release keeps one reference
					parquet.Retain(p)
					parquet.Release(p)
					h.op("Retain,Release")
					held = append(held, heldPage{p, raw, c16ValuesText(raw), ci})
				default: // Slice, release the original: the slice keeps the buffers
					if nr := p.NumRows(); nr > 0 {
						i := r.Int63n(nr)
						s := p.Slice(i, nr)
						parquet.Release(p)
						h.op("Slice(%d,%d),Release", i, nr)
						sraw := readAll(s)
						held = append(held, heldPage{s, sraw, c16ValuesText(sraw), ci})
					} else {
						parquet.Release(p)
					}
				}
				if r.Intn(3) == 0 {
					c16Churn(r, 1)
					checkHeld("unrelated reader/writer activity")
				}
				h.verify("Pages.ReadPage / Release")
			}
			pages.Close()
			h.op("col%d.pages.Close", ci)
			checkHeld("Pages.Close")
			c16Churn(r, 2)
			checkHeld("Pages.Close and pool churn")
			for _, hp := range held {
				parquet.Release(hp.page)
			}
			h.verify("release of all held pages")
		}()
	}
}

// c16ReadRowsLoop drives one row reader: what a ReadRows call returned is compared just before the
// next call on the same reader (with and without unrelated pool activity in between), clones forever.
func c16ReadRowsLoop(h *c16Hist, rows parquet.Rows, label string, numRows int64, r *rand.Rand) {
	defer func() {
		if p := recover(); p != nil {
			h.ctx.Hist("outcome", "rows-panic:"+label)
		}
	}()
	var pending c16PendingRows
	buf := make([]parquet.Row, []int{1, 7, 40, 300}[r.Intn(4)])
	for calls := 0; calls < 14; calls++ {
		pending.check(h, r, label)
		if r.Intn(7) == 0 && numRows > 0 {
			pos := r.Int63n(numRows)
			if r.Intn(3) == 0 {
				pos = 0
			}
			rows.SeekToRow(pos)
			h.op("%s.SeekToRow(%d)", label, pos)
			h.verify(label + ".SeekToRow")
			continue
		}
		if r.Intn(2) == 0 {
			buf = make([]parquet.Row, len(buf))
		}
		got, err := rows.ReadRows(buf)
		h.op("%s.ReadRows(%d)=%d", label, len(buf), got)
		if got > 0 {
			pending.set(buf[:got])
			h.holdClones(label+".ReadRows + Row.Clone", buf[:got])
		}
		h.verify(label + ".ReadRows")
		if err != nil || got == 0 {
			break
		}
	}
	pending.check(h, r, label)
	rows.Close()
	h.op("%s.Close", label)
	h.verify(label + ".Close")
}

// c16PermutedSchema: the same top-level fields in another order (sometimes one dropped), so that
// leaf columns get a new column index in a converted or merged view.
func c16PermutedSchema(e *gen.Entry, r *rand.Rand) (schema *parquet.Schema) {
	defer func() {
		if p := recover(); p != nil {
			schema = nil
		}
	}()
	var fields []reflect.StructField
	for i := 0; i < e.Type.NumField(); i++ {
		f := e.Type.Field(i)
		fields = append(fields, reflect.StructField{Name: f.Name, Type: f.Type, Tag: f.Tag})
	}
	if len(fields) < 2 {
		return nil
	}
	if r.Intn(2) == 0 {
		for i, j := 0, len(fields)-1; i < j; i, j = i+1, j-1 {
			fields[i], fields[j] = fields[j], fields[i]
		}
	} else {
		fields = append(fields[1:], fields[0])
	}
	if len(fields) >= 3 && r.Intn(3) == 0 {
		fields = fields[:len(fields)-1]
	}
	st := reflect.StructOf(fields)
	return parquet.SchemaOf(reflect.New(st).Elem().Interface())
}

// Row readers over CONVERTED and MERGED row groups (convertedPage, re-indexed column chunks): both
// the chunk-level reader NewRowGroupRowReader(view) and view.Rows().
func c16ConvertedHistory(h *c16Hist, e *gen.Entry, file []byte, r *rand.Rand) {
	defer func() {
		if p := recover(); p != nil {
			h.ctx.Hist("outcome", "converted-panic")
		}
	}()
	target := c16PermutedSchema(e, r)
	if target == nil {
		h.ctx.Hist("converted", "no-permutation")
		return
	}
	f, err := parquet.OpenFile(bytes.NewReader(file), int64(len(file)))
	if err != nil {
		return
	}
	rgs := f.RowGroups()
	if len(rgs) == 0 {
		return
	}
	rg := rgs[r.Intn(len(rgs))]
	if conv, err := parquet.Convert(target, rg.Schema()); err == nil {
		view := parquet.ConvertRowGroup(rg, conv)
		c16ReadRowsLoop(h, parquet.NewRowGroupRowReader(view), "NewRowGroupRowReader(ConvertRowGroup)", view.NumRows(), r)
		c16ReadRowsLoop(h, view.Rows(), "ConvertRowGroup.Rows", view.NumRows(), r)
		h.ctx.Hist("converted", "view")
	} else {
		h.ctx.Hist("converted", "convert-error")
	}
	if len(rgs) > 3 {
		rgs = rgs[:3]
	}
	if merged, err := parquet.MergeRowGroups(rgs, target); err == nil {
		c16ReadRowsLoop(h, parquet.NewRowGroupRowReader(merged), "NewRowGroupRowReader(MergeRowGroups)", merged.NumRows(), r)
		c16ReadRowsLoop(h, merged.Rows(), "MergeRowGroups.Rows", merged.NumRows(), r)
		h.ctx.Hist("converted", "merged")
	} else {
		h.ctx.Hist("converted", "merge-error")
	}
}

// The caller's []Row batches stay alive across Reset, later writes, sorting-run flushes and Close and
// are re-compared after every later call: the library must never write through them.
func c16WriteRowsKeepAlive(ctx *core.Ctx, h *c16Hist, e *gen.Entry, rows reflect.Value, cfg *gen.WriterCfg, r *rand.Rand) {
	n := rows.Len()
	if n < 2 {
		return
	}
	prs := make([]parquet.Row, n)
	for i := 0; i < n; i++ {
		prs[i] = e.Schema.Deconstruct(nil, rows.Index(i).Addr().Interface())
	}
	var batches [][]parquet.Row
	for pos := 0; pos < n; {
		b := 1 + r.Intn((n+1)/2)
		if pos+b > n {
			b = n - pos
		}
		batches = append(batches, prs[pos:pos+b])
		pos += b
	}
	snaps := make([]string, len(batches))
	for i, b := range batches {
		snaps[i] = c16RowsText(b)
	}
	var api string
	var hist []string
	written := 0
	check := func(stage string) {
		hist = append(hist, stage)
		for i := 0; i < written; i++ {
			if now := c16RowsText(batches[i]); now != snaps[i] {
				ctx.Fail("L1", "caller-slice-modified-by-write:"+api+":row-kept-across-later-calls",
					fmt.Sprintf("parquet rows passed to %s (batch %d) were changed by the library after %s", api, i, stage),
					h.detail(map[string]any{"api": api, "batch": i, "calls": hist, "before": c16Trunc(snaps[i]), "after": c16Trunc(now)}))
				snaps[i] = now
			}
		}
	}
	var sorting []parquet.SortingColumn
	for _, p := range e.Schema.Columns() {
		if leaf, ok := e.Schema.Lookup(p...); ok && leaf.MaxRepetitionLevel == 0 && r.Intn(2) == 0 {
			sorting = append(sorting, parquet.Ascending(p...))
			break
		}
	}
	done := make(chan struct{})
	go func() {
		defer close(done)
		defer func() { recover() }()
		var sink bytes.Buffer
		switch r.Intn(4) {
		case 0:
			api = "RowBuffer.WriteRows"
			rb := parquet.NewRowBuffer[any](e.Schema, parquet.SortingRowGroupConfig(parquet.SortingColumns(sorting...)))
			for i, b := range batches {
				rb.WriteRows(b)
				written = i + 1
				check("WriteRows")
				if r.Intn(2) == 0 {
					sort.Sort(rb)
					check("sort.Sort")
				}
				if r.Intn(3) == 0 {
					pw := parquet.NewWriter(&sink, append([]parquet.WriterOption{e.Schema}, cfg.Opts...)...)
					pw.WriteRowGroup(rb)
					pw.Close()
					check("WriteRowGroup(RowBuffer)")
				}
				rb.Reset()
				check("Reset")
			}
		case 1:
			api = "Buffer.WriteRows"
			bf := parquet.NewBuffer(e.Schema, parquet.SortingRowGroupConfig(parquet.SortingColumns(sorting...)))
			for i, b := range batches {
				bf.WriteRows(b)
				written = i + 1
				check("WriteRows")
				if r.Intn(3) == 0 {
					bf.Reset()
					check("Reset")
				}
			}
		case 2:
			api = "SortingWriter.WriteRows"
			sortRows := int64(1 + r.Intn(len(batches[0])+2))
			sw := parquet.NewSortingWriter[any](&sink, sortRows, append([]parquet.WriterOption{e.Schema,
				parquet.SortingWriterConfig(parquet.SortingColumns(sorting...))}, cfg.Opts...)...)
			for i, b := range batches {
				sw.WriteRows(b)
				written = i + 1
				check("WriteRows")
				if r.Intn(4) == 0 {
					sw.Flush()
					check("Flush")
				}
			}
			sw.Close()
			check("Close")
		default:
			api = "Writer.WriteRows"
			pw := parquet.NewWriter(&sink, append([]parquet.WriterOption{e.Schema}, cfg.Opts...)...)
			for i, b := range batches {
				pw.WriteRows(b)
				written = i + 1
				check("WriteRows")
				if r.Intn(3) == 0 {
					pw.Flush()
					check("Flush")
				}
			}
			pw.Close()
			check("Close")
		}
	}()
	select {
	case <-done:
		ctx.Hist("write-rows-kept", api)
	case <-time.After(20 * time.Second):
		ctx.Hist("write-rows-kept", "did-not-return(abandoned)")
	}
}

// ---- map-typed fields (hand-written types: the catalogue has none)

type c16MapInner struct {
	Note string            `parquet:"note"`
	Tags map[string]string `parquet:"tags"`
}

type c16MapRow struct {
	ID     int64                  `parquet:"id"`
	Counts map[string]int64       `parquet:"counts"`
	Labels map[string]string      `parquet:"labels"`
	Nested map[string]c16MapInner `parquet:"nested"`
	Name   string                 `parquet:"name"`
}

func c16MapRows(r *rand.Rand, n int) []c16MapRow {
	rows := make([]c16MapRow, n)
	for i := range rows {
		rows[i].ID = int64(i)
		rows[i].Name = fmt.Sprintf("row-%04d", i)
		rows[i].Counts = map[string]int64{}
		rows[i].Labels = map[string]string{}
		rows[i].Nested = map[string]c16MapInner{}
		for k := r.Intn(4); k > 0; k-- {
			rows[i].Counts[fmt.Sprintf("c%d-%d", i, k)] = int64(r.Intn(1000))
		}
		for k := r.Intn(4); k > 0; k-- {
			rows[i].Labels[fmt.Sprintf("l%d-%d", i, k)] = fmt.Sprintf("label-%d-%d", i, r.Intn(100))
		}
		for k := r.Intn(3); k > 0; k-- {
			in := c16MapInner{Note: fmt.Sprintf("n%d", i), Tags: map[string]string{}}
			for t := r.Intn(3); t > 0; t-- {
				in.Tags[fmt.Sprintf("t%d-%d-%d", i, k, t)] = fmt.Sprint(r.Intn(10))
			}
			rows[i].Nested[fmt.Sprintf("k%d-%d", i, k)] = in
		}
	}
	return rows
}

func c16MapCanon(rows []c16MapRow) string {
	var sb strings.Builder
	for _, row := range rows {
		fmt.Fprintf(&sb, "{%d %q counts[", row.ID, row.Name)
		ks := make([]string, 0, len(row.Counts))
		for k := range row.Counts {
			ks = append(ks, k)
		}
		sort.Strings(ks)
		for _, k := range ks {
			fmt.Fprintf(&sb, "%s=%d,", k, row.Counts[k])
		}
		sb.WriteString("] labels[")
		ks = ks[:0]
		for k := range row.Labels {
			ks = append(ks, k)
		}
		sort.Strings(ks)
		for _, k := range ks {
			fmt.Fprintf(&sb, "%s=%s,", k, row.Labels[k])
		}
		sb.WriteString("] nested[")
		ks = ks[:0]
		for k := range row.Nested {
			ks = append(ks, k)
		}
		sort.Strings(ks)
		for _, k := range ks {
			in := row.Nested[k]
			fmt.Fprintf(&sb, "%s=(%s", k, in.Note)
			ts := make([]string, 0, len(in.Tags))
			for t := range in.Tags {
				ts = append(ts, t)
			}
			sort.Strings(ts)
			for _, t := range ts {
				fmt.Fprintf(&sb, " %s=%s", t, in.Tags[t])
			}
			sb.WriteString("),")
		}
		sb.WriteString("]}")
	}
	return sb.String()
}

// c16MapHistories: GenericReader.Read into a REUSED destination slice, the rows of earlier batches
// kept by shallow copy (the struct values with their map headers): no later Read may change them.
func c16MapHistories(ctx *core.Ctx) {
	r := ctx.Rand("c16/maps")
	ncases := ctx.Scale(40, 300)
	for k := 0; k < ncases; k++ {
		func() {
			var desc string
			defer c16Recover(ctx, "map-field history", func(m map[string]any) map[string]any { m["case"] = desc; return m })
			n := []int{3, 9, 33, 100}[r.Intn(4)]
			rows := c16MapRows(r, n)
			codec := gen.CodecNames[r.Intn(len(gen.CodecNames))]
			pb := []int{24, 200, 4096}[r.Intn(3)]
			batchLen := []int{1, 2, 3, 7, 20}[r.Intn(5)]
			desc = fmt.Sprintf("c16MapRow rows=%d codec=%s pagebuf=%d reused-batch=%d case=%d", n, codec, pb, batchLen, k)
			var buf bytes.Buffer
			w := parquet.NewGenericWriter[c16MapRow](&buf, parquet.Compression(gen.Codecs[codec]), parquet.PageBufferSize(pb))
			if _, err := w.Write(rows); err != nil {
				ctx.Hist("maps", "write-error")
				return
			}
			if err := w.Close(); err != nil {
				ctx.Hist("maps", "write-error")
				return
			}
			gr := parquet.NewGenericReader[c16MapRow](bytes.NewReader(buf.Bytes()))
			batch := make([]c16MapRow, batchLen)
			type keptBatch struct {
				rows []c16MapRow
				snap string
				at   string
			}
			var kept []keptBatch
			var ops []string
			verify := func(stage string) {
				for i := range kept {
					if now := c16MapCanon(kept[i].rows); now != kept[i].snap {
						ctx.Fail("L1", "go-value-overwritten-by-later-read:map", "rows filled by "+kept[i].at+" and kept by the caller (shallow copy of the struct values) changed after "+stage+": a later Read wrote into a map of rows already handed out",
							map[string]any{"case": desc, "history": ops, "before": c16Trunc(kept[i].snap), "after": c16Trunc(now)})
						kept[i].snap = now
					}
				}
			}
			for i := 0; i < 4+r.Intn(8); i++ {
				switch r.Intn(6) {
				case 0:
					gr.Reset()
					ops = append(ops, "Reset")
					verify("GenericReader.Reset")
				case 1:
					pos := int64(r.Intn(n))
					gr.SeekToRow(pos)
					ops = append(ops, fmt.Sprintf("SeekToRow(%d)", pos))
					verify("GenericReader.SeekToRow")
				default:
					got, _ := gr.Read(batch)
					ops = append(ops, fmt.Sprintf("Read(reused %d)=%d", batchLen, got))
					verify("GenericReader.Read into the reused batch")
					if got > 0 {
						cp := append([]c16MapRow(nil), batch[:got]...)
						kept = append(kept, keptBatch{cp, c16MapCanon(cp), ops[len(ops)-1]})
					}
				}
			}
			gr.Close()
			verify("GenericReader.Close")
			c16Count(ctx, "maps|"+desc+"|"+strings.Join(ops, ","), len(kept) >= 2)
			ctx.Hist("maps", "ran")
		}()
	}
}

// NewColumnChunkValueReader (no detach): values are valid until the next call on the same reader.
func c16ValueReaderHistory(h *c16Hist, file []byte, r *rand.Rand) {
	f, err := parquet.OpenFile(bytes.NewReader(file), int64(len(file)))
	if err != nil {
		return
	}
	rgs := f.RowGroups()
	if len(rgs) == 0 {
		return
	}
	rg := rgs[r.Intn(len(rgs))]
	ccs := rg.ColumnChunks()
	ci := r.Intn(len(ccs))
	defer func() {
		if p := recover(); p != nil {
			h.ctx.Hist("outcome", "valuereader-panic")
		}
	}()
	vr := parquet.NewColumnChunkValueReader(ccs[ci])
	buf := make([]parquet.Value, []int{1, 7, 64, 1000}[r.Intn(4)])
	var pending []parquet.Value
	var pendingSnap string
	for calls := 0; calls < 14; calls++ {
		if pending != nil {
			if r.Intn(2) == 0 {
				c16Churn(r, 1)
			}
			if now := c16ValuesText(pending); now != pendingSnap {
				h.ctx.Fail("L1", "values-changed-before-next-call", "values returned by ColumnChunkValueReader.ReadValues changed before the next call on the same reader",
					h.detail(map[string]any{"column": ci, "before": c16Trunc(pendingSnap), "after": c16Trunc(now), "history": h.ops}))
			}
		}
		if r.Intn(6) == 0 {
			if r.Intn(2) == 0 {
				vr.SeekToRow(0)
				h.op("col%d.valuereader.SeekToRow(0)", ci)
			} else if rs, ok := vr.(interface{ Reset() }); ok {
				rs.Reset()
				h.op("col%d.valuereader.Reset", ci)
			}
			pending = nil
			h.verify("ColumnChunkValueReader.SeekToRow(0)/Reset")
			continue
		}
		if r.Intn(3) == 0 {
			buf = make([]parquet.Value, len(buf)) // keep the old values with the caller
		}
		n, err := vr.ReadValues(buf)
		h.op("col%d.ReadValues(%d)=%d", ci, len(buf), n)
		if n > 0 {
			pending = buf[:n]
			pendingSnap = c16ValuesText(pending)
			h.holdClones("ColumnChunkValueReader.ReadValues + Value.Clone", []parquet.Row{parquet.Row(pending)})
		} else {
			pending = nil
		}
		h.verify("ColumnChunkValueReader.ReadValues")
		if err != nil || n == 0 {
			break
		}
	}
	vr.Close()
	h.op("col%d.valuereader.Close", ci)
	h.verify("ColumnChunkValueReader.Close")
}

// ---------------------------------------------------------------- L2: refcount / pool events vs the Lean model

type c16Ids struct {
	dense map[uint64]int
	refc  []int32
}

func (m *c16Ids) id(x uint64) int {
	if d, ok := m.dense[x]; ok {
		return d
	}
	d := len(m.dense)
	m.dense[x] = d
	m.refc = append(m.refc, 0)
	return d
}

func c16PoolInProcess(ctx *core.Ctx) {
	d := ctx.Driver()
	if d == nil {
		return
	}
	r := ctx.Rand("c16/pool")
	c16PoolTraces(ctx, d, r)
	c16PoolPagesAPI(ctx, d, r)
}

type c16Asker interface {
	Ask(string) (string, error)
}

// Part A: every buffer event the library produces must be a transition the model heap allows, with
// the same resulting reference count.
func c16PoolTraces(ctx *core.Ctx, d c16Asker, r *rand.Rand) {
	ncases := ctx.Scale(150, 1500)
	for k := 0; k < ncases; k++ {
		if !c16TraceCase(ctx, d, r, k) {
			return
		}
	}
}

func c16TraceCase(ctx *core.Ctx, d c16Asker, r *rand.Rand, k int) (goOn bool) {
	defer func() {
		if p := recover(); p != nil {
			parquet.VerifPoolTraceStop()
			ctx.Fail("L2", "trace-panic", "the library panicked while a traced history ran on a valid file: "+fmt.Sprint(p), map[string]any{"case": k})
			goOn = true
		}
	}()
	{
		e := gen.Catalog[k%len(gen.Catalog)]
		n := []int{1, 9, 65, 200}[r.Intn(4)]
		rows := e.NewRows(n)
		gen.FillRows(r, rows, &gen.Profile{NullProb: 0.3, MaxLen: 3})
		cfg := gen.RandWriterCfg(r)
		parquet.VerifPoolTraceStart()
		var buf bytes.Buffer
		werr := e.WriteGeneric(&buf, rows.Interface(), nil, cfg.Opts...)
		var hist []string
		if werr == nil {
			file := buf.Bytes()
			switch r.Intn(3) {
			case 0:
				e.ReadAll(bytes.NewReader(file), int64(len(file)))
				hist = append(hist, "Read[T]")
			case 1:
				gen.ReadRowsColumns(file, 1+r.Intn(50))
				hist = append(hist, "Rows.ReadRows")
			default:
				gen.ReadColumns(file)
				hist = append(hist, "pages")
			}
			hh := &c16Hist{ctx: ctx, e: e, detail: func(m map[string]any) map[string]any { return m }}
			c16PagesHistoryNoChurn(hh, file, r)
			hist = append(hist, hh.ops...)
		}
		parquet.VerifPoolTraceStop()
		evs := parquet.VerifPoolTraceTake()
		ids := &c16Ids{dense: map[uint64]int{}}
		var toks []string
		var want []string
		puts, zeros := 0, 0
		for _, ev := range evs {
			if ev.ID == 0 {
				continue // storage owned by the application (newBuffer), not pooled
			}
			if ev.Kind == 'p' {
				puts++
				continue
			}
			b := ids.id(ev.ID)
			toks = append(toks, fmt.Sprintf("%c%d", ev.Kind, b))
			want = append(want, fmt.Sprint(ev.Refc))
			if ev.Kind == 'u' && ev.Refc == 0 {
				zeros++
			}
		}
		c16Count(ctx, fmt.Sprintf("trace|%s|%s|%d|%v|%d", e.Name, cfg.Desc, n, hist, len(toks)), len(toks) >= 20)
		ctx.Hist("trace-events", c16Bucket(len(toks)))
		det := map[string]any{"type": e.Name, "config": cfg.Desc, "rows": n, "history": hist, "events": len(toks), "case": k}
		if puts != zeros {
			ctx.Fail("L2", "trace-put-count", fmt.Sprintf("%d buffers reached refcount zero but %d were put", zeros, puts), det)
		}
		if len(toks) == 0 {
			return true
		}
		ans, err := d.Ask("pool.trace " + strings.Join(toks, ","))
		if err != nil {
			ctx.Fail("L2", "driver-error", err.Error(), nil)
			return false
		}
		if strings.HasPrefix(ans, "err ") {
			f := strings.Fields(ans)
			det["model"] = ans
			if len(f) >= 3 {
				var i int
				fmt.Sscan(f[1], &i)
				lo := i - 12
				if lo < 0 {
					lo = 0
				}
				det["events_before"] = toks[lo : i+1]
				ctx.Fail("L2", "trace-transition-rejected:"+f[2], "the library performed a buffer transition the pool model does not allow: "+ans, det)
			} else {
				ctx.Fail("L2", "trace-transition-rejected", ans, det)
			}
			return true
		}
		if ans != "ok "+strings.Join(want, ",") {
			det["model"] = c16Trunc(ans)
			det["impl"] = c16Trunc(strings.Join(want, ","))
			ctx.Fail("L2", "trace-refcount-differs", "reference counts after the library's buffer events differ from the model's", det)
		}
	}
	return true
}

func c16Bucket(n int) string {
	switch {
	case n == 0:
		return "0"
	case n < 20:
		return "<20"
	case n < 200:
		return "<200"
	case n < 2000:
		return "<2000"
	}
	return ">=2000"
}

// the pages history without churn (single-threaded tracing)
func c16PagesHistoryNoChurn(h *c16Hist, file []byte, r *rand.Rand) {
	f, err := parquet.OpenFile(bytes.NewReader(file), int64(len(file)))
	if err != nil {
		return
	}
	for _, rg := range f.RowGroups() {
		for ci, cc := range rg.ColumnChunks() {
			if ci > 2 {
				break
			}
			func() {
				defer func() { recover() }()
				pages := cc.Pages()
				var held []parquet.Page
				for np := 0; np < 6; np++ {
					if r.Intn(5) == 0 && rg.NumRows() > 0 {
						pages.SeekToRow(r.Int63n(rg.NumRows()))
						h.op("seek")
					}
					p, err := pages.ReadPage()
					if err != nil {
						break
					}
					switch r.Intn(4) {
					case 0:
						parquet.Release(p)
						h.op("read,release")
					case 1:
						held = append(held, p)
						h.op("read,hold")
					case 2:
						parquet.Retain(p)
						held = append(held, p, p)
						h.op("read,retain")
					default:
						if nr := p.NumRows(); nr > 0 {
							held = append(held, p.Slice(0, nr))
						}
						parquet.Release(p)
						h.op("read,slice,release")
					}
				}
				pages.Close()
				for _, p := range held {
					parquet.Release(p)
				}
				h.op("close,release-all")
			}()
		}
		break
	}
}

// Part B: the pages API of one column chunk, call by call, against the API-level model
// (FilePages.ReadPage with the lastPage cache, SeekToRow, Close, Retain/Release/Slice).
func c16PoolPagesAPI(ctx *core.Ctx, d c16Asker, r *rand.Rand) {
	ncases := ctx.Scale(500, 6000)
	for k := 0; k < ncases; k++ {
		c16PagesAPICase(ctx, d, r, k)
	}
}

type c16Col struct {
	node  parquet.Node
	desc  string
	bytes bool
}

func c16RandCol(r *rand.Rand) c16Col {
	var n parquet.Node
	var desc string
	isBytes := r.Intn(3) > 0
	if isBytes {
		n, desc = parquet.String(), "string"
	} else {
		n, desc = parquet.Int(64), "int64"
	}
	switch r.Intn(3) {
	case 0:
		n, desc = parquet.Encoded(n, &parquet.Plain), desc+",plain"
	case 1:
		n, desc = parquet.Encoded(n, &parquet.RLEDictionary), desc+",dict"
	default:
		if isBytes {
			n, desc = parquet.Encoded(n, &parquet.DeltaLengthByteArray), desc+",deltalength"
		} else {
			n, desc = parquet.Encoded(n, &parquet.DeltaBinaryPacked), desc+",delta"
		}
	}
	if r.Intn(2) == 0 {
		n, desc = parquet.Optional(n), desc+",optional"
	}
	codec := gen.CodecNames[r.Intn(len(gen.CodecNames))]
	n, desc = parquet.Compressed(n, gen.Codecs[codec]), desc+","+codec
	return c16Col{n, desc, isBytes}
}

func c16PagesAPICase(ctx *core.Ctx, d c16Asker, r *rand.Rand, k int) {
	defer func() {
		if p := recover(); p != nil {
			parquet.VerifPoolTraceStop()
			ctx.Fail("L2", "pagesapi-panic", "the library panicked while the pages API was driven on a valid file: "+fmt.Sprint(p), map[string]any{"case": k})
		}
	}()
	col := c16RandCol(r)
	schema := parquet.NewSchema("t", parquet.Group{"c": col.node})
	nrows := 40 + r.Intn(300)
	pv := 1 + r.Intn(2)
	var buf bytes.Buffer
	w := parquet.NewWriter(&buf, schema, parquet.DataPageVersion(pv), parquet.PageBufferSize(64+r.Intn(400)))
	optional := col.node.Optional()
	for i := 0; i < nrows; i++ {
		var v parquet.Value
		if col.bytes {
			v = parquet.ByteArrayValue([]byte(fmt.Sprintf("v%05d-%s", i%37, strings.Repeat("x", r.Intn(12)))))
		} else {
			v = parquet.Int64Value(int64(i % 53))
		}
		if optional {
			if r.Intn(4) == 0 {
				v = parquet.NullValue().Level(0, 0, 0)
			} else {
				v = v.Level(0, 1, 0)
			}
		}
		if _, err := w.WriteRows([]parquet.Row{{v}}); err != nil {
			ctx.Hist("pagesapi", "write-error")
			return
		}
	}
	if err := w.Close(); err != nil {
		ctx.Hist("pagesapi", "write-error")
		return
	}
	file := buf.Bytes()
	f, err := parquet.OpenFile(bytes.NewReader(file), int64(len(file)))
	if err != nil || len(f.RowGroups()) == 0 {
		ctx.Hist("pagesapi", "open-error")
		return
	}
	cc := f.RowGroups()[0].ColumnChunks()[0]
	oi, err := cc.OffsetIndex()
	if err != nil || oi.NumPages() == 0 {
		ctx.Hist("pagesapi", "no-offset-index")
		return
	}
	npages := oi.NumPages()
	firstRow := func(p int) int64 { return oi.FirstRowIndex(p) }
	pageOf := func(row int64) int {
		return sort.Search(npages, func(i int) bool { return firstRow(i) > row }) - 1
	}
	desc := fmt.Sprintf("col=%s v%d rows=%d pages=%d", col.desc, pv, nrows, npages)

	ids := &c16Ids{dense: map[uint64]int{}}
	var toks, goSnaps, hist []string
	type handle struct {
		page parquet.Page
		op   int // index of the op that returned it
		refs int
	}
	var handles []*handle
	lastIdx, nextIdx := -1, 0 // lastPageIndex / index of the page the stream is positioned at
	closed := false
	firstRead := true

	parquet.VerifPoolTraceStart()
	pages := cc.Pages()
	// take drains the events of one call and folds them into the running refcounts
	type group struct{ gets []int }
	take := func() (groups [][]parquet.VerifPoolEvent, all []parquet.VerifPoolEvent) {
		evs := parquet.VerifPoolTraceTake()
		var cur []parquet.VerifPoolEvent
		for i := 0; i < len(evs); i++ {
			ev := evs[i]
			if ev.ID == 0 || ev.Kind == 'p' {
				continue
			}
			all = append(all, ev)
		}
		// An iteration of FilePages.ReadPage starts with readPage's get, ref, unref of the buffer
		// holding the page bytes, and its decode ends with data.unref() of that buffer; the same
		// triple on another buffer while the decode is open is the values buffer, not a boundary.
		open := false
		var data uint64
		for i := 0; i < len(all); i++ {
			if !open && i+2 < len(all) && all[i].Kind == 'g' && all[i+1].Kind == 'r' && all[i+2].Kind == 'u' &&
				all[i].ID == all[i+1].ID && all[i].ID == all[i+2].ID {
				if cur != nil {
					groups = append(groups, cur)
				}
				cur = []parquet.VerifPoolEvent{all[i], all[i+1], all[i+2]}
				open, data = true, all[i].ID
				i += 2
				continue
			}
			if cur == nil {
				cur = []parquet.VerifPoolEvent{}
			}
			cur = append(cur, all[i])
			if open && all[i].Kind == 'u' && all[i].ID == data {
				open = false
			}
		}
		if cur != nil {
			groups = append(groups, cur)
		}
		return
	}
	apply := func(evs []parquet.VerifPoolEvent) {
		for _, ev := range evs {
			ids.refc[ids.id(ev.ID)] = ev.Refc
		}
	}
	snap := func() string {
		var s []string
		for _, c := range ids.refc {
			s = append(s, fmt.Sprint(c))
		}
		return strings.Join(s, ",")
	}
	picks := func(xs []int) string {
		if len(xs) == 0 {
			return "-"
		}
		return core.JoinInts(xs)
	}
	nops := 6 + r.Intn(14)
	for opi := 0; opi < nops; opi++ {
		choice := r.Intn(10)
		if firstRead {
			choice = 0 // the first call is a ReadPage: the dictionary (if any) is loaded in the loop
		}
		switch {
		case choice <= 3: // ReadPage
			p, err := pages.ReadPage()
			firstRead = false
			groups, _ := take()
			var its []string
			within := "0"
			dataGroups := 0
			for gi, g := range groups {
				var gets []int
				for _, ev := range g {
					if ev.Kind == 'g' {
						gets = append(gets, ids.id(ev.ID))
					}
				}
				apply(g)
				if len(gets) == 0 {
					// no get in the call: the cached page was served (Slice of lastPage)
					continue
				}
				var trans, kept []int
				for _, b := range gets {
					if ids.refc[b] > 0 {
						kept = append(kept, b)
					} else {
						trans = append(trans, b)
					}
				}
				page := "-"
				act := "s"
				if len(kept) > 0 {
					dataGroups++
					page = "1," + core.JoinInts(kept)
					if gi == len(groups)-1 && err == nil {
						act = "r"
					}
				}
				its = append(its, picks(trans)+"/"+page+"/"+act)
			}
			if len(its) == 0 && err == nil {
				within = "1"
				nextIdx = lastIdx + 1
			}
			if dataGroups > 0 {
				lastIdx = nextIdx + dataGroups - 1
				nextIdx += dataGroups
			}
			it := "-"
			if len(its) > 0 {
				it = strings.Join(its, ";")
			}
			toks = append(toks, fmt.Sprintf("rp:0:%s:%s", within, it))
			hist = append(hist, fmt.Sprintf("ReadPage->%v", err == nil))
			if err == nil {
				handles = append(handles, &handle{p, len(toks) - 1, 1})
			}
		case choice == 4 && !closed: // SeekToRow
			row := r.Int63n(int64(nrows))
			target := pageOf(row)
			same := "0"
			// file.go SeekToRow: the cached page is served only when the target is the last returned page
			// AND the stream still stands right behind it (`f.index == target+1`; not so when another
			// seek moved it since) - otherwise the page is read again
			if lastIdx >= 0 && target == lastIdx && nextIdx == lastIdx+1 {
				same = "1"
			} else if nextIdx != target {
				nextIdx = target
			}
			pages.SeekToRow(row)
			_, all := take()
			apply(all)
			toks = append(toks, "sk:0:"+same)
			hist = append(hist, fmt.Sprintf("SeekToRow(%d)page%d", row, target))
		case choice == 5 && len(handles) > 0: // Retain
			hd := handles[r.Intn(len(handles))]
			if hd.refs == 0 {
				continue
			}
			parquet.Retain(hd.page)
			hd.refs++
			_, all := take()
			apply(all)
			toks = append(toks, fmt.Sprintf("rt:@%d", hd.op))
			hist = append(hist, fmt.Sprintf("Retain(@%d)", hd.op))
		case (choice == 6 || choice == 7) && len(handles) > 0: // Release
			hd := handles[r.Intn(len(handles))]
			if hd.refs == 0 {
				continue
			}
			parquet.Release(hd.page)
			hd.refs--
			_, all := take()
			apply(all)
			toks = append(toks, fmt.Sprintf("rl:@%d", hd.op))
			hist = append(hist, fmt.Sprintf("Release(@%d)", hd.op))
		case choice == 8 && len(handles) > 0: // Slice
			hd := handles[r.Intn(len(handles))]
			if hd.refs == 0 || hd.page.NumRows() == 0 {
				continue
			}
			s := hd.page.Slice(0, hd.page.NumRows())
			_, all := take()
			apply(all)
			toks = append(toks, fmt.Sprintf("sl:@%d", hd.op))
			hist = append(hist, fmt.Sprintf("Slice(@%d)", hd.op))
			handles = append(handles, &handle{s, len(toks) - 1, 1})
		case choice == 9 && !closed && opi > 3: // Close
			pages.Close()
			closed = true
			_, all := take()
			apply(all)
			toks = append(toks, "cl:0")
			hist = append(hist, "Close")
		default:
			continue
		}
		goSnaps = append(goSnaps, snap())
	}
	// release everything, close
	for _, hd := range handles {
		for hd.refs > 0 {
			parquet.Release(hd.page)
			hd.refs--
			_, all := take()
			apply(all)
			toks = append(toks, fmt.Sprintf("rl:@%d", hd.op))
			goSnaps = append(goSnaps, snap())
		}
	}
	if !closed {
		pages.Close()
		_, all := take()
		apply(all)
		toks = append(toks, "cl:0")
		goSnaps = append(goSnaps, snap())
	}
	parquet.VerifPoolTraceStop()
	leaked := 0
	for _, c := range ids.refc {
		if c != 0 {
			leaked++
		}
	}
	c16Count(ctx, "pagesapi|"+desc+"|"+strings.Join(toks, " "), len(toks) >= 6 && npages >= 2)
	ctx.Hist("pagesapi", "ran")
	ctx.Hist("pagesapi-pages", c16Bucket(npages))
	ctx.Hist("pagesapi-leaked-after-close", fmt.Sprint(leaked))
	if k < 2 {
		ctx.Sample(map[string]any{"pagesapi": desc, "history": hist, "model_ops": toks})
	}
	ans, err := d.Ask("pool.run - " + strings.Join(toks, " "))
	if err != nil {
		ctx.Fail("L2", "driver-error", err.Error(), nil)
		return
	}
	det := map[string]any{"file": desc, "history": hist, "model_ops": toks, "case": k}
	if !strings.HasPrefix(ans, "ok ") {
		det["model"] = ans
		ctx.Fail("L2", "pool-run-rejected", "the model driver rejected the operation list: "+ans, det)
		return
	}
	outs := strings.Split(strings.TrimPrefix(ans, "ok "), ";")
	if len(outs) != len(goSnaps) {
		det["model"] = c16Trunc(ans)
		ctx.Fail("L2", "pool-run-length", fmt.Sprintf("%d model snapshots for %d calls", len(outs), len(goSnaps)), det)
		return
	}
	for i, o := range outs {
		parts := strings.Split(o, ":")
		if len(parts) != 4 {
			ctx.Fail("L2", "pool-run-format", o, det)
			return
		}
		model := parts[3]
		if model == "-" {
			model = ""
		}
		// the model lists every buffer it knows; trailing zeros are buffers only one side has seen
		if c16TrimZeros(model) != c16TrimZeros(goSnaps[i]) || parts[2] != "ok" {
			det["call"] = i
			det["op"] = toks[i]
			det["impl_refcounts"] = goSnaps[i]
			det["model_refcounts"] = model
			det["model_bug"] = parts[2]
			opk := strings.SplitN(toks[i], ":", 2)[0]
			ctx.Fail("L2", "refcounts-differ-after:"+opk, "reference counts of the pooled buffers after an API call differ from the model's (FilePages lastPage cache / Retain / Release / Slice / Close protocol)", det)
			return
		}
	}
}

func c16TrimZeros(s string) string {
	for strings.HasSuffix(s, ",0") {
		s = strings.TrimSuffix(s, ",0")
	}
	if s == "0" {
		return ""
	}
	return s
}
