package props

import (
	"bytes"
	"fmt"
	"io"
	"math/big"
	"math/rand"
	"strings"
	"sync"
	"time"

	"github.com/parquet-go/parquet-go"

	"verifharness/core"
)

func init() { RegisterSub("C01", "logical", RunC01Logical) }

// time.Time fields on TIMESTAMP (three units) and DATE columns, required / optional / pointer
type c01TimeRow struct {
	Ms  time.Time  `parquet:"ms,timestamp(millisecond)"`
	Us  time.Time  `parquet:"us,timestamp(microsecond)"`
	Ns  time.Time  `parquet:"ns,timestamp(nanosecond)"`
	D   time.Time  `parquet:"d,date"`
	PMs *time.Time `parquet:"pms,optional,timestamp(millisecond)"`
	PUs *time.Time `parquet:"pus,optional,timestamp(microsecond)"`
	PD  *time.Time `parquet:"pd,optional,date"`
	OUs time.Time  `parquet:"ous,optional,timestamp(microsecond)"`
	OD  time.Time  `parquet:"od,optional,date"`
}

var c01TimeFields = []struct {
	name, unit string
}{{"ms", "ms"}, {"us", "us"}, {"ns", "ns"}, {"d", "date"}, {"pms", "ms"}, {"pus", "us"}, {"pd", "date"}, {"ous", "us"}, {"od", "date"}}

// seconds since the epoch: the epoch and its neighbours, day boundaries on both sides of it, the
// ends of the int64-nanosecond range (1677-09-21 / 2262-04-11) and beyond them up to the ends of
// what time.Time formats (years 1 and 9999), leap day, 1900, 2100, 3000
var c01SecPool = []int64{0, 1, -1, 86399, 86400, -86400, -86401, -43200, 43200, 951782400, 1700000000, 4102444800,
	-2208988800, 9214646400, -9214646400, 9223372036, 9223372037, -9223372036, -9223372037, -9223372038,
	10413792000, 32503777445, 253402300799, -62135596800, -62135596799, -11644473600, 2892720 * 3600}

func c01FloorDiv(a, b int64) int64 {
	q := a / b
	if a%b < 0 {
		q--
	}
	return q
}

// the documented mapping, written from LogicalTypes.md: the stored leaf (count of units / days from
// the Unix epoch, floor) and the instant that count denotes
func c01TimeOracle(unit string, t time.Time) (leaf int64, back time.Time) {
	sec, nsec := t.Unix(), int64(t.Nanosecond())
	switch unit {
	case "ms":
		leaf = sec*1000 + nsec/1000000
		back = time.Unix(c01FloorDiv(leaf, 1000), (leaf-c01FloorDiv(leaf, 1000)*1000)*1000000)
	case "us":
		leaf = sec*1000000 + nsec/1000
		back = time.Unix(c01FloorDiv(leaf, 1000000), (leaf-c01FloorDiv(leaf, 1000000)*1000000)*1000)
	case "ns":
		leaf = sec*1000000000 + nsec
		back = time.Unix(sec, nsec)
	default:
		leaf = c01FloorDiv(sec, 86400)
		back = time.Unix(leaf*86400, 0)
	}
	return leaf, back.UTC()
}

// class of the input, part of the failure key: which regime of the mapping it exercises
func c01TimeClass(unit string, t time.Time) string {
	sec, nsec := t.Unix(), int64(t.Nanosecond())
	ns := new(big.Int).Add(new(big.Int).Mul(big.NewInt(sec), big.NewInt(1000000000)), big.NewInt(nsec))
	switch {
	case !ns.IsInt64():
		return "outside-int64-nanoseconds"
	case unit == "date" && sec < 0 && (sec%86400 != 0 || nsec != 0):
		return "before-epoch-within-day"
	case sec < 0:
		return "before-epoch"
	}
	return "after-epoch"
}

func c01RandInstant(r *rand.Rand, unit string) time.Time {
	var sec, nsec int64
	switch r.Intn(3) {
	case 0:
		sec = c01SecPool[r.Intn(len(c01SecPool))]
	case 1:
		sec = r.Int63n(4000000000) - 1000000000
	default:
		sec = r.Int63n(253402300799+62135596800) - 62135596800 // years 1..9999
	}
	if r.Intn(2) == 0 {
		nsec = []int64{1, 999, 1000, 999999, 1000000, 999999999, 500000000, 123456789}[r.Intn(8)]
	}
	if unit == "ns" {
		// a NANOS column cannot hold an instant outside the int64 range (format limit): stay inside
		if sec > 9223372035 || sec < -9223372035 {
			sec %= 9000000000
		}
	}
	t := time.Unix(sec, nsec).UTC()
	if t.IsZero() { // the zero time.Time is the null of an optional non-pointer field
		t = t.Add(time.Second)
	}
	if r.Intn(4) == 0 {
		t = t.In(time.FixedZone("verif", 3600*(r.Intn(25)-12)))
	}
	return t
}

// RunC01Logical: the Go <-> leaf conversions of time.Time fields on every write path, stored leaf
// and read-back instant against the documented mapping (L1) and the Lean mirror (L2).
func RunC01Logical(ctx *core.Ctx) {
	ctx.SetRule("logical: struct with time.Time fields on TIMESTAMP(MILLIS/MICROS/NANOS) and DATE columns (required, optional, pointer) x instants over years 1..9999 (NANOS: inside the int64 range) with sub-unit fractions, both sides of the epoch, non-UTC locations x writer {GenericWriter.Write, Writer.Write(any), GenericBuffer->WriteRowGroup} x page version -> stored leaves (Rows().ReadRows) = units/days from the epoch (floor) and Read[T] = the instant that count denotes (L1, oracle from LogicalTypes.md); both = the Lean mirror c01.time / c01.date (L2); non-trivial = an instant with a sub-unit fraction, before the epoch or outside the int64-nanosecond range")
	n := ctx.Scale(60, 1500)
	var wg sync.WaitGroup
	jobs := make(chan int)
	for w := 0; w < 8; w++ {
		wg.Add(1)
		go func() {
			defer wg.Done()
			d := ctx.Driver()
			for i := range jobs {
				if d == nil {
					continue
				}
				c01LogicalCase(ctx, ctx.Rand(fmt.Sprintf("logical-%d", i)), d)
			}
		}()
	}
	for i := 0; i < n; i++ {
		jobs <- i
	}
	close(jobs)
	wg.Wait()
}

func c01LogicalCase(ctx *core.Ctx, r *rand.Rand, d interface {
	AskMany([]string) ([]string, error)
}) {
	nrows := []int{1, 2, 3, 9, 70}[r.Intn(5)]
	rows := make([]c01TimeRow, nrows)
	ins := make([][]*time.Time, nrows) // per row, per field: the instant written (nil = null)
	nontrivial := false
	var texts []string
	for i := range rows {
		ins[i] = make([]*time.Time, len(c01TimeFields))
		for k, f := range c01TimeFields {
			if k >= 4 && r.Intn(4) == 0 {
				continue // null: nil pointer / zero optional
			}
			t := c01RandInstant(r, f.unit)
			ins[i][k] = &t
			if t.Nanosecond() != 0 || t.Unix() < 0 || c01TimeClass(f.unit, t) == "outside-int64-nanoseconds" {
				nontrivial = true
			}
		}
		g := func(k int) time.Time {
			if ins[i][k] == nil {
				return time.Time{}
			}
			return *ins[i][k]
		}
		rows[i] = c01TimeRow{Ms: g(0), Us: g(1), Ns: g(2), D: g(3), PMs: ins[i][4], PUs: ins[i][5], PD: ins[i][6], OUs: g(7), OD: g(8)}
		var fs []string
		for k := range c01TimeFields {
			if ins[i][k] == nil {
				fs = append(fs, "null")
			} else {
				fs = append(fs, fmt.Sprintf("%d.%09d", ins[i][k].Unix(), ins[i][k].Nanosecond()))
			}
		}
		texts = append(texts, strings.Join(fs, " "))
	}
	writer := []string{"generic-writer", "writer-write-any", "generic-buffer"}[r.Intn(3)]
	version := 1 + r.Intn(2)
	canon := fmt.Sprintf("%s v%d %s", writer, version, strings.Join(texts, ";"))
	ctx.Case(canon, nontrivial)
	ctx.Hist("logical-writer", writer)
	detail := func(extra map[string]any) map[string]any {
		m := map[string]any{"writer": writer, "version": version, "fields": "ms us ns d pms pus pd ous od", "rows(unix sec.nsec per field)": texts}
		for k, v := range extra {
			m[k] = v
		}
		return m
	}
	var out bytes.Buffer
	werr := func() (err error) {
		defer func() {
			if p := recover(); p != nil {
				err = fmt.Errorf("PANIC: %v", p)
			}
		}()
		opts := []parquet.WriterOption{parquet.DataPageVersion(version)}
		switch writer {
		case "generic-writer":
			w := parquet.NewGenericWriter[c01TimeRow](&out, opts...)
			if _, err := w.Write(rows); err != nil {
				return err
			}
			return w.Close()
		case "writer-write-any":
			w := parquet.NewWriter(&out, append(opts, parquet.SchemaOf(c01TimeRow{}))...)
			for i := range rows {
				if err := w.Write(&rows[i]); err != nil {
					return err
				}
			}
			return w.Close()
		default:
			b := parquet.NewGenericBuffer[c01TimeRow]()
			if _, err := b.Write(rows); err != nil {
				return err
			}
			w := parquet.NewGenericWriter[c01TimeRow](&out, opts...)
			if _, err := w.WriteRowGroup(b); err != nil {
				return err
			}
			return w.Close()
		}
	}()
	if werr != nil {
		ctx.Fail("L1", "logical write-error writer="+writer+" "+errClass(werr), "writing valid rows failed: "+werr.Error(), detail(nil))
		return
	}
	data := out.Bytes()
	// stored leaves
	f, err := parquet.OpenFile(bytes.NewReader(data), int64(len(data)))
	if err != nil {
		ctx.Fail("L1", "logical open-error writer="+writer, err.Error(), detail(nil))
		return
	}
	var stored []parquet.Row
	for _, rg := range f.RowGroups() {
		rr := rg.Rows()
		buf := make([]parquet.Row, 16)
		for {
			k, err := rr.ReadRows(buf)
			for _, row := range buf[:k] {
				stored = append(stored, row.Clone())
			}
			if err != nil {
				if err != io.EOF {
					ctx.Fail("L1", "logical read-error reader=rows writer="+writer, err.Error(), detail(nil))
				}
				break
			}
		}
		rr.Close()
	}
	got, rerr := func() (g []c01TimeRow, err error) {
		defer func() {
			if p := recover(); p != nil {
				err = fmt.Errorf("PANIC: %v", p)
			}
		}()
		return parquet.Read[c01TimeRow](bytes.NewReader(data), int64(len(data)))
	}()
	if rerr != nil {
		ctx.Fail("L1", "logical read-error reader=Read[T] writer="+writer+" "+errClass(rerr), rerr.Error(), detail(nil))
		return
	}
	if len(got) != nrows || len(stored) != nrows {
		ctx.Fail("L1", "logical row-count writer="+writer, fmt.Sprintf("%d rows written, Read[T] %d, Rows() %d", nrows, len(got), len(stored)), detail(nil))
		return
	}
	var reqs []string
	type probe struct {
		row, field       int
		leaf             string // stored leaf, "null", or "?"
		backSec, backNs  int64
		backNull         bool
	}
	var probes []probe
	for i := range rows {
		back := []*time.Time{&got[i].Ms, &got[i].Us, &got[i].Ns, &got[i].D, got[i].PMs, got[i].PUs, got[i].PD, &got[i].OUs, &got[i].OD}
		for k, fd := range c01TimeFields {
			v := stored[i][k]
			in := ins[i][k]
			if in == nil {
				if !v.IsNull() {
					ctx.Fail("L1", "logical null-stored-as-value field="+fd.name+" writer="+writer, "a nil pointer / zero optional time.Time is stored as a value", detail(map[string]any{"row": i, "stored": v.String()}))
				}
				if b := back[k]; b != nil && !b.IsZero() {
					ctx.Fail("L1", "logical null-read-as-value field="+fd.name+" writer="+writer, "a null reads back as "+b.UTC().Format(time.RFC3339Nano), detail(map[string]any{"row": i}))
				}
				continue
			}
			class := c01TimeClass(fd.unit, *in)
			ctx.Hist("logical-class", fd.unit+" "+class)
			wantLeaf, wantBack := c01TimeOracle(fd.unit, *in)
			leafText := "null"
			if !v.IsNull() {
				if fd.unit == "date" {
					leafText = fmt.Sprint(v.Int32())
				} else {
					leafText = fmt.Sprint(v.Int64())
				}
			}
			if leafText != fmt.Sprint(wantLeaf) {
				ctx.Fail("L1", fmt.Sprintf("logical stored-leaf-differs unit=%s class=%s writer=%s", fd.unit, class, writer), fmt.Sprintf("field %s: %s stored as %s, the count of units from the epoch is %d", fd.name, in.UTC().Format(time.RFC3339Nano), leafText, wantLeaf), detail(map[string]any{"row": i, "field": fd.name}))
			}
			b := back[k]
			p := probe{row: i, field: k, leaf: leafText, backNull: b == nil}
			if b == nil {
				ctx.Fail("L1", fmt.Sprintf("logical value-read-as-null unit=%s class=%s writer=%s", fd.unit, class, writer), "field "+fd.name+" reads back nil", detail(map[string]any{"row": i}))
			} else {
				p.backSec, p.backNs = b.Unix(), int64(b.Nanosecond())
				if !b.Equal(wantBack) {
					ctx.Fail("L1", fmt.Sprintf("logical read-back-differs unit=%s class=%s writer=%s", fd.unit, class, writer), fmt.Sprintf("field %s: wrote %s, the stored count denotes %s, Read[T] returned %s", fd.name, in.UTC().Format(time.RFC3339Nano), wantBack.Format(time.RFC3339Nano), b.UTC().Format(time.RFC3339Nano)), detail(map[string]any{"row": i, "field": fd.name}))
				}
			}
			probes = append(probes, p)
			if fd.unit == "date" {
				reqs = append(reqs, fmt.Sprintf("c01.date %d %d", in.Unix(), in.Nanosecond()))
			} else {
				reqs = append(reqs, fmt.Sprintf("c01.time %s %d %d", fd.unit, in.Unix(), in.Nanosecond()))
			}
		}
	}
	if len(reqs) == 0 {
		return
	}
	if d == nil {
		return
	}
	ans, err := d.AskMany(reqs)
	if err != nil {
		ctx.Fail("L2", "driver-error", err.Error(), nil)
		return
	}
	for j, p := range probes {
		fd := c01TimeFields[p.field]
		real := fmt.Sprintf("ok %s %d %d", p.leaf, p.backSec, p.backNs)
		if p.backNull {
			real = "ok " + p.leaf + " null"
		}
		if ans[j] != real {
			ctx.Fail("L2", "logical mirror-differs unit="+fd.unit+" writer="+writer, "stored leaf / read-back instant (sec nsec) differ from the Lean mirror of the conversions", detail(map[string]any{"row": p.row, "field": fd.name, "model": ans[j], "real": real, "request": reqs[j]}))
		}
	}
}
