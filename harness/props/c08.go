package props

// C08 — Seeking to a row then reading equals skipping to that row sequentially.
//
// L1: random files (catalogue types, several row groups, both page versions, many small pages,
// all codecs) are opened with/without page index, sync/async, tiny read buffers; random op
// histories (SeekToRow / read with a batch size / lazy offset-index load) run on every kind of
// reader; after each op the rows/values returned must be those of the oracle (the rows that were
// written, validated once against a plain sequential read) at the reference position.
// Failing histories are shrunk by delta debugging on the op list before they are reported.
// L2: for ColumnChunk.Pages() (a *FilePages) every op's output and the seek state exposed by the
// verif hook are compared with the Lean mirror (`seek.run`).

import (
	"bytes"
	"crypto/sha256"
	"encoding/hex"
	"errors"
	"fmt"
	"io"
	"math/rand"
	"os"
	"reflect"
	"strconv"
	"strings"
	"sync"
	"time"

	"github.com/parquet-go/parquet-go"

	"verifharness/core"
	"verifharness/drv"
	"verifharness/gen"
)

func init() { RegisterSub("C08", "histories", RunC08) }

// ---------------------------------------------------------------- ops

type c08Op struct {
	K byte // 's' SeekToRow(A), 'r' read with batch size A, 'i' load the offset index lazily, 'z' Reset()
	A int64
}

func (o c08Op) String() string {
	switch o.K {
	case 's':
		return "s" + strconv.FormatInt(o.A, 10)
	case 'r':
		return "r" + strconv.FormatInt(o.A, 10)
	case 'z':
		return "z"
	}
	return "i"
}

func c08OpsString(ops []c08Op) string {
	s := make([]string, len(ops))
	for i, o := range ops {
		s[i] = o.String()
	}
	return strings.Join(s, " ")
}

func c08ParseOps(s string) []c08Op {
	var ops []c08Op
	for _, t := range strings.Fields(s) {
		if t == "i" || t == "z" {
			ops = append(ops, c08Op{K: t[0]})
			continue
		}
		a, _ := strconv.ParseInt(t[1:], 10, 64)
		ops = append(ops, c08Op{K: t[0], A: a})
	}
	return ops
}

// ---------------------------------------------------------------- files and the oracle

type c08File struct {
	name   string // type name
	desc   string
	schema *parquet.Schema
	rows   reflect.Value // []T as written
	n      int
	ncol   int
	data   []byte
	// oracle: rowTr[col][row] = the Dremel triples of that row in that column
	rowTr   [][][]gen.Triple
	rgStart []int       // first global row of each row group, then n
	bounds  [][][]int64 // [rg][col] FirstRowIndex of each page (from the offset index)
	offsets [][][]int64 // [rg][col] file offset of each page
	dict    [][]bool    // [rg][col] chunk metadata has a dictionary page offset
	psize   [][][]int64 // [rg][col] compressed size of each page, header included
	chunkLo [][]int64   // [rg][col] first byte of the chunk (dictionary page if any)
	chunkHi [][]int64   // [rg][col] first byte behind the chunk
	bad     *c08Bad     // one page whose body was corrupted after the oracle was built (nil: intact file)
	buffer  func() (parquet.RowGroup, error)
	// merged-* kinds: MergeRowGroups over two sorted files whose key ranges overlap in part; the
	// file's rows are those of the two inputs back to back (the order of the merged row group's
	// column chunks: range views of the lone stretches around the chunks of the overlapping one)
	merged func(opts ...parquet.FileOption) (parquet.RowGroup, error)
	mem    *c08Mem // mem-* kinds (c08_mem.go): the rows held by in-memory containers, no file
}

// c08Bad names the page whose checksum no longer matches and the global rows it holds.
type c08Bad struct {
	rg, col, page int
	lo, hi        int
}

func (f *c08File) nrg() int { return len(f.rgStart) - 1 }

// rgOf returns the row group holding global row k (the last one for k >= n).
func (f *c08File) pageRows(rg, col int) []int {
	b := f.bounds[rg][col]
	out := make([]int, len(b))
	tot := f.rgStart[rg+1] - f.rgStart[rg]
	for i := range b {
		end := int64(tot)
		if i+1 < len(b) {
			end = b[i+1]
		}
		out[i] = int(end - b[i])
	}
	return out
}

// c08Oracle fills the oracle from what was written and validates a sequential read against it.
func c08Oracle(f *c08File) error {
	var sh gen.Shredder
	for i := 0; i < f.n; i++ {
		sh.ShredRow(f.schema, f.rows.Index(i))
	}
	f.ncol = len(f.schema.Columns())
	cols := sh.Cols
	if f.n == 0 {
		cols = make([][]gen.Triple, f.ncol)
	}
	if len(cols) != f.ncol {
		return fmt.Errorf("shredder produced %d columns, schema has %d", len(cols), f.ncol)
	}
	f.rowTr = make([][][]gen.Triple, f.ncol)
	for c, s := range cols {
		for _, t := range s {
			if t.Rep == 0 {
				f.rowTr[c] = append(f.rowTr[c], nil)
			}
			if len(f.rowTr[c]) == 0 {
				return fmt.Errorf("column %d does not start with repetition level 0", c)
			}
			f.rowTr[c][len(f.rowTr[c])-1] = append(f.rowTr[c][len(f.rowTr[c])-1], t)
		}
		if len(f.rowTr[c]) != f.n {
			return fmt.Errorf("column %d has %d rows, %d written", c, len(f.rowTr[c]), f.n)
		}
	}
	got, err := gen.ReadColumns(f.data)
	if err != nil {
		return fmt.Errorf("sequential page read: %w", err)
	}
	if c, i, d := firstDiff(cols, got); c != -2 {
		return fmt.Errorf("sequential page read differs from what was written: column %d entry %d: %s", c, i, d)
	}
	got2, nrows, err := gen.ReadRowsColumns(f.data, 64)
	if err != nil {
		return fmt.Errorf("sequential row read: %w", err)
	}
	if nrows != f.n {
		return fmt.Errorf("sequential row read returned %d rows, %d written", nrows, f.n)
	}
	if c, i, d := firstDiff(cols, got2); c != -2 {
		return fmt.Errorf("sequential row read differs from what was written: column %d entry %d: %s", c, i, d)
	}
	pf, err := parquet.OpenFile(bytes.NewReader(f.data), int64(len(f.data)))
	if err != nil {
		return err
	}
	f.rgStart = []int{0}
	md := pf.Metadata()
	for gi, rg := range pf.RowGroups() {
		f.rgStart = append(f.rgStart, f.rgStart[len(f.rgStart)-1]+int(rg.NumRows()))
		var bs, os, zs [][]int64
		var ds []bool
		var los, his []int64
		for ci, cc := range rg.ColumnChunks() {
			oi, err := cc.OffsetIndex()
			var b, o, z []int64
			if err == nil && oi != nil {
				for p := 0; p < oi.NumPages(); p++ {
					b = append(b, oi.FirstRowIndex(p))
					o = append(o, oi.Offset(p))
					z = append(z, oi.CompressedPageSize(p))
				}
			}
			bs, os, zs = append(bs, b), append(os, o), append(zs, z)
			cm := md.RowGroups[gi].Columns[ci].MetaData
			ds = append(ds, cm.DictionaryPageOffset != 0)
			lo := cm.DataPageOffset
			if cm.DictionaryPageOffset != 0 {
				lo = cm.DictionaryPageOffset
			}
			los, his = append(los, lo), append(his, lo+cm.TotalCompressedSize)
		}
		f.bounds, f.offsets, f.dict, f.psize = append(f.bounds, bs), append(f.offsets, os), append(f.dict, ds), append(f.psize, zs)
		f.chunkLo, f.chunkHi = append(f.chunkLo, los), append(f.chunkHi, his)
	}
	if f.rgStart[len(f.rgStart)-1] != f.n {
		return fmt.Errorf("row groups hold %d rows, %d written", f.rgStart[len(f.rgStart)-1], f.n)
	}
	return nil
}

// ---------------------------------------------------------------- views

type c08Spec struct {
	Kind      string // see c08Kinds
	RG, Col   int
	Off, Len  int // range views
	SkipIndex bool
	Async     bool
	ReadBuf   int
	ValBuf    int // rowgroup-rows-valbuf: slots of the per-column value buffer of the row reader
	// nested-* kinds: the tree of MultiRowGroup calls over row groups of the file, e.g. "(((0,1),2),3)";
	// a leaf is a row group index (any order, repeats allowed), every inner node has >= 2 children
	Nest string
}

func (sp c08Spec) String() string {
	s := fmt.Sprintf("%s rg=%d col=%d range=%d+%d skipindex=%v async=%v readbuf=%d", sp.Kind, sp.RG, sp.Col, sp.Off, sp.Len, sp.SkipIndex, sp.Async, sp.ReadBuf)
	if sp.ValBuf > 0 {
		s += fmt.Sprintf(" valbuf=%d", sp.ValBuf)
	}
	if sp.Nest != "" {
		s += " nest=" + sp.Nest
	}
	return s
}

var c08Kinds = []string{
	"pages",              // FileColumnChunk.Pages()  (*FilePages, or asyncPages around it)
	"values",             // parquet.NewColumnChunkValueReader
	"rowgroup-rows",      // FileRowGroup.Rows()
	"rowgroup-rowreader", // parquet.NewRowGroupRowReader(rowGroup)
	// the same reader with a value buffer of 1..7 slots per column (verif hook): every row of a
	// repeated column then spans several ReadValues refills, as rows of > 170 values do in production
	"rowgroup-rows-valbuf",
	"reader-readrows",    // parquet.NewReader(file).SeekToRow/ReadRows
	"reader-read",        // parquet.NewReader(file).SeekToRow/Read(&row)
	"generic-reader",     // parquet.NewGenericReader[T](file).SeekToRow/Read
	// two read styles interleaved on ONE reader: a read with an odd batch size b is the typed style
	// (Reader.Read(&v) b times / GenericReader.Read([]T of b)), with an even one it is ReadRows(b)
	"reader-mixed",
	"generic-reader-mixed",
	"multi-rows",   // parquet.MultiRowGroup(rowGroups...).Rows()
	"multi-pages",  // parquet.MultiRowGroup(rowGroups...).ColumnChunks()[c].Pages()
	"multi-values", // NewColumnChunkValueReader over a multi column chunk
	"range-rows",   // row range view (row_range.go).Rows()
	"range-pages",  // row range view column chunk .Pages()
	"buffer-rows",  // GenericBuffer[T].Rows()
	"buffer-pages", // GenericBuffer[T].ColumnChunks()[c].Pages()
	// file.Root().Column(path...).Pages(): one reader over the column's chunks of ALL row groups
	// (columnPages, column.go), each chunk reader kept open with its own position
	"column-pages",
	// MultiRowGroup calls nested to any depth over the file's row groups (spec.Nest): init flattens the
	// chunks of nested multi row groups and carries their row counts along
	"nested-rows",
	"nested-pages",
	"nested-values",
}

// kinds that exist only on the file built by c08MergedFile: the column chunks of
// MergeRowGroups(sorted A, sorted B) with partly overlapping key ranges (the public route to range views)
var c08MergedKinds = []string{"merged-pages", "merged-values"}

type c08View struct {
	mode      string // rows | typed | page | values
	col       int    // page / values modes: the leaf column (oracle index)
	base      int    // global row of the view's row 0
	total     int    // rows in the view
	rowMap    []int  // nested-* kinds: global row of each view row (nil: base + r)
	seek      func(int64) error
	readRows  func(batch int) ([][][]gen.Triple, error) // [row][col]
	readTyped func(batch int) (reflect.Value, int, error)
	readPage  func() ([]gen.Triple, int, error)
	readVals  func(batch int) ([]gen.Triple, error)
	loadIndex func()
	reset     func() // nil when the reader has no Reset method
	close     func()
	pages     parquet.Pages // page mode: the handle, for the verif hook
	strictNeg bool          // page-level reader of a file: a negative row index must be refused
}

// row returns the global (oracle) row of view row r.
func (v *c08View) row(r int) int {
	if v.rowMap != nil {
		return v.rowMap[r]
	}
	return v.base + r
}

type c08TypedReader interface {
	ReadRows([]parquet.Row) (int, error)
	Reset()
	SeekToRow(int64) error
	ReadN(n int) (reflect.Value, int, error)
	Close() error
}

type c08Typed[T any] struct{ r *parquet.GenericReader[T] }

func (t c08Typed[T]) SeekToRow(k int64) error { return t.r.SeekToRow(k) }
func (t c08Typed[T]) Close() error            { return t.r.Close() }
func (t c08Typed[T]) Reset()                  { t.r.Reset() }
func (t c08Typed[T]) ReadRows(rows []parquet.Row) (int, error) {
	return t.r.ReadRows(rows)
}
func (t c08Typed[T]) ReadN(n int) (reflect.Value, int, error) {
	buf := make([]T, n)
	k, err := t.r.Read(buf)
	return reflect.ValueOf(buf), k, err
}

func c08OpenTyped[T any](f *parquet.File) c08TypedReader {
	return c08Typed[T]{parquet.NewGenericReader[T](f)}
}

// GenericReader[T] needs the static type: a handful of catalogue types plus the local one.
var c08TypedOpeners = map[string]func(*parquet.File) c08TypedReader{
	"T000": c08OpenTyped[gen.T000], "T001": c08OpenTyped[gen.T001], "T002": c08OpenTyped[gen.T002],
	"T003": c08OpenTyped[gen.T003], "T004": c08OpenTyped[gen.T004], "T005": c08OpenTyped[gen.T005],
	"T006": c08OpenTyped[gen.T006], "T007": c08OpenTyped[gen.T007], "T008": c08OpenTyped[gen.T008],
	"T009": c08OpenTyped[gen.T009], "c08Row": c08OpenTyped[c08Row],
}

func rowsToTriples(rows []parquet.Row, ncol int) [][][]gen.Triple {
	out := make([][][]gen.Triple, len(rows))
	for i, row := range rows {
		out[i] = make([][]gen.Triple, ncol)
		for _, v := range row {
			c := v.Column()
			if c < 0 || c >= ncol {
				c = ncol - 1
			}
			out[i][c] = append(out[i][c], gen.TripleOf(v))
		}
	}
	return out
}

func (f *c08File) open(sp c08Spec) (v *c08View, err error) {
	defer func() {
		if r := recover(); r != nil {
			err = fmt.Errorf("PANIC opening view: %v", r)
		}
	}()
	v = &c08View{col: sp.Col, loadIndex: func() {}, close: func() {}}
	var pf *parquet.File
	needFile := !strings.HasPrefix(sp.Kind, "buffer-") && !strings.HasPrefix(sp.Kind, "mem-")
	var opts []parquet.FileOption
	if needFile {
		opts = []parquet.FileOption{parquet.SkipPageIndex(sp.SkipIndex)}
		if sp.Async {
			opts = append(opts, parquet.FileReadMode(parquet.ReadModeAsync))
		}
		if sp.ReadBuf > 0 {
			opts = append(opts, parquet.ReadBufferSize(sp.ReadBuf))
		}
		pf, err = parquet.OpenFile(bytes.NewReader(f.data), int64(len(f.data)), opts...)
		if err != nil {
			return nil, err
		}
		v.loadIndex = func() {
			for _, rg := range pf.RowGroups() {
				for _, cc := range rg.ColumnChunks() {
					cc.OffsetIndex()
				}
			}
		}
	}
	var rowBuf []parquet.Row
	useRows := func(rr parquet.Rows) {
		v.mode = "rows"
		v.seek = rr.SeekToRow
		if x, ok := rr.(interface{ Reset() }); ok {
			v.reset = x.Reset
		}
		v.readRows = func(batch int) ([][][]gen.Triple, error) {
			if cap(rowBuf) < batch {
				nb := make([]parquet.Row, batch)
				copy(nb, rowBuf[:cap(rowBuf)]) // keep the dirty rows
				rowBuf = nb
			}
			n, err := rr.ReadRows(rowBuf[:batch])
			return rowsToTriples(rowBuf[:n], f.ncol), err
		}
		v.close = func() { rr.Close() }
	}
	usePages := func(p parquet.Pages) {
		v.mode = "page"
		v.pages = p
		v.seek = p.SeekToRow
		v.readPage = func() ([]gen.Triple, int, error) {
			pg, err := p.ReadPage()
			if err != nil {
				return nil, 0, err
			}
			defer parquet.Release(pg)
			nr := int(pg.NumRows())
			var out []gen.Triple
			buf := make([]parquet.Value, 61)
			vr := pg.Values()
			for {
				n, err := vr.ReadValues(buf)
				for _, x := range buf[:n] {
					out = append(out, gen.TripleOf(x))
				}
				if err == io.EOF {
					break
				}
				if err != nil {
					return out, nr, fmt.Errorf("page values: %w", err)
				}
				if n == 0 {
					return out, nr, fmt.Errorf("page values: no progress")
				}
			}
			if int(pg.NumValues()) != len(out) {
				return out, nr, fmt.Errorf("page NumValues=%d but %d values read", pg.NumValues(), len(out))
			}
			return out, nr, nil
		}
		v.close = func() { p.Close() }
	}
	var valBuf []parquet.Value
	useValues := func(vr parquet.ColumnChunkValueReader) {
		v.mode = "values"
		v.seek = vr.SeekToRow
		if x, ok := vr.(interface{ Reset() }); ok {
			v.reset = x.Reset
		}
		v.readVals = func(batch int) ([]gen.Triple, error) {
			if cap(valBuf) < batch {
				valBuf = make([]parquet.Value, batch)
			}
			n, err := vr.ReadValues(valBuf[:batch])
			out := make([]gen.Triple, n)
			for i, x := range valBuf[:n] {
				out[i] = gen.TripleOf(x)
			}
			return out, err
		}
		v.close = func() { vr.Close() }
	}
	rgBase := func() { v.base, v.total = f.rgStart[sp.RG], f.rgStart[sp.RG+1]-f.rgStart[sp.RG] }
	if strings.HasPrefix(sp.Kind, "mem-") { // in-memory containers: c08_mem.go
		if err := f.openMem(sp, v, useRows, usePages, useValues); err != nil {
			return nil, err
		}
		return v, nil
	}
	switch sp.Kind {
	case "pages":
		rgBase()
		usePages(pf.RowGroups()[sp.RG].ColumnChunks()[sp.Col].Pages())
	case "values":
		rgBase()
		useValues(parquet.NewColumnChunkValueReader(pf.RowGroups()[sp.RG].ColumnChunks()[sp.Col]))
	case "rowgroup-rows":
		rgBase()
		useRows(pf.RowGroups()[sp.RG].Rows())
	case "rowgroup-rowreader":
		rgBase()
		useRows(parquet.NewRowGroupRowReader(pf.RowGroups()[sp.RG]))
	case "rowgroup-rows-valbuf":
		rgBase()
		useRows(parquet.VerifNewRowGroupRows(pf.RowGroups()[sp.RG], max(sp.ValBuf, 1)))
	case "reader-readrows":
		v.total = f.n
		rd := parquet.NewReader(pf)
		useRows(rd)
	case "reader-read":
		v.total = f.n
		rd := parquet.NewReader(pf)
		v.mode = "typed"
		v.seek = rd.SeekToRow
		v.reset = rd.Reset
		typ := f.rows.Type().Elem()
		v.readTyped = func(batch int) (reflect.Value, int, error) {
			out := reflect.MakeSlice(f.rows.Type(), 0, batch)
			for i := 0; i < batch; i++ {
				p := reflect.New(typ)
				if err := rd.Read(p.Interface()); err != nil {
					return out, i, err
				}
				out = reflect.Append(out, p.Elem())
			}
			return out, batch, nil
		}
		v.close = func() { rd.Close() }
	case "generic-reader":
		v.total = f.n
		op := c08TypedOpeners[f.name]
		if op == nil {
			return nil, fmt.Errorf("no typed opener")
		}
		tr := op(pf)
		v.mode = "typed"
		v.seek = tr.SeekToRow
		v.reset = tr.Reset
		v.readTyped = tr.ReadN
		v.close = func() { tr.Close() }
	case "reader-mixed":
		v.total = f.n
		rd := parquet.NewReader(pf)
		useRows(rd) // ReadRows, SeekToRow, Reset, Close
		v.mode = "mixed"
		typ := f.rows.Type().Elem()
		v.readTyped = func(batch int) (reflect.Value, int, error) {
			out := reflect.MakeSlice(f.rows.Type(), 0, batch)
			for i := 0; i < batch; i++ {
				p := reflect.New(typ)
				if err := rd.Read(p.Interface()); err != nil {
					return out, i, err
				}
				out = reflect.Append(out, p.Elem())
			}
			return out, batch, nil
		}
	case "generic-reader-mixed":
		v.total = f.n
		op := c08TypedOpeners[f.name]
		if op == nil {
			return nil, fmt.Errorf("no typed opener")
		}
		tr := op(pf)
		v.mode = "mixed"
		v.seek = tr.SeekToRow
		v.reset = tr.Reset
		v.readTyped = tr.ReadN
		v.readRows = func(batch int) ([][][]gen.Triple, error) {
			buf := make([]parquet.Row, batch)
			n, err := tr.ReadRows(buf)
			return rowsToTriples(buf[:n], f.ncol), err
		}
		v.close = func() { tr.Close() }
	case "multi-rows":
		v.total = f.n
		useRows(parquet.MultiRowGroup(pf.RowGroups()...).Rows())
	case "multi-pages":
		v.total = f.n
		usePages(parquet.MultiRowGroup(pf.RowGroups()...).ColumnChunks()[sp.Col].Pages())
	case "multi-values":
		v.total = f.n
		useValues(parquet.NewColumnChunkValueReader(parquet.MultiRowGroup(pf.RowGroups()...).ColumnChunks()[sp.Col]))
	case "range-rows":
		v.base, v.total = f.rgStart[sp.RG]+sp.Off, sp.Len
		useRows(parquet.VerifNewRowRange(pf.RowGroups()[sp.RG], int64(sp.Off), int64(sp.Len)).Rows())
	case "range-pages":
		v.base, v.total = f.rgStart[sp.RG]+sp.Off, sp.Len
		usePages(parquet.VerifNewRowRange(pf.RowGroups()[sp.RG], int64(sp.Off), int64(sp.Len)).ColumnChunks()[sp.Col].Pages())
	case "merged-pages", "merged-values":
		if f.merged == nil {
			return nil, fmt.Errorf("not a merged file")
		}
		rg, err := f.merged(opts...)
		if err != nil {
			return nil, err
		}
		if int(rg.NumRows()) != f.n {
			return nil, fmt.Errorf("merged row group has %d rows, inputs %d", rg.NumRows(), f.n)
		}
		v.total = f.n
		// the merged row group orders its columns by its own (merged) schema: find the leaf by path
		ci := -1
		for i, path := range rg.Schema().Columns() {
			if strings.Join(path, "\x00") == strings.Join(f.schema.Columns()[sp.Col], "\x00") {
				ci = i
			}
		}
		if ci < 0 {
			return nil, fmt.Errorf("merged row group has no column %v", f.schema.Columns()[sp.Col])
		}
		if sp.Kind == "merged-pages" {
			usePages(rg.ColumnChunks()[ci].Pages())
		} else {
			useValues(parquet.NewColumnChunkValueReader(rg.ColumnChunks()[ci]))
		}
	case "column-pages":
		v.total = f.n
		col := pf.Root()
		for _, name := range f.schema.Columns()[sp.Col] {
			if col = col.Column(name); col == nil {
				return nil, fmt.Errorf("file has no column %v", f.schema.Columns()[sp.Col])
			}
		}
		usePages(col.Pages())
	case "nested-rows", "nested-pages", "nested-values":
		rg, leaves, err := c08BuildNest(sp.Nest, pf.RowGroups())
		if err != nil {
			return nil, err
		}
		v.rowMap = []int{}
		for _, g := range leaves {
			for r := f.rgStart[g]; r < f.rgStart[g+1]; r++ {
				v.rowMap = append(v.rowMap, r)
			}
		}
		v.total = len(v.rowMap)
		if int(rg.NumRows()) != v.total {
			return nil, fmt.Errorf("nested multi row group %s has NumRows %d, its leaves hold %d rows", sp.Nest, rg.NumRows(), v.total)
		}
		switch sp.Kind {
		case "nested-rows":
			useRows(rg.Rows())
		case "nested-pages":
			usePages(rg.ColumnChunks()[sp.Col].Pages())
		default:
			useValues(parquet.NewColumnChunkValueReader(rg.ColumnChunks()[sp.Col]))
		}
	case "buffer-rows":
		rg, err := f.buffer()
		if err != nil {
			return nil, err
		}
		v.total = f.n
		useRows(rg.Rows())
	case "buffer-pages":
		rg, err := f.buffer()
		if err != nil {
			return nil, err
		}
		v.total = f.n
		usePages(rg.ColumnChunks()[sp.Col].Pages())
	default:
		return nil, fmt.Errorf("unknown view kind %q", sp.Kind)
	}
	switch sp.Kind {
	case "pages", "values", "multi-pages", "multi-values", "range-pages", "column-pages", "nested-pages", "nested-values":
		v.strictNeg = true
	}
	return v, nil
}

// c08BuildNest evaluates a nest expression: "3" is row group 3, "(a,b,...)" is MultiRowGroup(a,b,...).
// It returns the row group and the leaves from left to right.
func c08BuildNest(expr string, rgs []parquet.RowGroup) (parquet.RowGroup, []int, error) {
	pos := 0
	var leaves []int
	var parse func() (parquet.RowGroup, error)
	parse = func() (parquet.RowGroup, error) {
		if pos >= len(expr) {
			return nil, fmt.Errorf("nest expression %q ends early", expr)
		}
		if expr[pos] == '(' {
			pos++
			var kids []parquet.RowGroup
			for {
				k, err := parse()
				if err != nil {
					return nil, err
				}
				kids = append(kids, k)
				if pos < len(expr) && expr[pos] == ',' {
					pos++
					continue
				}
				break
			}
			if pos >= len(expr) || expr[pos] != ')' {
				return nil, fmt.Errorf("nest expression %q: ')' expected at %d", expr, pos)
			}
			pos++
			if len(kids) < 2 {
				return nil, fmt.Errorf("nest expression %q: an inner node needs >= 2 children", expr)
			}
			return parquet.MultiRowGroup(kids...), nil
		}
		start := pos
		for pos < len(expr) && expr[pos] >= '0' && expr[pos] <= '9' {
			pos++
		}
		g, err := strconv.Atoi(expr[start:pos])
		if err != nil || g >= len(rgs) {
			return nil, fmt.Errorf("nest expression %q: bad row group at %d", expr, start)
		}
		leaves = append(leaves, g)
		return rgs[g], nil
	}
	rg, err := parse()
	if err == nil && pos != len(expr) {
		err = fmt.Errorf("nest expression %q: trailing text", expr)
	}
	return rg, leaves, err
}

// c08NestLeaves lists the leaves of a nest expression from left to right.
func c08NestLeaves(expr string) []int {
	var out []int
	for _, t := range strings.FieldsFunc(expr, func(c rune) bool { return c < '0' || c > '9' }) {
		g, _ := strconv.Atoi(t)
		out = append(out, g)
	}
	return out
}

// c08NestDepth: nesting depth of MultiRowGroup calls (1 = a flat multi row group).
func c08NestDepth(expr string) int {
	d, best := 0, 0
	for _, c := range expr {
		if c == '(' {
			d++
			best = max(best, d)
		} else if c == ')' {
			d--
		}
	}
	return best
}

// c08RandNest: a random tree of MultiRowGroup calls over 2..7 leaves drawn from nrg row groups: the
// file's row groups in order, or any sequence with repeats; left-deep, right-deep and random shapes.
func c08RandNest(r *rand.Rand, nrg int) string {
	var leaves []string
	if nrg >= 2 && r.Intn(2) == 0 {
		for g := 0; g < nrg && g < 8; g++ {
			leaves = append(leaves, strconv.Itoa(g))
		}
	} else {
		for i, n := 0, 2+r.Intn(6); i < n; i++ {
			leaves = append(leaves, strconv.Itoa(r.Intn(nrg)))
		}
	}
	var build func(ls []string) string
	shape := r.Intn(4)
	build = func(ls []string) string {
		if len(ls) == 1 {
			return ls[0]
		}
		if len(ls) == 2 {
			return "(" + ls[0] + "," + ls[1] + ")"
		}
		switch shape {
		case 0: // left-deep: M(M(M(a,b),c),d)
			return "(" + build(ls[:len(ls)-1]) + "," + ls[len(ls)-1] + ")"
		case 1: // right-deep
			return "(" + ls[0] + "," + build(ls[1:]) + ")"
		}
		// 2..3 parts at random cuts
		parts := 2 + r.Intn(2)
		cuts := map[int]bool{}
		for len(cuts) < parts-1 {
			cuts[1+r.Intn(len(ls)-1)] = true
		}
		out, start := "(", 0
		for i := 1; i <= len(ls); i++ {
			if cuts[i] || i == len(ls) {
				if start > 0 {
					out += ","
				}
				out += build(ls[start:i])
				start = i
			}
		}
		return out + ")"
	}
	return build(leaves)
}

// ---------------------------------------------------------------- the L1 checker

type c08Fail struct {
	at  int    // op index
	sym string // symptom class
	msg string
}

type c08Checker struct {
	f    *c08File
	v    *c08View
	pos  int // reference position in rows (may exceed total after a seek beyond the end)
	vpos int // values mode: reference position in the column's value stream
	// values mode: flat stream of the view and index of each row's first value
	stream   []gen.Triple
	rowStart []int
	dead     bool // a negative seek was accepted: the reference position is undefined from here on
	unknown  bool // a read reported the corrupted page: the position is undefined until the next seek / Reset
	// what the last op produced, for the L2 trace
	lastKind string // ok | err | eof | page | corrupt | other
	lastPage []gen.Triple
	lastNR   int
	lastPos  int // reference position (rows) at which the last read started
}

func newC08Checker(f *c08File, v *c08View) *c08Checker {
	ck := &c08Checker{f: f, v: v}
	if v.mode == "values" {
		for r := 0; r < v.total; r++ {
			ck.rowStart = append(ck.rowStart, len(ck.stream))
			ck.stream = append(ck.stream, f.rowTr[v.col][v.row(r)]...)
		}
		ck.rowStart = append(ck.rowStart, len(ck.stream))
	}
	return ck
}

func triplesEqual(a, b []gen.Triple) bool {
	if len(a) != len(b) {
		return false
	}
	for i := range a {
		if a[i] != b[i] {
			return false
		}
	}
	return true
}

// locate finds a view row whose column values are exactly `tr` (for messages only).
func (ck *c08Checker) locate(col int, tr []gen.Triple) string {
	var hits []string
	for r := 0; r < ck.v.total && len(hits) < 3; r++ {
		if triplesEqual(ck.f.rowTr[col][ck.v.row(r)], tr) {
			hits = append(hits, strconv.Itoa(r))
		}
	}
	if len(hits) == 0 {
		return "no row"
	}
	return "row " + strings.Join(hits, "/")
}

func errName(err error) string {
	if err == nil {
		return "nil"
	}
	if err == io.EOF {
		return "EOF"
	}
	return "error(" + err.Error() + ")"
}

// step applies one op to the view and checks the outcome against the reference position.
// It returns a one-line description of what happened and the failure, if any.
func (ck *c08Checker) step(op c08Op) (desc string, fail *c08Fail) {
	defer func() {
		if r := recover(); r != nil {
			desc = fmt.Sprintf("%v -> PANIC %v", op, r)
			fail = &c08Fail{sym: "panic", msg: fmt.Sprintf("%v panicked: %v", op, r)}
		}
	}()
	v := ck.v
	total := v.total
	ck.lastKind, ck.lastPage, ck.lastNR = "other", nil, 0
	switch op.K {
	case 'i':
		v.loadIndex()
		ck.lastKind = "ok"
		return "i", nil
	case 'z':
		if v.reset == nil {
			return "z (reader has no Reset)", nil
		}
		v.reset()
		ck.lastKind = "ok"
		ck.pos, ck.vpos, ck.unknown = 0, 0, false
		return "z", nil
	case 's':
		err := v.seek(op.A)
		if err == nil {
			ck.lastKind = "ok"
		} else {
			ck.lastKind = "err"
		}
		switch {
		case op.A < 0:
			if err == nil {
				ck.dead = true
				if v.strictNeg {
					return fmt.Sprintf("%v -> nil", op), &c08Fail{sym: "accepted", msg: fmt.Sprintf("SeekToRow(%d) was not refused by a page-level reader of a file (a negative index must be an error that leaves the position unchanged)", op.A)}
				}
			}
			return fmt.Sprintf("%v -> %s", op, errName(err)), nil
		case err == nil:
			ck.pos = int(op.A)
			ck.unknown = false
			if v.mode == "values" {
				if ck.pos >= total {
					ck.vpos = len(ck.stream)
				} else {
					ck.vpos = ck.rowStart[ck.pos]
				}
			}
			return fmt.Sprintf("%v -> ok", op), nil
		case int(op.A) > total:
			return fmt.Sprintf("%v -> refused (%v)", op, err), nil // beyond the end: refused, position unchanged
		default:
			return fmt.Sprintf("%v -> %s", op, errName(err)), &c08Fail{sym: "seek-error", msg: fmt.Sprintf("SeekToRow(%d) within the %d rows failed: %v", op.A, total, err)}
		}
	}
	// read
	batch := int(op.A)
	if batch < 1 {
		batch = 1
	}
	mode := v.mode
	if mode == "mixed" {
		if batch%2 == 1 {
			mode = "typed"
		} else {
			mode = "rows"
		}
	}
	if ck.dead || ck.unknown {
		// only looking for panics after an accepted negative seek or a failed read
		var err error
		switch mode {
		case "rows":
			_, err = v.readRows(batch)
		case "typed":
			_, _, err = v.readTyped(batch)
		case "page":
			var tr []gen.Triple
			var nr int
			tr, nr, err = v.readPage()
			if err == nil {
				ck.lastKind, ck.lastPage, ck.lastNR = "page", tr, nr
			} else if err == io.EOF {
				ck.lastKind = "eof"
			}
		case "values":
			_, err = v.readVals(batch)
		}
		if ck.f.bad != nil && errors.Is(err, parquet.ErrCorrupted) {
			ck.lastKind = "corrupt"
		}
		return fmt.Sprintf("%v -> (unchecked, %s)", op, errName(err)), nil
	}
	pos := ck.pos
	if pos > total {
		pos = total
	}
	ck.lastPos = pos
	finish := func(n int, err error, what string) (string, *c08Fail) {
		d := fmt.Sprintf("%v @%d -> %d %s, %s", op, pos, n, what, errName(err))
		if ck.f.bad != nil && errors.Is(err, parquet.ErrCorrupted) {
			// the corrupted page was reported: from here the position is undefined until a seek
			ck.unknown = true
			ck.lastKind = "corrupt"
			return d, nil
		}
		switch {
		case err == nil && n == 0:
			return d, &c08Fail{sym: "no-progress", msg: fmt.Sprintf("read at row %d of %d returned nothing and no error", pos, total)}
		case err == io.EOF && pos+n < total:
			return d, &c08Fail{sym: "premature-eof", msg: fmt.Sprintf("read at row %d returned %d %s and EOF but the reader has %d rows", pos, n, what, total)}
		case err != nil && err != io.EOF:
			return d, &c08Fail{sym: "read-error", msg: fmt.Sprintf("read at row %d of %d failed: %v", pos, total, err)}
		}
		return d, nil
	}
	switch mode {
	case "rows":
		rows, err := v.readRows(batch)
		n := len(rows)
		if pos+n > total {
			return fmt.Sprintf("%v @%d -> %d rows", op, pos, n), &c08Fail{sym: "wrong-rows", msg: fmt.Sprintf("read at row %d returned %d rows, the reader has only %d", pos, n, total)}
		}
		for i, row := range rows {
			for c := 0; c < ck.f.ncol; c++ {
				want := ck.f.rowTr[c][v.row(pos+i)]
				if !triplesEqual(want, row[c]) {
					return fmt.Sprintf("%v @%d -> %d rows, row %d differs", op, pos, n, pos+i), &c08Fail{sym: "wrong-rows",
						msg: fmt.Sprintf("read at row %d: returned row #%d should be row %d but column %d holds %v (that is %s), expected %v", pos, i, pos+i, c, row[c], ck.locate(c, row[c]), want)}
				}
			}
		}
		ck.pos = pos + n
		if err == nil || err == io.EOF {
			ck.lastKind, ck.lastNR = "page", n
		}
		return finish(n, err, "rows")
	case "typed":
		got, n, err := v.readTyped(batch)
		if pos+n > total {
			return fmt.Sprintf("%v @%d -> %d rows", op, pos, n), &c08Fail{sym: "wrong-rows", msg: fmt.Sprintf("read at row %d returned %d rows, the reader has only %d", pos, n, total)}
		}
		if n > 0 {
			if ok, diff := gen.CanonEqual(ck.f.rows.Slice(v.base+pos, v.base+pos+n), got.Slice(0, n), "rows"); !ok {
				return fmt.Sprintf("%v @%d -> %d rows, differ", op, pos, n), &c08Fail{sym: "wrong-rows", msg: fmt.Sprintf("read at row %d: %d typed rows differ from rows %d..: %s", pos, n, pos, diff)}
			}
		}
		ck.pos = pos + n
		if err == nil || err == io.EOF {
			ck.lastKind, ck.lastNR = "page", n
		}
		return finish(n, err, "rows")
	case "page":
		tr, nr, err := v.readPage()
		if err != nil && err != io.EOF {
			return finish(0, err, "rows")
		}
		if err == io.EOF {
			ck.lastKind = "eof"
			return finish(0, err, "rows")
		}
		ck.lastKind, ck.lastPage, ck.lastNR = "page", tr, nr
		if pos+nr > total {
			return fmt.Sprintf("%v @%d -> page of %d rows", op, pos, nr), &c08Fail{sym: "wrong-rows", msg: fmt.Sprintf("ReadPage at row %d returned a page of %d rows (first value %v), the reader has only %d rows left of %d", pos, nr, firstTriple(tr), total-pos, total)}
		}
		var want []gen.Triple
		for r := pos; r < pos+nr; r++ {
			want = append(want, ck.f.rowTr[v.col][v.row(r)]...)
		}
		if !triplesEqual(want, tr) {
			first := "?"
			if len(tr) > 0 {
				// the first row of the page, for the message
				end := 1
				for end < len(tr) && tr[end].Rep != 0 {
					end++
				}
				first = ck.locate(v.col, tr[:end])
			}
			return fmt.Sprintf("%v @%d -> page of %d rows starting at %s", op, pos, nr, first), &c08Fail{sym: "wrong-rows",
				msg: fmt.Sprintf("ReadPage at row %d returned %d rows / %d values starting at %s; expected rows %d..%d (%d values)", pos, nr, len(tr), first, pos, pos+nr-1, len(want))}
		}
		ck.pos = pos + nr
		return finish(nr, nil, "rows")
	case "values":
		tr, err := v.readVals(batch)
		n := len(tr)
		if ck.vpos+n > len(ck.stream) || !triplesEqual(ck.stream[ck.vpos:ck.vpos+n], tr) {
			return fmt.Sprintf("%v @value %d -> %d values, differ", op, ck.vpos, n), &c08Fail{sym: "wrong-rows",
				msg: fmt.Sprintf("ReadValues at value %d (row %d) returned %d values starting with %v; expected %v", ck.vpos, pos, n, firstTriple(tr), firstTriple(ck.stream[min(ck.vpos, len(ck.stream)):]))}
		}
		d := fmt.Sprintf("%v @value %d -> %d values, %s", op, ck.vpos, n, errName(err))
		old := ck.vpos
		ck.vpos += n
		// keep the row position in step (first row starting at or after vpos)
		for ck.pos < total && ck.rowStart[ck.pos] < ck.vpos {
			ck.pos++
		}
		if ck.f.bad != nil && errors.Is(err, parquet.ErrCorrupted) {
			ck.unknown = true
			ck.lastKind = "corrupt"
			return d, nil
		}
		switch {
		case err == nil && n == 0:
			return d, &c08Fail{sym: "no-progress", msg: fmt.Sprintf("ReadValues at value %d returned nothing and no error", old)}
		case err == io.EOF && ck.vpos < len(ck.stream):
			return d, &c08Fail{sym: "premature-eof", msg: fmt.Sprintf("ReadValues at value %d returned %d values and EOF but the column has %d values", old, n, len(ck.stream))}
		case err != nil && err != io.EOF:
			return d, &c08Fail{sym: "read-error", msg: fmt.Sprintf("ReadValues at value %d failed: %v", old, err)}
		}
		return d, nil
	}
	return "", &c08Fail{sym: "harness", msg: "unknown view mode"}
}

func firstTriple(t []gen.Triple) string {
	if len(t) == 0 {
		return "(none)"
	}
	return t[0].String()
}

// c08Obs is called after every op of a run (L2 trace collection).
type c08Obs func(i int, op c08Op, v *c08View, ck *c08Checker)

// c08Run replays a history on a fresh view; it stops at the first failure.
func c08Run(f *c08File, sp c08Spec, ops []c08Op, obs c08Obs) (trace []string, fail *c08Fail) {
	v, err := f.open(sp)
	if err != nil {
		return nil, &c08Fail{at: -1, sym: "open-error", msg: err.Error()}
	}
	defer func() {
		defer func() { recover() }()
		v.close()
	}()
	ck := newC08Checker(f, v)
	for i, op := range ops {
		desc, fl := ck.step(op)
		trace = append(trace, desc)
		if obs != nil {
			obs(i, op, v, ck)
		}
		if fl != nil {
			fl.at = i
			return trace, fl
		}
	}
	return trace, nil
}

// c08Shrink: delta debugging on the op list, keeping the symptom class.
func c08Shrink(f *c08File, sp c08Spec, ops []c08Op, sym string) []c08Op {
	budget := 400
	fails := func(cand []c08Op) bool {
		if budget <= 0 {
			return false
		}
		budget--
		_, fl := c08Run(f, sp, cand, nil)
		return fl != nil && fl.sym == sym
	}
	// cut everything behind the failing op first
	if _, fl := c08Run(f, sp, ops, nil); fl != nil && fl.at >= 0 && fl.at+1 < len(ops) {
		ops = ops[:fl.at+1]
	}
	n := 2
	for len(ops) >= 2 && budget > 0 {
		chunk := (len(ops) + n - 1) / n
		reduced := false
		for start := 0; start < len(ops); start += chunk {
			end := min(start+chunk, len(ops))
			cand := append(append([]c08Op{}, ops[:start]...), ops[end:]...)
			if len(cand) > 0 && fails(cand) {
				ops = cand
				n = max(n-1, 2)
				reduced = true
				break
			}
		}
		if !reduced {
			if n >= len(ops) {
				break
			}
			n = min(n*2, len(ops))
		}
	}
	// simplify the arguments: smaller batch sizes
	for i := range ops {
		if ops[i].K == 'r' && ops[i].A > 2 {
			cand := append([]c08Op{}, ops...)
			cand[i].A = 2 - ops[i].A%2 // keep the parity: it selects the read style on mixed readers
			if fails(cand) {
				ops = cand
			}
		}
	}
	return ops
}

// c08Cause names the failing situation from the shrunk history.
func c08Cause(ops []c08Op, sym string) string {
	neg, lazy, twoSeeks, reset := false, false, false, false
	for i, o := range ops {
		if o.K == 'z' {
			reset = true
		}
		if o.K == 's' && o.A < 0 {
			neg = true
		}
		if o.K == 'i' {
			lazy = true
		}
		if o.K == 's' && i > 0 && ops[i-1].K == 's' {
			twoSeeks = true
		}
	}
	switch {
	case reset:
		return "after-reset-" + sym
	case neg:
		return "negative-seek-" + sym
	case lazy:
		return "lazy-offset-index-after-noindex-seek-" + sym
	case twoSeeks && (sym == "wrong-rows" || sym == "premature-eof"):
		return "seek-into-cached-page-stale-stream"
	}
	return sym
}

// ---------------------------------------------------------------- generators

type c08Row struct {
	ID   int64    `parquet:"id,plain"`
	S    string   `parquet:"s,dict"`
	Tags []int32  `parquet:"tags"`
	Opt  *float64 `parquet:"opt"`
}

func c08LocalFile(n int, opts ...parquet.WriterOption) (*c08File, error) {
	return c08LocalFileTags(n, func(i int) int { return i % 4 }, opts...)
}

// c08LongListLens: list lengths around the multiples of the row reader's value buffer (170 values):
// a row of the repeated column then spans several ReadValues refills
var c08LongListLens = []int{0, 1, 169, 170, 171, 2, 339, 340, 341, 0, 511, 3, 600, 170, 170, 1, 0, 168, 172, 1025}

func c08LongListFile(opts ...parquet.WriterOption) (*c08File, error) {
	f, err := c08LocalFileTags(3*len(c08LongListLens), func(i int) int { return c08LongListLens[i%len(c08LongListLens)] }, opts...)
	if f != nil {
		f.desc = "c08Row long lists " + f.desc
	}
	return f, err
}

func c08MakeRow(i int, ntags int) c08Row {
	row := c08Row{ID: int64(i), S: fmt.Sprintf("s%03d", i%17)}
	for j := 0; j < ntags; j++ {
		row.Tags = append(row.Tags, int32(i*10+j))
	}
	if i%3 != 0 {
		x := float64(i)
		row.Opt = &x
	}
	return row
}

func c08WriteRows(rows []c08Row, opts ...parquet.WriterOption) ([]byte, error) {
	var buf bytes.Buffer
	w := parquet.NewGenericWriter[c08Row](&buf, opts...)
	for i := range rows { // one row per call: the page buffer size is checked between calls
		if _, err := w.Write(rows[i : i+1]); err != nil {
			return nil, err
		}
	}
	if err := w.Close(); err != nil {
		return nil, err
	}
	return buf.Bytes(), nil
}

// c08MergedFile: A holds the ids 0..1199 and the even ids of 1200..1599, B the odd ids of
// 1200..1599 and 1600..2799, both sorted by id; MergeRowGroups cuts the lone stretches (>= 1024 rows,
// rounded to page boundaries) off as row range views. The rows of the file are A's then B's: the order in which the column chunks of the
// merged row group hold them.
func c08MergedFile() (*c08File, error) {
	var rowsA, rowsB []c08Row
	for i := 0; i < 2800; i++ {
		inA := i < 1200 || (i < 1600 && i%2 == 0)
		if inA {
			rowsA = append(rowsA, c08MakeRow(i, i%4))
		} else {
			rowsB = append(rowsB, c08MakeRow(i, i%4))
		}
	}
	sorted := parquet.SortingWriterConfig(parquet.SortingColumns(parquet.Ascending("id")))
	dataA, err := c08WriteRows(rowsA, parquet.PageBufferSize(256), sorted)
	if err != nil {
		return nil, err
	}
	dataB, err := c08WriteRows(rowsB, parquet.PageBufferSize(256), sorted)
	if err != nil {
		return nil, err
	}
	all := append(append([]c08Row{}, rowsA...), rowsB...)
	data, err := c08WriteRows(all, parquet.PageBufferSize(256))
	if err != nil {
		return nil, err
	}
	f := &c08File{name: "c08Row", desc: fmt.Sprintf("c08Row merged A(%d rows)+B(%d rows)", len(rowsA), len(rowsB)), schema: parquet.SchemaOf(c08Row{}),
		rows: reflect.ValueOf(all), n: len(all), data: data}
	f.merged = func(opts ...parquet.FileOption) (parquet.RowGroup, error) {
		a, err := parquet.OpenFile(bytes.NewReader(dataA), int64(len(dataA)), opts...)
		if err != nil {
			return nil, err
		}
		b, err := parquet.OpenFile(bytes.NewReader(dataB), int64(len(dataB)), opts...)
		if err != nil {
			return nil, err
		}
		return parquet.MergeRowGroups([]parquet.RowGroup{a.RowGroups()[0], b.RowGroups()[0]},
			parquet.SortingRowGroupConfig(parquet.SortingColumns(parquet.Ascending("id"))))
	}
	return f, c08Oracle(f)
}

func c08LocalFileTags(n int, tagsLen func(i int) int, opts ...parquet.WriterOption) (*c08File, error) {
	rows := make([]c08Row, n)
	for i := range rows {
		rows[i] = c08MakeRow(i, tagsLen(i))
	}
	var buf bytes.Buffer
	{
		b, err := c08WriteRows(rows, opts...)
		if err != nil {
			return nil, err
		}
		buf.Write(b)
	}
	f := &c08File{name: "c08Row", desc: fmt.Sprintf("c08Row n=%d", n), schema: parquet.SchemaOf(c08Row{}), rows: reflect.ValueOf(rows), n: n, data: buf.Bytes()}
	f.buffer = func() (parquet.RowGroup, error) {
		b := parquet.NewGenericBuffer[c08Row]()
		_, err := b.Write(rows)
		return b, err
	}
	return f, c08Oracle(f)
}

func c08RandFile(e *gen.Entry, r *rand.Rand) (f *c08File, err error) {
	n := []int{0, 1, 2, 9, 33, 64, 65, 100, 150, 257, 300, 500}[r.Intn(12)]
	prof := &gen.Profile{NullProb: []float64{0.1, 0.5, 0.9}[r.Intn(3)], MaxLen: 1 + r.Intn(4), SmallDomain: r.Intn(4) == 0}
	if r.Intn(3) == 0 {
		prof.RunLen = 70
	}
	rows := e.NewRows(n)
	gen.FillRows(r, rows, prof)
	cfg := gen.RandWriterCfg(r)
	opts := append([]parquet.WriterOption{}, cfg.Opts...)
	extra := ""
	if r.Intn(10) < 6 { // many small pages
		pb := []int{1, 16 + r.Intn(200), 300 + r.Intn(1500)}[r.Intn(3)]
		opts = append(opts, parquet.PageBufferSize(pb))
		extra += fmt.Sprintf(" pagebuf:=%d", pb)
	}
	maxRows := cfg.MaxRows
	if r.Intn(2) == 0 && n > 4 {
		maxRows = int64(n/(2+r.Intn(5)) + 1)
	}
	if maxRows > 0 && int64(n)/maxRows > 24 {
		maxRows = int64(n/(2+r.Intn(20)) + 1)
	}
	if maxRows != cfg.MaxRows {
		opts = append(opts, parquet.MaxRowsPerRowGroup(maxRows))
		extra += fmt.Sprintf(" maxrows:=%d", maxRows)
	}
	batches := c01Batches(r, n)
	var buf bytes.Buffer
	if err := e.WriteGeneric(&buf, rows.Interface(), batches, opts...); err != nil {
		return nil, fmt.Errorf("write: %w", err)
	}
	f = &c08File{name: e.Name, desc: fmt.Sprintf("%s n=%d %s%s batches=%v", e.Name, n, cfg.Desc, extra, batches), schema: e.Schema, rows: rows, n: n, data: buf.Bytes()}
	f.buffer = func() (parquet.RowGroup, error) { return e.NewGenericBuffer(rows.Interface()) }
	return f, c08Oracle(f)
}

func c08RandSpec(f *c08File, r *rand.Rand, kind string) (c08Spec, bool) {
	sp := c08Spec{Kind: kind, SkipIndex: r.Intn(2) == 0, Async: r.Intn(3) == 0}
	sp.ReadBuf = []int{0, 0, 1, 16, 64, 300, 4096}[r.Intn(7)]
	if f.nrg() == 0 {
		switch kind {
		case "reader-readrows", "reader-read", "generic-reader", "reader-mixed", "generic-reader-mixed", "buffer-rows", "buffer-pages":
		default:
			return sp, false
		}
	}
	if f.nrg() > 0 {
		sp.RG = r.Intn(f.nrg())
	}
	sp.Col = r.Intn(f.ncol)
	if (kind == "generic-reader" || kind == "generic-reader-mixed") && c08TypedOpeners[f.name] == nil {
		return sp, false
	}
	if strings.HasPrefix(kind, "range-") {
		tot := f.rgStart[sp.RG+1] - f.rgStart[sp.RG]
		if tot < 1 {
			return sp, false
		}
		sp.Off = r.Intn(tot)
		sp.Len = 1 + r.Intn(tot-sp.Off)
	}
	if strings.HasPrefix(kind, "buffer-") {
		sp.SkipIndex, sp.Async, sp.ReadBuf = false, false, 0
	}
	if kind == "rowgroup-rows-valbuf" {
		sp.ValBuf = []int{1, 1, 2, 3, 5, 7}[r.Intn(6)]
	}
	if strings.HasPrefix(kind, "nested-") {
		sp.Nest = c08RandNest(r, f.nrg())
	}
	return sp, true
}

// interesting rows of a view: page boundaries of one column (view-relative)
func c08Marks(f *c08File, sp c08Spec, v *c08View, r *rand.Rand) []int {
	var marks []int
	col := sp.Col
	if v.mode == "rows" || v.mode == "typed" || v.mode == "mixed" {
		col = r.Intn(f.ncol)
	}
	if sp.Nest != "" { // the page boundaries of every leaf, in view rows
		off := 0
		for _, g := range c08NestLeaves(sp.Nest) {
			for _, b := range f.bounds[g][col] {
				marks = append(marks, off+int(b))
			}
			off += f.rgStart[g+1] - f.rgStart[g]
		}
		return marks
	}
	for rg := 0; rg < f.nrg(); rg++ {
		for _, b := range f.bounds[rg][col] {
			m := f.rgStart[rg] + int(b) - v.base
			if m >= 0 && m <= v.total {
				marks = append(marks, m)
			}
		}
	}
	return marks
}

func c08RandOps(f *c08File, sp c08Spec, v *c08View, r *rand.Rand) []c08Op {
	length := []int{3, 8, 20, 60, 120, 200}[r.Intn(6)]
	marks := c08Marks(f, sp, v, r)
	total := v.total
	var ops []c08Op
	pos, lastLo := 0, 0
	seekBias := 35 + r.Intn(40)
	for len(ops) < length {
		x := r.Intn(100)
		switch {
		case x < 2 && sp.SkipIndex:
			ops = append(ops, c08Op{K: 'i'})
		case x >= 2 && x < 5 && v.reset != nil:
			ops = append(ops, c08Op{K: 'z'})
			pos, lastLo = 0, 0
		case x < seekBias:
			var k int
			switch y := r.Intn(20); {
			case y < 5: // into what was returned last: the cached page
				k = lastLo + r.Intn(max(pos-lastLo, 1))
			case y < 10 && len(marks) > 0: // page boundaries +-1
				k = marks[r.Intn(len(marks))] + r.Intn(3) - 1
			case y < 12:
				k = []int{0, total - 1, total, total + 1, total + 17}[r.Intn(5)]
			case y < 15: // near the current position
				k = pos + r.Intn(9) - 4
			default:
				k = r.Intn(total + 1)
			}
			if k < 0 {
				k = 0
			}
			ops = append(ops, c08Op{K: 's', A: int64(k)})
			pos, lastLo = min(k, total), min(k, total)
		default:
			b := []int{1, 1, 1, 2, 3, 7, 10, 64, 1000}[r.Intn(9)]
			ops = append(ops, c08Op{K: 'r', A: int64(b)})
			lastLo = pos
			if v.mode == "page" {
				// to the end of the page
				nxt := total
				for _, m := range marks {
					if m > pos && m < nxt {
						nxt = m
					}
				}
				pos = nxt
			} else {
				pos = min(pos+b, total)
			}
		}
	}
	return ops
}

// ---------------------------------------------------------------- L2: FilePages vs the Lean mirror

type c08Trace struct {
	outs   []string       // ok | err | eof | p<rows> | other
	pages  [][]gen.Triple // the values of the page returned by the op
	states []string       // index:pos:skip:lastPageIndex:serve:desync  ("" when the hook has nothing)
}

func c08HookState(f *c08File, sp c08Spec, v *c08View) string {
	st, ok := parquet.VerifFilePagesState(v.pages)
	if !ok {
		return ""
	}
	pos := 0
	offs := f.offsets[sp.RG][sp.Col]
	for _, o := range offs {
		if o < st.StreamOffset {
			pos++
		}
	}
	// byte level (seek_byte_position): the decoder stands exactly on the first byte of page `pos`,
	// on the first byte of the chunk (before anything was read: dictionary page) or behind the chunk
	exact := (pos < len(offs) && st.StreamOffset == offs[pos]) || (pos == len(offs) && st.StreamOffset == f.chunkHi[sp.RG][sp.Col]) ||
		(pos == 0 && st.StreamOffset == f.chunkLo[sp.RG][sp.Col])
	if !exact && f.bad == nil {
		return fmt.Sprintf("stream offset %d is not a page start (pages at %v, chunk %d..%d)", st.StreamOffset, offs, f.chunkLo[sp.RG][sp.Col], f.chunkHi[sp.RG][sp.Col])
	}
	li := st.LastPageIndex
	if st.LastPage == nil {
		li = -1
	}
	serve := 0
	if st.ServeLastPage {
		serve = 1
	}
	desync := 0
	if st.Desync {
		desync = 1
	}
	return fmt.Sprintf("%d:%d:%d:%d:%d:%d", st.Index, pos, st.Skip, li, serve, desync)
}

// c08L2 compares one recorded pages history with the model's answer.
func c08L2(ctx *core.Ctx, f *c08File, sp c08Spec, ops []c08Op, tr *c08Trace, req, ans string) {
	fail := func(i int, what string) {
		ctx.Fail("L2", "filepages-mirror "+what, "FilePages and the Lean mirror (seek.run) disagree: "+what, map[string]any{
			"file": f.desc, "view": sp.String(), "ops": c08OpsString(ops), "op_index": i, "request": req, "model": ans,
			"impl_outs": strings.Join(tr.outs, " "), "impl_states": strings.Join(tr.states, " "),
			"page_offsets": f.offsets[sp.RG][sp.Col], "page_sizes": f.psize[sp.RG][sp.Col], "chunk": []int64{f.chunkLo[sp.RG][sp.Col], f.chunkHi[sp.RG][sp.Col]},
			"file_sha256": hashHex(f.data), "file_hex": c08HexIfSmall(f.data)})
	}
	if !strings.HasPrefix(ans, "ok") {
		fail(-1, "model-refused-request")
		return
	}
	toks := strings.Fields(ans)[1:]
	if len(toks) < len(tr.outs) {
		fail(-1, "model-answer-short")
		return
	}
	for i := range tr.outs {
		parts := strings.SplitN(toks[i], "/", 2)
		mout, mstate := parts[0], parts[1]
		iout := tr.outs[i]
		if strings.HasPrefix(mout, "p") {
			// model: p<page>:<start>:<len>; the real page must hold exactly rows start..start+len-1
			fs := strings.Split(mout[1:], ":")
			start, _ := strconv.Atoi(fs[1])
			ln, _ := strconv.Atoi(fs[2])
			tot := f.rgStart[sp.RG+1] - f.rgStart[sp.RG]
			if iout != "p"+fs[2] || start+ln > tot {
				fail(i, "page-output")
				return
			}
			var want []gen.Triple
			for r := start; r < start+ln; r++ {
				want = append(want, f.rowTr[sp.Col][f.rgStart[sp.RG]+r]...)
			}
			if !triplesEqual(want, tr.pages[i]) {
				fail(i, "page-output")
				return
			}
		} else if mout != iout {
			fail(i, "output-kind")
			return
		}
		if tr.states[i] != "" {
			ms := strings.Split(mstate, ":") // index:pos:skip:li:lp:serve:desync
			want := strings.Join([]string{ms[0], ms[1], ms[2], ms[3], ms[5], ms[6]}, ":")
			if want != tr.states[i] {
				fail(i, "state")
				return
			}
		}
	}
}

// ---------------------------------------------------------------- Page.Slice of repeated pages

// c08SliceCheck reads every page of the repeated columns sequentially and slices it:
// L1: Slice(i, j) holds exactly rows i..j-1 of the page; L2: the level lists of the slice are the
// index range the Lean mirror of the two scan loops computes (slice.run).
func (w *c08Worker) sliceCheck(f *c08File, r *rand.Rand, origin string) {
	ctx := w.ctx
	pf, err := parquet.OpenFile(bytes.NewReader(f.data), int64(len(f.data)))
	if err != nil {
		return
	}
	for gi, rg := range pf.RowGroups() {
		for ci, cc := range rg.ColumnChunks() {
			leaf, ok := f.schema.Lookup(f.schema.Columns()[ci]...)
			if !ok || leaf.MaxRepetitionLevel == 0 {
				continue
			}
			func() {
				defer func() {
					if rec := recover(); rec != nil {
						ctx.Fail("L1", "slice-panic", fmt.Sprintf("Page.Slice panicked: %v", rec), map[string]any{"file": f.desc, "origin": origin, "row_group": gi, "column": ci})
					}
				}()
				pages := cc.Pages()
				defer pages.Close()
				start := f.rgStart[gi]
				for {
					pg, err := pages.ReadPage()
					if err != nil {
						return
					}
					nr := int(pg.NumRows())
					rep := append([]byte{}, pg.RepetitionLevels()...)
					dfn := append([]byte{}, pg.DefinitionLevels()...)
					for t := 0; t < 3 && nr > 0; t++ {
						i := r.Intn(nr + 1)
						j := i + r.Intn(nr+1-i)
						switch r.Intn(5) {
						case 0:
							i, j = 0, nr
						case 1:
							j = nr
						case 2:
							i = 0
						}
						sl := pg.Slice(int64(i), int64(j))
						var got []gen.Triple
						buf := make([]parquet.Value, 37)
						vr := sl.Values()
						for {
							n, err := vr.ReadValues(buf)
							for _, x := range buf[:n] {
								got = append(got, gen.TripleOf(x))
							}
							if err != nil || n == 0 {
								break
							}
						}
						var want []gen.Triple
						for row := start + i; row < start+j; row++ {
							want = append(want, f.rowTr[ci][row]...)
						}
						canon := fmt.Sprintf("slice %s|%s|rg%d col%d page@%d %d:%d", f.desc, hashHex(f.data), gi, ci, start, i, j)
						ctx.Case(canon, i > 0 && j < nr && i < j)
						ctx.Hist("slice", map[bool]string{true: "inner", false: "touches-page-edge"}[i > 0 && j < nr])
						detail := map[string]any{"file": f.desc, "origin": origin, "row_group": gi, "column": ci, "page_first_row": start - f.rgStart[gi], "page_rows": nr, "i": i, "j": j,
							"rep": core.JoinInts(rep), "def": core.JoinInts(dfn)}
						if int(sl.NumRows()) != j-i || !triplesEqual(want, got) {
							ctx.Fail("L1", "slice-wrong-rows", fmt.Sprintf("Slice(%d,%d) of a page of %d rows: NumRows=%d, %d values, expected rows %d..%d (%d values)", i, j, nr, sl.NumRows(), len(got), i, j-1, len(want)), detail)
						}
						srep := append([]byte{}, sl.RepetitionLevels()...)
						sdef := append([]byte{}, sl.DefinitionLevels()...)
						nulls := int(sl.NumNulls())
						req := fmt.Sprintf("slice.run %d %s %s %d %d", leaf.MaxDefinitionLevel, core.JoinInts(rep), core.JoinInts(dfn), i, j)
						w.reqs = append(w.reqs, req)
						w.pend = append(w.pend, func(ans string) {
							var a, b, bi, bj int
							if n, _ := fmt.Sscanf(ans, "ok %d %d %d %d", &a, &b, &bi, &bj); n != 4 || a > b || b > len(rep) {
								ctx.Fail("L2", "slice-mirror model-answer", "slice.run: unusable answer "+ans, detail)
								return
							}
							if !bytes.Equal(srep, rep[a:b]) || !bytes.Equal(sdef, dfn[a:b]) || nulls != (b-a)-(bj-bi) {
								d := map[string]any{"model": ans, "impl_rep": core.JoinInts(srep), "impl_def": core.JoinInts(sdef), "impl_nulls": nulls}
								for k, v := range detail {
									d[k] = v
								}
								ctx.Fail("L2", "slice-mirror levels", "levels of Page.Slice differ from the Lean mirror (slice.run)", d)
							}
						})
					}
					start += nr
					parquet.Release(pg)
					if len(w.reqs) >= 1000 {
						w.flush()
					}
				}
			}()
		}
	}
}

// ---------------------------------------------------------------- a page whose checksum does not match

// c08Corrupt returns a copy of f in which one byte of the body of one data page is flipped (the
// oracle keeps the rows as written). The setup is validated: a plain sequential read of the chunk
// must deliver the pages in front of it and report ErrCorrupted for this page.
func c08Corrupt(f *c08File, r *rand.Rand, rg, col, page int) *c08File {
	if f.nrg() == 0 {
		return nil
	}
	if rg < 0 {
		rg, col = r.Intn(f.nrg()), r.Intn(f.ncol)
		if len(f.offsets[rg][col]) == 0 {
			return nil
		}
		page = r.Intn(len(f.offsets[rg][col]))
	}
	off, size := f.offsets[rg][col][page], f.psize[rg][col][page]
	if size < 8 || off+size > int64(len(f.data)) {
		return nil
	}
	g := *f
	g.data = append([]byte{}, f.data...)
	// the last byte of the page is always a body byte; the one before it is the STOP byte of the page
	// header when the body is one byte long (a flipped header is outside the property: the header
	// decoder then runs on into the next page)
	_ = r.Intn(2)
	g.data[off+size-1] ^= 1 << uint(r.Intn(8))
	b := f.bounds[rg][col]
	hi := f.rgStart[rg+1]
	if page+1 < len(b) {
		hi = f.rgStart[rg] + int(b[page+1])
	}
	g.bad = &c08Bad{rg: rg, col: col, page: page, lo: f.rgStart[rg] + int(b[page]), hi: hi}
	g.desc = f.desc + fmt.Sprintf(" CORRUPT rg=%d col=%d page=%d rows=%d..%d", rg, col, page, g.bad.lo, g.bad.hi-1)
	g.buffer = nil
	// validate
	ok := func() (ok bool) {
		defer func() {
			if rec := recover(); rec != nil {
				ok = false
			}
		}()
		pf, err := parquet.OpenFile(bytes.NewReader(g.data), int64(len(g.data)))
		if err != nil {
			return false
		}
		pages := pf.RowGroups()[rg].ColumnChunks()[col].Pages()
		defer pages.Close()
		for p := 0; p <= page; p++ {
			pg, err := pages.ReadPage()
			if p < page {
				if err != nil {
					return false
				}
				parquet.Release(pg)
			} else {
				return errors.Is(err, parquet.ErrCorrupted)
			}
		}
		return false
	}()
	if !ok {
		return nil
	}
	return &g
}

// reader kinds that run on files with a corrupted page
var c08CorruptKinds = []string{"pages", "values", "multi-pages", "multi-values", "range-pages", "rowgroup-rows", "reader-readrows", "range-rows"}

// c08CorruptOps: read up to the bad page, then seeks into / around it and reads.
func c08CorruptOps(f *c08File, v *c08View, r *rand.Rand) []c08Op {
	lo, hi := f.bad.lo-v.base, f.bad.hi-v.base
	clamp := func(k int) int64 { return int64(max(0, min(k, v.total+1))) }
	var ops []c08Op
	if r.Intn(2) == 0 { // come from the page in front, reading
		ops = append(ops, c08Op{K: 's', A: clamp(lo - 1 - r.Intn(3))})
	} else if r.Intn(2) == 0 {
		ops = append(ops, c08Op{K: 's', A: clamp(lo + r.Intn(max(hi-lo, 1)))})
	}
	n := 4 + r.Intn(30)
	for len(ops) < n {
		switch x := r.Intn(10); {
		case x < 5:
			ops = append(ops, c08Op{K: 'r', A: int64([]int{1, 1, 2, 7, 64}[r.Intn(5)])})
		case x < 8: // into the bad page
			ops = append(ops, c08Op{K: 's', A: clamp(lo + r.Intn(max(hi-lo, 1)))})
		case x < 9: // just around it
			ops = append(ops, c08Op{K: 's', A: clamp([]int{lo - 1, hi, hi + 1, lo - 2}[r.Intn(4)])})
		default:
			ops = append(ops, c08Op{K: 's', A: clamp(r.Intn(v.total + 1))})
		}
	}
	return ops
}

func (w *c08Worker) corruptCases(f *c08File, r *rand.Rand, origin string, n int) {
	for t := 0; t < n; t++ {
		g := c08Corrupt(f, r, -1, 0, 0)
		if g == nil {
			w.ctx.Hist("corrupted-page", "setup-rejected")
			continue
		}
		w.ctx.Hist("corrupted-page", "ok")
		for _, kind := range c08CorruptKinds {
			sp, ok := c08RandSpec(g, r, kind)
			if !ok {
				continue
			}
			sp.RG, sp.Col = g.bad.rg, g.bad.col
			if strings.HasPrefix(kind, "range-") {
				tot := g.rgStart[sp.RG+1] - g.rgStart[sp.RG]
				sp.Off = r.Intn(tot)
				sp.Len = 1 + r.Intn(tot-sp.Off)
			}
			v, err := g.open(sp)
			if err != nil {
				continue
			}
			ops := c08CorruptOps(g, v, r)
			func() {
				defer func() { recover() }()
				v.close()
			}()
			w.runCase(g, sp, ops, origin)
		}
	}
}

// ---------------------------------------------------------------- the value-level loop of ReadRows

func c08Join(xs []int) string {
	s := make([]string, len(xs))
	for i, x := range xs {
		s[i] = strconv.Itoa(x)
	}
	return strings.Join(s, ",")
}

// valueLoopCheck reads one row group sequentially through the row reader built with a value buffer
// of `bufsize` slots per column. L1: the rows are the written ones. L2: for every column the number
// of rows and the number of values appended to each row, read after read, are those of the Lean
// mirror of the loop (`rowsv.run`) run on the column's pages of repetition levels cut into batches
// of `bufsize`.
func (w *c08Worker) valueLoopCheck(f *c08File, r *rand.Rand, origin string) {
	ctx := w.ctx
	if f.nrg() == 0 || f.bad != nil {
		return
	}
	rg := r.Intn(f.nrg())
	base, tot := f.rgStart[rg], f.rgStart[rg+1]-f.rgStart[rg]
	if tot == 0 {
		return
	}
	bufsize := []int{1, 2, 3, 5, 8, 170}[r.Intn(6)]
	pf, err := parquet.OpenFile(bytes.NewReader(f.data), int64(len(f.data)))
	if err != nil {
		return
	}
	desc := fmt.Sprintf("%s|%s|value-loop rg=%d valbuf=%d", f.desc, hashHex(f.data), rg, bufsize)
	var batches []int
	var counts []int
	lens := make([][][]int, f.ncol) // [col][read][row]
	var fail string
	func() {
		defer func() {
			if p := recover(); p != nil {
				fail = fmt.Sprintf("PANIC %v", p)
			}
		}()
		rr := parquet.VerifNewRowGroupRows(pf.RowGroups()[rg], bufsize)
		defer rr.Close()
		pos := 0
		for len(batches) < 60 {
			b := []int{1, 1, 2, 3, 7, 10, 64}[r.Intn(7)]
			buf := make([]parquet.Row, b)
			n, err := rr.ReadRows(buf)
			batches, counts = append(batches, b), append(counts, n)
			tr := rowsToTriples(buf[:n], f.ncol)
			for c := 0; c < f.ncol; c++ {
				var l []int
				for i := 0; i < n; i++ {
					l = append(l, len(tr[i][c]))
					if fail == "" && (pos+i >= tot || !triplesEqual(tr[i][c], f.rowTr[c][base+pos+i])) {
						fail = fmt.Sprintf("read #%d (ReadRows(%d) at row %d): row %d column %d holds %v", len(batches)-1, b, pos, pos+i, c, tr[i][c])
					}
				}
				lens[c] = append(lens[c], l)
			}
			want := min(b, tot-pos)
			if fail == "" && n != want {
				fail = fmt.Sprintf("read #%d (ReadRows(%d) at row %d of %d) returned %d rows (%s)", len(batches)-1, b, pos, tot, n, errName(err))
			}
			pos += n
			if err != nil && err != io.EOF && fail == "" {
				fail = fmt.Sprintf("read #%d (ReadRows(%d) at row %d) failed: %v", len(batches)-1, b, pos, err)
			}
			if err != nil || n == 0 {
				break
			}
		}
	}()
	ctx.Case(desc+"|"+c08Join(batches), false)
	ctx.Hist("value-loop-valbuf", strconv.Itoa(bufsize))
	if fail != "" {
		ctx.Fail("L1", "rowgroup-rows-valbuf-sequential-wrong-rows", "the row reader with a small value buffer does not return the written rows: "+fail,
			map[string]any{"file": f.desc, "origin": origin, "row_group": rg, "valbuf": bufsize, "batches": batches, "file_sha256": hashHex(f.data)})
		return
	}
	if w.d == nil {
		return
	}
	for c := 0; c < f.ncol; c++ {
		bounds := f.bounds[rg][c]
		if len(bounds) == 0 {
			bounds = []int64{0}
		}
		var pages []string
		for pi := range bounds {
			lo, hi := int(bounds[pi]), tot
			if pi+1 < len(bounds) {
				hi = int(bounds[pi+1])
			}
			var reps []int
			for row := lo; row < hi; row++ {
				for _, t := range f.rowTr[c][base+row] {
					reps = append(reps, int(t.Rep))
				}
			}
			if len(reps) == 0 {
				pages = nil
				break
			}
			pages = append(pages, c08Join(reps))
		}
		if pages == nil {
			continue
		}
		var want []string
		for i := range batches {
			want = append(want, fmt.Sprintf("%d:%s", counts[i], c08Join(lens[c][i])))
		}
		req := fmt.Sprintf("rowsv.run %d %s %s", bufsize, c08Join(batches), strings.Join(pages, "|"))
		col := c
		ctx.Hist("l2-layers", "value-loop")
		w.reqs = append(w.reqs, req)
		w.pend = append(w.pend, func(ans string) {
			got := strings.Fields(ans)
			ok := len(got) == len(want)+1 && got[0] == "ok"
			for i := 0; ok && i < len(want); i++ {
				ok = got[i+1] == want[i]
			}
			if !ok {
				ctx.Fail("L2", "readrows-value-loop-mirror", "the loop of ReadRows and its Lean mirror disagree on the rows / values per row of a column",
					map[string]any{"file": f.desc, "origin": origin, "row_group": rg, "column": col, "valbuf": bufsize, "request": req, "model": ans, "impl": strings.Join(want, " ")})
			}
		})
	}
	if len(w.reqs) >= 1000 {
		w.flush()
	}
}

// ---------------------------------------------------------------- driver of the sub-check

type c08Worker struct {
	ctx    *core.Ctx
	d      *drv.Driver
	reqs   []string
	pend   []func(string)
	mu     *sync.Mutex
	shrunk map[string]int
}

func (w *c08Worker) flush() {
	if w.d == nil || len(w.reqs) == 0 {
		w.reqs, w.pend = nil, nil
		return
	}
	ans, err := w.d.AskMany(w.reqs)
	if err != nil {
		w.ctx.Fail("L2", "driver-error", err.Error(), nil)
	}
	for i, a := range ans {
		w.pend[i](a)
	}
	w.reqs, w.pend = w.reqs[:0], w.pend[:0]
}

// runCase: one history on one view of one file: L1 (+ shrinking and reporting), L2 for FilePages.
func (w *c08Worker) runCase(f *c08File, sp c08Spec, ops []c08Op, origin string) {
	ctx := w.ctx
	if strings.HasSuffix(sp.Kind, "pages") { // Pages have no Reset method
		var kept []c08Op
		for _, o := range ops {
			if o.K != 'z' {
				kept = append(kept, o)
			}
		}
		ops = kept
	}
	l2 := sp.Kind == "pages" && !sp.Async && (f.bad == nil || (f.bad.rg == sp.RG && f.bad.col == sp.Col))
	for _, o := range ops {
		if o.K == 's' && o.A < 0 {
			l2 = false
		}
	}
	var tr c08Trace
	var obs c08Obs
	if l2 {
		obs = func(i int, op c08Op, v *c08View, ck *c08Checker) {
			out := ck.lastKind
			if out == "page" {
				out = "p" + strconv.Itoa(ck.lastNR)
			}
			tr.outs = append(tr.outs, out)
			tr.pages = append(tr.pages, ck.lastPage)
			tr.states = append(tr.states, c08HookState(f, sp, v))
		}
	}
	// the layers above FilePages against their Lean machines (outputs only: there is no hook)
	layerReq := ""
	if f.bad == nil {
		layerReq = c08LayerRequest(f, sp, ops)
	}
	var ltoks []string
	if layerReq != "" {
		inner := obs
		obs = func(i int, op c08Op, v *c08View, ck *c08Checker) {
			if inner != nil {
				inner(i, op, v, ck)
			}
			t := ck.lastKind
			if t == "page" {
				t = fmt.Sprintf("p%d:%d", ck.lastPos, ck.lastNR)
			} else if t == "corrupt" {
				t = "fail"
			}
			ltoks = append(ltoks, t)
		}
	}
	trace, fl := c08Run(f, sp, ops, obs)
	if layerReq != "" && len(ltoks) > 0 {
		ctx.Hist("l2-layers", sp.Kind)
		toks, kind := ltoks, sp.Kind
		w.reqs = append(w.reqs, layerReq)
		w.pend = append(w.pend, func(ans string) {
			want := strings.Fields(ans)
			ok := len(want) > len(toks) && want[0] == "ok"
			for i := 0; ok && i < len(toks); i++ {
				ok = want[i+1] == toks[i]
			}
			if !ok {
				ctx.Fail("L2", kind+"-layer-mirror", "the reader and its Lean machine disagree on the outputs of a history", map[string]any{
					"file": f.desc, "view": sp.String(), "ops": c08OpsString(ops), "request": layerReq, "model": ans, "impl": strings.Join(toks, " ")})
			}
		})
	}
	nback, ncached := 0, 0
	{
		last := int64(-1)
		for _, o := range ops {
			if o.K == 's' {
				if last >= 0 && o.A < last {
					nback++
				}
				last = o.A
			}
		}
		for i := 1; i < len(ops); i++ {
			if ops[i].K == 's' && ops[i-1].K == 's' {
				ncached++
			}
		}
	}
	ctx.Case(f.desc+"|"+hashHex(f.data)+"|"+sp.String()+"|"+c08OpsString(ops), nback > 0 && f.n > 1)
	ctx.Hist("view", sp.Kind)
	if f.bad != nil {
		ctx.Hist("corrupted-page-view", sp.Kind)
	}
	ctx.Hist("history-length", bucket(len(ops)))
	ctx.Hist("index", map[bool]string{true: "skipped-at-open", false: "loaded"}[sp.SkipIndex])
	ctx.Hist("readmode", map[bool]string{true: "async", false: "sync"}[sp.Async])
	ctx.Hist("readbuf", strconv.Itoa(sp.ReadBuf))
	ctx.Hist("backward-seeks", bucket(nback))
	ctx.Hist("consecutive-seeks", bucket(ncached))
	if fl != nil {
		coarse := sp.Kind + "/" + fl.sym
		w.mu.Lock()
		w.shrunk[coarse]++
		k := w.shrunk[coarse]
		w.mu.Unlock()
		ctx.Hist("l1-failures-before-shrinking", coarse)
		if k <= 3 {
			small := ops
			if fl.at >= 0 {
				small = c08Shrink(f, sp, ops, fl.sym)
			}
			strace, sfl := c08Run(f, sp, small, nil)
			if sfl == nil { // flaky (async): keep the original
				small, strace, sfl = ops, trace, fl
			}
			key := sp.Kind + "-" + c08Cause(small, sfl.sym)
			if f.bad != nil {
				key = sp.Kind + "-after-corrupt-page-" + sfl.sym
				detail0 := fmt.Sprintf("page %d of row group %d column %d (rows %d..%d) has a flipped byte in its body", f.bad.page, f.bad.rg, f.bad.col, f.bad.lo, f.bad.hi-1)
				sfl.msg += "; " + detail0
			}
			detail := map[string]any{"file": f.desc, "origin": origin, "view": sp.String(), "ops": c08OpsString(small), "trace": strace,
				"failure": sfl.msg, "unshrunk_ops": len(ops), "row_groups": f.rgStart, "file_sha256": hashHex(f.data)}
			if len(f.data) <= 6000 {
				detail["file_hex"] = hex.EncodeToString(f.data)
			}
			if sp.Kind == "pages" || sp.Kind == "values" {
				detail["page_first_rows"] = f.bounds[sp.RG][sp.Col]
			}
			ctx.Fail("L1", key, sfl.msg, detail)
		}
	}
	if l2 && len(tr.outs) > 0 {
		rows := f.pageRows(sp.RG, sp.Col)
		sum := 0
		okRows := true
		for _, x := range rows {
			sum += x
			okRows = okRows && x > 0
		}
		if !okRows || sum != f.rgStart[sp.RG+1]-f.rgStart[sp.RG] {
			ctx.Hist("l2", "skipped-page-layout")
			return
		}
		var sb strings.Builder
		for i, o := range ops[:len(tr.outs)] {
			if i > 0 {
				sb.WriteByte(',')
			}
			switch o.K {
			case 's':
				fmt.Fprintf(&sb, "s%d", o.A)
			case 'r':
				sb.WriteByte('r')
			default:
				sb.WriteByte('i')
			}
		}
		b2i := map[bool]int{true: 1}
		// seek.run executes the mirror of the tree the harness is built against; VERIF_C08_MIRROR=asis|fixed
		// selects the other transliteration explicitly (to re-check a tree without / with proposed_fixes/F11*.diff)
		op := "seek.run"
		if m := os.Getenv("VERIF_C08_MIRROR"); m == "asis" || m == "fixed" {
			op += "." + m
		}
		bad := "-"
		if f.bad != nil {
			bad = strconv.Itoa(f.bad.page)
		}
		req := fmt.Sprintf(op+" %s %d %d "+bad+" %s", core.JoinInts(rows), b2i[f.dict[sp.RG][sp.Col]], b2i[!sp.SkipIndex], sb.String())
		ctx.Hist("l2", "compared")
		opsCopy, trCopy := ops[:len(tr.outs)], tr
		w.reqs = append(w.reqs, req)
		w.pend = append(w.pend, func(ans string) { c08L2(ctx, f, sp, opsCopy, &trCopy, req, ans) })
		if len(w.reqs) >= 1000 {
			w.flush()
		}
	}
}

// c08LayerRequest builds the driver request for the Lean machine of a reader kind above
// FilePages ("" when the kind or the history is outside what the machines model).
func c08LayerRequest(f *c08File, sp c08Spec, ops []c08Op) string {
	if f.nrg() == 0 {
		return ""
	}
	chunk := func(rg, col int) string {
		rows := f.pageRows(rg, col)
		sum := 0
		for _, x := range rows {
			if x <= 0 {
				return ""
			}
			sum += x
		}
		if len(rows) == 0 || sum != f.rgStart[rg+1]-f.rgStart[rg] {
			return ""
		}
		return core.JoinInts(rows)
	}
	column := func(col int) string { // all row groups, or the leaves of the nest expression
		var cs []string
		rgs := c08NestLeaves(sp.Nest)
		if sp.Nest == "" {
			for rg := 0; rg < f.nrg(); rg++ {
				rgs = append(rgs, rg)
			}
		}
		for _, rg := range rgs {
			c := chunk(rg, col)
			if c == "" {
				return ""
			}
			cs = append(cs, c)
		}
		return strings.Join(cs, "|")
	}
	rowsKind := false
	total := f.n
	// how a read of batch b is written for the model: ReadRows(b), b calls of Read(&v), GenericReader.Read of b
	readTok := func(b int64) string { return fmt.Sprintf("r%d", b) }
	switch sp.Kind {
	case "rowgroup-rows", "rowgroup-rowreader", "rowgroup-rows-valbuf":
		rowsKind, total = true, f.rgStart[sp.RG+1]-f.rgStart[sp.RG]
	case "range-rows":
		rowsKind, total = true, sp.Len
	case "multi-rows", "reader-readrows", "nested-rows":
		rowsKind = true
	case "reader-read":
		rowsKind = true
		readTok = func(b int64) string { return fmt.Sprintf("t%d", b) }
	case "generic-reader":
		rowsKind = true
		readTok = func(b int64) string { return fmt.Sprintf("g%d", b) }
	case "reader-mixed", "generic-reader-mixed":
		rowsKind = true
		typed := "t"
		if sp.Kind == "generic-reader-mixed" {
			typed = "g"
		}
		readTok = func(b int64) string {
			if b%2 == 1 {
				return fmt.Sprintf("%s%d", typed, b)
			}
			return fmt.Sprintf("r%d", b)
		}
	case "multi-pages", "range-pages", "nested-pages", "column-pages":
	default:
		return ""
	}
	_ = total
	var sb strings.Builder
	for i, o := range ops {
		if i > 0 {
			sb.WriteByte(',')
		}
		switch {
		case o.K == 'i' || (o.K == 's' && o.A < 0):
			return "" // lazy index load changes the chunk readers opened later; negative indexes are L1 only
		case o.K == 's':
			fmt.Fprintf(&sb, "s%d", o.A) // beyond the last row too (reader_seek_refines)
		case o.K == 'z':
			sb.WriteByte('z')
		case rowsKind:
			sb.WriteString(readTok(max(o.A, 1)))
		default:
			sb.WriteByte('r')
		}
	}
	if len(ops) == 0 {
		return ""
	}
	idx := 1
	if sp.SkipIndex {
		idx = 0
	}
	switch sp.Kind {
	case "multi-pages":
		c := column(sp.Col)
		if c == "" {
			return ""
		}
		return fmt.Sprintf("multi.run %s %d %s", c, idx, sb.String())
	case "nested-pages":
		// the Lean mirror of multiRowGroup.init flattens the tree (chunks and row counts), multiPages
		// then runs over the result
		c := column(sp.Col)
		if c == "" {
			return ""
		}
		return fmt.Sprintf("nested.run %s %s %d %s", sp.Nest, c, idx, sb.String())
	case "column-pages":
		c := column(sp.Col)
		if c == "" {
			return ""
		}
		return fmt.Sprintf("column.run %s %d %s", c, idx, sb.String())
	case "range-pages":
		c := chunk(sp.RG, sp.Col)
		if c == "" {
			return ""
		}
		return fmt.Sprintf("range.run %s %d %d %d %s", c, idx, sp.Off, sp.Len, sb.String())
	}
	var cols []string
	for col := 0; col < f.ncol; col++ {
		c := ""
		switch sp.Kind {
		case "rowgroup-rows", "rowgroup-rowreader", "rowgroup-rows-valbuf", "range-rows":
			c = chunk(sp.RG, col)
		default:
			c = column(col)
		}
		if c == "" {
			return ""
		}
		cols = append(cols, c)
	}
	switch sp.Kind {
	case "range-rows":
		return fmt.Sprintf("rrows.run %s %d %d %d %s", strings.Join(cols, ";"), idx, sp.Off, sp.Len, sb.String())
	case "reader-read", "generic-reader", "reader-mixed", "generic-reader-mixed":
		return fmt.Sprintf("readerx.run %s %d %s", strings.Join(cols, ";"), idx, sb.String())
	}
	return fmt.Sprintf("rows.run %s %d %s", strings.Join(cols, ";"), idx, sb.String())
}

func c08HexIfSmall(b []byte) string {
	if len(b) > 400000 {
		return ""
	}
	return hex.EncodeToString(b)
}

func hashHex(b []byte) string {
	h := sha256.Sum256(b)
	return hex.EncodeToString(h[:8])
}

func bucket(n int) string {
	switch {
	case n == 0:
		return "0"
	case n <= 2:
		return "1-2"
	case n <= 8:
		return "3-8"
	case n <= 30:
		return "9-30"
	case n <= 100:
		return "31-100"
	}
	return ">100"
}

// the histories of finding F11 and its relatives, replayed on a fixed file before anything random
var c08Regressions = []struct{ name, ops string }{
	{"F11-A stream left behind", "s20 r1 s70 s25 r1 r1"},
	{"F11-B stale serveLastPage", "s20 r1 s25 s72 r1 r1"},
	{"lazy offset index after a no-index seek (dictionary column)", "s5 r1 i s25 r1 r1"},
	{"negative seek", "s3 r1 s-1 r1"},
	{"cached page revisited", "s20 r1 s22 r1 s20 r1 s29 r1 r1"},
	{"end and beyond", "s99 r1 r1 s100 r1 s1000 r1 s0 r1"},
	{"Reset then seek to where the reader was", "r5 z s5 r5"},
	{"Reset then read on", "s40 r5 z r5 s10 r1"},
	{"two read styles on one reader (odd batch: typed Read, even: ReadRows)", "s20 r1 r1 r2 r1 r2 s7 r2 r1 r4"},
}

// on the fixed file with page 1 of column id (rows 10..19) corrupted
var c08CorruptRegressions = []struct{ name, ops string }{
	{"retry seek into the page whose checksum failed", "r1 r1 s15 r1"},
	{"seek back after a failed read, then forward again", "s5 r1 r1 s3 r1 s15 r1 s20 r1"},
	{"failed read, seek to the next page", "s10 r1 s20 r1 r1"},
}

// on a fixed file of 4 row groups x 25 rows (pages of 10, 10, 5 rows for the id column), for the
// readers that span row groups
var c08MultiRGRegressions = []struct{ name, ops string }{
	{"read into a later row group, seek back into an earlier one, read on across both", "s30 r1 s5 r1 r1 r1 r1 r1 r1 r1 r1"},
	{"a row group read to its end, seek back, read on", "s50 r1 r1 r1 r1 s26 r1 r1 r1 r1 r1 r1 r1 r1"},
	{"seek to the end, then to the start, read everything", "s100 r1 s0 r64 r64 r64 r64 r64 r64 r64 r64 r64 r64 r64 r64"},
	{"seeks to the first row of every row group and one before", "s25 r1 s24 r1 r1 s50 r1 s49 r1 r1 s75 r1 s74 r1 r1 s99 r1 r1"},
	{"seek inside each row group from the last to the first", "s80 r1 s55 r1 s30 r1 s5 r1 r1 r1 r1 r1 r1 r1 r1 r1 r1 r1 r1 r1"},
}

var c08MultiRGKinds = []string{"column-pages", "multi-pages", "multi-values", "multi-rows", "nested-pages", "nested-values", "nested-rows",
	"reader-readrows", "reader-read", "generic-reader"}

var c08T0 = time.Now()

func RunC08(ctx *core.Ctx) {
	ctx.SetRule("files of catalogue struct types (nested/repeated/optional columns, random rows) under random writer configurations (page version, codec, page buffers from 1 byte = one page per row, several row groups) x open options (page index loaded or skipped, sync/async, read buffer 1..4096) x reader kind (FilePages, value reader, row group rows, Reader.ReadRows/Read, GenericReader, MultiRowGroup rows/pages/values, MultiRowGroup calls nested to any depth over any sequence of the row groups, Column.Pages() over all row groups, row range views, buffers) x random histories of up to 200 SeekToRow/read/lazy-index-load ops aimed at the cached page, page boundaries +-1 and the end; distinct by file+view+history; non-trivial = the history seeks backward at least once on a file of >= 2 rows; " + c08psRule)
	var mu sync.Mutex
	shrunk := map[string]int{}
	newWorker := func() *c08Worker {
		return &c08Worker{ctx: ctx, d: ctx.Driver(), mu: &mu, shrunk: shrunk}
	}
	// 1. fixed regression histories on a fixed file: 100 rows, 10 rows per page for the id column
	{
		w := newWorker()
		f, err := c08LocalFile(100, parquet.PageBufferSize(80))
		if err != nil {
			ctx.Fail("L1", "oracle-sequential-read-differs", "fixed file: "+err.Error(), nil)
		} else {
			// recorded cases first
			for _, cf := range ctx.CorpusFiles() {
				b, _ := os.ReadFile(cf)
				for _, line := range strings.Split(string(b), "\n") {
					line = strings.TrimSpace(line)
					head, opsText, ok := strings.Cut(line, "|")
					fs := strings.Fields(head)
					if !ok || strings.HasPrefix(line, "#") || len(fs) != 3 {
						continue
					}
					col, _ := strconv.Atoi(fs[1])
					w.runCase(f, c08Spec{Kind: fs[0], Col: col, SkipIndex: fs[2] == "1"}, c08ParseOps(opsText), "corpus: "+cf)
				}
			}
			for _, reg := range c08Regressions {
				ops := c08ParseOps(reg.ops)
				for _, kind := range c08Kinds {
					for col := 0; col < 2; col++ { // id (plain), s (dictionary)
						for _, skip := range []bool{false, true} {
							sp := c08Spec{Kind: kind, Col: col, SkipIndex: skip}
							if strings.HasPrefix(kind, "range-") {
								sp.Off, sp.Len = 0, 100
							}
							if kind == "rowgroup-rows-valbuf" {
								sp.ValBuf = 1 + col
							}
							if strings.HasPrefix(kind, "nested-") {
								sp.Nest = "(((0,0),0),0)" // the fixed file has one row group: 4 x 100 rows
							}
							if strings.HasPrefix(kind, "buffer-") && skip {
								continue
							}
							w.runCase(f, sp, ops, "regression: "+reg.name)
							if !strings.HasPrefix(kind, "buffer-") {
								sp.Async = true
								w.runCase(f, sp, ops, "regression: "+reg.name)
							}
						}
					}
				}
			}
		}
		if f != nil && err == nil {
			if g := c08Corrupt(f, ctx.Rand("c08/corrupt-fixed"), 0, 0, 1); g == nil {
				ctx.Fail("L1", "corrupt-setup", "the corrupted page of the fixed file is not reported by a sequential read", nil)
			} else {
				for _, reg := range c08CorruptRegressions {
					for _, kind := range c08CorruptKinds {
						for _, skip := range []bool{false, true} {
							for _, async := range []bool{false, true} {
								sp := c08Spec{Kind: kind, Col: 0, SkipIndex: skip, Async: async}
								if strings.HasPrefix(kind, "range-") {
									sp.Off, sp.Len = 0, 100
								}
								w.runCase(g, sp, c08ParseOps(reg.ops), "regression (corrupted page): "+reg.name)
							}
						}
					}
				}
			}
		}
		// the readers that span row groups, on a fixed file of 4 row groups
		if mf, err := c08LocalFile(100, parquet.PageBufferSize(80), parquet.MaxRowsPerRowGroup(25)); err != nil {
			ctx.Fail("L1", "oracle-sequential-read-differs", "fixed 4-row-group file: "+err.Error(), nil)
		} else {
			mf.desc += " maxrows=25"
			for _, reg := range c08MultiRGRegressions {
				for _, kind := range c08MultiRGKinds {
					for col := 0; col < 3; col++ { // id, s (dictionary), tags (repeated)
						for _, nest := range []string{"(((0,1),2),3)", "(0,(1,(2,3)))", "((0,1),(2,3))", "((1,0,(3,(2,2))),1)"} {
							sp := c08Spec{Kind: kind, Col: col, SkipIndex: col == 1}
							if strings.HasPrefix(kind, "nested-") {
								sp.Nest = nest
							} else if nest != "(((0,1),2),3)" {
								continue
							}
							w.runCase(mf, sp, c08ParseOps(reg.ops), "regression (4 row groups): "+reg.name)
						}
					}
				}
			}
		}
		// rows of a repeated column longer than the value buffer of the row reader (public API only)
		if lf, err := c08LongListFile(parquet.PageBufferSize(4096)); err != nil {
			ctx.Fail("L1", "oracle-sequential-read-differs", "long-list file: "+err.Error(), nil)
		} else {
			r := ctx.Rand("c08/long-lists")
			for _, kind := range c08Kinds {
				for h := 0; h < 3; h++ {
					sp, ok := c08RandSpec(lf, r, kind)
					if !ok {
						continue
					}
					if h == 0 {
						sp.Col = 2 // tags
					}
					v, err := lf.open(sp)
					if err != nil {
						ctx.Fail("L1", kind+"-open-error", "opening the view failed: "+err.Error(), map[string]any{"file": lf.desc, "view": sp.String()})
						continue
					}
					ops := c08RandOps(lf, sp, v, r)
					func() {
						defer func() { recover() }()
						v.close()
					}()
					w.runCase(lf, sp, ops, "long-list file")
				}
			}
			for i := 0; i < 6; i++ {
				w.valueLoopCheck(lf, r, "long-list file")
			}
		}
		// the public route to row range views: column chunks of a merged row group
		if mf, err := c08MergedFile(); err != nil {
			ctx.Fail("L1", "oracle-sequential-read-differs", "merged file: "+err.Error(), nil)
		} else {
			r := ctx.Rand("c08/merged")
			borders := []int{1200, 1400, 1600, 2800}
			for _, kind := range c08MergedKinds {
				for col := 0; col < mf.ncol; col++ {
					// a seek into the first range view, then a sequential read across its end and well into
					// the next segment
					for _, k := range []int64{1, 7, 33} {
						ops := []c08Op{{K: 's', A: k}}
						for i := 0; i < 90; i++ {
							ops = append(ops, c08Op{K: 'r', A: 64})
						}
						w.runCase(mf, c08Spec{Kind: kind, Col: col, SkipIndex: k == 7}, ops, "merged file: read across the end of a range view")
					}
					for h := 0; h < ctx.Scale(4, 12); h++ {
						sp := c08Spec{Kind: kind, Col: col, SkipIndex: r.Intn(2) == 0, Async: r.Intn(3) == 0, ReadBuf: []int{0, 0, 16, 300, 4096}[r.Intn(5)]}
						v, err := mf.open(sp)
						if err != nil {
							ctx.Fail("L1", kind+"-open-error", "opening the view failed: "+err.Error(), map[string]any{"file": mf.desc, "view": sp.String()})
							continue
						}
						ops := c08RandOps(mf, sp, v, r)
						func() {
							defer func() { recover() }()
							v.close()
						}()
						// aim some seeks at the borders of the segments
						for i := range ops {
							if ops[i].K == 's' && r.Intn(3) == 0 {
								ops[i].A = int64(max(borders[r.Intn(len(borders))]+r.Intn(5)-2-r.Intn(2)*r.Intn(40), 0))
							}
						}
						w.runCase(mf, sp, ops, "merged file")
					}
				}
			}
		}
		w.flush()
	}
	if os.Getenv("VERIF_C08_TIMING") != "" {
		fmt.Fprintf(os.Stderr, "c08: fixed part done %v\n", time.Since(c08T0))
	}
	// 2. random files x views x histories
	// thorough = ~7x the random part of quick (29 files per type since round 4: 21 kinds instead of 17;
	// CPU time of thorough is ~10 min in total, i.e. about 1-2 min wall on 16 idle cores, 19 min at load 230)
	filesPerType := ctx.Scale(6, 29)
	histsPerView := ctx.Scale(2, 3)
	var wg sync.WaitGroup
	sem := make(chan struct{}, 16)
	for _, e := range gen.Catalog {
		wg.Add(1)
		sem <- struct{}{}
		go func(e *gen.Entry) {
			defer wg.Done()
			defer func() { <-sem }()
			w := newWorker()
			defer w.flush()
			r := ctx.Rand("c08/" + e.Name)
			for k := 0; k < filesPerType; k++ {
				f, err := c08RandFile(e, r)
				origin := fmt.Sprintf("stream c08/%s file #%d", e.Name, k)
				if err != nil {
					if f == nil {
						ctx.Hist("file", "write-failed")
					} else {
						// the plain sequential read is wrong: C01's business, the oracle is unusable here
						ctx.Hist("file", "oracle-invalid")
						ctx.Fail("L1", "oracle-sequential-read-differs", "a plain sequential read does not return what was written: "+err.Error(), map[string]any{"file": f.desc, "origin": origin})
					}
					continue
				}
				ctx.Hist("file", "ok")
				ctx.Hist("rows", bucket(f.n))
				ctx.Hist("row-groups", bucket(f.nrg()))
				if k == 0 && (e.Name == "T000" || e.Name == "T002") {
					ctx.Sample(map[string]any{"file": f.desc, "row_groups": f.rgStart})
				}
				if k < ctx.Scale(2, 20) {
					w.sliceCheck(f, r, origin)
				}
				w.corruptCases(f, r, origin, ctx.Scale(1, 3))
				for i := 0; i < ctx.Scale(2, 4); i++ {
					w.valueLoopCheck(f, r, origin)
				}
				for _, kind := range c08Kinds {
					for h := 0; h < histsPerView; h++ {
						sp, ok := c08RandSpec(f, r, kind)
						if !ok {
							continue
						}
						v, err := f.open(sp)
						if err != nil {
							ctx.Fail("L1", kind+"-open-error", "opening the view failed: "+err.Error(), map[string]any{"file": f.desc, "view": sp.String(), "origin": origin})
							continue
						}
						ops := c08RandOps(f, sp, v, r)
						func() {
							defer func() { recover() }()
							v.close()
						}()
						if r.Intn(40) == 0 { // a negative seek somewhere, then a read
							i := r.Intn(len(ops) + 1)
							ops = append(append(append([]c08Op{}, ops[:i]...), c08Op{K: 's', A: -1 - int64(r.Intn(3))}, c08Op{K: 'r', A: 1}), ops[i:]...)
						}
						if k == 0 && h == 0 && e.Name == "T002" && (kind == "pages" || kind == "reader-readrows") {
							ctx.Sample(map[string]any{"file": f.desc, "view": sp.String(), "ops": c08OpsString(ops)})
						}
						w.runCase(f, sp, ops, origin)
					}
				}
			}
		}(e)
	}
	wg.Wait()
	if os.Getenv("VERIF_C08_TIMING") != "" {
		fmt.Fprintf(os.Stderr, "c08: random part done %v\n", time.Since(c08T0))
	}
}
