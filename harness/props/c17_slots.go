package props

import (
	"bytes"
	"fmt"
	"math/rand"
	"sort"
	"strings"
	"sync"

	"github.com/parquet-go/parquet-go"

	"verifharness/core"
	"verifharness/gen"
)

// C17 "slots" (L2): the Lean mirror of the row-group slots of w.rowGroups and of what writeRowGroup
// stores in them (lean/PqModel/ResetSlots.lean, driver op slots.run) against real files. A real
// GenericWriter (default options; with or without declared sorting columns) is handed row groups
// through WriteRowGroup — sorted buffers declaring their own sorting columns, or none — with
// Close/Reset in between; the row groups listed in the footer of the LAST file (number of column
// chunks, sorting_columns: absent / empty / entries) must be what the model emits for the same
// history. Reverting the repair 8f4fe5a shows here (model: entries; files: empty list or none) next
// to the L1 failures of the history sub-check.
func init() { RegisterSub("C17", "slots", RunC17Slots) }

type c17SlotsCase struct {
	req, real string
	detail    map[string]any
}

func c17ShowSorting(sc []c17Sort) string {
	if len(sc) == 0 {
		return "-"
	}
	out := make([]string, len(sc))
	for i, s := range sc {
		p := make([]string, len(s.path))
		for j, x := range s.path {
			p[j] = fmt.Sprintf("%x", x)
		}
		out[i] = fmt.Sprintf("%s/%s/%s", strings.Join(p, "."), c17B01(s.descending), c17B01(s.nullsFirst))
	}
	return strings.Join(out, ",")
}

func c17B01(b bool) string {
	if b {
		return "1"
	}
	return "0"
}

func RunC17Slots(ctx *core.Ctx) {
	d := ctx.Driver()
	if d == nil {
		return
	}
	ctx.SetRule(c17Rule)
	ncases := ctx.Scale(6, 24)
	var mu sync.Mutex
	var all []c17SlotsCase
	var wg sync.WaitGroup
	sem := make(chan struct{}, 16)
	for _, e := range gen.WithGeo() {
		wg.Add(1)
		sem <- struct{}{}
		go func(e *gen.Entry) {
			defer wg.Done()
			defer func() { <-sem }()
			r := ctx.Rand("c17s/" + e.Name)
			for k := 0; k < ncases; k++ {
				if c := c17SlotsOne(ctx, e, r); c != nil {
					mu.Lock()
					all = append(all, *c)
					mu.Unlock()
				}
			}
		}(e)
	}
	wg.Wait()
	reqs := make([]string, len(all))
	for i, c := range all {
		reqs[i] = c.req
	}
	ans, err := d.AskMany(reqs)
	if err != nil {
		ctx.Fail("L2", "driver-error", err.Error(), nil)
		return
	}
	for i, a := range ans {
		c := all[i]
		if a == "ok "+c.real {
			continue
		}
		c.detail["files_footer"], c.detail["model"], c.detail["request"] = c.real, a, c.req
		what := "row-groups"
		if strings.Count(a, ";") == strings.Count(c.real, ";") {
			what = "sorting-columns"
		}
		ctx.Fail("L2", "slots-mirror "+what, "the footer of a file written through WriteRowGroup by a (reused) writer does not list the row groups the Lean mirror of writeRowGroup's slot handling emits: "+what+" differ", c.detail)
	}
}

func c17SlotsOne(ctx *core.Ctx, e *gen.Entry, r *rand.Rand) *c17SlotsCase {
	var cfgSort []c17Sort
	if r.Intn(4) == 0 {
		cfgSort = c17RandSorting(r, e)
	}
	var opts []parquet.WriterOption
	if len(cfgSort) > 0 {
		opts = append(opts, parquet.SortingWriterConfig(parquet.SortingColumns(c17SortingColumns(cfgSort)...)))
	}
	leaves := e.Schema.Columns()
	out := new(bytes.Buffer)
	var w gen.StatefulWriter
	if err := c17Guard(func() error { w = e.NewTypedWriter(out, opts...); return nil }); err != nil {
		ctx.Hist("slots-skipped", errClass(err))
		return nil
	}
	var ops, human []string
	var lastReset int // index in ops after the last Reset
	nops := 1 + r.Intn(8)
	groups := 0
	for i := 0; i < nops; i++ {
		k := r.Intn(6)
		if i == nops-1 {
			k = 0 // the last file holds at least one row group
		}
		switch {
		case k < 4:
			var rgSort []c17Sort
			if r.Intn(4) > 0 {
				rgSort = c17RandSorting(r, e)
			}
			n := 1 + r.Intn(5)
			rows := c17GenRows(r, e, n, r.Intn(2) == 0)
			err := c17Guard(func() error {
				var ropts []parquet.RowGroupOption
				if len(rgSort) > 0 {
					ropts = append(ropts, parquet.SortingRowGroupConfig(parquet.SortingColumns(c17SortingColumns(rgSort)...)))
				}
				b := e.NewTypedBuffer(ropts...)
				for j := 0; j < n; j++ { // one row per call: see c17BufferFile
					if _, err := b.Write(rows.Slice(j, j+1).Interface()); err != nil {
						return err
					}
				}
				if len(rgSort) > 0 {
					sort.Sort(b)
				}
				_, err := w.WriteRowGroup(b)
				return err
			})
			if err != nil {
				ctx.Hist("slots-skipped", "write-row-group "+errClass(err))
				return nil
			}
			ops = append(ops, fmt.Sprintf("g:%d:%s", len(leaves), c17ShowSorting(rgSort)))
			human = append(human, fmt.Sprintf("WriteRowGroup(%d rows, sorting %v)", n, rgSort))
			groups++
			ctx.Hist("slots-row-group-sorting-columns", fmt.Sprint(len(rgSort)))
		default:
			if err := c17Guard(w.Close); err != nil {
				ctx.Hist("slots-skipped", "close "+errClass(err))
				return nil
			}
			out = new(bytes.Buffer)
			w.Reset(out)
			ops = append(ops, "r")
			human = append(human, "Close; Reset")
			lastReset = len(ops)
		}
	}
	if err := c17Guard(w.Close); err != nil {
		ctx.Hist("slots-skipped", "close "+errClass(err))
		return nil
	}
	f, err := parquet.OpenFile(bytes.NewReader(out.Bytes()), int64(out.Len()))
	if err != nil {
		ctx.Fail("L1", "slots-file-unreadable "+errClass(err), "a file written through WriteRowGroup cannot be opened", map[string]any{"type": e.Name, "history": human})
		return nil
	}
	var rgs []string
	for _, rg := range f.Metadata().RowGroups {
		s := "nil"
		if rg.SortingColumns != nil {
			s = "-"
			if len(rg.SortingColumns) > 0 {
				parts := make([]string, len(rg.SortingColumns))
				for i, sc := range rg.SortingColumns {
					parts[i] = fmt.Sprintf("%d:%s:%s", sc.ColumnIdx, c17B01(sc.Descending), c17B01(sc.NullsFirst))
				}
				s = strings.Join(parts, ",")
			}
		}
		rgs = append(rgs, fmt.Sprintf("%d|%s", len(rg.Columns), s))
	}
	real := "-"
	if len(rgs) > 0 {
		real = strings.Join(rgs, ";")
	}
	cs := make([]string, len(cfgSort))
	for i, s := range cfgSort {
		idx := 0
		for j, p := range leaves {
			if c17Path(p) == c17Path(s.path) {
				idx = j
			}
		}
		cs[i] = fmt.Sprintf("%d:%s:%s", idx, c17B01(s.descending), c17B01(s.nullsFirst))
	}
	cfgText := "-"
	if len(cs) > 0 {
		cfgText = strings.Join(cs, ",")
	}
	lp := make([]string, len(leaves))
	for i, p := range leaves {
		q := make([]string, len(p))
		for j, x := range p {
			q[j] = fmt.Sprintf("%x", x)
		}
		lp[i] = strings.Join(q, ".")
	}
	ctx.Case("slots|"+e.Name+"|"+cfgText+"|"+strings.Join(ops, ";"), lastReset > 0 && groups > 1)
	ctx.Hist("slots-resets-before-last-file", fmt.Sprint(strings.Count(strings.Join(ops, ";"), "r")))
	return &c17SlotsCase{
		req:    fmt.Sprintf("slots.run current %s %s %s", cfgText, strings.Join(lp, ";"), strings.Join(ops, ";")),
		real:   real,
		detail: map[string]any{"type": e.Name, "writer_sorting": fmt.Sprint(cfgSort), "history": human},
	}
}
