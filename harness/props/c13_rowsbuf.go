package props

// C13 "rowsbuf": the row reader of a row group (rowGroupRows, row_group.go) against its Lean mirror
// PqModel.RowsBuf, CALL BY CALL, on files written by the library in which zero, one or two data pages
// have a flipped bit (the loader rejects them: checksum mismatch).
//
// One case = (schema shape, rows, page buffer size, page version, size of the per-column value buffer,
// corrupted pages, history of ReadRows(n) / SeekToRow(k) / Reset). Every value written is the number of
// its row, so a returned row shows, column by column, which row of the file it was taken from.
//
//	L2: after every call — what it returned (row count, io.EOF or not, failure; for every value its
//	    column, row, repetition level and the data page it lies in) and the state the hook
//	    VerifRowGroupRowsState exposes (r.rowIndex, r.err != nil, values left in every column buffer) —
//	    equals what RowsBuf.run answers for the page layout read from the pristine file.
//	L1 (oracle written from the property, not from the mirror): a call that returns rows returns the
//	    rows pos, pos+1, … (pos = the row of the last seek / Reset plus the rows returned since), every
//	    column of a row from that same row, complete, none of them from a corrupted page; after a failed
//	    call every ReadRows fails until SeekToRow or Reset; failures are ErrCorrupted.

import (
	"bytes"
	"errors"
	"fmt"
	"io"
	"math/rand"
	"runtime"
	"strings"
	"sync"

	"github.com/parquet-go/parquet-go"

	"verifharness/core"
)

func init() { RegisterSub("C13", "rowsbuf", RunC13RowsBuf) }

const c13RowsBufRule = "rowsbuf: one case = (shape of 1..3 flat/repeated columns, rows, page buffer size, page version, value buffer size, corrupted pages, history of reads/seeks/resets), distinct by that text; non-trivial = a page is corrupted, some call fails and some call returns rows"

type rbA struct{ A int64 }
type rbAB struct {
	A int64
	B int32
}
type rbAL struct {
	A int64
	L []int64
}
type rbLA struct {
	L []int64
	A int64
}
type rbABL struct {
	A int64
	B int32
	L []int64
}
type rbL struct{ L []int64 }
type rbLB struct {
	L []int64
	B int32
}

var c13RbShapes = []string{"A", "AB", "AL", "LA", "ABL", "L", "LB"}

// number of elements of the list of row i
func c13RbListLen(i, mod int) int { return 1 + (i*7+i/3)%mod }

func c13RbList(i, mod int) []int64 {
	l := make([]int64, c13RbListLen(i, mod))
	for k := range l {
		l[k] = int64(i)
	}
	return l
}

func c13RbWriteT[T any](mk func(i int) T, n int, chunks []int, opts []parquet.WriterOption) ([]byte, error) {
	var buf bytes.Buffer
	w := parquet.NewGenericWriter[T](&buf, opts...)
	i := 0
	for _, c := range chunks {
		rows := make([]T, 0, c)
		for ; len(rows) < c && i < n; i++ {
			rows = append(rows, mk(i))
		}
		if len(rows) > 0 {
			if _, err := w.Write(rows); err != nil {
				return nil, err
			}
		}
	}
	if err := w.Close(); err != nil {
		return nil, err
	}
	return buf.Bytes(), nil
}

func c13RbWrite(shape string, n, mod int, chunks []int, opts []parquet.WriterOption) ([]byte, error) {
	switch shape {
	case "A":
		return c13RbWriteT(func(i int) rbA { return rbA{int64(i)} }, n, chunks, opts)
	case "AB":
		return c13RbWriteT(func(i int) rbAB { return rbAB{int64(i), int32(i)} }, n, chunks, opts)
	case "AL":
		return c13RbWriteT(func(i int) rbAL { return rbAL{int64(i), c13RbList(i, mod)} }, n, chunks, opts)
	case "LA":
		return c13RbWriteT(func(i int) rbLA { return rbLA{c13RbList(i, mod), int64(i)} }, n, chunks, opts)
	case "ABL":
		return c13RbWriteT(func(i int) rbABL { return rbABL{int64(i), int32(i), c13RbList(i, mod)} }, n, chunks, opts)
	case "L":
		return c13RbWriteT(func(i int) rbL { return rbL{c13RbList(i, mod)} }, n, chunks, opts)
	case "LB":
		return c13RbWriteT(func(i int) rbLB { return rbLB{c13RbList(i, mod), int32(i)} }, n, chunks, opts)
	}
	return nil, fmt.Errorf("c13 rowsbuf: unknown shape %q", shape)
}

type c13RbCase struct {
	Shape   string
	N, Mod  int
	PBS     int
	Version int
	ValBuf  int
	Chunk   int
	Bad     [][2]int // (column, ordinal of the data page)
	Ops     []string
}

func (c c13RbCase) canon() string {
	return fmt.Sprintf("rowsbuf %s n=%d mod=%d pbs=%d v%d buf=%d chunk=%d bad=%v ops=%s", c.Shape, c.N, c.Mod, c.PBS, c.Version, c.ValBuf, c.Chunk, c.Bad, strings.Join(c.Ops, ","))
}

// layout of the pristine file: per column the pages (levels of their values), per column the page of every row
type c13RbLayout struct {
	pages   [][]string // per column, per data page: one digit per value
	first   [][]int    // per column, per data page: first row
	pageOf  [][]int    // per column, per row
	located [][]c13Page
}

func c13RbLayoutOf(data []byte, n int) (*c13RbLayout, error) {
	f, err := c13Open(data)
	if err != nil {
		return nil, err
	}
	if len(f.RowGroups()) != 1 {
		return nil, fmt.Errorf("%d row groups", len(f.RowGroups()))
	}
	all, err := c13Locate(data, f)
	if err != nil {
		return nil, err
	}
	lay := &c13RbLayout{}
	for ci, chunk := range f.RowGroups()[0].ColumnChunks() {
		var pgs []string
		var first []int
		pageOf := make([]int, 0, n)
		pages := chunk.Pages()
		row := -1
		for {
			p, err := pages.ReadPage()
			if err == io.EOF {
				break
			}
			if err != nil {
				pages.Close()
				return nil, err
			}
			vals := make([]parquet.Value, p.NumValues()+1)
			k, err := p.Values().ReadValues(vals)
			if err != nil && err != io.EOF {
				pages.Close()
				return nil, err
			}
			var sb strings.Builder
			first = append(first, row+1)
			for _, v := range vals[:k] {
				if v.RepetitionLevel() == 0 {
					row++
					pageOf = append(pageOf, len(pgs))
				}
				if v.IsNull() || c13RbRowOf(v) != row {
					pages.Close()
					return nil, fmt.Errorf("pristine file: value %v in row %d of column %d", v, row, ci)
				}
				sb.WriteByte(byte('0' + v.RepetitionLevel()))
			}
			pgs = append(pgs, sb.String())
			parquet.Release(p)
		}
		pages.Close()
		if row+1 != n {
			return nil, fmt.Errorf("pristine file: column %d has %d rows, want %d", ci, row+1, n)
		}
		lay.pages = append(lay.pages, pgs)
		lay.first = append(lay.first, first)
		lay.pageOf = append(lay.pageOf, pageOf)
		var loc []c13Page
		for _, p := range all {
			if p.Col == ci && p.Kind != "dict" {
				loc = append(loc, p)
			}
		}
		if len(loc) != len(pgs) {
			return nil, fmt.Errorf("pristine file: column %d: %d pages read, %d located", ci, len(pgs), len(loc))
		}
		lay.located = append(lay.located, loc)
	}
	return lay, nil
}

func c13RbRowOf(v parquet.Value) int {
	switch v.Kind() {
	case parquet.Int64:
		return int(v.Int64())
	case parquet.Int32:
		return int(v.Int32())
	}
	return -1
}

var c13RbBufs = []int{1, 2, 3, 4, 5, 7, 8, 9, 16, 33, 170}
var c13RbPBS = []int{16, 24, 24, 40, 40, 64, 100, 256}

func c13RbGen(r *rand.Rand) c13RbCase {
	c := c13RbCase{
		Shape:   c13RbShapes[r.Intn(len(c13RbShapes))],
		N:       []int{1, 2, 3, 5, 8, 9, 13, 17, 24, 31, 40, 57}[r.Intn(12)],
		Mod:     1 + r.Intn(4),
		PBS:     c13RbPBS[r.Intn(len(c13RbPBS))],
		Version: 1 + r.Intn(2),
		ValBuf:  c13RbBufs[r.Intn(len(c13RbBufs))],
		Chunk:   1 + r.Intn(4),
	}
	return c
}

func c13RbGenOps(r *rand.Rand, c c13RbCase, lay *c13RbLayout) []string {
	var ks []int
	for _, first := range lay.first {
		for _, f := range first {
			ks = append(ks, f, f+1)
			if f > 0 {
				ks = append(ks, f-1)
			}
		}
	}
	ks = append(ks, 0, c.N-1, c.N, c.N+2)
	ns := []int{0, 1, 1, 2, 2, 3, 4, 5, 8, c.ValBuf, c.ValBuf + 1, c.N, c.N + 3}
	if c.ValBuf > 1 {
		ns = append(ns, c.ValBuf-1)
	}
	var ops []string
	for i, k := 0, 3+r.Intn(7); i < k; i++ {
		switch x := r.Intn(10); {
		case x < 5:
			ops = append(ops, fmt.Sprintf("r%d", ns[r.Intn(len(ns))]))
		case x < 9:
			ops = append(ops, fmt.Sprintf("s%d", max(ks[r.Intn(len(ks))], 0)))
		default:
			ops = append(ops, "z")
		}
	}
	return ops
}

// c13RbReal runs the history on the real reader; out = one answer per call in the format of the driver op
func c13RbReal(data []byte, c c13RbCase, lay *c13RbLayout) (out []string, l1 []string, err error) {
	f, err := c13Open(data)
	if err != nil {
		return nil, nil, err
	}
	rr := parquet.VerifNewRowGroupRows(f.RowGroups()[0], c.ValBuf)
	defer rr.Close()
	isBad := func(col, row int) bool {
		if row < 0 || row >= len(lay.pageOf[col]) {
			return false
		}
		for _, b := range c.Bad {
			if b[0] == col && b[1] == lay.pageOf[col][row] {
				return true
			}
		}
		return false
	}
	ncols := len(lay.pages)
	pos, pending := 0, false
	for oi, op := range c.Ops {
		var ans string
		var n int
		fmt.Sscanf(op[1:], "%d", &n)
		switch op[0] {
		case 'r':
			rows := make([]parquet.Row, n)
			cnt, rerr := rr.ReadRows(rows)
			switch {
			case rerr == nil || rerr == io.EOF:
				var sb strings.Builder
				fmt.Fprintf(&sb, "R%d", cnt)
				if rerr == io.EOF {
					sb.WriteByte('e')
				} else {
					sb.WriteByte('-')
				}
				if pending {
					l1 = append(l1, fmt.Sprintf("read-after-failure-returns|call %d (%s) returned %d rows, err=%v although the previous ReadRows failed and no SeekToRow / Reset followed", oi, op, cnt, rerr))
				}
				if cnt > n {
					l1 = append(l1, fmt.Sprintf("more-rows-than-asked|call %d (%s) returned %d rows", oi, op, cnt))
				}
				for i := 0; i < cnt && i < len(rows); i++ {
					if i == 0 {
						sb.WriteByte(':')
					} else {
						sb.WriteByte(';')
					}
					seen := make([]int, ncols)
					for vi, v := range rows[i] {
						col, row := v.Column(), c13RbRowOf(v)
						if vi > 0 {
							sb.WriteByte(',')
						}
						pg := -1
						if col >= 0 && col < ncols && row >= 0 && row < len(lay.pageOf[col]) {
							pg = lay.pageOf[col][row]
						}
						fmt.Fprintf(&sb, "%d.%d.%d.%d", col, row, v.RepetitionLevel(), pg)
						if col >= 0 && col < ncols {
							seen[col]++
						}
						if row != pos+i {
							l1 = append(l1, fmt.Sprintf("row-from-another-row|call %d (%s): row %d of the call should be row %d of the file, column %d delivered a value of row %d", oi, op, i, pos+i, col, row))
						} else if col >= 0 && col < ncols && isBad(col, row) {
							l1 = append(l1, fmt.Sprintf("row-of-corrupted-page-returned|call %d (%s): row %d column %d lies in a corrupted page", oi, op, row, col))
						}
					}
					for col := 0; col < ncols; col++ {
						want := 1
						if c13RbIsList(c.Shape, col) {
							want = c13RbListLen(pos+i, c.Mod)
						}
						if seen[col] != want {
							l1 = append(l1, fmt.Sprintf("row-incomplete|call %d (%s): row %d column %d has %d values, want %d", oi, op, pos+i, col, seen[col], want))
						}
					}
				}
				pos += cnt
				ans = sb.String()
			case errors.Is(rerr, parquet.ErrCorrupted):
				ans = "F"
				if cnt != 0 {
					ans = fmt.Sprintf("F+%d", cnt)
					l1 = append(l1, fmt.Sprintf("rows-with-failure|call %d (%s) returned %d rows with %v", oi, op, cnt, rerr))
				}
				pending = true
			default:
				ans = "X:" + strings.ReplaceAll(rerr.Error(), " ", "_")
				l1 = append(l1, fmt.Sprintf("unexpected-error|call %d (%s): %v", oi, op, rerr))
				pending = true
			}
		case 's':
			if serr := rr.SeekToRow(int64(n)); serr != nil {
				ans = "X:" + strings.ReplaceAll(serr.Error(), " ", "_")
			} else {
				ans = "D"
				pos, pending = n, false
			}
		case 'z':
			rr.(interface{ Reset() }).Reset()
			ans = "D"
			pos, pending = 0, false
		}
		st, ok := parquet.VerifRowGroupRowsState(rr)
		if !ok {
			return nil, nil, fmt.Errorf("VerifRowGroupRowsState: not a rowGroupRows")
		}
		e := 0
		if st.HasErr {
			e = 1
		}
		bs := make([]string, len(st.Buffered))
		for i, b := range st.Buffered {
			bs[i] = fmt.Sprint(b)
		}
		out = append(out, fmt.Sprintf("%s|i%de%db%s", ans, st.RowIndex, e, strings.Join(bs, ".")))
	}
	return out, l1, nil
}

func c13RbIsList(shape string, col int) bool { return col < len(shape) && shape[col] == 'L' }

func RunC13RowsBuf(ctx *core.Ctx) {
	ctx.SetRule(c13RowsBufRule)
	total := ctx.Scale(24000, 240000)
	nw := min(runtime.GOMAXPROCS(0), 8)
	var wg sync.WaitGroup
	for w := 0; w < nw; w++ {
		wg.Add(1)
		go func(w int) {
			defer wg.Done()
			r := ctx.Rand(fmt.Sprintf("c13rowsbuf/%d", w))
			d := ctx.Driver()
			if d == nil {
				return
			}
			var reqs []string
			var pend []func(string)
			flush := func() {
				ans, err := d.AskMany(reqs)
				if err != nil {
					ctx.Fail("L2", "driver-error", err.Error(), nil)
				}
				for i, a := range ans {
					pend[i](a)
				}
				reqs, pend = reqs[:0], pend[:0]
			}
			for i := 0; i < total/nw; {
				c := c13RbGen(r)
				chunks := make([]int, 0, c.N)
				for s := 0; s < c.N; s += c.Chunk {
					chunks = append(chunks, c.Chunk)
				}
				data, err := c13RbWrite(c.Shape, c.N, c.Mod, chunks, []parquet.WriterOption{parquet.PageBufferSize(c.PBS), parquet.DataPageVersion(c.Version)})
				if err != nil {
					ctx.Fail("L1", "rowsbuf-write-fails", err.Error(), map[string]any{"case": c})
					i++
					continue
				}
				lay, err := c13RbLayoutOf(data, c.N)
				if err != nil {
					ctx.Fail("L1", "rowsbuf-pristine-file-unreadable", err.Error(), map[string]any{"case": c})
					i++
					continue
				}
				// several corruption patterns and histories per file
				for rep := 0; rep < 6; rep++ {
					i++
					c.Bad = nil
					bad := append([]byte(nil), data...)
					for k, nb := 0, []int{0, 1, 1, 1, 1, 2}[r.Intn(6)]; k < nb; k++ {
						col := r.Intn(len(lay.pages))
						ord := r.Intn(len(lay.pages[col]))
						p := lay.located[col][ord]
						dup := false
						for _, b := range c.Bad {
							dup = dup || (b[0] == col && b[1] == ord)
						}
						if p.CRC == 0 || p.BodyLen == 0 || dup {
							continue
						}
						bit := r.Intn(p.BodyLen * 8)
						bad[p.BodyOff+int64(bit/8)] ^= 1 << (bit % 8)
						c.Bad = append(c.Bad, [2]int{col, ord})
					}
					c.Ops = c13RbGenOps(r, c, lay)
					cols := make([]string, len(lay.pages))
					npages := 0
					for col, pgs := range lay.pages {
						ps := make([]string, len(pgs))
						for ord, lv := range pgs {
							t := "g"
							for _, b := range c.Bad {
								if b[0] == col && b[1] == ord {
									t = "b"
								}
							}
							ps[ord] = t + lv
						}
						npages += len(pgs)
						cols[col] = strings.Join(ps, ",")
					}
					fileDesc := strings.Join(cols, "/")
					res, perr, panicked := c13Guard(func() (any, error) {
						out, l1, err := c13RbReal(bad, c, lay)
						return [2][]string{out, l1}, err
					})
					detail := map[string]any{"case": c, "file": fileDesc, "canon": c.canon()}
					if panicked != "" {
						ctx.Fail("L1", "rowsbuf-panic", "the row reader panics on a file with a corrupted page: "+panicked, detail)
						continue
					}
					if perr != nil {
						ctx.Fail("L1", "rowsbuf-open-fails", perr.Error(), detail)
						continue
					}
					out, l1 := res.([2][]string)[0], res.([2][]string)[1]
					for _, m := range l1 {
						key, what, _ := strings.Cut(m, "|")
						detail["real"] = out
						ctx.Fail("L1", "rowsbuf-"+key, what, detail)
					}
					failed, returned := false, false
					for _, o := range out {
						failed = failed || strings.HasPrefix(o, "F")
						returned = returned || (strings.HasPrefix(o, "R") && !strings.HasPrefix(o, "R0"))
					}
					ctx.Case(c.canon(), len(c.Bad) > 0 && failed && returned)
					ctx.Hist("rowsbuf.shape", c.Shape)
					ctx.Hist("rowsbuf.valbuf", fmt.Sprint(c.ValBuf))
					ctx.Hist("rowsbuf.bad_pages", fmt.Sprint(len(c.Bad)))
					ctx.Hist("rowsbuf.pages", c13LenBucket(npages))
					ctx.Hist("rowsbuf.version", fmt.Sprint(c.Version))
					for _, o := range out {
						ctx.Hist("rowsbuf.outcome", o[:1])
					}
					if w == 0 && i < 8 {
						ctx.Sample(map[string]any{"rowsbuf": c.canon(), "file": fileDesc, "real": out})
					}
					want := "ok " + strings.Join(out, " ")
					req := fmt.Sprintf("c13.rowsbuf %d %s %s", c.ValBuf, fileDesc, strings.Join(c.Ops, ","))
					reqs = append(reqs, req)
					pend = append(pend, func(ans string) {
						if ans == want {
							return
						}
						got := strings.Fields(strings.TrimPrefix(ans, "ok "))
						key, at := "rowsbuf-answer-shape", -1
						for k := range out {
							if k >= len(got) {
								break
							}
							if got[k] != out[k] {
								at = k
								ra, rs, _ := strings.Cut(out[k], "|")
								la, ls, _ := strings.Cut(got[k], "|")
								switch {
								case ra[:1] != la[:1]:
									key = fmt.Sprintf("rowsbuf-%s-real-%s-mirror-%s", c.Ops[k][:1], ra[:1], la[:1])
								case ra != la:
									key = fmt.Sprintf("rowsbuf-%s-rows-differ", c.Ops[k][:1])
								case rs != ls:
									key = fmt.Sprintf("rowsbuf-%s-state-differs", c.Ops[k][:1])
								}
								break
							}
						}
						detail["request"], detail["real"], detail["lean"], detail["first_difference_at_call"] = req, out, got, at
						ctx.Fail("L2", key, "rowGroupRows and the Lean mirror RowsBuf.run disagree on a call of the history", detail)
					})
				}
				if len(reqs) >= 600 {
					flush()
				}
			}
			flush()
		}(w)
	}
	wg.Wait()
}
