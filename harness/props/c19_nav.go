package props

import (
	"bytes"
	"encoding/hex"
	"fmt"
	"hash/fnv"
	"io"
	"sort"
	"strings"

	"github.com/parquet-go/parquet-go"
	"github.com/parquet-go/parquet-go/variant"

	"verifharness/core"
)

// Property C19, shredding: path navigation through the columnar VariantReader.
//
// The typed read path is not only "rebuild every row from the shredded cursors" (c19ReadCursor):
// the API promises a cursor for EVERY path ("navigation is total"), whether or not the writer
// shredded it: below a non-shredded position the cursor is backed by the residual bytes of the
// nearest shredded ancestor (whole residual values AND the leftover fields of partially shredded
// objects). The oracle here is written from that promise and from the value written only:
//
//	entries(root)          = the rows of the window
//	entries(p + field k)   = one entry per entry of p: the field k of the value there, or missing
//	                         (value not an object / no such key / p missing there)
//	entries(p + elements)  = for every entry of p holding an array, its elements in order
//	                         (ListOffsets of p: the element range of every entry of p)
//
// The paths checked are the ones that occur in the written values (to depth 4), a name that occurs
// nowhere, and — in the second mode — the whole shredded tree next to them. In the first mode only
// the chosen paths are created on the reader (creating cursors is how a caller declares its
// projection), so that fields outside the shredding schema are navigated with no sibling cursor
// forcing the residuals to be decoded.

type c19NavStep struct {
	elems bool
	name  string
}

type c19NavPath []c19NavStep

// the path in the grammar of the driver op variant.nav
func (p c19NavPath) token() string {
	if len(p) == 0 {
		return "-"
	}
	out := make([]string, len(p))
	for i, s := range p {
		if s.elems {
			out[i] = "e"
		} else {
			out[i] = "k" + hex.EncodeToString([]byte(s.name))
		}
	}
	return strings.Join(out, "/")
}

var c19LocLetter = map[variant.Loc]string{variant.LocMissing: "M", variant.LocNull: "N", variant.LocResidual: "R",
	variant.LocTyped: "T", variant.LocTypedObject: "O", variant.LocTypedList: "L"}

// L2 tie of the navigation: the shredding schema in the driver's grammar and the request queue
type c19NavL2 struct {
	stxt string
	p    *c19Pending
}

func (p c19NavPath) String() string {
	var sb strings.Builder
	sb.WriteByte('$')
	for _, s := range p {
		if s.elems {
			sb.WriteString("[*]")
		} else {
			fmt.Fprintf(&sb, ".%q", s.name)
		}
	}
	return sb.String()
}

type c19NavEntry struct {
	row int      // row within the window
	v   *c19Node // nil = missing
}

func (n *c19Node) field(name string) *c19Node {
	if n == nil || n.kind != "obj" {
		return nil
	}
	for i, k := range n.keys {
		if k == name {
			return n.elems[i]
		}
	}
	return nil
}

// the entries a cursor at p+step must show, given the entries of p; offsets = expected ListOffsets
// of p for an elements step
func c19NavApply(in []c19NavEntry, s c19NavStep) (out []c19NavEntry, offsets []int32) {
	if !s.elems {
		out = make([]c19NavEntry, len(in))
		for i, e := range in {
			out[i] = c19NavEntry{row: e.row, v: e.v.field(s.name)}
		}
		return out, nil
	}
	offsets = append(offsets, 0)
	for _, e := range in {
		if e.v != nil && e.v.kind == "arr" {
			for _, x := range e.v.elems {
				out = append(out, c19NavEntry{row: e.row, v: x})
			}
		}
		offsets = append(offsets, int32(len(out)))
	}
	return out, offsets
}

// every path that occurs in the values (to depth 4), plus names that occur nowhere
func c19NavCandidates(values []*c19Node) []c19NavPath {
	seen := map[string]bool{}
	var out []c19NavPath
	add := func(p c19NavPath) bool {
		k := p.String()
		if seen[k] {
			return false
		}
		seen[k] = true
		out = append(out, append(c19NavPath(nil), p...))
		return true
	}
	var walk func(n *c19Node, p c19NavPath)
	walk = func(n *c19Node, p c19NavPath) {
		if n == nil || len(p) >= 4 {
			return
		}
		switch n.kind {
		case "obj":
			for i, k := range n.keys {
				q := append(append(c19NavPath(nil), p...), c19NavStep{name: k})
				add(q)
				walk(n.elems[i], q)
			}
			add(append(append(c19NavPath(nil), p...), c19NavStep{name: "\x01nowhere"}))
		case "arr":
			q := append(append(c19NavPath(nil), p...), c19NavStep{elems: true})
			add(q)
			for _, e := range n.elems {
				walk(e, q)
			}
		}
	}
	for _, v := range values {
		walk(v, nil)
	}
	add(c19NavPath{{name: "\x01nowhere"}})
	add(c19NavPath{{elems: true}})
	sort.SliceStable(out, func(a, b int) bool {
		if len(out[a]) != len(out[b]) {
			return len(out[a]) < len(out[b])
		}
		return out[a].String() < out[b].String()
	})
	return out
}

func c19NavKindOf(c *parquet.VariantCursor, s c19NavStep) string {
	step := "field"
	if s.elems {
		step = "elements"
	}
	return c.Kind().String() + "-" + step
}

type c19NavFailure struct {
	key, what string
	extra     map[string]any
}

// c19NavRead reads the file through NewVariantReader with cursors for the given paths (and, when
// `full`, the whole shredded tree) and compares every window of every cursor with the oracle.
func c19NavRead(data []byte, values []*c19Node, paths []c19NavPath, window int, full bool) (fail *c19NavFailure, obs map[string][]string, err error) {
	obs = map[string][]string{} // path -> the entries seen (tag letter + value text), all windows in order
	err = c19Guard(func() error {
		f, err := parquet.OpenFile(bytes.NewReader(data), int64(len(data)))
		if err != nil {
			return err
		}
		base := 0
		readGroup := func(rg parquet.RowGroup) error {
			r, err := parquet.NewVariantReader(rg, "var")
			if err != nil {
				return err
			}
			defer r.Close()
			root := r.Root()
			type navCursor struct {
				path   c19NavPath
				c      *parquet.VariantCursor
				parent *navCursor
			}
			byKey := map[string]*navCursor{}
			var cursors []*navCursor // prefixes first
			rootNC := &navCursor{c: root}
			for _, p := range paths {
				cur := rootNC
				for i, s := range p {
					k := p[:i+1].String()
					nc := byKey[k]
					if nc == nil {
						var c *parquet.VariantCursor
						if s.elems {
							c = cur.c.Elements()
						} else {
							c = cur.c.Field(s.name)
						}
						nc = &navCursor{path: append(c19NavPath(nil), p[:i+1]...), c: c, parent: cur}
						byKey[k] = nc
						cursors = append(cursors, nc)
					}
					cur = nc
				}
			}
			// the shredded cursors below every path cursor are needed to rebuild typed values
			for _, nc := range cursors {
				c19MaterializeCursors(nc.c)
			}
			if full {
				c19MaterializeCursors(root)
			}
			for {
				n, err := r.Next(window)
				if err == io.EOF {
					break
				}
				if err != nil {
					return err
				}
				if n == 0 {
					break
				}
				typedIdx := map[*parquet.VariantCursor][]int32{}
				if full {
					c19FillTypedIndexes(root, typedIdx)
				}
				for _, nc := range cursors {
					if _, ok := typedIdx[nc.c]; !ok {
						c19FillTypedIndexes(nc.c, typedIdx)
					}
				}
				rows := make([]c19NavEntry, n)
				for i := range rows {
					if base+i >= len(values) {
						return fmt.Errorf("window beyond the %d rows written", len(values))
					}
					rows[i] = c19NavEntry{row: i, v: values[base+i]}
				}
				expect := map[*navCursor][]c19NavEntry{rootNC: rows}
				for _, nc := range cursors {
					step := nc.path[len(nc.path)-1]
					exp, offsets := c19NavApply(expect[nc.parent], step)
					expect[nc] = exp
					where := func(extra map[string]any) map[string]any {
						m := map[string]any{"path": nc.path.String(), "window": window, "first_row_of_window": base, "whole_tree_projected": full}
						for k, v := range extra {
							m[k] = v
						}
						return m
					}
					kind := c19NavKindOf(nc.c, step) + "-below-" + nc.parent.c.Kind().String()
					if step.elems {
						got := nc.parent.c.ListOffsets()
						if fmt.Sprint(got) != fmt.Sprint(offsets) {
							fail = &c19NavFailure{"path-list-offsets " + kind, "ListOffsets of a cursor are not the element ranges of the arrays written at that path",
								where(map[string]any{"got": fmt.Sprint(got), "want": fmt.Sprint(offsets)})}
							return nil
						}
					}
					locs := nc.c.Locs()
					if len(locs) != len(exp) {
						fail = &c19NavFailure{"path-entry-count " + kind, fmt.Sprintf("the cursor shows %d entries, the values written have %d at that path", len(locs), len(exp)), where(nil)}
						return nil
					}
					rowsOf := nc.c.Rows()
					for e, x := range exp {
						if len(rowsOf) > 0 && int(rowsOf[e]) != x.row {
							fail = &c19NavFailure{"path-entry-row " + kind, "Rows() maps an entry to another row than the one that holds it",
								where(map[string]any{"entry": e, "got_row": rowsOf[e], "want_row": x.row})}
							return nil
						}
						if x.v == nil {
							obs[nc.path.String()] = append(obs[nc.path.String()], c19LocLetter[locs[e]])
							if locs[e] != variant.LocMissing {
								fail = &c19NavFailure{"path-not-missing " + kind, "the cursor shows a value at a path the value written does not have",
									where(map[string]any{"entry": e, "row": base + x.row, "loc": locs[e].String()})}
								return nil
							}
							continue
						}
						want := x.v.SortedString()
						if locs[e] == variant.LocMissing {
							fail = &c19NavFailure{"path-reads-missing " + kind, "the cursor reports a path of the value written as missing",
								where(map[string]any{"entry": e, "row": base + x.row, "want": want})}
							return nil
						}
						v, present, err := c19CursorEntry(nc.c, e, typedIdx)
						if err != nil || !present {
							fail = &c19NavFailure{"path-unreadable " + kind, fmt.Sprintf("the value at a path cannot be rebuilt from the cursor: present=%v err=%v", present, err),
								where(map[string]any{"entry": e, "row": base + x.row, "want": want, "loc": locs[e].String()})}
							return nil
						}
						got := c19VText(v, true)
						if locs[e] == variant.LocNull {
							obs[nc.path.String()] = append(obs[nc.path.String()], "N")
						} else {
							obs[nc.path.String()] = append(obs[nc.path.String()], c19LocLetter[locs[e]]+got)
						}
						if got != want {
							fail = &c19NavFailure{"path-value-changed " + kind, "the value the cursor shows at a path is not the value written there",
								where(map[string]any{"entry": e, "row": base + x.row, "got": got, "want": want, "loc": locs[e].String()})}
							return nil
						}
					}
				}
				base += n
			}
			return nil
		}
		for _, rg := range f.RowGroups() {
			if err := readGroup(rg); err != nil || fail != nil {
				return err
			}
		}
		if base != len(values) {
			return fmt.Errorf("VariantReader windows cover %d rows, wrote %d", base, len(values))
		}
		return nil
	})
	return
}

// c19CheckCursorPaths: path navigation on one written file against the rows written (`want`: the
// sorted value text of every row, "<missing>" for a null row).
func c19CheckCursorPaths(ctx *core.Ctx, data []byte, want []string, window int, sig string, detail func(map[string]any) map[string]any, l2 *c19NavL2) {
	values := make([]*c19Node, len(want))
	h := fnv.New64a()
	for i, w := range want {
		h.Write([]byte(w))
		if w == "<missing>" {
			continue
		}
		n, ok := c19ParseText(w)
		if !ok {
			return
		}
		values[i] = n
	}
	seed := h.Sum64()
	cands := c19NavCandidates(values)
	const maxPaths = 24
	paths := cands
	if len(cands) > maxPaths { // a spread of the candidates chosen by the content of the case
		paths = nil
		off := int(seed % uint64(len(cands)))
		for i := 0; i < maxPaths; i++ {
			paths = append(paths, cands[(off+i*len(cands)/maxPaths)%len(cands)])
		}
	}
	modes := []bool{false, true}
	if len(want) > 16 {
		modes = []bool{seed&1 == 0}
	}
	for _, full := range modes {
		ctx.Hist("shred.read", "cursor-paths")
		fail, obs, err := c19NavRead(data, values, paths, window, full)
		if err != nil {
			key := "read-fails "
			if strings.HasPrefix(err.Error(), "PANIC") {
				key = "read-panics "
			}
			ctx.Fail("L1", key+sig+" paths", "navigating paths through VariantReader fails: "+err.Error(), detail(map[string]any{"read": "cursor-paths", "window": window, "whole_tree_projected": full}))
			return
		}
		if fail != nil {
			fail.extra["read"] = "cursor-paths"
			ctx.Fail("L1", fail.key+" "+sig, fail.what, detail(fail.extra))
			return
		}
		ctx.HistN("shred.paths", fmt.Sprintf("navigated, whole tree projected=%v", full), int64(len(paths)))
		if l2 != nil && !full {
			c19NavL2Check(ctx, l2, paths, want, obs, seed, window, sig, detail)
		}
	}
}

// c19NavL2Check: L2 — the location tag and the value of every entry of some of the navigated paths
// against the Lean MIRROR of the cursor (`navPathCur` over `rootWindow`, op variant.nav), row by row.
func c19NavL2Check(ctx *core.Ctx, l2 *c19NavL2, paths []c19NavPath, want []string, obs map[string][]string, seed uint64, window int,
	sig string, detail func(map[string]any) map[string]any) {
	for _, w := range want {
		if w == "<missing>" {
			return
		}
	}
	const maxL2 = 6
	chosen := paths
	if len(paths) > maxL2 {
		chosen = nil
		off := int(seed>>8) % len(paths)
		for i := 0; i < maxL2; i++ {
			chosen = append(chosen, paths[(off+i*len(paths)/maxL2)%len(paths)])
		}
	}
	for _, path := range chosen {
		path := path
		answers := make([]string, len(want))
		left := len(want)
		for i, w := range want {
			i := i
			l2.p.add("variant.nav "+l2.stxt+" "+path.token()+" "+w, func(ans string) {
				answers[i] = ans
				left--
				if left > 0 {
					return
				}
				var model []string
				for r, a := range answers {
					f := strings.Fields(a)
					if len(f) != 2 || f[0] != "ok" {
						ctx.Fail("L2", "nav-model-error", "the cursor model does not answer", detail(map[string]any{"path": path.String(), "row": r, "model": a}))
						return
					}
					if f[1] != "-" {
						model = append(model, strings.Split(f[1], ";")...)
					}
				}
				got := obs[path.String()]
				if strings.Join(got, ";") != strings.Join(model, ";") {
					kind := "field"
					if path[len(path)-1].elems {
						kind = "elements"
					}
					ctx.Fail("L2", "nav-entries "+kind+" "+sig, "the entries (location tag, value) the VariantReader cursor shows at a path are not the entries of the cursor mirror",
						detail(map[string]any{"path": path.String(), "window": window, "cursor": strings.Join(got, ";"), "model": strings.Join(model, ";")}))
					return
				}
				ctx.Hist("shred.l2", "cursor entries of a path compared")
			})
		}
	}
}
