package props

// C07 sub-check "files": real files with bloom filters.
//
// L1 (the property itself, oracle independent of the mirror): after Close, the file is opened and,
// for every row group and every column configured with a filter, every non-null value that was
// written to that row group (attributed through the row counts of the row groups, not through the
// reader's decoding) must give BloomFilter().Check(value) == true with a nil error.
// L2: the filter bytes stored in the file equal the model's filter (Lean `bloom.file`) built from
// the same values and the same number of blocks.

import (
	"bytes"
	"compress/gzip"
	"crypto/aes"
	"crypto/cipher"
	"crypto/sha256"
	"encoding/binary"
	"encoding/hex"
	"encoding/json"
	"fmt"
	"io"
	"math"
	"math/rand"
	"os"
	"sort"
	"strconv"
	"strings"
	"sync"
	"time"

	"github.com/parquet-go/parquet-go"
	"github.com/parquet-go/parquet-go/compress"
	"github.com/parquet-go/parquet-go/deprecated"
	"github.com/parquet-go/parquet-go/encoding"
	"github.com/parquet-go/parquet-go/format"

	"verifharness/core"
)

type c07Col struct {
	Name string `json:"name"`
	Kind string `json:"kind"` // boolean int32 int64 int96 float double bytearray string flba uuid
	Size int    `json:"size,omitempty"`
	Rep  int    `json:"rep"` // 0 required, 1 optional, 2 repeated
	Enc  string `json:"enc"` // "" (default) plain dict delta dlba dba bss
	Bits uint   `json:"bits"`
	Null int    `json:"null_pct"`
	Alph int    `json:"alphabet"` // 0 = fresh random values
}

type c07Val struct {
	U uint64
	B []byte
}

type c07Opts struct {
	MaxRows    int64  `json:"max_rows_per_row_group"`
	PageBuf    int    `json:"page_buffer_size"`
	PageV      int    `json:"data_page_version"`
	Codec      string `json:"compression"`
	DictMax    int64  `json:"dictionary_max_bytes"`
	BloomComp  string `json:"bloom_filter_compression"`
	Deferred   bool   `json:"deferred_bloom_buffers"`
	Batch      int    `json:"batch"`
	FlushEvery int    `json:"flush_every_batches"`
	OpenMode   string `json:"open_mode"`
	// "" | footer (encrypted footer) | plain-footer (signed plaintext footer) | column-keys (+ AAD prefix);
	// AES_GCM_CTR_V1 is refused by the writer ("not yet implemented")
	Encrypt string `json:"encryption,omitempty"`
	// source file of the WriteRowGroup-from-file paths
	SrcCodec string `json:"src_compression,omitempty"`
	SrcPageV int    `json:"src_data_page_version,omitempty"`
	SrcBloom string `json:"src_bloom,omitempty"` // same | none | otherbits
	SrcMax   int64  `json:"src_max_rows,omitempty"`
	// encryption of the source file (same modes and keys as Encrypt)
	SrcEncrypt string `json:"src_encryption,omitempty"`
	// "file-merge" path: the source declares column c00 (required int64, unique keys) as its sorting column,
	// so that MergeRowGroups builds a sorted merge: "disjoint" = row groups with disjoint key ranges
	// (segments = the file row groups), "overlap" = every row group shares half of its key range with the
	// next one (refined segments: row-range views and heap merges)
	SrcSorted string `json:"src_sorted,omitempty"`
	// the file is written without bloom filters (members of the "multi" sub-check only)
	NoBloom bool `json:"no_bloom,omitempty"`
}

type c07Case struct {
	Index int      `json:"index"`
	Typed bool     `json:"typed_struct"`
	Path  string   `json:"path"`
	N     int      `json:"rows"`
	Cols  []c07Col `json:"cols"`
	Opts  c07Opts  `json:"opts"`
	rows  [][][]c07Val
	// set by c07RunCase after the file was written
	file      []byte
	misplaced map[[2]int]string // (row group, leaf) -> what is wrong with the chunk's filter region
	groups    []c07Group        // "buffer" path: output row group -> WriteRowGroup call (see bufferGroup)
	srcRows   []int64           // file-* paths: rows of the source file's row groups
	packed    []c07Packed       // "file-merge" path: output row group -> batch of source row groups (see packedGroup)
	packedOk  int               // 0 not computed, 1 layout predicted, 2 not predictable
}

func (c c07Col) phys() string {
	switch c.Kind {
	case "string":
		return "bytearray"
	case "uuid":
		return "flba"
	}
	return c.Kind
}

func (c c07Col) modelKind() string {
	if c.phys() == "flba" {
		return fmt.Sprintf("flba%d", c.Size)
	}
	return c.phys()
}

func (c c07Col) node() parquet.Node {
	var n parquet.Node
	switch c.Kind {
	case "boolean":
		n = parquet.Leaf(parquet.BooleanType)
	case "int32":
		n = parquet.Leaf(parquet.Int32Type)
	case "int64":
		n = parquet.Leaf(parquet.Int64Type)
	case "int96":
		n = parquet.Leaf(parquet.Int96Type)
	case "float":
		n = parquet.Leaf(parquet.FloatType)
	case "double":
		n = parquet.Leaf(parquet.DoubleType)
	case "bytearray":
		n = parquet.Leaf(parquet.ByteArrayType)
	case "string":
		n = parquet.String()
	case "flba":
		n = parquet.Leaf(parquet.FixedLenByteArrayType(c.Size))
	case "uuid":
		n = parquet.UUID()
	}
	var e encoding.Encoding
	switch c.Enc {
	case "plain":
		e = &parquet.Plain
	case "dict":
		e = &parquet.RLEDictionary
	case "delta":
		e = &parquet.DeltaBinaryPacked
	case "dlba":
		e = &parquet.DeltaLengthByteArray
	case "dba":
		e = &parquet.DeltaByteArray
	case "bss":
		e = &parquet.ByteStreamSplit
	}
	if e != nil {
		n = parquet.Encoded(n, e)
	}
	switch c.Rep {
	case 1:
		n = parquet.Optional(n)
	case 2:
		n = parquet.Repeated(n)
	}
	return n
}

func (c c07Col) value(v c07Val) parquet.Value {
	switch c.phys() {
	case "boolean":
		return parquet.BooleanValue(v.U != 0)
	case "int32":
		return parquet.Int32Value(int32(uint32(v.U)))
	case "int64":
		return parquet.Int64Value(int64(v.U))
	case "float":
		return parquet.FloatValue(math.Float32frombits(uint32(v.U)))
	case "double":
		return parquet.DoubleValue(math.Float64frombits(v.U))
	case "int96":
		return parquet.Int96Value(deprecated.Int96{binary.LittleEndian.Uint32(v.B[0:]), binary.LittleEndian.Uint32(v.B[4:]), binary.LittleEndian.Uint32(v.B[8:])})
	case "bytearray":
		return parquet.ByteArrayValue(v.B)
	default:
		return parquet.FixedLenByteArrayValue(v.B)
	}
}

// token of a value in the driver protocol
func (c c07Col) token(v c07Val) string {
	switch c.phys() {
	case "boolean", "int32", "int64", "float", "double":
		return fmt.Sprint(v.U)
	}
	return c07BytesTok(v.B)
}

func c07Fresh(r *rand.Rand, c c07Col) c07Val {
	bytesOf := func(n int) []byte {
		b := make([]byte, n)
		c07Fill(r, b)
		return b
	}
	switch c.Kind {
	case "boolean":
		return c07Val{U: uint64(r.Intn(2))}
	case "int32", "float":
		return c07Val{U: uint64(c07U32(r))}
	case "int64", "double":
		return c07Val{U: c07U64(r)}
	case "int96":
		return c07Val{B: bytesOf(12)}
	case "bytearray":
		return c07Val{B: bytesOf([]int{0, 1, 2, 3, 4, 7, 8, 9, 15, 16, 17, 31, 32, 33, 40, 64, 100}[r.Intn(17)])}
	case "string":
		n := []int{0, 1, 2, 3, 4, 7, 8, 9, 15, 16, 17, 31, 32, 33, 40, 64}[r.Intn(16)]
		b := make([]byte, n)
		for i := range b {
			b[i] = byte('a' + r.Intn(26))
		}
		return c07Val{B: b}
	case "uuid":
		return c07Val{B: bytesOf(16)}
	default:
		return c07Val{B: bytesOf(c.Size)}
	}
}

var c07Kinds = []string{"boolean", "int32", "int64", "int96", "float", "double", "bytearray", "string", "flba", "flba", "uuid"}

func c07GenCol(r *rand.Rand, i int) c07Col {
	c := c07Col{Name: fmt.Sprintf("c%02d", i), Kind: c07Kinds[r.Intn(len(c07Kinds))]}
	if c.Kind == "flba" {
		c.Size = []int{1, 2, 5, 12, 15, 16, 16, 17, 32, 33}[r.Intn(10)]
	}
	if c.Kind == "uuid" {
		c.Size = 16
	}
	c.Rep = []int{0, 0, 0, 1, 1, 2}[r.Intn(6)]
	c.Bits = []uint{1, 4, 8, 10, 10, 16, 33}[r.Intn(7)]
	c.Null = []int{0, 10, 50, 90, 100}[r.Intn(5)]
	c.Alph = []int{0, 0, 1, 2, 3, 10, 100}[r.Intn(7)]
	var encs []string
	switch c.Kind {
	case "boolean":
		encs = []string{"", "plain"}
	case "int32", "int64":
		encs = []string{"", "plain", "dict", "dict", "delta"}
	case "float", "double":
		encs = []string{"", "plain", "dict", "dict", "bss"}
	case "bytearray", "string":
		encs = []string{"", "plain", "dict", "dict", "dlba", "dba"}
	case "flba", "uuid":
		encs = []string{"", "plain", "dict", "dict", "dba"}
	default:
		encs = []string{"", "plain", "dict"}
	}
	c.Enc = encs[r.Intn(len(encs))]
	return c
}

func c07GenRows(r *rand.Rand, cols []c07Col, n int) [][][]c07Val {
	alph := make([][]c07Val, len(cols))
	for i, c := range cols {
		for k := 0; k < c.Alph; k++ {
			alph[i] = append(alph[i], c07Fresh(r, c))
		}
	}
	pick := func(i int) c07Val {
		if len(alph[i]) > 0 {
			return alph[i][r.Intn(len(alph[i]))]
		}
		return c07Fresh(r, cols[i])
	}
	rows := make([][][]c07Val, n)
	for ri := range rows {
		row := make([][]c07Val, len(cols))
		for i, c := range cols {
			switch c.Rep {
			case 0:
				row[i] = []c07Val{pick(i)}
			case 1:
				if r.Intn(100) >= c.Null {
					row[i] = []c07Val{pick(i)}
				}
			default:
				if r.Intn(100) >= c.Null {
					k := 1 + r.Intn(4)
					for j := 0; j < k; j++ {
						row[i] = append(row[i], pick(i))
					}
				}
			}
		}
		rows[ri] = row
	}
	return rows
}

// fixed struct for the typed (generic) write paths
type c07Typed struct {
	B   bool             `parquet:"b"`
	I32 int32            `parquet:"i32"`
	I64 int64            `parquet:"i64,dict"`
	F32 float32          `parquet:"f32"`
	F64 float64          `parquet:"f64"`
	S   string           `parquet:"s,dict"`
	Raw []byte           `parquet:"raw"`
	U   [16]byte         `parquet:"u,uuid"`
	F5  [5]byte          `parquet:"f5"`
	OI  *int32           `parquet:"oi,optional"`
	OS  *string          `parquet:"os,optional"`
	L   []int64          `parquet:"l"`
	T96 deprecated.Int96 `parquet:"t96"`
}

func c07TypedCols(r *rand.Rand) []c07Col {
	bits := func() uint { return []uint{1, 4, 10, 10, 16, 33}[r.Intn(6)] }
	alph := func() int { return []int{0, 0, 2, 10, 100}[r.Intn(5)] }
	null := []int{0, 10, 50, 90}[r.Intn(4)]
	return []c07Col{
		{Name: "b", Kind: "boolean", Bits: bits()},
		{Name: "i32", Kind: "int32", Bits: bits(), Alph: alph()},
		{Name: "i64", Kind: "int64", Enc: "dict", Bits: bits(), Alph: alph()},
		{Name: "f32", Kind: "float", Bits: bits(), Alph: alph()},
		{Name: "f64", Kind: "double", Bits: bits(), Alph: alph()},
		{Name: "s", Kind: "string", Enc: "dict", Bits: bits(), Alph: alph()},
		{Name: "raw", Kind: "bytearray", Bits: bits(), Alph: alph()},
		{Name: "u", Kind: "uuid", Size: 16, Bits: bits(), Alph: alph()},
		{Name: "f5", Kind: "flba", Size: 5, Bits: bits(), Alph: alph()},
		{Name: "oi", Kind: "int32", Rep: 1, Null: null, Bits: bits(), Alph: alph()},
		{Name: "os", Kind: "string", Rep: 1, Null: null, Bits: bits(), Alph: alph()},
		{Name: "l", Kind: "int64", Rep: 2, Null: null, Bits: bits(), Alph: alph()},
		{Name: "t96", Kind: "int96", Bits: bits(), Alph: alph()},
	}
}

func c07ToTyped(rows [][][]c07Val) []c07Typed {
	out := make([]c07Typed, len(rows))
	for i, row := range rows {
		t := &out[i]
		t.B = row[0][0].U != 0
		t.I32 = int32(uint32(row[1][0].U))
		t.I64 = int64(row[2][0].U)
		t.F32 = math.Float32frombits(uint32(row[3][0].U))
		t.F64 = math.Float64frombits(row[4][0].U)
		t.S = string(row[5][0].B)
		t.Raw = row[6][0].B
		copy(t.U[:], row[7][0].B)
		copy(t.F5[:], row[8][0].B)
		if len(row[9]) > 0 {
			v := int32(uint32(row[9][0].U))
			t.OI = &v
		}
		if len(row[10]) > 0 {
			v := string(row[10][0].B)
			t.OS = &v
		}
		for _, v := range row[11] {
			t.L = append(t.L, int64(v.U))
		}
		b := row[12][0].B
		t.T96 = deprecated.Int96{binary.LittleEndian.Uint32(b[0:]), binary.LittleEndian.Uint32(b[4:]), binary.LittleEndian.Uint32(b[8:])}
	}
	return out
}

func c07GenCase(ctx *core.Ctx, index int) *c07Case {
	r := ctx.Rand(fmt.Sprintf("files/%d", index))
	cs := &c07Case{Index: index}
	cs.Typed = r.Intn(6) == 0
	if cs.Typed {
		cs.Cols = c07TypedCols(r)
		cs.Path = []string{"generic", "generic", "any"}[r.Intn(3)]
	} else {
		nc := 1 + r.Intn(4)
		for i := 0; i < nc; i++ {
			cs.Cols = append(cs.Cols, c07GenCol(r, i))
		}
		cs.Path = []string{"rows", "rows", "rows", "colwriters", "buffer", "buffer", "file-copy", "file-copy", "file-reencode", "file-reencode", "file-merge", "copyrows"}[r.Intn(12)]
	}
	o := &cs.Opts
	o.MaxRows = []int64{0, 0, 0, 1, 2, 7, 8, 9, 64, 100, 1000}[r.Intn(11)]
	o.PageBuf = []int{0, 0, 1, 64, 1024}[r.Intn(5)]
	o.PageV = 1 + r.Intn(2)
	o.Codec = []string{"", "", "snappy", "gzip", "zstd"}[r.Intn(5)]
	o.DictMax = []int64{0, 0, 0, 0, 0, 0, 16, 256, 4096}[r.Intn(9)]
	o.BloomComp = []string{"", "", "", "gzip", "uncompressed"}[r.Intn(5)]
	o.Deferred = r.Intn(4) == 0
	o.OpenMode = []string{"default", "default", "skip", "prefetch"}[r.Intn(4)]
	// round 3: choices added later draw from their own stream, so that the earlier cases stay as they were
	r3 := ctx.Rand(fmt.Sprintf("files/%d/round3", index))
	o.Encrypt = []string{"", "", "", "", "", "", "footer", "plain-footer", "column-keys", "column-keys"}[r3.Intn(10)]
	cs.N = []int{0, 1, 2, 7, 8, 9, 63, 64, 65, 100, 129, 300, 1000, 2500}[r.Intn(14)]
	if o.MaxRows > 0 && o.MaxRows <= 2 {
		cs.N = min(cs.N, 65)
	}
	if o.MaxRows > 2 && o.MaxRows < 64 {
		cs.N = min(cs.N, 300)
	}
	if ctx.Tier != "thorough" && cs.N > 1000 && r.Intn(3) > 0 {
		cs.N = 129
	}
	o.Batch = []int{1, 3, 8, 64, 1 << 20}[r.Intn(5)]
	if o.Batch == 1 && cs.N > 300 {
		o.Batch = 8
	}
	if r.Intn(4) == 0 {
		o.FlushEvery = 1 + r.Intn(5)
	}
	if o.FlushEvery > 0 && cs.N/(o.Batch*o.FlushEvery) > 256 {
		// at most ~256 row groups per file (2500 rows flushed every 3 rows = 834 row groups x 13 columns took
		// more than the per-case time limit on a loaded machine)
		o.Batch = cs.N/(256*o.FlushEvery) + 1
	}
	if strings.HasPrefix(cs.Path, "file-") || cs.Path == "copyrows" {
		o.SrcCodec, o.SrcPageV, o.SrcBloom, o.SrcMax = o.Codec, o.PageV, "same", []int64{0, 0, 50, 100}[r.Intn(4)]
		if cs.Path != "file-copy" {
			switch r.Intn(5) {
			case 0:
				o.SrcCodec = []string{"", "snappy", "gzip"}[r.Intn(3)]
			case 1:
				o.SrcPageV = 3 - o.PageV
			case 2:
				o.SrcBloom = "none"
			case 3:
				o.SrcBloom = "otherbits"
			}
		} else if o.MaxRows > 0 && r.Intn(2) == 0 {
			o.MaxRows = 0 // the verbatim copy needs source row groups no larger than the destination limit
		}
	}
	if (strings.HasPrefix(cs.Path, "file-") || cs.Path == "copyrows") && r3.Intn(4) == 0 {
		o.SrcEncrypt = []string{"footer", "plain-footer", "column-keys"}[r3.Intn(3)]
	}
	// pre-sized filter + dictionary fallback needs WriteRowGroup and a small dictionary limit together
	if (cs.Path == "buffer" || cs.Path == "file-reencode" || cs.Path == "file-merge") && o.DictMax == 0 && r3.Intn(3) == 0 {
		o.DictMax = []int64{16, 64, 256}[r3.Intn(3)]
	}
	// round 4: sorted merges, own stream
	r4 := ctx.Rand(fmt.Sprintf("files/%d/round4", index))
	if cs.Path == "file-merge" && r4.Intn(2) == 0 {
		o.SrcSorted = []string{"disjoint", "disjoint", "overlap"}[r4.Intn(3)]
		o.SrcMax = []int64{50, 100}[r4.Intn(2)]
		o.FlushEvery = 0
		cs.Cols[0] = c07Col{Name: cs.Cols[0].Name, Kind: "int64", Enc: []string{"", "plain", "dict", "delta"}[r4.Intn(4)],
			Bits: cs.Cols[0].Bits, Alph: 0}
	}
	cs.rows = c07GenRows(r, cs.Cols, cs.N)
	if o.SrcSorted != "" {
		for i := range cs.rows {
			cs.rows[i][0] = []c07Val{{U: uint64(cs.sortKey(i))}}
		}
	}
	if cs.Path == "any" {
		// Writer.Write(any) goes through reflect.Value.Float(): a float32 signalling NaN is stored quieted
		// (the stored value differs from the one handed over; that is C01's subject, F21 family), so
		// the value "written" is the quieted one.
		for _, row := range cs.rows {
			for ci, c := range cs.Cols {
				if c.Kind == "float" {
					for k := range row[ci] {
						if u := uint32(row[ci][k].U); u&0x7F800000 == 0x7F800000 && u&0x007FFFFF != 0 {
							row[ci][k].U = uint64(u | 0x00400000)
						}
					}
				}
			}
		}
	}
	return cs
}

// sortKey: the key of source row i (sorted sources): unique, ascending inside every source row group of
// SrcMax rows; "overlap": row group g covers keys [g*S, g*S+2S) in steps of 2 with parity g%2, i.e. its
// upper half interleaves with the lower half of row group g+1
func (cs *c07Case) sortKey(i int) int64 {
	S := int(cs.Opts.SrcMax)
	if cs.Opts.SrcSorted != "overlap" || S <= 0 {
		return int64(i) * 3
	}
	g, p := i/S, i%S
	return int64(2*(g*(S/2)+p) + g%2)
}

func c07Codec(name string) compress.Codec {
	switch name {
	case "snappy":
		return &parquet.Snappy
	case "gzip":
		return &parquet.Gzip
	case "zstd":
		return &parquet.Zstd
	}
	return nil
}

func (cs *c07Case) schema() *parquet.Schema {
	if cs.Typed {
		return parquet.SchemaOf(c07Typed{})
	}
	g := parquet.Group{}
	for _, c := range cs.Cols {
		g[c.Name] = c.node()
	}
	return parquet.NewSchema("c07", g)
}

// writer options; src selects the options of the source file of the WriteRowGroup paths
func (cs *c07Case) options(src bool) []parquet.WriterOption {
	o := cs.Opts
	var opts []parquet.WriterOption
	var filters []parquet.BloomFilterColumn
	for _, c := range cs.Cols {
		bits := c.Bits
		if src && o.SrcBloom == "otherbits" {
			bits = c.Bits + 3
		}
		filters = append(filters, parquet.SplitBlockFilter(bits, c.Name))
	}
	if !(src && o.SrcBloom == "none") && !o.NoBloom {
		opts = append(opts, parquet.BloomFilters(filters...))
	}
	maxRows, codec, pagev := o.MaxRows, o.Codec, o.PageV
	if src {
		maxRows, codec, pagev = o.SrcMax, o.SrcCodec, o.SrcPageV
	}
	if maxRows > 0 {
		opts = append(opts, parquet.MaxRowsPerRowGroup(maxRows))
	}
	if o.PageBuf > 0 {
		opts = append(opts, parquet.PageBufferSize(o.PageBuf))
	}
	opts = append(opts, parquet.DataPageVersion(pagev))
	if c := c07Codec(codec); c != nil {
		opts = append(opts, parquet.Compression(c))
	}
	if o.DictMax > 0 {
		opts = append(opts, parquet.DictionaryMaxBytes(o.DictMax))
	}
	if !src {
		switch o.BloomComp {
		case "gzip":
			opts = append(opts, parquet.BloomFilterCompression(&parquet.Gzip))
		case "uncompressed":
			opts = append(opts, parquet.BloomFilterCompression(&parquet.Uncompressed))
		}
		if o.Deferred {
			opts = append(opts, parquet.DeferBloomFiltersWithBuffers(parquet.NewBufferPool()))
		}
		if ec := cs.encryption(); ec != nil {
			opts = append(opts, parquet.WithEncryption(ec))
		}
	} else if ec := cs.encryptionMode(o.SrcEncrypt); ec != nil {
		opts = append(opts, parquet.WithEncryption(ec))
	}
	if src && o.SrcSorted != "" {
		opts = append(opts, parquet.SortingWriterConfig(parquet.SortingColumns(parquet.Ascending(cs.Cols[0].Name))))
	}
	return opts
}

// keys of the encrypted cases: one footer key, one key per column for "column-keys"
var c07FooterKey = bytes.Repeat([]byte{0x5A}, 16)

func c07ColumnKey(name string) []byte {
	h := sha256.Sum256([]byte("c07 column key " + name))
	return h[:16]
}

type c07Keys struct{}

func (c07Keys) FooterKey([]byte) ([]byte, error) { return c07FooterKey, nil }
func (c07Keys) ColumnKey(path []string, _ []byte) ([]byte, error) {
	return c07ColumnKey(strings.Join(path, ".")), nil
}

// openModule decrypts one module (nonce ‖ ciphertext ‖ tag) of column ci as the format prescribes;
// independent of the library's decryption code.
func (cs *c07Case) openModule(ci, rgi, leaf int, moduleType byte, body []byte) ([]byte, error) {
	ec := cs.encryption()
	key := ec.FooterKey
	if k, ok := ec.ColumnKeys[cs.Cols[ci].Name]; ok {
		key = k
	}
	block, err := aes.NewCipher(key)
	if err != nil {
		return nil, err
	}
	gcm, err := cipher.NewGCM(block)
	if err != nil {
		return nil, err
	}
	aad := append([]byte{}, ec.AadPrefix...)
	aad = append(aad, ec.FileIdentifier...)
	aad = append(aad, moduleType, byte(rgi), byte(rgi>>8), byte(leaf), byte(leaf>>8))
	return gcm.Open(nil, body[:12], body[12:], aad)
}

func (cs *c07Case) encryption() *parquet.EncryptionConfig { return cs.encryptionMode(cs.Opts.Encrypt) }

func (cs *c07Case) encryptionMode(mode string) *parquet.EncryptionConfig {
	if mode == "" {
		return nil
	}
	ec := &parquet.EncryptionConfig{
		FooterKey:       c07FooterKey,
		EncryptedFooter: mode != "plain-footer",
		FileIdentifier:  []byte{1, 2, 3, 4, 5, 6, 7, 8},
	}
	if mode == "column-keys" {
		ec.ColumnKeys = map[string][]byte{}
		for i, c := range cs.Cols {
			if i%2 == 0 { // the others fall back to the footer key
				ec.ColumnKeys[c.Name] = c07ColumnKey(c.Name)
			}
		}
		ec.AadPrefix = []byte("c07")
	}
	return ec
}

// leaf column index of every case column
func (cs *c07Case) columnIndexes(schema *parquet.Schema) ([]int, error) {
	idx := make([]int, len(cs.Cols))
	for i, c := range cs.Cols {
		leaf, ok := schema.Lookup(c.Name)
		if !ok {
			return nil, fmt.Errorf("column %s not in schema", c.Name)
		}
		idx[i] = leaf.ColumnIndex
	}
	return idx, nil
}

func (cs *c07Case) columnValues(ci, leaf int, row [][]c07Val) []parquet.Value {
	c := cs.Cols[ci]
	vs := row[ci]
	switch c.Rep {
	case 0:
		return []parquet.Value{c.value(vs[0]).Level(0, 0, leaf)}
	case 1:
		if len(vs) == 0 {
			return []parquet.Value{parquet.NullValue().Level(0, 0, leaf)}
		}
		return []parquet.Value{c.value(vs[0]).Level(0, 1, leaf)}
	default:
		if len(vs) == 0 {
			return []parquet.Value{parquet.NullValue().Level(0, 0, leaf)}
		}
		out := make([]parquet.Value, len(vs))
		for j, v := range vs {
			rep := 1
			if j == 0 {
				rep = 0
			}
			out[j] = c.value(v).Level(rep, 1, leaf)
		}
		return out
	}
}

func (cs *c07Case) parquetRows(leaves []int) []parquet.Row {
	order := make([]int, len(cs.Cols)) // case columns sorted by leaf index
	for i := range order {
		order[i] = i
	}
	sort.Slice(order, func(a, b int) bool { return leaves[order[a]] < leaves[order[b]] })
	rows := make([]parquet.Row, len(cs.rows))
	for ri, row := range cs.rows {
		var pr parquet.Row
		for _, ci := range order {
			pr = append(pr, cs.columnValues(ci, leaves[ci], row)...)
		}
		rows[ri] = pr
	}
	return rows
}

func (cs *c07Case) writeRowsTo(w *parquet.Writer, rows []parquet.Row) error {
	o := cs.Opts
	nb := 0
	for i := 0; i < len(rows); i += o.Batch {
		j := min(len(rows), i+o.Batch)
		if _, err := w.WriteRows(rows[i:j]); err != nil {
			return err
		}
		nb++
		if o.FlushEvery > 0 && nb%o.FlushEvery == 0 {
			if err := w.Flush(); err != nil {
				return err
			}
		}
	}
	return nil
}

// write produces the file under test
func (cs *c07Case) write() (data []byte, err error) {
	schema := cs.schema()
	leaves, err := cs.columnIndexes(schema)
	if err != nil {
		return nil, err
	}
	var out bytes.Buffer
	o := cs.Opts
	switch cs.Path {
	case "generic":
		w := parquet.NewGenericWriter[c07Typed](&out, cs.options(false)...)
		typed := c07ToTyped(cs.rows)
		nb := 0
		for i := 0; i < len(typed); i += o.Batch {
			j := min(len(typed), i+o.Batch)
			if _, err := w.Write(typed[i:j]); err != nil {
				return nil, err
			}
			nb++
			if o.FlushEvery > 0 && nb%o.FlushEvery == 0 {
				if err := w.Flush(); err != nil {
					return nil, err
				}
			}
		}
		if err := w.Close(); err != nil {
			return nil, err
		}
		return out.Bytes(), nil
	case "any":
		w := parquet.NewWriter(&out, append([]parquet.WriterOption{schema}, cs.options(false)...)...)
		typed := c07ToTyped(cs.rows)
		for i := range typed {
			if err := w.Write(&typed[i]); err != nil {
				return nil, err
			}
		}
		if err := w.Close(); err != nil {
			return nil, err
		}
		return out.Bytes(), nil
	}
	rows := cs.parquetRows(leaves)
	w := parquet.NewWriter(&out, append([]parquet.WriterOption{schema}, cs.options(false)...)...)
	switch cs.Path {
	case "rows":
		if err := cs.writeRowsTo(w, rows); err != nil {
			return nil, err
		}
	case "colwriters":
		cws := w.ColumnWriters()
		for i := 0; i < len(cs.rows); i += o.Batch {
			j := min(len(cs.rows), i+o.Batch)
			for ci := range cs.Cols {
				var vals []parquet.Value
				for _, row := range cs.rows[i:j] {
					vals = append(vals, cs.columnValues(ci, leaves[ci], row)...)
				}
				if _, err := cws[leaves[ci]].WriteRowValues(vals); err != nil {
					return nil, err
				}
			}
		}
	case "buffer":
		parts := 1 + ((cs.Index%3)+3)%3
		per := (len(rows) + parts - 1) / parts
		buf := parquet.NewBuffer(schema)
		for i := 0; i < len(rows) || i == 0; i += max(per, 1) {
			j := min(len(rows), i+max(per, 1))
			buf.Reset()
			if _, err := buf.WriteRows(rows[i:j]); err != nil {
				return nil, err
			}
			if _, err := w.WriteRowGroup(buf); err != nil {
				return nil, err
			}
			if len(rows) == 0 {
				break
			}
		}
	default: // file-copy, file-reencode, file-merge, copyrows: through a source file
		var src bytes.Buffer
		sw := parquet.NewWriter(&src, append([]parquet.WriterOption{schema}, cs.options(true)...)...)
		if err := cs.writeRowsTo(sw, rows); err != nil {
			return nil, fmt.Errorf("source: %w", err)
		}
		if err := sw.Close(); err != nil {
			return nil, fmt.Errorf("source: %w", err)
		}
		var sopts []parquet.FileOption
		if o.SrcEncrypt != "" {
			sopts = append(sopts, parquet.WithDecryption(c07Keys{}))
		}
		sf, err := parquet.OpenFile(bytes.NewReader(src.Bytes()), int64(src.Len()), sopts...)
		if err != nil {
			return nil, fmt.Errorf("source: %w", err)
		}
		cs.srcRows = nil
		for _, rg := range sf.RowGroups() {
			cs.srcRows = append(cs.srcRows, rg.NumRows())
		}
		if o.SrcSorted != "" {
			// the merge emits the rows in key order (keys are unique): that is the order the output row
			// groups are attributed in
			sort.SliceStable(cs.rows, func(a, b int) bool { return int64(cs.rows[a][0][0].U) < int64(cs.rows[b][0][0].U) })
		}
		switch cs.Path {
		case "file-merge":
			if len(sf.RowGroups()) > 0 {
				m, err := parquet.MergeRowGroups(sf.RowGroups())
				if err != nil {
					return nil, err
				}
				if _, err := w.WriteRowGroup(m); err != nil {
					return nil, err
				}
			}
		case "copyrows":
			for _, rg := range sf.RowGroups() {
				rr := rg.Rows()
				_, err := parquet.CopyRows(w, rr)
				rr.Close()
				if err != nil {
					return nil, err
				}
			}
		default:
			for _, rg := range sf.RowGroups() {
				if _, err := w.WriteRowGroup(rg); err != nil {
					return nil, err
				}
			}
		}
	}
	if err := w.Close(); err != nil {
		return nil, err
	}
	return out.Bytes(), nil
}

func c07ErrClass(err error) string {
	s := err.Error()
	if i := strings.IndexByte(s, ':'); i > 0 {
		s = s[:i]
	}
	if len(s) > 60 {
		s = s[:60]
	}
	return s
}

// pages of a dictionary column that are not dictionary encoded (the writer fell back to PLAIN)
func c07PlainPagesInDictChunk(cc parquet.ColumnChunk) (dictPages, plainPages int) {
	defer func() { recover() }()
	pages := cc.Pages()
	defer pages.Close()
	for {
		p, err := pages.ReadPage()
		if err != nil {
			return
		}
		if p.Dictionary() != nil {
			dictPages++
		} else {
			plainPages++
		}
		parquet.Release(p)
	}
}

// c07DictFallback reports whether a column chunk holds both dictionary-encoded data pages and data
// pages in another encoding (the writer fell back from the dictionary to PLAIN), from the encoding
// statistics of the footer; page reading is the fallback when the footer has none.
func c07DictFallback(f *parquet.File, rgi, leaf int, cc parquet.ColumnChunk) bool {
	dict, other := 0, 0
	if md := f.Metadata(); rgi < len(md.RowGroups) && leaf < len(md.RowGroups[rgi].Columns) {
		for _, es := range md.RowGroups[rgi].Columns[leaf].MetaData.EncodingStats {
			if es.PageType != format.DataPage && es.PageType != format.DataPageV2 {
				continue
			}
			if es.Encoding == format.RLEDictionary || es.Encoding == format.PlainDictionary {
				dict += int(es.Count)
			} else {
				other += int(es.Count)
			}
		}
	}
	if dict+other == 0 {
		dict, other = c07PlainPagesInDictChunk(cc)
	}
	return dict > 0 && other > 0
}

func c07Gunzip(b []byte) ([]byte, error) {
	zr, err := gzip.NewReader(bytes.NewReader(b))
	if err != nil {
		return nil, err
	}
	return io.ReadAll(zr)
}

func (cs *c07Case) describe(seed int64) map[string]any {
	d := map[string]any{"seed": seed, "case": cs, "regenerate": fmt.Sprintf("rows derive from ctx.Rand(\"files/%d\")", cs.Index)}
	if cs.Index < 0 {
		d["regenerate"] = fmt.Sprintf("corpus case #%d of corpus/C07 (sorted)", -1-cs.Index)
	}
	if cs.N <= 16 {
		var rows []string
		for _, row := range cs.rows {
			var cells []string
			for ci, vs := range row {
				var toks []string
				for _, v := range vs {
					toks = append(toks, cs.Cols[ci].token(v))
				}
				cells = append(cells, "["+strings.Join(toks, " ")+"]")
			}
			rows = append(rows, strings.Join(cells, " "))
		}
		d["rows"] = rows
	}
	return d
}

func c07RunCase(ctx *core.Ctx, b *c07Batch, cs *c07Case) {
	ctx.Hist("files.path", cs.Path)
	if cs.Opts.SrcSorted != "" {
		ctx.Hist("files.sorted-merge", cs.Opts.SrcSorted)
	}
	data, err := cs.write()
	if err != nil {
		ctx.Hist("files.write-error", cs.Path+": "+c07ErrClass(err))
		ctx.Sample(map[string]any{"write_error": err.Error(), "case": cs})
		return
	}
	var fopts []parquet.FileOption
	switch cs.Opts.OpenMode {
	case "skip":
		fopts = append(fopts, parquet.SkipBloomFilters(true))
	case "prefetch":
		fopts = append(fopts, parquet.PrefetchBloomFilters(true))
	}
	if cs.Opts.Encrypt != "" {
		fopts = append(fopts, parquet.WithDecryption(c07Keys{}))
		ctx.Hist("files.encryption", cs.Opts.Encrypt)
	}
	if cs.Opts.SrcEncrypt != "" {
		ctx.Hist("files.source-encryption", cs.Opts.SrcEncrypt+" -> "+cs.Opts.Encrypt)
	}
	f, err := parquet.OpenFile(bytes.NewReader(data), int64(len(data)), fopts...)
	if err != nil {
		ctx.Fail("L1", "written-file-does-not-open", "OpenFile fails on a file the writer produced: "+err.Error(), cs.describe(ctx.Seed))
		return
	}
	leaves, err := cs.columnIndexes(f.Schema())
	if err != nil {
		ctx.Fail("L2", "harness-schema", err.Error(), cs.describe(ctx.Seed))
		return
	}
	total := int64(0)
	for _, rg := range f.RowGroups() {
		total += rg.NumRows()
	}
	if total != int64(cs.N) {
		ctx.Fail("L1", "row-count-differs-"+cs.Path, fmt.Sprintf("file holds %d rows, %d were written", total, cs.N), cs.describe(ctx.Seed))
		return
	}
	ctx.Hist("files.rowgroups", c07Bucket(len(f.RowGroups())))
	if cs.Index < 4 {
		ctx.Sample(cs)
	}
	cs.file = data
	c07PlacementL2(ctx, b, cs, f)
	off := 0
	for rgi, rg := range f.RowGroups() {
		n := int(rg.NumRows())
		rgRows := cs.rows[off : off+n]
		off += n
		chunks := rg.ColumnChunks()
		for ci, col := range cs.Cols {
			c07CheckChunk(ctx, b, cs, f, rgi, ci, col, chunks[leaves[ci]], leaves[ci], rgRows)
		}
	}
}

func c07CheckChunk(ctx *core.Ctx, b *c07Batch, cs *c07Case, f *parquet.File, rgi, ci int, col c07Col, cc parquet.ColumnChunk, leaf int, rgRows [][][]c07Val) {
	// distinct non-null values written to this row group's column chunk, in first-seen order
	seen := map[string]bool{}
	var vals []c07Val
	var toks []string
	var all []c07Val // with duplicates, in order (boolean pages)
	for _, row := range rgRows {
		for _, v := range row[ci] {
			all = append(all, v)
			t := col.token(v)
			if !seen[t] {
				seen[t] = true
				vals = append(vals, v)
				toks = append(toks, t)
			}
		}
	}
	bf := cc.BloomFilter()
	h := sha256.Sum256([]byte(strings.Join(toks, ",")))
	ctx.Case(fmt.Sprintf("files/%d/%s/rg%d/%s/%s/bits%d/%x", cs.Index, cs.Path, rgi, col.Name, col.modelKind(), col.Bits, h[:8]), len(vals) > 0 && bf != nil)
	ctx.Hist("files.kind", col.Kind)
	ctx.Hist("files.enc", col.Kind+"/"+col.Enc)
	ctx.Hist("files.rep", []string{"required", "optional", "repeated"}[col.Rep])
	where := func() map[string]any {
		d := cs.describe(ctx.Seed)
		d["row_group"], d["column"], d["kind"], d["distinct_values"] = rgi, col.Name, col.modelKind(), len(vals)
		return d
	}
	if bf == nil {
		if len(vals) > 0 {
			ctx.Hist("files.filter", "missing")
			ctx.Fail("L1", "configured-filter-missing-"+cs.Path, "a column configured with a bloom filter has none in the file although non-null values were written", where())
		} else {
			ctx.Hist("files.filter", "missing-no-values")
		}
		return
	}
	size := bf.Size()
	ctx.Hist("files.filter", "present")
	ctx.Hist("files.filter-bytes", c07Bucket(int(size)))
	// ---- L1: every written value is reported present
	situation := ""
	for i, v := range vals {
		ok, err := bf.Check(col.value(v))
		if err == nil && ok {
			continue
		}
		if situation == "" {
			situation = "false-negative-" + col.phys() + "-" + cs.Path
			if why := cs.misplaced[[2]int{rgi, leaf}]; why != "" {
				// the footer does not name a region of its own for this chunk's filter
				situation = "filter-region-" + why
			} else if cs.packedMissesEarlierSegment(ctx, b, f, rgi, ci, col, toks[i]) {
				// WriteRowGroup(merge of file row groups) packed several source row groups into this one and
				// the value was not written with the last of them
				situation = "packed-merge-filter-misses-earlier-segment"
			} else if cs.Opts.Encrypt != "" && cs.Opts.BloomComp == "gzip" && size%32 != 0 {
				// the reader decompresses the filter of an encrypted column eagerly: its Size() is the bitset's,
				// a whole number of 32-byte blocks; anything else is the length of the gzip stream
				situation = "encrypted-gzip-filter-probed-with-compressed-size"
			} else if col.phys() == "boolean" {
				situation = "bool-bloom-write-hashes-packed-bytes"
			} else if col.Enc == "dict" || cs.Typed {
				if c07DictFallback(f, rgi, leaf, cc) {
					situation = "dict-fallback-plain-pages-missing-from-filter"
				}
			}
		}
		d := where()
		d["value"], d["filter_bytes"] = toks[i], size
		if err != nil {
			ctx.Fail("L1", "check-error-"+situation, "BloomFilter.Check returns an error for a written value: "+err.Error(), d)
		} else {
			ctx.Fail("L1", situation, fmt.Sprintf("BloomFilter.Check(%s) = false for a %s value written to row group %d column %s", toks[i], col.Kind, rgi, col.Name), d)
		}
		break
	}
	c07SectionL2(ctx, b, cs, f, rgi, ci, leaf, where)
	// ---- L2: stored filter bytes vs the model filter of the same values and size
	if len(vals) == 0 || size == 0 {
		return
	}
	raw := make([]byte, size)
	if _, err := bf.ReadAt(raw, 0); err != nil && err != io.EOF {
		ctx.Fail("L2", "filter-readat-error", "BloomFilter.ReadAt: "+err.Error(), where())
		return
	}
	if cs.Opts.BloomComp == "gzip" && cs.Opts.Encrypt != "" {
		// newBloomFilterFromBytes (encrypted columns) decompresses eagerly: Size/ReadAt are the bitset's
		ctx.Hist("files.filter-compression", "gzip-encrypted-read-back-decompressed")
	} else if cs.Opts.BloomComp == "gzip" {
		if un, err := c07Gunzip(raw); err == nil {
			raw = un
			ctx.Hist("files.filter-compression", "gzip")
		} else {
			ctx.Hist("files.filter-compression", "gzip-requested-stored-uncompressed")
		}
	} else {
		ctx.Hist("files.filter-compression", "none")
	}
	if len(raw)%32 != 0 {
		ctx.Fail("L2", "filter-size-not-multiple-of-block", fmt.Sprintf("stored filter is %d bytes", len(raw)), where())
		return
	}
	nb := len(raw) / 32
	var req string
	if col.phys() == "boolean" {
		// the as-is write side hashes packed bytes: only reproducible from outside when the chunk is one
		// page of a required column written from bit 0
		pages := 0
		if oi, err := cc.OffsetIndex(); err == nil && oi != nil {
			pages = oi.NumPages()
		}
		if col.Rep != 0 || pages != 1 {
			ctx.Hist("files.l2", "boolean-skipped-multi-page")
			return
		}
		ts := make([]string, len(all))
		for i, v := range all {
			ts[i] = fmt.Sprint(v.U)
		}
		req = fmt.Sprintf("bloom.file boolean %d %s", nb, strings.Join(ts, ","))
	} else {
		req = fmt.Sprintf("bloom.file %s %d %s", col.modelKind(), nb, strings.Join(toks, ","))
	}
	ctx.Hist("files.l2", "compared")
	got := "ok " + core.Hex(raw)
	d := where()
	c07ProbeL2(ctx, b, cs, rgi, ci, col, bf, raw, vals, where)
	c07StrategyL2(ctx, b, cs, f, rgi, ci, leaf, col, cc, raw, where)
	b.add(req, func(resp string) {
		if resp == got {
			return
		}
		key := "file-filter-bytes-vs-model-" + col.phys()
		if col.Enc == "dict" || cs.Typed {
			if c07DictFallback(f, rgi, leaf, cc) {
				key = "file-filter-bytes-dict-fallback-plain-pages-missing"
			}
		}
		d["request"], d["go"], d["lean"] = req, got, resp
		ctx.Fail("L2", key, "filter bytes in the file differ from the model's filter of the same values and size", d)
	})
}

// c07PlacementL2: where the filter sections lie. Independent part (no model): the regions
// [BloomFilterOffset, +BloomFilterLength) of all chunks are inside the file and pairwise disjoint
// (chunks whose region is shared are remembered in cs.misplaced: their false negatives get the key of
// that situation). Model part (Lean `bloom.place`, MIRROR of the filter loop of writeRowGroup and of
// writeDeferredBloomFilters on offsets): from the page bytes of every row group (footer: first page
// offset, total_compressed_size) and the LENGTH of every filter section alone, the mirror predicts
// every BloomFilterOffset.
func c07PlacementL2(ctx *core.Ctx, b *c07Batch, cs *c07Case, f *parquet.File) {
	md := f.Metadata()
	cs.misplaced = map[[2]int]string{}
	type region struct {
		rg, col  int
		off, len int64
	}
	var regions []region
	var evs []string
	var want []string
	cur := int64(4)
	evs = append(evs, "d4")
	bad := ""
	for k := range md.RowGroups {
		pagesEnd := int64(0)
		for j := range md.RowGroups[k].Columns {
			m := &md.RowGroups[k].Columns[j].MetaData
			first := m.DataPageOffset
			if m.DictionaryPageOffset > 0 && m.DictionaryPageOffset < first {
				first = m.DictionaryPageOffset
			}
			if m.TotalCompressedSize > 0 && first+m.TotalCompressedSize > pagesEnd {
				pagesEnd = first + m.TotalCompressedSize
			}
		}
		if pagesEnd > 0 {
			if pagesEnd < cur {
				bad = fmt.Sprintf("the pages of row group %d end at %d, before the end (%d) of what precedes them", k, pagesEnd, cur)
				break
			}
			evs = append(evs, fmt.Sprintf("d%d", pagesEnd-cur))
			cur = pagesEnd
		}
		for j := range md.RowGroups[k].Columns {
			m := &md.RowGroups[k].Columns[j].MetaData
			if m.BloomFilterOffset == 0 && m.BloomFilterLength == 0 {
				continue
			}
			regions = append(regions, region{k, j, m.BloomFilterOffset, int64(m.BloomFilterLength)})
			d := 0
			if cs.Opts.Deferred {
				d = 1
			} else {
				cur += int64(m.BloomFilterLength)
			}
			evs = append(evs, fmt.Sprintf("f%d.%d.%d.%d", k, j, m.BloomFilterLength, d))
			want = append(want, fmt.Sprintf("%d.%d.%d.%d", k, j, m.BloomFilterOffset, m.BloomFilterLength))
		}
	}
	evs = append(evs, "x")
	// independent: inside the file, pairwise disjoint
	for i, r := range regions {
		if r.off < 4 || r.len <= 0 || r.off+r.len > int64(len(cs.file)) {
			cs.misplaced[[2]int{r.rg, r.col}] = "outside-the-file"
			continue
		}
		for i2, r2 := range regions {
			if i2 != i && r.off < r2.off+r2.len && r2.off < r.off+r.len {
				cs.misplaced[[2]int{r.rg, r.col}] = "shared-with-another-chunk"
			}
		}
	}
	ctx.Hist("files.placement", fmt.Sprintf("deferred=%v encrypted=%v filters=%s", cs.Opts.Deferred, cs.Opts.Encrypt != "", c07Bucket(len(regions))))
	detail := func() map[string]any {
		d := cs.describe(ctx.Seed)
		d["filter_regions"] = want
		return d
	}
	if len(cs.misplaced) > 0 {
		keys := map[string]bool{}
		for _, why := range cs.misplaced {
			keys[why] = true
		}
		for why := range keys {
			key := "filter-regions-" + why
			if cs.Opts.Deferred {
				key = "deferred-" + key
			}
			ctx.Fail("L2", key, "the bloom filter regions the footer records (BloomFilterOffset/Length) are not one region of the file per chunk", detail())
		}
	}
	if bad != "" {
		ctx.Fail("L2", "placement-pages-overlap", bad, detail())
		return
	}
	if len(regions) == 0 {
		return
	}
	req := "bloom.place " + strings.Join(evs, ",")
	b.add(req, func(resp string) {
		got := "ok " + strings.Join(want, ",") + " "
		if strings.HasPrefix(resp, got) {
			return
		}
		d := detail()
		d["request"], d["go"], d["lean"] = req, got, resp
		key := "filter-placement-vs-mirror"
		if cs.Opts.Deferred {
			key = "deferred-filter-placement-vs-mirror"
		}
		ctx.Fail("L2", key, "BloomFilterOffset of the chunks differs from the placement the mirror of writeRowGroup/writeDeferredBloomFilters computes from the section lengths", d)
	})
}

// c07SectionL2: the framing of one filter section at the recorded offset. Unencrypted: the thrift
// header bytes are those of the Lean mirror (`headerBytes`, read back by the spec reader in
// `header_roundtrip`) for the NumBytes found and the configured compression, and header + NumBytes =
// BloomFilterLength. Encrypted: two module envelopes whose lengths add up to BloomFilterLength
// (`encSectionLength`).
func c07SectionL2(ctx *core.Ctx, b *c07Batch, cs *c07Case, f *parquet.File, rgi, ci, leaf int, where func() map[string]any) {
	md := f.Metadata()
	if rgi >= len(md.RowGroups) || leaf >= len(md.RowGroups[rgi].Columns) {
		return
	}
	m := &md.RowGroups[rgi].Columns[leaf].MetaData
	off, length := m.BloomFilterOffset, int64(m.BloomFilterLength)
	if off <= 0 || length <= 0 || off+length > int64(len(cs.file)) {
		return // reported by c07PlacementL2
	}
	sect := cs.file[off : off+length]
	gz := 0
	if cs.Opts.BloomComp == "gzip" {
		gz = 1
	}
	fail := func(key, what string, extra map[string]any) {
		d := where()
		d["bloom_filter_offset"], d["bloom_filter_length"] = off, length
		for k, v := range extra {
			d[k] = v
		}
		ctx.Fail("L2", key, what, d)
	}
	if cs.Opts.Encrypt != "" {
		if len(sect) < 8 {
			fail("encrypted-filter-section-framing", "section shorter than two length prefixes", nil)
			return
		}
		n1 := int64(binary.LittleEndian.Uint32(sect))
		if 4+n1+4 > length {
			fail("encrypted-filter-section-framing", "first module longer than the section", map[string]any{"module1": n1})
			return
		}
		n2 := int64(binary.LittleEndian.Uint32(sect[4+n1:]))
		nb := n2 - 28
		ctx.Hist("files.section", "encrypted")
		// the harness opens both modules itself (AES-GCM, AAD = prefix ‖ file id ‖ module type ‖ row group ‖ column)
		var hdrPlain []byte
		if 4+n1+4+n2 <= length && n1 >= 28 && n2 >= 28 {
			var err error
			if hdrPlain, err = cs.openModule(ci, rgi, leaf, 6, sect[4:4+n1]); err != nil {
				fail("encrypted-filter-module-does-not-open", "header module: "+err.Error(), nil)
				return
			}
			bits, err := cs.openModule(ci, rgi, leaf, 7, sect[4+n1+4:4+n1+4+n2])
			if err != nil {
				fail("encrypted-filter-module-does-not-open", "bitset module: "+err.Error(), nil)
				return
			}
			if gz == 1 {
				if bits, err = c07Gunzip(bits); err != nil {
					fail("encrypted-filter-bitset-vs-reader", "bitset module is not a gzip stream: "+err.Error(), nil)
					return
				}
			}
			// what the library's reader hands out (Size/ReadAt) must be the (decompressed) bitset
			if bf := f.RowGroups()[rgi].ColumnChunks()[leaf].BloomFilter(); bf != nil {
				got := make([]byte, bf.Size())
				if _, err := bf.ReadAt(got, 0); (err != nil && err != io.EOF) || !bytes.Equal(got, bits) {
					fail("encrypted-filter-bitset-vs-reader", fmt.Sprintf("the reader's filter (%d bytes) is not the decrypted, decompressed bitset (%d bytes)", len(got), len(bits)), nil)
				}
			}
		}
		req := fmt.Sprintf("bloom.header %d %d", nb, gz)
		b.add(req, func(resp string) {
			fs := strings.Fields(resp)
			if len(fs) == 3 && fs[0] == "ok" && fs[2] == fmt.Sprint(length) && int64(len(fs[1])/2)+28 == n1 && core.Hex(hdrPlain) == fs[1] {
				return
			}
			fail("encrypted-filter-section-framing", "header module (decrypted) + bitset module are not those of the mirror of writeBloomFilter (encSection)",
				map[string]any{"request": req, "lean": resp, "module1": n1, "module2": n2, "header_plain": core.Hex(hdrPlain)})
		})
		return
	}
	// NumBytes: field 1, i32, zigzag varint
	if sect[0] != 0x15 {
		fail("filter-header-vs-mirror", fmt.Sprintf("section starts with %#x, not with field 1 (i32)", sect[0]), nil)
		return
	}
	u, n := binary.Uvarint(sect[1:])
	if n <= 0 || u&1 != 0 {
		fail("filter-header-vs-mirror", "NumBytes unreadable or negative", nil)
		return
	}
	nb := int64(u >> 1)
	ctx.Hist("files.section", "plain")
	req := fmt.Sprintf("bloom.header %d %d", nb, gz)
	b.add(req, func(resp string) {
		fs := strings.Fields(resp)
		if len(fs) == 3 && fs[0] == "ok" {
			hdr := fs[1]
			if int64(len(hdr)/2) <= length && core.Hex(sect[:len(hdr)/2]) == hdr && int64(len(hdr)/2)+nb == length {
				return
			}
		}
		fail("filter-header-vs-mirror", "the section is not header(NumBytes, compression) ++ NumBytes bytes as in the mirror of writeBloomFilter",
			map[string]any{"request": req, "lean": resp, "section_head": core.Hex(sect[:min(len(sect), 24)])})
	})
}

// c07ProbeL2: the reader's answers (FileBloomFilter.Check: section / lazily decompressed gzip, block
// count from the decompressed length) vs the model's CheckSplitBlock on the filter bytes (gunzipped
// here with compress/gzip), on probes that were mostly NOT written.
func c07ProbeL2(ctx *core.Ctx, b *c07Batch, cs *c07Case, rgi, ci int, col c07Col, bf parquet.BloomFilter, raw []byte, vals []c07Val, where func() map[string]any) {
	if len(raw) > 8192 {
		return
	}
	r := ctx.Rand(fmt.Sprintf("files/%d/probe/%d/%d", cs.Index, rgi, ci))
	const np = 6
	hashes := make([]uint64, np)
	gotp := make([]string, np)
	toks := make([]string, np)
	for i := 0; i < np; i++ {
		var v c07Val
		if i == 0 && len(vals) > 0 {
			v = vals[r.Intn(len(vals))]
		} else {
			v = c07Fresh(r, col)
		}
		pv := col.value(v)
		ok, err := bf.Check(pv)
		if err != nil {
			ctx.Fail("L2", "probe-check-error", "BloomFilter.Check returns an error: "+err.Error(), where())
			return
		}
		hashes[i] = parquet.VerifBloomValueHash(pv)
		toks[i] = col.token(v)
		gotp[i] = "0"
		if ok {
			gotp[i] = "1"
		}
	}
	ctx.Hist("files.l2", "probes")
	req := fmt.Sprintf("bloom.checks %s %s", core.Hex(raw), c07U64s(hashes))
	b.add(req, func(resp string) {
		if resp != "ok "+strings.Join(gotp, ",") {
			d := where()
			d["request"], d["probes"], d["go"], d["lean"] = req, toks, strings.Join(gotp, ","), resp
			key := "file-filter-check-vs-model"
			if cs.Opts.BloomComp == "gzip" {
				key = "file-gzip-filter-check-vs-model"
			}
			ctx.Fail("L2", key, "FileBloomFilter.Check differs from the model's CheckSplitBlock on the (decompressed) filter bytes", d)
		}
	})
}

func c07ValueToken(col c07Col, v parquet.Value) string {
	switch col.phys() {
	case "boolean":
		if v.Boolean() {
			return "1"
		}
		return "0"
	case "int32":
		return fmt.Sprint(uint32(v.Int32()))
	case "int64":
		return fmt.Sprint(uint64(v.Int64()))
	case "float":
		return fmt.Sprint(math.Float32bits(v.Float()))
	case "double":
		return fmt.Sprint(math.Float64bits(v.Double()))
	case "int96":
		i := v.Int96()
		var raw []byte
		for _, w := range i {
			raw = binary.LittleEndian.AppendUint32(raw, w)
		}
		return c07BytesTok(raw)
	default:
		return c07BytesTok(v.ByteArray())
	}
}

// c07StrategyL2: the filter build strategy of the column writer (Lean `flushFilter`: incremental /
// from the dictionary / dictionary + PLAIN pages after a fallback / re-reading) vs the file. The
// chunk is described to the model as it is stored: pages (dictionary-indexed or not) with their
// values, the dictionary, whether the writer fell back, NumValues; `presized` is known for the
// write paths that never pre-size and for WriteRowGroup(buffer) without row-group splitting.
func c07StrategyL2(ctx *core.Ctx, b *c07Batch, cs *c07Case, f *parquet.File, rgi, ci, leaf int, col c07Col, cc parquet.ColumnChunk, raw []byte, where func() map[string]any) {
	md := f.Metadata()
	if rgi >= len(md.RowGroups) || leaf >= len(md.RowGroups[rgi].Columns) {
		return
	}
	meta := md.RowGroups[rgi].Columns[leaf].MetaData
	presized := 0
	switch cs.Path {
	case "rows", "generic", "any", "colwriters", "copyrows":
	case "buffer":
		// WriteRowGroup(buffer): configureBloomFilters pre-sizes the filter of the FIRST output row group of
		// each call from the buffer's value count (Lean `presize`); the later row groups of a split call
		// are not pre-sized (ColumnWriter.reset truncates the filter).
		g, ok := cs.bufferGroup(f, rgi)
		if !ok {
			ctx.Hist("files.strategy", "skipped-presize-unknown")
			return
		}
		if g.first {
			srcValues := int64(0)
			for _, row := range cs.rows[g.lo:g.hi] {
				srcValues += int64(max(1, len(row[ci])))
			}
			maxRows := cs.Opts.MaxRows
			if maxRows <= 0 {
				maxRows = math.MaxInt64
			}
			n := int64(g.hi - g.lo)
			switch {
			case n > maxRows && col.Rep == 2:
			case n > maxRows:
				presized = parquet.SplitBlockFilter(col.Bits, col.Name).Size(min(srcValues, maxRows))
			default:
				presized = parquet.SplitBlockFilter(col.Bits, col.Name).Size(srcValues)
			}
			rep := 0
			if col.Rep == 2 {
				rep = 1
			}
			preq := fmt.Sprintf("bloom.presize %d 1 %d %d %d %d", col.Bits, srcValues, n, maxRows, rep)
			want := fmt.Sprintf("ok %d", presized)
			b.add(preq, func(resp string) {
				if resp != want {
					d := where()
					d["request"], d["go"], d["lean"] = preq, want, resp
					ctx.Fail("L2", "presize-vs-mirror", "harness transcription of configureBloomFilters differs from the Lean mirror `presize`", d)
				}
			})
			ctx.Hist("files.presize", fmt.Sprintf("first-of-call split=%v presized=%v", n > maxRows, presized > 0))
		} else {
			ctx.Hist("files.presize", "later-group-of-split-call")
		}
	case "file-merge":
		// WriteRowGroup(MergeRowGroups(file row groups)): writeSegmentsPacked batches the source row groups
		// (Lean `packBatches`); a batch of >= 2 is re-encoded into ONE output row group whose filter is
		// sized once for the batch (Lean `packedPresize` = configureBloomFiltersForSegments).
		if cs.Opts.SrcSorted == "overlap" { // refined segments (row-range views, heap merges): not predicted
			ctx.Hist("files.strategy", "skipped-presize-unknown")
			return
		}
		g, ok := cs.packedGroup(ctx, b, f, rgi)
		if !ok || len(g.segs) < 2 {
			ctx.Hist("files.strategy", "skipped-presize-unknown")
			return
		}
		total := int64(0)
		var toks []string
		for _, si := range g.segs {
			lo, hi := cs.srcSpan(si)
			nv := int64(0)
			for _, row := range cs.rows[lo:hi] {
				nv += int64(max(1, len(row[ci])))
			}
			total += nv
			toks = append(toks, fmt.Sprintf("%d.1", nv))
		}
		presized = parquet.SplitBlockFilter(col.Bits, col.Name).Size(total)
		preq := fmt.Sprintf("bloom.packsize %d %s", col.Bits, strings.Join(toks, ","))
		want := fmt.Sprintf("ok %d", presized)
		b.add(preq, func(resp string) {
			if resp != want {
				d := where()
				d["request"], d["go"], d["lean"] = preq, want, resp
				ctx.Fail("L2", "packed-presize-vs-mirror", "harness transcription of configureBloomFiltersForSegments differs from the Lean mirror `packedPresize`", d)
			}
		})
		ctx.Hist("files.presize", fmt.Sprintf("packed batch of %s segments", c07Bucket(len(g.segs))))
	default:
		ctx.Hist("files.strategy", "skipped-presize-unknown")
		return
	}
	narrow := map[string]bool{"boolean": true, "int32": true, "int64": true, "float": true, "double": true}[col.phys()]
	if meta.NumValues > 600 && !(narrow && meta.NumValues <= 3000) {
		ctx.Hist("files.strategy", "skipped-large")
		return
	}
	var pageToks []string
	var dict parquet.Dictionary
	indexed, plain := 0, 0
	err := func() (err error) {
		defer func() {
			if p := recover(); p != nil {
				err = fmt.Errorf("panic: %v", p)
			}
		}()
		pages := cc.Pages()
		defer pages.Close()
		for {
			p, err := pages.ReadPage()
			if err == io.EOF {
				return nil
			}
			if err != nil {
				return err
			}
			tag := "p:"
			if d := p.Dictionary(); d != nil {
				tag, dict = "i:", d
				indexed++
			} else {
				plain++
			}
			var toks []string
			vr := p.Values()
			buf := make([]parquet.Value, 256)
			for {
				n, err := vr.ReadValues(buf)
				for _, v := range buf[:n] {
					if !v.IsNull() {
						toks = append(toks, c07ValueToken(col, v))
					}
				}
				if err != nil {
					break
				}
			}
			if len(toks) == 0 {
				pageToks = append(pageToks, tag+"-")
			} else {
				pageToks = append(pageToks, tag+strings.Join(toks, ","))
			}
			parquet.Release(p)
		}
	}()
	if err != nil {
		ctx.Hist("files.strategy", "skipped-pages-unreadable")
		return
	}
	if col.phys() == "boolean" && (col.Rep != 0 || len(pageToks) != 1) {
		ctx.Hist("files.strategy", "skipped-boolean-multi-page")
		return
	}
	dictTok := "n"
	if dict != nil {
		var toks []string
		for i := 0; i < dict.Len(); i++ {
			toks = append(toks, c07ValueToken(col, dict.Index(int32(i))))
		}
		dictTok = "d:-"
		if len(toks) > 0 {
			dictTok = "d:" + strings.Join(toks, ",")
		}
	} else if meta.DictionaryPageOffset > 0 {
		ctx.Hist("files.strategy", "skipped-dictionary-not-visible")
		return
	}
	sw := 0
	if dict != nil && plain > 0 {
		sw = 1
	}
	pagesTok := "-"
	if len(pageToks) > 0 {
		pagesTok = strings.Join(pageToks, ";")
	}
	strategy := "reread"
	switch {
	case dict != nil && sw == 0:
		strategy = "dictionary"
	case dict != nil && presized > 0:
		strategy = "fallback-presized"
	case dict != nil:
		strategy = "fallback-reread"
	case presized > 0:
		strategy = "incremental"
	}
	ctx.Hist("files.strategy", strategy)
	mk := func(sw int) string {
		return fmt.Sprintf("bloom.flush %s %d %d %d %d %s %s", col.modelKind(), col.Bits, presized, meta.NumValues, sw, dictTok, pagesTok)
	}
	req := mk(sw)
	got := fmt.Sprintf("ok %d %s", len(raw), core.Hex(raw))
	// `hasSwitchedToPlain` is not visible in the file when the row group ended right after the page on
	// which the dictionary limit was hit (every page is still dictionary-indexed): with a configured
	// DictionaryMaxBytes both states are possible, the file must match one of them.
	ambiguous := dict != nil && plain == 0 && cs.Opts.DictMax > 0
	first := ""
	if ambiguous {
		b.add(mk(1), func(resp string) { first = resp })
	}
	b.add(req, func(resp string) {
		if resp == got {
			return
		}
		if ambiguous && first == got {
			ctx.Hist("files.strategy", "fallback-flag-set-no-plain-page")
			return
		}
		d := where()
		d["request"], d["go"], d["lean"], d["strategy"] = req, got, resp, strategy
		key := "strategy-" + strategy + "-vs-mirror"
		if !strings.HasPrefix(resp, fmt.Sprintf("ok %d ", len(raw))) {
			key = "strategy-" + strategy + "-size-vs-mirror"
		}
		ctx.Fail("L2", key, "filter (size, bytes) in the file differs from the model of flushFilterPages for this chunk", d)
	})
}

type c07Group struct {
	lo, hi int  // rows of the WriteRowGroup call this output row group belongs to
	first  bool // first output row group of that call
}

// bufferGroup: for the "buffer" path, which WriteRowGroup(buffer) call produced output row group rgi.
// A call of n rows gives groups of MaxRowsPerRowGroup rows and a remainder; ok=false when the file's
// row groups do not match that layout.
func (cs *c07Case) bufferGroup(f *parquet.File, rgi int) (c07Group, bool) {
	if cs.groups == nil {
		cs.groups = []c07Group{}
		parts := 1 + ((cs.Index%3)+3)%3
		per := max((len(cs.rows)+parts-1)/parts, 1)
		var sizes []int
		for i := 0; i < len(cs.rows); i += per {
			j := min(len(cs.rows), i+per)
			n, first := j-i, true
			for n > 0 {
				k := n
				if cs.Opts.MaxRows > 0 && int64(k) > cs.Opts.MaxRows {
					k = int(cs.Opts.MaxRows)
				}
				cs.groups = append(cs.groups, c07Group{i, j, first})
				sizes = append(sizes, k)
				n, first = n-k, false
			}
		}
		rgs := f.RowGroups()
		ok := len(rgs) == len(sizes)
		for i := 0; ok && i < len(rgs); i++ {
			ok = rgs[i].NumRows() == int64(sizes[i])
		}
		if !ok {
			cs.groups = []c07Group{}
		}
	}
	if rgi >= len(cs.groups) {
		return c07Group{}, false
	}
	return cs.groups[rgi], true
}

type c07Packed struct {
	segs []int // source row groups written into this output row group's batch
}

// rows [lo, hi) of the source row group si
func (cs *c07Case) srcSpan(si int) (lo, hi int) {
	for i := 0; i < si; i++ {
		lo += int(cs.srcRows[i])
	}
	return lo, lo + int(cs.srcRows[si])
}

// packedGroup: for the "file-merge" path, which source row groups were batched into output row group rgi.
// Go transcription of the loop of writeSegmentsPacked, compared with the Lean mirror `packBatches`; the
// row counts of the output row groups it implies (a batch of >= 2 segments: one row group; a single
// segment within the limit: one row group; a single segment above the limit: split by the row path)
// must be those of the file.
func (cs *c07Case) packedGroup(ctx *core.Ctx, b *c07Batch, f *parquet.File, rgi int) (c07Packed, bool) {
	if cs.packedOk == 0 {
		cs.packedOk = 2
		maxRows := cs.Opts.MaxRows
		if maxRows <= 0 {
			maxRows = math.MaxInt64
		}
		anySmall := false
		for _, n := range cs.srcRows {
			anySmall = anySmall || n <= maxRows
		}
		// splittableCopyableSegments: >= 2 segments, one of them writable through a segment path
		if len(cs.srcRows) >= 2 && anySmall {
			var batches [][]int
			var pending []int
			pendingRows := int64(0)
			flush := func() {
				if len(pending) > 0 {
					batches = append(batches, pending)
				}
				pending, pendingRows = nil, 0
			}
			var toks []string
			for i, n := range cs.srcRows {
				if n <= maxRows {
					toks = append(toks, fmt.Sprintf("%d.1", n))
					if pendingRows > 0 && pendingRows+n > maxRows {
						flush()
					}
					pending = append(pending, i)
					pendingRows += n
				} else {
					toks = append(toks, fmt.Sprintf("%d.0", n))
					flush()
					batches = append(batches, []int{i})
				}
			}
			flush()
			var bt []string
			for _, bb := range batches {
				bt = append(bt, strings.Trim(strings.ReplaceAll(fmt.Sprint(bb), " ", "+"), "[]"))
			}
			mr := cs.Opts.MaxRows
			if mr <= 0 {
				mr = 1 << 62
			}
			req := fmt.Sprintf("bloom.pack %d %s", mr, strings.Join(toks, ","))
			want := "ok " + strings.Join(bt, ",")
			desc := cs.describe(ctx.Seed)
			b.add(req, func(resp string) {
				if resp != want {
					desc["request"], desc["go"], desc["lean"] = req, want, resp
					ctx.Fail("L2", "packed-batches-vs-mirror", "harness transcription of writeSegmentsPacked differs from the Lean mirror `packBatches`", desc)
				}
			})
			var sizes []int64
			var groups []c07Packed
			for _, bb := range batches {
				n := int64(0)
				for _, si := range bb {
					n += cs.srcRows[si]
				}
				if len(bb) == 1 && n > maxRows {
					for n > 0 {
						k := min(n, maxRows)
						sizes, groups = append(sizes, k), append(groups, c07Packed{segs: bb})
						n -= k
					}
				} else {
					sizes, groups = append(sizes, n), append(groups, c07Packed{segs: bb})
				}
			}
			rgs := f.RowGroups()
			ok := len(rgs) == len(sizes)
			for i := 0; ok && i < len(rgs); i++ {
				ok = rgs[i].NumRows() == sizes[i]
			}
			if ok {
				cs.packed, cs.packedOk = groups, 1
				ctx.Hist("files.packed-layout", "as predicted")
			} else {
				var got []int64
				for _, rg := range rgs {
					got = append(got, rg.NumRows())
				}
				desc["source_row_groups"], desc["predicted_row_groups"], desc["file_row_groups"] = cs.srcRows, sizes, got
				ctx.Fail("L2", "packed-row-group-layout-vs-mirror", "the output row groups of WriteRowGroup(merge of file row groups) are not those the mirror of writeSegmentsPacked predicts", desc)
			}
		} else {
			ctx.Hist("files.packed-layout", "not split into segments")
		}
	}
	if cs.packedOk != 1 || rgi >= len(cs.packed) {
		return c07Packed{}, false
	}
	return cs.packed[rgi], true
}

// packedMissesEarlierSegment: the chunk belongs to a packed batch of >= 2 source row groups ("file-merge"
// path) and the value with token tok does not occur in the last source row group of the batch.
func (cs *c07Case) packedMissesEarlierSegment(ctx *core.Ctx, b *c07Batch, f *parquet.File, rgi, ci int, col c07Col, tok string) bool {
	if cs.Path != "file-merge" || cs.Opts.SrcSorted == "overlap" {
		return false
	}
	g, ok := cs.packedGroup(ctx, b, f, rgi)
	if !ok || len(g.segs) < 2 {
		return false
	}
	lo, hi := cs.srcSpan(g.segs[len(g.segs)-1])
	for _, row := range cs.rows[lo:hi] {
		for _, v := range row[ci] {
			if col.token(v) == tok {
				return false
			}
		}
	}
	return true
}

// corpus case: {"path":..,"cols":[..],"opts":{..},"rows":[[["tok",..] per column] per row]}; tokens as
// in the driver protocol (decimal bit patterns, hex bytes, "e" = empty)
type c07CorpusCase struct {
	Note string       `json:"note"`
	Path string       `json:"path"`
	Cols []c07Col     `json:"cols"`
	Opts c07Opts      `json:"opts"`
	Rows [][][]string `json:"rows"`
}

func c07LoadCorpus(path string, index int) (*c07Case, error) {
	raw, err := os.ReadFile(path)
	if err != nil {
		return nil, err
	}
	var cc c07CorpusCase
	if err := json.Unmarshal(raw, &cc); err != nil {
		return nil, err
	}
	cs := &c07Case{Index: index, Path: cc.Path, Cols: cc.Cols, Opts: cc.Opts, N: len(cc.Rows)}
	if cs.Opts.Batch <= 0 {
		cs.Opts.Batch = 1 << 20
	}
	if cs.Opts.PageV == 0 {
		cs.Opts.PageV = 1
	}
	if cs.Opts.OpenMode == "" {
		cs.Opts.OpenMode = "default"
	}
	for _, row := range cc.Rows {
		if len(row) != len(cs.Cols) {
			return nil, fmt.Errorf("%s: row with %d cells for %d columns", path, len(row), len(cs.Cols))
		}
		r := make([][]c07Val, len(row))
		for ci, cell := range row {
			for _, tok := range cell {
				var v c07Val
				switch cs.Cols[ci].phys() {
				case "boolean", "int32", "int64", "float", "double":
					if v.U, err = strconv.ParseUint(tok, 10, 64); err != nil {
						return nil, err
					}
				default:
					if tok != "e" {
						if v.B, err = hex.DecodeString(tok); err != nil {
							return nil, err
						}
					}
				}
				r[ci] = append(r[ci], v)
			}
		}
		cs.rows = append(cs.rows, r)
	}
	return cs, nil
}

// replay file written by ./check: {"seed":..,"layer":..,"key":..,"detail":{"case":{"index":..}}}
type c07ReplayFile struct {
	Seed   int64  `json:"seed"`
	Tier   string `json:"tier"`
	Key    string `json:"key"`
	Detail struct {
		Case *struct {
			Index int `json:"index"`
		} `json:"case"`
		MultiCase *struct {
			Index int `json:"index"`
		} `json:"multi_case"`
	} `json:"detail"`
}

func c07ReadReplay(ctx *core.Ctx) *c07ReplayFile {
	raw, err := os.ReadFile(ctx.Replay)
	if err != nil {
		ctx.Fail("L2", "replay-unreadable", err.Error(), ctx.Replay)
		return nil
	}
	var rf c07ReplayFile
	if err := json.Unmarshal(raw, &rf); err != nil {
		ctx.Fail("L2", "replay-unreadable", err.Error(), ctx.Replay)
		return nil
	}
	return &rf
}

func RunC07Files(ctx *core.Ctx) {
	ctx.SetRule(c07Rule)
	replayIndex := -1
	if ctx.Replay != "" {
		rf := c07ReadReplay(ctx)
		if rf == nil || rf.Detail.Case == nil {
			return // not a file case (the pure sub-check re-runs with the recorded seed)
		}
		ctx.Seed = rf.Seed
		if rf.Tier != "" {
			ctx.Tier = rf.Tier // case sizes depend on the tier
		}
		if rf.Detail.Case.Index >= 0 {
			replayIndex = rf.Detail.Case.Index
		}
	}
	// corpus first (recorded findings), single-threaded
	if d := ctx.Driver(); d != nil {
		b := &c07Batch{ctx: ctx, d: d}
		for i, p := range ctx.CorpusFiles() {
			cs, err := c07LoadCorpus(p, -1-i)
			if err != nil {
				ctx.Fail("L2", "corpus-unreadable", err.Error(), p)
				continue
			}
			ctx.Hist("files.corpus", p[strings.LastIndexByte(p, '/')+1:])
			func() {
				defer func() {
					if r := recover(); r != nil {
						ctx.Fail("L1", "panic-"+cs.Path, fmt.Sprintf("panic on corpus case %s: %v", p, r), cs.describe(ctx.Seed))
					}
				}()
				c07RunCase(ctx, b, cs)
			}()
		}
		b.flush()
	}
	if ctx.Replay != "" {
		if replayIndex >= 0 {
			if d := ctx.Driver(); d != nil {
				b := &c07Batch{ctx: ctx, d: d}
				cs := c07GenCase(ctx, replayIndex)
				func() {
					defer func() {
						if r := recover(); r != nil {
							ctx.Fail("L1", "panic-"+cs.Path, fmt.Sprintf("panic while writing/checking a file with bloom filters: %v", r), cs.describe(ctx.Seed))
						}
					}()
					c07RunCase(ctx, b, cs)
				}()
				b.flush()
			}
		}
		return
	}
	// thorough: 40 000 files per build (was 120 000, ~35 CPU-minutes per build: the most expensive
	// sub-check of C07; thorough cases are also larger, see c07GenCase)
	total := ctx.Scale(6000, 40000)
	workers := 14
	jobs := make(chan int, total)
	for i := 0; i < total; i++ {
		jobs <- i
	}
	close(jobs)
	copy0, re0 := parquet.VerifBloomCopyPathCount(), parquet.VerifBloomReencodePathCount()
	var wg sync.WaitGroup
	for wi := 0; wi < workers; wi++ {
		wg.Add(1)
		go func() {
			defer wg.Done()
			d := ctx.Driver()
			if d == nil {
				return
			}
			b := &c07Batch{ctx: ctx, d: d}
			for i := range jobs {
				cs := c07GenCase(ctx, i)
				done := make(chan struct{})
				go func() {
					defer close(done)
					defer func() {
						if p := recover(); p != nil {
							key := "panic-" + cs.Path
							ctx.Fail("L1", key, fmt.Sprintf("panic while writing/checking a file with bloom filters: %v", p), cs.describe(ctx.Seed))
						}
					}()
					c07RunCase(ctx, b, cs)
				}()
				select {
				case <-done:
				case <-time.After(180 * time.Second):
					ctx.Fail("L1", "hang-"+cs.Path, "writing/checking did not finish within 180 s", cs.describe(ctx.Seed))
					return // the batch may be in use by the stuck goroutine
				}
			}
			b.flush()
		}()
	}
	wg.Wait()
	ctx.HistN("files.writer-path", "column chunks copied verbatim", parquet.VerifBloomCopyPathCount()-copy0)
	ctx.HistN("files.writer-path", "row groups re-encoded by column", parquet.VerifBloomReencodePathCount()-re0)
}

var _ = json.Marshal
