package props

import (
	"bytes"
	"fmt"
	"reflect"
	"strings"
	"sync"

	"github.com/parquet-go/parquet-go"

	"verifharness/core"
	"verifharness/gen"
)

func init() { RegisterSub("C01", "rowgroups", RunC01RowGroups) }

// RunC01RowGroups: rows accepted by an in-memory row group (RowBuffer[T], GenericBuffer[T],
// Buffer) and moved into a file writer through every public bridge must read back unchanged, and
// the row group's own page-level view must show the same column streams whatever the capacity
// of the value buffers it is read with.
func RunC01RowGroups(ctx *core.Ctx) {
	ctx.SetRule("rowgroups: catalogue struct types x random rows (repeated rows of 0..4 and 513-2100 elements) x in-memory row group {RowBuffer[T], GenericBuffer[T], Buffer.Write(any)} -> (a) ColumnChunks()[i].Pages().ReadPage().Values().ReadValues with value buffers of 1,2,3,7,170,256 entries vs the reference shredder, (b) bridge into a file {Writer.WriteRowGroup(rg), CopyRows(writer, rg.Rows()), CopyRows(writer, NewRowGroupRowReader(rg))} under a random writer configuration -> Close -> Read[T] and stored streams; non-trivial = a column with both nulls and values")
	ncases := ctx.Scale(4, 40)
	var wg sync.WaitGroup
	sem := make(chan struct{}, 16)
	for _, e := range gen.Catalog {
		wg.Add(1)
		sem <- struct{}{}
		go func(e *gen.Entry) {
			defer wg.Done()
			defer func() { <-sem }()
			r := ctx.Rand("c01rg/" + e.Name)
			for k := 0; k < ncases; k++ {
				n := []int{0, 1, 2, 3, 9, 33, 64, 65, 100, 257, 300}[r.Intn(11)]
				prof := &gen.Profile{NullProb: []float64{0.1, 0.5, 0.9}[r.Intn(3)], MaxLen: 1 + r.Intn(4), SmallDomain: r.Intn(3) == 0}
				if k == 1 {
					n = 2
					prof.LongLists = true
				}
				rows := e.NewRows(n)
				gen.FillRows(r, rows, prof)
				var all gen.Shredder
				var valTexts []string
				for i := 0; i < n; i++ {
					valTexts = append(valTexts, all.ShredRow(e.Schema, rows.Index(i)))
				}
				expected := all.Cols
				if n == 0 {
					expected = make([][]gen.Triple, len(e.Schema.Columns()))
				}
				nontrivial := false
				for _, c := range expected {
					hasNull, hasVal := false, false
					for _, t := range c {
						hasNull = hasNull || t.Null
						hasVal = hasVal || !t.Null
					}
					nontrivial = nontrivial || (hasNull && hasVal)
				}
				kind := []string{"RowBuffer", "GenericBuffer", "Buffer"}[r.Intn(3)]
				if k < 2 {
					kind = "RowBuffer"
				}
				bridge := []string{"WriteRowGroup", "CopyRows(Rows)", "CopyRows(NewRowGroupRowReader)"}[r.Intn(3)]
				if k < 2 {
					bridge = "CopyRows(NewRowGroupRowReader)"
				}
				valueBuf := []int{1, 2, 3, 7, 170, 256}[r.Intn(6)]
				cfg := gen.RandWriterCfg(r)
				ctx.Case("rg|"+e.Name+"|"+kind+"|"+bridge+"|"+cfg.Desc+"|"+strings.Join(valTexts, "|"), nontrivial)
				ctx.Hist("rowgroup", kind)
				ctx.Hist("bridge", bridge)
				ctx.Hist("valuebuf", fmt.Sprint(valueBuf))
				detail := func(extra map[string]any) map[string]any {
					m := map[string]any{"type": e.Name, "config": cfg.Desc, "rowgroup": kind, "bridge": bridge, "value_buffer": valueBuf, "rows": valTexts}
					if len(valTexts) > 40 {
						m["rows"] = append(append([]string{}, valTexts[:40]...), fmt.Sprintf("... %d rows, regenerate with the run seed", len(valTexts)))
					}
					for k, v := range extra {
						m[k] = v
					}
					return m
				}
				mk := func() (parquet.RowGroup, error) { return c01MakeRowGroup(e, kind, rows) }
				// (a) the page-level view of the row group
				rg, err := mk()
				if err != nil {
					ctx.Fail("L1", "write-error rowgroup="+kind+" "+errClass(err), "writing valid rows into the row group failed: "+err.Error(), detail(nil))
					continue
				}
				got, err := gen.ReadRowGroupColumns(rg, valueBuf)
				if err != nil {
					ctx.Fail("L1", "read-error reader=pages rowgroup="+kind+" "+errClass(err), "reading the pages of the in-memory row group failed: "+err.Error(), detail(nil))
				} else if c, i, desc := firstDiff(expected, got); c != -2 {
					small := "value-buffer>=170"
					if valueBuf < 170 {
						small = "value-buffer<170"
					}
					ctx.Fail("L1", "stream-differs reader=pages rowgroup="+kind+" "+small, fmt.Sprintf("column stream of the in-memory row group differs: column %d entry %d: %s", c, i, desc), detail(nil))
				}
				// (b) into a file and back
				rg, err = mk()
				if err != nil {
					continue
				}
				file, err := c01Bridge(e, rg, bridge, cfg)
				if err != nil {
					ctx.Fail("L1", "write-error rowgroup="+kind+" bridge="+bridge+" "+errClass(err), "moving the row group into a file failed: "+err.Error(), detail(nil))
					continue
				}
				sig := fmt.Sprintf("rowgroup=%s bridge=%s", kind, bridge)
				back, err := e.ReadAll(bytes.NewReader(file), int64(len(file)))
				if err != nil {
					ctx.Fail("L1", "read-error reader=Read[T] "+sig+" "+errClass(err), "parquet.Read[T] failed on a file the writer closed successfully: "+err.Error(), detail(nil))
				} else if ok, diff := gen.CanonEqual(rows, reflect.ValueOf(back), e.Name); !ok {
					ctx.Fail("L1", "rows-differ reader=Read[T] "+sig+" "+diffClass(diff), "rows read back differ from rows written: "+diff, detail(map[string]any{"diff": diff}))
				}
				cols, err := gen.ReadColumns(file)
				if err != nil {
					ctx.Fail("L1", "read-error reader=pages "+sig+" "+errClass(err), "reading pages failed: "+err.Error(), detail(nil))
				} else if c, i, desc := firstDiff(expected, cols); c != -2 {
					ctx.Fail("L1", "stream-differs reader=pages "+sig, fmt.Sprintf("stored column stream differs: column %d entry %d: %s", c, i, desc), detail(nil))
				}
			}
		}(e)
	}
	wg.Wait()
}

func c01MakeRowGroup(e *gen.Entry, kind string, rows reflect.Value) (rg parquet.RowGroup, err error) {
	defer func() {
		if r := recover(); r != nil {
			err = fmt.Errorf("PANIC: %v", r)
		}
	}()
	switch kind {
	case "RowBuffer":
		return e.NewRowBufferOf(rows.Interface())
	case "GenericBuffer":
		return e.NewGenericBuffer(rows.Interface())
	default:
		buf := parquet.NewBuffer(e.Schema)
		for i := 0; i < rows.Len(); i++ {
			if err := buf.Write(rows.Index(i).Addr().Interface()); err != nil {
				return nil, err
			}
		}
		return buf, nil
	}
}

func c01Bridge(e *gen.Entry, rg parquet.RowGroup, bridge string, cfg *gen.WriterCfg) (file []byte, err error) {
	defer func() {
		if r := recover(); r != nil {
			err = fmt.Errorf("PANIC: %v", r)
		}
	}()
	var out bytes.Buffer
	w := parquet.NewWriter(&out, append([]parquet.WriterOption{e.Schema}, cfg.Opts...)...)
	switch bridge {
	case "WriteRowGroup":
		if rg.NumRows() > 0 {
			if _, err := w.WriteRowGroup(rg); err != nil {
				return nil, err
			}
		}
	case "CopyRows(Rows)":
		rows := rg.Rows()
		_, err := parquet.CopyRows(w, rows)
		rows.Close()
		if err != nil {
			return nil, err
		}
	default:
		rows := parquet.NewRowGroupRowReader(rg)
		_, err := parquet.CopyRows(w, rows)
		rows.Close()
		if err != nil {
			return nil, err
		}
	}
	if err := w.Close(); err != nil {
		return nil, err
	}
	return out.Bytes(), nil
}
