package props

// C16, sub-check asyncown (L2 + L1): ownership of the page buffers while the asynchronous page
// reader (asyncPages, page.go) runs, compared call by call with the Lean mirror PqModel.PoolAsync.
//
// One case = one column chunk of a real file opened in ReadModeAsync, driven by a random history of
// ReadPage / SeekToRow / Retain / Release / Close. The verif trace hook of the library records the
// interleaving of the consumer and of the producer goroutine (the log C15 validates against
// PqModel.Async); the harness adds its own Retain / Release calls to that log (VerifAsyncMark) and,
// after every call, waits until the producer goroutine is blocked (offering a page, or exited),
// marks a snapshot point and reads the reference count of the storage of every page the producer has
// ever offered (VerifPageBuffer). The whole log is replayed on the mirror (pqdriver op
// asyncown.run): every event must be a transition of the model and at every snapshot point the
// model's reference counts must equal the library's (L2). Independently of the mirror (L1), the rows
// of every page the application still holds are compared with what they were at hand-over after every
// later call (the poison-on-release hook makes a dangling page deterministic).

import (
	"fmt"
	"strings"
	"sync"
	"time"

	"github.com/parquet-go/parquet-go"

	"verifharness/core"
)

func init() {
	RegisterSub("C16", "asyncown", RunC16AsyncOwn)
}

const c16AsyncOwnRule = "one case = one history of ReadPage/SeekToRow/Retain/Release/Close on the asyncPages reader of a column chunk of a generated file (ReadModeAsync, Gosched/sleep jitter from the trace hook), its recorded interleaving replayed on PqModel.PoolAsync with the reference counts of all page storages compared at every call boundary; distinct by layout + event log; non-trivial = at least two pages offered by the producer, one page delivered to the application and a SeekToRow or an application Retain/Release in the history"

func RunC16AsyncOwn(ctx *core.Ctx) {
	ctx.SetRule(c16AsyncOwnRule)
	c16RunIsolated(ctx, "asyncown", "L2", c16AsyncOwnInProcess)
}

// c16aoOffer is a page the producer offered (first time the describe callback saw the object).
type c16aoOffer struct {
	page parquet.Page
	ok   bool   // backed by refcounted buffers
	id   uint64 // buffer identity
	gen  int    // number of gets of that buffer when the page was offered
	idx  int    // storage number in the model, assigned when the log is replayed
}

type c16aoSession struct {
	mu     sync.Mutex
	gen    map[uint64]int
	seen   map[parquet.Page]int // page -> number of its offer
	offers []*c16aoOffer
	unback bool
}

// fold consumes the pool events recorded since the last call: a get starts a new generation of the buffer.
func (s *c16aoSession) fold() {
	for _, ev := range parquet.VerifPoolTraceTake() {
		if ev.Kind == 'g' && ev.Pool == 'b' {
			s.gen[ev.ID]++
		}
	}
}

func (s *c16aoSession) describe(p parquet.Page, err error) string {
	tok := c15Describe(p, err)
	if p == nil || err != nil {
		return tok
	}
	s.mu.Lock()
	defer s.mu.Unlock()
	if _, ok := s.seen[p]; ok {
		return tok
	}
	s.fold()
	o := &c16aoOffer{page: p, idx: -1}
	if id, _, ok := parquet.VerifPageBuffer(p); ok {
		o.ok, o.id, o.gen = true, id, s.gen[id]
	} else {
		s.unback = true
	}
	s.seen[p] = len(s.offers)
	s.offers = append(s.offers, o)
	return tok
}

// refcounts returns the library's reference count of the storage of every page offered so far
// (0 once the buffer has been handed out again by the pool: the storage of that page is gone).
func (s *c16aoSession) refcounts() []int {
	s.mu.Lock()
	defer s.mu.Unlock()
	s.fold()
	out := make([]int, len(s.offers))
	for i, o := range s.offers {
		if _, refc, ok := parquet.VerifPageBuffer(o.page); ok && s.gen[o.id] == o.gen {
			out[i] = int(refc)
		}
	}
	return out
}

// c16aoQuiet: according to the log, the producer goroutine is blocked (nothing but a call of the
// consumer can make it move) — all buffer operations of the logged events have happened.
func c16aoQuiet(evs []string) bool {
	ppc := "wait"
	initC, doneC, occ := false, false, false
	for _, e := range evs {
		t := e
		if i := strings.IndexByte(e, ':'); i >= 0 {
			t = e[:i]
		}
		switch t {
		case "rb":
			initC = true
		case "ss":
			initC, occ = true, true
		case "spd":
			occ = false
		case "cb":
			initC, doneC = true, true
		case "pi":
			ppc = "poll"
		case "pd", "sd":
			ppc = "final"
		case "pt", "st":
			ppc, occ = "top", false
		case "pe", "bc", "ho", "cr":
			ppc = "top"
		case "bo":
			ppc = "send"
		case "cf":
			ppc = "exited"
		}
	}
	switch ppc {
	case "wait":
		return !initC && !doneC
	case "send":
		return !occ && !doneC
	case "exited":
		return true
	}
	return false
}

// c16aoSim follows the position arithmetic of the wrapped FilePages (file.go SeekToRow / ReadPage with
// an offset index) far enough to tell how many pages one ReadPage decodes and skips before its
// result: the pages skipped replace the reader's lastPage, their storage is never offered.
type c16aoSim struct {
	l       *c15Layout
	lastIdx int // page number of lastPage, -1 none
	index   int // page the stream stands at
	serve   bool
	skip    int64
	pending int64
}

func (m *c16aoSim) rows(i int) int64 {
	if i+1 < len(m.l.starts) {
		return m.l.starts[i+1] - m.l.starts[i]
	}
	return m.l.numRows - m.l.starts[i]
}

func (m *c16aoSim) seek() {
	k := m.pending
	m.pending = -1
	if k < 0 || len(m.l.starts) == 0 {
		return
	}
	t := 0
	for i, s := range m.l.starts {
		if s <= k {
			t = i
		}
	}
	m.skip = k - m.l.starts[t]
	m.serve = false
	if m.lastIdx >= 0 && t == m.lastIdx && m.index == t+1 {
		m.serve = true
		return
	}
	m.index = t
}

func (m *c16aoSim) read() (cached bool, skipped int) {
	if m.serve && m.lastIdx >= 0 {
		m.serve = false
		m.index = m.lastIdx + 1
		if n := m.rows(m.lastIdx); m.skip < n {
			m.skip = 0
			return true, 0
		} else {
			m.skip -= n
		}
	}
	for m.index < len(m.l.starts) {
		m.lastIdx = m.index
		m.index++
		n := m.rows(m.lastIdx)
		if m.skip == 0 {
			return false, skipped
		}
		if n <= m.skip {
			skipped++
			m.skip -= n
			continue
		}
		m.skip = 0
		return false, skipped
	}
	return false, skipped
}

type c16aoHandle struct {
	page  parquet.Page
	offer int // number of the offer, -1 unknown
	refs  int
	rows  []int64
}

type c16aoCase struct {
	req      string
	layout   string
	hist     []string
	snaps    [][]int // library refcounts per offer at every snapshot point
	apps     [][]int // application references per offer at every snapshot point
	after    []string
	events   []string
	skipped  string
	rep      map[int]int // storage -> number of an offer on it
	offerIdx []int       // offer -> storage
}

func c16AsyncOwnInProcess(ctx *core.Ctx) {
	d := ctx.Driver()
	if d == nil {
		return
	}
	defer d.Close()
	r := ctx.Rand("asyncown")
	n := ctx.Scale(500, 5000)
	var cases []*c16aoCase
	var file *c15File
	deadline := time.Now().Add(time.Duration(ctx.Scale(20, 240)) * time.Second)
	for k := 0; k < n && time.Now().Before(deadline); k++ {
		if file == nil || k%6 == 0 {
			f, err := c15MakeFile(r, false)
			if err != nil {
				ctx.Fail("L2", "asyncown-file-setup", "cannot build the file: "+err.Error(), nil)
				return
			}
			file = f
		}
		col := r.Intn(len(file.layouts))
		l := file.layouts[col]
		sess := &c16aoSession{gen: map[uint64]int{}, seen: map[parquet.Page]int{}}
		jitter := []int{0, 0, 30, 120, 300}[r.Intn(5)]
		parquet.VerifPoolTraceStart()
		parquet.VerifAsyncTraceStart(sess.describe, ctx.Seed*104729+int64(k), jitter)
		pages := file.async.RowGroups()[0].ColumnChunks()[col].Pages()
		c := &c16aoCase{layout: l.tokens()}
		var handles []*c16aoHandle
		failed := false
		point := func(op string) bool {
			limit := time.Now().Add(10 * time.Second)
			for {
				evs, ok := parquet.VerifAsyncLogSnapshot(pages)
				if !ok {
					c.skipped = "not-an-asyncPages-instance"
					return false
				}
				if c16aoQuiet(evs) {
					break
				}
				if time.Now().After(limit) {
					ctx.Fail("L2", "asyncown-producer-not-quiescent", "the producer goroutine of asyncPages did not reach a blocked state within 10 s after a call returned", map[string]any{"layout": c.layout, "history": c.hist, "events": strings.Join(evs, ",")})
					return false
				}
				time.Sleep(5 * time.Microsecond)
			}
			parquet.VerifAsyncMark(pages, "q")
			rc := sess.refcounts()
			app := make([]int, len(rc))
			for _, h := range handles {
				if h.offer >= 0 && h.offer < len(app) {
					app[h.offer] += h.refs
				}
			}
			c.snaps, c.apps, c.after = append(c.snaps, rc), append(c.apps, app), append(c.after, op)
			// L1: what the application holds still reads as it did at hand-over
			for _, h := range handles {
				if h.refs == 0 {
					continue
				}
				now := c15PageRows(h.page)
				if fmt.Sprint(now) != fmt.Sprint(h.rows) {
					failed = true
					ctx.Fail("L1", "async-held-page-changed-after:"+strings.SplitN(op, "(", 2)[0], "a page returned by ReadPage of the asynchronous reader, still held by the application, no longer shows the rows it showed at hand-over", map[string]any{"layout": c.layout, "history": c.hist, "rows_at_handover": h.rows, "rows_now": now})
					return false
				}
			}
			return true
		}
		closed := false
		nops := 5 + r.Intn(16)
		for opi := 0; opi < nops && !failed; opi++ {
			var op string
			switch ch := r.Intn(10); {
			case ch <= 3 || opi == 0 && ch <= 6:
				p, err := pages.ReadPage()
				op = fmt.Sprintf("ReadPage->%v", err == nil)
				if err == nil && p != nil {
					sess.mu.Lock()
					on, ok := sess.seen[p]
					sess.mu.Unlock()
					if !ok {
						on = -1
					}
					handles = append(handles, &c16aoHandle{page: p, offer: on, refs: 1, rows: c15PageRows(p)})
				}
			case ch <= 5:
				row := int64(r.Intn(int(l.numRows) + 1))
				if r.Intn(6) == 0 {
					row = l.numRows // behind the last row: the wrapped ReadPage decodes and skips the last page
				}
				pages.SeekToRow(row)
				op = fmt.Sprintf("SeekToRow(%d)", row)
			case ch == 6 && len(handles) > 0:
				h := handles[r.Intn(len(handles))]
				if h.refs == 0 || h.offer < 0 {
					continue
				}
				parquet.Retain(h.page)
				h.refs++
				parquet.VerifAsyncMark(pages, fmt.Sprintf("at@%d", h.offer))
				op = fmt.Sprintf("Retain(offer %d)", h.offer)
			case ch <= 8 && len(handles) > 0:
				h := handles[r.Intn(len(handles))]
				if h.refs == 0 || h.offer < 0 {
					continue
				}
				parquet.Release(h.page)
				h.refs--
				parquet.VerifAsyncMark(pages, fmt.Sprintf("ar@%d", h.offer))
				op = fmt.Sprintf("Release(offer %d)", h.offer)
			case ch == 9 && opi > 2 && !closed:
				pages.Close()
				closed = true
				op = "Close"
			default:
				continue
			}
			c.hist = append(c.hist, op)
			if r.Intn(3) == 0 {
				// no call boundary here: the next call runs while the producer goroutine is still busy
				// (a ReadPage right after a SeekToRow may receive the stale prefetched page and drop it)
				c.hist = append(c.hist, "(no wait)")
				continue
			}
			if !point(op) {
				failed = true
			}
		}
		// Close while pages are still held, then let go of them
		if !failed && !closed {
			pages.Close()
			c.hist = append(c.hist, "Close")
			failed = !point("Close")
		}
		for _, h := range handles {
			for !failed && h.refs > 0 && h.offer >= 0 {
				parquet.Release(h.page)
				h.refs--
				parquet.VerifAsyncMark(pages, fmt.Sprintf("ar@%d", h.offer))
				c.hist = append(c.hist, fmt.Sprintf("Release(offer %d)", h.offer))
				failed = !point("Release")
			}
		}
		if failed && !closed {
			pages.Close()
		}
		logs := parquet.VerifAsyncTraceStop()
		parquet.VerifPoolTraceStop()
		if failed || c.skipped != "" {
			ctx.Hist("asyncown-skipped", c.skipped)
			continue
		}
		if sess.unback {
			ctx.Hist("asyncown-skipped", "page-without-refcounted-buffers")
			continue
		}
		if len(logs) != 1 {
			ctx.Fail("L2", "asyncown-instance-count", fmt.Sprintf("recorded %d asyncPages instances for one column chunk reader", len(logs)), map[string]any{"layout": c.layout, "history": c.hist})
			continue
		}
		// the i-th offer of a page in the log is the i-th page the describe callback saw first; the
		// storages are numbered as the mirror numbers them: one per page the wrapped reader decodes
		// (skipped pages included), in order
		evs := append([]string(nil), logs[0].Events...)
		oi, cachedN, drops, takes, delivered, appops, skippedN := 0, 0, 0, 0, 0, 0, 0
		okMap := true
		sim := c16aoSim{l: l, lastIdx: -1, pending: -1}
		nb, lastSt := 0, -1 // storages so far, storage held by the wrapped reader's lastPage
		type stKey struct {
			id  uint64
			gen int
		}
		keyOf := map[int]stKey{} // storage -> buffer generation, once a page on it has been offered
		rep := map[int]int{}     // storage -> number of an offer on it
		simBad := ""
		for i, e := range evs {
			switch {
			case strings.HasPrefix(e, "pt:"), strings.HasPrefix(e, "st:"):
				var k, v int64
				fmt.Sscanf(e[3:], "%d:%d", &k, &v)
				sim.pending = k
				if e[0] == 's' {
					takes++
				}
			case e == "bc":
				sim.seek()
			case strings.HasPrefix(e, "bo:"):
				res := strings.SplitN(e[3:], ":", 2)[0]
				if res != "eof" && res[0] != 'p' {
					break // a failed seek or a sticky error: the wrapped ReadPage is not called
				}
				cached, skipped := sim.read()
				if res == "eof" {
					if skipped > 0 {
						evs[i] = fmt.Sprintf("bos%d:%s", skipped, e[3:])
						skippedN += skipped
						nb += skipped
						lastSt = nb - 1
					}
					break
				}
				if oi >= len(sess.offers) {
					okMap = false
					break
				}
				o := sess.offers[oi]
				key := stKey{o.id, o.gen}
				if cached && lastSt >= 0 {
					o.idx = lastSt
					evs[i] = "boc:" + e[3:]
					cachedN++
					if k, known := keyOf[lastSt]; known && k != key {
						simBad = fmt.Sprintf("offer %d (%s): the layout says it is served from the cache, its buffer is not the cached page's", oi, e)
					}
				} else {
					nb += skipped
					o.idx = nb
					nb++
					if k, known := keyOf[lastSt]; known && k == key {
						simBad = fmt.Sprintf("offer %d (%s): the layout says it is decoded, its buffer is the cached page's", oi, e)
					}
					lastSt = o.idx
					if skipped > 0 {
						evs[i] = fmt.Sprintf("bos%d:%s", skipped, e[3:])
						skippedN += skipped
					}
				}
				keyOf[o.idx] = key
				if _, ok := rep[o.idx]; !ok {
					rep[o.idx] = oi
				}
				oi++
			case strings.HasPrefix(e, "dr:"):
				drops++
			case strings.HasPrefix(e, "dl:p"):
				delivered++
			case strings.HasPrefix(e, "at@"), strings.HasPrefix(e, "ar@"):
				appops++
				var on int
				fmt.Sscan(e[3:], &on)
				if on < 0 || on >= len(sess.offers) || sess.offers[on].idx < 0 {
					okMap = false
					break
				}
				evs[i] = fmt.Sprintf("%s%d", e[:2], sess.offers[on].idx)
			}
		}
		if simBad != "" {
			ctx.Fail("L2", "asyncown-harness-layout-arithmetic", "the harness's replay of the FilePages position arithmetic (which pages are served from the cache / skipped) disagrees with the buffers observed: "+simBad, map[string]any{"layout": c.layout, "history": c.hist, "events": strings.Join(evs, ",")})
			continue
		}
		c.rep = rep
		for _, o := range sess.offers {
			c.offerIdx = append(c.offerIdx, o.idx)
		}
		if !okMap || oi != len(sess.offers) {
			ctx.Fail("L2", "asyncown-offer-count", fmt.Sprintf("%d page offers in the log, %d pages seen by the describe callback", oi, len(sess.offers)), map[string]any{"layout": c.layout, "history": c.hist, "events": strings.Join(evs, ",")})
			continue
		}
		c.events = evs
		c.req = "asyncown.run " + c.layout + " " + strings.Join(evs, ",")
		seeks := strings.Count(c.req, ",ss:")
		c16Count(ctx, "asyncown|"+c.req, oi >= 2 && delivered >= 1 && (seeks > 0 || appops > 0))
		ctx.Hist("asyncown-offers", c16Bucket(oi))
		ctx.Hist("asyncown-cached-offers", c16Bucket(cachedN))
		ctx.Hist("asyncown-pages-skipped-inside-ReadPage", c16Bucket(skippedN))
		ctx.Hist("asyncown-stale-drops", c16Bucket(drops))
		ctx.Hist("asyncown-producer-seek-takes", c16Bucket(takes))
		ctx.Hist("asyncown-app-retain-release", c16Bucket(appops))
		ctx.Hist("asyncown-jitter", fmt.Sprint(jitter))
		ctx.Hist("asyncown-snapshots", c16Bucket(len(c.snaps)))
		if len(cases) < 2 {
			ctx.Sample(map[string]any{"asyncown": c.layout, "history": c.hist, "events": strings.Join(evs, ",")})
		}
		cases = append(cases, c)
	}
	reqs := make([]string, len(cases))
	for i, c := range cases {
		reqs[i] = c.req
	}
	answers, err := d.AskMany(reqs)
	if err != nil {
		ctx.Fail("L2", "driver-error", err.Error(), nil)
		return
	}
	for i, c := range cases {
		ans := answers[i]
		det := map[string]any{"layout": c.layout, "history": c.hist, "events": strings.Join(c.events, ","), "model": c16Trunc(ans),
			"replay": "pqdriver: " + c.req}
		if strings.HasPrefix(ans, "illegal ") {
			var at int
			fmt.Sscan(strings.TrimPrefix(ans, "illegal "), &at)
			ev := "?"
			if at < len(c.events) {
				ev = strings.SplitN(c.events[at], ":", 2)[0]
			}
			det["index"] = at
			ctx.Fail("L2", "asyncown-illegal-step:"+ev, "the recorded interleaving of asyncPages with the application's Retain/Release calls is not a path of PqModel.PoolAsync (first event the model does not allow)", det)
			continue
		}
		if !strings.HasPrefix(ans, "ok ") {
			ctx.Fail("L2", "asyncown-bad-answer", ans, det)
			continue
		}
		outs := strings.Split(strings.TrimPrefix(ans, "ok "), ";")
		if ans == "ok -" {
			outs = nil
		}
		if len(outs) != len(c.snaps) {
			ctx.Fail("L2", "asyncown-snapshot-count", fmt.Sprintf("%d model snapshots for %d call boundaries", len(outs), len(c.snaps)), det)
			continue
		}
		for j, o := range outs {
			parts := strings.Split(o, "|")
			if len(parts) != 5 {
				ctx.Fail("L2", "asyncown-bad-answer", o, det)
				break
			}
			opk := strings.SplitN(c.after[j], "(", 2)[0]
			opk = strings.SplitN(opk, "->", 2)[0]
			if parts[0] != "0" {
				det["call"], det["op"] = j, c.after[j]
				ctx.Fail("L2", "asyncown-model-bug-after:"+opk, "the mirror reached a state in which a reference count was decremented below zero or a released storage was referenced, on an interleaving the library performed", det)
				break
			}
			model := strings.Split(parts[1], ",")
			modelApp := strings.Split(parts[2], ",")
			if parts[1] == "-" {
				model, modelApp = nil, nil
			}
			var impl, mdl, implApp, mdlApp []string
			known := 0
			for st := range model {
				on, ok := c.rep[st]
				if !ok || on >= len(c.snaps[j]) {
					// a page decoded and skipped inside the wrapped ReadPage (never offered so far): the
					// harness has no handle on its storage
					impl, mdl, implApp, mdlApp = append(impl, "?"), append(mdl, "?"), append(implApp, "?"), append(mdlApp, "?")
					continue
				}
				known++
				app := 0
				for k, n := range c.apps[j] {
					if k < len(c.snaps[j]) && c.offerIdx[k] == st {
						app += n
					}
				}
				impl, mdl = append(impl, fmt.Sprint(c.snaps[j][on])), append(mdl, model[st])
				implApp, mdlApp = append(implApp, fmt.Sprint(app)), append(mdlApp, modelApp[st])
			}
			seenSt := map[int]bool{}
			for k := range c.snaps[j] {
				seenSt[c.offerIdx[k]] = true
			}
			if len(seenSt) != known {
				det["call"], det["op"] = j, c.after[j]
				ctx.Fail("L2", "asyncown-storage-count-after:"+opk, fmt.Sprintf("the library has offered pages on %d storages, the mirror knows %d of them", len(seenSt), known), det)
				break
			}
			if strings.Join(impl, ",") != strings.Join(mdl, ",") {
				det["call"], det["op"] = j, c.after[j]
				det["impl_refcounts"], det["model_refcounts"] = strings.Join(impl, ","), parts[1]
				ctx.Fail("L2", "asyncown-refcounts-differ-after:"+opk, "reference counts of the page storages at a call boundary (producer goroutine blocked) differ from the mirror's (producer's page / consumer's page / lastPage of the wrapped reader / application)", det)
				break
			}
			if strings.Join(implApp, ",") != strings.Join(mdlApp, ",") {
				det["call"], det["op"] = j, c.after[j]
				det["impl_app_refs"], det["model_app_refs"] = strings.Join(implApp, ","), parts[2]
				ctx.Fail("L2", "asyncown-app-refs-differ-after:"+opk, "the references the application holds differ from the mirror's ghost count", det)
				break
			}
		}
	}
}
