package props

import (
	"encoding/hex"
	"fmt"
	"math/rand"
	"reflect"
	"strings"
	"sync"

	"github.com/parquet-go/parquet-go"

	"verifharness/core"
	"verifharness/gen"
)

// C17 "mirror" (L2): the Lean mirror of writer.reset / ColumnWriter.reset / RowGroup.Reset
// (lean/PqModel/Reset.lean, driver op reset.run) against the real writer. A real Writer is driven
// through a history; Write effects are taken from the real state (the model takes any effect),
// and after every step the model's observation must equal the real one: which fields a flush,
// a close and a Reset clear, what the shared slices read afterwards.
func init() { RegisterSub("C17", "mirror", RunC17Mirror) }

type c17ObsT struct {
	raw  string
	f    map[string]string
	cols [][]string
}

func c17ParseObs(s string) c17ObsT {
	o := c17ObsT{raw: s, f: map[string]string{}}
	for _, tok := range strings.Fields(s) {
		if i := strings.IndexByte(tok, '='); i > 0 {
			o.f[tok[:i]] = tok[i+1:]
		}
	}
	if c := o.f["cols"]; c != "" {
		for _, col := range strings.Split(c, ";") {
			o.cols = append(o.cols, strings.Split(col, "|"))
		}
	}
	return o
}

func (o c17ObsT) n(k string) int {
	v := 0
	fmt.Sscanf(o.f[k], "%d", &v)
	return v
}

var c17ColFields = []string{"columnPath", "chunk.PathInSchema", "encodings", "chunk.Encoding", "columnType", "encoding",
	"hasSwitchedToPlain", "onPlainBuffer", "buffered", "plainBuffered", "dictionary", "pageBuffer", "numPages", "filter",
	"numRows", "numValues", "totalCompressedSize", "pageLocations", "bloomFilterLength", "levelHistograms", "geospatialStatistics"}

// effs renders the per-column volatile state as the effect list of a `w` op
func (o c17ObsT) effs(rowsOverride string) string {
	var es []string
	for _, c := range o.cols {
		if len(c) != len(c17ColFields) {
			return "?"
		}
		e := []string{c[6], c[7], c[4], c[5], c[8], c[9], c[10], c[11], c[12], c[13], c[14], c[15], c[16], c[17], c[18], c[20]}
		if rowsOverride != "" {
			e[10] = rowsOverride
		}
		if c[19] != "-" {
			e = append(e, c[19])
		}
		es = append(es, strings.Join(e, ","))
	}
	return strings.Join(es, "/")
}

func c17FirstObsDiff(a, b c17ObsT) string {
	for _, k := range []string{"rows", "off", "md", "sort", "rgs", "cis", "ois", "def", "fmd"} {
		if a.f[k] != b.f[k] {
			return k
		}
	}
	if len(a.cols) != len(b.cols) {
		return "column-count"
	}
	for i := range a.cols {
		for j := range a.cols[i] {
			if j >= len(b.cols[i]) || a.cols[i][j] != b.cols[i][j] {
				if j < len(c17ColFields) {
					return "column-" + c17ColFields[j]
				}
				return "column-field"
			}
		}
	}
	return "text"
}

func RunC17Mirror(ctx *core.Ctx) {
	d := ctx.Driver()
	if d == nil {
		return
	}
	name, err := d.Ask("reset.mirror")
	if err != nil {
		ctx.Fail("L2", "driver-error", err.Error(), nil)
		return
	}
	name = strings.TrimPrefix(name, "ok ")
	ctx.Hist("mirror", name)
	ctx.SetRule(c17Rule)
	ncases := ctx.Scale(6, 24)
	type pending struct {
		req    string
		real   string
		detail map[string]any
	}
	var mu sync.Mutex
	var all []pending
	var wg sync.WaitGroup
	sem := make(chan struct{}, 16)
	for _, e := range gen.WithGeo() {
		wg.Add(1)
		sem <- struct{}{}
		go func(e *gen.Entry) {
			defer wg.Done()
			defer func() { <-sem }()
			r := ctx.Rand("c17m/" + e.Name)
			for k := 0; k < ncases; k++ {
				ps := c17MirrorCase(ctx, e, r)
				mu.Lock()
				for _, p := range ps {
					all = append(all, pending{p.req, p.real, p.detail})
				}
				mu.Unlock()
			}
		}(e)
	}
	wg.Wait()
	reqs := make([]string, len(all))
	for i, p := range all {
		reqs[i] = p.req
	}
	for lo := 0; lo < len(reqs); lo += 5000 {
		hi := lo + 5000
		if hi > len(reqs) {
			hi = len(reqs)
		}
		ans, err := d.AskMany(reqs[lo:hi])
		if err != nil {
			ctx.Fail("L2", "driver-error", err.Error(), nil)
			return
		}
		for i, a := range ans {
			p := all[lo+i]
			if a == "ok "+p.real {
				continue
			}
			field := "bad-answer"
			if strings.HasPrefix(a, "ok ") {
				field = c17FirstObsDiff(c17ParseObs(p.real), c17ParseObs(a[3:]))
			}
			p.detail["real"], p.detail["model"], p.detail["request"] = p.real, a, p.req
			ctx.Fail("L2", "reset-mirror "+name+" "+p.detail["after"].(string)+" "+field,
				"the Lean mirror of the writer's reset logic and the real writer disagree on "+field+" after "+p.detail["after"].(string), p.detail)
		}
	}
}

type c17Pending struct {
	req    string
	real   string
	detail map[string]any
}

// one real writer under a random history; returns the model requests to check
func c17MirrorCase(ctx *core.Ctx, e *gen.Entry, r *rand.Rand) (out []c17Pending) {
	n := []int{1, 2, 3, 9, 33, 64, 65, 100}[r.Intn(8)]
	rows := c17GenRows(r, e, n, r.Intn(2) == 0)
	cfg := c17RandCfg(r, e)
	var w *parquet.Writer
	first := &c17Sink{failAfter: -1}
	if r.Intn(4) == 0 {
		// around the 4-byte file header (a Close that fails there keeps the rows), and anywhere
		first.failAfter = []int{0, 1, 3, 4, 5, r.Intn(300), r.Intn(300), r.Intn(3000)}[r.Intn(8)]
		if first.failAfter < 8 && r.Intn(2) == 0 { // no write buffer: the header write itself fails
			c2 := *cfg
			c2.writeBuf0 = true
			c2.desc += " +writebuf=0"
			cfg = &c2
		}
	}
	if err := c17Guard(func() error {
		w = parquet.NewWriter(first, append([]parquet.WriterOption{e.Schema}, cfg.opts()...)...)
		return nil
	}); err != nil {
		ctx.Hist("mirror-skipped", errClass(err))
		return nil
	}
	cols := parquet.VerifColumnConfig(w)
	fresh := c17ParseObs(parquet.VerifWriterObservation(w))
	var ops []string
	var human []string
	emit := func(after string) {
		real := parquet.VerifWriterObservation(w)
		if after == "Reset" {
			cleared := "no"
			for _, c := range c17ParseObs(real).cols {
				if c[0] == "-" || strings.HasPrefix(c[0], "-.") || strings.Contains(c[0], ".-") {
					cleared = "yes (F10)"
				}
			}
			ctx.Hist("mirror-real-column-path-cleared-after-reset", cleared)
		}
		opsText := "-"
		if len(ops) > 0 {
			opsText = strings.Join(ops, ";")
		}
		req := fmt.Sprintf("reset.run current %s %s %s %s", cols, fresh.f["sort"], fresh.f["md"], opsText)
		out = append(out, c17Pending{req, real, map[string]any{"type": e.Name, "config": cfg.desc, "rows": n,
			"history": append([]string{}, human...), "after": after, "first_sink_fails_after": first.failAfter}})
	}
	ctx.Case("mirror|"+e.Name+"|"+cfg.desc+"|"+strings.Join(c17RowTexts(e, rows), "|"), true)
	emit("construction")
	pos := 0
	nops := 2 + r.Intn(7)
	for i := 0; i < nops; i++ {
		before := c17ParseObs(parquet.VerifWriterObservation(w))
		kind := r.Intn(10)
		if i == nops-1 {
			kind = 9 // every history ends in a Reset
		}
		var what string
		var perr error
		switch {
		case kind < 4: // write
			k := 1 + r.Intn(n)
			lo, hi := pos%n, pos%n+k
			if hi > n {
				hi = n
			}
			pos = hi
			what = fmt.Sprintf("write %d rows", hi-lo)
			perr = c17Guard(func() error { return c17Reflect{w}.write(rows, lo, hi) })
			after := c17ParseObs(parquet.VerifWriterObservation(w))
			// row groups committed by the write itself (MaxRowsPerRowGroup): write+flush pairs
			nd := after.n("def") - before.n("def")
			for g := before.n("rgs"); g < after.n("rgs"); g++ {
				ops = append(ops, "w:1:"+after.effs("1"), fmt.Sprintf("f:C:%s:%d", after.f["off"], nd))
				nd = 0
			}
			if after.n("rgs") == before.n("rgs") && (after.f["off"] != before.f["off"] || nd != 0) {
				// a flush inside the write that failed (sink error)
				ops = append(ops, "w:1:"+after.effs("1"), fmt.Sprintf("f:F%d:%s:%d", len(after.cols), after.f["off"], nd))
			}
			ops = append(ops, fmt.Sprintf("w:%s:%s", after.f["rows"], after.effs("")))
		case kind < 6: // flush
			what = "flush"
			perr = c17Guard(w.Flush)
			after := c17ParseObs(parquet.VerifWriterObservation(w))
			k := fmt.Sprintf("F%d", len(after.cols))
			if after.n("rgs") > before.n("rgs") {
				k = "C"
			}
			ops = append(ops, fmt.Sprintf("f:%s:%s:%d", k, after.f["off"], after.n("def")-before.n("def")))
		case kind < 8: // close
			what = "close"
			perr = c17Guard(w.Close)
			after := c17ParseObs(parquet.VerifWriterObservation(w))
			k := fmt.Sprintf("F%d", len(after.cols))
			if after.n("rgs") > before.n("rgs") {
				k = "C"
			}
			nd := after.n("def") - before.n("def")
			if nd < 0 {
				nd = 0
			}
			if perr != nil && before.f["off"] == "0" && after.n("off") < 4 {
				// Close starts with the 4-byte file header when nothing has been written yet; a sink
				// that takes fewer than 4 bytes (no write buffer in between) fails it there, before
				// the flush: the writer keeps its rows and pages (writer.go (*writer).close)
				// first every column writer closes (its rows become a page: a write-like effect)
				ops = append(ops, "ch:"+after.f["off"]+":"+after.effs(""))
				ctx.Hist("mirror-close-failed-at-file-header", "yes")
				break
			}
			ops = append(ops, fmt.Sprintf("c:%s:%s:%d:%s:%s", k, after.f["off"], nd, after.f["fmd"], after.f["off"]))
		case kind < 9: // SetKeyValueMetadata
			key, val := fmt.Sprintf("k%d", r.Intn(3)), fmt.Sprint(r.Intn(100))
			if len(cfg.kv) > 0 && r.Intn(2) == 0 {
				key = cfg.kv[r.Intn(len(cfg.kv))][0]
			}
			what = "SetKeyValueMetadata " + key
			w.SetKeyValueMetadata(key, val)
			ops = append(ops, "k:"+hex.EncodeToString([]byte(key))+":"+hex.EncodeToString([]byte(val)))
		default:
			what = "Reset"
			s := &c17Sink{failAfter: -1}
			if r.Intn(4) == 0 {
				s.failAfter = r.Intn(300)
			}
			perr = c17Guard(func() error { w.Reset(s); return nil })
			ops = append(ops, "r")
		}
		if perr != nil {
			what += " (" + errClass(perr) + ")"
			if strings.HasPrefix(perr.Error(), "PANIC") {
				ctx.Hist("mirror-history-panic", errClass(perr))
				return out
			}
		}
		human = append(human, what)
		ctx.Hist("mirror-op", strings.Fields(what)[0])
		emit(strings.Fields(what)[0])
	}
	return out
}

var _ = reflect.Value{}
