package props

// C07 sub-check "multi": the bloom filter of a column of a row group made of several file row groups
// (parquet.MultiRowGroup, nested, or the unsorted MergeRowGroups view), with working and with failing
// storage.
//
// L1 (the property; oracle independent of the mirror): every non-null value written to a member row
// group's column chunk, checked against the combined filter,
//   * gives (true, nil) when every storage works;
//   * never gives (false, nil) — "absent" — when the storage of the member holding the value fails at
//     Check time (filter bits are fetched from the file by Check; with SkipBloomFilters the header too):
//     an I/O error is not an answer "absent". The same is required of the member's own filter.
// L2: the combined answer equals the Lean mirror of multiBloomFilter.Check (`bloom.multi`) applied to
// the answers the members give individually (member order = order of the row groups in the view).
//
// Members without a filter on the column are outside the property ("every column configured with a
// bloom filter"): what the combined filter says about their values is recorded as an observation.

import (
	"bytes"
	"crypto/sha256"
	"errors"
	"fmt"
	"io"
	"strings"
	"sync"
	"sync/atomic"
	"time"

	"github.com/parquet-go/parquet-go"

	"verifharness/core"
)

var errC07Fault = errors.New("c07: injected storage fault")

// c07FaultReader is the storage of one member file. Until armed it is a plain reader; afterwards the
// reads selected by the mode fail:
//
//	all        every ReadAt returns (0, fault)
//	regions    a ReadAt that intersects a bloom filter section returns (0, fault)
//	short-eof  a ReadAt that intersects a bloom filter section returns half the bytes and io.EOF
//	           (a truncated object)
type c07FaultReader struct {
	data    []byte
	armed   atomic.Bool
	mode    string
	regions [][2]int64
	faults  atomic.Int64
}

func (f *c07FaultReader) hits(off int64, n int) bool {
	for _, r := range f.regions {
		if off < r[1] && off+int64(n) > r[0] {
			return true
		}
	}
	return false
}

func (f *c07FaultReader) ReadAt(p []byte, off int64) (int, error) {
	if f.armed.Load() && (f.mode == "all" || f.hits(off, len(p))) {
		f.faults.Add(1)
		if f.mode == "short-eof" {
			if off >= int64(len(f.data)) {
				return 0, io.EOF
			}
			n := copy(p[:len(p)/2], f.data[off:])
			return n, io.EOF
		}
		return 0, errC07Fault
	}
	if off >= int64(len(f.data)) {
		return 0, io.EOF
	}
	n := copy(p, f.data[off:])
	if n < len(p) {
		return n, io.EOF
	}
	return n, nil
}

type c07MrgCase struct {
	Index   int        `json:"index"`
	View    string     `json:"view"` // multi | nested | merge
	Cols    []c07Col   `json:"cols"`
	Members []*c07Case `json:"members"` // one file each (possibly several row groups)
	Order   []int      `json:"row_group_order"`
	Fault   string     `json:"fault_mode"`
	FaultOn int        `json:"fault_on_member"`
}

func c07GenMulti(ctx *core.Ctx, index int) *c07MrgCase {
	r := ctx.Rand(fmt.Sprintf("multi/%d", index))
	mc := &c07MrgCase{Index: index}
	mc.View = []string{"multi", "multi", "nested", "merge"}[r.Intn(4)]
	nc := 1 + r.Intn(3)
	for i := 0; i < nc; i++ {
		c := c07GenCol(r, i)
		if c.Null == 100 {
			c.Null = 50
		}
		mc.Cols = append(mc.Cols, c)
	}
	k := 2 + r.Intn(3)
	noFilter := -1
	if r.Intn(10) == 0 {
		noFilter = r.Intn(k)
	}
	pagev := 1 + r.Intn(2)
	for m := 0; m < k; m++ {
		cs := &c07Case{Index: index*8 + m, Path: "rows", Cols: mc.Cols}
		o := &cs.Opts
		o.MaxRows = []int64{0, 0, 0, 50}[r.Intn(4)]
		o.PageBuf = []int{0, 0, 64}[r.Intn(3)]
		o.PageV = pagev
		o.DictMax = []int64{0, 0, 0, 64}[r.Intn(4)]
		o.BloomComp = []string{"", "", "gzip", "uncompressed"}[r.Intn(4)]
		o.Deferred = r.Intn(4) == 0
		o.OpenMode = []string{"default", "default", "skip", "skip", "prefetch"}[r.Intn(5)]
		if r.Intn(8) == 0 {
			o.Encrypt = []string{"footer", "plain-footer", "column-keys"}[r.Intn(3)]
		}
		if m == noFilter {
			o.NoBloom = true
		}
		o.Batch = 64
		cs.N = []int{1, 2, 8, 9, 33, 64, 100, 120}[r.Intn(8)]
		cs.rows = c07GenRows(r, mc.Cols, cs.N)
		mc.Members = append(mc.Members, cs)
	}
	mc.Fault = []string{"all", "all", "regions", "regions", "short-eof"}[r.Intn(5)]
	mc.FaultOn = r.Intn(k)
	mc.Order = r.Perm(64) // row groups of the view are taken in this order (restricted to their number)
	return mc
}

func (mc *c07MrgCase) describe(seed int64) map[string]any {
	ms := make([]map[string]any, len(mc.Members))
	for i, m := range mc.Members {
		ms[i] = map[string]any{"rows": m.N, "opts": m.Opts}
	}
	return map[string]any{"seed": seed, "multi_case": map[string]any{"index": mc.Index}, "view": mc.View, "cols": mc.Cols,
		"members": ms, "fault_mode": mc.Fault, "fault_on_member": mc.FaultOn,
		"regenerate": fmt.Sprintf("rows derive from ctx.Rand(\"multi/%d\")", mc.Index)}
}

// one member row group of the view
type c07Member struct {
	file  int // index of the member file
	rg    parquet.RowGroup
	rows  [][][]c07Val
	where string
}

// open every member file (file `faulty` through a fault reader, not yet armed) and list the member row groups
func (mc *c07MrgCase) open(datas [][]byte, faulty int) ([]c07Member, *c07FaultReader, error) {
	var members []c07Member
	var fr *c07FaultReader
	for i, cs := range mc.Members {
		var fopts []parquet.FileOption
		switch cs.Opts.OpenMode {
		case "skip":
			fopts = append(fopts, parquet.SkipBloomFilters(true))
		case "prefetch":
			fopts = append(fopts, parquet.PrefetchBloomFilters(true))
		}
		if cs.Opts.Encrypt != "" {
			fopts = append(fopts, parquet.WithDecryption(c07Keys{}))
		}
		var ra io.ReaderAt = bytes.NewReader(datas[i])
		var mine *c07FaultReader
		if i == faulty {
			mine = &c07FaultReader{data: datas[i], mode: mc.Fault}
			ra, fr = mine, mine
		}
		f, err := parquet.OpenFile(ra, int64(len(datas[i])), fopts...)
		if err != nil {
			return nil, nil, fmt.Errorf("member %d: %w", i, err)
		}
		if mine != nil {
			for _, rg := range f.Metadata().RowGroups {
				for _, c := range rg.Columns {
					if off := c.MetaData.BloomFilterOffset; off > 0 {
						n := int64(c.MetaData.BloomFilterLength)
						if n <= 0 {
							n = 1 << 20
						}
						mine.regions = append(mine.regions, [2]int64{off, off + n})
					}
				}
			}
		}
		off := 0
		for rgi, rg := range f.RowGroups() {
			n := int(rg.NumRows())
			if off+n > len(cs.rows) {
				return nil, nil, fmt.Errorf("member %d holds more rows than were written", i)
			}
			members = append(members, c07Member{file: i, rg: rg, rows: cs.rows[off : off+n], where: fmt.Sprintf("file %d row group %d", i, rgi)})
			off += n
		}
		if off != len(cs.rows) {
			return nil, nil, fmt.Errorf("member %d holds %d rows, %d were written", i, off, len(cs.rows))
		}
	}
	// order of the view
	var ordered []c07Member
	for _, k := range mc.Order {
		if k < len(members) {
			ordered = append(ordered, members[k])
		}
	}
	for k := len(mc.Order); k < len(members); k++ {
		ordered = append(ordered, members[k])
	}
	return ordered, fr, nil
}

func (mc *c07MrgCase) view(members []c07Member) (parquet.RowGroup, error) {
	rgs := make([]parquet.RowGroup, len(members))
	for i, m := range members {
		rgs[i] = m.rg
	}
	switch mc.View {
	case "merge":
		return parquet.MergeRowGroups(rgs)
	case "nested":
		if len(rgs) >= 3 {
			return parquet.MultiRowGroup(parquet.MultiRowGroup(rgs[:2]...), parquet.MultiRowGroup(rgs[2:]...)), nil
		}
	}
	return parquet.MultiRowGroup(rgs...), nil
}

// answer token of the driver protocol: `n` no filter, else <ok><err>; with an error the boolean is
// whatever the pooled block held (not deterministic): canonically 0
func c07AnsTok(bf parquet.BloomFilter, v parquet.Value) string {
	if bf == nil {
		return "n"
	}
	ok, err := bf.Check(v)
	if err != nil {
		return "01"
	}
	if ok {
		return "10"
	}
	return "00"
}

func c07DistinctValues(col c07Col, ci int, rows [][][]c07Val, limit int) []c07Val {
	seen := map[string]bool{}
	var out []c07Val
	for _, row := range rows {
		for _, v := range row[ci] {
			t := col.token(v)
			if !seen[t] {
				seen[t] = true
				out = append(out, v)
				if len(out) >= limit {
					return out
				}
			}
		}
	}
	return out
}

func c07RunMulti(ctx *core.Ctx, b *c07Batch, mc *c07MrgCase) {
	ctx.Hist("multi.view", mc.View)
	datas := make([][]byte, len(mc.Members))
	for i, cs := range mc.Members {
		var out bytes.Buffer
		schema := cs.schema()
		leaves, err := cs.columnIndexes(schema)
		if err != nil {
			ctx.Fail("L2", "harness-schema", err.Error(), mc.describe(ctx.Seed))
			return
		}
		w := parquet.NewWriter(&out, append([]parquet.WriterOption{schema}, cs.options(false)...)...)
		err = cs.writeRowsTo(w, cs.parquetRows(leaves))
		if err == nil {
			err = w.Close()
		}
		if err != nil {
			ctx.Hist("multi.write-error", c07ErrClass(err))
			return
		}
		datas[i] = out.Bytes()
	}
	for pass := 0; pass < 2; pass++ {
		faulty := -1
		if pass == 1 {
			faulty = mc.FaultOn
		}
		members, fr, err := mc.open(datas, faulty)
		if err != nil {
			ctx.Fail("L1", "written-file-does-not-open", "OpenFile fails on a file the writer produced: "+err.Error(), mc.describe(ctx.Seed))
			return
		}
		view, err := mc.view(members)
		if err != nil {
			ctx.Hist("multi.view-error", c07ErrClass(err))
			return
		}
		if fr != nil {
			fr.armed.Store(true)
		}
		leaves, err := mc.Members[0].columnIndexes(view.Schema())
		if err != nil {
			ctx.Fail("L2", "harness-schema", err.Error(), mc.describe(ctx.Seed))
			return
		}
		chunks := view.ColumnChunks()
		for ci, col := range mc.Cols {
			mbf := chunks[leaves[ci]].BloomFilter()
			mcs := make([]parquet.ColumnChunk, len(members))
			allFiltered := true
			for i, m := range members {
				mcs[i] = m.rg.ColumnChunks()[leaves[ci]]
				if mc.Members[m.file].Opts.NoBloom {
					allFiltered = false
				}
			}
			mode := "healthy"
			if pass == 1 {
				mode = "fault-" + mc.Fault
			}
			for mi, m := range members {
				if pass == 1 && m.file != faulty {
					continue // the values of the other members are the subject of the healthy pass
				}
				vals := c07DistinctValues(col, ci, m.rows, 24)
				hasFilter := !mc.Members[m.file].Opts.NoBloom
				h := sha256.Sum256([]byte(fmt.Sprint(len(vals), mc.Order[:8])))
				ctx.Case(fmt.Sprintf("multi/%d/%s/%s/%s/%s/m%d/%x", mc.Index, mc.View, mode, col.Name, col.modelKind(), mi, h[:6]), len(vals) > 0 && hasFilter && allFiltered)
				ctx.Hist("multi.mode", mode)
				ctx.Hist("multi.members", c07Bucket(len(members)))
				for _, v := range vals {
					pv := col.value(v)
					// the members' own answers first (a lazily loaded gzip filter keeps its first outcome)
					toks := make([]string, len(members))
					for i := range members {
						toks[i] = c07AnsTok(mcs[i].BloomFilter(), pv)
					}
					got := "n"
					if mbf != nil {
						got = c07AnsTok(mbf, pv)
					}
					ctx.Hist("multi.answer", mode+" "+got)
					d := func() map[string]any {
						x := mc.describe(ctx.Seed)
						x["column"], x["value"], x["value_written_to"], x["member_answers"], x["combined_answer"] = col.Name, col.token(v), m.where, strings.Join(toks, ","), got
						if fr != nil {
							x["faulted_reads"] = fr.faults.Load()
						}
						return x
					}
					// ---- L1
					switch {
					case !hasFilter:
						if got == "00" {
							ctx.Observe("multi-filter-answers-absent-for-member-without-filter",
								"a MultiRowGroup column whose members do not all carry a bloom filter answers (false, nil) for a value stored in the member without filter (outside C07: that column chunk was not configured with a filter)", d())
						}
					case got == "00" && pass == 1:
						ctx.Fail("L1", "multi-filter-storage-error-answered-absent-"+mc.View,
							fmt.Sprintf("the combined bloom filter answers (false, nil) for a written %s value while the storage of the member holding it fails (%s)", col.Kind, mc.Fault), d())
					case got == "00":
						ctx.Fail("L1", "multi-filter-false-negative-"+mc.View,
							fmt.Sprintf("the combined bloom filter answers (false, nil) for a %s value written to %s", col.Kind, m.where), d())
					case got != "10" && pass == 0 && allFiltered:
						ctx.Fail("L1", "multi-filter-check-error-"+mc.View, "the combined bloom filter returns "+got+" for a written value although every storage works", d())
					}
					if hasFilter && toks[mi] == "00" {
						key := "member-filter-false-negative"
						if pass == 1 {
							key = "member-filter-storage-error-answered-absent"
						}
						ctx.Fail("L1", key, "the member's own bloom filter answers (false, nil) for a value written to its chunk", d())
					}
					// ---- L2
					if got == "n" {
						ctx.Fail("L2", "multi-filter-missing", "the column chunk of the view has no bloom filter", d())
						continue
					}
					req := "bloom.multi " + strings.Join(toks, ",")
					want := "ok " + got
					b.add(req, func(resp string) {
						if resp != want {
							x := d()
							x["request"], x["go"], x["lean"] = req, want, resp
							ctx.Fail("L2", "multi-check-vs-mirror", "multiBloomFilter.Check differs from the Lean mirror applied to the members' own answers", x)
						}
					})
				}
			}
		}
	}
}

func RunC07Multi(ctx *core.Ctx) {
	ctx.SetRule(c07Rule)
	run := func(b *c07Batch, mc *c07MrgCase) bool {
		done := make(chan struct{})
		go func() {
			defer close(done)
			defer func() {
				if p := recover(); p != nil {
					ctx.Fail("L1", "panic-multi-"+mc.View, fmt.Sprintf("panic while checking the bloom filter of a multi row group: %v", p), mc.describe(ctx.Seed))
				}
			}()
			c07RunMulti(ctx, b, mc)
		}()
		select {
		case <-done:
			return true
		case <-time.After(180 * time.Second):
			ctx.Fail("L1", "hang-multi-"+mc.View, "checking did not finish within 180 s", mc.describe(ctx.Seed))
			return false // the batch may be in use by the stuck goroutine
		}
	}
	if ctx.Replay != "" {
		rf := c07ReadReplay(ctx)
		if rf == nil || rf.Detail.MultiCase == nil {
			return
		}
		ctx.Seed = rf.Seed
		if d := ctx.Driver(); d != nil {
			b := &c07Batch{ctx: ctx, d: d}
			run(b, c07GenMulti(ctx, rf.Detail.MultiCase.Index))
			b.flush()
		}
		return
	}
	total := ctx.Scale(1200, 8000)
	workers := 12
	jobs := make(chan int, total)
	for i := 0; i < total; i++ {
		jobs <- i
	}
	close(jobs)
	var wg sync.WaitGroup
	for wi := 0; wi < workers; wi++ {
		wg.Add(1)
		go func() {
			defer wg.Done()
			d := ctx.Driver()
			if d == nil {
				return
			}
			b := &c07Batch{ctx: ctx, d: d}
			for i := range jobs {
				if !run(b, c07GenMulti(ctx, i)) {
					return
				}
			}
			b.flush()
		}()
	}
	wg.Wait()
}
