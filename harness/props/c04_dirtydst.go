package props

// C04 / dirtydst: "the output of an encoder does not depend on what its destination buffer held".
//
// Every encoder of the property that takes a `dst` (DELTA_BINARY_PACKED int32/int64, DELTA_LENGTH_BYTE_ARRAY,
// DELTA_BYTE_ARRAY, RLE hybrid levels/int32/boolean/dictionary indexes, PLAIN and BYTE_STREAM_SPLIT of every
// physical type) is run on the same input
//   * into a nil dst (the reference bytes) and
//   * into EVERY destination of a fixed list: filled with 0xFF, with 0x55 or with pseudo-random bytes (what an
//     earlier, larger page leaves behind), capacity exactly the clean output, a little more (1, 16, 17, 64
//     bytes), much more (need+700, need+1300, 2*need+99, 4*need+4096: no reallocation whatever the encoder
//     over-reserves per block; this is what the buffer of an earlier, larger page looks like) and too small
//     (need-1, need/2: the encoder grows the buffer itself).
// L1 (from the property statement, no model involved): the bytes must be the same, and Go's own decoder must
// return the input from the bytes written into the dirty buffer. L2: the Lean mirror of the encoder (a function
// of the values alone: it has no dst argument, so its output cannot depend on one) must produce these bytes.
//
// What the other sub-checks do not reach (seeded change C04-7a): their dirty destinations are fine, but their
// VALUES never make the encoded size come close to the maximum a page of n values can have while the bytes
// written last go through a kernel that ORs into the destination. The DELTA_BINARY_PACKED inputs here are
// built from a WIDTH PLAN: 1..12 blocks, a chosen frame of reference per block (minimum delta at the
// extremes: the longest block headers), a chosen width for every miniblock (all at the type's width, all but
// a few, mixed) and every width 0..32 / 0..64 for the miniblock that ends the stream; the values wrap around
// the ends of the type all the time. The byte-array encodings get value LENGTHS built the same way (widths up
// to 17 bits), the RLE encoders every width with the run patterns of the rle sub-check at lengths up to 12
// groups of 128, PLAIN/BYTE_STREAM_SPLIT every type.

import (
	"bytes"
	"fmt"
	"math"
	"math/bits"
	"math/rand"
	"strconv"
	"strings"
	"sync"

	"github.com/parquet-go/parquet-go/encoding/bytestreamsplit"
	"github.com/parquet-go/parquet-go/encoding/delta"
	"github.com/parquet-go/parquet-go/encoding/plain"
	"github.com/parquet-go/parquet-go/encoding/rle"

	"verifharness/core"
)

func init() { RegisterSub("C04", "dirtydst", RunC04DirtyDst) }

const c04ddWorkers = 16

type c04ddCase struct {
	kind string // bp32 bp64 dlba dba rle-levels rle-int32 rle-bool rle-dict plain bss
	plan string
	ints []int64  // bp32/bp64
	vals [][]byte // dlba/dba, plain/bss (one element per value)
	w    int      // rle: bit width
	u32  []uint32 // rle values (bool: packed bytes)
	k    c4kind   // plain/bss: physical type
	seed int64
}

func (c c04ddCase) canon() string {
	switch c.kind {
	case "bp32", "bp64":
		return "dd " + c.kind + " " + core.JoinInts(c.ints)
	case "dlba", "dba":
		return "dd " + c.kind + " " + c04dVals(c.vals)
	case "plain", "bss":
		return "dd " + c.kind + " " + c.k.String() + " " + c4toks(c.k, c.vals)
	}
	return fmt.Sprintf("dd %s w=%d %s", c.kind, c.w, core.JoinInts(c.u32))
}

// ---------------------------------------------------------------- destinations

type c04ddDst struct {
	name string
	buf  []byte
}

// the fixed list of dirty destinations for an encoder whose clean output has `need` bytes
func c04ddDsts(need int) []c04ddDst {
	caps := []struct {
		name string
		c    int
	}{
		{"cap=need", need}, {"cap=need+1", need + 1}, {"cap=need+16", need + 16}, {"cap=need+17", need + 17},
		{"cap=need+64", need + 64}, {"cap=need+700", need + 700}, {"cap=need+1300", need + 1300}, {"cap=2*need+99", 2*need + 99}, {"cap=4*need+4096", 4*need + 4096},
		{"cap=need-1", max(0, need-1)}, {"cap=need/2", need / 2},
	}
	var out []c04ddDst
	for ci, cp := range caps {
		for fi, fill := range []string{"ff", "55", "prng"} {
			if ci >= 9 && fi > 0 { // the too-small capacities once
				continue
			}
			b := make([]byte, cp.c)
			switch fill {
			case "ff":
				for i := range b {
					b[i] = 0xFF
				}
			case "55":
				for i := range b {
					b[i] = 0x55
				}
			default:
				x := uint32(0x9E3779B9)
				for i := range b {
					x ^= x << 13
					x ^= x >> 17
					x ^= x << 5
					b[i] = byte(x>>11) | 1
				}
			}
			l := []int{cp.c, 0, cp.c / 2}[fi] // the encoders start at dst[:0]: the length must not matter either
			out = append(out, c04ddDst{fill + " " + cp.name + " len=" + []string{"cap", "0", "cap/2"}[fi], b[:l]})
		}
	}
	return out
}

// ---------------------------------------------------------------- width-plan generator (DELTA_BINARY_PACKED)

var c04ddTailCounts = []int{1, 2, 31, 32, 33, 63, 64, 65, 95, 96, 97, 98, 127, 128, 128, 128}

func c04ddEdgeWidth(r *rand.Rand, bitsN int) int {
	if r.Intn(2) == 0 {
		return r.Intn(bitsN + 1)
	}
	e := []int{0, 1, 2, 3, 7, 8, 9, 15, 16, 17, 23, 24, 25, 30, 31, 32}
	if bitsN == 64 {
		e = append(e, 33, 34, 40, 47, 48, 49, 56, 62, 63, 64)
	}
	return e[r.Intn(len(e))]
}

// c04ddPlanInts: values of 1 + 128*(blocks-1) + m deltas whose encoding has the planned miniblock widths.
// Block by block: a minimum delta md, a width per miniblock, deltas md+u with u < 2^width (one u at the top of
// the width, one u = 0 in the block), u capped so that md+u does not pass the maximum of the type (then md is
// the signed minimum the encoder finds and u the value it packs).
func c04ddPlanInts(r *rand.Rand, bitsN, blocks int, plan string) []int64 {
	minv, maxv := int64(math.MinInt32), int64(math.MaxInt32)
	if bitsN == 64 {
		minv, maxv = math.MinInt64, math.MaxInt64
	}
	wrap := func(v int64) int64 {
		if bitsN == 32 {
			return int64(int32(v))
		}
		return v
	}
	m := c04ddTailCounts[r.Intn(len(c04ddTailCounts))]
	if plan == "full" && r.Intn(3) != 0 { // the largest output n values can have: every block complete
		m = []int{97, 127, 128, 128}[r.Intn(4)]
	}
	v := []int64{minv, maxv, 0, -1, wrap(int64(r.Uint64()))}[r.Intn(5)]
	out := []int64{v}
	for b := 0; b < blocks; b++ {
		cnt := 128
		if b == blocks-1 {
			cnt = m
		}
		var md int64
		switch x := r.Intn(10); {
		case plan == "full" || x < 6:
			md = minv
		case x < 7:
			md = minv + int64(r.Intn(1<<uint(r.Intn(20))))
		case x < 8:
			md = int64(r.Intn(129)) - 64
		default:
			md = wrap(int64(r.Uint64()))
		}
		room := uint64(maxv - md) // md <= maxv: the true difference fits
		us := make([]uint64, cnt)
		pinned := map[int]bool{}
		nm := (cnt + 31) / 32
		for j := 0; j < nm; j++ {
			var w int
			last := b == blocks-1 && j == nm-1
			switch {
			case last && plan != "mixed" && r.Intn(4) != 0: // the stream ends in a miniblock below the full width
				w = bitsN/2 + 1 + r.Intn(bitsN/2-1) // 17..31 / 33..63
			case last:
				w = c04ddEdgeWidth(r, bitsN)
			case plan == "full":
				w = bitsN
			case plan == "near-full":
				w = bitsN
				if r.Intn(8) == 0 {
					w = bitsN - 1 - r.Intn(bitsN/2)
				}
			default:
				w = c04ddEdgeWidth(r, bitsN)
			}
			lo, hi := j*32, min(cnt, j*32+32)
			top := uint64(math.MaxUint64)
			if w < 64 {
				top = uint64(1)<<uint(w) - 1
			}
			top = min(top, room)
			for i := lo; i < hi; i++ {
				switch r.Intn(4) {
				case 0:
					us[i] = top
				case 1:
					us[i] = top - min(top, uint64(r.Intn(3)))
				default:
					if top == math.MaxUint64 {
						us[i] = r.Uint64()
					} else {
						us[i] = r.Uint64() % (top + 1)
					}
				}
			}
			p := lo + r.Intn(hi-lo)
			us[p], pinned[p] = top, true
		}
		z := r.Intn(cnt)
		for k := 0; k < cnt && pinned[z]; k++ {
			z = (z + 1) % cnt
		}
		us[z] = 0
		for _, u := range us {
			v = wrap(v + wrap(md+int64(u)))
			out = append(out, v)
		}
	}
	return out
}

// lengths of byte-array values by the same idea: per miniblock an amplitude 2^w, w mostly small (the bytes
// have to exist), up to 17 bits for the miniblock that ends the length stream
func c04ddPlanBytes(r *rand.Rand, blocks int, shared bool) [][]byte {
	n := 1 + 128*(blocks-1) + c04ddTailCounts[r.Intn(len(c04ddTailCounts))]
	lens := make([]int, n)
	nm := (n + 30) / 32
	for j := 0; j*32 < n; j++ {
		w := r.Intn(9)
		if j >= nm-2 && r.Intn(2) == 0 {
			w = 9 + r.Intn(9)
		}
		big := 2
		for i := j * 32; i < min(n, j*32+32); i++ {
			switch {
			case w == 0:
				lens[i] = 3
			case w > 9 && big > 0 && r.Intn(8) == 0:
				lens[i] = 1<<uint(w-1) + r.Intn(1<<uint(w-1))
				big--
			case w > 9:
				lens[i] = r.Intn(40)
			default:
				lens[i] = r.Intn(1 << uint(w))
			}
		}
	}
	out := make([][]byte, n)
	var prev []byte
	for i, l := range lens {
		v := make([]byte, l)
		r.Read(v)
		if shared && i > 0 {
			p := min(l, len(prev))
			if p > 0 && r.Intn(3) != 0 {
				p = r.Intn(p + 1)
			}
			copy(v[:p], prev[:p])
		}
		out[i], prev = v, v
	}
	return out
}

// ---------------------------------------------------------------- worker

type c04ddWorker struct {
	ctx *core.Ctx
	b   *c04dWorker // request batching (ask/flush)
	bp  delta.BinaryPackedEncoding
	lb  delta.LengthByteArrayEncoding
	ba  delta.ByteArrayEncoding
}

// encode c into dst; "" or the error/panic text
func (w *c04ddWorker) encode(c c04ddCase, dst []byte) (out []byte, status string) {
	status = c04rleCatch(func() (err error) {
		switch c.kind {
		case "bp32":
			src := make([]int32, len(c.ints))
			for i, v := range c.ints {
				src[i] = int32(v)
			}
			out, err = w.bp.EncodeInt32(dst, src)
		case "bp64":
			out, err = w.bp.EncodeInt64(dst, c.ints)
		case "dlba":
			src, offs := c04dFlatten(c.vals, 0, 0)
			out, err = w.lb.EncodeByteArray(dst, src, offs)
		case "dba":
			src, offs := c04dFlatten(c.vals, 0, 0)
			out, err = w.ba.EncodeByteArray(dst, src, offs)
		case "rle-levels":
			out, err = (&rle.Encoding{BitWidth: c.w}).EncodeLevels(dst, c04ddBytes(c.u32))
		case "rle-int32":
			out, err = (&rle.Encoding{BitWidth: c.w}).EncodeInt32(dst, c04rleToI32(c.u32))
		case "rle-bool":
			out, err = (&rle.Encoding{BitWidth: 1}).EncodeBoolean(dst, c04ddBytes(c.u32))
		case "rle-dict":
			out, err = (&rle.DictionaryEncoding{}).EncodeInt32(dst, c04rleToI32(c.u32))
		case "plain":
			out, err = c4Encode(c.k, new(plain.Encoding), dst, c4Values(c.k, c.vals, 0))
		case "bss":
			out, err = c4Encode(c.k, new(bytestreamsplit.Encoding), dst, c4Values(c.k, c.vals, 0))
		}
		return err
	})
	return out, status
}

func c04ddBytes(xs []uint32) []byte {
	b := make([]byte, len(xs))
	for i, x := range xs {
		b[i] = byte(x)
	}
	return b
}

// Go's own decoder on the bytes an encoder wrote into a dirty buffer: does it return the input?
func (w *c04ddWorker) decodesBack(c c04ddCase, enc []byte) (ok bool, what string) {
	st := c04rleCatch(func() error {
		switch c.kind {
		case "bp32":
			got, err := w.bp.DecodeInt32(nil, enc)
			if err != nil {
				return err
			}
			ok = len(got) == len(c.ints)
			for i := 0; ok && i < len(got); i++ {
				if ok = int64(got[i]) == c.ints[i]; !ok {
					what = fmt.Sprintf("value %d of %d: %d instead of %d", i, len(got), got[i], c.ints[i])
				}
			}
		case "bp64":
			got, err := w.bp.DecodeInt64(nil, enc)
			if err != nil {
				return err
			}
			ok = len(got) == len(c.ints)
			for i := 0; ok && i < len(got); i++ {
				if ok = got[i] == c.ints[i]; !ok {
					what = fmt.Sprintf("value %d of %d: %d instead of %d", i, len(got), got[i], c.ints[i])
				}
			}
		case "dlba", "dba":
			var e c04dByteEnc = &w.lb
			if c.kind == "dba" {
				e = &w.ba
			}
			data, offs, err := e.DecodeByteArray(nil, enc, nil)
			if err != nil {
				return err
			}
			vs, split := c04dSplit(data, offs)
			ok = split && c04dEqVals(vs, c.vals)
		case "rle-levels", "rle-int32", "rle-bool", "rle-dict":
			r := rand.New(rand.NewSource(c.seed))
			got, st := c04rleGoDecode(r, &c04rleBufs{}, strings.TrimPrefix(c.kind, "rle-"), c.w, enc)
			if st != "" {
				return fmt.Errorf("%s", st)
			}
			ok = c04rleEqU32(got, c.u32)
		default:
			ok = true // PLAIN / BYTE_STREAM_SPLIT: equal bytes are decoded by the plain sub-check
		}
		return nil
	})
	if st != "" {
		return false, st
	}
	return ok, what
}

func (w *c04ddWorker) run(c c04ddCase) {
	ctx := w.ctx
	canon := c.canon()
	n := len(c.ints) + len(c.vals) + len(c.u32)
	ctx.Case(canon, n >= 2)
	ctx.Hist("dirtydst-kind", c.kind)
	ctx.Hist("dirtydst-plan", c.kind+" "+c.plan)
	ref, st := w.encode(c, nil)
	if st != "" {
		ctx.Fail("L1", "dirtydst-"+c.kind+"-encode-fails", "the encoder fails on a valid input: "+st, map[string]any{"case": canon, "variant": ctx.Variant})
		return
	}
	ref = bytes.Clone(ref)
	refHex := core.Hex(ref)
	switch c.kind {
	case "bp32", "bp64":
		w.histPlan(c, ref)
	case "dlba", "dba":
		w.histLengths(c)
	}
	reported := false
	for _, d := range c04ddDsts(len(ref)) {
		got, st := w.encode(c, d.buf)
		if st != "" {
			ctx.Fail("L1", "dirtydst-"+c.kind+"-encode-fails", "the encoder fails on a valid input with a reused destination: "+st, map[string]any{"case": canon, "dst": d.name, "variant": ctx.Variant})
			return
		}
		if bytes.Equal(got, ref) {
			continue
		}
		if reported {
			continue
		}
		reported = true
		at := 0
		for at < len(got) && at < len(ref) && got[at] == ref[at] {
			at++
		}
		ctx.Fail("L1", "dirtydst-"+c.kind+"-encode-depends-on-dst", "the encoded bytes depend on what the destination buffer held: encoding into a reused buffer (stale bytes, capacity as stated) differs from encoding the same values into a nil dst ("+ctx.Variant+" build)",
			map[string]any{"case": canon, "plan": c.plan, "dst": d.name, "first_difference_at": at, "clean_len": len(ref), "dirty_len": len(got), "clean": c04dClip(refHex), "dirty": c04dClip(core.Hex(got)), "variant": ctx.Variant})
		if ok, what := w.decodesBack(c, bytes.Clone(got)); !ok {
			ctx.Fail("L1", "dirtydst-"+c.kind+"-roundtrip-through-reused-dst", "Decode(Encode(reused dst, xs)) != xs: the values read back from the bytes written into a reused buffer are not the input ("+ctx.Variant+" build)",
				map[string]any{"case": canon, "plan": c.plan, "dst": d.name, "what": what, "bytes": c04dClip(core.Hex(got)), "variant": ctx.Variant})
		}
	}
	if !reported {
		if ok, what := w.decodesBack(c, ref); !ok {
			ctx.Fail("L1", "dirtydst-"+c.kind+"-roundtrip", "Decode(Encode(xs)) != xs", map[string]any{"case": canon, "plan": c.plan, "what": what, "bytes": c04dClip(refHex), "variant": ctx.Variant})
		}
	}
	// L2: the mirror (a function of the values alone)
	mirror := func(req string) {
		w.b.ask(req, func(ans string) {
			if ans != "ok "+refHex {
				ctx.Fail("L2", "dirtydst-"+c.kind+"-mirror-bytes", "Go encoder bytes differ from the Lean mirror ("+ctx.Variant+" build)",
					map[string]any{"case": canon, "plan": c.plan, "impl": c04dClip(refHex), "model": c04dClip(ans)})
			}
		})
	}
	switch c.kind {
	case "bp32":
		mirror("delta.enc32 " + core.JoinInts(c.ints))
	case "bp64":
		mirror("delta.enc64 " + core.JoinInts(c.ints))
	case "dlba", "dba":
		mirror(c.kind + ".enc " + c04dVals(c.vals))
	case "rle-levels", "rle-bool":
		mirror(fmt.Sprintf("rle.enc %s %d %s", strings.TrimPrefix(c.kind, "rle-"), c.w, core.Hex(c04ddBytes(c.u32))))
	case "rle-int32", "rle-dict":
		kind := strings.TrimPrefix(c.kind, "rle-")
		req := fmt.Sprintf("rle.enc %s %d %s", kind, c.w, core.JoinInts(c.u32))
		if ctx.Variant != "asm" {
			mirror(req)
			break
		}
		// the AVX2 path of the default build cuts bit-packed runs differently: either mirror (as in the rle sub-check)
		wd := c.w
		if kind == "dict" {
			wd = 0
			for _, v := range c.u32 {
				wd = max(wd, bits.Len32(v))
			}
		}
		var portable string
		w.b.ask(req, func(ans string) { portable = ans })
		w.b.ask(fmt.Sprintf("rle.enc int32avx2 %d %s", wd, core.JoinInts(c.u32)), func(ans string) {
			avx := ans
			if kind == "dict" && strings.HasPrefix(ans, "ok ") {
				avx = fmt.Sprintf("ok %02x%s", wd, strings.TrimPrefix(ans[3:], "-"))
			}
			if g := "ok " + refHex; g != portable && g != avx {
				ctx.Fail("L2", "dirtydst-"+c.kind+"-mirror-bytes", "Go encoder bytes equal neither the portable mirror nor the AVX2-kernel mirror",
					map[string]any{"case": canon, "impl": c04dClip(refHex), "model_portable": c04dClip(portable), "model_avx2": c04dClip(avx)})
			}
		})
	case "plain":
		if c.k.name == "bool" {
			break // EncodeBoolean copies packed bits (plain sub-check: appendBoolCase)
		}
		name := c.k.name
		mirror("plain.enc " + name + " " + c4toks(c.k, c.vals))
	case "bss":
		mirror(fmt.Sprintf("bss.enc %d %s", c.k.width, c4hexToks(c.vals)))
	}
}

// what the plan achieved, read from the encoded stream: number of blocks, miniblocks at the full width, width
// of the miniblock that ends the stream, how far the output exceeds 4*128 (8*128) bytes per block
func (w *c04ddWorker) histPlan(c c04ddCase, b []byte) {
	bitsN := 32
	if c.kind == "bp64" {
		bitsN = 64
	}
	total := len(b)
	for i := 0; i < 4; i++ {
		_, k := binaryUvarint(b)
		if k <= 0 {
			return
		}
		b = b[k:]
	}
	blocks, full, minis, lastW, hdr := 0, 0, 0, -1, 0
	for len(b) > 0 {
		_, k := binaryUvarint(b)
		if k <= 0 || len(b) < k+4 {
			return
		}
		ws := b[k : k+4]
		b = b[k+4:]
		hdr += k + 4
		for _, x := range ws {
			if len(b) < 4*int(x) {
				return
			}
			if x > 0 || len(b) > 0 {
				lastW = int(x)
			}
			minis++
			if int(x) == bitsN {
				full++
			}
			b = b[4*int(x):]
		}
		blocks++
	}
	w.ctx.Hist("dirtydst-"+c.kind+"-blocks", fmt.Sprintf("%02d", blocks))
	w.ctx.Hist("dirtydst-"+c.kind+"-final-miniblock-width", fmt.Sprintf("%02d", lastW))
	if minis > 0 {
		w.ctx.Hist("dirtydst-"+c.kind+"-miniblocks-at-full-width", fmt.Sprintf("%3d%%", 10*(10*full/minis)))
	}
	over := total - blocks*128*bitsN/8
	cls := "<=0"
	switch {
	case over > 64:
		cls = ">64"
	case over > 16:
		cls = "17..64"
	case over > 0:
		cls = "1..16"
	}
	w.ctx.Hist("dirtydst-"+c.kind+"-bytes-beyond-blocks*"+strconv.Itoa(128*bitsN/8), cls)
	_ = hdr
}

func (w *c04ddWorker) histLengths(c c04ddCase) {
	mx := 0
	for _, v := range c.vals {
		mx = max(mx, len(v))
	}
	w.ctx.Hist("dirtydst-"+c.kind+"-longest-value-bits", fmt.Sprintf("%02d", bits.Len(uint(mx))))
	w.ctx.Hist("dirtydst-"+c.kind+"-blocks", fmt.Sprintf("%02d", (len(c.vals)+126)/128))
}

func binaryUvarint(b []byte) (uint64, int) {
	var x uint64
	var s uint
	for i, c := range b {
		if i == 10 {
			return 0, -1
		}
		if c < 0x80 {
			return x | uint64(c)<<s, i + 1
		}
		x |= uint64(c&0x7f) << s
		s += 7
	}
	return 0, 0
}

// ---------------------------------------------------------------- driver of the sub-check

func RunC04DirtyDst(ctx *core.Ctx) {
	ctx.SetRule("dirtydst: every encoder taking a dst (DELTA_BINARY_PACKED int32/int64 from width plans: 1..12 blocks x frame of reference at the extremes x per-miniblock widths all-full / nearly-all-full / mixed x every width of the final miniblock x 16 tail counts, values wrapping around; DELTA_LENGTH_BYTE_ARRAY / DELTA_BYTE_ARRAY with value lengths of 0..17-bit amplitude over 1..6 blocks; RLE levels/int32/boolean/dictionary at every width over the run patterns, lengths up to 1537; PLAIN and BYTE_STREAM_SPLIT of every type) encodes the same values into nil and into 29 reused destinations (0xFF / 0x55 / pseudo-random stale bytes; capacity need, +1, +16, +17, +64, +700, +1300, 2*need+99, 4*need+4096, need-1, need/2; length cap, 0, cap/2): equal bytes, Go decodes the input back from the dirty buffer's bytes, bytes equal the Lean mirror. Distinct by canonical text of the values; non-trivial = at least 2 values")
	r := ctx.Rand("dirtydst")
	mul := 1
	if ctx.Widen {
		mul = 4
	}
	var cases []c04ddCase
	// DELTA_BINARY_PACKED: every block count x plan, several draws
	rounds := ctx.Scale(10, 60) * mul
	for round := 0; round < rounds; round++ {
		for blocks := 1; blocks <= 12; blocks++ {
			for _, plan := range []string{"full", "near-full", "mixed"} {
				for _, bitsN := range []int{32, 64} {
					cases = append(cases, c04ddCase{kind: "bp" + strconv.Itoa(bitsN), plan: plan, ints: c04ddPlanInts(r, bitsN, blocks, plan), seed: r.Int63()})
				}
			}
		}
	}
	// byte arrays
	nb := ctx.Scale(40, 300) * mul
	for i := 0; i < nb; i++ {
		blocks := 1 + i%6
		cases = append(cases, c04ddCase{kind: "dlba", plan: "lengths", vals: c04ddPlanBytes(r, blocks, false), seed: r.Int63()})
		cases = append(cases, c04ddCase{kind: "dba", plan: "lengths+prefixes", vals: c04ddPlanBytes(r, blocks, true), seed: r.Int63()})
	}
	// RLE hybrid
	nr := ctx.Scale(1200, 8000) * mul
	for i := 0; i < nr; i++ {
		kind := []string{"levels", "int32", "int32", "bool", "dict"}[i%5]
		pat := c04rlePatterns[r.Intn(len(c04rlePatterns))]
		n := c04rleLen(r)
		if r.Intn(4) == 0 {
			n = 128*(1+r.Intn(12)) + []int{-1, 0, 1, 7, 8, 9}[r.Intn(6)]
		}
		c := c04ddCase{kind: "rle-" + kind, plan: pat, seed: r.Int63()}
		switch kind {
		case "bool":
			c.u32 = c04rleValues(r, pat, 8, n)
			if r.Intn(2) == 0 {
				for j, v := range c.u32 {
					if v&1 == 0 {
						c.u32[j] = 0
					} else if v&2 == 0 {
						c.u32[j] = 0xFF
					}
				}
			}
		case "dict":
			c.u32 = c04rleValues(r, pat, r.Intn(33), n)
		default:
			c.w = r.Intn(c04rleMaxW(kind) + 1)
			c.u32 = c04rleValues(r, pat, c.w, n)
		}
		cases = append(cases, c)
	}
	// PLAIN / BYTE_STREAM_SPLIT
	np := ctx.Scale(600, 4000) * mul
	kinds := []c4kind{{"bool", 1}, c4Int32, c4Int64, c4Int96, c4Float, c4Double, c4Bytes, c4FLBA(1), c4FLBA(3), c4FLBA(16), c4FLBA(17), c4FLBA(33)}
	for i := 0; i < np; i++ {
		k := kinds[i%len(kinds)]
		n := c04rleLen(r) % 600
		vals := make([][]byte, n)
		for j := range vals {
			l := k.width
			if k.name == "bytes" {
				l = []int{0, 1, 3, 4, 5, 31, 32, 33, 200}[r.Intn(9)]
			}
			v := make([]byte, l)
			switch r.Intn(3) {
			case 0:
				r.Read(v)
			case 1:
				for x := range v {
					v[x] = 0xFF
				}
			}
			if k.name == "bool" {
				v[0] &= 1
			}
			vals[j] = v
		}
		cases = append(cases, c04ddCase{kind: "plain", plan: k.String(), k: k, vals: vals, seed: r.Int63()})
		if k.name != "bool" && k.name != "bytes" && k.name != "int96" {
			cases = append(cases, c04ddCase{kind: "bss", plan: k.String(), k: k, vals: vals, seed: r.Int63()})
		}
	}
	for i := 0; i < len(cases) && i < 80; i += 13 {
		ctx.Sample(map[string]any{"case": c04dClip(cases[i].canon()), "plan": cases[i].plan})
	}
	var wg sync.WaitGroup
	for k := 0; k < c04ddWorkers; k++ {
		wg.Add(1)
		go func(k int) {
			defer wg.Done()
			w := &c04ddWorker{ctx: ctx, b: &c04dWorker{ctx: ctx, d: ctx.Driver()}}
			for i := k; i < len(cases); i += c04ddWorkers {
				c := cases[i]
				if p := c04dCatch(func() { w.run(c) }); p != "" {
					ctx.Fail("L1", "dirtydst-case-panics", "evaluating the case panicked", map[string]any{"case": c04dClip(c.canon()), "panic": p})
				}
			}
			w.b.flush()
		}(k)
	}
	wg.Wait()
}
