package props

import (
	"bytes"
	"fmt"
	"math"
	"math/rand"
	"sort"
	"strings"

	"github.com/parquet-go/parquet-go"
	"github.com/parquet-go/parquet-go/format"

	"verifharness/core"
)

func init() { RegisterSub("C06", "synthetic", RunC06) }

// synthetic page: nil values = null page; bounds may be widened (as truncation does)
type c06Page struct {
	nan      bool // double kind: a page of NaN values only (its bounds are NaN, it holds no probe)
	null     bool
	vals     []int // ranks (ints) of the values in the page
	min, max int   // recorded bounds (min <= all vals <= max)
}

type c06Case struct {
	kind  string // int32 | bytes | double
	pages []c06Page
}

func (c c06Case) canon() string {
	var sb strings.Builder
	sb.WriteString(c.kind)
	for _, p := range c.pages {
		if p.null {
			sb.WriteString(" n")
		} else if p.nan {
			sb.WriteString(" nan")
		} else {
			fmt.Fprintf(&sb, " %d:%d%v", p.min, p.max, p.vals)
		}
	}
	return sb.String()
}

// rankBytes maps a rank to a byte string order-isomorphically (ranks -8..40 -> 2-byte strings)
func rankBytes(r int) []byte { return []byte{byte((r + 64) >> 4), byte((r+64)&15) << 4} }

func c06Value(kind string, r int) parquet.Value {
	if kind == "int32" {
		return parquet.Int32Value(int32(r))
	}
	if kind == "double" {
		return parquet.DoubleValue(float64(r))
	}
	return parquet.ByteArrayValue(rankBytes(r))
}

func c06Unrank(kind string, v parquet.Value) int {
	if kind == "int32" {
		return int(v.Int32())
	}
	if kind == "double" {
		return int(v.Double())
	}
	b := v.ByteArray()
	return (int(b[0])<<4 | int(b[1])>>4) - 64
}

// build the index exactly as the writer does: through the exported ColumnIndexer of the type.
func c06Index(c c06Case) (parquet.ColumnIndex, parquet.Type) {
	var typ parquet.Type
	var kind parquet.Kind
	switch c.kind {
	case "int32":
		typ, kind = parquet.Int32Type, parquet.Int32
	case "double":
		typ, kind = parquet.DoubleType, parquet.Double
	default:
		typ, kind = parquet.ByteArrayType, parquet.ByteArray
	}
	ix := typ.NewColumnIndexer(16)
	for _, p := range c.pages {
		if p.null {
			ix.IndexPage(3, 3, parquet.Value{}, parquet.Value{})
		} else if p.nan {
			ix.IndexPage(2, 0, parquet.DoubleValue(math.NaN()), parquet.DoubleValue(math.Float64frombits(0xfff8000000000001)))
		} else {
			ix.IndexPage(int64(len(p.vals)), 0, c06Value(c.kind, p.min), c06Value(c.kind, p.max))
		}
	}
	fi := ix.ColumnIndex()
	// deep copy: the indexer may reuse its buffers
	cp := format.ColumnIndex{BoundaryOrder: fi.BoundaryOrder}
	cp.NullPages = append([]bool(nil), fi.NullPages...)
	cp.NullCounts = append([]int64(nil), fi.NullCounts...)
	for _, b := range fi.MinValues {
		cp.MinValues = append(cp.MinValues, bytes.Clone(b))
	}
	for _, b := range fi.MaxValues {
		cp.MaxValues = append(cp.MaxValues, bytes.Clone(b))
	}
	return parquet.NewColumnIndex(kind, &cp), typ
}

func c06Check(ctx *core.Ctx, c c06Case, probes []int, reqs *[]string, pend *[]func(string)) {
	index, typ := c06Index(c)
	n := index.NumPages()
	hasNull, hasNaN := false, false
	for _, p := range c.pages {
		hasNull = hasNull || p.null
		hasNaN = hasNaN || p.nan
	}
	nontrivial := len(c.pages) >= 2
	ctx.Case(c.canon(), nontrivial)
	order := 0
	if index.IsAscending() {
		order = 1
		ctx.Hist("order", "ascending")
	} else if index.IsDescending() {
		order = 2
		ctx.Hist("order", "descending")
	} else {
		ctx.Hist("order", "unordered")
	}
	if hasNull {
		ctx.Hist("nullpages", "some")
	} else {
		ctx.Hist("nullpages", "none")
	}
	if c.kind == "double" {
		ctx.Hist("nan-pages", fmt.Sprint(hasNaN))
	}
	var mins, maxs []string
	for _, p := range c.pages {
		if p.null {
			mins, maxs = append(mins, "n"), append(maxs, "n")
		} else if p.nan {
			mins, maxs = append(mins, "nan"), append(maxs, "nan")
		} else {
			mins, maxs = append(mins, fmt.Sprint(p.min)), append(maxs, fmt.Sprint(p.max))
		}
	}
	ms, xs := "-", "-"
	if len(mins) > 0 {
		ms, xs = strings.Join(mins, ","), strings.Join(maxs, ",")
	}
	for _, pn := range c06ProbeOrderings(probes) {
		v, nullsFirst := pn.v, pn.nullsFirst
		// Find with the two null orderings a caller can wrap the type's Compare in: nulls last is what
		// Search uses, nulls first is the example of Find's doc comment
		cmp, nfTag, nfArg := parquet.CompareNullsLast(typ.Compare), "", "0"
		if nullsFirst {
			cmp, nfTag, nfArg = parquet.CompareNullsFirst(typ.Compare), " nulls-first", "1"
			ctx.Hist("null-ordering", "nulls-first")
		} else {
			ctx.Hist("null-ordering", "nulls-last")
		}
		got := parquet.Find(index, c06Value(c.kind, v), cmp)
		// ---- L1: the property itself
		first := -1       // first page that contains v as a value
		anyBound := false // some page's recorded bounds contain v
		for i, p := range c.pages {
			if p.null || p.nan {
				// a NaN page holds no probe; its NaN bounds exclude nothing under Compare, so Find may or may not
				// stop there: it counts neither as a candidate nor as a wrong answer
				continue
			}
			if p.min <= v && v <= p.max {
				anyBound = true
			}
			if first < 0 {
				for _, x := range p.vals {
					if x == v {
						first = i
						break
					}
				}
			}
		}
		sig := fmt.Sprintf("order=%d nullpages=%v", order, hasNull) + nfTag
		if hasNaN {
			sig += " nan-page"
		}
		detail := map[string]any{"case": c.canon(), "probe": v, "nulls_first": nullsFirst, "returned": got, "numPages": n, "first_page_with_value": first}
		switch {
		case got < 0 || got > n:
			ctx.Fail("L1", "out-of-range "+sig, "Search returned an index outside 0..NumPages", detail)
		case first >= 0 && got > first:
			ctx.Fail("L1", "missed-page "+sig, fmt.Sprintf("value occurs in page %d but Search returned %d (NumPages=%d)", first, got, n), detail)
		case got < n && !c.pages[got].nan && (c.pages[got].null || v < c.pages[got].min || v > c.pages[got].max):
			ctx.Fail("L1", "bounds-exclude "+sig, "Search returned a page whose bounds do not contain the value", detail)
		case got == n && anyBound:
			ctx.Fail("L1", "numpages-but-candidate "+sig, "Search returned NumPages although a page's bounds contain the value", detail)
		}
		if first >= 0 {
			ctx.Hist("probe", "present")
		} else {
			ctx.Hist("probe", "absent")
		}
		// ---- L2: the Lean mirror of Find + the writer's boundary order
		asc := "0"
		if order == 1 {
			asc = "1"
		}
		zero := 0
		if c.kind == "bytes" {
			zero = -1000 // null pages store the empty byte string, which sorts before every value
		}
		op := "find.nf"
		if c.kind == "double" {
			op = "find.f" // bounds may be NaN: the mirror over float bounds
		}
		*reqs = append(*reqs, fmt.Sprintf("%s %s %s %d %s %s %d", op, nfArg, asc, zero, ms, xs, v))
		*pend = append(*pend, func(ans string) {
			want := fmt.Sprintf("ok %d %d", got, order)
			if ans != want {
				ctx.Fail("L2", "find-mirror "+sig, "Find/boundary order differ from the Lean mirror", map[string]any{
					"case": c.canon(), "probe": v, "nulls_first": nullsFirst, "impl": want, "model": ans})
			}
		})
	}
}

type c06ProbeOrdering struct {
	v          int
	nullsFirst bool
}

func c06ProbeOrderings(probes []int) []c06ProbeOrdering {
	out := make([]c06ProbeOrdering, 0, 2*len(probes))
	for _, v := range probes {
		out = append(out, c06ProbeOrdering{v, false}, c06ProbeOrdering{v, true})
	}
	return out
}

func c06Flush(ctx *core.Ctx, d interface {
	AskMany([]string) ([]string, error)
}, reqs *[]string, pend *[]func(string)) {
	if d == nil || len(*reqs) == 0 {
		*reqs, *pend = nil, nil
		return
	}
	ans, err := d.AskMany(*reqs)
	if err != nil {
		ctx.Fail("L2", "driver-error", err.Error(), nil)
	}
	for i, a := range ans {
		(*pend)[i](a)
	}
	*reqs, *pend = (*reqs)[:0], (*pend)[:0]
}

func c06RandCase(r *rand.Rand) c06Case {
	c := c06Case{kind: []string{"int32", "bytes", "double"}[r.Intn(3)]}
	nanP := 0
	if c.kind == "double" {
		nanP = []int{0, 6, 3}[r.Intn(3)]
	}
	np := r.Intn(7)
	if r.Intn(10) == 0 {
		np = 7 + r.Intn(30)
	}
	mode := r.Intn(4) // 0 ascending-ish, 1 descending-ish, 2 random, 3 constant
	base := r.Intn(10) - 5
	for i := 0; i < np; i++ {
		if r.Intn(4) == 0 {
			c.pages = append(c.pages, c06Page{null: true})
			continue
		}
		if nanP > 0 && r.Intn(nanP) == 0 {
			c.pages = append(c.pages, c06Page{nan: true})
			continue
		}
		var lo int
		switch mode {
		case 0:
			lo = base
			base += r.Intn(3)
		case 1:
			lo = base
			base -= r.Intn(3)
		case 2:
			lo = r.Intn(24) - 6
		default:
			lo = base
		}
		k := 1 + r.Intn(3)
		vals := make([]int, k)
		for j := range vals {
			vals[j] = lo + r.Intn(4)
		}
		sort.Ints(vals)
		p := c06Page{vals: vals, min: vals[0], max: vals[k-1]}
		if r.Intn(5) == 0 { // widened bounds, as truncation produces
			p.min -= r.Intn(2)
			p.max += r.Intn(3)
		}
		c.pages = append(c.pages, p)
	}
	return c
}

func RunC06(ctx *core.Ctx) {
	ctx.SetRule("synthetic column indexes built through the exported ColumnIndexer (int32, byte-array and double kinds, null pages anywhere, all-NaN pages for double, exact or widened bounds, ascending/descending/random/constant layouts) x every probe in the value domain; exhaustive small scope; distinct by canonical index text, non-trivial = at least 2 pages")
	d := ctx.Driver()
	var reqs []string
	var pend []func(string)
	probes := func(c c06Case) []int {
		lo, hi := 0, 0
		for _, p := range c.pages {
			if !p.null {
				if p.min < lo {
					lo = p.min
				}
				if p.max > hi {
					hi = p.max
				}
			}
		}
		var ps []int
		for v := lo - 1; v <= hi+1; v++ {
			ps = append(ps, v)
		}
		return ps
	}
	// exhaustive small scope: all indexes of <= N pages, each page null or [a,b] with a<=b over a 4-value domain, exact bounds
	maxPages := ctx.Scale(3, 5)
	dom := 4
	var shapes []c06Page
	shapes = append(shapes, c06Page{null: true})
	for a := 0; a < dom; a++ {
		for b := a; b < dom; b++ {
			shapes = append(shapes, c06Page{vals: []int{a, b}, min: a, max: b})
		}
	}
	var rec func(prefix []c06Page, depth int)
	rec = func(prefix []c06Page, depth int) {
		c := c06Case{kind: "int32", pages: append([]c06Page(nil), prefix...)}
		c06Check(ctx, c, []int{-1, 0, 1, 2, 3, 4}, &reqs, &pend)
		if len(reqs) > 20000 {
			c06Flush(ctx, d, &reqs, &pend)
		}
		if depth == maxPages {
			return
		}
		for _, s := range shapes {
			rec(append(prefix, s), depth+1)
		}
	}
	rec(nil, 0)
	c06Flush(ctx, d, &reqs, &pend)
	// the same for DOUBLE with all-NaN pages among the shapes (3-value domain)
	var fshapes []c06Page
	fshapes = append(fshapes, c06Page{null: true}, c06Page{nan: true})
	for a := 0; a < 3; a++ {
		for b := a; b < 3; b++ {
			fshapes = append(fshapes, c06Page{vals: []int{a, b}, min: a, max: b})
		}
	}
	fmax := ctx.Scale(3, 5)
	var frec func(prefix []c06Page, depth int)
	frec = func(prefix []c06Page, depth int) {
		c := c06Case{kind: "double", pages: append([]c06Page(nil), prefix...)}
		c06Check(ctx, c, []int{-1, 0, 1, 2, 3}, &reqs, &pend)
		if len(reqs) > 20000 {
			c06Flush(ctx, d, &reqs, &pend)
		}
		if depth == fmax {
			return
		}
		for _, s := range fshapes {
			frec(append(prefix, s), depth+1)
		}
	}
	frec(nil, 0)
	c06Flush(ctx, d, &reqs, &pend)
	// random, larger
	r := ctx.Rand("c06")
	n := ctx.Scale(20000, 400000)
	for i := 0; i < n; i++ {
		c := c06RandCase(r)
		if i < 4 {
			ctx.Sample(map[string]any{"index": c.canon()})
		}
		c06Check(ctx, c, probes(c), &reqs, &pend)
		if len(reqs) > 20000 {
			c06Flush(ctx, d, &reqs, &pend)
		}
	}
	c06Flush(ctx, d, &reqs, &pend)
}
