package props

import (
	"bytes"
	"errors"
	"fmt"
	"io"
	"math/rand"
	"strings"
	"sync"

	"github.com/parquet-go/parquet-go"
	"github.com/parquet-go/parquet-go/format"

	"verifharness/core"
	"verifharness/gen"
)

// C17 "hist": the level-histogram / size-statistics part of the writer state across Reset
// (lean/PqModel/ResetHist.lean, Props/C17Hist.lean).
//
//	append (L1+L2) accumulateAndAppendPageLevelHistogram on DIRTY slices: a slice whose backing
//	       array holds the counts of an earlier row group beyond its length, capacities below,
//	       at and above what the new page needs. L1: the appended block is the count of each
//	       level of the page (nothing of the array's earlier content shows); L2: column
//	       histogram, returned slice and its spare capacity equal the Lean mirror's.
//	reset  (L2) a real Writer abandoned in the middle of a row group (pages already recorded),
//	       then Reset: what the histogram fields and the arrays behind them hold before/after
//	       vs the mirror of (*ColumnWriter).reset.
//	file   (L2) files written by reused writers (several row groups, Reset after earlier content):
//	       the ColumnIndex level histograms and the SizeStatistics of every column chunk vs the
//	       SPEC (LevelStats.chunkHists) applied to the levels decoded from the chunk's own pages
//	       — the right-hand side of theorem stats_after_reset.
func init() { RegisterSub("C17", "hist", RunC17Hist) }

func c17HistKey(s string) string { return strings.ReplaceAll(s, " ", "-") }

func RunC17Hist(ctx *core.Ctx) {
	d := ctx.Driver()
	if d == nil {
		return
	}
	ctx.SetRule(c17Rule)
	c17HistAppend(ctx)
	c17HistWriters(ctx)
}

// ---------------------------------------------------------------- append on dirty slices

type c17AppendCase struct {
	maxLevel       int
	col            []int64
	backing        []int64
	length         int
	levels         []byte
	outCol         []int64
	outLive, outSp []int64
	panicked       string
}

func (c *c17AppendCase) input() map[string]any {
	return map[string]any{"max_level": c.maxLevel, "column_histogram": core.JoinInts(c.col), "slice": core.JoinInts(c.backing[:c.length]),
		"spare_capacity": core.JoinInts(c.backing[c.length:]), "levels": core.JoinInts(c.levels)}
}

func c17HistAppend(ctx *core.Ctx) {
	r := ctx.Rand("c17hist/append")
	n := ctx.Scale(20000, 100000)
	cases := make([]*c17AppendCase, n)
	for i := range cases {
		c := &c17AppendCase{maxLevel: []int{1, 1, 2, 3, 7}[r.Intn(5)]}
		hs := c.maxLevel + 1
		c.col = make([]int64, hs)
		for j := range c.col {
			c.col[j] = int64(r.Intn(1000))
		}
		// the slice: k earlier pages, capacity around what one more page needs
		k := []int{0, 0, 1, 2, 5}[r.Intn(5)]
		c.length = k * hs
		capacity := c.length + []int{0, 1, hs - 1, hs, hs + 1, 2 * hs, 3*hs + 1, 64}[r.Intn(8)]
		if capacity > 0 || r.Intn(2) == 0 {
			c.backing = make([]int64, capacity)
		}
		stale := r.Intn(4)
		for j := range c.backing {
			switch {
			case j < c.length:
				c.backing[j] = int64(r.Intn(300))
			case stale == 0:
				c.backing[j] = 0
			case stale == 1:
				c.backing[j] = int64(1 + r.Intn(300)) // the counts of an earlier row group
			case stale == 2:
				c.backing[j] = -1
			default:
				c.backing[j] = int64(r.Intn(2)) * int64(r.Intn(50))
			}
		}
		nl := []int{0, 1, 2, 7, 8, 9, 63, 64, 65, 200}[r.Intn(10)]
		c.levels = make([]byte, nl)
		run := 0
		var cur byte
		for j := range c.levels {
			if run == 0 {
				cur, run = byte(r.Intn(hs)), 1+r.Intn(9)
			}
			c.levels[j] = cur
			run--
		}
		cases[i] = c
	}
	var wg sync.WaitGroup
	chunk := (len(cases) + 15) / 16
	for lo := 0; lo < len(cases); lo += chunk {
		hi := min(lo+chunk, len(cases))
		wg.Add(1)
		go func(cs []*c17AppendCase) {
			defer wg.Done()
			for _, c := range cs {
				col := append([]int64{}, c.col...)
				var backing []int64
				if c.backing != nil {
					backing = append(make([]int64, 0, len(c.backing)), c.backing...)
				}
				if err := c17Guard(func() error {
					c.outCol, c.outLive, c.outSp = parquet.VerifAccumulateAndAppendPageLevelHistogram(col, backing, c.length, c.levels, byte(c.maxLevel))
					return nil
				}); err != nil {
					c.panicked = errClass(err)
				}
			}
		}(cases[lo:hi])
	}
	wg.Wait()
	reqs := make([]string, 0, len(cases))
	var asked []*c17AppendCase
	for _, c := range cases {
		hs := c.maxLevel + 1
		ctx.Case("hist-append|"+fmt.Sprint(c.input()), len(c.levels) > 0 && len(c.backing) > c.length)
		ctx.Hist("hist-append-capacity", map[bool]string{true: "suffices", false: "grows"}[len(c.backing)-c.length >= hs])
		if c.panicked != "" {
			ctx.Fail("L1", "hist-append-"+c.panicked, "accumulateAndAppendPageLevelHistogram panics on levels within range", c.input())
			continue
		}
		// L1, from the property: the new block counts the page's levels and nothing else; the
		// earlier pages' blocks are untouched; the column histogram grows by the same counts
		want := make([]int64, hs)
		for _, l := range c.levels {
			want[l]++
		}
		ok := len(c.outLive) == c.length+hs
		if ok {
			for j := 0; j < c.length; j++ {
				ok = ok && c.outLive[j] == c.backing[j]
			}
			for j := 0; j < hs; j++ {
				ok = ok && c.outLive[c.length+j] == want[j] && c.outCol[j] == c.col[j]+want[j]
			}
		}
		if !ok {
			det := c.input()
			det["returned_slice"], det["returned_column_histogram"], det["page_counts"] = core.JoinInts(c.outLive), core.JoinInts(c.outCol), core.JoinInts(want)
			stale := "clean-capacity"
			for _, v := range c.backing[c.length:] {
				if v != 0 {
					stale = "stale-capacity"
				}
			}
			ctx.Fail("L1", "hist-append-page-block-is-not-the-page-counts "+stale,
				"the per-page level histogram appended for a page is not the count of each level of that page (the slice's backing array held other numbers beyond its length: they must not show)", det)
		}
		extra := 0
		if len(c.backing)-c.length < hs {
			extra = len(c.outSp)
		}
		reqs = append(reqs, fmt.Sprintf("hist.append current %s %s %s %s %d %d", c17Nats(c.col), c17Nats(c.backing[:c.length]),
			c17Nats(c.backing[c.length:]), c17Nats(c.levels), c.maxLevel, extra))
		asked = append(asked, c)
	}
	d := ctx.Driver()
	for lo := 0; lo < len(reqs); lo += 5000 {
		hi := min(lo+5000, len(reqs))
		ans, err := d.AskMany(reqs[lo:hi])
		if err != nil {
			ctx.Fail("L2", "driver-error", err.Error(), nil)
			return
		}
		for i, a := range ans {
			c := asked[lo+i]
			real := fmt.Sprintf("ok %s %s %s", c17Nats(c.outCol), c17Nats(c.outLive), c17Nats(c.outSp))
			if a != real {
				det := c.input()
				det["real"], det["model"], det["request"] = real, a, reqs[lo+i]
				what := "slice"
				if fa, fr := strings.Fields(a), strings.Fields(real); len(fa) == 4 && len(fr) == 4 {
					switch {
					case fa[1] != fr[1]:
						what = "column-histogram"
					case fa[2] != fr[2]:
						what = "slice"
					default:
						what = "spare-capacity"
					}
				}
				ctx.Fail("L2", "hist-append-mirror "+what, "accumulateAndAppendPageLevelHistogram and its Lean mirror (ResetHist.appendPage) disagree on the "+what, det)
			}
		}
	}
}

// negative numbers (the -1 fill) are outside the model's Nat: they are sent as a large distinct value
func c17Nats[T ~int64 | ~uint8](xs []T) string {
	if len(xs) == 0 {
		return "-"
	}
	out := make([]string, len(xs))
	for i, x := range xs {
		if int64(x) < 0 {
			out[i] = fmt.Sprint(uint64(1<<62) + uint64(int64(x)+(1<<61)))
		} else {
			out[i] = fmt.Sprint(int64(x))
		}
	}
	return strings.Join(out, ",")
}

// ---------------------------------------------------------------- real writers

type c17HistKind struct {
	max              int
	col, live, spare string
}

type c17HistCol struct {
	rep, def  c17HistKind
	unencoded string
}

func c17ParseHistState(s string) (out []c17HistCol, ok bool) {
	if s == "" {
		return nil, true
	}
	for _, col := range strings.Split(s, ";") {
		parts := strings.Split(col, "|")
		if len(parts) != 3 {
			return nil, false
		}
		var hc c17HistCol
		for i, k := range []*c17HistKind{&hc.rep, &hc.def} {
			mc := strings.SplitN(parts[i], ":", 2)
			f := strings.Split(mc[len(mc)-1], "/")
			if len(mc) != 2 || len(f) != 3 {
				return nil, false
			}
			fmt.Sscanf(mc[0], "%d", &k.max)
			k.col, k.live, k.spare = f[0], f[1], f[2]
		}
		hc.unencoded = parts[2]
		out = append(out, hc)
	}
	return out, true
}

type c17HistPending struct {
	req, real, key, what string
	detail               map[string]any
}

func c17HistWriters(ctx *core.Ctx) {
	ncases := ctx.Scale(4, 16)
	var mu sync.Mutex
	var all []c17HistPending
	var wg sync.WaitGroup
	sem := make(chan struct{}, 16)
	for _, e := range gen.WithGeo() {
		nullable := false
		for _, p := range e.Schema.Columns() {
			if leaf, ok := e.Schema.Lookup(p...); ok && (leaf.MaxDefinitionLevel > 0 || leaf.MaxRepetitionLevel > 0) {
				nullable = true
			}
		}
		if !nullable {
			continue
		}
		wg.Add(1)
		sem <- struct{}{}
		go func(e *gen.Entry) {
			defer wg.Done()
			defer func() { <-sem }()
			r := ctx.Rand("c17hist/" + e.Name)
			for k := 0; k < ncases; k++ {
				ps := c17HistWriterCase(ctx, e, r)
				mu.Lock()
				all = append(all, ps...)
				mu.Unlock()
			}
		}(e)
	}
	wg.Wait()
	d := ctx.Driver()
	reqs := make([]string, len(all))
	for i := range all {
		reqs[i] = all[i].req
	}
	for lo := 0; lo < len(reqs); lo += 5000 {
		hi := min(lo+5000, len(reqs))
		ans, err := d.AskMany(reqs[lo:hi])
		if err != nil {
			ctx.Fail("L2", "driver-error", err.Error(), nil)
			return
		}
		for i, a := range ans {
			p := all[lo+i]
			if a != p.real {
				p.detail["real"], p.detail["model"], p.detail["request"] = p.real, a, p.req
				ctx.Fail("L2", p.key, p.what, p.detail)
			}
		}
	}
}

// one writer: earlier content, abandoned in the middle of a row group -> Reset (reset tie) -> the
// rows in several row groups -> Close -> the file's statistics against the spec (file tie)
func c17HistWriterCase(ctx *core.Ctx, e *gen.Entry, r *rand.Rand) (out []c17HistPending) {
	n := []int{2, 3, 9, 33, 64, 65, 100}[r.Intn(7)]
	np := []int{1, 8, 50, 130}[r.Intn(4)]
	rows := c17GenRows(r, e, n, r.Intn(2) == 0)
	prior := c17GenRows(r, e, np, r.Intn(2) == 0)
	cfg := c17RandCfg(r, e)
	if cfg.overflow == 0 && r.Intn(2) == 0 { // small pages: several recorded before the row group ends
		c2 := *cfg
		c2.overflow = 48 + r.Intn(120)
		c2.desc += fmt.Sprintf(" +dictmax=16,pagebuf=%d", c2.overflow)
		cfg = &c2
	}
	sink := &c17Sink{failAfter: -1}
	var w *parquet.Writer
	if err := c17Guard(func() error {
		w = parquet.NewWriter(sink, append([]parquet.WriterOption{e.Schema}, cfg.opts()...)...)
		return nil
	}); err != nil {
		ctx.Hist("hist-skipped", errClass(err))
		return nil
	}
	texts := c17RowTexts(e, rows)
	detail := func() map[string]any {
		return map[string]any{"type": e.Name, "config": cfg.desc, "rows": texts, "prior_rows": np, "variant": ctx.Variant}
	}
	ctx.Case("hist-writer|"+e.Name+"|"+cfg.desc+"|"+strings.Join(texts, "|")+fmt.Sprint(np), true)
	history := []string{"abandoned", "flushed", "closed"}[r.Intn(3)]
	ctx.Hist("hist-writer-history", history)
	if err := c17Guard(func() error {
		if err := (c17Reflect{w}).write(prior, 0, np); err != nil {
			return err
		}
		switch history {
		case "flushed":
			if err := w.Flush(); err != nil {
				return err
			}
			return c17Reflect{w}.write(prior, 0, (np+1)/2)
		case "closed":
			return w.Close()
		}
		return nil
	}); err != nil {
		ctx.Hist("hist-skipped", "prior "+errClass(err))
		return nil
	}
	before, ok1 := c17ParseHistState(parquet.VerifHistState(w))
	out2 := new(bytes.Buffer)
	if err := c17Guard(func() error { w.Reset(out2); return nil }); err != nil {
		ctx.Hist("hist-skipped", "reset "+errClass(err))
		return nil
	}
	after, ok2 := c17ParseHistState(parquet.VerifHistState(w))
	if !ok1 || !ok2 || len(before) != len(after) {
		ctx.Fail("L2", "hist-state-hook-unparsable", "VerifHistState output not understood", detail())
		return nil
	}
	recorded := 0
	for i := range before {
		for _, k := range [][2]c17HistKind{{before[i].rep, after[i].rep}, {before[i].def, after[i].def}} {
			b, a := k[0], k[1]
			if b.max == 0 {
				continue
			}
			if b.live != "-" {
				recorded++
			}
			det := detail()
			det["column"], det["history"] = i, history
			out = append(out, c17HistPending{
				req:  fmt.Sprintf("hist.reset %s %s %s", b.col, b.live, b.spare),
				real: fmt.Sprintf("ok %s %s %s", a.col, a.live, a.spare),
				key:  "hist-reset-mirror", what: "(*ColumnWriter).reset and its Lean mirror (ResetHist.LevelHist.reset) disagree on the level histogram fields", detail: det})
		}
		if after[i].unencoded != "0" {
			det := detail()
			det["column"], det["total_unencoded_byte_array_bytes_after_reset"] = i, after[i].unencoded
			ctx.Fail("L2", "hist-reset-mirror unencoded-bytes", "totalUnencodedByteArrayBytes survives Reset", det)
		}
	}
	ctx.Hist("hist-reset-pages-recorded-before-reset", map[bool]string{true: "yes", false: "no"}[recorded > 0])
	// the new file: the rows in 1..3 row groups
	cuts := 1 + r.Intn(3)
	if err := c17Guard(func() error {
		lo := 0
		for g := 0; g < cuts; g++ {
			hi := n * (g + 1) / cuts
			if err := (c17Reflect{w}).write(rows, lo, hi); err != nil {
				return err
			}
			lo = hi
			if g < cuts-1 {
				if err := w.Flush(); err != nil {
					return err
				}
			}
		}
		return w.Close()
	}); err != nil {
		ctx.Hist("hist-skipped", "write "+errClass(err))
		return out
	}
	return append(out, c17HistFile(ctx, e, out2.Bytes(), detail)...)
}

// the file's level histograms vs the spec applied to the levels of its own pages
func c17HistFile(ctx *core.Ctx, e *gen.Entry, file []byte, detail func() map[string]any) (out []c17HistPending) {
	var f *parquet.File
	if err := c17Guard(func() (err error) {
		f, err = parquet.OpenFile(bytes.NewReader(file), int64(len(file)))
		return err
	}); err != nil {
		ctx.Hist("hist-skipped", "open "+errClass(err))
		return nil
	}
	paths := f.Schema().Columns()
	md := f.Metadata()
	cis := f.ColumnIndexes()
	ctx.Hist("hist-file-row-groups", fmt.Sprint(min(len(md.RowGroups), 4)))
	for g, rg := range f.RowGroups() {
		for j, cc := range rg.ColumnChunks() {
			leaf, ok := f.Schema().Lookup(paths[j]...)
			if !ok {
				continue
			}
			var reps, defs []string
			npages := 0
			err := c17Guard(func() error {
				pages := cc.Pages()
				defer pages.Close()
				for {
					p, err := pages.ReadPage()
					if p != nil {
						reps = append(reps, c17Nats(p.RepetitionLevels()))
						defs = append(defs, c17Nats(p.DefinitionLevels()))
						npages++
						parquet.Release(p)
					}
					if err != nil {
						if errors.Is(err, io.EOF) {
							return nil
						}
						return err
					}
				}
			})
			if err != nil {
				ctx.Hist("hist-skipped", "pages "+errClass(err))
				continue
			}
			if npages == 0 {
				continue
			}
			var ci *format.ColumnIndex
			if k := g*len(paths) + j; k < len(cis) && len(cis[k].NullPages) > 0 {
				ci = &cis[k]
			}
			ss := md.RowGroups[g].Columns[j].MetaData.SizeStatistics
			for _, kind := range []struct {
				name   string
				max    int
				levels []string
				size   []int64
				index  []int64
			}{
				{"repetition", leaf.MaxRepetitionLevel, reps, ss.RepetitionLevelHistogram, ciHist(ci, true)},
				{"definition", leaf.MaxDefinitionLevel, defs, ss.DefinitionLevelHistogram, ciHist(ci, false)},
			} {
				if kind.max == 0 {
					continue
				}
				index := c17Nats(kind.index)
				if ci == nil { // no column index for this chunk (SkipPageBounds / size limits): only the size statistics
					index = ""
				}
				det := detail()
				det["row_group"], det["column"], det["pages"], det["level_kind"] = g, strings.Join(paths[j], "."), npages, kind.name
				ctx.Hist("hist-file-chunks", fmt.Sprintf("row group %d%s", min(g, 3), map[bool]string{true: "+", false: ""}[g >= 3]))
				out = append(out, c17HistPending{
					req:    fmt.Sprintf("hist.spec %d %s", kind.max, strings.Join(kind.levels, "/")),
					real:   "ok " + c17Nats(kind.size) + " " + index,
					key:    fmt.Sprintf("hist-file-vs-spec %s row-group-%s", kind.name, map[bool]string{true: "0", false: "1+"}[g == 0]),
					what:   "the " + kind.name + " level histograms written for a column chunk (SizeStatistics / ColumnIndex) are not the counts of the levels of its own pages (spec LevelStats.chunkHists; theorem stats_after_reset)",
					detail: det})
			}
		}
	}
	// hist.spec answers "ok <chunk> <pages>"; when the file has no column index the page part is not compared
	for i := range out {
		if strings.HasPrefix(out[i].req, "hist.spec") && strings.HasSuffix(out[i].real, " ") {
			out[i].req = strings.Replace(out[i].req, "hist.spec", "hist.spec1", 1)
			out[i].real = strings.TrimSuffix(out[i].real, " ")
		}
	}
	return out
}

func ciHist(ci *format.ColumnIndex, rep bool) []int64 {
	if ci == nil {
		return nil
	}
	if rep {
		return ci.RepetitionLevelHistogram
	}
	return ci.DefinitionLevelHistogram
}
