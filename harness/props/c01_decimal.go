package props

import (
	"bytes"
	"encoding/hex"
	"fmt"
	"io"
	"math"
	"math/big"
	"math/rand"
	"reflect"
	"strings"
	"sync"
	"time"

	"github.com/parquet-go/parquet-go"

	"verifharness/core"
)

func init() { RegisterSub("C01", "decimal", RunC01Decimal) }

type c01Asker interface {
	AskMany([]string) ([]string, error)
}

func c01Hex(b []byte) string {
	if len(b) == 0 {
		return "-"
	}
	return hex.EncodeToString(b)
}

// SPEC (LogicalTypes.md, DECIMAL): the integer a big-endian two's-complement byte string denotes
func c01TwosValue(b []byte) *big.Int {
	v := new(big.Int).SetBytes(b)
	if len(b) > 0 && b[0]&0x80 != 0 {
		v.Sub(v, new(big.Int).Lsh(big.NewInt(1), uint(8*len(b))))
	}
	return v
}

// largest precision LogicalTypes.md allows for n bytes: floor(log10(2^(8n-1) - 1))
func c01MaxPrecision(n int) int {
	lim := new(big.Int).Lsh(big.NewInt(1), uint(8*n-1))
	p, ten := 0, big.NewInt(10)
	for pw := big.NewInt(10); pw.Cmp(lim) <= 0; pw = new(big.Int).Mul(pw, ten) {
		p++
	}
	return p
}

// integers around the width boundaries of two's complement: +-2^(8k-1) and neighbours, +-256^k, 0, +-1,
// powers of ten and random magnitudes of up to maxBytes bytes
func c01RandBig(r *rand.Rand, maxBytes int) *big.Int {
	var v *big.Int
	switch r.Intn(5) {
	case 0:
		k := 1 + r.Intn(maxBytes)
		v = new(big.Int).Lsh(big.NewInt(1), uint(8*k-1))
		v.Add(v, big.NewInt(int64(r.Intn(5)-2)))
	case 1:
		k := r.Intn(maxBytes)
		v = new(big.Int).Lsh(big.NewInt(1), uint(8*k))
		v.Add(v, big.NewInt(int64(r.Intn(5)-2)))
	case 2:
		v = big.NewInt(int64(r.Intn(600) - 300))
	case 3:
		v = new(big.Int).Exp(big.NewInt(10), big.NewInt(int64(r.Intn(2*maxBytes+1))), nil)
		v.Add(v, big.NewInt(int64(r.Intn(3)-1)))
	default:
		b := make([]byte, 1+r.Intn(maxBytes))
		r.Read(b)
		if r.Intn(2) == 0 {
			b[0] >>= uint(r.Intn(8))
		}
		v = new(big.Int).SetBytes(b)
	}
	if r.Intn(2) == 0 {
		v.Neg(v)
	}
	return v
}

type c01DurRow struct {
	Ms  time.Duration  `parquet:"ms,time(millisecond)"`
	Us  time.Duration  `parquet:"us,time(microsecond)"`
	Ns  time.Duration  `parquet:"ns,time(nanosecond)"`
	PMs *time.Duration `parquet:"pms,time(millisecond)"`
	PUs *time.Duration `parquet:"pus,time(microsecond)"`
}

// the same Go fields without the TIME(MILLIS) columns (Writer.Write panics on those)
type c01DurRowNoMs struct {
	Ms  time.Duration  `parquet:"-"`
	Us  time.Duration  `parquet:"us,time(microsecond)"`
	Ns  time.Duration  `parquet:"ns,time(nanosecond)"`
	PMs *time.Duration `parquet:"-"`
	PUs *time.Duration `parquet:"pus,time(microsecond)"`
}

// the required columns declared by their physical integers (stored leaves written as they are) and
// read as durations
type c01DurLeafRow struct {
	Ms int32 `parquet:"ms,time(millisecond)"`
	Us int64 `parquet:"us,time(microsecond)"`
	Ns int64 `parquet:"ns,time(nanosecond)"`
}

type c01DurLeafRead struct {
	Ms time.Duration `parquet:"ms,time(millisecond)"`
	Us time.Duration `parquet:"us,time(microsecond)"`
	Ns time.Duration `parquet:"ns,time(nanosecond)"`
}

var c01DurFields = []string{"ms", "us", "ns", "ms", "us"}

var c01DurPool = []int64{0, 1, -1, 999, 1000, 1001, -999, -1000, -1001, 999999, 1000000, 1000001, -999999, -1000000, -1500000,
	86399999999999, 86400000000000, -86400000000000, 2147483647000000, 2147483647999999, 2147483648000000, -2147483648000000,
	-2147483648999999, -2147483649000000, 4294967296000000, math.MaxInt64, math.MinInt64, math.MaxInt64 - 807, math.MinInt64 + 808}

func c01UnitNanos(u string) int64 {
	switch u {
	case "ms":
		return 1000000
	case "us":
		return 1000
	}
	return 1
}

// RunC01Decimal: binary DECIMAL (*big.Float on BYTE_ARRAY / FIXED_LEN_BYTE_ARRAY columns) and
// TIME(unit) <-> time.Duration through the real writers and readers, against the format (L1) and the Lean
// mirrors of bigIntToByteArray / padToFixedLen / decimalType.AssignValue / writeDuration / timeType.AssignValue (L2).
func RunC01Decimal(ctx *core.Ctx) {
	ctx.SetRule("decimal: (a) integers around the two's-complement width boundaries (+-2^(8k-1), +-256^k, powers of ten, random up to 20 bytes) x column {BYTE_ARRAY, FIXED_LEN_BYTE_ARRAY(1..20)} x scale {0,2} written as *big.Float through GenericWriter[any] with an explicit DECIMAL schema -> stored bytes denote the unscaled integer in exactly n bytes and GenericReader[any] returns the number written, for every value of a legal precision (L1); stored bytes, read-back integer and panic/no panic = writeDecimal/readDecimal mirror (L2, op c01.dec.write); (b) arbitrary stored byte strings (non-minimal, empty, 0x80.., 0xff..) through decimalType.AssignValue = readDecimal (L2, op c01.dec.read); (c) time.Duration fields on TIME(MILLIS/MICROS/NANOS) columns (required, pointer) x write path {reflect: GenericWriter[any]; typed: GenericWriter[T], GenericBuffer[T]; deconstruct: Writer.Write, with and without the TIME(MILLIS) columns} -> stored leaf = duration/unit toward zero and Read[T] = leaf*unit when the count fits the column (L1), both = durWrite(path)/durOfLeaf, panic included (L2, op c01.dur, also outside the INT32 range); (d) raw INT32/INT64 TIME leaves read into time.Duration fields = durOfLeaf (L2, op c01.durleaf); non-trivial = a negative or multi-byte integer, a duration that is not a whole number of units or is negative")
	n := ctx.Scale(1600, 40000)
	var wg sync.WaitGroup
	jobs := make(chan int)
	for w := 0; w < 8; w++ {
		wg.Add(1)
		go func() {
			defer wg.Done()
			d := ctx.Driver()
			for i := range jobs {
				if d == nil {
					continue
				}
				r := ctx.Rand(fmt.Sprintf("decimal-%d", i))
				switch i % 4 {
				case 0, 1:
					c01DecimalFileCase(ctx, r, d)
				case 2:
					c01DecimalReadCase(ctx, r, d)
				default:
					c01DurationCase(ctx, r, d)
				}
			}
		}()
	}
	for i := 0; i < n; i++ {
		jobs <- i
	}
	close(jobs)
	wg.Wait()
}

func c01DecimalFileCase(ctx *core.Ctx, r *rand.Rand, d c01Asker) {
	flba := 0 // 0 = BYTE_ARRAY
	if r.Intn(3) != 0 {
		flba = []int{1, 2, 3, 4, 7, 8, 9, 15, 16, 17, 20}[r.Intn(11)]
	}
	scale := []int{0, 0, 2}[r.Intn(3)]
	maxBytes := 20
	precision := 45
	typ := parquet.ByteArrayType
	col := "-"
	if flba > 0 {
		maxBytes = flba + 1
		precision = c01MaxPrecision(flba)
		typ = parquet.FixedLenByteArrayType(flba)
		col = fmt.Sprint(flba)
	}
	if precision < 1 {
		precision = 1
	}
	pow := new(big.Int).Exp(big.NewInt(10), big.NewInt(int64(scale)), nil)
	limit := new(big.Int).Exp(big.NewInt(10), big.NewInt(int64(precision)), nil)
	// values k (the numbers handed to the writer); the unscaled integer is k*10^scale
	nvals := []int{1, 1, 2, 5, 40}[r.Intn(5)]
	var ks, unscaled []*big.Int
	legal := true
	for len(ks) < nvals {
		k := c01RandBig(r, maxBytes)
		u := new(big.Int).Mul(k, pow)
		if u.BitLen() > 8*maxBytes {
			continue
		}
		in := new(big.Int).Abs(u).Cmp(limit) < 0
		if !in && flba > 0 && len(ks) > 0 {
			continue // a value outside the precision may panic: alone in its file
		}
		ks, unscaled = append(ks, k), append(unscaled, u)
		if !in {
			legal = false
			if flba > 0 {
				break
			}
		}
	}
	var texts []string
	nontrivial := false
	for _, u := range unscaled {
		texts = append(texts, u.String())
		if u.Sign() < 0 || u.BitLen() > 8 {
			nontrivial = true
		}
	}
	canon := fmt.Sprintf("file col=%s scale=%d %s", col, scale, strings.Join(texts, ","))
	ctx.Case(canon, nontrivial)
	ctx.Hist("decimal-column", map[bool]string{true: "BYTE_ARRAY", false: "FIXED_LEN_BYTE_ARRAY"}[flba == 0])
	ctx.Hist("decimal-precision", map[bool]string{true: "within-legal-precision", false: "outside-precision"}[legal])
	detail := func(extra map[string]any) map[string]any {
		m := map[string]any{"column": col, "scale": scale, "precision": precision, "unscaled": texts}
		for k, v := range extra {
			m[k] = v
		}
		return m
	}
	schema := parquet.NewSchema("dec", parquet.Group{"a": parquet.Decimal(scale, precision, typ)})
	var out bytes.Buffer
	werr := func() (err error) {
		defer func() {
			if p := recover(); p != nil {
				err = fmt.Errorf("PANIC: %v", p)
			}
		}()
		w := parquet.NewGenericWriter[any](&out, schema)
		rows := make([]any, len(ks))
		for i, k := range ks {
			f := new(big.Float).SetPrec(uint(k.BitLen() + 64)).SetInt(k)
			rows[i] = map[string]any{"a": f}
		}
		if _, err := w.Write(rows); err != nil {
			return err
		}
		return w.Close()
	}()
	var reqs []string
	for _, u := range unscaled {
		reqs = append(reqs, fmt.Sprintf("c01.dec.write %s %s", col, u.String()))
	}
	ans, err := d.AskMany(reqs)
	if err != nil {
		ctx.Fail("L2", "driver-error", err.Error(), nil)
		return
	}
	if werr != nil {
		ctx.Hist("decimal-write", "panic")
		if legal {
			ctx.Fail("L1", "decimal write-error column="+map[bool]string{true: "bytes", false: "flba"}[flba == 0]+" "+errClass(werr), "writing values of a legal precision failed: "+werr.Error(), detail(nil))
			return
		}
		if len(ans) != 1 || ans[0] != "panic" {
			ctx.Fail("L2", "decimal write-panics-mirror-does-not", "the real writer failed ("+werr.Error()+"), the mirror answers "+strings.Join(ans, " "), detail(nil))
		}
		return
	}
	ctx.Hist("decimal-write", "ok")
	data := out.Bytes()
	f, err := parquet.OpenFile(bytes.NewReader(data), int64(len(data)))
	if err != nil {
		ctx.Fail("L1", "decimal open-error", err.Error(), detail(nil))
		return
	}
	var stored [][]byte
	for _, rg := range f.RowGroups() {
		rr := rg.Rows()
		buf := make([]parquet.Row, 16)
		for {
			k, err := rr.ReadRows(buf)
			for _, row := range buf[:k] {
				stored = append(stored, append([]byte(nil), row[0].ByteArray()...))
			}
			if err != nil {
				if err != io.EOF {
					ctx.Fail("L1", "decimal read-error reader=rows", err.Error(), detail(nil))
				}
				break
			}
		}
		rr.Close()
	}
	back := make([]any, len(ks))
	rerr := func() (err error) {
		defer func() {
			if p := recover(); p != nil {
				err = fmt.Errorf("PANIC: %v", p)
			}
		}()
		rd := parquet.NewGenericReader[any](bytes.NewReader(data))
		defer rd.Close()
		got := 0
		for got < len(back) {
			k, err := rd.Read(back[got:])
			got += k
			if err != nil {
				if err == io.EOF && got == len(back) {
					return nil
				}
				return err
			}
		}
		return nil
	}()
	if rerr != nil {
		ctx.Fail("L1", "decimal read-error reader=GenericReader[any] "+errClass(rerr), rerr.Error(), detail(nil))
		return
	}
	if len(stored) != len(ks) {
		ctx.Fail("L1", "decimal row-count", fmt.Sprintf("%d written, %d stored", len(ks), len(stored)), detail(nil))
		return
	}
	for i, u := range unscaled {
		class := "nonneg"
		if u.Sign() < 0 {
			class = "negative"
		}
		in := new(big.Int).Abs(u).Cmp(limit) < 0
		if flba > 0 && len(stored[i]) != flba {
			ctx.Fail("L1", "decimal flba-width-differs sign="+class, fmt.Sprintf("stored %d bytes in a FIXED_LEN_BYTE_ARRAY(%d)", len(stored[i]), flba), detail(map[string]any{"row": i, "stored": c01Hex(stored[i])}))
		}
		if v := c01TwosValue(stored[i]); v.Cmp(u) != 0 && in {
			ctx.Fail("L1", fmt.Sprintf("decimal stored-bytes-denote-other-integer column=%s sign=%s", map[bool]string{true: "bytes", false: "flba"}[flba == 0], class), fmt.Sprintf("unscaled %s stored as %s = %s", u, c01Hex(stored[i]), v), detail(map[string]any{"row": i}))
		}
		backInt := "?"
		if m, ok := back[i].(map[string]any); ok {
			if bf, ok := m["a"].(*big.Float); ok {
				// the number read back, rescaled: an integer when the conversion is exact
				sc := new(big.Float).SetPrec(bf.Prec() + 64).Mul(bf, new(big.Float).SetInt(pow))
				if bi, acc := sc.Int(nil); acc == big.Exact {
					backInt = bi.String()
				} else {
					backInt = "inexact:" + sc.Text('g', 60)
				}
			} else {
				backInt = fmt.Sprintf("type:%T", m["a"])
			}
		}
		if in && backInt != u.String() {
			ctx.Fail("L1", fmt.Sprintf("decimal read-back-differs column=%s sign=%s scale=%d", map[bool]string{true: "bytes", false: "flba"}[flba == 0], class, scale), fmt.Sprintf("wrote %s (unscaled %s), GenericReader[any] returned unscaled %s", ks[i], u, backInt), detail(map[string]any{"row": i, "stored": c01Hex(stored[i])}))
		}
		real := fmt.Sprintf("ok %s %s", c01Hex(stored[i]), backInt)
		if ans[i] != real {
			ctx.Fail("L2", fmt.Sprintf("decimal write-mirror-differs column=%s sign=%s", map[bool]string{true: "bytes", false: "flba"}[flba == 0], class), "stored bytes / read-back integer differ from the Lean mirror", detail(map[string]any{"row": i, "model": ans[i], "real": real, "request": reqs[i]}))
		}
	}
}

// arbitrary stored byte strings through the real decimalType.AssignValue
func c01DecimalReadCase(ctx *core.Ctx, r *rand.Rand, d c01Asker) {
	var datas [][]byte
	for k := 0; k < 40; k++ {
		n := []int{0, 1, 1, 2, 3, 8, 9, 16, 23}[r.Intn(9)]
		b := make([]byte, n)
		r.Read(b)
		switch r.Intn(5) {
		case 0:
			for j := 0; j < n && j < 1+r.Intn(3); j++ {
				b[j] = 0x00 // non-minimal positive
			}
		case 1:
			for j := 0; j < n && j < 1+r.Intn(3); j++ {
				b[j] = 0xff // non-minimal negative
			}
		case 2:
			for j := range b {
				b[j] = 0
			}
			if n > 0 {
				b[0] = 0x80 // -2^(8n-1)
			}
		case 3:
			for j := range b {
				b[j] = 0xff
			}
		}
		datas = append(datas, b)
	}
	var texts, reqs []string
	for _, b := range datas {
		texts = append(texts, c01Hex(b))
		reqs = append(reqs, "c01.dec.read "+c01Hex(b))
	}
	ctx.Case("read "+strings.Join(texts, ","), true)
	ans, err := d.AskMany(reqs)
	if err != nil {
		ctx.Fail("L2", "driver-error", err.Error(), nil)
		return
	}
	for i, b := range datas {
		fl := r.Intn(2) == 0 && len(b) > 0
		typ := parquet.ByteArrayType
		var val parquet.Value
		if fl {
			typ = parquet.FixedLenByteArrayType(len(b))
			val = parquet.FixedLenByteArrayValue(b)
		} else {
			val = parquet.ByteArrayValue(b)
		}
		node := parquet.Decimal(0, 60, typ)
		var x any
		got := "?"
		func() {
			defer func() {
				if p := recover(); p != nil {
					got = fmt.Sprintf("PANIC: %v", p)
				}
			}()
			if err := node.Type().AssignValue(reflect.ValueOf(&x).Elem(), val); err != nil {
				got = "error: " + err.Error()
				return
			}
			if bf, ok := x.(*big.Float); ok {
				if bi, acc := bf.Int(nil); acc == big.Exact {
					got = bi.String()
				} else {
					got = "inexact"
				}
			} else {
				got = fmt.Sprintf("type:%T", x)
			}
		}()
		ctx.Hist("decimal-read-len", fmt.Sprint(len(b)))
		if want := c01TwosValue(b).String(); got != want {
			ctx.Fail("L1", "decimal assign-value-differs-from-format", fmt.Sprintf("bytes %s denote %s, AssignValue gave %s", c01Hex(b), want, got), map[string]any{"bytes": c01Hex(b), "flba": fl})
		}
		model := strings.Fields(ans[i])
		if len(model) != 3 || model[0] != "ok" || model[1] != got {
			ctx.Fail("L2", "decimal read-mirror-differs", "decimalType.AssignValue and readDecimal differ", map[string]any{"bytes": c01Hex(b), "flba": fl, "model": ans[i], "real": got})
		}
	}
}

func c01RandDuration(r *rand.Rand) int64 {
	switch r.Intn(4) {
	case 0:
		return c01DurPool[r.Intn(len(c01DurPool))]
	case 1:
		return r.Int63n(2*86400000000000) - 86400000000000 // within a day, both signs
	case 2:
		return (r.Int63n(1<<33) - 1<<32) * 1000000 / int64(1+r.Intn(3)) // around the INT32 millisecond range
	}
	return int64(r.Uint64())
}

func c01DurationCase(ctx *core.Ctx, r *rand.Rand, d c01Asker) {
	nrows := []int{1, 2, 9, 70}[r.Intn(4)]
	leafMode := r.Intn(4) == 0 // (d): raw leaves read into time.Duration fields
	writer := []string{"generic-writer", "generic-buffer", "writer-write", "generic-writer-any", "generic-writer-any"}[r.Intn(5)]
	path := map[string]string{"generic-writer": "typed", "generic-buffer": "typed", "writer-write": "deconstruct", "generic-writer-any": "reflect"}[writer]
	noMs := path == "deconstruct" && r.Intn(3) != 0
	if leafMode {
		writer, path, noMs = "generic-writer", "leaf", false
	}
	// column of each Go field in the stored rows, -1 = not in the file
	colOf := []int{0, 1, 2, 3, 4}
	if noMs {
		colOf = []int{-1, 0, 1, -1, 2}
	}
	if leafMode {
		colOf = []int{0, 1, 2, -1, -1}
	}
	vals := make([][]*int64, nrows)
	var texts []string
	nontrivial := false
	for i := range vals {
		vals[i] = make([]*int64, 5)
		var fs []string
		for k := range vals[i] {
			if colOf[k] < 0 || (k >= 3 && r.Intn(4) == 0) {
				fs = append(fs, "null")
				continue
			}
			v := c01RandDuration(r)
			if leafMode {
				if r.Intn(2) == 0 {
					v /= c01UnitNanos(c01DurFields[k])
				}
				if c01DurFields[k] == "ms" {
					v = int64(int32(v))
				}
			}
			vals[i][k] = &v
			fs = append(fs, fmt.Sprint(v))
			if v < 0 || v%c01UnitNanos(c01DurFields[k]) != 0 {
				nontrivial = true
			}
		}
		texts = append(texts, strings.Join(fs, " "))
	}
	canon := fmt.Sprintf("%s %s noMs=%v %s", path, writer, noMs, strings.Join(texts, ";"))
	ctx.Case(canon, nontrivial)
	ctx.Hist("duration-path", path+" "+writer)
	detail := func(extra map[string]any) map[string]any {
		m := map[string]any{"path": path, "writer": writer, "without-ms-columns": noMs, "fields": "ms us ns pms pus", "rows": texts}
		for k, v := range extra {
			m[k] = v
		}
		return m
	}
	g := func(i, k int) int64 {
		if vals[i][k] == nil {
			return 0
		}
		return *vals[i][k]
	}
	rows := make([]c01DurRow, nrows)
	for i := range rows {
		rows[i] = c01DurRow{Ms: time.Duration(g(i, 0)), Us: time.Duration(g(i, 1)), Ns: time.Duration(g(i, 2)),
			PMs: (*time.Duration)(vals[i][3]), PUs: (*time.Duration)(vals[i][4])}
	}
	var out bytes.Buffer
	werr := func() (err error) {
		defer func() {
			if p := recover(); p != nil {
				err = fmt.Errorf("PANIC: %v", p)
			}
		}()
		switch {
		case leafMode:
			lrows := make([]c01DurLeafRow, nrows)
			for i := range lrows {
				lrows[i] = c01DurLeafRow{Ms: int32(g(i, 0)), Us: g(i, 1), Ns: g(i, 2)}
			}
			w := parquet.NewGenericWriter[c01DurLeafRow](&out)
			if _, err := w.Write(lrows); err != nil {
				return err
			}
			return w.Close()
		case writer == "generic-writer":
			w := parquet.NewGenericWriter[c01DurRow](&out)
			if _, err := w.Write(rows); err != nil {
				return err
			}
			return w.Close()
		case writer == "generic-writer-any":
			w := parquet.NewGenericWriter[any](&out, parquet.SchemaOf(c01DurRow{}))
			arows := make([]any, nrows)
			for i := range rows {
				arows[i] = rows[i]
			}
			if _, err := w.Write(arows); err != nil {
				return err
			}
			return w.Close()
		case writer == "writer-write" && noMs:
			w := parquet.NewWriter(&out, parquet.SchemaOf(c01DurRowNoMs{}))
			for i := range rows {
				x := c01DurRowNoMs(rows[i])
				if err := w.Write(&x); err != nil {
					return err
				}
			}
			return w.Close()
		case writer == "writer-write":
			w := parquet.NewWriter(&out, parquet.SchemaOf(c01DurRow{}))
			for i := range rows {
				if err := w.Write(&rows[i]); err != nil {
					return err
				}
			}
			return w.Close()
		default:
			b := parquet.NewGenericBuffer[c01DurRow]()
			if _, err := b.Write(rows); err != nil {
				return err
			}
			w := parquet.NewGenericWriter[c01DurRow](&out)
			if _, err := w.WriteRowGroup(b); err != nil {
				return err
			}
			return w.Close()
		}
	}()
	if werr != nil {
		ctx.Hist("duration-write", path+" failed")
		ctx.Fail("L1", fmt.Sprintf("duration write-error path=%s ms-columns=%v %s", path, !noMs, errClass(werr)), "writing time.Duration fields on TIME columns failed: "+werr.Error(), detail(nil))
		// L2: the mirror must say panic for the first value written
		if !leafMode {
			ans, err := d.AskMany([]string{fmt.Sprintf("c01.dur %s ms %d", path, g(0, 0))})
			if err != nil {
				ctx.Fail("L2", "driver-error", err.Error(), nil)
			} else if ans[0] != "panic" || noMs {
				ctx.Fail("L2", "duration write-fails-mirror-does-not path="+path, "the real writer failed ("+werr.Error()+"), the mirror answers "+ans[0], detail(nil))
			}
		}
		return
	}
	ctx.Hist("duration-write", path+" ok")
	data := out.Bytes()
	f, err := parquet.OpenFile(bytes.NewReader(data), int64(len(data)))
	if err != nil {
		ctx.Fail("L1", "duration open-error", err.Error(), detail(nil))
		return
	}
	var stored []parquet.Row
	for _, rg := range f.RowGroups() {
		rr := rg.Rows()
		buf := make([]parquet.Row, 16)
		for {
			k, err := rr.ReadRows(buf)
			for _, row := range buf[:k] {
				stored = append(stored, row.Clone())
			}
			if err != nil {
				if err != io.EOF {
					ctx.Fail("L1", "duration read-error reader=rows", err.Error(), detail(nil))
				}
				break
			}
		}
		rr.Close()
	}
	got, rerr := func() (g []c01DurRow, err error) {
		defer func() {
			if p := recover(); p != nil {
				err = fmt.Errorf("PANIC: %v", p)
			}
		}()
		switch {
		case leafMode:
			x, err := parquet.Read[c01DurLeafRead](bytes.NewReader(data), int64(len(data)))
			for _, y := range x {
				g = append(g, c01DurRow{Ms: y.Ms, Us: y.Us, Ns: y.Ns})
			}
			return g, err
		case noMs:
			x, err := parquet.Read[c01DurRowNoMs](bytes.NewReader(data), int64(len(data)))
			for _, y := range x {
				g = append(g, c01DurRow(y))
			}
			return g, err
		}
		return parquet.Read[c01DurRow](bytes.NewReader(data), int64(len(data)))
	}()
	if rerr != nil {
		ctx.Fail("L1", "duration read-error reader=Read[T] path="+path+" "+errClass(rerr), rerr.Error(), detail(nil))
		return
	}
	if len(got) != nrows || len(stored) != nrows {
		ctx.Fail("L1", "duration row-count", fmt.Sprintf("%d rows written, Read[T] %d, Rows() %d", nrows, len(got), len(stored)), detail(nil))
		return
	}
	var reqs, reals, units []string
	var where [][2]int
	for i := range vals {
		back := []*time.Duration{&got[i].Ms, &got[i].Us, &got[i].Ns, got[i].PMs, got[i].PUs}
		for k, u := range c01DurFields {
			if colOf[k] < 0 {
				continue
			}
			sv := stored[i][colOf[k]]
			if vals[i][k] == nil {
				if !sv.IsNull() || back[k] != nil {
					ctx.Fail("L1", "duration null-not-null unit="+u+" path="+path, "a nil pointer is stored or read back as a value", detail(map[string]any{"row": i, "field": k}))
				}
				continue
			}
			v := *vals[i][k]
			leaf := int64(0)
			leafText := "null"
			if !sv.IsNull() {
				if u == "ms" {
					leaf = int64(sv.Int32())
				} else {
					leaf = sv.Int64()
				}
				leafText = fmt.Sprint(leaf)
			}
			backText := "null"
			if back[k] != nil {
				backText = fmt.Sprint(int64(*back[k]))
			}
			unit := c01UnitNanos(u)
			if leafMode {
				// (d) the stored leaf is the leaf written; the duration is leaf*unit when that fits int64
				if leafText != fmt.Sprint(v) {
					ctx.Fail("L1", "duration leaf-not-stored-as-written unit="+u, fmt.Sprintf("leaf %d stored as %s", v, leafText), detail(map[string]any{"row": i, "field": k}))
				}
				prod := new(big.Int).Mul(big.NewInt(v), big.NewInt(unit))
				class := "fits-int64"
				if !prod.IsInt64() {
					class = "outside-int64-nanoseconds"
				} else if backText != prod.String() {
					ctx.Fail("L1", "duration leaf-read-differs unit="+u, fmt.Sprintf("leaf %d of TIME(%s) read as %s ns", v, u, backText), detail(map[string]any{"row": i, "field": k}))
				}
				ctx.Hist("duration-class", "leaf "+u+" "+class)
				// what writing the duration read back stores again
				again := "?"
				if back[k] != nil {
					again = fmt.Sprint(c01DurAgain(u, int64(*back[k])))
				}
				reqs = append(reqs, fmt.Sprintf("c01.durleaf %s %d", u, v))
				reals = append(reals, fmt.Sprintf("ok %s %s", backText, again))
			} else {
				count := v / unit // toward zero
				class := "fits-column"
				if u == "ms" && count != int64(int32(count)) {
					class = "outside-int32-milliseconds"
				}
				ctx.Hist("duration-class", "duration "+u+" "+class)
				if class == "fits-column" {
					if leafText != fmt.Sprint(count) {
						ctx.Fail("L1", "duration stored-leaf-differs unit="+u+" path="+path, fmt.Sprintf("%d ns stored as %s on a TIME(%s) column, the count of units is %d", v, leafText, u, count), detail(map[string]any{"row": i, "field": k}))
					} else if backText != fmt.Sprint(count*unit) {
						ctx.Fail("L1", "duration read-back-differs unit="+u+" path="+path, fmt.Sprintf("wrote %d ns, read %s ns, want %d", v, backText, count*unit), detail(map[string]any{"row": i, "field": k}))
					}
				}
				reqs = append(reqs, fmt.Sprintf("c01.dur %s %s %d", path, u, v))
				reals = append(reals, fmt.Sprintf("ok %s %s", leafText, backText))
			}
			units = append(units, u)
			where = append(where, [2]int{i, k})
		}
	}
	if len(reqs) == 0 {
		return
	}
	ans, err := d.AskMany(reqs)
	if err != nil {
		ctx.Fail("L2", "driver-error", err.Error(), nil)
		return
	}
	for j := range reqs {
		if ans[j] != reals[j] {
			ctx.Fail("L2", "duration mirror-differs path="+path+" unit="+units[j], "stored leaf / duration read back differ from the Lean mirror", detail(map[string]any{"row": where[j][0], "field": where[j][1], "model": ans[j], "real": reals[j], "request": reqs[j]}))
		}
	}
}

// the leaf `writeDuration` stores for a duration (Go semantics written out: used only to report what
// the real conversion functions of package time give, the comparison is with the Lean mirror)
func c01DurAgain(u string, d int64) int64 {
	switch u {
	case "ms":
		return int64(int32(time.Duration(d).Milliseconds()))
	case "us":
		return time.Duration(d).Microseconds()
	}
	return time.Duration(d).Nanoseconds()
}
