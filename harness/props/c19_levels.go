package props

import (
	"bytes"
	"encoding/hex"
	"fmt"
	"io"
	"math"
	"math/bits"
	"math/rand"
	"sort"
	"strconv"
	"strings"

	"github.com/parquet-go/parquet-go"

	"verifharness/core"
	"verifharness/drv"
)

// Property C19, shredding, Dremel levels.
//
//	L2  (writer) the (definition level, repetition level, value) cells of every leaf column below the
//	    variant group, as found in the file written by the raw write paths, equal the cells of the Lean
//	    level MIRROR `emit` (op variant.cells) — top-level columns and columns below repeated / optional
//	    ancestors (the events of the ancestors are computed here, from the Dremel rules).
//	L1  (reader, foreign files) files are built cell by cell from the level mirror with parquet.Row
//	    values, the way another writer would: DECIMAL typed_value columns on BYTE_ARRAY with
//	    minimal-length or arbitrarily sign-padded big-endian bytes, or on FIXED_LEN_BYTE_ARRAY(n < 16);
//	    every read path (shredded raw / Go-native, conversion to unshredded, legacy reader, cursor,
//	    evolved reader schemas) must return the values that were shredded.
//	L2  (reader) the primitive read from a foreign typed_value leaf equals the Lean MIRROR `ofCol`.

type c19Cell struct {
	def, rep int
	pay      string // "-" = null, else the canonical leaf text (x<hex>, i32:, i64:, f32:, f64:, b0|b1)
}

func (c c19Cell) String() string { return fmt.Sprintf("%d.%d.%s", c.def, c.rep, c.pay) }

func c19CellsText(cs []c19Cell) string {
	out := make([]string, len(cs))
	for i, c := range cs {
		out[i] = c.String()
	}
	return strings.Join(out, ",")
}

// one Dremel event of the variant subtree within a row: a null / empty ancestor (every leaf column gets
// one null at (def, rep)), or an occurrence of the group at definition level g, repetition depth r,
// whose first cell repeats at rep
type c19Ev struct {
	null     bool
	def, rep int
	g, r     int
}

var c19ShapePrefix = map[string]string{
	"top":               "var.",
	"repeated":          "items.v.",
	"repeated-repeated": "outer.inner.v.",
	"optional":          "opt.v.",
	"optional-repeated": "opt.inner.v.",
	"repeated-optional": "items.opt.v.",
}

// the events of one row from the sizes of its groups (see c19Occ), by the Dremel rules of the ancestors
func c19AncestorEvents(shape string, sizes []int) []c19Ev {
	var out []c19Ev
	switch shape {
	case "top":
		out = append(out, c19Ev{g: 0, r: 0, rep: 0})
	case "repeated": // items: repeated group
		if len(sizes) == 0 || sizes[0] == 0 {
			return []c19Ev{{null: true}}
		}
		for j := 0; j < sizes[0]; j++ {
			out = append(out, c19Ev{g: 1, r: 1, rep: min(j, 1)})
		}
	case "repeated-repeated": // outer: repeated group { inner: repeated group }
		if len(sizes) == 0 {
			return []c19Ev{{null: true}}
		}
		for i, k := range sizes {
			if k == 0 {
				out = append(out, c19Ev{null: true, def: 1, rep: min(i, 1)})
			}
			for j := 0; j < k; j++ {
				rep := 2
				if j == 0 {
					rep = min(i, 1)
				}
				out = append(out, c19Ev{g: 2, r: 2, rep: rep})
			}
		}
	case "optional": // opt: optional group
		if len(sizes) == 0 {
			return []c19Ev{{null: true}}
		}
		out = append(out, c19Ev{g: 1, r: 0, rep: 0})
	case "repeated-optional": // items: repeated group { opt: optional group }; sizes[j] = 0: opt is null
		if len(sizes) == 0 {
			return []c19Ev{{null: true}}
		}
		for j, k := range sizes {
			if k == 0 {
				out = append(out, c19Ev{null: true, def: 1, rep: min(j, 1)})
			} else {
				out = append(out, c19Ev{g: 2, r: 1, rep: min(j, 1)})
			}
		}
	case "optional-repeated": // opt: optional group { inner: repeated group }
		if len(sizes) == 0 {
			return []c19Ev{{null: true}}
		}
		if sizes[0] == 0 {
			return []c19Ev{{null: true, def: 1}}
		}
		for j := 0; j < sizes[0]; j++ {
			out = append(out, c19Ev{g: 2, r: 1, rep: min(j, 1)})
		}
	}
	return out
}

// answer of variant.cells: "ok <metadata hex> <col>;<col>;…"
func c19ParseCells(ans string) (meta string, cols [][]c19Cell, ok bool) {
	f := strings.Fields(ans)
	if len(f) != 3 || f[0] != "ok" {
		return "", nil, false
	}
	for _, col := range strings.Split(f[2], ";") {
		var cs []c19Cell
		for _, c := range strings.Split(col, ",") {
			p := strings.SplitN(c, ".", 3)
			if len(p) != 3 {
				return "", nil, false
			}
			d, e1 := strconv.Atoi(p[0])
			rp, e2 := strconv.Atoi(p[1])
			if e1 != nil || e2 != nil {
				return "", nil, false
			}
			cs = append(cs, c19Cell{d, rp, p[2]})
		}
		cols = append(cols, cs)
	}
	return strings.TrimPrefix(f[1], "-"), cols, true
}

func c19ValueText(v parquet.Value) string {
	if v.IsNull() {
		return "-"
	}
	switch v.Kind() {
	case parquet.Boolean:
		if v.Boolean() {
			return "b1"
		}
		return "b0"
	case parquet.Int32:
		return fmt.Sprintf("i32:%d", v.Int32())
	case parquet.Int64:
		return fmt.Sprintf("i64:%d", v.Int64())
	case parquet.Float:
		return fmt.Sprintf("f32:%08x", math.Float32bits(v.Float()))
	case parquet.Double:
		return fmt.Sprintf("f64:%016x", math.Float64bits(v.Double()))
	case parquet.ByteArray, parquet.FixedLenByteArray:
		return "x" + hex.EncodeToString(v.ByteArray())
	}
	return "?" + v.Kind().String()
}

// every leaf column of the file, by dotted path, with levels
func c19ColumnCells(data []byte) (cols map[string][]c19Cell, err error) {
	cols = map[string][]c19Cell{}
	err = c19Guard(func() error {
		f, err := parquet.OpenFile(bytes.NewReader(data), int64(len(data)))
		if err != nil {
			return err
		}
		paths := f.Schema().Columns()
		for _, rg := range f.RowGroups() {
			for ci, cc := range rg.ColumnChunks() {
				path := strings.Join(paths[ci], ".")
				pages := cc.Pages()
				for {
					p, err := pages.ReadPage()
					if err == io.EOF {
						break
					}
					if err != nil {
						pages.Close()
						return err
					}
					vals := make([]parquet.Value, p.NumValues())
					k, _ := p.Values().ReadValues(vals)
					for _, v := range vals[:k] {
						cols[path] = append(cols[path], c19Cell{v.DefinitionLevel(), v.RepetitionLevel(), c19ValueText(v)})
					}
					parquet.Release(p)
				}
				pages.Close()
			}
		}
		return nil
	})
	return
}

// the cells the level mirror puts into the leaf columns `prefix+{metadata, leafPaths…}` for the rows
// described by evs (occurrence i of the file takes answers[i])
func c19ModelColumns(prefix string, s *c19Schema, evs [][]c19Ev, answers []string) (cols map[string][]c19Cell, perRow []map[string][]c19Cell, bad string) {
	var leafPaths []string
	s.leafPaths(prefix, &leafPaths)
	all := append([]string{prefix + "metadata"}, leafPaths...)
	cols = map[string][]c19Cell{}
	k := 0
	for _, row := range evs {
		rowCols := map[string][]c19Cell{}
		for _, ev := range row {
			if ev.null {
				for _, path := range all {
					rowCols[path] = append(rowCols[path], c19Cell{ev.def, ev.rep, "-"})
				}
				continue
			}
			meta, mc, ok := c19ParseCells(answers[k])
			if !ok || len(mc) != len(leafPaths) {
				return nil, nil, answers[k]
			}
			k++
			rowCols[all[0]] = append(rowCols[all[0]], c19Cell{ev.g, ev.rep, "x" + meta})
			for j, path := range leafPaths {
				rowCols[path] = append(rowCols[path], mc[j]...)
			}
		}
		for path, cs := range rowCols {
			cols[path] = append(cols[path], cs...)
		}
		perRow = append(perRow, rowCols)
	}
	return cols, perRow, ""
}

func c19CellRequests(s *c19Schema, evs [][]c19Ev, nodes []*c19Node) []string {
	stxt := s.String()
	var reqs []string
	k := 0
	for _, row := range evs {
		for _, ev := range row {
			if ev.null {
				continue
			}
			reqs = append(reqs, fmt.Sprintf("variant.cells %d %d %d %s %s", ev.g, ev.r, ev.rep, stxt, nodes[k].SortedString()))
			k++
		}
	}
	return reqs
}

// L2 (writer): file cells against the level mirror, for a file written by a raw write path
func c19CheckLevels(ctx *core.Ctx, p *c19Pending, shape string, s *c19Schema, data []byte, wname string,
	evs [][]c19Ev, nodes []*c19Node, detail func(map[string]any) map[string]any) {
	if s.kind == "none" {
		return // an unshredded group has a required value column
	}
	// the raw paths decode the caller's bytes (fields come out sorted): levels and values are determined;
	// the Go-native and columnar paths order object fields themselves: levels and null-ness only
	masked := !strings.HasPrefix(wname, "raw-")
	mask := func(cs []c19Cell) []c19Cell {
		if !masked {
			return cs
		}
		out := make([]c19Cell, len(cs))
		for i, c := range cs {
			if c.pay != "-" {
				c.pay = "v"
			}
			out[i] = c
		}
		return out
	}
	reqs := c19CellRequests(s, evs, nodes)
	if len(reqs) == 0 {
		return
	}
	fileCols, err := c19ColumnCells(data)
	if err != nil {
		ctx.Fail("L2", "column-scan-fails "+wname, err.Error(), detail(nil))
		return
	}
	answers := make([]string, len(reqs))
	left := len(reqs)
	prefix := c19ShapePrefix[shape]
	for i, req := range reqs {
		i := i
		p.add(req, func(ans string) {
			answers[i] = ans
			left--
			if left > 0 {
				return
			}
			model, _, bad := c19ModelColumns(prefix, s, evs, answers)
			if bad != "" {
				ctx.Fail("L2", "level-model-error", "the level model does not answer", detail(map[string]any{"model": bad}))
				return
			}
			paths := make([]string, 0, len(model))
			for path := range model {
				paths = append(paths, path)
			}
			sort.Strings(paths)
			for _, path := range paths {
				got, want := c19CellsText(mask(fileCols[path])), c19CellsText(mask(model[path]))
				if got != want {
					ctx.Fail("L2", "shred-levels "+wname+" under="+shape+" schema="+s.kind,
						"leaf column "+path+" does not hold the (definition level, repetition level, value) cells the level mirror of the shredding writer puts there",
						detail(map[string]any{"column": path, "file_cells": got, "model_cells": want}))
					return
				}
			}
			ctx.Hist("shred.l2", map[bool]string{false: "column levels and values", true: "column levels"}[masked]+" compared under="+shape)
		})
	}
}

func c19NestedLevels(ctx *core.Ctx, p *c19Pending, shape string, s *c19Schema, data []byte, wname string,
	evs [][]c19Ev, nodes []*c19Node, detail func(map[string]any) map[string]any) {
	c19CheckLevels(ctx, p, shape, s, data, wname, evs, nodes, detail)
}

// ---------------------------------------------------------------- foreign files

// physical layout a foreign writer may choose for a DECIMAL typed_value wider than 8 bytes
type c19Phys struct {
	kind string // ba-min, ba-pad, flba
	flen int
}

func (p c19Phys) String() string {
	if p.kind == "flba" {
		return fmt.Sprintf("flba%d", p.flen)
	}
	return p.kind
}

// smallest n such that every |x| < 10^prec fits n bytes two's complement
func c19DecimalBytes(prec int) int {
	bound := new(bigUint).pow10(prec)
	for n := 1; n < 16; n++ {
		if bound.fitsSigned(n) {
			return n
		}
	}
	return 16
}

// minimal big-endian two's complement form of a 16-byte big-endian value
func c19TrimBE(be []byte) []byte {
	b := be
	for len(b) > 1 {
		if (b[0] == 0x00 && b[1]&0x80 == 0) || (b[0] == 0xFF && b[1]&0x80 != 0) {
			b = b[1:]
			continue
		}
		break
	}
	return b
}

func c19PadBE(b []byte, n int) []byte {
	if len(b) >= n {
		return b
	}
	out := make([]byte, n)
	fill := byte(0)
	if b[0]&0x80 != 0 {
		fill = 0xFF
	}
	for i := 0; i < n-len(b); i++ {
		out[i] = fill
	}
	copy(out[n-len(b):], b)
	return out
}

// tiny unsigned 128-bit helper (10^prec and range tests), to stay independent of the library
type bigUint struct{ hi, lo uint64 }

func (b *bigUint) pow10(p int) *bigUint {
	b.hi, b.lo = 0, 1
	for i := 0; i < p; i++ {
		// multiply by 10
		h1, l1 := mul64(b.lo, 10)
		b.hi = b.hi*10 + h1
		b.lo = l1
	}
	return b
}

func mul64(a, c uint64) (hi, lo uint64) { return bits.Mul64(a, c) }

// 10^p - 1 < 2^(8n-1)
func (b *bigUint) fitsSigned(n int) bool {
	nb := uint(8*n - 1)
	if nb >= 128 {
		return true
	}
	if nb >= 64 {
		return b.hi < 1<<(nb-64) || (b.hi == 1<<(nb-64) && b.lo == 0)
	}
	return b.hi == 0 && b.lo <= 1<<nb
}

// a deep copy of s where every 16-byte DECIMAL leaf gets a foreign physical layout
func (s *c19Schema) foreign(r *rand.Rand, phys map[*c19Schema]c19Phys) *c19Schema {
	c := *s
	switch s.kind {
	case "list":
		c.elem = s.elem.foreign(r, phys)
	case "obj":
		c.fields = make([]*c19Schema, len(s.fields))
		for i, f := range s.fields {
			c.fields[i] = f.foreign(r, phys)
		}
	case "prim":
		if strings.HasPrefix(s.tag, "d16:") {
			var prec, sc int
			fmt.Sscanf(s.tag, "d16:%d:%d", &prec, &sc)
			ph := c19Phys{kind: []string{"ba-min", "ba-min", "ba-pad", "flba", "flba"}[r.Intn(5)]}
			typ := parquet.ByteArrayType
			if ph.kind == "flba" {
				ph.flen = min(16, c19DecimalBytes(prec)+r.Intn(3))
				typ = parquet.FixedLenByteArrayType(ph.flen)
			}
			c.node = func() parquet.Node { return parquet.Decimal(sc, prec, typ) }
			phys[&c] = ph
		}
	}
	return &c
}

// the schema nodes of the leaf columns below the group, in the order of leafPaths (nil = a value column)
func (s *c19Schema) leafSchemas(out *[]*c19Schema) {
	*out = append(*out, nil)
	switch s.kind {
	case "prim":
		*out = append(*out, s)
	case "list":
		s.elem.leafSchemas(out)
	case "obj":
		for _, f := range s.fields {
			f.leafSchemas(out)
		}
	}
}

// a 16-byte decimal (little endian, as c19Node holds it) of 1..maxBytes significant bytes whose sign and
// the top bit of its low-order byte are independent
func c19ForeignDec16(r *rand.Rand, prec, scale int) *c19Node {
	maxBytes := c19DecimalBytes(prec)
	n := &c19Node{kind: "d16", scale: byte(scale), b: make([]byte, 16)}
	for tries := 0; ; tries++ {
		var x [16]byte // big endian
		k := 1 + r.Intn(maxBytes)
		if tries > 20 {
			k = 1
		}
		sig := make([]byte, k)
		r.Read(sig)
		switch r.Intn(6) {
		case 0:
			sig[k-1] = 0xFF
		case 1:
			sig[k-1] = 0x80
		case 2:
			sig[k-1] = 0x00
		case 3:
			sig[k-1] = 0x7F
		}
		if r.Intn(2) == 0 {
			sig[0] |= 0x80
		} else {
			sig[0] &= 0x7F
		}
		copy(x[:], c19PadBE(sig, 16))
		// magnitude < 10^prec ?
		neg := x[0]&0x80 != 0
		var hi, lo uint64
		for i := 0; i < 8; i++ {
			hi = hi<<8 | uint64(x[i])
			lo = lo<<8 | uint64(x[8+i])
		}
		if neg {
			lo = ^lo + 1
			hi = ^hi
			if lo == 0 {
				hi++
			}
		}
		bound := new(bigUint).pow10(prec)
		if prec < 39 && !(hi < bound.hi || (hi == bound.hi && lo < bound.lo)) {
			continue
		}
		for i := 0; i < 16; i++ {
			n.b[i] = x[15-i]
		}
		return n
	}
}

// replace, with probability 3/4, the values sitting where the schema has a 16-byte DECIMAL leaf
func c19ForeignValues(r *rand.Rand, s *c19Schema, n *c19Node) *c19Node {
	if s == nil || n == nil {
		return n
	}
	switch s.kind {
	case "prim":
		if strings.HasPrefix(s.tag, "d16:") && !n.isContainer() && r.Intn(4) > 0 {
			var prec, sc int
			fmt.Sscanf(s.tag, "d16:%d:%d", &prec, &sc)
			return c19ForeignDec16(r, prec, sc)
		}
	case "list":
		if n.kind == "arr" {
			for i, e := range n.elems {
				n.elems[i] = c19ForeignValues(r, s.elem, e)
			}
		}
	case "obj":
		if n.kind == "obj" {
			for i, k := range n.keys {
				for j, name := range s.names {
					if name == k {
						n.elems[i] = c19ForeignValues(r, s.fields[j], n.elems[i])
					}
				}
			}
		}
	}
	return n
}

func c19ForeignSchema(r *rand.Rand) *c19Schema {
	dec := func() *c19Schema {
		p := []int{3, 20, 38, 10, 27}[r.Intn(5)]
		sc := []int{0, 2}[r.Intn(2)]
		return &c19Schema{kind: "prim", tag: fmt.Sprintf("d16:%d:%d", p, sc), node: func() parquet.Node { return parquet.Decimal(sc, p, parquet.ByteArrayType) }}
	}
	switch r.Intn(10) {
	case 0, 1, 2, 3:
		return dec()
	case 4, 5:
		return &c19Schema{kind: "list", elem: dec()}
	case 6, 7:
		return &c19Schema{kind: "obj", names: []string{"a", "b"}, fields: []*c19Schema{dec(), c19RandSchema(r, 2)}}
	case 8:
		return &c19Schema{kind: "list", elem: &c19Schema{kind: "list", elem: dec()}}
	}
	return c19RandSchema(r, 0)
}

func c19LeafValue(pay string, kind parquet.Kind) (parquet.Value, error) {
	switch {
	case pay == "-":
		return parquet.NullValue(), nil
	case pay == "b0" || pay == "b1":
		return parquet.BooleanValue(pay == "b1"), nil
	case strings.HasPrefix(pay, "i32:"):
		x, err := strconv.ParseInt(pay[4:], 10, 32)
		return parquet.Int32Value(int32(x)), err
	case strings.HasPrefix(pay, "i64:"):
		x, err := strconv.ParseInt(pay[4:], 10, 64)
		return parquet.Int64Value(x), err
	case strings.HasPrefix(pay, "f32:"):
		x, err := strconv.ParseUint(pay[4:], 16, 32)
		return parquet.FloatValue(math.Float32frombits(uint32(x))), err
	case strings.HasPrefix(pay, "f64:"):
		x, err := strconv.ParseUint(pay[4:], 16, 64)
		return parquet.DoubleValue(math.Float64frombits(x)), err
	case strings.HasPrefix(pay, "x"):
		b, err := hex.DecodeString(pay[1:])
		if kind == parquet.FixedLenByteArray {
			return parquet.FixedLenByteArrayValue(b), err
		}
		return parquet.ByteArrayValue(b), err
	}
	return parquet.Value{}, fmt.Errorf("leaf payload %q", pay)
}

// c19ForeignFile builds the file a foreign writer would produce: the cells of the level mirror, DECIMAL
// payloads re-encoded per phys, written as raw parquet.Row values. ids are the values of column "id".
func c19ForeignFile(r *rand.Rand, d *drv.Driver, schema *parquet.Schema, shape string, s *c19Schema, phys map[*c19Schema]c19Phys,
	evs [][]c19Ev, nodes []*c19Node) (data []byte, cellsText map[string]string, short []string, err error) {
	reqs := c19CellRequests(s, evs, nodes)
	var answers []string
	if len(reqs) > 0 {
		if answers, err = d.AskMany(reqs); err != nil {
			return nil, nil, nil, fmt.Errorf("driver: %w", err)
		}
	}
	prefix := c19ShapePrefix[shape]
	_, perRow, bad := c19ModelColumns(prefix, s, evs, answers)
	if bad != "" {
		return nil, nil, nil, fmt.Errorf("level model: %s", bad)
	}
	var leafPaths []string
	s.leafPaths(prefix, &leafPaths)
	var leafSchemas []*c19Schema
	s.leafSchemas(&leafSchemas)
	type colInfo struct {
		path string
		idx  int
		kind parquet.Kind
		ph   *c19Phys
	}
	var infos []colInfo
	add := func(path string, ls *c19Schema) error {
		leaf, ok := schema.Lookup(strings.Split(path, ".")...)
		if !ok {
			return fmt.Errorf("no leaf column %s in %s", path, schema)
		}
		ci := colInfo{path: path, idx: leaf.ColumnIndex, kind: leaf.Node.Type().Kind()}
		if ls != nil {
			if ph, ok := phys[ls]; ok {
				ci.ph = &ph
			}
		}
		infos = append(infos, ci)
		return nil
	}
	if err = add(prefix+"metadata", nil); err != nil {
		return
	}
	for j, path := range leafPaths {
		if err = add(path, leafSchemas[j]); err != nil {
			return
		}
	}
	idLeaf, _ := schema.Lookup("id")
	sort.Slice(infos, func(a, b int) bool { return infos[a].idx < infos[b].idx })
	cellsText = map[string]string{}
	rows := make([]parquet.Row, len(evs))
	for i := range evs {
		row := parquet.Row{parquet.Int32Value(int32(i)).Level(0, 0, idLeaf.ColumnIndex)}
		for _, ci := range infos {
			for _, c := range perRow[i][ci.path] {
				pay := c.pay
				if ci.ph != nil && strings.HasPrefix(pay, "x") {
					be, _ := hex.DecodeString(pay[1:])
					b := c19TrimBE(be)
					switch ci.ph.kind {
					case "ba-pad":
						b = c19PadBE(b, len(b)+r.Intn(17-len(b)))
					case "flba":
						b = c19PadBE(b, ci.ph.flen)
					}
					pay = "x" + hex.EncodeToString(b)
					if len(b) < 16 {
						short = append(short, pay)
					}
				}
				v, e := c19LeafValue(pay, ci.kind)
				if e != nil {
					return nil, nil, nil, e
				}
				row = append(row, v.Level(c.rep, c.def, ci.idx))
				cellsText[ci.path] += fmt.Sprintf("%d.%d.%s ", c.def, c.rep, pay)
			}
		}
		rows[i] = row
	}
	buf := new(bytes.Buffer)
	err = c19Guard(func() error {
		w := parquet.NewWriter(buf, schema)
		if _, err := w.WriteRows(rows); err != nil {
			return err
		}
		return w.Close()
	})
	return buf.Bytes(), cellsText, short, err
}

func c19PhysText(phys map[*c19Schema]c19Phys) string {
	var out []string
	for _, ph := range phys {
		out = append(out, ph.String())
	}
	sort.Strings(out)
	if len(out) == 0 {
		return "plain"
	}
	return strings.Join(out, "+")
}

func c19PhysClass(phys map[*c19Schema]c19Phys) string {
	seen := map[string]bool{}
	for _, ph := range phys {
		seen[ph.kind] = true
	}
	var out []string
	for k := range seen {
		out = append(out, k)
	}
	sort.Strings(out)
	if len(out) == 0 {
		return "plain"
	}
	return strings.Join(out, "+")
}

// c19ForeignTop: a top-level variant column of a foreign file, all read paths
func c19ForeignTop(ctx *core.Ctx, r *rand.Rand, d *drv.Driver, p *c19Pending) {
	base := c19ForeignSchema(r)
	phys := map[*c19Schema]c19Phys{}
	s := base.foreign(r, phys)
	stxt := s.String()
	var variantNode parquet.Node
	if err := c19Guard(func() error { var e error; variantNode, e = parquet.ShreddedVariant(s.parquetNode()); return e }); err != nil {
		ctx.Fail("L1", "shredded-schema-rejected foreign "+s.kind, "ShreddedVariant rejects a valid shredding schema: "+err.Error(),
			map[string]any{"schema": stxt, "physical": c19PhysText(phys)})
		return
	}
	nrows := 4 + r.Intn(6)
	nodes := make([]*c19Node, nrows)
	for i := range nodes {
		nodes[i] = c19ForeignValues(r, s, c19ShredValue(r, s, 0, false))
	}
	c19ForeignTopRun(ctx, r, d, p, s, phys, variantNode, nodes)
}

// directed: decimals whose sign and low-order byte disagree, in every foreign layout
func c19ForeignDirected(ctx *core.Ctx, r *rand.Rand, d *drv.Driver, p *c19Pending) {
	if d == nil {
		return
	}
	dec := func(x int64) *c19Node {
		n := &c19Node{kind: "d16", scale: 2, b: make([]byte, 16)}
		for i := 0; i < 16; i++ {
			if i < 8 {
				n.b[i] = byte(uint64(x) >> (8 * i))
			} else if x < 0 {
				n.b[i] = 0xFF
			}
		}
		return n
	}
	for _, ph := range []c19Phys{{kind: "ba-min"}, {kind: "ba-pad"}, {kind: "flba", flen: 9}, {kind: "flba", flen: 12}, {kind: "flba", flen: 16}} {
		typ := parquet.ByteArrayType
		if ph.kind == "flba" {
			typ = parquet.FixedLenByteArrayType(ph.flen)
		}
		s := &c19Schema{kind: "prim", tag: "d16:20:2", node: func() parquet.Node { return parquet.Decimal(2, 20, typ) }}
		phys := map[*c19Schema]c19Phys{s: ph}
		variantNode, err := parquet.ShreddedVariant(s.parquetNode())
		if err != nil {
			ctx.Fail("L1", "shredded-schema-rejected foreign prim", "ShreddedVariant rejects a valid shredding schema: "+err.Error(), map[string]any{"physical": ph.String()})
			continue
		}
		var nodes []*c19Node
		for _, x := range []int64{0, 1, -1, 127, 128, -128, -129, 255, 256, -256, -255, 12345, -12345, -12544, 1_000_000_128, -9_999_999_872,
			32767, 32768, -32768, -32769, 0x7FFFFFFFFFFFFF80, -0x7FFFFFFFFFFFFF80, math.MaxInt64, math.MinInt64} {
			nodes = append(nodes, dec(x))
		}
		c19ForeignTopRun(ctx, r, d, p, s, phys, variantNode, nodes)
	}
}

func c19ForeignTopRun(ctx *core.Ctx, r *rand.Rand, d *drv.Driver, p *c19Pending, s *c19Schema, phys map[*c19Schema]c19Phys, variantNode parquet.Node, nodes []*c19Node) {
	stxt := s.String()
	schema := parquet.NewSchema("table", parquet.Group{"id": parquet.Int(32), "var": variantNode})
	nrows := len(nodes)
	evs := make([][]c19Ev, nrows)
	want := make([]string, nrows)
	wantNative := make([]string, nrows)
	canon := "foreign top " + stxt + " " + c19PhysText(phys)
	for i := range nodes {
		evs[i] = c19AncestorEvents("top", nil)
		want[i] = nodes[i].SortedString()
		var sb strings.Builder
		nodes[i].nativeText(&sb)
		wantNative[i] = sb.String()
		canon += " " + nodes[i].String()
	}
	ctx.Case(canon, true)
	ctx.Hist("foreign.schema", s.kind)
	ctx.Hist("foreign.physical", c19PhysClass(phys))
	data, cells, short, err := c19ForeignFile(r, d, schema, "top", s, phys, evs, nodes)
	detail := func(extra map[string]any) map[string]any {
		m := map[string]any{"schema": stxt, "physical": c19PhysText(phys), "parquet_schema": schema.String(), "write": "foreign (raw parquet.Row cells from the level mirror)",
			"values": want, "cells": cells}
		for k, x := range extra {
			m[k] = x
		}
		return m
	}
	if err != nil {
		ctx.Fail("L1", "foreign-write-fails schema="+s.kind, "writing raw rows of a shredded variant column fails: "+err.Error(), detail(nil))
		return
	}
	ctx.HistN("foreign.short-decimals", c19Bucket(len(short)), 1)
	cls := " physical=" + c19PhysClass(phys) + " schema=" + s.kind
	for _, rp := range []string{"raw-direct", "native-direct", "convert", "legacy-unshredded"} {
		ctx.Hist("foreign.read", rp)
		got, err := c19ReadPath(rp, data, schema, nrows)
		if err != nil {
			ctx.Fail("L1", "foreign-read-fails "+rp+cls, "reading a foreign-written shredded variant column fails: "+err.Error(), detail(map[string]any{"read": rp}))
			continue
		}
		if len(got) != nrows {
			ctx.Fail("L1", "foreign-row-count "+rp+cls, fmt.Sprintf("read %d rows, the file has %d", len(got), nrows), detail(map[string]any{"read": rp}))
			continue
		}
		for i, g := range got {
			if g.raw != nil {
				v, err := c19Decode(g.raw.Metadata, g.raw.Value)
				if err != nil {
					ctx.Fail("L1", "foreign-readback-undecodable "+rp+cls, "the variant bytes read back do not decode: "+err.Error(), detail(map[string]any{"read": rp, "row": i}))
					break
				}
				if t := c19VText(v, true); t != want[i] {
					ctx.Fail("L1", "foreign-value-changed "+rp+cls, "the value read from a foreign-written shredded column is not the value that was shredded",
						detail(map[string]any{"read": rp, "row": i, "got": t, "want": want[i]}))
					break
				}
			} else {
				var sb strings.Builder
				c19GoText(g.native, &sb)
				if sb.String() != wantNative[i] {
					ctx.Fail("L1", "foreign-native-value-changed "+rp+cls, "the Go value read from a foreign-written shredded column is not the Go image of the value that was shredded",
						detail(map[string]any{"read": rp, "row": i, "got": sb.String(), "want": wantNative[i]}))
					break
				}
			}
		}
	}
	c19CheckCursor(ctx, data, want, []int{1, 3, 1000}[r.Intn(3)], "foreign->cursor"+cls, detail)
	c19CheckEvolved(ctx, data, want, "foreign"+cls, detail)
	// L2 (reader): a primitive typed_value column, leaf by leaf, against the mirror of parquetToVariantValue
	if s.kind == "prim" {
		raw, err := c19ReadPath("raw-direct", data, schema, nrows)
		if err == nil && len(raw) == nrows {
			for i := range raw {
				i := i
				f := strings.Fields(cells["var.typed_value"])
				if i >= len(f) {
					break
				}
				c := strings.SplitN(f[i], ".", 3)
				if len(c) != 3 || c[2] == "-" {
					continue
				}
				v, err := c19Decode(raw[i].raw.Metadata, raw[i].raw.Value)
				if err != nil {
					continue
				}
				got := c19VText(v, true)
				p.add("variant.ofcol "+s.tag+" "+c[2], func(ans string) {
					if ans != "ok "+got {
						ctx.Fail("L2", "typed-leaf-conversion"+cls, "the primitive read from a typed_value leaf is not what the mirror of parquetToVariantValue gives",
							detail(map[string]any{"row": i, "leaf": c[2], "go": got, "model": ans}))
					}
				})
				ctx.Hist("foreign.l2", "typed leaf conversions compared")
			}
		}
	}
}

// c19ForeignNested: a foreign file with the variant group below repeated / optional ancestors
func c19ForeignNested[A, R any](ctx *core.Ctx, r *rand.Rand, d *drv.Driver, sh c19Shape[A, R]) {
	var base *c19Schema
	if r.Intn(2) == 0 {
		base = c19ForeignSchema(r)
	} else {
		base = c19NestedSchema(r)
		if base.kind == "none" {
			base = c19ForeignSchema(r)
		}
	}
	phys := map[*c19Schema]c19Phys{}
	s := base.foreign(r, phys)
	stxt := s.String()
	var variantNode parquet.Node
	if err := c19Guard(func() error { var e error; variantNode, e = parquet.ShreddedVariant(s.parquetNode()); return e }); err != nil {
		ctx.Fail("L1", "shredded-schema-rejected foreign "+s.kind, "ShreddedVariant rejects a valid shredding schema: "+err.Error(),
			map[string]any{"schema": stxt, "physical": c19PhysText(phys)})
		return
	}
	schema := sh.schema(variantNode)
	readSchema := sh.schema(parquet.Variant())
	nrows := 3 + r.Intn(5)
	empties := r.Intn(2) == 0
	var evs [][]c19Ev
	var nodes []*c19Node
	want := make([][]string, nrows)
	wantNative := make([][]string, nrows)
	wantShape := make([]string, nrows)
	canon := "foreign " + sh.name + " " + stxt + " " + c19PhysText(phys)
	for i := 0; i < nrows; i++ {
		sizes := sh.occGen(r, empties)
		evs = append(evs, c19AncestorEvents(sh.name, sizes))
		occ := c19Occ[any]{}
		first := true
		for _, k := range sizes {
			g := make([]any, k)
			for range g {
				var n *c19Node
				if first && r.Intn(4) > 0 {
					n = c19LongArrayFor(r, s, false)
				} else {
					n = c19ShredValue(r, s, 0, false)
				}
				first = false
				n = c19ForeignValues(r, s, n)
				nodes = append(nodes, n)
				want[i] = append(want[i], n.SortedString())
				var sb strings.Builder
				n.nativeText(&sb)
				wantNative[i] = append(wantNative[i], sb.String())
				canon += " " + n.String()
			}
			occ = append(occ, g)
		}
		wantShape[i] = c19OccShape(occ)
		canon += " " + wantShape[i]
	}
	ctx.Case(canon, true)
	ctx.Hist("foreign.ancestor", sh.name)
	ctx.Hist("foreign.schema", s.kind)
	ctx.Hist("foreign.physical", c19PhysClass(phys))
	data, cells, short, err := c19ForeignFile(r, d, schema, sh.name, s, phys, evs, nodes)
	detail := func(extra map[string]any) map[string]any {
		m := map[string]any{"ancestor": sh.name, "schema": stxt, "physical": c19PhysText(phys), "parquet_schema": schema.String(),
			"write": "foreign (raw parquet.Row cells from the level mirror)", "rows": want, "row_shapes": wantShape, "cells": cells}
		for k, x := range extra {
			m[k] = x
		}
		return m
	}
	if err != nil {
		ctx.Fail("L1", "foreign-write-fails under="+sh.name+" schema="+s.kind, "writing raw rows of a shredded variant column fails: "+err.Error(), detail(nil))
		return
	}
	ctx.HistN("foreign.short-decimals", c19Bucket(len(short)), 1)
	fail := func(key, what string, dd map[string]any) { ctx.Fail("L1", key, what, dd) }
	c19NestedReadCheck(ctx, sh, data, schema, readSchema, nrows, want, wantNative, wantShape, "foreign physical="+c19PhysClass(phys), s.kind, fail, detail)
}

func c19ForeignCases(ctx *core.Ctx, r *rand.Rand, d *drv.Driver, p *c19Pending) {
	if d == nil {
		return
	}
	switch r.Intn(9) {
	case 0, 1, 2:
		c19ForeignTop(ctx, r, d, p)
	case 3, 4:
		c19ForeignNested(ctx, r, d, c19ShapeRep1)
	case 5:
		c19ForeignNested(ctx, r, d, c19ShapeRep2)
	case 6:
		c19ForeignNested(ctx, r, d, c19ShapeOptRep)
	case 7:
		c19ForeignNested(ctx, r, d, c19ShapeRepOpt)
	default:
		c19ForeignNested(ctx, r, d, c19ShapeOpt)
	}
}
