package props

import (
	"bytes"
	"fmt"
	"io"
	"math/rand"
	"reflect"
	"sort"
	"strings"
	"sync"

	"github.com/parquet-go/parquet-go"

	"verifharness/core"
)

// The property quantifies over configurations. A configuration reaches a writer (a reader) as a
// LIST of options, and config.go knows several kinds of them: functional options, configuration
// structs used as options (merged field by field), and the result of NewWriterConfig handed on as
// the single option of another constructor (Write, NewSortingWriter). "Encrypt with cfg" can be
// spelt in all of these ways; every spelling must give an encrypted file.

func init() { RegisterSub("C18", "options", RunC18Options) }

// ---------------------------------------------------------------- form of the option list of a generated file

// c18Form is how the functional option list `rest` and the encryption setting of a generated file
// are handed to the writer (roundtrip, aad and leak sub-checks draw one per file).
type c18Form struct {
	Cut    int    // rest[:Cut] goes before the encryption setting, rest[Cut:] after it
	Before string // "func": as functional options | "struct": folded into a &WriterConfig{...} literal (only the fields the options set)
	After  string // "func" | "struct" | "newconfig": the *WriterConfig returned by NewWriterConfig(rest[Cut:]...)
	Enc    string // "option": WithEncryption(cfg) | "field-before" / "field-after": the Encryption field of that struct | "fold-all": NewWriterConfig(everything) is the only option
}

func (f *c18Form) String() string {
	if f == nil {
		return "opts,enc"
	}
	return fmt.Sprintf("%s[:%d],enc=%s,%s[%d:]", f.Before, f.Cut, f.Enc, f.After, f.Cut)
}

func c18RandForm(r *rand.Rand, n int) *c18Form {
	if r.Intn(5) < 2 {
		return &c18Form{Cut: n, Before: "func", After: "func", Enc: "option"} // the plain spelling
	}
	f := &c18Form{Cut: r.Intn(n + 1), Before: []string{"func", "struct"}[r.Intn(2)], After: []string{"func", "struct", "struct", "newconfig"}[r.Intn(4)]}
	switch k := r.Intn(8); {
	case k == 0:
		f.Enc = "fold-all"
	case k <= 2 && f.Before == "struct":
		f.Enc = "field-before"
	case k <= 4 && f.After == "struct":
		f.Enc = "field-after"
	default:
		f.Enc = "option"
	}
	return f
}

func c18StructOf(opts []parquet.WriterOption, enc *parquet.EncryptionConfig) *parquet.WriterConfig {
	sc := &parquet.WriterConfig{}
	sc.Apply(opts...)
	sc.Encryption = enc
	return sc
}

// build returns the option list; enc == nil builds the list of the unencrypted twin (the same
// spelling without the encryption setting); tail stays functional and last.
func (f *c18Form) build(rest []parquet.WriterOption, enc *parquet.EncryptionConfig, tail []parquet.WriterOption) []parquet.WriterOption {
	var out []parquet.WriterOption
	if f == nil {
		out = append(out, rest...)
		if enc != nil {
			out = append(out, parquet.WithEncryption(enc))
		}
		return append(out, tail...)
	}
	cut := min(f.Cut, len(rest))
	a, b := rest[:cut], rest[cut:]
	if f.Enc == "fold-all" {
		all := append([]parquet.WriterOption{}, a...)
		if enc != nil {
			all = append(all, parquet.WithEncryption(enc))
		}
		all = append(append(all, b...), tail...)
		cfg, err := parquet.NewWriterConfig(all...)
		if err != nil {
			return all // the constructor reports the same error
		}
		return []parquet.WriterOption{cfg}
	}
	field := func(where string) *parquet.EncryptionConfig {
		if f.Enc == where {
			return enc
		}
		return nil
	}
	if f.Before == "struct" {
		out = append(out, c18StructOf(a, field("field-before")))
	} else {
		out = append(out, a...)
	}
	if enc != nil && (f.Enc == "option" || (f.Enc == "field-before" && f.Before != "struct") || (f.Enc == "field-after" && f.After != "struct")) {
		out = append(out, parquet.WithEncryption(enc))
	}
	switch f.After {
	case "struct":
		out = append(out, c18StructOf(b, field("field-after")))
	case "newconfig":
		if cfg, err := parquet.NewWriterConfig(b...); err == nil {
			out = append(out, cfg)
		} else {
			out = append(out, b...)
		}
	default:
		out = append(out, b...)
	}
	return append(out, tail...)
}

// c18CarrierClass names, for failure keys, what carried the encryption setting in an option list and
// what kind of option followed it.
func c18CarrierClass(opts []parquet.WriterOption, enc *parquet.EncryptionConfig) string {
	at, carrier := -1, "none"
	for i, o := range opts {
		if sc, ok := o.(*parquet.WriterConfig); ok {
			if sc.Encryption == enc && enc != nil {
				at, carrier = i, "struct"
			}
			continue
		}
		probe := &parquet.WriterConfig{}
		o.ConfigureWriter(probe)
		if probe.Encryption == enc && enc != nil {
			at, carrier = i, "option"
		}
	}
	then := "nothing"
	if at >= 0 {
		for _, o := range opts[at+1:] {
			if _, ok := o.(*parquet.WriterConfig); ok {
				then = "struct"
				break
			}
			then = "options"
		}
	}
	return "carrier=" + carrier + " then=" + then
}

// c18LooksUnencrypted: a file that starts and ends with PAR1 and whose footer region is exactly one
// plaintext FileMetaData without encryption algorithm (no signature): an ordinary parquet file.
func c18LooksUnencrypted(file []byte) bool {
	n := len(file)
	if n < 12 || string(file[:4]) != "PAR1" || string(file[n-4:]) != "PAR1" {
		return false
	}
	flen := int(uint32(file[n-8]) | uint32(file[n-7])<<8 | uint32(file[n-6])<<16 | uint32(file[n-5])<<24)
	if flen+12 > n {
		return false
	}
	lay := &c18Layout{}
	used, err := c18DecodePrefix(file[n-8-flen:n-8], &lay.Meta)
	return err == nil && used == flen && lay.Meta.EncryptionAlgorithm.Value == nil
}

// ---------------------------------------------------------------- option structures (trees)

// c18Node is one option of an option list: E = WithEncryption(cfg #ID; 0 = nil), S = a
// configuration struct with Encryption = cfg #ID (0 = field not set), O = another option,
// G = NewWriterConfig(Kids...) passed on as one option.
type c18Node struct {
	Kind string
	ID   int
	Kids []*c18Node
}

func c18Tokens(ns []*c18Node) []string {
	var out []string
	for _, n := range ns {
		switch n.Kind {
		case "G":
			out = append(append(append(out, "["), c18Tokens(n.Kids)...), "]")
		case "O":
			out = append(out, "O")
		default:
			id := "-"
			if n.ID > 0 {
				id = fmt.Sprint(n.ID)
			}
			out = append(out, n.Kind+id)
		}
	}
	return out
}

// c18Decides is the oracle, written from the documentation of the options (not from config.go): the
// last option that says anything about encryption decides; a struct whose field is not set says
// nothing; a NewWriterConfig group is a struct holding the group's own outcome. It returns the
// outcome and the top-level position of the option that decided (-1: nobody).
func c18Decides(ns []*c18Node) (id, at int) {
	id, at = 0, -1
	for i, n := range ns {
		switch n.Kind {
		case "E":
			id, at = n.ID, i
		case "S":
			if n.ID > 0 {
				id, at = n.ID, i
			}
		case "G":
			if g, _ := c18Decides(n.Kids); g > 0 {
				id, at = g, i
			}
		}
	}
	return id, at
}

func c18TreeClass(ns []*c18Node) string {
	_, at := c18Decides(ns)
	if at < 0 {
		return "carrier=none then=nothing"
	}
	carrier := map[string]string{"E": "option", "S": "struct", "G": "newconfig"}[ns[at].Kind]
	then, rank := "nothing", 0
	for _, n := range ns[at+1:] {
		k, name := 1, "options"
		switch n.Kind {
		case "S":
			k, name = 2, "struct"
		case "G":
			k, name = 3, "newconfig"
		}
		if k > rank {
			rank, then = k, name
		}
	}
	return "carrier=" + carrier + " then=" + then
}

func c18RandTree(r *rand.Rand, depth, maxLen, ids int, allowNilE bool) []*c18Node {
	n := r.Intn(maxLen + 1)
	var out []*c18Node
	for i := 0; i < n; i++ {
		switch k := r.Intn(10); {
		case k < 3:
			id := 1 + r.Intn(ids)
			if allowNilE && r.Intn(6) == 0 {
				id = 0
			}
			out = append(out, &c18Node{Kind: "E", ID: id})
		case k < 6:
			out = append(out, &c18Node{Kind: "S", ID: r.Intn(ids+1) * r.Intn(2)})
		case k < 8 || depth == 0:
			out = append(out, &c18Node{Kind: "O"})
		default:
			out = append(out, &c18Node{Kind: "G", Kids: c18RandTree(r, depth-1, maxLen, ids, allowNilE)})
		}
	}
	return out
}

// c18SystematicTrees: every list of at most maxLen options over a small alphabet.
func c18SystematicTrees(maxLen int) [][]*c18Node {
	alpha := func() []*c18Node {
		return []*c18Node{{Kind: "E", ID: 1}, {Kind: "E", ID: 2}, {Kind: "S", ID: 1}, {Kind: "S"}, {Kind: "O"},
			{Kind: "G", Kids: []*c18Node{{Kind: "E", ID: 1}, {Kind: "O"}}}, {Kind: "G", Kids: []*c18Node{{Kind: "O"}}}, {Kind: "G"}}
	}
	out := [][]*c18Node{{}}
	level := [][]*c18Node{{}}
	for l := 0; l < maxLen; l++ {
		var next [][]*c18Node
		for _, p := range level {
			for _, a := range alpha() {
				next = append(next, append(append([]*c18Node{}, p...), a))
			}
		}
		out = append(out, next...)
		level = next
	}
	return out
}

// neutral options: they say nothing about encryption and do not change which rows are stored
func c18NeutralWriterOption(k int) parquet.WriterOption {
	switch k % 6 {
	case 0:
		return parquet.PageBufferSize(300 + k)
	case 1:
		return parquet.DataPageVersion(1 + k/6%2)
	case 2:
		return parquet.KeyValueMetadata("c18", fmt.Sprint(k))
	case 3:
		return parquet.CreatedBy("c18", fmt.Sprint(k), "x")
	case 4:
		return parquet.DataPageStatistics(true)
	default:
		return parquet.WriteBufferSize(0)
	}
}

func c18NeutralWriterStruct(k int, enc *parquet.EncryptionConfig) *parquet.WriterConfig {
	sc := &parquet.WriterConfig{Encryption: enc}
	switch k % 4 {
	case 0: // a struct with nothing but the field (or nothing at all)
	case 1:
		sc.PageBufferSize = 200 + k
	case 2:
		sc.CreatedBy = "c18 struct"
	default:
		sc.DataPageVersion = 1 + k/4%2
	}
	return sc
}

func c18WriterOptions(ns []*c18Node, encs []*parquet.EncryptionConfig, k *int) ([]parquet.WriterOption, error) {
	var out []parquet.WriterOption
	for _, n := range ns {
		*k++
		switch n.Kind {
		case "E":
			out = append(out, parquet.WithEncryption(encs[n.ID]))
		case "S":
			out = append(out, c18NeutralWriterStruct(*k, encs[n.ID]))
		case "O":
			out = append(out, c18NeutralWriterOption(*k))
		case "G":
			kids, err := c18WriterOptions(n.Kids, encs, k)
			if err != nil {
				return nil, err
			}
			cfg, err := parquet.NewWriterConfig(kids...)
			if err != nil {
				return nil, err
			}
			out = append(out, cfg)
		}
	}
	return out, nil
}

func c18FileOptions(ns []*c18Node, keys []*c18Keys, k *int) ([]parquet.FileOption, error) {
	var out []parquet.FileOption
	for _, n := range ns {
		*k++
		switch n.Kind {
		case "E":
			out = append(out, parquet.WithDecryption(keys[n.ID]))
		case "S":
			sc := &parquet.FileConfig{SkipPageIndex: *k%3 == 0, SkipBloomFilters: *k%5 == 0}
			if n.ID > 0 {
				sc.Decryption = &parquet.DecryptionConfig{Keys: keys[n.ID]}
			}
			out = append(out, sc)
		case "O":
			switch *k % 4 {
			case 0:
				out = append(out, parquet.SkipPageIndex(*k%8 == 0))
			case 1:
				out = append(out, parquet.ReadBufferSize(512+*k))
			case 2:
				out = append(out, parquet.SkipBloomFilters(*k%8 == 2))
			default:
				out = append(out, parquet.FileReadMode(parquet.ReadModeSync))
			}
		case "G":
			kids, err := c18FileOptions(n.Kids, keys, k)
			if err != nil {
				return nil, err
			}
			cfg, err := parquet.NewFileConfig(kids...)
			if err != nil {
				return nil, err
			}
			out = append(out, cfg)
		}
	}
	return out, nil
}

// ---------------------------------------------------------------- the sub-check

var c18OptEntries = []string{"generic-writer", "writer", "write-func", "sorting-writer"}

func c18OptWrite(entry string, rows []c18LeakRow, opts []parquet.WriterOption) (out []byte, err error) {
	defer func() {
		if p := recover(); p != nil {
			err = fmt.Errorf("PANIC: %v", p)
		}
	}()
	var buf bytes.Buffer
	switch entry {
	case "generic-writer":
		w := parquet.NewGenericWriter[c18LeakRow](&buf, opts...)
		if _, err = w.Write(rows); err != nil {
			return nil, err
		}
		err = w.Close()
	case "writer":
		w := parquet.NewWriter(&buf, append([]parquet.WriterOption{parquet.SchemaOf(c18LeakRow{})}, opts...)...)
		for i := range rows {
			if err = w.Write(&rows[i]); err != nil {
				return nil, err
			}
		}
		err = w.Close()
	case "write-func":
		err = parquet.Write[c18LeakRow](&buf, rows, opts...)
	case "sorting-writer":
		w := parquet.NewSortingWriter[c18LeakRow](&buf, 16, append(append([]parquet.WriterOption{}, opts...),
			parquet.SortingWriterConfig(parquet.SortingColumns(parquet.Ascending("i"))))...)
		if _, err = w.Write(rows); err != nil {
			return nil, err
		}
		err = w.Close()
	default:
		err = fmt.Errorf("unknown entry %s", entry)
	}
	return buf.Bytes(), err
}

func c18SortedLeakRows(rows []c18LeakRow) []c18LeakRow {
	out := append([]c18LeakRow{}, rows...)
	sort.SliceStable(out, func(a, b int) bool { return out[a].I < out[b].I })
	for i := range out {
		if len(out[i].L) == 0 {
			out[i].L = nil
		}
	}
	return out
}

// c18SpyPool hands out buffers that remember every byte written to them: what a SortingWriter
// spills to its SortingBuffers (which may be files: NewFileBufferPool).
type c18SpyPool struct {
	mu      sync.Mutex
	inner   parquet.BufferPool
	written [][]byte
}

type c18SpyBuffer struct {
	io.ReadWriteSeeker
	pool *c18SpyPool
}

func (b *c18SpyBuffer) Write(p []byte) (int, error) {
	b.pool.mu.Lock()
	b.pool.written = append(b.pool.written, append([]byte{}, p...))
	b.pool.mu.Unlock()
	return b.ReadWriteSeeker.Write(p)
}

func (p *c18SpyPool) GetBuffer() io.ReadWriteSeeker {
	return &c18SpyBuffer{ReadWriteSeeker: p.inner.GetBuffer(), pool: p}
}

func (p *c18SpyPool) PutBuffer(b io.ReadWriteSeeker) {
	if sb, ok := b.(*c18SpyBuffer); ok {
		p.inner.PutBuffer(sb.ReadWriteSeeker)
	}
}

// c18SortingSpill: outside the property as stated (it speaks of the file), recorded as an
// observation: the sorted runs a SortingWriter spills to its SortingBuffers are written by an inner
// writer that is not given the encryption configuration.
func c18SortingSpill(ctx *core.Ctx, r *rand.Rand) {
	defer func() { recover() }()
	rows, pats := c18LeakRows(r, 60)
	enc := &c18Enc{EncFooter: true, FooterKey: c18RandKey(r), KeyMode: "footer-only"}
	spy := &c18SpyPool{inner: parquet.NewBufferPool()}
	var buf bytes.Buffer
	w := parquet.NewSortingWriter[c18LeakRow](&buf, 16, parquet.WithEncryption(enc.Config()),
		parquet.SortingWriterConfig(parquet.SortingColumns(parquet.Ascending("i")), parquet.SortingBuffers(spy)))
	if _, err := w.Write(rows); err != nil {
		return
	}
	if err := w.Close(); err != nil {
		return
	}
	var spilled []byte
	for _, b := range spy.written {
		spilled = append(spilled, b...)
	}
	inFile, _ := c18Scan(buf.Bytes(), pats)
	inSpill, _ := c18Scan(spilled, pats)
	ctx.Hist("options_l1", fmt.Sprintf("sorting-writer spill: %d bytes, columns in clear: file %d, spill %d", len(spilled)/1000*1000, len(inFile), len(inSpill)))
	if len(inSpill) > 0 && len(inFile) == 0 {
		ctx.Observe("sorting-writer-spills-plaintext-to-sorting-buffers", "NewSortingWriter with WithEncryption writes an encrypted output file, but the sorted runs it spills to SortingBuffers (a BufferPool, possibly file-backed: NewFileBufferPool) are written by an inner GenericWriter built from a WriterConfig literal without the Encryption field (sorting.go:54-65): the values of encrypted columns reach that storage in clear. Outside the property as stated (it speaks of the bytes of the FILE).",
			map[string]any{"columns_in_clear_in_the_spill": inSpill, "columns_in_clear_in_the_file": inFile, "spilled_bytes": len(spilled), "encryption": enc.Desc()})
	}
}

func RunC18Options(ctx *core.Ctx) {
	ctx.SetRule(c18Rule)
	r := ctx.Rand("c18/options")
	c18SortingSpill(ctx, ctx.Rand("c18/options/spill"))
	// three encryption set-ups with different keys: which one the file is sealed with is observable
	var encs []*c18Enc
	encCfgs := []*parquet.EncryptionConfig{nil}
	keys := []*c18Keys{nil}
	for i := 1; i <= 3; i++ {
		e := &c18Enc{EncFooter: i != 2, FooterKey: c18RandKey(r), KeyMode: "footer-only"}
		if i == 3 {
			e.KeyMode, e.ColKeys = "some-columns", map[string][]byte{"s": c18RandKey(r), "i": c18RandKey(r)}
		}
		encs = append(encs, e)
		encCfgs = append(encCfgs, e.Config())
		keys = append(keys, e.Keys())
	}
	trees := c18SystematicTrees(ctx.Scale(2, 3))
	for i, n := 0, ctx.Scale(200, 3000); i < n; i++ {
		trees = append(trees, c18RandTree(r, 2, 4, 3, true))
	}

	// ---- A. L2: the Encryption / Decryption field after NewWriterConfig / NewFileConfig against the Lean mirror
	if d := ctx.Driver(); d != nil {
		var reqs []string
		for _, t := range trees {
			reqs = append(reqs, "enc.config "+strings.Join(c18Tokens(t), " "))
		}
		ans, err := d.AskMany(reqs)
		if err != nil {
			ctx.Fail("L2", "driver-error", err.Error(), nil)
		} else {
			for i, t := range trees {
				toks := strings.Join(c18Tokens(t), " ")
				want, _ := c18Decides(t)
				wantText := "ok -"
				if want > 0 {
					wantText = fmt.Sprintf("ok %d", want)
				}
				if ans[i] != wantText {
					ctx.Fail("L2", "config-model-differs-from-documented-rule", "the Lean mirror of the option plumbing and the rule 'the last option that says anything decides' disagree",
						map[string]any{"options": toks, "model": ans[i], "rule": wantText})
				}
				k := 0
				if wo, err := c18WriterOptions(t, encCfgs, &k); err == nil {
					got := "invalid"
					if cfg, err := parquet.NewWriterConfig(wo...); err == nil {
						got = "ok -"
						for id := 1; id < len(encCfgs); id++ {
							if cfg.Encryption == encCfgs[id] {
								got = fmt.Sprintf("ok %d", id)
							}
						}
						if got == "ok -" && cfg.Encryption != nil {
							got = "ok unknown-pointer"
						}
					}
					ctx.Hist("options_l2", "writer "+got[:4])
					if got != ans[i] {
						ctx.Fail("L2", "writer-config-merge-differs "+c18TreeClass(t), "NewWriterConfig leaves another Encryption setting in the configuration than the Lean mirror (EncConfig.runToks)",
							map[string]any{"options": toks, "real": got, "model": ans[i], "legend": "E<n> WithEncryption(cfg n), E- WithEncryption(nil), S<n>/S- a *WriterConfig with/without the field, O another option, [ ] NewWriterConfig(...) passed on as one option"})
					}
				}
				hasNilE := strings.Contains(" "+toks+" ", " E- ")
				if !hasNilE { // WithDecryption(nil) is not a nil configuration
					k = 0
					if fo, err := c18FileOptions(t, keys, &k); err == nil {
						got := "invalid"
						if cfg, err := parquet.NewFileConfig(fo...); err == nil {
							got = "ok -"
							if cfg.Decryption != nil {
								got = "ok unknown-pointer"
								for id := 1; id < len(keys); id++ {
									if kk, ok := cfg.Decryption.Keys.(*c18Keys); ok && kk == keys[id] {
										got = fmt.Sprintf("ok %d", id)
									}
								}
							}
						}
						ctx.Hist("options_l2", "file "+got[:4])
						if got != ans[i] {
							ctx.Fail("L2", "file-config-merge-differs "+c18TreeClass(t), "NewFileConfig leaves another Decryption setting in the configuration than the Lean mirror (EncConfig.runToks)",
								map[string]any{"options": toks, "real": got, "model": ans[i]})
						}
					}
				}
			}
		}
	}

	// ---- B. L1: a file written through every entry point with every spelling of "encrypt with cfg n"
	var wg sync.WaitGroup
	sem := make(chan struct{}, 16)
	rowsSeed := r.Int63()
	for ti, t := range trees {
		want, _ := c18Decides(t)
		toks := strings.Join(c18Tokens(t), " ")
		if want == 0 {
			ctx.Hist("options_l1", "no-encryption-asked") // outside the property
			continue
		}
		entry := c18OptEntries[ti%len(c18OptEntries)]
		entries := []string{entry}
		if ti < 80 || ctx.Thorough() {
			entries = c18OptEntries
		}
		for _, entry := range entries {
			wg.Add(1)
			sem <- struct{}{}
			go func(ti int, t []*c18Node, entry string) {
				defer wg.Done()
				defer func() { <-sem }()
				rr := rand.New(rand.NewSource(rowsSeed + int64(ti)))
				rows, pats := c18LeakRows(rr, 40)
				enc := encs[want-1]
				class := c18TreeClass(t)
				desc := fmt.Sprintf("options|entry=%s|%s|cfg=%d|%s", entry, toks, want, enc.Desc())
				ctx.Case(desc, len(t) >= 2)
				ctx.Hist("options_entry", entry)
				ctx.Hist("options_class", class)
				detail := map[string]any{"entry_point": entry, "options": toks, "expected_configuration": want, "encryption": enc.Desc(), "rows": len(rows),
					"row_type": "c18LeakRow (harness/props/c18_leak.go)", "rand_stream": fmt.Sprintf("c18/options rows seed %d", rowsSeed+int64(ti)),
					"legend": "E<n> WithEncryption(cfg n), E- WithEncryption(nil), S<n>/S- a *WriterConfig with/without the Encryption field, O another option, [ ] NewWriterConfig(...) passed on as one option"}
				k := 0
				wo, err := c18WriterOptions(t, encCfgs, &k)
				if err != nil {
					ctx.Hist("options_l1", "invalid-options")
					return
				}
				data, err := c18OptWrite(entry, rows, wo)
				if err != nil {
					ctx.Fail("L1", "write-error path=options/"+entry+" "+c18ErrKind(err), "writing marker rows with encryption failed: "+err.Error(), detail)
					return
				}
				if c18LooksUnencrypted(data) {
					found, _ := c18Scan(data, pats)
					detail["columns_in_clear"] = found
					ctx.Fail("L1", "encryption-request-ignored "+class, "the options ask for encryption ("+toks+") and the writer produced an ordinary unencrypted parquet file, without any error", detail)
					return
				}
				lay, lerr := c18Parse(data, enc.Keys(), c18AAD)
				if lerr != nil {
					ctx.Fail("L1", "unreadable-file path=options/"+entry+" "+c18ErrKind(lerr), "the file is not a well-formed file encrypted with the configuration the options ask for: "+lerr.Error(), detail)
					return
				}
				if lay.EncFooter != enc.EncFooter {
					ctx.Fail("L1", "footer-mode-ignored "+class, fmt.Sprintf("EncryptedFooter=%v was asked for, the file has encrypted footer=%v", enc.EncFooter, lay.EncFooter), detail)
				}
				if found, firstAt := c18Scan(data, pats); len(found) > 0 {
					for col, n := range found {
						detail["column"], detail["first_offset"] = col, firstAt[col]
						ctx.Fail("L1", "plaintext-values-leak path=options/"+entry, fmt.Sprintf("%d marker values of encrypted column %q occur in clear in the file", n, col), detail)
						break
					}
				}
				// read back with every spelling of "decrypt with these keys": the same tree on the reader side
				k = 0
				var fo []parquet.FileOption
				hasNilE := strings.Contains(" "+toks+" ", " E- ")
				if !hasNilE {
					fo, _ = c18FileOptions(t, keys, &k)
				} else {
					fo = []parquet.FileOption{parquet.WithDecryption(keys[want])}
				}
				f, err := func() (f *parquet.File, err error) {
					defer func() {
						if p := recover(); p != nil {
							err = fmt.Errorf("PANIC: %v", p)
						}
					}()
					return parquet.OpenFile(bytes.NewReader(data), int64(len(data)), fo...)
				}()
				if err != nil {
					ctx.Fail("L1", "open-error path=options "+class+" "+c18ErrKind(err), "OpenFile with options that ask for decryption with the right keys ("+toks+") failed: "+err.Error(), detail)
					return
				}
				back, err := func() (out []c18LeakRow, err error) {
					defer func() {
						if p := recover(); p != nil {
							err = fmt.Errorf("PANIC: %v", p)
						}
					}()
					rd := parquet.NewGenericReader[c18LeakRow](f)
					defer rd.Close()
					out = make([]c18LeakRow, len(rows)+1)
					n, err := rd.Read(out)
					if err != nil && err != io.EOF {
						return nil, err
					}
					return out[:n], nil
				}()
				if err != nil {
					ctx.Fail("L1", "read-error reader=GenericReader path=options "+c18ErrKind(err), "reading with the right keys failed: "+err.Error(), detail)
					return
				}
				wantRows := c18SortedLeakRows(rows)
				if !reflect.DeepEqual(wantRows, c18SortedLeakRows(back)) {
					ctx.Fail("L1", "rows-differ reader=GenericReader path=options/"+entry, fmt.Sprintf("%d rows written, %d read back, not the same rows", len(rows), len(back)), detail)
				}
				ctx.Hist("options_l1", "encrypted-and-read-back")
			}(ti, t, entry)
		}
	}
	wg.Wait()
}
