package props

// C14/footer — truncated and damaged footers.
//
// The footer decoder's structure walk (encoding/thrift: compactBytesReader + skip/skipStruct, through the hook
// thrift.VerifSkipStruct) and OpenFile's tail reading are compared with their Lean mirrors (PqModel.ThriftSkip:
// skipStruct, openWalk) on
//   - the footers of real files (the C14 configurations and a few tiny local ones), every cut of them (all cuts
//     of a short footer, a sample of a long one) and byte patches of them (set / flip / insert / delete / list
//     size and length inflation);
//   - generated compact-thrift structs from a grammar that covers every type code (bool fields and bool list
//     items, i8..i64 with range edges, double, binary, list/set short and long headers, map, nested struct,
//     uuid, the unsupported codes 14 and 15), long-form field ids, non-minimal / 10- and 11-byte varints, with
//     their cuts and patches;
//   - whole files `pre ‖ footer' ‖ le32 ‖ magic` built from the real files with footer' a cut / patch / extension
//     of the footer, a patched length or a patched magic.
//
//   L2 thrift.skip      real skipStruct = mirror: end offset, or error class
//   L1 prefix           on the real code alone: an accepted struct ending at e is rejected at every cut m < e, with
//                       io.EOF or io.ErrUnexpectedEOF, and answered (e, nil) at every cut m >= e
//   L2 typed-vs-walk    the typed decoder (Decode into format.FileMetaData, isolated process) accepts only what
//                       the walk accepts, with the same byte count; what the walk rejects it rejects with the
//                       same class, or earlier with a missing required field of a nested struct
//   L2 open.walk        OpenFile (isolated process) against the mirror of the open path: same trailer class;
//                       a thrift rejection of the mirror is a thrift rejection of OpenFile with the same class;
//                       OpenFile succeeds only where the mirror does
//   L1 cut footer       a file whose footer is cut before the end of the struct (announced length patched to the
//                       cut) is never opened
// A panic or a crash of the isolated process is an observation here (see c14FooterCrashFails).

import (
	"bufio"
	"bytes"
	"encoding/binary"
	"encoding/hex"
	"errors"
	"fmt"
	"io"
	"math/rand"
	"os"
	"os/exec"
	"strconv"
	"strings"
	"sync"
	"time"

	"github.com/parquet-go/parquet-go"
	"github.com/parquet-go/parquet-go/encoding/thrift"
	"github.com/parquet-go/parquet-go/format"

	"verifharness/core"
)

func init() {
	RegisterSub("C14", "footer", RunC14Footer)
	workers["c14-footer"] = c14FooterWorker
}

// c14FooterCrashFails: a panic / fatal error of OpenFile on a damaged footer violates the property ("reported",
// not "crashes"); the two ways found on the unchanged library (footer magic "PARE" without a DecryptionConfig;
// a list header announcing more elements than the machine has memory for) are recorded as observations so that
// the check of the unchanged clone stays green until the integrator lists them; set to true to make them L1
// failures.
const c14FooterCrashFails = false

const c14FooterRule = "compact-thrift inputs (real footers, grammar-generated structs, their cuts and byte patches) and whole files with a cut / patched / extended footer, a patched length or magic; non-trivial = the input derives from a struct the real walk accepts and is not that struct itself, resp. the file passes the header magic"

// ---------------------------------------------------------------- classes

func c14ThriftClass(err error) string {
	if err == nil {
		return "ok"
	}
	s := err.Error()
	switch {
	case errors.Is(err, io.ErrUnexpectedEOF):
		return "ueof"
	case errors.Is(err, io.EOF):
		return "eof"
	case strings.Contains(s, "varint overflow"):
		return "overflow"
	case strings.Contains(s, "varint out of range"):
		return "range"
	case strings.Contains(s, "skipping unsupported thrift type"):
		return "bad-type"
	case strings.Contains(s, "missing required field"):
		return "missing"
	}
	return "other:" + strings.ReplaceAll(panicClass(s), " ", "_")
}

func c14RealSkip(b []byte) (res string) {
	defer func() {
		if p := recover(); p != nil {
			res = "panic " + panicClass(fmt.Sprint(p))
		}
	}()
	n, err := thrift.VerifSkipStruct(b)
	if err != nil {
		return "err " + c14ThriftClass(err)
	}
	return fmt.Sprintf("ok %d", n)
}

func c14RealTyped(b []byte) (res string) {
	defer func() {
		if p := recover(); p != nil {
			res = "panic " + panicClass(fmt.Sprint(p))
		}
	}()
	p := thrift.CompactProtocol{}
	r := p.NewReaderFromBytes(bytes.Clone(b))
	var md format.FileMetaData
	if err := thrift.NewDecoder(r).Decode(&md); err != nil {
		return "err " + c14ThriftClass(err)
	}
	return fmt.Sprintf("ok %d", r.BytesRead())
}

// c14RealOpen: `ok` | `err <stage>` with stage = trailer:<class> | thrift:<class> | trailing:<n> | signed-no-keys | later
func c14RealOpen(enc bool, g []byte) (res string) {
	defer func() {
		if p := recover(); p != nil {
			res = "panic " + panicClass(fmt.Sprint(p))
		}
	}()
	var opts []parquet.FileOption
	if enc {
		opts = append(opts, parquet.WithDecryption(c14Keys{key: []byte("0123456789abcdef")}))
	}
	_, err := parquet.OpenFile(bytes.NewReader(g), int64(len(g)), opts...)
	if err == nil {
		return "ok"
	}
	if st := c14OpenStage(err); st != "ok" {
		return "err trailer:" + strings.TrimPrefix(st, "err ")
	}
	s := err.Error()
	const md = "reading parquet file metadata: "
	switch {
	case strings.HasPrefix(s, md+"unexpected trailing bytes at the end of thrift input: "):
		return "err trailing:" + strings.TrimPrefix(s, md+"unexpected trailing bytes at the end of thrift input: ")
	case strings.HasPrefix(s, md):
		return "err thrift:" + c14ThriftClass(err)
	case strings.HasPrefix(s, "parquet file has a signed footer but no DecryptionConfig"):
		return "err signed-no-keys"
	}
	return "err later"
}

// ---------------------------------------------------------------- isolated process

// c14FooterWorker: stdin `typed <hex>` | `open <0/1> <hex>`, one answer line each.
func c14FooterWorker(args []string) int {
	in := bufio.NewReaderSize(os.Stdin, 1<<22)
	out := bufio.NewWriter(os.Stdout)
	defer out.Flush()
	for {
		line, err := in.ReadString('\n')
		if line == "" && err != nil {
			return 0
		}
		f := strings.Fields(line)
		unhex := func(s string) []byte {
			if s == "-" {
				return nil
			}
			b, _ := hex.DecodeString(s)
			return b
		}
		switch {
		case len(f) == 2 && f[0] == "typed":
			fmt.Fprintln(out, c14RealTyped(unhex(f[1])))
		case len(f) == 3 && f[0] == "open":
			fmt.Fprintln(out, c14RealOpen(f[1] == "1", unhex(f[2])))
		default:
			fmt.Fprintln(out, "bad-request")
		}
		out.Flush()
	}
}

type c14FtWorker struct {
	cmd    *exec.Cmd
	in     io.WriteCloser
	out    *bufio.Reader
	stderr *bytes.Buffer
}

func c14FtStart() (*c14FtWorker, error) {
	cmd := exec.Command(os.Args[0], "-worker", "c14-footer")
	cmd.Env = append(os.Environ(), "GOTRACEBACK=none")
	in, err := cmd.StdinPipe()
	if err != nil {
		return nil, err
	}
	outp, err := cmd.StdoutPipe()
	if err != nil {
		return nil, err
	}
	w := &c14FtWorker{cmd: cmd, in: in, out: bufio.NewReaderSize(outp, 1<<20), stderr: &bytes.Buffer{}}
	cmd.Stderr = w.stderr
	if err := cmd.Start(); err != nil {
		return nil, err
	}
	return w, nil
}

func (w *c14FtWorker) kill() {
	w.in.Close()
	w.cmd.Process.Kill()
	w.cmd.Wait()
}

// ask: the answer line, or "crash <first line of stderr>" / "timeout"
func (w *c14FtWorker) ask(req string, timeout time.Duration) string {
	type res struct {
		s   string
		err error
	}
	ch := make(chan res, 1)
	go func() {
		if _, err := io.WriteString(w.in, req+"\n"); err != nil {
			ch <- res{"", err}
			return
		}
		s, err := w.out.ReadString('\n')
		ch <- res{strings.TrimRight(s, "\n"), err}
	}()
	select {
	case r := <-ch:
		if r.err != nil {
			w.cmd.Wait()
			msg := w.stderr.String()
			if i := strings.Index(msg, "\n"); i >= 0 {
				msg = msg[:i]
			}
			return "crash " + panicClass(msg)
		}
		return r.s
	case <-time.After(timeout):
		return "timeout"
	}
}

// c14FtAskIsolated answers every request through a small pool of isolated processes; a process that
// crashed or hung is replaced.
func c14FtAskIsolated(ctx *core.Ctx, reqs []string) []string {
	ans := make([]string, len(reqs))
	const nw = 6
	var wg sync.WaitGroup
	for k := 0; k < nw; k++ {
		wg.Add(1)
		go func(k int) {
			defer wg.Done()
			w, err := c14FtStart()
			if err != nil {
				ctx.Fail("L2", "worker-unavailable", "cannot start the isolated process: "+err.Error(), nil)
				return
			}
			defer func() { w.kill() }()
			for i := k; i < len(reqs); i += nw {
				a := w.ask(reqs[i], 20*time.Second)
				ans[i] = a
				if strings.HasPrefix(a, "crash") || a == "timeout" {
					w.kill()
					if w, err = c14FtStart(); err != nil {
						ctx.Fail("L2", "worker-unavailable", "cannot restart the isolated process: "+err.Error(), nil)
						return
					}
				}
			}
		}(k)
	}
	wg.Wait()
	return ans
}

func c14FtAbnormal(ctx *core.Ctx, what, ans string, detail map[string]any) {
	key := what + " " + strings.ReplaceAll(ans, " ", "-")
	msg := what + " on a damaged footer: no error is returned, the outcome is: " + ans
	if c14FooterCrashFails {
		ctx.Fail("L1", key, msg, detail)
	} else {
		ctx.Observe(key, msg, detail)
	}
	ctx.Hist("footer.abnormal", key)
}

// ---------------------------------------------------------------- inputs

type c14FtInput struct {
	origin string // real:<file> | gen
	kind   string // base | cut | patch
	b      []byte
	base   bool // derives from a struct the real walk accepts
}

// local tiny files: short footers, every cut enumerated
type c14FtA struct {
	X int32 `parquet:"x"`
}
type c14FtB struct {
	S string           `parquet:"s,dict"`
	L []int64          `parquet:"l"`
	O *float64         `parquet:"o,optional"`
	M map[string]int32 `parquet:"m"`
}
type c14FtC struct {
	ID    int64 `parquet:"id"`
	Inner struct {
		A bool   `parquet:"a"`
		B []byte `parquet:"b"`
	} `parquet:"inner"`
}

type c14FtFile struct {
	name string
	data []byte
	enc  bool // needs keys (signed plaintext footer)
}

func c14FtWrite[T any](name string, rows []T, opts ...parquet.WriterOption) *c14FtFile {
	var buf bytes.Buffer
	w := parquet.NewGenericWriter[T](&buf, opts...)
	if _, err := w.Write(rows); err != nil {
		return nil
	}
	if err := w.Close(); err != nil {
		return nil
	}
	return &c14FtFile{name: name, data: buf.Bytes()}
}

func c14FtTinyFiles() []*c14FtFile {
	f64 := 2.5
	var out []*c14FtFile
	add := func(f *c14FtFile) {
		if f != nil {
			out = append(out, f)
		}
	}
	add(c14FtWrite("tiny-a", []c14FtA{{1}, {2}, {3}}))
	add(c14FtWrite("tiny-a-empty", []c14FtA{}))
	add(c14FtWrite("tiny-a-kv", []c14FtA{{7}}, parquet.KeyValueMetadata("k", "v"), parquet.KeyValueMetadata("", ""), parquet.CreatedBy("app", "1", "b")))
	add(c14FtWrite("tiny-a-groups", []c14FtA{{1}, {2}, {3}, {4}, {5}}, parquet.MaxRowsPerRowGroup(2)))
	add(c14FtWrite("tiny-b", []c14FtB{{S: "a", L: []int64{1, 2}, O: &f64, M: map[string]int32{"k": 1}}, {S: "", L: nil, O: nil, M: nil}},
		parquet.BloomFilters(parquet.SplitBlockFilter(10, "s"))))
	c := c14FtC{ID: 1}
	c.Inner.A, c.Inner.B = true, []byte{0xFF, 0}
	add(c14FtWrite("tiny-c", []c14FtC{c, {}}))
	if f := c14FtWrite("tiny-a-signed", []c14FtA{{1}, {2}},
		parquet.WithEncryption(&parquet.EncryptionConfig{FooterKey: []byte("0123456789abcdef"), EncryptedFooter: false, FileIdentifier: []byte("fileid77")})); f != nil {
		f.enc = true
		out = append(out, f)
	}
	return out
}

// split: pre ‖ footer ‖ le32 ‖ magic
func c14FtSplit(data []byte) (pre, ft []byte, magic string, ok bool) {
	if len(data) < 12 {
		return nil, nil, "", false
	}
	n := int(binary.LittleEndian.Uint32(data[len(data)-8:]))
	if n+12 > len(data) {
		return nil, nil, "", false
	}
	return data[:len(data)-8-n], data[len(data)-8-n : len(data)-8], string(data[len(data)-4:]), true
}

func c14FtJoin(pre, ft []byte, announced int, magic string) []byte {
	if announced < 0 {
		announced = len(ft)
	}
	g := make([]byte, 0, len(pre)+len(ft)+8)
	g = append(g, pre...)
	g = append(g, ft...)
	g = binary.LittleEndian.AppendUint32(g, uint32(announced))
	return append(g, magic...)
}

// grammar

func c14FtUvarint(r *rand.Rand, x uint64) []byte {
	b := binary.AppendUvarint(nil, x)
	if r.Intn(12) == 0 && len(b) < 9 { // non-minimal: continuation + zero groups
		b[len(b)-1] |= 0x80
		for k := r.Intn(2); k > 0; k-- {
			b = append(b, 0x80)
		}
		b = append(b, 0x00)
	}
	return b
}

var c14FtEdges = []uint64{0, 1, 2, 63, 64, 127, 128, 255, 256, 16383, 16384, 32767, 32768, 65535, 65536, 1<<31 - 1, 1 << 31, 1<<32 - 1, 1 << 32, 1<<63 - 1, 1 << 63, 1<<64 - 1}

func c14FtZig(r *rand.Rand, bits uint) []byte {
	var ux uint64
	switch r.Intn(4) {
	case 0:
		ux = c14FtEdges[r.Intn(len(c14FtEdges))]
	case 1:
		ux = uint64(r.Intn(300))
	default:
		ux = r.Uint64() >> uint(r.Intn(64))
		if r.Intn(3) > 0 && bits < 64 { // mostly inside the range of the type
			ux &= 1<<bits - 1
		}
	}
	switch r.Intn(40) {
	case 0: // 10 bytes, last byte 2: overflow
		return []byte{0x80, 0x80, 0x80, 0x80, 0x80, 0x80, 0x80, 0x80, 0x80, 0x02}
	case 1: // 11 bytes
		return []byte{0xFF, 0xFF, 0xFF, 0xFF, 0xFF, 0xFF, 0xFF, 0xFF, 0xFF, 0xFF, 0x01}
	case 2: // 10 continuation bytes and the end
		return []byte{0x80, 0x80, 0x80, 0x80, 0x80, 0x80, 0x80, 0x80, 0x80, 0x80}
	}
	return c14FtUvarint(r, ux)
}

func c14FtType(r *rand.Rand, depth int) int {
	for {
		t := []int{1, 2, 3, 4, 5, 5, 6, 6, 7, 8, 8, 8, 9, 9, 10, 11, 12, 12, 13, 14, 15, 0}[r.Intn(22)]
		if t >= 14 || t == 0 {
			if r.Intn(6) > 0 {
				continue
			}
		}
		if depth <= 0 && (t >= 9 && t <= 12) && r.Intn(4) > 0 {
			continue
		}
		return t
	}
}

// value of type t as a struct field (inField: bool values live in the header) or as a container item
func c14FtValue(r *rand.Rand, t, depth int, inField bool) []byte {
	switch t {
	case 1, 2:
		if inField {
			return nil
		}
		return []byte{byte([]int{0, 1, 2, 0xFF}[r.Intn(4)])}
	case 3:
		return []byte{byte(r.Intn(256))}
	case 4:
		return c14FtZig(r, 16)
	case 5:
		return c14FtZig(r, 32)
	case 6:
		return c14FtZig(r, 64)
	case 7:
		b := make([]byte, 8)
		r.Read(b)
		return b
	case 8:
		n := []int{0, 0, 1, 2, 5, 17, 127, 128, 300}[r.Intn(9)]
		b := c14FtUvarint(r, uint64(n))
		p := make([]byte, n)
		r.Read(p)
		return append(b, p...)
	case 9, 10:
		et := c14FtType(r, depth-1)
		n := []int{0, 1, 2, 3, 14, 15, 16, 40}[r.Intn(8)]
		if depth <= 0 && n > 3 {
			n = 3
		}
		var b []byte
		if n < 15 && r.Intn(8) > 0 {
			b = []byte{byte(n<<4 | et)}
		} else {
			b = append([]byte{byte(0xF0 | et)}, c14FtUvarint(r, uint64(n))...)
		}
		for i := 0; i < n; i++ {
			b = append(b, c14FtValue(r, et, depth-1, false)...)
		}
		return b
	case 11:
		n := r.Intn(4)
		if n == 0 {
			return []byte{0}
		}
		kt, vt := c14FtType(r, depth-1), c14FtType(r, depth-1)
		b := append(c14FtUvarint(r, uint64(n)), byte(kt<<4|vt))
		for i := 0; i < n; i++ {
			b = append(b, c14FtValue(r, kt, depth-1, false)...)
			b = append(b, c14FtValue(r, vt, depth-1, false)...)
		}
		return b
	case 12:
		return c14FtStruct(r, depth-1)
	case 13:
		b := make([]byte, 16)
		r.Read(b)
		return b
	}
	return nil
}

func c14FtStruct(r *rand.Rand, depth int) []byte {
	var b []byte
	nf := r.Intn(6)
	if depth <= 0 {
		nf = r.Intn(3)
	}
	for i := 0; i < nf; i++ {
		t := c14FtType(r, depth)
		if t == 0 {
			t = 5
		}
		if r.Intn(5) > 0 {
			b = append(b, byte((1+r.Intn(15))<<4|t))
		} else { // long form: type byte, then the id as a zigzag varint
			b = append(b, byte(t))
			b = append(b, c14FtZig(r, 16)...)
		}
		b = append(b, c14FtValue(r, t, depth, true)...)
	}
	if r.Intn(20) == 0 {
		return append(b, byte((1+r.Intn(15))<<4)) // a delta header whose type is STOP
	}
	return append(b, 0)
}

func c14FtPatch(r *rand.Rand, b []byte) []byte {
	p := bytes.Clone(b)
	if len(p) == 0 {
		return []byte{byte(r.Intn(256))}
	}
	i := r.Intn(len(p))
	switch r.Intn(9) {
	case 0:
		p[i] = 0
	case 1:
		p[i] = 0xFF
	case 2:
		p[i] ^= 1 << uint(r.Intn(8))
	case 3:
		p[i] |= 0x80 // a varint byte grows a continuation
	case 4:
		p[i] = byte(r.Intn(256))
	case 5:
		p = append(p[:i], p[i+1:]...)
	case 6:
		p = append(p[:i], append([]byte{byte(r.Intn(256))}, p[i:]...)...)
	case 7: // a list header announcing more than there is (kept small: the typed decoder allocates the announced size)
		p = append(p[:i], append([]byte{byte(0xF0 | []int{12, 5, 8, 2}[r.Intn(4)]), 0xFF, 0x7F}, p[i:]...)...)
	case 8:
		p[i] = byte([]int{0x0F, 0xF0, 0x7F, 0x80, 0x10, 0x1C, 0x19}[r.Intn(7)])
	}
	return p
}

// ---------------------------------------------------------------- the sub-check

func RunC14Footer(ctx *core.Ctx) {
	ctx.SetRule(c14FooterRule)
	r := ctx.Rand("c14/footer")
	d := ctx.Driver()

	// --- the files
	tiny := c14FtTinyFiles()
	var footers []c14FtInput
	for _, f := range tiny {
		if _, ft, _, ok := c14FtSplit(f.data); ok {
			footers = append(footers, c14FtInput{origin: "real:" + f.name, kind: "base", b: ft})
		}
	}
	for _, f := range c14Files(ctx) {
		if _, ft, magic, ok := c14FtSplit(f.data); ok && magic == "PAR1" {
			footers = append(footers, c14FtInput{origin: "real:" + f.name, kind: "base", b: ft})
			ctx.Hist("footer.real-footer-bytes", sizeBucket(len(ft)))
		}
	}
	nGen := ctx.Scale(1500, 12000)
	for i := 0; i < nGen; i++ {
		footers = append(footers, c14FtInput{origin: "gen", kind: "base", b: c14FtStruct(r, 1+r.Intn(3))})
	}

	// --- thrift inputs: bases, cuts, patches
	var inputs []c14FtInput
	seen := map[string]bool{}
	add := func(in c14FtInput) {
		k := string(in.b)
		if seen[k] || len(in.b) > 6000 {
			return
		}
		seen[k] = true
		inputs = append(inputs, in)
	}
	var cutReqs []string  // thrift.skipcuts on short accepted bases
	var cutBases [][]byte // the same
	for _, f := range footers {
		real := c14RealSkip(f.b)
		accepted := strings.HasPrefix(real, "ok ")
		f.base = accepted
		add(f)
		e := len(f.b)
		if accepted {
			e, _ = strconv.Atoi(real[3:])
			// L1 on the real code alone: every cut before the end is rejected, every cut at or after it answers (e, nil)
			if len(f.b) <= ctx.Scale(700, 3000) {
				for m := 0; m <= len(f.b); m++ {
					got := c14RealSkip(f.b[:m])
					if m < e && !strings.HasPrefix(got, "ok") && got != "err eof" && got != "err ueof" {
						ctx.Fail("L1", "cut-struct-not-eof-class "+strings.ReplaceAll(got, " ", "-"), "skipStruct rejects a proper prefix of a struct it accepts with an error that is neither io.EOF nor io.ErrUnexpectedEOF", map[string]any{"struct": core.Hex(f.b), "end": e, "cut": m, "answer": got})
					}
					if m < e && strings.HasPrefix(got, "ok") {
						ctx.Fail("L1", "prefix-of-struct-accepted", "skipStruct accepts a proper prefix of a struct it accepts", map[string]any{"struct": core.Hex(f.b), "end": e, "cut": m, "answer": got})
					}
					if m >= e && got != real {
						ctx.Fail("L1", "bytes-after-struct-matter", "skipStruct answers differently when bytes after the end of the struct are removed", map[string]any{"struct": core.Hex(f.b), "end": e, "cut": m, "answer": got})
					}
					ctx.Hist("footer.l1-prefix", map[bool]string{true: "cut-before-end", false: "cut-at-or-after-end"}[m < e])
				}
			}
			if len(f.b) <= 260 && len(f.b) > 0 {
				cutReqs = append(cutReqs, "thrift.skipcuts "+core.Hex(f.b))
				cutBases = append(cutBases, f.b)
			}
		}
		ctx.Hist("footer.base", f.origin[:3]+" "+strings.Fields(real)[0]+" "+map[bool]string{true: "", false: strings.TrimPrefix(real, "err ")}[accepted])
		// cuts
		var cuts []int
		if len(f.b) <= 320 || ctx.Thorough() && len(f.b) <= 1500 {
			for m := 0; m < len(f.b); m++ {
				cuts = append(cuts, m)
			}
		} else {
			for k := 0; k < 40; k++ {
				cuts = append(cuts, r.Intn(len(f.b)))
			}
			for m := len(f.b) - 12; m < len(f.b); m++ {
				cuts = append(cuts, m)
			}
		}
		if f.origin == "gen" && len(cuts) > 24 {
			r.Shuffle(len(cuts), func(i, j int) { cuts[i], cuts[j] = cuts[j], cuts[i] })
			cuts = cuts[:24]
		}
		for _, m := range cuts {
			if m >= 0 && m < len(f.b) {
				add(c14FtInput{origin: f.origin, kind: "cut", b: f.b[:m], base: accepted && m < e})
			}
		}
		np := 30
		if f.origin == "gen" {
			np = 6
		}
		for k := 0; k < np; k++ {
			p := c14FtPatch(r, f.b)
			if r.Intn(4) == 0 {
				p = c14FtPatch(r, p)
			}
			add(c14FtInput{origin: f.origin, kind: "patch", b: p, base: accepted})
		}
	}

	// --- L2 thrift.skip
	reals := make([]string, len(inputs))
	reqs := make([]string, len(inputs))
	for i, in := range inputs {
		reals[i] = c14RealSkip(in.b)
		reqs[i] = "thrift.skip " + core.Hex(in.b)
		ctx.Case("skip|"+core.Hex(in.b), in.base && in.kind != "base" && len(in.b) > 0)
		ctx.Hist("footer.input", in.origin[:3]+" "+in.kind)
		ctx.Hist("footer.input-bytes", sizeBucket(len(in.b)))
		ctx.Hist("footer.real-skip", strings.TrimPrefix(strings.Join(strings.Fields(reals[i])[:1], ""), "")+" "+map[bool]string{true: "", false: strings.TrimPrefix(reals[i], "err ")}[strings.HasPrefix(reals[i], "ok")])
		if strings.HasPrefix(reals[i], "panic") {
			ctx.Fail("L1", "skip-panics "+reals[i], "skipStruct panics", map[string]any{"input": core.Hex(in.b)})
		}
		if i < 3 {
			ctx.Sample(map[string]any{"input": headOf(core.Hex(in.b), 200), "origin": in.origin, "kind": in.kind, "real": reals[i]})
		}
	}
	if d != nil {
		for lo := 0; lo < len(reqs); lo += 2000 {
			hi := min(lo+2000, len(reqs))
			ans, err := d.AskMany(reqs[lo:hi])
			if err != nil {
				ctx.Fail("L2", "driver-error", err.Error(), nil)
				break
			}
			for i, a := range ans {
				if a != reals[lo+i] {
					ctx.Fail("L2", "skip-differs model="+strings.ReplaceAll(a, " ", "-")+" real="+strings.ReplaceAll(reals[lo+i], " ", "-"),
						"skipStruct and its Lean mirror disagree", map[string]any{"input": core.Hex(inputs[lo+i].b), "model": a, "real": reals[lo+i], "origin": inputs[lo+i].origin, "kind": inputs[lo+i].kind})
				} else {
					ctx.Hist("footer.l2-skip", strings.Fields(a)[0])
				}
			}
		}
		// every cut of the short accepted bases, one request per base
		if ans, err := d.AskMany(cutReqs); err != nil {
			ctx.Fail("L2", "driver-error", err.Error(), nil)
		} else {
			for i, a := range ans {
				b := cutBases[i]
				var want []string
				for m := 0; m <= len(b); m++ {
					s := c14RealSkip(b[:m])
					want = append(want, strings.TrimPrefix(strings.TrimPrefix(s, "ok "), "err "))
				}
				ctx.Case("skipcuts|"+core.Hex(b), len(b) > 1)
				if a != "ok "+strings.Join(want, ",") {
					ctx.Fail("L2", "skipcuts-differ", "skipStruct and its Lean mirror disagree on some prefix", map[string]any{"input": core.Hex(b), "model": a, "real": strings.Join(want, ",")})
				} else {
					ctx.HistN("footer.l2-skipcuts", "prefixes agreed", int64(len(b)+1))
				}
			}
		}
	}

	// --- typed decoder against the walk (isolated)
	var tReqs []string
	var tIdx []int
	for i, in := range inputs {
		if len(in.b) == 0 {
			continue
		}
		if in.origin == "gen" && r.Intn(3) > 0 {
			continue
		}
		tReqs = append(tReqs, "typed "+core.Hex(in.b))
		tIdx = append(tIdx, i)
	}
	tAns := c14FtAskIsolated(ctx, tReqs)
	for k, a := range tAns {
		i := tIdx[k]
		walk := reals[i]
		detail := map[string]any{"input": core.Hex(inputs[i].b), "typed": a, "walk": walk, "origin": inputs[i].origin, "kind": inputs[i].kind}
		ctx.Case("typed|"+core.Hex(inputs[i].b), inputs[i].base && inputs[i].kind != "base")
		switch {
		case strings.HasPrefix(a, "crash"), a == "timeout", strings.HasPrefix(a, "panic"):
			c14FtAbnormal(ctx, "typed-decoder", a, detail)
		case strings.HasPrefix(a, "ok"):
			if a != walk {
				ctx.Fail("L2", "typed-accepts-more walk="+strings.Fields(walk)[0], "the typed decoder accepts an input the structure walk rejects or ends elsewhere", detail)
			} else {
				ctx.Hist("footer.typed-vs-walk", "both ok, same end")
			}
		case a == "err missing": // raised at the end of a nested struct, possibly before the bytes the walk rejects
			ctx.Hist("footer.typed-vs-walk", "typed: missing required field, walk "+strings.Fields(walk)[0])
		case strings.HasPrefix(walk, "err"):
			if a != walk {
				ctx.Fail("L2", "typed-class-differs typed="+strings.ReplaceAll(a, " ", "-")+" walk="+strings.ReplaceAll(walk, " ", "-"), "the typed decoder and the structure walk reject with different classes", detail)
			} else {
				ctx.Hist("footer.typed-vs-walk", "both "+a)
			}
		default: // the walk accepts, the typed decoder rejects for another reason than a missing required field
			ctx.Fail("L2", "typed-rejects walk-accepts "+strings.ReplaceAll(a, " ", "-"), "the typed decoder rejects, for a reason that is not a missing required field, an input the structure walk accepts", detail)
		}
	}

	// --- whole files against open.walk (isolated)
	type fcase struct {
		enc    bool
		g      []byte
		what   string
		mustEr bool // footer cut before the end of its struct: must not open
	}
	var fcs []fcase
	for _, f := range tiny {
		pre, ft, magic, ok := c14FtSplit(f.data)
		if !ok || magic != "PAR1" || len(f.data) > 20000 {
			continue
		}
		real := c14RealSkip(ft)
		e := len(ft)
		if strings.HasPrefix(real, "ok ") {
			e, _ = strconv.Atoi(real[3:])
		}
		encs := []bool{f.enc}
		if f.enc || f.name == "tiny-a" {
			encs = []bool{false, true}
		}
		for _, enc := range encs {
			fcs = append(fcs, fcase{enc, f.data, f.name + " whole", false})
			for m := 0; m < len(ft); m++ {
				fcs = append(fcs, fcase{enc, c14FtJoin(pre, ft[:m], m, "PAR1"), f.name + " footer-cut", m < e})
			}
			for k := 0; k < 60; k++ {
				fcs = append(fcs, fcase{enc, c14FtJoin(pre, c14FtPatch(r, ft), -1, "PAR1"), f.name + " footer-patch", false})
			}
			for _, j := range []int{1, 2, 27, 28, 29, 56} {
				junk := make([]byte, j)
				r.Read(junk)
				ext := append(bytes.Clone(ft), junk...)
				fcs = append(fcs, fcase{enc, c14FtJoin(pre, ext, len(ext), "PAR1"), f.name + " footer-extended", false})
			}
			for _, a := range []int{0, 1, len(ft) - 1, len(ft) + 1, len(ft) + len(pre) - 4, len(ft) + len(pre), len(ft) + len(pre) + 1, 1 << 16, 1 << 26} { // not 2^32-1: OpenFile allocates the announced length before it checks it against the file size (4 GiB per case)
				if a >= 0 {
					fcs = append(fcs, fcase{enc, c14FtJoin(pre, ft, a, "PAR1"), f.name + " length-patched", false})
				}
			}
			for _, mg := range []string{"PAR2", "par1", "PAR\x00"} {
				fcs = append(fcs, fcase{enc, c14FtJoin(pre, ft, len(ft), mg), f.name + " magic-patched", false})
			}
			for _, m := range []int{0, 3, 4, 7, 8, 11, 12, len(f.data) - 9, len(f.data) - 8, len(f.data) - 4, len(f.data) - 1} {
				if m >= 0 && m < len(f.data) {
					fcs = append(fcs, fcase{enc, f.data[:m], f.name + " file-cut", false})
				}
			}
		}
	}
	var oReqs, mReqs []string
	for _, c := range fcs {
		e := "0"
		if c.enc {
			e = "1"
		}
		oReqs = append(oReqs, "open "+e+" "+core.Hex(c.g))
		mReqs = append(mReqs, "open.walk "+e+" "+core.Hex(c.g))
	}
	oAns := c14FtAskIsolated(ctx, oReqs)
	var mAns []string
	if d != nil {
		var err error
		if mAns, err = d.AskMany(mReqs); err != nil {
			ctx.Fail("L2", "driver-error", err.Error(), nil)
			mAns = nil
		}
	}
	for i, c := range fcs {
		a := oAns[i]
		detail := map[string]any{"file": headOf(core.Hex(c.g), 4000), "what": c.what, "decryption": c.enc, "real": a}
		ctx.Case("open|"+core.Hex(c.g)+fmt.Sprint(c.enc), len(c.g) >= 4 && !strings.HasSuffix(c.what, " whole"))
		ctx.Hist("footer.file", strings.SplitN(c.what, " ", 2)[1])
		ctx.Hist("footer.real-open", strings.SplitN(a, ":", 2)[0])
		abnormal := strings.HasPrefix(a, "crash") || a == "timeout" || strings.HasPrefix(a, "panic")
		if abnormal {
			c14FtAbnormal(ctx, "open", a, detail)
		}
		if c.mustEr && a == "ok" {
			ctx.Fail("L1", "cut-footer-opens", "OpenFile opens a file whose footer is cut before the end of its thrift struct", detail)
		}
		if mAns == nil || abnormal {
			continue
		}
		m := mAns[i]
		detail["model"] = m
		agree := false
		switch {
		case strings.HasPrefix(m, "err trailer:"):
			agree = a == m
		case strings.HasPrefix(m, "err thrift:"), m == "err signed-no-keys":
			// the typed decoder may stop earlier, at the end of a nested struct that lacks a required field
			agree = a == m || a == "err thrift:missing"
		case strings.HasPrefix(m, "err trailing:"):
			agree = a == m || a == "err thrift:missing"
		case strings.HasPrefix(m, "ok"):
			agree = a == "ok" || a == "err thrift:missing" || a == "err later"
		}
		if !agree {
			ctx.Fail("L2", "open-walk-differs model="+strings.ReplaceAll(strings.SplitN(m, ":", 2)[0], " ", "-")+" real="+strings.ReplaceAll(strings.SplitN(a, ":", 2)[0], " ", "-"),
				"OpenFile and the Lean mirror of the open path (trailer checks + structure walk of the footer) disagree", detail)
		} else {
			ctx.Hist("footer.l2-open", strings.SplitN(m, ":", 2)[0]+" / "+strings.SplitN(a, ":", 2)[0])
		}
	}

	// --- the two crafted damaged footers that take the process down (observations, see c14FooterCrashFails)
	crafted := []struct {
		name string
		g    []byte
	}{
		{"footer-magic-PARE-header-PAR1-no-keys", c14FtJoin([]byte("PAR1"), []byte{0x1C, 0x1C, 0x00, 0x00, 0x00}, 5, "PARE")},
		{"schema-list-announces-2^31-1-elements", c14FtJoin([]byte("PAR1"), []byte{0x15, 0x02, 0x19, 0xFC, 0xFF, 0xFF, 0xFF, 0xFF, 0x07}, 9, "PAR1")},
	}
	var cReqs []string
	for _, c := range crafted {
		cReqs = append(cReqs, "open 0 "+core.Hex(c.g))
	}
	for i, a := range c14FtAskIsolated(ctx, cReqs) {
		ctx.Case("crafted|"+crafted[i].name, true)
		ctx.Hist("footer.crafted", crafted[i].name+": "+strings.Fields(a + " -")[0])
		if strings.HasPrefix(a, "crash") || a == "timeout" || strings.HasPrefix(a, "panic") {
			c14FtAbnormal(ctx, "open", a, map[string]any{"file": core.Hex(crafted[i].g), "what": crafted[i].name, "decryption": false, "real": a})
		} else if a == "ok" {
			ctx.Fail("L1", "crafted-footer-opens", "OpenFile opens a crafted damaged file", map[string]any{"file": core.Hex(crafted[i].g)})
		}
	}
}
