package props

// C02, part "thrift": the compact-protocol encoder that writes every footer, page header and index.
//
// Random `format.FileMetaData`, `PageHeader`, `ColumnIndex`, `OffsetIndex` (and the types nested in
// them: schema elements, logical-type unions, row groups, column chunks, statistics, ...) are
// marshalled with the library's `thrift.Marshal(new(thrift.CompactProtocol), v)`; the same Go value
// is turned, by reflection over the `thrift:"id,..."` struct tags, into
//   * a TYPED tree text (every field the encoder reaches: id, `required`/`writezero` tag options,
//     reflect IsZero, the value with its integer width), and
//   * an UNTYPED tree text of what a reader must see (omitted fields dropped by the harness's own
//     reading of the tag rules, integers without width).
// L1 (independent decoder agrees): the Lean SPEC reader `readStruct` applied to the Go bytes returns
//     the untyped tree and stops at the last byte.
// L2 (real code vs mirror): the Lean MIRROR `writeStruct` applied to the typed tree gives the Go
//     bytes, byte for byte; the mirror's omission rule (`erase`) gives the untyped tree; the tree is
//     well-formed (`WfF`), i.e. inside the domain of theorem `read_write_struct`.
// Also marshalled: the footers of real files written from catalogue types and read back by the library.

import (
	"bytes"
	"encoding/hex"
	"fmt"
	"math"
	"math/rand"
	"reflect"
	"sort"
	"strconv"
	"strings"
	"sync"

	"github.com/parquet-go/parquet-go"
	"github.com/parquet-go/parquet-go/encoding/thrift"
	"github.com/parquet-go/parquet-go/format"

	"verifharness/core"
	"verifharness/gen"
)

func init() { RegisterSub("C02", "thrift", RunC02Thrift) }

const thPkg = "github.com/parquet-go/parquet-go/encoding/thrift"

var thUnionIface = reflect.TypeOf((*thrift.Union)(nil)).Elem()

func thIsUnion(t reflect.Type) bool {
	return t.Kind() == reflect.Struct && reflect.PointerTo(t).Implements(thUnionIface)
}
func thIsNull(t reflect.Type) bool {
	return t.Kind() == reflect.Struct && t.PkgPath() == thPkg && strings.HasPrefix(t.Name(), "Null[")
}
func thIsSlice(t reflect.Type) bool {
	return t.Kind() == reflect.Slice && t.PkgPath() == thPkg && strings.HasPrefix(t.Name(), "Slice[")
}

// ---------------------------------------------------------------- random values

var thIntPool = []int64{0, 0, 1, -1, 2, 7, 8, 14, 15, 16, 17, 63, 64, -64, -65, 127, 128, -128, -129, 255, 256,
	8191, 8192, -8192, -8193, 32767, -32768, 65535, 1 << 20, 1<<21 - 1, -(1 << 20), 1<<31 - 1, -(1 << 31), 1 << 31,
	1<<35 - 1, 1 << 35, 1<<42 + 5, 1<<49 - 1, -(1 << 49), 1<<56 - 1, 1 << 56, -(1 << 56) - 1, math.MaxInt64, math.MinInt64, math.MaxInt64 - 1, math.MinInt64 + 1}

func thInt(r *rand.Rand, bits int) int64 {
	var x int64
	switch r.Intn(4) {
	case 0:
		x = r.Int63() >> uint(r.Intn(63))
		if r.Intn(2) == 0 {
			x = -x
		}
	default:
		x = thIntPool[r.Intn(len(thIntPool))]
	}
	switch bits {
	case 8:
		return int64(int8(x))
	case 16:
		return int64(int16(x))
	case 32:
		return int64(int32(x))
	}
	return x
}

var thFloatPool = []uint64{0, 1 << 63, 0x3ff0000000000000, 0xbff0000000000000, 0x7ff0000000000000, 0xfff0000000000000,
	0x7ff8000000000001, 0x7ff0000000000001, 0xfff8000000000000, 1, 0x000fffffffffffff, 0x7fefffffffffffff, 0x0102030405060708}

func thBytes(r *rand.Rand) []byte {
	var n int
	switch r.Intn(8) {
	case 0:
		return nil
	case 1:
		return []byte{}
	case 2:
		n = []int{127, 128, 129, 300, 16383, 16384}[r.Intn(6)]
	default:
		n = 1 + r.Intn(12)
	}
	b := make([]byte, n)
	switch r.Intn(3) {
	case 0:
		for i := range b {
			b[i] = 0xFF
		}
	case 1:
		r.Read(b)
	default:
		for i := range b {
			b[i] = "abcxyz_01"[r.Intn(9)]
		}
	}
	return b
}

// list lengths around the short/long list header boundary (14/15): lists of scalars at any depth,
// lists of structs near the root only (the value must stay a few kilobytes)
func thLen(r *rand.Rand, depth int, heavy bool) int {
	if !heavy {
		if depth >= 2 && r.Intn(3) != 0 {
			return r.Intn(4)
		}
		return []int{0, 1, 2, 3, 13, 14, 15, 16, 17, 40, 130}[r.Intn(11)]
	}
	switch depth {
	case 0:
		return []int{0, 1, 2, 3, 14, 15, 16}[r.Intn(7)]
	case 1:
		return []int{0, 1, 1, 2, 3, 15}[r.Intn(6)]
	}
	return r.Intn(3)
}

// thFill fills v with random content. budget bounds the size of the whole value: every scalar
// costs one unit (a byte string one per 16 bytes); once it is spent, optional shapes stay unset and
// lists stay empty.
func thFill(r *rand.Rand, v reflect.Value, depth int, budget *int) {
	t := v.Type()
	*budget--
	broke := *budget <= 0
	switch {
	case thIsUnion(t):
		if broke || r.Intn(4) == 0 {
			return // unset
		}
		ms := v.Addr().Interface().(thrift.Union).UnionMembers()
		m := ms[r.Intn(len(ms))]
		mt := reflect.TypeOf(m)
		if r.Intn(12) == 0 {
			v.Field(0).Set(reflect.Zero(mt)) // typed nil member: encodes as an empty struct
			return
		}
		p := reflect.New(mt.Elem())
		thFill(r, p.Elem(), depth+1, budget)
		v.Field(0).Set(p)
		return
	case thIsNull(t):
		valid := !broke && r.Intn(3) != 0
		if valid || r.Intn(4) == 0 {
			thFill(r, v.Field(0), depth, budget)
		}
		v.Field(1).SetBool(valid)
		return
	}
	switch v.Kind() {
	case reflect.Bool:
		v.SetBool(r.Intn(2) == 0)
	case reflect.Int8:
		v.SetInt(thInt(r, 8))
	case reflect.Int16:
		v.SetInt(thInt(r, 16))
	case reflect.Int32:
		v.SetInt(thInt(r, 32))
	case reflect.Int64, reflect.Int:
		v.SetInt(thInt(r, 64))
	case reflect.Float64, reflect.Float32:
		if r.Intn(3) == 0 {
			v.SetFloat(r.NormFloat64())
		} else {
			v.SetFloat(math.Float64frombits(thFloatPool[r.Intn(len(thFloatPool))]))
		}
	case reflect.String:
		b := thBytes(r)
		*budget -= len(b) / 16
		v.SetString(string(b))
	case reflect.Slice:
		if t.Elem().Kind() == reflect.Uint8 {
			b := thBytes(r)
			*budget -= len(b) / 16
			v.SetBytes(b)
			return
		}
		if r.Intn(5) == 0 {
			return // nil
		}
		if broke {
			v.Set(reflect.MakeSlice(t, 0, 0))
			return
		}
		ek := t.Elem().Kind()
		n := thLen(r, depth, ek == reflect.Struct || ek == reflect.Ptr || ek == reflect.Slice && t.Elem().Elem().Kind() != reflect.Uint8)
		s := reflect.MakeSlice(t, n, n)
		for i := 0; i < n; i++ {
			thFill(r, s.Index(i), depth+1, budget)
		}
		v.Set(s)
	case reflect.Ptr:
		if broke || r.Intn(3) == 0 {
			return
		}
		p := reflect.New(t.Elem())
		thFill(r, p.Elem(), depth+1, budget)
		v.Set(p)
	case reflect.Struct:
		for i := 0; i < t.NumField(); i++ {
			if t.Field(i).PkgPath == "" {
				thFill(r, v.Field(i), depth, budget)
			}
		}
	}
}

// ---------------------------------------------------------------- Go value -> tree texts

type thField struct {
	index               []int
	id                  int
	required, writezero bool
	typ                 reflect.Type
}

var thFieldCache sync.Map

// the tagged fields of a struct type in ascending id order (anonymous struct fields flattened)
func thFields(t reflect.Type) []thField {
	if c, ok := thFieldCache.Load(t); ok {
		return c.([]thField)
	}
	var out []thField
	var walk func(t reflect.Type, index []int)
	walk = func(t reflect.Type, index []int) {
		for i := 0; i < t.NumField(); i++ {
			f := t.Field(i)
			if f.PkgPath != "" && !f.Anonymous {
				continue
			}
			idx := append(append([]int{}, index...), i)
			if f.Anonymous {
				ft := f.Type
				for ft.Kind() == reflect.Ptr {
					ft = ft.Elem()
				}
				if ft.Kind() == reflect.Struct {
					walk(ft, idx)
					continue
				}
			}
			tag := f.Tag.Get("thrift")
			if tag == "" {
				continue
			}
			parts := strings.Split(tag, ",")
			id, err := strconv.Atoi(parts[0])
			if err != nil {
				panic("thrift tag without id: " + tag)
			}
			tf := thField{index: idx, id: id, typ: f.Type}
			for _, o := range parts[1:] {
				switch o {
				case "required":
					tf.required = true
				case "writezero":
					tf.writezero = true
				case "enum":
					panic("enum tag option is not modelled")
				}
			}
			out = append(out, tf)
		}
	}
	walk(t, nil)
	sort.SliceStable(out, func(i, j int) bool { return out[i].id < out[j].id })
	thFieldCache.Store(t, out)
	return out
}

// compact-protocol type code of a Go type (BOOL = 2)
func thCode(t reflect.Type) int {
	switch {
	case thIsUnion(t):
		return 12
	case thIsNull(t):
		return thCode(t.Field(0).Type)
	}
	switch t.Kind() {
	case reflect.Bool:
		return 2
	case reflect.Int8, reflect.Uint8:
		return 3
	case reflect.Int16, reflect.Uint16:
		return 4
	case reflect.Int32, reflect.Uint32:
		return 5
	case reflect.Int64, reflect.Int, reflect.Uint64, reflect.Uint:
		return 6
	case reflect.Float32, reflect.Float64:
		return 7
	case reflect.String:
		return 8
	case reflect.Slice:
		if t.Elem().Kind() == reflect.Uint8 {
			return 8
		}
		return 9
	case reflect.Struct:
		return 12
	case reflect.Ptr:
		return thCode(t.Elem())
	}
	panic("no thrift type for " + t.String())
}

// thTree writes the tree of v: typed (every reachable field, with flags and widths) or untyped
// (what a reader must see: omitted fields dropped).
func thTree(sb *strings.Builder, v reflect.Value, typed bool) {
	t := v.Type()
	switch {
	case t.Kind() == reflect.Ptr:
		if v.IsNil() {
			thTree(sb, reflect.Zero(t.Elem()), typed)
		} else {
			thTree(sb, v.Elem(), typed)
		}
		return
	case thIsNull(t):
		thTree(sb, v.Field(0), typed)
		return
	case thIsUnion(t):
		open, cl := "{", "}"
		if typed {
			open = "S{"
		}
		m := v.Field(0)
		if m.IsNil() {
			sb.WriteString(open + cl)
			return
		}
		p := m.Elem() // the *Member
		id := p.Interface().(thrift.UnionMember).FieldID()
		sb.WriteString(open)
		if typed {
			fmt.Fprintf(sb, "%dr:", id)
		} else {
			fmt.Fprintf(sb, "%d:", id)
		}
		if p.IsNil() {
			thTree(sb, reflect.Zero(p.Type().Elem()), typed)
		} else {
			thTree(sb, p.Elem(), typed)
		}
		sb.WriteString(cl)
		return
	}
	switch v.Kind() {
	case reflect.Bool:
		if v.Bool() {
			sb.WriteString("T")
		} else {
			sb.WriteString("F")
		}
	case reflect.Int8, reflect.Int16, reflect.Int32, reflect.Int64, reflect.Int:
		if !typed {
			fmt.Fprintf(sb, "n%d", v.Int())
			return
		}
		fmt.Fprintf(sb, "%c%d", map[int]byte{3: 'b', 4: 'h', 5: 'i', 6: 'l'}[thCode(t)], v.Int())
	case reflect.Float32, reflect.Float64:
		fmt.Fprintf(sb, "d%016x", math.Float64bits(v.Float()))
	case reflect.String:
		sb.WriteString("s" + hex.EncodeToString([]byte(v.String())))
	case reflect.Slice:
		if t.Elem().Kind() == reflect.Uint8 {
			sb.WriteString("s" + hex.EncodeToString(v.Bytes()))
			return
		}
		if typed {
			fmt.Fprintf(sb, "L%d[", thCode(t.Elem()))
		} else {
			sb.WriteString("[")
		}
		for i := 0; i < v.Len(); i++ {
			if i > 0 {
				sb.WriteString(",")
			}
			thTree(sb, v.Index(i), typed)
		}
		sb.WriteString("]")
	case reflect.Struct:
		if typed {
			sb.WriteString("S{")
		} else {
			sb.WriteString("{")
		}
		first := true
	fields:
		for _, f := range thFields(t) {
			x := v
			for _, i := range f.index {
				if x.Kind() == reflect.Ptr {
					x = x.Elem()
				}
				if x = x.Field(i); x.Kind() == reflect.Ptr && x.IsNil() {
					continue fields // a nil pointer is an unset field
				}
			}
			if !f.required {
				ft := f.typ
				switch {
				case thIsUnion(ft) && x.Field(0).IsNil(), thIsNull(ft) && !x.Field(1).Bool(), thIsSlice(ft) && x.IsNil():
					continue fields // unset union, unset Null[T], nil Slice[T]
				}
			}
			zero := x.IsZero()
			if !typed && !f.required && !f.writezero && zero {
				continue // optional fields holding the zero value are not written
			}
			if !first {
				sb.WriteString(",")
			}
			first = false
			sb.WriteString(strconv.Itoa(f.id))
			if typed {
				if f.required {
					sb.WriteString("r")
				}
				if f.writezero {
					sb.WriteString("w")
				}
				if zero {
					sb.WriteString("z")
				}
			}
			sb.WriteString(":")
			thTree(sb, x, typed)
		}
		sb.WriteString("}")
	default:
		panic("no tree form for " + t.String())
	}
}

func thTexts(v any) (typed, untyped string, err error) {
	defer func() {
		if x := recover(); x != nil {
			err = fmt.Errorf("tree conversion: %v", x)
		}
	}()
	var a, b strings.Builder
	rv := reflect.ValueOf(v)
	thTree(&a, rv, true)
	thTree(&b, rv, false)
	return a.String(), b.String(), nil
}

func thMarshal(v any) (b []byte, err error) {
	defer func() {
		if x := recover(); x != nil {
			err = fmt.Errorf("PANIC: %v", x)
		}
	}()
	return thrift.Marshal(new(thrift.CompactProtocol), v)
}

// ---------------------------------------------------------------- the check

type thCase struct {
	kind           string
	origin         string
	val            any
	bytes          []byte
	typed, untyped string
}

var thRoots = []struct {
	name string
	mk   func() any
}{
	{"FileMetaData", func() any { return new(format.FileMetaData) }},
	{"PageHeader", func() any { return new(format.PageHeader) }},
	{"ColumnIndex", func() any { return new(format.ColumnIndex) }},
	{"OffsetIndex", func() any { return new(format.OffsetIndex) }},
	{"RowGroup", func() any { return new(format.RowGroup) }},
	{"ColumnChunk", func() any { return new(format.ColumnChunk) }},
	{"SchemaElement", func() any { return new(format.SchemaElement) }},
	{"BloomFilterHeader", func() any { return new(format.BloomFilterHeader) }},
}

func thDiffAt(a, b string) int {
	n := len(a)
	if len(b) < n {
		n = len(b)
	}
	for i := 0; i < n; i++ {
		if a[i] != b[i] {
			return i
		}
	}
	return n
}

func thClip(s string, at int) string {
	lo, hi := at-40, at+40
	if lo < 0 {
		lo = 0
	}
	if hi > len(s) {
		hi = len(s)
	}
	return s[lo:hi]
}

func RunC02Thrift(ctx *core.Ctx) {
	ctx.SetRule("random format.FileMetaData / PageHeader / ColumnIndex / OffsetIndex / RowGroup / ColumnChunk / SchemaElement / BloomFilterHeader values (boundary ints per width, list lengths around the 14/15 header boundary, field ids above 15 through the logical-type union, nil / empty / unset variants of every optional shape, NaN and -0.0 doubles) and the footers of real files, marshalled by the library's compact-protocol encoder; L1: the Lean spec reader returns the tree the Go value denotes; L2: the Lean encoder mirror produces the same bytes from the typed tree and the same omissions; non-trivial = the struct has a nested struct or list and more than 8 bytes")
	perRoot := ctx.Scale(250, 6000)
	var wg sync.WaitGroup
	run := func(stream string, produce func(r *rand.Rand, emit func(c thCase))) {
		wg.Add(1)
		go func() {
			defer wg.Done()
			d := ctx.Driver()
			if d == nil {
				return
			}
			r := ctx.Rand(stream)
			var batch []thCase
			flush := func() {
				if len(batch) == 0 {
					return
				}
				reqs := make([]string, 0, 2*len(batch))
				for _, c := range batch {
					reqs = append(reqs, "thrift.write "+c.typed, "thrift.read "+core.Hex(c.bytes))
				}
				ans, err := d.AskMany(reqs)
				if err != nil {
					ctx.Fail("L2", "driver-error", err.Error(), nil)
					batch = nil
					return
				}
				for i, c := range batch {
					thJudge(ctx, c, ans[2*i], ans[2*i+1])
				}
				batch = batch[:0]
			}
			produce(r, func(c thCase) {
				b, err := thMarshal(c.val)
				if err != nil {
					ctx.Fail("L1", "marshal-error kind="+c.kind+" "+errClass(err), "the encoder refuses or panics on a value of package format: "+err.Error(), map[string]any{"kind": c.kind, "origin": c.origin, "value": fmt.Sprintf("%+v", c.val)})
					return
				}
				c.bytes = b
				c.typed, c.untyped, err = thTexts(c.val)
				if err != nil {
					ctx.Fail("L2", "tree-conversion kind="+c.kind, err.Error(), map[string]any{"kind": c.kind, "origin": c.origin})
					return
				}
				batch = append(batch, c)
				if len(batch) >= 500 {
					flush()
				}
			})
			flush()
		}()
	}
	for _, root := range thRoots {
		root := root
		run("c02thrift/"+root.name, func(r *rand.Rand, emit func(thCase)) {
			for k := 0; k < perRoot; k++ {
				v := root.mk()
				budget := []int{20, 60, 150, 400, 1000, 2500}[r.Intn(6)]
				thFill(r, reflect.ValueOf(v).Elem(), 0, &budget)
				emit(thCase{kind: root.name, origin: fmt.Sprintf("stream c02thrift/%s case %d", root.name, k), val: v})
			}
		})
	}
	// footers of real files, as the library's reader decoded them
	run("c02thrift/files", func(r *rand.Rand, emit func(thCase)) {
		n := ctx.Scale(2, 20)
		for _, e := range gen.Catalog {
			for k := 0; k < n; k++ {
				rows := e.NewRows([]int{0, 1, 40, 130}[r.Intn(4)])
				gen.FillRows(r, rows, &gen.Profile{NullProb: 0.3, MaxLen: 3})
				cfg := gen.RandWriterCfg(r)
				var buf bytes.Buffer
				if err := func() (err error) {
					defer func() {
						if x := recover(); x != nil {
							err = fmt.Errorf("PANIC: %v", x)
						}
					}()
					return e.WriteGeneric(&buf, rows.Interface(), nil, cfg.Opts...)
				}(); err != nil {
					continue // C01/C02-wellformed report write errors
				}
				f, err := parquet.OpenFile(bytes.NewReader(buf.Bytes()), int64(buf.Len()))
				if err != nil {
					continue
				}
				emit(thCase{kind: "FileMetaData(file)", origin: fmt.Sprintf("footer of %s %s rows=%d (stream c02thrift/files)", e.Name, cfg.Desc, rows.Len()), val: f.Metadata()})
			}
		}
	})
	wg.Wait()
}

func thJudge(ctx *core.Ctx, c thCase, wr, rd string) {
	goHex := core.Hex(c.bytes)
	nontrivial := len(c.bytes) > 8 && (strings.Contains(c.untyped[1:], "{") || strings.Contains(c.untyped, "["))
	ctx.Case(c.kind+" "+goHex, nontrivial)
	ctx.Hist("kind", c.kind)
	ctx.Hist("bytes", histBucket(len(c.bytes)))
	if strings.Contains(c.typed, "z:") {
		ctx.Hist("features", "zero-field")
	}
	detail := func(extra map[string]any) map[string]any {
		m := map[string]any{"kind": c.kind, "origin": c.origin, "go_bytes": goHex, "typed_tree": c.typed, "expected_tree": c.untyped}
		for k, v := range extra {
			m[k] = v
		}
		return m
	}
	// L2: mirror bytes, mirror omissions, well-formedness
	wp := strings.SplitN(wr, " ", 4)
	if len(wp) != 4 || wp[0] != "ok" {
		ctx.Fail("L2", "mirror-rejects-tree kind="+c.kind, "thrift.write answered "+thClip(wr, 0), detail(nil))
	} else {
		if wp[1] != goHex {
			at := thDiffAt(wp[1], goHex)
			ctx.Fail("L2", "encoder-bytes-differ kind="+c.kind, fmt.Sprintf("the encoder mirror and thrift.Marshal differ at hex offset %d: mirror …%s… library …%s…", at, thClip(wp[1], at), thClip(goHex, at)), detail(map[string]any{"mirror_bytes": wp[1]}))
		}
		if wp[2] != "wf=1" {
			ctx.Fail("L2", "tree-not-wellformed kind="+c.kind, "the tree of a format value is outside the domain of read_write_struct (WfF false)", detail(nil))
		}
		if wp[3] != c.untyped {
			at := thDiffAt(wp[3], c.untyped)
			ctx.Fail("L2", "omission-rule-differs kind="+c.kind, fmt.Sprintf("the mirror's erase and the harness's reading of the tag rules differ at %d: mirror …%s… harness …%s…", at, thClip(wp[3], at), thClip(c.untyped, at)), detail(nil))
		}
	}
	// L1: the independent reader on the library's bytes
	want := fmt.Sprintf("ok %s %d", c.untyped, len(c.bytes))
	if rd != want {
		at := thDiffAt(rd, want)
		what := fmt.Sprintf("the spec reader does not return the marshalled value: differs at %d: reader …%s… expected …%s…", at, thClip(rd, at), thClip(want, at))
		key := "reader-disagrees kind=" + c.kind
		if strings.HasPrefix(rd, "err ") {
			key = "reader-rejects kind=" + c.kind + " " + strings.TrimPrefix(rd, "err ")
		}
		ctx.Fail("L1", key, what, detail(map[string]any{"reader_answer": thClip(rd, at)}))
	}
	if nontrivial {
		ctx.Sample(map[string]any{"kind": c.kind, "bytes": len(c.bytes), "tree": thClip(c.untyped, 0)})
	}
}

func histBucket(n int) string {
	switch {
	case n <= 1:
		return "0-1"
	case n <= 8:
		return "2-8"
	case n <= 64:
		return "9-64"
	case n <= 512:
		return "65-512"
	case n <= 4096:
		return "513-4096"
	}
	return ">4096"
}
