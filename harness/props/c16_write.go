package props

// C16, write side: "the library never modifies rows or slices the caller passes to Write".
//
// Sub-check `writeside`:
//
//   Part A (L1 + L2)  random trees of the row-writer wrappers (FilterRowWriter, TransformRowWriter,
//       DedupeRowWriter, MultiRowWriter — flat and nested) over a recording RowWriterFunc and a real
//       RowBuffer, driven with caller rows laid out in caller-owned backing arrays (own array with spare
//       capacity, rows carved out of one shared array with cap == len, and with cap reaching over the
//       following rows) and handed over in caller-owned []Row slices (sub-slices of one array with the
//       capacity reaching over the following batches or clipped, one array per batch; spare capacity holding
//       stale headers; the same slice or a sub-slice of it sent again). L1: after every WriteRows call every
//       cell of every caller []Value array and of every caller []Row array (spare capacity included) is what
//       it was. L2: returned (n, err) of every call, what every leaf received, the caller []Value arrays and
//       the caller []Row arrays after the history equal the Lean mirror's (`own.run`, PqModel.WriteOwn,
//       theorem write_keeps_caller_memory).
//
//   Part B (L1)  sweep of the remaining entry points that take caller-owned parquet rows / values, on the
//       catalogue types with real values (byte arrays included): chains of wrappers over Writer,
//       GenericWriter[any], Buffer, RowBuffer, SortingWriter, ConcurrentRowGroupWriter (BeginRowGroup);
//       ColumnWriter.WriteRowValues and ColumnBuffer.WriteValues with a caller []Value; SortingWriter[T].Write
//       with a caller []T. Snapshots cover row headers (pointer, len, cap), the hidden capacity of each row
//       and the bytes behind BYTE_ARRAY values; they are re-compared after every later call on the writer
//       (Flush, Reset, Close, Commit).

import (
	"bytes"
	"errors"
	"fmt"
	"io"
	"math/rand"
	"sort"
	"strings"
	"sync"
	"unsafe"

	"github.com/parquet-go/parquet-go"

	"verifharness/core"
	"verifharness/gen"
)

func init() {
	RegisterSub("C16", "writeside", RunC16WriteSide)
}

const c16WriteRule = "Part A: random trees (depth <= 4) of FilterRowWriter / TransformRowWriter / DedupeRowWriter / MultiRowWriter over a recording RowWriterFunc (failing at a chosen call) and a real RowBuffer x caller rows in three memory layouts (own array with spare capacity, carved with cap == len, carved with cap over the following rows) x three layouts of the []Row slices handed over (sub-slices of one array with cap over the following batches, clipped, one array per batch; stale headers in the spare capacity; a slice or sub-slice sent again) x 0..130 rows in random batches: caller []Value arrays and caller []Row arrays compared cell by cell over their capacity after every call (L1) and returns / delivered rows / caller []Value arrays / caller []Row arrays compared with the Lean mirror own.run (L2); non-trivial = at least one row reached a leaf through at least one wrapper and the history has >= 2 calls or >= 43 rows. Part B: catalogue types x wrapper chains over Writer, GenericWriter[any], Buffer, RowBuffer, SortingWriter, BeginRowGroup writers, plus ColumnWriter.WriteRowValues, ColumnBuffer.WriteValues and SortingWriter[T].Write: caller rows (headers, hidden capacity, byte-array contents) compared after every call incl. Flush / Reset / Close / Commit; non-trivial = the rows hold at least one non-null value and a wrapper or column entry point was used"

func RunC16WriteSide(ctx *core.Ctx) {
	ctx.SetRule(c16WriteRule)
	var wg sync.WaitGroup
	wg.Add(2)
	go func() { defer wg.Done(); c16WriteTrees(ctx) }()
	go func() { defer wg.Done(); c16WriteSweep(ctx) }()
	wg.Wait()
}

// ------------------------------------------------------------------ Part A: wrapper trees vs the model

type c16wNode struct {
	kind   byte // 'S' sink, 'R' row buffer, 'F', 'T', 'D', 'M'
	id, k  int
	failAt int
	kids   []*c16wNode
}

func (n *c16wNode) postfix(out *[]string) {
	for _, c := range n.kids {
		c.postfix(out)
	}
	switch n.kind {
	case 'S':
		*out = append(*out, fmt.Sprintf("S%d:%d", n.id, n.failAt))
	case 'R':
		*out = append(*out, fmt.Sprintf("R%d", n.id))
	case 'F':
		*out = append(*out, fmt.Sprintf("F0:%d:%d", n.id, n.k))
	case 'T':
		*out = append(*out, fmt.Sprintf("T%d:%d", n.id, n.k))
	case 'D':
		*out = append(*out, fmt.Sprintf("D%d:%d", n.id, n.k))
	case 'M':
		*out = append(*out, "M")
	}
}

func (n *c16wNode) kinds(set map[byte]bool) {
	set[n.kind] = true
	for _, c := range n.kids {
		c.kinds(set)
	}
}

func c16wRandTree(r *rand.Rand, depth int, nextID *int) *c16wNode {
	id := *nextID
	*nextID++
	if depth == 0 || r.Intn(5) == 0 {
		if r.Intn(3) == 0 {
			return &c16wNode{kind: 'R', id: id}
		}
		failAt := 1000
		if r.Intn(4) == 0 {
			failAt = r.Intn(4)
		}
		return &c16wNode{kind: 'S', id: id, failAt: failAt}
	}
	switch r.Intn(7) {
	case 0, 1:
		return &c16wNode{kind: 'F', id: id, k: r.Intn(3), kids: []*c16wNode{c16wRandTree(r, depth-1, nextID)}}
	case 2, 3:
		k := r.Intn(7)
		if r.Intn(6) == 0 {
			k += 100 // may fail
		}
		return &c16wNode{kind: 'T', id: id, k: k, kids: []*c16wNode{c16wRandTree(r, depth-1, nextID)}}
	case 4, 5:
		return &c16wNode{kind: 'D', id: id, k: r.Intn(2), kids: []*c16wNode{c16wRandTree(r, depth-1, nextID)}}
	default:
		return &c16wNode{kind: 'M', id: id, kids: []*c16wNode{c16wRandTree(r, depth-1, nextID), c16wRandTree(r, depth-1, nextID)}}
	}
}

func c16wHead(row parquet.Row) int64 {
	if len(row) == 0 || row[0].IsNull() {
		return 0
	}
	return row[0].Int64()
}

func c16wShowRow(row []parquet.Value) string {
	if len(row) == 0 {
		return "e"
	}
	var sb strings.Builder
	for i, v := range row {
		if i > 0 {
			sb.WriteByte('.')
		}
		if v.IsNull() {
			sb.WriteByte('0')
		} else {
			fmt.Fprint(&sb, v.Int64())
		}
	}
	return sb.String()
}

var errC16Sink = errors.New("sink failure")
var errC16Transform = errors.New("transform failure")

type c16wLeaf struct {
	node    *c16wNode
	calls   int
	batches []string
	rb      *parquet.RowBuffer[any]
}

func (l *c16wLeaf) text() string {
	if l.node.kind == 'S' {
		return fmt.Sprintf("S%d[%s]", l.node.id, strings.Join(l.batches, "|"))
	}
	var rows []string
	rr := l.rb.Rows()
	buf := make([]parquet.Row, 64)
	for {
		n, err := rr.ReadRows(buf)
		for _, row := range buf[:n] {
			rows = append(rows, c16wShowRow(row))
		}
		if err != nil || n == 0 {
			break
		}
	}
	rr.Close()
	return fmt.Sprintf("R%d[%s]", l.node.id, strings.Join(rows, ";"))
}

var c16wSchema = parquet.NewSchema("ids", parquet.Group{"a": parquet.Leaf(parquet.Int64Type), "b": parquet.Leaf(parquet.Int64Type), "c": parquet.Leaf(parquet.Int64Type)})

// build constructs the real writer objects of a tree; flat says whether a Multi whose second child is a
// Multi is built as one n-ary MultiRowWriter.
func (n *c16wNode) build(leaves *[]*c16wLeaf, flat bool) parquet.RowWriter {
	switch n.kind {
	case 'S':
		l := &c16wLeaf{node: n}
		*leaves = append(*leaves, l)
		return parquet.RowWriterFunc(func(rows []parquet.Row) (int, error) {
			call := l.calls
			l.calls++
			if call == n.failAt {
				return 0, errC16Sink
			}
			texts := make([]string, len(rows))
			for i, row := range rows {
				texts[i] = c16wShowRow(row)
			}
			l.batches = append(l.batches, strings.Join(texts, ";"))
			return len(rows), nil
		})
	case 'R':
		l := &c16wLeaf{node: n, rb: parquet.NewRowBuffer[any](c16wSchema)}
		*leaves = append(*leaves, l)
		return l.rb
	case 'F':
		k := int64(n.k)
		return parquet.FilterRowWriter(n.kids[0].build(leaves, flat), func(row parquet.Row) bool { return (c16wHead(row)+k)%3 != 0 })
	case 'T':
		k := int64(n.k)
		return parquet.TransformRowWriter(n.kids[0].build(leaves, flat), func(dst, src parquet.Row) (parquet.Row, error) {
			switch x := (c16wHead(src) + k) % 7; {
			case x == 0:
				return dst, nil
			case x == 1:
				return append(append(dst, src...), src...), nil
			case x == 6 && k >= 100:
				return dst, errC16Transform
			default:
				return append(dst, src...), nil
			}
		})
	case 'D':
		d := int64(2 + n.k%2)
		return parquet.DedupeRowWriter(n.kids[0].build(leaves, flat), func(a, b parquet.Row) int {
			if c16wHead(a)/d == c16wHead(b)/d {
				return 0
			}
			return 1
		})
	default:
		ws := []parquet.RowWriter{n.kids[0].build(leaves, flat)}
		second := n.kids[1]
		for flat && second.kind == 'M' {
			ws = append(ws, second.kids[0].build(leaves, flat))
			second = second.kids[1]
		}
		ws = append(ws, second.build(leaves, flat))
		return parquet.MultiRowWriter(ws...)
	}
}

// caller memory of one case
type c16wCall struct{ arr, off, n, cap int } // the []Row slice rowArrs[arr][off : off+n : off+cap]

type c16wInput struct {
	arrays  [][]parquet.Value // arrays[i] is the caller's []Value array i+1 of the model
	rowArrs [][]parquet.Row   // rowArrs[i] is the caller's []Row array i+2 of the model, over its whole capacity
	cells   [][]string        // arr:off:len:cap of every cell of rowArrs
	calls   []c16wCall
	nrows   int
	layout  string
	// set by run: the caller's memory right after the first call that changed it
	chMem, chRowMem string
}

func c16wRandInput(r *rand.Rand) *c16wInput {
	in := &c16wInput{}
	n := []int{0, 1, 2, 3, 7, 41, 42, 43, 84, 85, 100, 130}[r.Intn(12)]
	in.nrows = n
	next := int64(1)
	value := func(col int) parquet.Value {
		// ids repeat in short runs so that predicates, duplicates and skips all occur
		if r.Intn(3) != 0 {
			next++
		}
		return parquet.Int64Value(next).Level(0, 0, col)
	}
	var rows []parquet.Row
	var hdrs []string
	layout := r.Intn(3)
	switch layout {
	case 0: // every row in its own array, with spare capacity holding sentinels
		for i := 0; i < n; i++ {
			l := r.Intn(4)
			spare := r.Intn(3)
			if l == 0 && spare == 0 {
				spare = 1 // no zero-sized arrays: their headers could not be told apart
			}
			arr := make([]parquet.Value, l+spare)
			for j := range arr {
				if j < l {
					arr[j] = value(j)
				} else {
					arr[j] = parquet.Int64Value(900000 + int64(i)).Level(0, 0, 0)
				}
			}
			in.arrays = append(in.arrays, arr)
			rows = append(rows, parquet.Row(arr[0:l:len(arr)]))
			hdrs = append(hdrs, fmt.Sprintf("%d:0:%d:%d", len(in.arrays), l, len(arr)))
		}
	default: // rows carved out of one array: cap == len (1) or cap up to the end of the array (2)
		c := 1 + r.Intn(3)
		arr := make([]parquet.Value, n*c+1)
		for j := range arr {
			arr[j] = value(j % c)
		}
		in.arrays = append(in.arrays, arr)
		for i := 0; i < n; i++ {
			if layout == 1 {
				rows = append(rows, parquet.Row(arr[i*c:i*c+c:i*c+c]))
				hdrs = append(hdrs, fmt.Sprintf("1:%d:%d:%d", i*c, c, c))
			} else {
				rows = append(rows, parquet.Row(arr[i*c:i*c+c]))
				hdrs = append(hdrs, fmt.Sprintf("1:%d:%d:%d", i*c, c, len(arr)-i*c))
			}
		}
	}
	var sizes []int
	for pos := 0; pos < n; {
		b := 1 + r.Intn(n-pos)
		if r.Intn(3) == 0 {
			b = n - pos
		}
		if r.Intn(8) == 0 {
			sizes = append(sizes, 0) // an empty WriteRows call
		}
		sizes = append(sizes, b)
		pos += b
	}
	if n == 0 || r.Intn(6) == 0 {
		sizes = append(sizes, 0)
	}
	// the []Row slices handed to WriteRows: one array holding all rows with the batches as consecutive
	// sub-slices whose capacity reaches to the end (0) or is clipped to the length (1), or one array per
	// batch (2); spare capacity holds stale headers (nil rows or copies of earlier rows)
	spareCells := func(arr []parquet.Row, cells []string, k int) ([]parquet.Row, []string) {
		for ; k > 0; k-- {
			if len(rows) > 0 && r.Intn(2) == 0 {
				i := r.Intn(len(rows))
				arr, cells = append(arr, rows[i]), append(cells, hdrs[i])
			} else {
				arr, cells = append(arr, nil), append(cells, "0:0:0:0")
			}
		}
		return arr, cells
	}
	rl := r.Intn(3)
	in.layout = fmt.Sprintf("values-%d/rows-%d", layout, rl)
	if rl < 2 {
		arr := append([]parquet.Row(nil), rows...)
		cells := append([]string(nil), hdrs...)
		arr, cells = spareCells(arr, cells, r.Intn(4))
		arr = arr[:len(arr):len(arr)]
		in.rowArrs, in.cells = append(in.rowArrs, arr), append(in.cells, cells)
		pos := 0
		for _, b := range sizes {
			c := c16wCall{0, pos, b, len(arr) - pos}
			if rl == 1 {
				c.cap = b
			}
			in.calls = append(in.calls, c)
			pos += b
		}
	} else {
		pos := 0
		for _, b := range sizes {
			arr := append([]parquet.Row(nil), rows[pos:pos+b]...)
			cells := append([]string(nil), hdrs[pos:pos+b]...)
			arr, cells = spareCells(arr, cells, r.Intn(3))
			arr = arr[:len(arr):len(arr)]
			in.rowArrs, in.cells = append(in.rowArrs, arr), append(in.cells, cells)
			in.calls = append(in.calls, c16wCall{len(in.rowArrs) - 1, 0, b, len(arr)})
			pos += b
		}
	}
	// a caller that uses its rows again: the same slice sent once more, or a sub-slice of it
	var calls []c16wCall
	for _, c := range in.calls {
		calls = append(calls, c)
		switch r.Intn(12) {
		case 0:
			calls = append(calls, c)
		case 1:
			if c.n >= 2 {
				calls = append(calls, c16wCall{c.arr, c.off + 1, c.n - 1, c.cap - 1})
			}
		}
	}
	in.calls = calls
	return in
}

func (in *c16wInput) memText() string {
	if len(in.arrays) == 0 {
		return "-"
	}
	t := make([]string, len(in.arrays))
	for i, a := range in.arrays {
		t[i] = c16wShowRow(a)
	}
	return strings.Join(t, ";")
}

type c16wRowKey struct {
	p        *parquet.Value
	len, cap int
}

// rowMemText is the text of the caller's []Row arrays over their whole capacity: every cell is named by
// the header text of the cell that was built with the same (pointer, len, cap); a header the caller never
// had is `?`.
func (in *c16wInput) rowMemText(names map[c16wRowKey]string) string {
	if len(in.rowArrs) == 0 {
		return "-"
	}
	t := make([]string, len(in.rowArrs))
	for i, a := range in.rowArrs {
		if len(a) == 0 {
			t[i] = "e"
			continue
		}
		cs := make([]string, len(a))
		for j, row := range a {
			name, ok := names[c16wRowKey{unsafe.SliceData(row), len(row), cap(row)}]
			if !ok {
				name = "?"
			}
			cs[j] = name
		}
		t[i] = strings.Join(cs, ";")
	}
	return strings.Join(t, "|")
}

func (in *c16wInput) rowNames() map[c16wRowKey]string {
	names := map[c16wRowKey]string{}
	for i, a := range in.rowArrs {
		for j, row := range a {
			names[c16wRowKey{unsafe.SliceData(row), len(row), cap(row)}] = in.cells[i][j]
		}
	}
	return names
}

func (in *c16wInput) rowArraysText() string {
	if len(in.cells) == 0 {
		return "-"
	}
	t := make([]string, len(in.cells))
	for i, c := range in.cells {
		if len(c) == 0 {
			t[i] = "e"
		} else {
			t[i] = strings.Join(c, ";")
		}
	}
	return strings.Join(t, "|")
}

func (in *c16wInput) callsText() string {
	if len(in.calls) == 0 {
		return "-"
	}
	t := make([]string, len(in.calls))
	for i, c := range in.calls {
		t[i] = fmt.Sprintf("%d:%d:%d:%d", c.arr+2, c.off, c.n, c.cap)
	}
	return strings.Join(t, ",")
}

func c16wHeaders(rows []parquet.Row) string {
	var sb strings.Builder
	for _, row := range rows {
		fmt.Fprintf(&sb, "%p/%d/%d;", unsafe.SliceData(row), len(row), cap(row))
	}
	return sb.String()
}

// run drives one tree over the input; it returns rets, leaves text, the caller's []Value arrays and []Row
// arrays afterwards, and the L1 verdict (first call after which the caller's memory differed, -1 if none).
func (in *c16wInput) run(tree *c16wNode, flat bool) (rets, leaves, mem, rowMem string, changedAfter int, panicked any) {
	var ls []*c16wLeaf
	w := tree.build(&ls, flat)
	names := in.rowNames()
	before, rowsBefore := in.memText(), in.rowMemText(names)
	changedAfter = -1
	var rs []string
	func() {
		defer func() { panicked = recover() }()
		for ci, c := range in.calls {
			n, err := w.WriteRows(in.rowArrs[c.arr][c.off : c.off+c.n : c.off+c.cap])
			e := 0
			if err != nil {
				e = 1
			}
			rs = append(rs, fmt.Sprintf("%d:%d", n, e))
			if changedAfter < 0 {
				if mt, rt := in.memText(), in.rowMemText(names); mt != before || rt != rowsBefore {
					changedAfter, in.chMem, in.chRowMem = ci, mt, rt
				}
			}
		}
	}()
	rets = strings.Join(rs, ",")
	if rets == "" {
		rets = "-"
	}
	// construction order of the leaves = their order in the shape
	lt := make([]string, len(ls))
	for i, l := range ls {
		lt[i] = l.text()
	}
	return rets, strings.Join(lt, "+"), in.memText(), in.rowMemText(names), changedAfter, panicked
}

func (in *c16wInput) clone() *c16wInput {
	out := &c16wInput{cells: in.cells, calls: in.calls, nrows: in.nrows, layout: in.layout}
	for _, a := range in.arrays {
		out.arrays = append(out.arrays, append([]parquet.Value(nil), a...))
	}
	for _, cs := range in.cells {
		arr := make([]parquet.Row, len(cs))
		for j, h := range cs {
			var ai, off, l, c int
			fmt.Sscanf(h, "%d:%d:%d:%d", &ai, &off, &l, &c)
			if ai > 0 {
				arr[j] = parquet.Row(out.arrays[ai-1][off : off+l : off+c])
			}
		}
		out.rowArrs = append(out.rowArrs, arr)
	}
	return out
}

// the multiset of headers of every caller []Row array (to tell a permutation from an overwrite)
func c16wSortedCells(rowMem string) string {
	arrs := strings.Split(rowMem, "|")
	for i, a := range arrs {
		cs := strings.Split(a, ";")
		sort.Strings(cs)
		arrs[i] = strings.Join(cs, ";")
	}
	return strings.Join(arrs, "|")
}

var c16wKindName = map[byte]string{'F': "FilterRowWriter", 'T': "TransformRowWriter", 'D': "DedupeRowWriter", 'M': "MultiRowWriter", 'R': "RowBuffer", 'S': "RowWriterFunc"}

func c16WriteTrees(ctx *core.Ctx) {
	d := ctx.Driver()
	if d == nil {
		return
	}
	r := ctx.Rand("c16/writeside/trees")
	ncases := ctx.Scale(6000, 60000)
	type pending struct {
		tree  *c16wNode
		in    *c16wInput // pristine copy
		req   string
		rets  string
		lv    string
		mem   string
		rmem  string
		flat  bool
		shape string
	}
	var batch []pending
	flush := func() {
		if len(batch) == 0 {
			return
		}
		reqs := make([]string, len(batch))
		for i := range batch {
			reqs[i] = batch[i].req
		}
		answers, err := d.AskMany(reqs)
		if err != nil {
			ctx.Fail("L2", "driver-error", err.Error(), nil)
			batch = batch[:0]
			return
		}
		for i, p := range batch {
			want := "ok " + p.rets + " " + p.lv + " " + p.mem + " " + p.rmem
			if answers[i] == want {
				continue
			}
			part := "format"
			if f := strings.Fields(answers[i]); len(f) == 5 && f[0] == "ok" {
				switch {
				case f[1] != p.rets:
					part = "returns"
				case f[2] != p.lv:
					part = "delivered-rows"
				case f[3] != p.mem:
					part = "caller-memory"
				default:
					part = "caller-row-slices"
				}
			}
			ctx.Fail("L2", "writeside-model-differs:"+part, "the real row-writer wrappers and the Lean mirror (PqModel.WriteOwn) disagree on "+part,
				map[string]any{"request": p.req, "model": answers[i], "real": want, "multi_built_flat": p.flat})
		}
		batch = batch[:0]
	}
	for k := 0; k < ncases; k++ {
		id := 0
		tree := c16wRandTree(r, 1+r.Intn(4), &id)
		in := c16wRandInput(r)
		flat := r.Intn(2) == 0
		var toks []string
		tree.postfix(&toks)
		shape := strings.Join(toks, ",")
		req := fmt.Sprintf("own.run %s %s %s %s", shape, in.memText(), in.rowArraysText(), in.callsText())
		pristine := in.clone()
		rets, lv, mem, rowMem, changedAfter, panicked := in.run(tree, flat)
		kinds := map[byte]bool{}
		tree.kinds(kinds)
		wrappers := 0
		for _, kk := range []byte{'F', 'T', 'D', 'M'} {
			if kinds[kk] {
				wrappers++
				ctx.Hist("tree-wrapper", c16wKindName[kk])
			}
		}
		ctx.Hist("tree-rows", c16Bucket(in.nrows))
		ctx.Hist("tree-calls", c16Bucket(len(in.calls)))
		ctx.Hist("tree-caller-layout", in.layout)
		delivered := strings.ContainsAny(lv, "123456789")
		c16Count(ctx, req, wrappers > 0 && delivered && (len(in.calls) >= 2 || in.nrows >= 43))
		if panicked != nil {
			ctx.Fail("L1", "library-panic:writeside-tree", "a row-writer wrapper panicked on valid rows: "+fmt.Sprint(panicked), map[string]any{"request": req})
			continue
		}
		if changedAfter >= 0 {
			// attribute: which wrapper kind alone (over a recording sink) modifies the same caller rows?
			culprit := "tree:" + c16wKindName[tree.kind]
			for _, kk := range []byte{'F', 'T', 'D', 'M'} {
				if !kinds[kk] {
					continue
				}
				single := &c16wNode{kind: kk, id: 0, k: 0, kids: []*c16wNode{{kind: 'S', id: 1, failAt: 1000}}}
				if kk == 'M' {
					single.kids = append(single.kids, &c16wNode{kind: 'S', id: 2, failAt: 1000})
				}
				if _, _, _, _, ch, _ := pristine.clone().run(single, false); ch >= 0 {
					culprit = c16wKindName[kk] + ".WriteRows"
					break
				}
			}
			effect := "values-overwritten"
			rowsBefore := pristine.rowArraysText()
			mem, rowMem := in.chMem, in.chRowMem // as they were right after the first call that changed them
			switch {
			case mem == pristine.memText() && rowMem != rowsBefore && c16wSortedCells(rowMem) == c16wSortedCells(rowsBefore):
				effect = "row-slice-permuted"
			case mem == pristine.memText() && rowMem != rowsBefore:
				effect = "row-slice-overwritten"
			case strings.Count(mem, "0") > strings.Count(pristine.memText(), "0"):
				effect = "values-zeroed"
			}
			ctx.Fail("L1", "caller-slice-modified-by-write:"+culprit+":"+effect,
				fmt.Sprintf("parquet rows passed to WriteRows of a tree of row-writer wrappers were modified by the library (first seen after call %d)", changedAfter),
				map[string]any{"shape_postfix": shape, "caller_value_arrays_before": pristine.memText(), "caller_value_arrays_after": mem,
					"caller_row_slices_before(arr:off:len:cap per cell)": rowsBefore, "caller_row_slices_after": rowMem, "calls(rowarray:off:len:cap)": in.callsText(),
					"functions": "pred k: (h+k)%3!=0; same k: ha/(2+k%2)==hb/(2+k%2); transform k: (h+k)%7 0 skip, 1 twice, 6&&k>=100 fail, else copy; h = first value of the row",
					"replay": req})
		}
		batch = append(batch, pending{tree, pristine, req, rets, lv, mem, rowMem, flat, shape})
		if len(batch) >= 1000 {
			flush()
		}
	}
	flush()
}

// ------------------------------------------------------------------ Part B: sweep over entry points

type c16Snap struct {
	rows []parquet.Row
	hdr  string
	text string
}

// full text of caller rows including the hidden capacity of each row and the bytes behind values
func c16wFullText(rows []parquet.Row) string {
	var sb strings.Builder
	for _, row := range rows {
		full := row[:cap(row)]
		sb.WriteString(c16RowText(parquet.Row(full)))
		sb.WriteByte('\n')
	}
	return sb.String()
}

func c16TakeSnap(rows []parquet.Row) *c16Snap {
	return &c16Snap{rows: rows, hdr: c16wHeaders(rows), text: c16wFullText(rows)}
}

func (s *c16Snap) changed() (string, bool) {
	if h := c16wHeaders(s.rows); h != s.hdr {
		return "row-header", true
	}
	if t := c16wFullText(s.rows); t != s.text {
		return "values", true
	}
	return "", false
}

// one writer of a chain: its name and (for wrappers) its constructor over an inner writer
type c16wLayer struct {
	name string
	mk   func(parquet.RowWriter) parquet.RowWriter
}

// c16wAttribute names the writer of the chain that modifies the caller's rows on its own: every wrapper
// of the chain is rebuilt over a fresh RowBuffer and fed the rows (as they are now); the first one after
// which they differ is named. If no wrapper does it alone the innermost writer (the leaf) is named.
func c16wAttribute(e *gen.Entry, orig []parquet.Row, chain []c16wLayer, api string) string {
	if len(chain) == 0 {
		return api
	}
	for _, l := range chain {
		if l.mk == nil {
			continue
		}
		changed := func() (bad bool) {
			defer func() {
				if recover() != nil {
					bad = false
				}
			}()
			rows := c16wCloneRows(orig)
			s := c16TakeSnap(rows)
			w := l.mk(parquet.NewRowBuffer[any](e.Schema))
			for pos := 0; pos < len(rows); pos += 50 {
				w.WriteRows(rows[pos:min(pos+50, len(rows))])
			}
			_, bad = s.changed()
			return bad
		}()
		if changed {
			return l.name
		}
	}
	return chain[len(chain)-1].name
}

// deep copy of caller rows (values and the bytes behind them), keeping len and cap of every row
func c16wCloneRows(rows []parquet.Row) []parquet.Row {
	out := make([]parquet.Row, len(rows))
	for i, row := range rows {
		full := row[:cap(row)]
		arr := make([]parquet.Value, len(full))
		for j, v := range full {
			arr[j] = v.Clone()
		}
		out[i] = parquet.Row(arr[0:len(row):len(arr)])
	}
	return out
}

type c16wStop struct{}

func c16WriteSweep(ctx *core.Ctx) {
	rounds := ctx.Scale(12, 120)
	var wg sync.WaitGroup
	sem := make(chan struct{}, 8)
	for _, e := range gen.Catalog {
		wg.Add(1)
		sem <- struct{}{}
		go func(e *gen.Entry) {
			defer wg.Done()
			defer func() { <-sem }()
			r := ctx.Rand("c16/writeside/sweep/" + e.Name)
			for k := 0; k < rounds; k++ {
				c16SweepCase(ctx, e, r, k)
			}
		}(e)
	}
	wg.Wait()
}

func c16SweepCase(ctx *core.Ctx, e *gen.Entry, r *rand.Rand, k int) {
	n := []int{1, 2, 9, 43, 65, 100}[r.Intn(6)]
	prof := &gen.Profile{NullProb: []float64{0.1, 0.5}[r.Intn(2)], MaxLen: 1 + r.Intn(4), SmallDomain: r.Intn(3) == 0}
	rows := e.NewRows(n)
	gen.FillRows(r, rows, prof)
	cfg := gen.RandWriterCfg(r)
	// caller-owned parquet rows: each with a little spare capacity holding a sentinel
	prs := make([]parquet.Row, n)
	nonNull := false
	for i := 0; i < n; i++ {
		row := e.Schema.Deconstruct(nil, rows.Index(i).Addr().Interface())
		spare := r.Intn(3)
		arr := make([]parquet.Value, len(row)+spare)
		copy(arr, row)
		for j := len(row); j < len(arr); j++ {
			arr[j] = parquet.ByteArrayValue([]byte("SENTINEL")).Level(0, 0, 0)
		}
		prs[i] = parquet.Row(arr[0:len(row):len(arr)])
		for _, v := range row {
			if !v.IsNull() {
				nonNull = true
			}
		}
	}
	snap := c16TakeSnap(prs)
	orig := c16wCloneRows(prs)
	var api string
	var calls []string
	detail := func(extra map[string]any) map[string]any {
		m := map[string]any{"type": e.Name, "config": cfg.Desc, "case": k, "api": api, "calls": calls,
			"regenerate": fmt.Sprintf("stream c16/writeside/sweep/%s, case %d of the run seed", e.Name, k)}
		var texts []string
		for i, row := range prs {
			if i >= 20 {
				texts = append(texts, fmt.Sprintf("... %d rows", len(prs)))
				break
			}
			texts = append(texts, c16RowText(row))
		}
		m["rows_now"] = texts
		for kk, v := range extra {
			m[kk] = v
		}
		return m
	}
	// the writers of the chain, outermost first (constructors over a given inner writer), for attribution
	var chain []c16wLayer
	check := func(stage string) {
		calls = append(calls, stage)
		if what, bad := snap.changed(); bad {
			culprit := c16wAttribute(e, orig, chain, api)
			ctx.Fail("L1", "caller-slice-modified-by-write:"+culprit+":"+what,
				"parquet rows passed to "+api+" were modified by the library ("+what+"), seen after "+stage+"; the same rows are modified by "+culprit+" alone",
				detail(map[string]any{"before": c16Trunc(snap.text), "after": c16Trunc(c16wFullText(prs))}))
			panic(c16wStop{}) // one report per case: what follows would only repeat it
		}
	}
	defer func() {
		if p := recover(); p != nil {
			if _, ok := p.(c16wStop); ok {
				return
			}
			// a panic on the write path is not this property's business (valid rows, but e.g. sorting of
			// optional columns is C10's); the caller's rows must be intact all the same
			ctx.Hist("sweep-outcome", "panic")
			check("panic: " + c16Trunc(fmt.Sprint(p)))
		}
	}()

	mode := r.Intn(10)
	switch {
	case mode < 7:
		// a chain of wrappers over a real leaf
		var sink bytes.Buffer
		var leaf parquet.RowWriter
		var finish []func() (string, error)
		var sorting []parquet.SortingColumn
		for _, p := range e.Schema.Columns() {
			if lf, ok := e.Schema.Lookup(p...); ok && lf.MaxRepetitionLevel == 0 && lf.MaxDefinitionLevel == 0 {
				sorting = append(sorting, parquet.Ascending(p...))
				break
			}
		}
		wopts := append([]parquet.WriterOption{e.Schema}, cfg.Opts...)
		leafKind := r.Intn(6)
		switch leafKind {
		case 0:
			api = "Writer"
			pw := parquet.NewWriter(&sink, wopts...)
			leaf = pw
			finish = append(finish, func() (string, error) { return "Flush", pw.Flush() }, func() (string, error) { return "Close", pw.Close() })
		case 1:
			api = "GenericWriter[any]"
			gw := parquet.NewGenericWriter[any](&sink, wopts...)
			leaf = gw
			finish = append(finish, func() (string, error) { return "Close", gw.Close() })
		case 2:
			api = "Buffer"
			bf := parquet.NewBuffer(e.Schema)
			leaf = bf
			finish = append(finish, func() (string, error) {
				pw := parquet.NewWriter(&sink, wopts...)
				_, err := pw.WriteRowGroup(bf)
				pw.Close()
				return "WriteRowGroup(Buffer)", err
			}, func() (string, error) { bf.Reset(); return "Reset", nil })
		case 3:
			api = "RowBuffer"
			rb := parquet.NewRowBuffer[any](e.Schema)
			leaf = rb
			finish = append(finish, func() (string, error) {
				pw := parquet.NewWriter(&sink, wopts...)
				_, err := pw.WriteRowGroup(rb)
				pw.Close()
				return "WriteRowGroup(RowBuffer)", err
			}, func() (string, error) { rb.Reset(); return "Reset", nil })
		case 4:
			api = "SortingWriter"
			sw := parquet.NewSortingWriter[any](&sink, int64(1+r.Intn(n+1)), append(wopts, parquet.SortingWriterConfig(parquet.SortingColumns(sorting...)))...)
			leaf = sw
			finish = append(finish, func() (string, error) { return "Flush", sw.Flush() }, func() (string, error) { return "Close", sw.Close() })
		default:
			api = "ConcurrentRowGroupWriter"
			pw := parquet.NewWriter(&sink, wopts...)
			rg := pw.BeginRowGroup()
			leaf = rg
			finish = append(finish, func() (string, error) { _, err := rg.Commit(); return "Commit", err }, func() (string, error) { return "Close", pw.Close() })
		}
		w := leaf
		leafAPI := api + ".WriteRows"
		depth := r.Intn(3)
		for i := 0; i < depth; i++ {
			switch r.Intn(4) {
			case 0:
				api = "FilterRowWriter(" + api + ")"
				// stateless functions of the row content, so that the attribution re-run takes the same decisions
				m := uint64(2 + r.Intn(3))
				mk := func(in parquet.RowWriter) parquet.RowWriter {
					return parquet.FilterRowWriter(in, func(row parquet.Row) bool { return hashString(c16RowText(row))%m != 0 })
				}
				chain = append([]c16wLayer{{"FilterRowWriter.WriteRows", mk}}, chain...)
				w = mk(w)
			case 1:
				api = "TransformRowWriter(" + api + ")"
				mk := func(in parquet.RowWriter) parquet.RowWriter {
					return parquet.TransformRowWriter(in, func(dst, src parquet.Row) (parquet.Row, error) {
						if hashString(c16RowText(src))%5 == 0 {
							return dst, nil
						}
						return append(dst, src...), nil
					})
				}
				chain = append([]c16wLayer{{"TransformRowWriter.WriteRows", mk}}, chain...)
				w = mk(w)
			case 2:
				api = "DedupeRowWriter(" + api + ")"
				mk := func(in parquet.RowWriter) parquet.RowWriter {
					return parquet.DedupeRowWriter(in, func(a, b parquet.Row) int {
						if a.Equal(b) {
							return 0
						}
						return 1
					})
				}
				chain = append([]c16wLayer{{"DedupeRowWriter.WriteRows", mk}}, chain...)
				w = mk(w)
			default:
				api = "MultiRowWriter(" + api + ",RowBuffer)"
				mk := func(in parquet.RowWriter) parquet.RowWriter {
					return parquet.MultiRowWriter(in, parquet.NewRowBuffer[any](e.Schema))
				}
				chain = append([]c16wLayer{{"MultiRowWriter.WriteRows", mk}}, chain...)
				w = mk(w)
			}
		}
		if depth > 0 {
			ctx.Hist("sweep-api", "wrapped:"+[]string{"Writer", "GenericWriter", "Buffer", "RowBuffer", "SortingWriter", "ConcurrentRowGroupWriter"}[leafKind])
		} else {
			ctx.Hist("sweep-api", api)
		}
		chain = append(chain, c16wLayer{leafAPI, nil})
		for pos := 0; pos < n; {
			b := 1 + r.Intn(n-pos)
			_, err := w.WriteRows(prs[pos : pos+b])
			check(fmt.Sprintf("WriteRows(rows[%d:%d]) err=%v", pos, pos+b, err != nil))
			pos += b
			if err != nil {
				break
			}
		}
		for _, f := range finish {
			stage, err := f()
			check(fmt.Sprintf("%s err=%v", stage, err != nil))
		}
		c16Count(ctx, e.Name+"|"+api+"|"+cfg.Desc+"|"+snap.text, nonNull && depth > 0)
	case mode < 9:
		// one column's values through ColumnWriter.WriteRowValues / ColumnBuffer.WriteValues
		cols := e.Schema.Columns()
		ci := r.Intn(len(cols))
		var vals []parquet.Value
		for _, row := range prs {
			for _, v := range row {
				if v.Column() == ci {
					vals = append(vals, v)
				}
			}
		}
		vals = append(vals, parquet.ByteArrayValue([]byte("SENTINEL")))[:len(vals)]
		asRow := []parquet.Row{parquet.Row(vals)}
		vsnap := c16TakeSnap(asRow)
		vcheck := func(stage string) {
			calls = append(calls, stage)
			if what, bad := vsnap.changed(); bad {
				ctx.Fail("L1", "caller-slice-modified-by-write:"+api+":"+what, "the []Value passed to "+api+" was modified by the library ("+what+"), seen after "+stage,
					detail(map[string]any{"column": ci, "before": c16Trunc(vsnap.text), "after": c16Trunc(c16wFullText(asRow))}))
				vsnap = c16TakeSnap(asRow)
			}
		}
		var sink bytes.Buffer
		if mode == 7 {
			api = "ColumnWriter.WriteRowValues"
			pw := parquet.NewWriter(&sink, append([]parquet.WriterOption{e.Schema}, cfg.Opts...)...)
			cw := pw.ColumnWriters()[ci]
			_, err := cw.WriteRowValues(vals)
			vcheck(fmt.Sprintf("WriteRowValues err=%v", err != nil))
			err = cw.Flush()
			vcheck(fmt.Sprintf("Flush err=%v", err != nil))
			cw.Close()
			vcheck("Close")
		} else {
			api = "ColumnBuffer.WriteValues"
			bf := parquet.NewBuffer(e.Schema)
			cb := bf.ColumnBuffers()[ci]
			_, err := cb.WriteValues(vals)
			vcheck(fmt.Sprintf("WriteValues err=%v", err != nil))
			_ = cb.Page()
			vcheck("Page")
			cb.Reset()
			vcheck("Reset")
		}
		check(api)
		ctx.Hist("sweep-api", api)
		c16Count(ctx, e.Name+"|"+api+"|"+fmt.Sprint(ci)+"|"+vsnap.text, nonNull && len(vals) > 0)
	default:
		// SortingWriter[T].Write with the caller's []T
		api = "SortingWriter[T].Write"
		before := c16CanonOf(rows)
		keep := c16Clone(rows)
		var sorting []parquet.SortingColumn
		for _, p := range e.Schema.Columns() {
			if lf, ok := e.Schema.Lookup(p...); ok && lf.MaxRepetitionLevel == 0 && lf.MaxDefinitionLevel == 0 {
				sorting = append(sorting, parquet.Descending(p...))
				break
			}
		}
		sw := e.NewTypedSortingWriter(io.Discard, int64(1+r.Intn(n+1)), append([]parquet.WriterOption{parquet.SortingWriterConfig(parquet.SortingColumns(sorting...))}, cfg.Opts...)...)
		tcheck := func(stage string) {
			calls = append(calls, stage)
			if c16CanonOf(rows) != before {
				path, kind, _ := c16Diff(keep, rows, e.Name)
				ctx.Fail("L1", "caller-slice-modified-by-write:"+api+":"+kind, "rows passed to "+api+" were modified by the library at "+path+", seen after "+stage, detail(map[string]any{"path": path}))
				before = c16CanonOf(rows)
				keep = c16Clone(rows)
			}
		}
		for pos := 0; pos < n; {
			b := 1 + r.Intn(n-pos)
			_, err := sw.Write(rows.Slice(pos, pos+b).Interface())
			tcheck(fmt.Sprintf("Write(rows[%d:%d]) err=%v", pos, pos+b, err != nil))
			pos += b
			if err != nil {
				break
			}
		}
		err := sw.Close()
		tcheck(fmt.Sprintf("Close err=%v", err != nil))
		ctx.Hist("sweep-api", api)
		c16Count(ctx, e.Name+"|"+api+"|"+cfg.Desc+"|"+before, nonNull)
	}
}
