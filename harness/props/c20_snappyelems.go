package props

// C20 round 6, sub-check `snappyelems`: the Snappy block format on ELEMENTS
// (lean/PqModel/Spec/SnappyElems.lean, theorems in lean/PqModel/Props/C20Snappy.lean).
//
// (A) generated element lists (literals around the inline / 1-byte / 2-byte length fields, copies of
//     the three kinds with lengths and offsets at their limits, overlapping or not, a share with an
//     offset of 0 or one byte too far) are written by the Lean encoder `encBlock`
//     (`snappy.encelems`) and read by the REAL decoder (compress/snappy Codec.Decode -> klauspost):
//     on a writable list it must return what `applyElems` says (= what `snappyDec` answers, theorem
//     snappy_reader_inverts_every_element_list).
// (B) every output of the REAL encoder is split into elements by `snappy.parse`: it must re-encode
//     to itself, be writable, announce its own length and mean the input — it lies in the domain
//     of the theorem.

import (
	"bytes"
	"fmt"
	"math/rand"
	"strings"
	"sync"

	"github.com/parquet-go/parquet-go/compress/snappy"

	"verifharness/core"
)

func init() { RegisterSub("C20", "snappyelems", RunC20SnappyElems) }

// one generated list in the text form of the op; bad = "" | "zero" | "far"
func c20GenElems(r *rand.Rand) (txt string, bad string, ncopy int) {
	n := 0
	k := 1 + r.Intn(7)
	badAt := -1
	if r.Intn(8) == 0 {
		badAt = r.Intn(k)
	}
	var parts []string
	for i := 0; i < k; i++ {
		if n == 0 || r.Intn(3) == 0 {
			ll := 1 + r.Intn(20)
			if r.Intn(3) == 0 {
				ll = []int{1, 2, 59, 60, 61, 62, 255, 256, 257, 258, 300}[r.Intn(11)]
			}
			if r.Intn(60) == 0 {
				ll = []int{65535, 65536, 65537, 65538}[r.Intn(4)]
			}
			lits := make([]byte, ll)
			for j := range lits {
				lits[j] = byte(r.Intn(4)) + 'a'
			}
			parts = append(parts, "L:"+core.Hex(lits))
			n += ll
			continue
		}
		kind := []int{1, 2, 4}[r.Intn(3)]
		var ln, off int
		if kind == 1 {
			ln = 4 + r.Intn(8)
		} else {
			ln = []int{1, 2, 3, 4, 12, 63, 64, 1 + r.Intn(64)}[r.Intn(8)]
		}
		switch r.Intn(6) {
		case 0:
			off = 1
		case 1:
			off = 2 + r.Intn(3)
		case 2:
			off = n
		case 3:
			off = []int{255, 256, 257, 2047, 2048, 65535, 65536}[r.Intn(7)]
		default:
			off = 1 + r.Intn(n)
		}
		if off > n {
			off = n
		}
		if kind == 1 && off > 2047 {
			off = 2047
		}
		if kind == 2 && off > 65535 {
			off = 65535
		}
		if i == badAt {
			if r.Intn(2) == 0 {
				off, bad = 0, "zero"
			} else if !(kind == 1 && n+1 > 2047) && !(kind == 2 && n+1 > 65535) {
				off, bad = n+1, "far"
			}
		}
		parts = append(parts, fmt.Sprintf("C:%d:%d:%d", kind, off, ln))
		ncopy++
		n += ln
	}
	return strings.Join(parts, ","), bad, ncopy
}

func c20SnappyRealDecode(blk []byte, shape int, want int) (out []byte, err error, panicked any) {
	defer func() {
		if p := recover(); p != nil {
			panicked = p
		}
	}()
	var dst []byte
	switch shape % 4 {
	case 1:
		dst = bytes.Repeat([]byte{0xFF}, want)[:0]
	case 2:
		if want > 0 {
			dst = bytes.Repeat([]byte{0xFF}, want-1)[:0]
		}
	case 3:
		dst = bytes.Repeat([]byte{0xFF}, want+1000)[:0]
	}
	c := &snappy.Codec{}
	out, err = c.Decode(dst, blk)
	return
}

func RunC20SnappyElems(ctx *core.Ctx) {
	ctx.SetRule("an element list is non-trivial when it has at least one copy; an encoder input when it has at least 16 bytes")
	nw := 8
	nA := ctx.Scale(6000, 60000)
	nB := ctx.Scale(2000, 20000)
	var wg sync.WaitGroup
	for w := 0; w < nw; w++ {
		wg.Add(1)
		go func(w int) {
			defer wg.Done()
			d := ctx.Driver()
			if d == nil {
				return
			}
			r := ctx.Rand(fmt.Sprintf("c20-snappyelems-%d", w))
			// ---------------- (A) generated element lists -> real decoder
			var reqs, bads []string
			for i := w; i < nA; i += nw {
				txt, bad, ncopy := c20GenElems(r)
				ctx.Case("elems "+txt, ncopy > 0)
				reqs = append(reqs, "snappy.encelems "+txt)
				bads = append(bads, bad)
			}
			ans, err := d.AskMany(reqs)
			if err != nil {
				ctx.Fail("L2", "driver-error", err.Error(), nil)
				return
			}
			for i, a := range ans {
				f := strings.Fields(a)
				if len(f) != 4 || f[0] != "ok" {
					ctx.Fail("L2", "snappyelems-model-answer", "pqdriver did not answer ok to snappy.encelems", map[string]any{"request": reqs[i], "answer": a})
					continue
				}
				blk := mustHex(strings.Replace(f[1], "-", "", 1))
				writable := f[2] == "w=1"
				if writable != (bads[i] == "") {
					ctx.Fail("L2", "snappyelems-generator-vs-elemsOk", "the generator's idea of a writable list differs from elemsOk", map[string]any{"request": reqs[i], "answer": a})
					continue
				}
				var want []byte
				if writable {
					want = mustHex(strings.Replace(strings.TrimPrefix(f[3], "ok:"), "-", "", 1))
				}
				got, derr, pan := c20SnappyRealDecode(blk, i, len(want))
				cls := "ok"
				if pan != nil {
					cls = "panic"
				} else if derr != nil {
					cls = "error"
				}
				ctx.Hist("c20.snappyelems-real-decoder", fmt.Sprintf("writable=%v/%s", writable, cls))
				req := reqs[i]
				if len(req) > 3000 {
					req = req[:3000] + "…"
				}
				detail := map[string]any{"elements": req, "spec": f[3][:min(len(f[3]), 200)], "real": cls, "dst_shape": i % 4, "error": fmt.Sprint(derr), "panic": fmt.Sprint(pan)}
				if len(f[1]) < 3000 {
					detail["block_hex"] = f[1]
					detail["real_out_hex"] = core.Hex(got)
				}
				switch {
				case pan != nil:
					ctx.Fail("L1", "snappy-decode-panics-on-element-block", "Codec.Decode panicked on a block written from an element list", detail)
				case writable && derr == nil && !bytes.Equal(got, want):
					ctx.Fail("L2", "snappy-real-decoder-wrong-bytes-on-writable-elements", "the real Snappy decoder returns, without error, other bytes than the elements mean (applyElems / snappyDec)", detail)
				case writable && derr != nil:
					ctx.Fail("L2", "snappy-real-decoder-rejects-writable-elements", "the real Snappy decoder rejects a writable element list", detail)
				case !writable && derr == nil:
					ctx.Observe("snappy-real-decoder-accepts-unwritable-block", "offset 0 / before the start of the output accepted by the real decoder (outside the property: malformed input)", detail)
				}
			}
			// ---------------- (B) real encoder outputs -> snappy.parse
			reqs = reqs[:0]
			var names []string
			var ins [][]byte
			for i := w; i < nB; i += nw {
				name, x := c20Lz4Input(r, i%40 == 39)
				c := &snappy.Codec{}
				enc, err := c.Encode(nil, x)
				ctx.Case("enc "+name, len(x) >= 16)
				if err != nil {
					ctx.Fail("L1", "snappy-encode-error", "Codec.Encode fails on a plain input", map[string]any{"input": name, "error": err.Error()})
					continue
				}
				reqs = append(reqs, "snappy.parse "+core.Hex(enc))
				names, ins = append(names, name), append(ins, x)
			}
			ans, err = d.AskMany(reqs)
			if err != nil {
				ctx.Fail("L2", "driver-error", err.Error(), nil)
				return
			}
			for i, a := range ans {
				detail := map[string]any{"input": names[i], "answer": a}
				if len(reqs[i]) < 4000 {
					detail["block_hex"] = strings.TrimPrefix(reqs[i], "snappy.parse ")
				}
				if len(a) > 300 {
					detail["answer"] = a[:300] + "…"
				}
				if !strings.HasPrefix(a, "ok ") {
					ctx.Fail("L2", "snappy-real-encoder-output-not-an-element-list", "the spec parser cannot split the real encoder's output into elements", detail)
					continue
				}
				f := strings.Fields(a)
				kinds := ""
				for _, k := range []string{"k1", "k2", "k4"} {
					if c20Field(a, k) != "0" {
						kinds += k
					}
				}
				if kinds == "" {
					kinds = "literals-only"
				}
				ctx.Hist("c20.snappyelems-real-encoder", fmt.Sprintf("%s/overlapping=%s", kinds, c20Field(a, "ovl")))
				switch {
				case c20Field(a, "canon") != "1":
					ctx.Fail("L2", "snappy-real-encoder-output-not-canonical", "encBlock (parseBlock s) differs from the real encoder's stream s", detail)
				case c20Field(a, "w") != "1":
					ctx.Fail("L2", "snappy-real-encoder-output-unwritable", "the real encoder's elements are not writable", detail)
				case c20Field(a, "len") != "1":
					ctx.Fail("L1", "snappy-real-encoder-announces-wrong-length", "the announced length is not the length the elements produce", detail)
				case f[len(f)-1] != core.Hex(ins[i]):
					ctx.Fail("L1", "snappy-real-encoder-elements-do-not-mean-the-input", "applyElems of the real encoder's elements is not the input", detail)
				}
			}
		}(w)
	}
	wg.Wait()
}
