package props

// C15 — documented concurrent use behaves like some serial execution (partial).
//
//   traces:    stress runs of the asynchronous page reader under the verif trace hook; every
//              recorded event log must be a path of the Lean transition system PqModel.Async
//              (pqdriver op async.validate), the results returned by ReadPage must equal the Lean
//              sequential reference (async.seq) and, for real files, the sync-mode reader.
//   scenarios: each documented way of sharing the library between goroutines, serial vs
//              concurrent output, in-process and again in a -race build (cmd/pqrace).

import (
	"bytes"
	"context"
	"errors"
	"fmt"
	"io"
	"math/rand"
	"os"
	"os/exec"
	"path/filepath"
	"regexp"
	"runtime"
	"strconv"
	"strings"
	"sync"
	"syscall"
	"time"

	"github.com/parquet-go/parquet-go"
	"github.com/parquet-go/parquet-go/encoding"

	"verifharness/core"
)

func init() {
	RegisterSub("C15", "traces", RunC15Traces)
	RegisterSub("C15", "scenarios", RunC15Scenarios)
}

// ---------------------------------------------------------------- the wrapped reader

// c15Layout is the `Under` of the Lean model: page start rows, and where the wrapped reader fails.
type c15Layout struct {
	numRows                  int64
	starts                   []int64
	rdFatal, skSoft, skFatal []int64
}

func (l *c15Layout) tokens() string {
	return fmt.Sprintf("%d %s %s %s %s", l.numRows, core.JoinInts(l.starts), core.JoinInts(l.rdFatal), core.JoinInts(l.skSoft), core.JoinInts(l.skFatal))
}

func (l *c15Layout) next(p int64) int64 {
	for _, s := range l.starts {
		if s > p {
			return s
		}
	}
	return l.numRows
}

func containsInt(xs []int64, x int64) bool {
	for _, y := range xs {
		if x == y {
			return true
		}
	}
	return false
}

var (
	errC15FatalRead = errors.New("c15: injected fatal read error")
	errC15FatalSeek = errors.New("c15: injected fatal seek error")
)

// c15Pages is a synthetic parquet.Pages over a layout: the page read at row p holds the int64 values
// p, p+1, … up to the next page start.
type c15Pages struct {
	l      *c15Layout
	pos    int64
	closed bool
}

func (p *c15Pages) ReadPage() (parquet.Page, error) {
	if p.closed {
		return nil, io.EOF
	}
	if containsInt(p.l.rdFatal, p.pos) {
		return nil, errC15FatalRead
	}
	if p.pos >= p.l.numRows {
		return nil, io.EOF
	}
	end := p.l.next(p.pos)
	vals := make([]int64, 0, end-p.pos)
	for r := p.pos; r < end; r++ {
		vals = append(vals, r)
	}
	p.pos = end
	return parquet.Int64Type.NewPage(0, len(vals), encoding.Int64Values(vals)), nil
}

func (p *c15Pages) SeekToRow(k int64) error {
	if p.closed {
		return io.ErrClosedPipe
	}
	if containsInt(p.l.skFatal, k) {
		return errC15FatalSeek
	}
	if containsInt(p.l.skSoft, k) {
		return fmt.Errorf("c15: injected: %w", parquet.ErrSeekOutOfRange)
	}
	p.pos = k
	return nil
}

func (p *c15Pages) Close() error { p.closed = true; return nil }

func c15ValueRow(v parquet.Value) int64 {
	switch v.Kind() {
	case parquet.Int64:
		return v.Int64()
	case parquet.Int32:
		return int64(v.Int32())
	case parquet.ByteArray:
		n, err := strconv.ParseInt(strings.TrimLeft(string(v.ByteArray()), "r0"), 10, 64)
		if err != nil {
			return 0
		}
		return n
	}
	return -1
}

// c15PageID identifies a page by the row its first value encodes.
func c15PageID(p parquet.Page) int64 {
	var v [1]parquet.Value
	n, _ := p.Values().ReadValues(v[:])
	if n == 0 {
		return -1
	}
	return c15ValueRow(v[0])
}

func c15PageRows(p parquet.Page) []int64 {
	var out []int64
	buf := make([]parquet.Value, 32)
	vr := p.Values()
	for {
		n, err := vr.ReadValues(buf)
		for _, v := range buf[:n] {
			out = append(out, c15ValueRow(v))
		}
		if err != nil || n == 0 {
			return out
		}
	}
}

func c15FatalCode(err error) int {
	switch {
	case errors.Is(err, errC15FatalRead):
		return 1
	case errors.Is(err, errC15FatalSeek):
		return 2
	}
	return 9
}

var c15Describe = parquet.VerifDescribeAsyncResult(c15PageID, c15FatalCode)

// ---------------------------------------------------------------- histories

type c15Op struct {
	kind byte // r read, s seek, c close
	k    int64
}

func c15OpsText(ops []c15Op) string {
	var sb strings.Builder
	for i, o := range ops {
		if i > 0 {
			sb.WriteByte(',')
		}
		if o.kind == 's' {
			fmt.Fprintf(&sb, "s%d", o.k)
		} else {
			sb.WriteByte(o.kind)
		}
	}
	return sb.String()
}

func c15RandHistory(r *rand.Rand, l *c15Layout) []c15Op {
	var ops []c15Op
	seekTarget := func() int64 {
		switch r.Intn(6) {
		case 0:
			return 0
		case 1:
			if len(l.starts) > 0 {
				return max(0, l.starts[r.Intn(len(l.starts))]+int64(r.Intn(3))-1)
			}
			return 0
		case 2:
			return max(0, l.numRows-1+int64(r.Intn(4)))
		}
		return int64(r.Intn(int(l.numRows) + 1))
	}
	n := 3 + r.Intn(30)
	for i := 0; i < n; i++ {
		switch x := r.Intn(20); {
		case x < 12:
			ops = append(ops, c15Op{kind: 'r'})
		case x < 17:
			ops = append(ops, c15Op{'s', seekTarget()})
		case x < 19:
			for j := 2 + r.Intn(3); j > 0; j-- {
				ops = append(ops, c15Op{'s', seekTarget()})
			}
		default:
			if r.Intn(3) == 0 { // early close, then calls on the closed reader
				ops = append(ops, c15Op{kind: 'c'})
				for j := r.Intn(4); j > 0; j-- {
					ops = append(ops, []c15Op{{kind: 'r'}, {'s', seekTarget()}, {kind: 'c'}}[r.Intn(3)])
				}
				return ops
			}
		}
	}
	return append(ops, c15Op{kind: 'c'})
}

// c15Run performs a history on a Pages value; one result token per op. Reads report the first row
// of the page, the number of rows and whether the rows are consecutive.
func c15Run(pages parquet.Pages, ops []c15Op, short bool) []string {
	out := make([]string, 0, len(ops))
	for _, o := range ops {
		switch o.kind {
		case 'r':
			p, err := pages.ReadPage()
			tok := c15Describe(p, err)
			if p != nil && err == nil && !short {
				rows := c15PageRows(p)
				ok := int64(len(rows)) == p.NumRows()
				for i := range rows {
					ok = ok && rows[i] == rows[0]+int64(i)
				}
				tok = fmt.Sprintf("%s+%d/%v", tok, len(rows), ok)
			}
			parquet.Release(p)
			out = append(out, tok)
		case 's':
			err := pages.SeekToRow(o.k)
			switch {
			case err == nil:
				out = append(out, "ok")
			case errors.Is(err, io.ErrClosedPipe):
				out = append(out, "closedpipe")
			default:
				out = append(out, "err:"+err.Error())
			}
		case 'c':
			if err := pages.Close(); err != nil {
				out = append(out, "err:"+err.Error())
			} else {
				out = append(out, "ok")
			}
		}
	}
	return out
}

// c15Expected derives the expected tokens from the Lean sequential reference: `seq` are the
// results of async.seq for the ops before the first close.
func c15Expected(ops []c15Op, seq []string) ([]string, bool) {
	out := make([]string, 0, len(ops))
	closed := false
	si := 0
	for _, o := range ops {
		switch {
		case o.kind == 'c':
			closed = true
			out = append(out, "ok")
		case o.kind == 's' && closed:
			out = append(out, "closedpipe")
		case o.kind == 's':
			out = append(out, "ok")
		case closed:
			out = append(out, "eof")
		default:
			if si >= len(seq) {
				return nil, false
			}
			out = append(out, seq[si])
			si++
		}
	}
	return out, si == len(seq)
}

// c15Collapse drops every SeekToRow that is immediately followed by another SeekToRow (a seek is
// absolute, so only the last of a burst matters); keep[i] tells whether ops[i] was kept.
func c15Collapse(ops []c15Op) (out []c15Op, keep []bool) {
	keep = make([]bool, len(ops))
	for i, o := range ops {
		if o.kind == 's' && i+1 < len(ops) && ops[i+1].kind == 's' {
			continue
		}
		keep[i] = true
		out = append(out, o)
	}
	return out, keep
}

// c15Expand maps the results of a collapsed history back to the positions of the full history
// (a dropped seek reports what the following kept seek reports).
func c15Expand(res []string, keep []bool) []string {
	out := make([]string, len(keep))
	j := len(res)
	for i := len(keep) - 1; i >= 0; i-- {
		if keep[i] {
			j--
			out[i] = res[j]
		} else {
			out[i] = out[i+1]
		}
	}
	return out
}

// c15MatchSeq compares ReadPage results with the sequential reference. When the layout injects
// fatal errors, a fatal error may also appear where the reference has none (raised by a prefetch or
// by a superseded seek, see Props.C15.async_seek_consistent); it must then be sticky.
func c15MatchSeq(got, want []string, ops []c15Op, hasFatal bool) bool {
	if len(got) != len(want) {
		return false
	}
	sticky := ""
	for i := range got {
		if ops[i].kind != 'r' || want[i] == got[i] && sticky == "" {
			if ops[i].kind != 'r' && got[i] != want[i] {
				return false
			}
			if ops[i].kind == 'c' {
				sticky = "closed"
			}
			continue
		}
		switch {
		case sticky == "closed":
			if got[i] != want[i] {
				return false
			}
		case sticky != "":
			if got[i] != sticky {
				return false
			}
		case hasFatal && strings.HasPrefix(got[i], "f"):
			sticky = got[i]
		default:
			return false
		}
	}
	return true
}

func c15SeqOps(ops []c15Op) string {
	var parts []string
	for _, o := range ops {
		if o.kind == 'c' {
			break
		}
		if o.kind == 's' {
			parts = append(parts, fmt.Sprintf("s%d", o.k))
		} else {
			parts = append(parts, "r")
		}
	}
	if len(parts) == 0 {
		return "-"
	}
	return strings.Join(parts, ",")
}

// ---------------------------------------------------------------- real files

type c15TraceRow struct {
	A int64  `parquet:"a"`
	B int32  `parquet:"b"`
	C string `parquet:"c"`
}

type c15TraceRowSame struct {
	A int64 `parquet:"a"`
	B int64 `parquet:"b"`
	C int64 `parquet:"c"`
}

type c15File struct {
	data    []byte
	async   *parquet.File
	sync    *parquet.File
	layouts []*c15Layout // per column
}

func c15WriteRows[T any](r *rand.Rand, rows []T) ([]byte, error) {
	var buf bytes.Buffer
	opts := []parquet.WriterOption{parquet.PageBufferSize(32 + r.Intn(400)), parquet.DataPageVersion(1 + r.Intn(2)),
		parquet.Compression(c15Codecs[r.Intn(len(c15Codecs))])}
	w := parquet.NewGenericWriter[T](&buf, opts...)
	for off := 0; off < len(rows); {
		end := min(len(rows), off+1+r.Intn(40))
		if _, err := w.Write(rows[off:end]); err != nil {
			return nil, err
		}
		off = end
	}
	if err := w.Close(); err != nil {
		return nil, err
	}
	return buf.Bytes(), nil
}

// c15MakeFile writes a one-row-group file whose column values encode the row index; with same,
// the three columns are identical (hence have identical page boundaries).
func c15MakeFile(r *rand.Rand, same bool) (*c15File, error) {
	n := 20 + r.Intn(300)
	var data []byte
	var err error
	if same {
		rows := make([]c15TraceRowSame, n)
		for i := range rows {
			rows[i] = c15TraceRowSame{A: int64(i), B: int64(i), C: int64(i)}
		}
		data, err = c15WriteRows(r, rows)
	} else {
		rows := make([]c15TraceRow, n)
		for i := range rows {
			rows[i] = c15TraceRow{A: int64(i), B: int32(i), C: fmt.Sprintf("r%0*d", 1+r.Intn(12), i)}
		}
		data, err = c15WriteRows(r, rows)
	}
	if err != nil {
		return nil, err
	}
	f := &c15File{data: data}
	if f.async, err = parquet.OpenFile(bytes.NewReader(f.data), int64(len(f.data)), parquet.FileReadMode(parquet.ReadModeAsync)); err != nil {
		return nil, err
	}
	if f.sync, err = parquet.OpenFile(bytes.NewReader(f.data), int64(len(f.data))); err != nil {
		return nil, err
	}
	if len(f.sync.RowGroups()) != 1 {
		return nil, fmt.Errorf("expected one row group, got %d", len(f.sync.RowGroups()))
	}
	for _, cc := range f.sync.RowGroups()[0].ColumnChunks() {
		oi, err := cc.OffsetIndex()
		if err != nil {
			return nil, err
		}
		l := &c15Layout{numRows: int64(n)}
		for p := 0; p < oi.NumPages(); p++ {
			l.starts = append(l.starts, oi.FirstRowIndex(p))
		}
		f.layouts = append(f.layouts, l)
	}
	return f, nil
}

func c15RandLayout(r *rand.Rand) *c15Layout {
	l := &c15Layout{numRows: int64(r.Intn(60))}
	for p := int64(0); p < l.numRows; p += int64(1 + r.Intn(9)) {
		l.starts = append(l.starts, p)
	}
	if r.Intn(3) == 0 { // error injection
		pick := func() int64 { return int64(r.Intn(int(l.numRows) + 2)) }
		switch r.Intn(4) {
		case 0:
			l.rdFatal = []int64{pick()}
		case 1:
			l.skSoft = []int64{pick(), pick()}
		case 2:
			l.skFatal = []int64{pick()}
		default:
			l.skSoft, l.rdFatal = []int64{pick()}, []int64{pick()}
		}
	}
	return l
}

// ---------------------------------------------------------------- traces sub-check

type c15Inst struct {
	kind    string // synthetic | file | rows
	layout  *c15Layout
	ops     []c15Op
	got     []string
	sync    []string  // results of the sync-mode reader on the same history (file instances)
	syncC   []string  // ... on the history with bursts of seeks collapsed to their last seek
	rowsTxt [3]string // async, sync, sync collapsed
	procs   int
	jitter  int
}

func RunC15Traces(ctx *core.Ctx) {
	ctx.SetRule("one case = the event log of one asyncPages instance driven by a random ReadPage/SeekToRow/Close history while other instances run in parallel (GOMAXPROCS 1..16, Gosched/sleep jitter from the hook); wrapped readers: synthetic page layouts with injected EOF/recoverable/fatal errors, column chunks of real files, and the row reader of a file in ReadModeAsync; distinct by layout+log text; non-trivial = the log contains a SeekToRow and a delivered page, or a dropped stale page")
	d := ctx.Driver()
	if d == nil {
		return
	}
	c15Corpus(ctx, d)
	c15Anchors(ctx)
	c15NegativeSeek(ctx)
	r := ctx.Rand("traces")
	prev := runtime.GOMAXPROCS(0)
	defer runtime.GOMAXPROCS(prev)
	procsList := []int{1, 2, 3, 4, 8, 16}
	jitters := []int{0, 60, 300, 800}
	sessions := ctx.Scale(300, 2000)
	deadline := time.Now().Add(min(time.Duration(ctx.Scale(40, 200))*time.Second, c15Remaining(ctx)))
	for s := 0; s < sessions && time.Now().Before(deadline); s++ {
		procs := procsList[s%len(procsList)]
		jitter := jitters[(s/len(procsList))%len(jitters)]
		runtime.GOMAXPROCS(procs)
		if !c15Session(ctx, d, r, s, procs, jitter) {
			return
		}
	}
}

// c15Corpus replays corpus/C15/*.case: `<expected answer> | <driver request>` lines (model drift).
func c15Corpus(ctx *core.Ctx, d interface {
	AskMany([]string) ([]string, error)
}) {
	for _, file := range ctx.CorpusFiles() {
		b, err := os.ReadFile(file)
		if err != nil {
			continue
		}
		var want, reqs []string
		for _, line := range strings.Split(string(b), "\n") {
			line = strings.TrimSpace(line)
			if line == "" || strings.HasPrefix(line, "#") {
				continue
			}
			parts := strings.SplitN(line, "|", 2)
			if len(parts) != 2 {
				continue
			}
			want = append(want, strings.TrimSpace(parts[0]))
			reqs = append(reqs, strings.Join(strings.Fields(parts[1]), " "))
		}
		ans, err := d.AskMany(reqs)
		if err != nil {
			ctx.Fail("L2", "driver-error", err.Error(), nil)
			return
		}
		for i := range ans {
			ctx.Case("corpus "+reqs[i], true)
			ctx.Hist("corpus", filepath.Base(file))
			if ans[i] != want[i] {
				ctx.Fail("L2", "corpus-model-drift", "the Lean transition system answers a recorded log differently than when it was recorded",
					map[string]any{"file": file, "request": reqs[i], "want": want[i], "model": ans[i]})
			}
		}
	}
}

// c15Anchors re-reads the source the Lean mirrors transliterate and checks that the statements each
// transition stands for are still there, in this order, inside the named function (a structural
// fact check: if it fails the mirror has to be re-read against the code).
func c15Anchors(ctx *core.Ctx) {
	repo := os.Getenv("VERIF_REPO")
	if repo == "" {
		repo = "/repo"
	}
	type fn struct {
		file, start string
		anchors     []string
		counts      map[string]int // statements that must occur exactly this often in the function
	}
	fns := []fn{
		{"page.go", "func AsyncPages(", []string{"read := make(chan asyncPage)", "seek := make(chan asyncSeek, 1)", "init := make(chan struct{})", "done := make(chan struct{})", "go readPages(pages, read, seek, init, done)"}, nil},
		{"page.go", "func (pages *asyncPages) Close()", []string{"close(pages.init)", "close(pages.done)", "for p := range pages.read {", "Release(p.page)", "err = p.err", "pages.seek = nil"}, nil},
		{"page.go", "func (pages *asyncPages) ReadPage()", []string{"pages.start()", "p, ok := <-pages.read", "if !ok {", "return nil, io.EOF", "if p.version == pages.version {", "return p.page, p.err", "Release(p.page)"}, nil},
		{"page.go", "func (pages *asyncPages) SeekToRow(", []string{"if pages.seek == nil {", "return io.ErrClosedPipe", "select {", "case <-pages.seek:", "default:", "pages.version++", "pages.seek <- asyncSeek{rowIndex: rowIndex, version: pages.version}", "pages.start()"}, nil},
		{"page.go", "func readPages(", []string{"read <- asyncPage{err: pages.Close(), version: -1}", "close(read)", "case <-init:", "case <-done:", "return", "var seekTo asyncSeek", "case seekTo = <-seek:", "default:", "seekTo.rowIndex = -1", "var err error", "for {", "if !isFatalError(err) {", "if seekTo.rowIndex >= 0 {", "err = pages.SeekToRow(seekTo.rowIndex)", "if err == nil {", "seekTo.rowIndex = -1", "continue", "page, err = pages.ReadPage()", "case read <- asyncPage{", "version: seekTo.version,", "case seekTo = <-seek:", "Release(page)", "case <-done:", "Release(page)", "return"}, nil},
		{"page.go", "func isFatalError(", []string{"err != nil && err != io.EOF && !errors.Is(err, ErrSeekOutOfRange)"}, nil},
		{"file.go", "func (c *FileColumnChunk) readColumnIndexFrom(", []string{"if index := c.columnIndex.Load(); index != nil {", "return index, nil", "if !c.columnIndex.CompareAndSwap(nil, index) {", "return c.columnIndex.Load(), nil", "return index, nil"}, nil},
		{"file.go", "func (c *FileColumnChunk) readOffsetIndex(", []string{"if index := c.offsetIndex.Load(); index != nil {", "return index, nil", "if !c.offsetIndex.CompareAndSwap(nil, index) {", "return c.offsetIndex.Load(), nil", "return index, nil"}, nil},
		{"file.go", "func (c *FileColumnChunk) readBloomFilter(", []string{"if filter := c.bloomFilter.Load(); filter != nil {", "return filter, nil", "if !c.bloomFilter.CompareAndSwap(nil, filter) {", "return c.bloomFilter.Load(), nil", "return filter, nil"}, nil},
		// pool protocol (PqModel.PoolProto): get, touches, put as the last action, nothing deferred after it
		{"internal/memory/pool.go", "func (p *Pool[T]) Get(", []string{"v, _ := p.pool.Get().(*T)", "if v == nil {", "v = newT()", "resetT(v)", "return v"}, nil},
		{"internal/memory/pool.go", "func (p *Pool[T]) Put(", []string{"p.pool.Put(v)"}, nil},
		{"compress/compress.go", "func (c *Compressor) Encode(", []string{"w := c.writers.Get(", "defer func() {", "w.output = *bytes.NewBuffer(nil)", "w.writer.Reset(io.Discard)", "c.writers.Put(w)", "}()", "w.writer.Write(src)", "w.writer.Close()", "return w.output.Bytes(), nil"},
			map[string]int{"\tdefer ": 1, "c.writers.Put(w)": 1}},
		{"compress/compress.go", "func (d *Decompressor) Decode(", []string{"r := d.readers.Get(", "if initErr != nil {", "return dst[:0], initErr", "defer func() {", "r.input.Reset(nil)", "if err != nil {", "return", "r.reader.Reset(nil); resetErr == nil {", "d.readers.Put(r)", "}()", "r.reader.Read(dst[len(dst):cap(dst)])"},
			map[string]int{"\tdefer ": 1, "d.readers.Put(r)": 1}},
		{"schema.go", "func (s *Schema) Reconstruct(", []string{"b := acquireValuesSliceBuffer()", "columns := b.reserve(len(state.columns))", "row.Range(func(", "columns[columnIndex] = columnValues", "err := funcs.reconstruct(v, columnLevels{}, columns)", "b.release()", "return err"},
			map[string]int{"\tdefer ": 0, "b.release()": 1, "funcs.reconstruct(": 1}},
		{"schema.go", "func (v *valuesSliceBuffer) release()", []string{"valuesSliceBufferPool.Put(v)"}, nil},
		{"schema.go", "func acquireValuesSliceBuffer()", []string{"return valuesSliceBufferPool.Get("}, nil},
		// process-wide registries and caches (PqModel.Registry): the lock precedes every map access,
		// copy-on-write caches publish a new map instead of writing the shared one
		{"file.go", "func getBufioReaderPool(", []string{"bufioReaderPoolLock.Lock()", "defer bufioReaderPoolLock.Unlock()", "if pool := bufioReaderPool[size]; pool != nil {", "return pool", "pool := &memory.Pool[bufio.Reader]{}", "bufioReaderPool[size] = pool", "return pool"},
			map[string]int{"bufioReaderPool[": 2, "bufioReaderPoolLock.Lock()": 1}},
		{"file.go", "func getBufioReader(", []string{"pool := getBufioReaderPool(bufferSize)", "rbuf := pool.Get("}, map[string]int{"bufioReaderPool[": 0}},
		{"schema.go", "func schemaOf(", []string{"cachedSchemas.Load(model)", "NewSchema(model.Name()", "cachedSchemas.LoadOrStore(model, schema)", "schema = actual.(*Schema)"}, nil},
		{"schema.go", "func (c *cacheMap[K, V]) load(", []string{"oldMap, _ := c.value.Load().(map[K]V)", "newMap := make(map[K]V, len(oldMap)+1)", "maps.Copy(newMap, oldMap)", "newMap[k] = value", "c.value.Store(newMap)"}, map[string]int{"oldMap[k] =": 0}},
		// copy-on-write caches (PqModel.CowCache): load, miss, new table in a new outer map, fill, and only then Store
		{"column_buffer_reflect.go", "func writeValueFuncOfGroup(", []string{"structFieldsCache.Load().(map[reflect.Type]map[string][]int)", "structFields, ok := cachedFields[t]", "if !ok {", "cachedFieldsBefore := cachedFields", "structFields = make(map[string][]int, len(visibleStructFields))", "cachedFields = make(map[reflect.Type]map[string][]int, len(cachedFieldsBefore)+1)", "cachedFields[t] = structFields", "maps.Copy(cachedFields, cachedFieldsBefore)", "for _, visibleStructField := range visibleStructFields {", "structFields[name] = visibleStructField.Index", "}", "structFieldsCache.Store(cachedFields)", "fieldIndex, ok := structFields[w.fieldName]"},
			map[string]int{"structFieldsCache.Store(": 1, "structFieldsCache.Load(": 1}},
		// once-guarded lazy load (PqModel.OnceLoad): guard, loader assigning the captured variables, probe
		{"bloom.go", "func newBloomFilter(", []string{"case *format.BloomFilterGzip:", "once         sync.Once", "decompressed []byte", "decompErr    error", "lazyCheck := func(", "once.Do(func() {", "file.ReadAt(buf, offset)", "decompressed, decompErr = LookupCompressionCodec(format.Gzip).Decode(nil, buf)", "})", "if decompErr != nil {", "return false, decompErr", "bloom.CheckSplitBlock(bytes.NewReader(decompressed), int64(len(decompressed)), x)"},
			map[string]int{"once.Do(": 1, "atomic.": 0, "decompressed, decompErr =": 1}},
		{"schema.go", "func (v *onceValue[T]) load(", []string{"v.once.Do(func() { v.value = f() })", "return v.value"}, nil},
		// the row group writer protocol (PqModel.RowGroupProto): where awaitOrdinal / rowGroupOrdinal are written and read
		{"writer.go", "func newConcurrentRowGroupWriter(", []string{"if w.encryption != nil {", "c.awaitOrdinal = true"}, map[string]int{"awaitOrdinal": 1}},
		{"writer.go", "func (c *ColumnWriter) Flush()", []string{"if c.columnBuffer == nil || c.awaitOrdinal {", "return nil", "if c.columnBuffer.Len() > 0 {"}, nil},
		{"writer.go", "func (w *writer) flush()", []string{"w.writeRowGroup(w.currentRowGroup, nil, nil)"}, nil},
		{"writer.go", "func (w *writer) writeRowGroup(", []string{"numRows := rg.columns[0].totalRowCount()", "if numRows == 0 {", "return 0, nil", "rowGroupIndex := len(w.rowGroups)", "defer func() {", "rg.reset()", "nextOrdinal := int16(len(w.rowGroups))", "c.rowGroupOrdinal = nextOrdinal", "c.awaitOrdinal = rg != w.currentRowGroup", "if rg != w.currentRowGroup {", "c.rowGroupOrdinal = nextOrdinal", "}()", "c.rowGroupOrdinal = int16(rowGroupIndex)", "c.awaitOrdinal = false", "c.Flush()"},
			map[string]int{"awaitOrdinal": 2}},
		// the row reader's release paths (PoolProto.rowReaderProg): every path that lets go of the page goes
		// through clear(), which honours detach; the detached values buffer is never unreferenced
		{"row_group.go", "func newRowGroupRows(", []string{"case ByteArray, FixedLenByteArray:", "r.columns[i].reader.detach = true"}, nil},
		{"column_chunk.go", "func (r *columnChunkValueReader) clear()", []string{"if r.page != nil {", "if r.detach {", "releaseAndDetachValues(r.page)", "} else {", "Release(r.page)", "r.page = nil", "r.values = nil"}, nil},
		{"column_chunk.go", "func (r *columnChunkValueReader) Reset()", []string{"r.clear()"}, map[string]int{"Release(": 0}},
		{"column_chunk.go", "func (r *columnChunkValueReader) Close()", []string{"r.pages.Close()", "r.clear()"}, map[string]int{"Release(": 0}},
		{"column_chunk.go", "func (r *columnChunkValueReader) ReadValues(", []string{"r.page = p", "r.values = p.Values()", "r.values.ReadValues(values)", "r.clear()"}, map[string]int{"Release(": 0}},
		{"column_chunk.go", "func (r *columnChunkValueReader) SeekToRow(", []string{"r.pages.SeekToRow(rowIndex)", "r.clear()"}, map[string]int{"Release(": 0}},
		{"buffer.go", "func (p *bufferedPage) ReleaseAndDetachValues()", []string{"Release(p.Page)", "bufferUnref(p.offsets)", "bufferUnref(p.definitionLevels)", "bufferUnref(p.repetitionLevels)"}, map[string]int{"bufferUnref(p.values)": 0}},
		// page wrappers of row group views (PoolProto.viewReaderProg): the wrapper forwards the detach
		{"convert.go", "func (p *convertedPage) ReleaseAndDetachValues()", []string{"releaseAndDetachValues(p.page)"}, map[string]int{"Release(p.page)": 0, "(p.page)": 1}},
		{"convert.go", "func (p *convertedPages) ReadPage()", []string{"p.pages.ReadPage()", "return &convertedPage{"}, nil},
		{"writer.go", "func (rg *ConcurrentRowGroupWriter) Commit()", []string{"rg.writer.flush()", "return rg.writer.writeRowGroup(rg, nil, nil)"}, nil},
		{"writer.go", "func (w *writer) writeRowGroup(", []string{"rowGroupIndex := len(w.rowGroups)", "rg.reset()", "fileOffset := w.writer.offset", "dataPageOffset := w.writer.offset", "c.offsetIndex.PageLocations[j].Offset += dataPageOffset", "io.Copy(&w.writer, c.pageBuffer)"}, nil},
	}
	poolNote := func(file string) string {
		if file == "column_buffer_reflect.go" {
			return " — copy-on-write cache: Props.C15.cow_cache_complete needs the new outer map to be stored after the new table has been filled; Props.C15.cow_store_before_fill_incomplete proves that a Store in front of the fill loop lets a second goroutine read the table while it is written and miss fields"
		}
		if file == "bloom.go" {
			return " — once-guarded load: Props.C15.once_load_serial needs late callers to wait for the first caller's load (sync.Once); Props.C15.once_flag_slip_not_serial proves that a guard that lets them through makes them answer from the not yet loaded state"
		}
		if file == "file.go" {
			return " — registry protocol: Props.C15.registry_linearizable needs every map access under the lock; Props.C15.registry_fast_path_conflict proves that an unlocked lookup admits a map read concurrent with a map write"
		}
		if file == "convert.go" {
			return " — page wrappers of row group views: Props.C15.rowreader_views_pool_exclusive needs every wrapper between the row reader and the decoded page to forward ReleaseAndDetachValues; Props.C15.rowreader_wrapper_slip_not_exclusive proves that a wrapper answering with a plain Release lets another goroutine obtain a buffer the caller's rows still point into"
		}
		if file == "column_chunk.go" || file == "row_group.go" || file == "buffer.go" {
			return " — row reader release paths: Props.C15.rowreader_pool_exclusive needs every path that lets go of a page of a byte-array column to detach its values buffer instead of putting it back; Props.C15.rowreader_close_slip_not_exclusive proves that a put on one of these paths lets another goroutine obtain a buffer the caller's rows still point into"
		}
		if file == "writer.go" {
			return " — row group writer protocol: Props.C15.rowgroups_serial_readable is proved for the mirror with awaitOrdinal restored after Commit; Props.C15.rowgroups_slip_unreadable proves that without it a reused row group writer seals pages with a stale ordinal"
		}
		if file == "compress/compress.go" || file == "schema.go" || file == "internal/memory/pool.go" {
			return " — pool protocol: Props.C15.pool_exclusive needs the put to be the owner's last action on the object; for a put before the last use Props.C15.pool_slip_encode_not_exclusive / pool_slip_reconstruct_not_exclusive prove that two goroutines may touch the same object"
		}
		return ""
	}
	cache := map[string]string{}
	for _, f := range fns {
		src, ok := cache[f.file]
		if !ok {
			b, err := os.ReadFile(filepath.Join(repo, f.file))
			if err != nil {
				ctx.Fail("L2", "mirror-anchor-source-unreadable", "cannot read "+f.file+" of the library: "+err.Error(), nil)
				return
			}
			src = string(b)
			cache[f.file] = src
		}
		at := strings.Index(src, f.start)
		if at < 0 {
			ctx.Fail("L2", "mirror-anchor-missing "+f.file, "function no longer found: "+f.start, nil)
			continue
		}
		body := src[at:]
		if end := strings.Index(body, "\n}\n"); end >= 0 {
			body = body[:end]
		}
		pos := 0
		for _, a := range f.anchors {
			i := strings.Index(body[pos:], a)
			ctx.Hist("mirror_anchor", f.file)
			if i < 0 {
				ctx.Fail("L2", "mirror-anchor-missing "+f.file, "statement the Lean mirror transliterates is gone or moved: `"+a+"` in "+f.start+poolNote(f.file),
					map[string]any{"file": f.file, "function": f.start, "statement": a})
				break
			}
			pos += i + len(a)
		}
		for stmt, want := range f.counts {
			if got := strings.Count(body, stmt); got != want {
				ctx.Fail("L2", "mirror-anchor-missing "+f.file, fmt.Sprintf("`%s` occurs %d times in %s, the Lean mirror assumes %d%s", stmt, got, f.start, want, poolNote(f.file)),
					map[string]any{"file": f.file, "function": f.start, "statement": stmt, "occurrences": got, "assumed": want})
			}
		}
	}
	// page wrappers as a class: every type of the library that takes part in Release (it wraps pooled
	// storage or a page that does) must also answer ReleaseAndDetachValues — releaseAndDetachValues on
	// a page without the method does nothing, on a wrapper that has Release only the row reader's
	// detach request would be lost
	if ents, err := os.ReadDir(repo); err == nil {
		releases, detaches := map[string]string{}, map[string]bool{}
		reRel := regexp.MustCompile(`(?m)^func \(\w+ \*?(\w+)\) (Release|ReleaseAndDetachValues)\(\)`)
		for _, e := range ents {
			if e.IsDir() || !strings.HasSuffix(e.Name(), ".go") || strings.HasSuffix(e.Name(), "_test.go") {
				continue
			}
			b, err := os.ReadFile(filepath.Join(repo, e.Name()))
			if err != nil {
				continue
			}
			for _, m := range reRel.FindAllStringSubmatch(string(b), -1) {
				if m[2] == "Release" {
					releases[m[1]] = e.Name()
				} else {
					detaches[m[1]] = true
				}
			}
		}
		for typ, file := range releases {
			ctx.Hist("mirror_anchor", "releasable page types")
			if !detaches[typ] {
				ctx.Fail("L2", "mirror-anchor-missing releasable-without-detach", "type "+typ+" ("+file+") has Release() but no ReleaseAndDetachValues(): a row reader of a byte-array column holding such a page cannot leave the values buffer to the garbage collector"+poolNote("convert.go"),
					map[string]any{"file": file, "type": typ})
			}
		}
		if len(releases) == 0 {
			ctx.Fail("L2", "mirror-anchor-missing releasable-without-detach", "no type with a Release() method found in the library: the scan is broken", nil)
		}
	}
	// the registry map is touched nowhere outside its accessor
	if src, ok := cache["file.go"]; ok {
		ctx.Hist("mirror_anchor", "file.go")
		if n := strings.Count(src, "bufioReaderPool["); n != 2 {
			ctx.Fail("L2", "mirror-anchor-missing file.go", fmt.Sprintf("the registry map bufioReaderPool is indexed %d times in file.go, the Lean mirror (PqModel.Registry) assumes 2, both under bufioReaderPoolLock — Props.C15.registry_fast_path_conflict proves that an unlocked lookup admits a map read concurrent with a map write", n),
				map[string]any{"file": "file.go", "statement": "bufioReaderPool[", "occurrences": n, "assumed": 2})
		}
	}
	// the page.go:NNN references in the doc comments of PqModel/Async.lean (information only)
	if src, ok := cache["page.go"]; ok {
		lines := strings.Split(src, "\n")
		state := "current"
		for n, text := range map[int]string{203: "if p.version == pages.version {", 240: "pages.seek <- asyncSeek{", 294: "if !isFatalError(err) {", 309: "case read <- asyncPage{", 315: "case seekTo = <-seek:"} {
			if n > len(lines) || !strings.Contains(lines[n-1], text) {
				state = "stale"
			}
		}
		ctx.Hist("page_go_line_refs_in_Async_lean", state)
	}
}

// c15NegativeSeek records (as an observation, not a failure: a negative row index is not a
// documented use) how asyncPages treats SeekToRow(-1): page.go:269 takes rowIndex < 0 for "no seek
// pending", so the call returns nil, bumps the version (the prefetched page is dropped as stale) and
// the next ReadPage continues one page further, whereas the sync reader refuses the seek.
func c15NegativeSeek(ctx *core.Ctx) {
	l := &c15Layout{numRows: 40, starts: []int64{0, 10, 20, 30}}
	run := func(p parquet.Pages) string {
		a, _ := p.ReadPage()
		id := c15PageID(a)
		parquet.Release(a)
		err := p.SeekToRow(-1)
		b, _ := p.ReadPage()
		out := fmt.Sprintf("p%d,seek(-1)=%v,p%d", id, err != nil, c15PageID(b))
		parquet.Release(b)
		p.Close()
		return out
	}
	outcome := "no-page-skipped"
	for i := 0; i < 20 && outcome == "no-page-skipped"; i++ {
		as := run(parquet.AsyncPages(&c15Pages{l: l}))
		switch as {
		case "p0,seek(-1)=false,p10":
		case "p0,seek(-1)=true,p10":
			outcome = "refused-like-the-sync-reader"
		default:
			outcome = "returns-nil-and-skips-the-prefetched-page"
			ctx.Sample(map[string]any{"observation": "asyncPages.SeekToRow(-1)", "async": as, "sequential": "p0,seek(-1)=false,p10 (wrapped reader left alone) / error (FilePages)"})
		}
	}
	ctx.Hist("observation_negative_seek_async", outcome)
}

// c15Session runs one recording session; false = abort the sub-check (deadlock).
func c15Session(ctx *core.Ctx, d interface {
	AskMany([]string) ([]string, error)
}, r *rand.Rand, session, procs, jitter int) bool {
	var insts []*c15Inst
	var pagesOf []parquet.Pages
	var syncOf, syncCOf []parquet.Pages
	var rowJobs []func()
	parquet.VerifAsyncTraceStart(c15Describe, ctx.Seed*7919+int64(session), jitter)
	// instances are created one after the other so that log i belongs to insts[i]
	nSyn := 8 + r.Intn(16)
	for i := 0; i < nSyn; i++ {
		l := c15RandLayout(r)
		in := &c15Inst{kind: "synthetic", layout: l, ops: c15RandHistory(r, l), procs: procs, jitter: jitter}
		insts = append(insts, in)
		pagesOf = append(pagesOf, parquet.AsyncPages(&c15Pages{l: l}))
		syncOf, syncCOf = append(syncOf, nil), append(syncCOf, nil)
	}
	for i := 0; i < 2; i++ {
		f, err := c15MakeFile(r, false)
		if err != nil {
			ctx.Fail("L2", "trace-file-setup", "cannot build the trace file: "+err.Error(), nil)
			continue
		}
		for c, cc := range f.async.RowGroups()[0].ColumnChunks() {
			l := f.layouts[c]
			in := &c15Inst{kind: "file", layout: l, ops: c15RandHistory(r, l), procs: procs, jitter: jitter}
			insts = append(insts, in)
			pagesOf = append(pagesOf, cc.Pages())
			syncOf = append(syncOf, f.sync.RowGroups()[0].ColumnChunks()[c].Pages())
			syncCOf = append(syncCOf, f.sync.RowGroups()[0].ColumnChunks()[c].Pages())
		}
	}
	// the row reader of an async file, driven by the library: it creates its asyncPages lazily
	// (two per column: FileRowGroup.Rows wraps the already asynchronous FileColumnChunk.Pages once
	// more), after all the instances above; the three columns are identical, so every one of these
	// instances has the same layout
	var rowsInst *c15Inst
	if f, err := c15MakeFile(r, true); err == nil {
		ops := c15RandHistory(r, f.layouts[0])
		rowsInst = &c15Inst{kind: "rows", layout: f.layouts[0], ops: ops, procs: procs, jitter: jitter}
		arows := f.async.RowGroups()[0].Rows()
		srows := f.sync.RowGroups()[0].Rows()
		srowsC := f.sync.RowGroups()[0].Rows()
		rowJobs = append(rowJobs, func() {
			collapsed, _ := c15Collapse(ops)
			rowsInst.rowsTxt[0] = c15RunRows(arows, ops)
			rowsInst.rowsTxt[1] = c15RunRows(srows, ops)
			rowsInst.rowsTxt[2] = c15RunRows(srowsC, collapsed)
		})
	}
	done := make(chan struct{})
	go func() {
		var wg sync.WaitGroup
		start := make(chan struct{})
		for i, in := range insts {
			if pagesOf[i] == nil {
				continue
			}
			wg.Add(1)
			go func(i int, in *c15Inst) {
				defer wg.Done()
				<-start
				in.got = c15Run(pagesOf[i], in.ops, false)
				if syncOf[i] != nil {
					in.sync = c15Run(syncOf[i], in.ops, false)
					collapsed, keep := c15Collapse(in.ops)
					in.syncC = c15Expand(c15Run(syncCOf[i], collapsed, false), keep)
				}
			}(i, in)
		}
		for _, job := range rowJobs {
			wg.Add(1)
			go func(job func()) { defer wg.Done(); <-start; job() }(job)
		}
		close(start)
		wg.Wait()
		close(done)
	}()
	// No verdict of this sub-check depends on how fast the machine is: a session that has not
	// finished is a deadlock only when every goroutine taking part in it is parked on a channel or a
	// lock (a state nothing but another of these goroutines could end); as long as one of them is
	// runnable, running or sleeping the session is merely slow and we keep waiting. A session still
	// unfinished after the (generous) cap is reported as an observation and ends the sub-check.
	if verdict, dump := c15Await(done, max(3*time.Minute, c15Remaining(ctx)), c15SessionGoroutine); verdict != "done" {
		logs := parquet.VerifAsyncTraceStop()
		var detail []any
		for i, in := range insts {
			ev := []string{}
			if i < len(logs) {
				ev = logs[i].Events
			}
			detail = append(detail, map[string]any{"kind": in.kind, "layout": in.layout.tokens(), "ops": c15OpsText(in.ops), "events": strings.Join(ev, ",")})
		}
		d := map[string]any{"gomaxprocs": procs, "jitter": jitter, "session": session, "instances": detail, "goroutines": dump}
		if verdict == "deadlock" {
			ctx.Fail("L1", "async-deadlock", "an asyncPages history cannot finish: every goroutine of the session (consumers and readPages producers) is blocked on a channel or lock operation", d)
		} else {
			ctx.Observe("async-session-unfinished", "a recording session was still making progress when the harness gave up waiting (slow machine); no verdict is derived from it", d)
		}
		return false
	}
	logs := parquet.VerifAsyncTraceStop()
	if len(logs) < len(insts) || (rowsInst == nil && len(logs) != len(insts)) {
		ctx.Fail("L2", "trace-instance-count", fmt.Sprintf("recorded %d instances, created %d", len(logs), len(insts)), nil)
		return true
	}
	if rowsInst != nil {
		ctx.Hist("rows_reader_instances", strconv.Itoa(len(logs)-len(insts)))
	}
	for i, first := len(insts), true; i < len(logs); i, first = i+1, false { // the row reader's instances
		in := *rowsInst
		if !first { // the rows themselves are compared once
			in.rowsTxt = [3]string{}
		}
		insts = append(insts, &in)
	}
	// ---- validation against the Lean transition system and the sequential reference
	reqs := make([]string, 0, 2*len(insts))
	for i, in := range insts {
		evs := "-"
		if len(logs[i].Events) > 0 {
			evs = strings.Join(logs[i].Events, ",")
		}
		reqs = append(reqs, "async.validate "+in.layout.tokens()+" "+evs)
		reqs = append(reqs, "async.seq "+in.layout.tokens()+" "+c15SeqOps(in.ops))
	}
	ans, err := d.AskMany(reqs)
	if err != nil {
		ctx.Fail("L2", "driver-error", err.Error(), nil)
		return false
	}
	for i, in := range insts {
		evs := logs[i].Events
		text := strings.Join(evs, ",")
		nontrivial := (strings.Contains(text, "ss:") && strings.Contains(text, "dl:p")) || strings.Contains(text, "dr:")
		ctx.Case(in.layout.tokens()+" "+text, nontrivial)
		detail := map[string]any{"kind": in.kind, "layout": in.layout.tokens(), "ops": c15OpsText(in.ops), "events": text,
			"gomaxprocs": in.procs, "jitter_permille": in.jitter, "session": session}
		detail["replay"] = fmt.Sprintf("VERIF_SEED=%d VERIF_ONLY=traces ./check C15 %s (session %d); standalone: %s reader over pages starting at rows [%s] of %d rows whose values are the row indexes, perform ops %s through parquet.AsyncPages / a file opened with FileReadMode(ReadModeAsync) and compare with ReadModeSync; the event log is re-validated by `async.validate %s <events>` on pqdriver",
			ctx.Seed, ctx.Tier, session, in.kind, core.JoinInts(in.layout.starts), in.layout.numRows, c15OpsText(in.ops), in.layout.tokens())
		if i < 2 && session < 2 {
			ctx.Sample(map[string]any{"kind": in.kind, "layout": in.layout.tokens(), "ops": c15OpsText(in.ops), "events": text})
		}
		ctx.Hist("instance_kind", in.kind)
		ctx.Hist("gomaxprocs", strconv.Itoa(in.procs))
		ctx.Hist("jitter_permille", strconv.Itoa(in.jitter))
		for _, e := range evs {
			ctx.Hist("event", strings.SplitN(e, ":", 2)[0])
		}
		va := ans[2*i]
		if strings.HasPrefix(va, "ok ") {
			ctx.Hist("traces_validated_against_impl", "accepted")
			// ownership at the end of the log: everything produced was handed over or released
			f := strings.Fields(va)
			if len(f) == 4 && strings.HasSuffix(text, "ce") {
				nprod, _ := strconv.Atoi(f[1])
				cnt := func(s string) int {
					if s == "-" {
						return 0
					}
					return strings.Count(s, ",") + 1
				}
				if cnt(f[2])+cnt(f[3]) != nprod {
					ctx.Fail("L2", "trace-ownership", "model accounting after Close: produced != handed + released", detail)
				}
			}
		} else {
			detail["model"] = va
			ctx.Hist("traces_validated_against_impl", "rejected")
			ctx.Fail("L2", "async-trace-not-a-path "+in.kind, "the recorded event log of asyncPages is not a path of the Lean transition system ("+va+")", detail)
		}
		if in.kind == "rows" {
			// the text of the collapsed run lacks the lines of the dropped seeks only when they fail; they do not
			if in.rowsTxt[0] != in.rowsTxt[2] {
				detail["async"], detail["sync"] = c15DiffAt(in.rowsTxt[0], in.rowsTxt[2])
				ctx.Fail("L1", "async-rows-differ-from-sync rows-reader", "rows read through a file in ReadModeAsync differ from ReadModeSync for the same SeekToRow/ReadRows history", detail)
			} else if in.rowsTxt[0] != in.rowsTxt[1] {
				detail["async"], detail["sync"] = c15DiffAt(in.rowsTxt[0], in.rowsTxt[1])
				ctx.Fail("L1", "sync-reader-consecutive-seeks (C08 F11)", c15ConsecutiveSeeksWhat, detail)
			}
			continue
		}
		// L1: results vs the Lean sequential reference (spec side)
		sa := ans[2*i+1]
		var seq []string
		if strings.HasPrefix(sa, "ok ") {
			if s := strings.TrimPrefix(sa, "ok "); s != "-" {
				seq = strings.Split(s, ",")
			}
		}
		want, ok := c15Expected(in.ops, seq)
		gotShort := make([]string, len(in.got))
		for j, g := range in.got {
			gotShort[j] = strings.SplitN(g, "+", 2)[0]
			if strings.Contains(g, "/false") {
				detail["got"] = in.got
				ctx.Fail("L1", "async-page-content "+in.kind, "a delivered page does not hold consecutive rows starting at its first row", detail)
			}
		}
		hasFatal := len(in.layout.rdFatal)+len(in.layout.skFatal) > 0
		if ok && strings.Join(want, ",") != strings.Join(gotShort, ",") && c15MatchSeq(gotShort, want, in.ops, hasFatal) {
			ctx.Hist("speculative_fatal_error_delivered", in.kind)
		}
		if !ok || !c15MatchSeq(gotShort, want, in.ops, hasFatal) {
			detail["got"], detail["want"] = strings.Join(gotShort, ","), strings.Join(want, ",")
			ctx.Fail("L1", "async-delivered-differs-from-sequential "+in.kind, "ReadPage results differ from the sequential reader run over the same SeekToRow/ReadPage history", detail)
		}
		if in.sync != nil {
			got := strings.Join(in.got, ",")
			if strings.Join(in.syncC, ",") != got {
				detail["got"], detail["sync"] = got, strings.Join(in.syncC, ",")
				ctx.Fail("L1", "async-rows-differ-from-sync "+in.kind, "pages delivered in ReadModeAsync differ from ReadModeSync for the same history", detail)
			} else if strings.Join(in.sync, ",") != got {
				detail["got"], detail["sync"] = got, strings.Join(in.sync, ",")
				ctx.Fail("L1", "sync-reader-consecutive-seeks (C08 F11)", c15ConsecutiveSeeksWhat, detail)
			}
		}
		ctx.Hist("history_len", fmt.Sprint(len(in.ops)/8*8))
	}
	return true
}

// c15DiffAt cuts two texts down to the lines around their first difference.
func c15DiffAt(a, b string) (string, string) {
	la, lb := strings.Split(a, "\n"), strings.Split(b, "\n")
	i := 0
	for i < len(la) && i < len(lb) && la[i] == lb[i] {
		i++
	}
	cut := func(l []string) string {
		lo, hi := max(0, i-2), min(len(l), i+4)
		return fmt.Sprintf("line %d: %s", lo, strings.Join(l[lo:hi], " / "))
	}
	return cut(la), cut(lb)
}

const c15ConsecutiveSeeksWhat = "ReadModeSync returns different pages than ReadModeAsync (and than the sequential reference, which agrees with async) when SeekToRow is called twice without a read in between: the sync reader is wrong (FilePages.SeekToRow does not clear serveLastPage); with the burst of seeks collapsed to its last seek both modes agree"

func c15RunRows(rows parquet.Rows, ops []c15Op) string {
	var sb strings.Builder
	buf := make([]parquet.Row, 7)
	closed := false
	for _, o := range ops {
		switch o.kind {
		case 'r':
			if closed {
				continue
			}
			n, err := rows.ReadRows(buf)
			sb.WriteString(rowsText(buf[:n]))
			if err != nil {
				fmt.Fprintf(&sb, "err=%v\n", err)
			}
		case 's':
			if closed {
				continue
			}
			if err := rows.SeekToRow(o.k); err != nil {
				fmt.Fprintf(&sb, "seek %d err=%v\n", o.k, err)
			}
		case 'c':
			if !closed {
				fmt.Fprintf(&sb, "close=%v\n", rows.Close())
				closed = true
			}
		}
	}
	if !closed {
		rows.Close()
	}
	return sb.String()
}

// ---------------------------------------------------------------- scenarios sub-check

func c15GoEnv() []string {
	var env []string
	for _, kv := range os.Environ() {
		if strings.HasPrefix(kv, "GOTOOLCHAIN=") || strings.HasPrefix(kv, "GOSUMDB=") || strings.HasPrefix(kv, "GOFLAGS=") || strings.HasPrefix(kv, "GOPROXY=") || strings.HasPrefix(kv, "GOMAXPROCS=") {
			continue
		}
		env = append(env, kv)
	}
	return append(env, "GOFLAGS=-mod=mod", "GOPROXY=off")
}

// c15BuildRace builds cmd/pqrace with the race detector against the same tree as this binary.
func c15BuildRace(limit time.Duration) (string, string, error) { return c15BuildScenarioBinary(limit, true) }

// c15BuildScenarioBinary builds cmd/pqrace with or without the race detector.
func c15BuildScenarioBinary(limit time.Duration, race bool) (string, string, error) {
	root, err := os.Getwd()
	if err != nil {
		return "", "", err
	}
	harness := filepath.Join(root, "harness")
	modfile := filepath.Join(root, ".build", "harness.mod")
	if _, err := os.Stat(modfile); err != nil {
		return "", "", fmt.Errorf("harness module file not found (%s): run through ./check", modfile)
	}
	bin := filepath.Join(root, ".build", "pqrace")
	args := []string{"build", "-race"}
	if !race {
		bin = filepath.Join(root, ".build", "pqrace-norace")
		args = []string{"build"}
	}
	c, cancel := context.WithTimeout(context.Background(), min(15*time.Minute, limit))
	defer cancel()
	cmd := exec.CommandContext(c, "go", append(args, "-modfile", modfile, "-tags", "verif", "-o", bin, "./cmd/pqrace")...)
	cmd.Dir = harness
	cmd.Env = c15GoEnv()
	out, err := cmd.CombinedOutput()
	if c.Err() == context.DeadlineExceeded {
		err = context.DeadlineExceeded
	}
	return bin, string(out), err
}

func RunC15Scenarios(ctx *core.Ctx) {
	seeds := ctx.Scale(2, 8)
	base := ctx.Seed * 1000
	// the -race build of cmd/pqrace runs in the background while the in-process runs go on
	type built struct {
		bin, out string
		err      error
	}
	buildDone := make(chan built, 1)
	go func() {
		bin, out, err := c15BuildRace(max(2*time.Minute, c15Remaining(ctx)-time.Minute))
		buildDone <- built{bin, out, err}
	}()
	// the scenarios that can kill the process (SubprocessOnly) also run without the race detector, in
	// a plain build of the same command: their own oracles (result vs input) are what reports there
	plainDone := make(chan struct{})
	go func() {
		defer close(plainDone)
		bin, out, err := c15BuildScenarioBinary(max(2*time.Minute, c15Remaining(ctx)-time.Minute), false)
		if err != nil {
			if errors.Is(err, context.DeadlineExceeded) {
				ctx.Observe("plain-build-timeout", "go build of cmd/pqrace (without -race) did not finish in time (slow machine)", map[string]any{"output": out})
			} else {
				ctx.Fail("L2", "race-build-failed", "go build of cmd/pqrace (without -race) failed: "+err.Error(), map[string]any{"output": out})
			}
			return
		}
		var wg sync.WaitGroup
		for _, sc := range C15Scenarios {
			if !sc.SubprocessOnly {
				continue
			}
			for _, procs := range []int{0, 4} {
				wg.Add(1)
				go func(name, doc string, procs int) {
					defer wg.Done()
					c15RaceRun(ctx, bin, name, doc, base+int64(procs)*100, 3*seeds, procs, max(time.Minute, c15Remaining(ctx)))
				}(sc.Name, sc.Doc, procs)
			}
		}
		wg.Wait()
	}()
	defer func() { <-plainDone }()
	// ---- in-process (no race detector): serial output == concurrent output; a few scenarios at a time
	{
		var wg sync.WaitGroup
		sem := make(chan struct{}, 3)
		for _, sc := range C15Scenarios {
			if sc.SubprocessOnly {
				continue
			}
			wg.Add(1)
			go func(sc c15Scenario) {
				defer wg.Done()
				sem <- struct{}{}
				defer func() { <-sem }()
				for s := 0; s < seeds; s++ {
					if c15Remaining(ctx) < 0 {
						ctx.Hist("skipped_for_time", "scenario "+sc.Name)
						ctx.Observe("scenarios-skipped-for-time", "the time budget of the harness was used up (slow machine): some in-process scenario runs were skipped", nil)
						break
					}
					seed := base + int64(s)
					a, b, err := func() (a, b string, err error) {
						defer func() {
							if p := recover(); p != nil {
								err = fmt.Errorf("panic: %v", p)
							}
						}()
						return C15RunScenario(sc.Name, seed)
					}()
					ctx.Case("scenario "+sc.Name+" "+fmt.Sprint(seed), true)
					ctx.Hist("scenario", sc.Name)
					if err != nil {
						ctx.Fail("L1", c15ScenarioKey(sc.Name, err.Error()), sc.Doc+": "+err.Error(),
							map[string]any{"scenario": sc.Name, "seed": seed, "serial": a, "concurrent": b,
								"replay": fmt.Sprintf(".build/pqrace -scenario %s -seed %d", sc.Name, seed)})
					}
				}
			}(sc)
		}
		wg.Wait()
	}
	// ---- the same scenarios in a -race build, as subprocesses
	bt := <-buildDone
	bin, out, err := bt.bin, bt.out, bt.err
	if errors.Is(err, context.DeadlineExceeded) {
		// a slow machine is not a finding: the race half of the sub-check did not run
		ctx.Hist("race_build", "timeout")
		ctx.Observe("race-build-timeout", "go build -race of cmd/pqrace did not finish in time (slow machine): the scenarios ran without the race detector only", map[string]any{"output": out})
		return
	}
	if err != nil {
		ctx.Fail("L2", "race-build-failed", "go build -race of cmd/pqrace failed: "+err.Error(), map[string]any{"output": out})
		return
	}
	ctx.Hist("race_build", "ok")
	timeout := time.Duration(ctx.Scale(420, 900)) * time.Second // expiry is never a verdict (see c15RaceRun)
	var wg sync.WaitGroup
	sem := make(chan struct{}, max(2, runtime.NumCPU()/2))
	// the seeds are split between the two GOMAXPROCS settings (0 = all processors, 2)
	half := (seeds + 1) / 2
	for _, sc := range C15Scenarios {
		for k, procs := range []int{0, 2} {
			first, n := base, half
			if k == 1 {
				first, n = base+int64(half), seeds-half
			}
			if n <= 0 {
				continue
			}
			wg.Add(1)
			go func(name, doc string, procs int, first int64, n int) {
				defer wg.Done()
				sem <- struct{}{}
				defer func() { <-sem }()
				left := c15Remaining(ctx)
				if left < 30*time.Second {
					ctx.Hist("skipped_for_time", "race "+name)
					ctx.Observe("race-run-skipped-for-time", "the time budget of the harness was used up (slow machine): some -race scenario runs were not started", nil)
					return
				}
				c15RaceRun(ctx, bin, name, doc, first, n, procs, min(timeout, left))
			}(sc.Name, sc.Doc, procs, first, n)
		}
	}
	wg.Wait()
}

func c15RaceRun(ctx *core.Ctx, bin, name, doc string, seed int64, n, procs int, timeout time.Duration) {
	cmd := exec.Command(bin, "-scenario", name, "-seed", fmt.Sprint(seed), "-n", fmt.Sprint(n), "-procs", fmt.Sprint(procs))
	cmd.Env = append(os.Environ(), "GORACE=halt_on_error=1", "GOTRACEBACK=all")
	var outBuf c15SyncBuffer
	cmd.Stdout, cmd.Stderr = &outBuf, &outBuf
	err := cmd.Start()
	timedOut := false
	if err == nil {
		exited := make(chan error, 1)
		go func() { exited <- cmd.Wait() }()
		select {
		case err = <-exited:
		case <-time.After(timeout):
			// not finished: ask the process for its goroutines (SIGQUIT makes the Go runtime print
			// every goroutine with its state and exit); the dump decides between "deadlock" and "slow"
			timedOut = true
			cmd.Process.Signal(syscall.SIGQUIT)
			select {
			case err = <-exited:
			case <-time.After(2 * time.Minute):
				cmd.Process.Kill()
				err = <-exited
			}
		}
	}
	text := outBuf.String()
	lastSeed := seed
	for _, line := range strings.Split(text, "\n") {
		if strings.HasPrefix(line, "RUN ") {
			if i := strings.Index(line, "seed="); i >= 0 {
				if v, e := strconv.ParseInt(strings.TrimSpace(line[i+5:]), 10, 64); e == nil {
					lastSeed = v
				}
			}
		}
	}
	plain := strings.HasSuffix(bin, "-norace")
	if plain {
		ctx.HistN("plain_subprocess_runs", name, int64(strings.Count(text, "OK scenario=")))
	} else {
		ctx.HistN("race_runs", name, int64(strings.Count(text, "OK scenario=")))
	}
	tail := text
	if len(tail) > 9000 {
		tail = tail[:3000] + "\n...\n" + tail[len(tail)-6000:]
	}
	detail := map[string]any{"scenario": name, "seed": lastSeed, "gomaxprocs": procs, "output": tail,
		"replay": fmt.Sprintf("GORACE=halt_on_error=1 %s -scenario %s -seed %d -procs %d", strings.TrimPrefix(bin, filepath.Dir(filepath.Dir(bin))+"/"), name, lastSeed, procs)}
	switch {
	case strings.Contains(text, "WARNING: DATA RACE"):
		ctx.Fail("L1", "data-race "+name, doc+": the race detector reports a data race", detail)
	case strings.Contains(text, "all goroutines are asleep - deadlock!"):
		// the Go runtime's own detector: no goroutine of the process can run any more
		ctx.Fail("L1", "deadlock "+name, doc+": deadlock (the Go runtime found every goroutine blocked)", detail)
	case timedOut:
		// a verdict needs a state that no amount of waiting changes: every goroutine of the process
		// parked on a channel or lock. Anything else is a slow machine.
		if i := strings.Index(text, "SIGQUIT: quit"); i >= 0 {
			// the SIGQUIT traceback lists the runtime's own goroutines too (GC workers, ...): the
			// scenario's goroutines are those with frames of the harness or the library
			user := func(stack string) bool {
				return strings.Contains(stack, "main.main") || strings.Contains(stack, "verifharness/props.") || strings.Contains(stack, "parquet-go.")
			}
			if stuck, states := c15AllBlocked(text[i:], user); stuck {
				detail["goroutine_states"] = states
				ctx.Fail("L1", "deadlock "+name, doc+": the scenario cannot finish: every goroutine of the process is blocked on a channel or lock operation", detail)
				return
			}
		}
		ctx.Hist("race_run_unfinished", name)
		ctx.Observe("race-run-unfinished "+name, "the -race subprocess was still running when the harness gave up waiting (slow machine); no verdict is derived from it", detail)
	case strings.Contains(text, "MISMATCH "):
		ctx.Fail("L1", c15ScenarioKey(name, text[strings.Index(text, "MISMATCH "):]), doc+": the concurrent output differs from the serial output, or from the result the input determines (subprocess)", detail)
	case strings.Contains(text, "fatal error: concurrent map"):
		ctx.Fail("L1", "concurrent-map-access "+name, doc+": the Go runtime aborted the process: a map shared between goroutines was read or written while another goroutine wrote it", detail)
	case strings.Contains(text, "panic:") || strings.Contains(text, "fatal error:"):
		ctx.Fail("L1", "panic "+name, doc+": panic", detail)
	case err != nil:
		ctx.Fail("L1", "scenario-crash "+name, doc+": the scenario process failed: "+err.Error(), detail)
	}
}

// c15SyncBuffer collects the output of a subprocess (written by the exec package's copier).
type c15SyncBuffer struct {
	mu sync.Mutex
	b  bytes.Buffer
}

func (b *c15SyncBuffer) Write(p []byte) (int, error) {
	b.mu.Lock()
	defer b.mu.Unlock()
	return b.b.Write(p)
}

func (b *c15SyncBuffer) String() string {
	b.mu.Lock()
	defer b.mu.Unlock()
	return b.b.String()
}

// ---------------------------------------------------------------- time budget (coverage only)

// c15Start / c15Remaining: the whole C15 harness run has to end before ./check gives up on it
// (props/C15.json timeout_s). Work that has not been started when the soft budget is used up is
// skipped and reported as an observation; this reduces coverage on a slow machine, it never turns
// into a failure.
var c15Start = time.Now()

func c15Remaining(ctx *core.Ctx) time.Duration {
	return time.Duration(ctx.Scale(800, 1250))*time.Second - time.Since(c15Start)
}

// ---------------------------------------------------------------- deadlock vs slowness

// c15BlockedStates are the goroutine wait reasons that only another goroutine's channel or lock
// operation ends. Everything else (running, runnable, syscall, sleep, IO wait, GC ...) is a
// goroutine that makes progress by itself once it gets CPU time.
var c15BlockedStates = map[string]bool{
	"chan receive": true, "chan send": true, "select": true, "select (no cases)": true,
	"chan receive (nil chan)": true, "chan send (nil chan)": true,
	"semacquire": true, "sync.Mutex.Lock": true, "sync.RWMutex.RLock": true, "sync.RWMutex.Lock": true,
	"sync.Cond.Wait": true, "sync.WaitGroup.Wait": true,
}

// c15AllBlocked parses a goroutine dump (runtime.Stack(all) or the SIGQUIT traceback) and reports
// whether every goroutine selected by involved (given its stack text) is in a blocked state, and
// there is at least one. states lists "id:state" of the selected goroutines, sorted by appearance.
func c15AllBlocked(dump string, involved func(stack string) bool) (bool, string) {
	var states []string
	all := true
	for _, block := range strings.Split(dump, "\n\n") {
		block = strings.TrimSpace(block)
		if !strings.HasPrefix(block, "goroutine ") || strings.HasPrefix(block, "goroutine 0 ") { // 0 = scheduler stack of a thread
			continue
		}
		head, _, _ := strings.Cut(block, "\n")
		open, close := strings.Index(head, "["), strings.LastIndex(head, "]")
		if open < 0 || close < open {
			continue
		}
		if !involved(block) {
			continue
		}
		state, _, _ := strings.Cut(head[open+1:close], ",")
		state = strings.TrimSuffix(strings.TrimSpace(state), " (scan)")
		states = append(states, strings.TrimSpace(strings.TrimPrefix(head[:open], "goroutine "))+":"+state)
		if !c15BlockedStates[state] {
			all = false
		}
	}
	return all && len(states) > 0, strings.Join(states, " ")
}

// c15SessionGoroutine selects the goroutines of a trace session: the consumers (c15Run, c15RunRows
// and the library frames under them), the readPages producers, and the session's coordinator; not
// the goroutine taking the dump.
func c15SessionGoroutine(stack string) bool {
	if strings.Contains(stack, "runtime.Stack(") || strings.Contains(stack, "props.c15Await") {
		return false
	}
	return strings.Contains(stack, "parquet-go.") || strings.Contains(stack, "props.c15Run") || strings.Contains(stack, "props.c15Session")
}

// c15Await waits for done. It returns "done"; or "deadlock" with the goroutine dump once three
// consecutive dumps, taken seconds apart, show the same selected goroutines all blocked (which, the
// selection being closed under "who could wake whom", is a state that lasts forever whatever the
// speed of the machine); or "unfinished" when the cap expires while some goroutine can still run.
func c15Await(done <-chan struct{}, limit time.Duration, involved func(string) bool) (string, string) {
	start := time.Now()
	prev, same := "", 0
	buf := make([]byte, 1<<20)
	for {
		wait := 5 * time.Second
		if same > 0 {
			wait = 2 * time.Second
		}
		select {
		case <-done:
			return "done", ""
		case <-time.After(wait):
		}
		for {
			n := runtime.Stack(buf, true)
			if n < len(buf) {
				buf = buf[:n]
				break
			}
			buf = make([]byte, 2*len(buf))
		}
		dump := string(buf)
		buf = buf[:cap(buf)]
		stuck, states := c15AllBlocked(dump, involved)
		if stuck && states == prev {
			same++
		} else if stuck {
			prev, same = states, 1
		} else {
			prev, same = "", 0
		}
		if same >= 3 {
			select {
			case <-done:
				return "done", ""
			default:
			}
			if len(dump) > 60000 {
				dump = dump[:60000]
			}
			return "deadlock", dump
		}
		if time.Since(start) > limit {
			if len(dump) > 60000 {
				dump = dump[:60000]
			}
			return "unfinished", dump
		}
	}
}
