package props

// C13/rowsrefine: the hypotheses of the refinement theorems RowsBuf -> RowsState
// (lean/PqModel/Props/C13RowsRefine.lean) on the files the real writer produces.
//
// The theorems (every operation of the buffer-level mirror of rowGroupRows is an operation of the
// abstract mirror; returned rows are aligned and there are min(n, total-rowIndex) of them) assume a
// well-formed file (WfFile: consecutive page row ranges from 0, every row starts at repetition level 0,
// every column the same number of rows) and seeks inside the row group. This sub-check takes the
// generator of C13/rowsbuf (same shapes, page sizes, corrupted pages, histories), recovers the page
// layout of each file through the real page reader and asks the driver op c13.rowsrefine for
//   - wf: the Lean checker wfFileB (proved sound) on that layout            -> must be 1 (L2)
//   - total: the number of rows the checker derives                          -> must be the rows written (L2)
//   - ops: the history is inside the domain (recorded; c.N+2 seeks are not)
//   - aligned: the evaluator of the conclusion over the mirror's run         -> must be 1 when wf and ops are
// and checks the one consequence of the theorem the L1 oracle of rowsbuf does not look at on the REAL
// reader: a ReadRows(n) that returns rows returns exactly min(n, total - rowIndex) of them (L1).

import (
	"fmt"
	"runtime"
	"strings"
	"sync"

	"github.com/parquet-go/parquet-go"

	"verifharness/core"
)

func init() { RegisterSub("C13", "rowsrefine", RunC13RowsRefine) }

const c13RowsRefineRule = "rowsrefine: one case = a rowsbuf case (shape, rows, page buffer size, page version, value buffer size, corrupted pages, history), distinct by that text; non-trivial = the history is inside the domain of the theorem (no seek behind the end), a page is corrupted, some call fails and a later call returns rows"

func RunC13RowsRefine(ctx *core.Ctx) {
	ctx.SetRule(c13RowsRefineRule)
	total := ctx.Scale(6000, 60000)
	nw := min(runtime.GOMAXPROCS(0), 8)
	var wg sync.WaitGroup
	for w := 0; w < nw; w++ {
		wg.Add(1)
		go func(w int) {
			defer wg.Done()
			r := ctx.Rand(fmt.Sprintf("c13rowsrefine/%d", w))
			d := ctx.Driver()
			if d == nil {
				return
			}
			var reqs []string
			var pend []func(string)
			flush := func() {
				ans, err := d.AskMany(reqs)
				if err != nil {
					ctx.Fail("L2", "driver-error", err.Error(), nil)
				}
				for i, a := range ans {
					pend[i](a)
				}
				reqs, pend = reqs[:0], pend[:0]
			}
			for i := 0; i < total/nw; {
				c := c13RbGen(r)
				chunks := make([]int, 0, c.N)
				for s := 0; s < c.N; s += c.Chunk {
					chunks = append(chunks, c.Chunk)
				}
				data, err := c13RbWrite(c.Shape, c.N, c.Mod, chunks, []parquet.WriterOption{parquet.PageBufferSize(c.PBS), parquet.DataPageVersion(c.Version)})
				if err != nil {
					ctx.Fail("L1", "rowsrefine-write-fails", err.Error(), map[string]any{"case": c})
					i++
					continue
				}
				lay, err := c13RbLayoutOf(data, c.N)
				if err != nil {
					ctx.Fail("L1", "rowsrefine-pristine-file-unreadable", err.Error(), map[string]any{"case": c})
					i++
					continue
				}
				for rep := 0; rep < 4; rep++ {
					i++
					c.Bad = nil
					bad := append([]byte(nil), data...)
					for k, nb := 0, []int{0, 1, 1, 1, 2, 2}[r.Intn(6)]; k < nb; k++ {
						col := r.Intn(len(lay.pages))
						ord := r.Intn(len(lay.pages[col]))
						p := lay.located[col][ord]
						dup := false
						for _, b := range c.Bad {
							dup = dup || (b[0] == col && b[1] == ord)
						}
						if p.CRC == 0 || p.BodyLen == 0 || dup {
							continue
						}
						bit := r.Intn(p.BodyLen * 8)
						bad[p.BodyOff+int64(bit/8)] ^= 1 << (bit % 8)
						c.Bad = append(c.Bad, [2]int{col, ord})
					}
					c.Ops = c13RbGenOps(r, c, lay)
					cols := make([]string, len(lay.pages))
					npages := 0
					for col, pgs := range lay.pages {
						ps := make([]string, len(pgs))
						for ord, lv := range pgs {
							t := "g"
							for _, b := range c.Bad {
								if b[0] == col && b[1] == ord {
									t = "b"
								}
							}
							ps[ord] = t + lv
						}
						npages += len(pgs)
						cols[col] = strings.Join(ps, ",")
					}
					fileDesc := strings.Join(cols, "/")
					detail := map[string]any{"case": c, "file": fileDesc, "canon": c.canon()}
					res, perr, panicked := c13Guard(func() (any, error) {
						out, _, err := c13RbReal(bad, c, lay)
						return out, err
					})
					if panicked != "" || perr != nil {
						// reported by C13/rowsbuf; nothing to compare here
						ctx.Hist("rowsrefine.real", "unusable")
						continue
					}
					out := res.([]string)
					// L1, from the statement: rows returned = min(n, total - rowIndex before the call)
					inDomain, failed, rowsAfterFailure := true, false, false
					pos := 0
					for k, op := range c.Ops {
						var n int
						fmt.Sscanf(op[1:], "%d", &n)
						ans, st, _ := strings.Cut(out[k], "|")
						switch op[0] {
						case 's':
							if n > c.N {
								inDomain = false
							}
						case 'r':
							if strings.HasPrefix(ans, "F") {
								failed = true
							}
							if strings.HasPrefix(ans, "R") && inDomain {
								var cnt int
								fmt.Sscanf(ans[1:], "%d", &cnt)
								if want := min(n, max(c.N-pos, 0)); cnt != want {
									detail["real"] = out
									ctx.Fail("L1", "rowsrefine-row-count", fmt.Sprintf("call %d (%s) at row %d of %d returned %d rows, the theorem says %d", k, op, pos, c.N, cnt, want), detail)
								}
								if failed && cnt > 0 {
									rowsAfterFailure = true
								}
							}
						}
						var ri, e int
						if _, err := fmt.Sscanf(st, "i%de%d", &ri, &e); err == nil {
							pos = max(ri, 0)
						}
					}
					ctx.Case("rowsrefine "+c.canon(), inDomain && len(c.Bad) > 0 && failed && rowsAfterFailure)
					ctx.Hist("rowsrefine.shape", c.Shape)
					ctx.Hist("rowsrefine.pages", c13LenBucket(npages))
					ctx.Hist("rowsrefine.bad_pages", fmt.Sprint(len(c.Bad)))
					ctx.Hist("rowsrefine.in_domain", fmt.Sprint(inDomain))
					if w == 0 && i < 6 {
						ctx.Sample(map[string]any{"rowsrefine": c.canon(), "file": fileDesc})
					}
					req := fmt.Sprintf("c13.rowsrefine %d %s %s", c.ValBuf, fileDesc, strings.Join(c.Ops, ","))
					reqs = append(reqs, req)
					wantN, dom := c.N, inDomain
					pend = append(pend, func(ans string) {
						detail["request"], detail["lean"] = req, ans
						var t, wf, ops, al int
						if _, err := fmt.Sscanf(ans, "ok total=%d wf=%d ops=%d aligned=%d", &t, &wf, &ops, &al); err != nil {
							ctx.Fail("L2", "rowsrefine-answer-shape", "unexpected answer of c13.rowsrefine", detail)
							return
						}
						ctx.Hist("rowsrefine.hypotheses", fmt.Sprintf("wf=%d ops=%d", wf, ops))
						switch {
						case wf != 1:
							ctx.Fail("L2", "rowsrefine-layout-not-wellformed", "the page layout of a file written by the library (as the real page reader shows it) does not satisfy WfFile, the hypothesis of the refinement theorems", detail)
						case t != wantN:
							ctx.Fail("L2", "rowsrefine-total-differs", fmt.Sprintf("the checker derives %d rows, the file has %d", t, wantN), detail)
						case (ops == 1) != dom:
							ctx.Fail("L2", "rowsrefine-domain-differs", "harness and Lean disagree on whether the history stays inside the row group", detail)
						case ops == 1 && al != 1:
							ctx.Fail("L2", "rowsrefine-mirror-run-not-aligned", "the run of the mirror is not aligned although the hypotheses of accepted_runs_are_aligned hold", detail)
						}
					})
				}
				if len(reqs) >= 600 {
					flush()
				}
			}
			flush()
		}(w)
	}
	wg.Wait()
}
