package props

import (
	"encoding/hex"
	"bytes"
	"encoding/json"
	"os"
	"runtime"
	"fmt"
	"io"
	"math"
	"math/rand"
	"sort"
	"strings"
	"sync"
	"sync/atomic"
	"time"

	"github.com/parquet-go/parquet-go"
	"github.com/parquet-go/parquet-go/format"

	"verifharness/core"
	"verifharness/gen"
)

func init() { RegisterSub("C10", "sort", RunC10) }

// ---------------------------------------------------------------- schemas (static types: the
// generic buffers and the sorting writer need a type parameter)

type c10A struct {
	K  int32  `parquet:"k"`
	P  *int32 `parquet:"p,optional"`
	O  int64  `parquet:"o,optional"` // zero value = null: the typed path writes null / non-null *runs*
	S  string `parquet:"s,optional"` // "" = null
	ID int64  `parquet:"id"`
}

type c10G struct {
	X *int32 `parquet:"x,optional"`
	Y int32  `parquet:"y"`
}

type c10B struct {
	G  *c10G   `parquet:"g,optional"`
	L  []int32 `parquet:"l"`
	T  string  `parquet:"t"`
	ID int64   `parquet:"id"`
}

type c10C struct {
	U  uint32   `parquet:"u"`
	F  *float64 `parquet:"f,optional"`
	B  bool     `parquet:"b"`
	Y  []byte   `parquet:"y,optional"`
	W  []string `parquet:"w"`
	ID int64    `parquet:"id"`
}

// repeated columns BEFORE the required key columns: a comparator that indexes rows by column
// index (instead of scanning for the column) reads a list element in place of the key
type c10D struct {
	L  []int32  `parquet:"l"`
	W  []string `parquet:"w"`
	K  int32    `parquet:"k"`
	S  string   `parquet:"s"`
	U  uint32   `parquet:"u"`
	P  *int32   `parquet:"p,optional"`
	ID int64    `parquet:"id"`
	X  [4]byte  `parquet:"x"` // FIXED_LEN_BYTE_ARRAY(4)
}

// deeper nesting: required and optional leaves below two optional groups, below a repeated
// group and below a required group (the leaf's own repetition type differs from what its
// inherited levels say)
type c10H struct {
	Z int32  `parquet:"z"`
	Q *int32 `parquet:"q,optional"`
}

type c10GG struct {
	H *c10H `parquet:"h,optional"`
	V int32 `parquet:"v"`
}

type c10N struct {
	A int32  `parquet:"a"`
	B *int32 `parquet:"b,optional"`
}

type c10E struct {
	GG *c10GG `parquet:"gg,optional"` // gg.h.z required, max definition level 2; gg.h.q 3; gg.v 1
	R  []c10G `parquet:"r"`           // repeated group: r.x (rep 1, def 2), r.y required (rep 1, def 1)
	N  c10N   `parquet:"n"`           // required group: n.a required (def 0), n.b optional (def 1)
	ID int64  `parquet:"id"`
}

// one optional column, for the L2 histories against the OptCol mirror
type c10One struct {
	A int64 `parquet:"a,optional"`
}

// … and the same column as a required / optional leaf of an optional group (null at levels below
// the maximum)
type c10NestG1 struct {
	A int64 `parquet:"a"`
}

type c10Nest1 struct {
	G *c10NestG1 `parquet:"g,optional"` // g.a: required leaf, max definition level 1
}

type c10NestG2 struct {
	A *int64 `parquet:"a,optional"`
}

type c10Nest2 struct {
	G *c10NestG2 `parquet:"g,optional"` // g.a: max definition level 2, null at levels 0 and 1
}

// ---------------------------------------------------------------- declarations and the oracle comparator

type c10Sort struct {
	Path       []string `json:"path"`
	Desc       bool     `json:"desc"`
	NullsFirst bool     `json:"nulls_first"`
}

func (s c10Sort) column() parquet.SortingColumn {
	var c parquet.SortingColumn
	if s.Desc {
		c = parquet.Descending(s.Path...)
	} else {
		c = parquet.Ascending(s.Path...)
	}
	if s.NullsFirst {
		c = parquet.NullsFirst(c)
	}
	return c
}

func (s c10Sort) String() string {
	d, n := "asc", "nl"
	if s.Desc {
		d = "desc"
	}
	if s.NullsFirst {
		n = "nf"
	}
	return strings.Join(s.Path, ".") + ":" + d + ":" + n
}

// a sorting column resolved against the schema
type c10Key struct {
	c10Sort
	leaf     int
	maxDef   int
	maxRep   int
	kind     parquet.Kind
	unsigned bool
}

func (k c10Key) colKind() string {
	switch {
	case k.maxRep > 0:
		return "repeated"
	case k.maxDef > 0:
		return "optional"
	}
	return "required"
}

func c10Resolve(schema *parquet.Schema, sorting []c10Sort) []c10Key {
	var keys []c10Key
	for _, s := range sorting {
		leaf, ok := schema.Lookup(s.Path...)
		if !ok {
			panic("c10: no such column " + s.String())
		}
		t := leaf.Node.Type()
		k := c10Key{c10Sort: s, leaf: leaf.ColumnIndex, maxDef: leaf.MaxDefinitionLevel, maxRep: leaf.MaxRepetitionLevel, kind: t.Kind()}
		if lt := t.LogicalType(); lt != nil {
			if it, ok := lt.Value.(*format.IntType); ok && !it.IsSigned {
				k.unsigned = true
			}
		}
		keys = append(keys, k)
	}
	return keys
}

func sign(x int) int {
	switch {
	case x < 0:
		return -1
	case x > 0:
		return 1
	}
	return 0
}

// value order of the physical/logical type (written from the format's sort orders)
func c10CmpValue(k c10Key, a, b parquet.Value) int {
	switch k.kind {
	case parquet.Boolean:
		x, y := a.Boolean(), b.Boolean()
		switch {
		case !x && y:
			return -1
		case x && !y:
			return 1
		}
		return 0
	case parquet.Int32:
		if k.unsigned {
			x, y := uint32(a.Int32()), uint32(b.Int32())
			switch {
			case x < y:
				return -1
			case x > y:
				return 1
			}
			return 0
		}
		x, y := a.Int32(), b.Int32()
		switch {
		case x < y:
			return -1
		case x > y:
			return 1
		}
		return 0
	case parquet.Int64:
		if k.unsigned {
			x, y := uint64(a.Int64()), uint64(b.Int64())
			switch {
			case x < y:
				return -1
			case x > y:
				return 1
			}
			return 0
		}
		x, y := a.Int64(), b.Int64()
		switch {
		case x < y:
			return -1
		case x > y:
			return 1
		}
		return 0
	case parquet.Float:
		x, y := a.Float(), b.Float()
		switch {
		case x < y:
			return -1
		case x > y:
			return 1
		}
		return 0
	case parquet.Double:
		x, y := a.Double(), b.Double()
		switch {
		case x < y:
			return -1
		case x > y:
			return 1
		}
		return 0
	default:
		return bytes.Compare(a.ByteArray(), b.ByteArray())
	}
}

func c10ColumnValues(row parquet.Row, leaf int) []parquet.Value {
	var out []parquet.Value
	for _, v := range row {
		if v.Column() == leaf {
			out = append(out, v)
		}
	}
	return out
}

// one cell comparison: direction applies to values, null placement is as declared
func c10CmpCell(k c10Key, a, b parquet.Value) int {
	an, bn := a.IsNull(), b.IsNull()
	switch {
	case an && bn:
		return 0
	case an:
		if k.NullsFirst {
			return -1
		}
		return 1
	case bn:
		if k.NullsFirst {
			return 1
		}
		return -1
	}
	c := c10CmpValue(k, a, b)
	if k.Desc {
		c = -c
	}
	return c
}

// The oracle comparator, from the declaration: sorting columns in order; a repeated column
// compares element by element, a proper prefix sorts first. Returns the sign and the index of the
// deciding sorting column (-1 if equal) and whether the decision was null-vs-value.
func c10Compare(keys []c10Key, r1, r2 parquet.Row) (cmp, decidedBy int, nullVsValue bool) {
	for ki, k := range keys {
		v1, v2 := c10ColumnValues(r1, k.leaf), c10ColumnValues(r2, k.leaf)
		for i := 0; i < len(v1) && i < len(v2); i++ {
			if c := c10CmpCell(k, v1[i], v2[i]); c != 0 {
				return c, ki, v1[i].IsNull() != v2[i].IsNull()
			}
		}
		if len(v1) != len(v2) {
			return sign(len(v1) - len(v2)), ki, false
		}
	}
	return 0, -1, false
}

func c10Canon(row parquet.Row) string {
	var sb strings.Builder
	for _, v := range row {
		if v.IsNull() {
			fmt.Fprintf(&sb, "%d/%d/%d/n ", v.Column(), v.RepetitionLevel(), v.DefinitionLevel())
		} else {
			fmt.Fprintf(&sb, "%d/%d/%d/%s ", v.Column(), v.RepetitionLevel(), v.DefinitionLevel(), gen.ValueKey(v))
		}
	}
	return sb.String()
}

func c10KeyCanon(keys []c10Key, row parquet.Row) string {
	var sb strings.Builder
	for _, k := range keys {
		for _, v := range c10ColumnValues(row, k.leaf) {
			if v.IsNull() {
				sb.WriteString("n,")
			} else {
				sb.WriteString(gen.ValueKey(v) + ",")
			}
		}
		sb.WriteString("|")
	}
	return sb.String()
}

// ---------------------------------------------------------------- running the real code

type c10Case struct {
	Type      string    `json:"type"`
	Container string    `json:"container"` // gbuf | gbuf-rows | buffer | rowbuf | sortw
	Sorting   []c10Sort `json:"sorting"`
	Batches   []int     `json:"batches"`
	SortRun   int       `json:"sort_run_rows,omitempty"`
	Flushes   []int     `json:"flush_after_batches,omitempty"` // sorting writer: Flush() after these Write calls (0-based)
	Dedupe    bool      `json:"drop_duplicated_rows,omitempty"`
	Extra     int       `json:"rows_written_after_first_sort"` // -1: single phase
	Rows      []string  `json:"rows,omitempty"`                // canonical rows (Deconstruct), informational
	Input     json.RawMessage `json:"input_rows,omitempty"`      // the Go rows written (JSON of []T): replayable
	InputMore json.RawMessage `json:"input_rows_after_first_sort,omitempty"`
	Kernel    *c10KernelCase  `json:"kernel,omitempty"`          // corpus only: one kernel call
}

type c10KernelCase struct {
	Base int32 `json:"base"`
	Len  int   `json:"len"`
}

type c10Phase struct {
	out      []parquet.Row
	panicked string
	err      string
	rowIndex string // "" ok; otherwise which optional column's row index broke its invariant before the sort
	meta     [][]string
}

type c10Result struct {
	phases     []c10Phase // one or two
	declared   []string   // SortingColumns() of the container
	comparator func(parquet.Row, parquet.Row) (int, string) // Schema.Comparator under recover: result, panic text
}

func c10ReadAll(rg parquet.RowGroup) (out []parquet.Row, err error) {
	rows := rg.Rows()
	defer rows.Close()
	buf := make([]parquet.Row, 37)
	for {
		n, err := rows.ReadRows(buf)
		for _, r := range buf[:n] {
			out = append(out, r.Clone())
		}
		if err == io.EOF {
			return out, nil
		}
		if err != nil {
			return out, err
		}
		if n == 0 {
			return out, fmt.Errorf("ReadRows returned 0 rows and no error")
		}
	}
}

// invariant of the optional buffers' row index (hook): non-negative entries are a permutation of
// 0..#values-1 and a row is non-null iff its definition level is the maximum
func c10RowIndexState(cols []parquet.ColumnBuffer, schema *parquet.Schema) string {
	leaves := schema.Columns()
	for ci, col := range cols {
		rows, defs, ok := parquet.VerifOptionalRows(col)
		if !ok {
			continue
		}
		leaf, _ := schema.Lookup(leaves[ci]...)
		seen := map[int32]bool{}
		nn := 0
		for i, r := range rows {
			if (r >= 0) != (int(defs[i]) == leaf.MaxDefinitionLevel) {
				return fmt.Sprintf("column %d row %d: index %d with definition level %d", ci, i, r, defs[i])
			}
			if r >= 0 {
				nn++
				if seen[r] {
					return fmt.Sprintf("column %d: index %d twice", ci, r)
				}
				seen[r] = true
			}
		}
		for r := range seen {
			if int(r) >= nn {
				return fmt.Sprintf("column %d: index %d with %d values", ci, r, nn)
			}
		}
	}
	return ""
}

func c10SortingText(cols []parquet.SortingColumn) []string {
	var out []string
	for _, c := range cols {
		out = append(out, c10Sort{Path: c.Path(), Desc: c.Descending(), NullsFirst: c.NullsFirst()}.String())
	}
	return out
}

type c10Sorter interface {
	sort.Interface
	parquet.RowGroup
}

// States whose row index is already corrupt can make Page() spin forever (its cyclic reorder only
// terminates on a permutation). A few of them are executed, in a goroutine with a deadline, to
// observe the symptom; the rest are reported without being run.
var c10Danger atomic.Int32

func c10WithDeadline(f func()) (hung bool) {
	done := make(chan struct{})
	go func() {
		defer close(done)
		f()
	}()
	select {
	case <-done:
		return false
	case <-time.After(3 * time.Second):
		return true
	}
}

// sortAndRead runs one phase on a buffer: sort.Sort, then read every row
func c10SortAndRead(buf c10Sorter, cols func() []parquet.ColumnBuffer) c10Phase {
	rowIndex := ""
	if cols != nil {
		rowIndex = c10RowIndexState(cols(), buf.Schema())
	}
	body := func(ph *c10Phase) {
		defer func() {
			if r := recover(); r != nil {
				ph.panicked = fmt.Sprint(r)
			}
		}()
		sort.Sort(buf)
		out, err := c10ReadAll(buf)
		ph.out = out
		if err != nil {
			ph.err = err.Error()
		}
	}
	if rowIndex == "" {
		ph := c10Phase{}
		body(&ph)
		return ph
	}
	if c10Danger.Add(1) > 4 {
		return c10Phase{rowIndex: rowIndex, panicked: "not executed: the row index is already corrupt (" + rowIndex + "); sorting such a buffer panics, hangs or misorders"}
	}
	ph := &c10Phase{rowIndex: rowIndex}
	if c10WithDeadline(func() { body(ph) }) {
		return c10Phase{rowIndex: rowIndex, panicked: "HANG: sort.Sort + read did not return within 3s"}
	}
	return *ph
}

// c10Lender hands rows to the []Row entry points the way a streaming producer does: the Value
// slices and the bytes of BYTE_ARRAY / FIXED_LEN_BYTE_ARRAY values live in memory that is REUSED
// for the next batch and overwritten ('#' bytes, zero Values) as soon as the call has returned.
// The library must have copied whatever it keeps.
type c10Lender struct {
	arena  []byte
	values []parquet.Value
}

func (l *c10Lender) lend(rows []parquet.Row) []parquet.Row {
	nb, nv := 0, 0
	for _, r := range rows {
		nv += len(r)
		for _, v := range r {
			if !v.IsNull() && (v.Kind() == parquet.ByteArray || v.Kind() == parquet.FixedLenByteArray) {
				nb += len(v.ByteArray())
			}
		}
	}
	if cap(l.arena) < nb {
		l.arena = make([]byte, nb)
	}
	if cap(l.values) < nv {
		l.values = make([]parquet.Value, nv)
	}
	l.arena, l.values = l.arena[:nb], l.values[:nv]
	out := make([]parquet.Row, len(rows))
	ab, av := 0, 0
	for i, r := range rows {
		row := l.values[av : av+len(r) : av+len(r)]
		av += len(r)
		for j, v := range r {
			if !v.IsNull() && (v.Kind() == parquet.ByteArray || v.Kind() == parquet.FixedLenByteArray) {
				b := l.arena[ab : ab+len(v.ByteArray()) : ab+len(v.ByteArray())]
				ab += copy(b, v.ByteArray())
				if v.Kind() == parquet.ByteArray {
					row[j] = parquet.ByteArrayValue(b).Level(v.RepetitionLevel(), v.DefinitionLevel(), v.Column())
				} else {
					row[j] = parquet.FixedLenByteArrayValue(b).Level(v.RepetitionLevel(), v.DefinitionLevel(), v.Column())
				}
			} else {
				row[j] = v
			}
		}
		out[i] = row
	}
	return out
}

// reclaim overwrites everything that was lent
func (l *c10Lender) reclaim() {
	for i := range l.arena {
		l.arena[i] = '#'
	}
	for i := range l.values {
		l.values[i] = parquet.Value{}
	}
}

func c10Run[T any](cs *c10Case, rows []T, extra []T) (res c10Result, in1, in2 []parquet.Row) {
	schema := parquet.SchemaOf(new(T))
	var scols []parquet.SortingColumn
	for _, s := range cs.Sorting {
		scols = append(scols, s.column())
	}
	res.comparator = func() (cmp func(parquet.Row, parquet.Row) (int, string)) {
		defer func() {
			if r := recover(); r != nil {
				msg := fmt.Sprintf("Schema.Comparator(...) panicked: %v", r)
				cmp = func(parquet.Row, parquet.Row) (int, string) { return 0, msg }
			}
		}()
		lib := schema.Comparator(scols...)
		return func(a, b parquet.Row) (c int, panicked string) {
			defer func() {
				if r := recover(); r != nil {
					panicked = fmt.Sprint(r)
				}
			}()
			return lib(a, b), ""
		}
	}()
	for i := range rows {
		in1 = append(in1, schema.Deconstruct(nil, &rows[i]))
	}
	for i := range extra {
		in2 = append(in2, schema.Deconstruct(nil, &extra[i]))
	}
	sorting := parquet.SortingRowGroupConfig(parquet.SortingColumns(scols...))
	var afterBatch func(k int) error // called after the k-th write call (sorting writer: explicit Flush)
	batched := func(n int, write func(i, j int) error) (err error) {
		defer func() {
			if r := recover(); r != nil {
				err = fmt.Errorf("PANIC in write: %v", r)
			}
		}()
		i := 0
		for k, b := range cs.Batches {
			if i >= n {
				break
			}
			j := min(i+max(b, 1), n)
			if err := write(i, j); err != nil {
				return err
			}
			i = j
			if afterBatch != nil {
				if err := afterBatch(k); err != nil {
					return err
				}
			}
		}
		if i < n {
			return write(i, n)
		}
		return nil
	}
	twoPhase := func(buf c10Sorter, cols func() []parquet.ColumnBuffer, write1 func(i, j int) error, write2 func() error) {
		if err := batched(len(rows), write1); err != nil {
			res.phases = append(res.phases, c10Phase{err: err.Error()})
			return
		}
		res.phases = append(res.phases, c10SortAndRead(buf, cols))
		if cs.Extra < 0 || res.phases[0].panicked != "" || res.phases[0].err != "" {
			return
		}
		if err := func() (err error) {
			defer func() {
				if r := recover(); r != nil {
					err = fmt.Errorf("PANIC in write: %v", r)
				}
			}()
			return write2()
		}(); err != nil {
			res.phases = append(res.phases, c10Phase{err: err.Error()})
			return
		}
		res.phases = append(res.phases, c10SortAndRead(buf, cols))
	}
	switch cs.Container {
	case "gbuf":
		buf := parquet.NewGenericBuffer[T](sorting)
		res.declared = c10SortingText(buf.SortingColumns())
		twoPhase(buf, buf.ColumnBuffers,
			func(i, j int) error { _, err := buf.Write(rows[i:j]); return err },
			func() error { _, err := buf.Write(extra); return err })
	case "gbuf-rows":
		buf := parquet.NewGenericBuffer[T](sorting)
		res.declared = c10SortingText(buf.SortingColumns())
		var l c10Lender
		twoPhase(buf, buf.ColumnBuffers,
			func(i, j int) error { defer l.reclaim(); _, err := buf.WriteRows(l.lend(in1[i:j])); return err },
			func() error { defer l.reclaim(); _, err := buf.WriteRows(l.lend(in2)); return err })
	case "buffer-rows":
		buf := parquet.NewBuffer(schema, sorting)
		res.declared = c10SortingText(buf.SortingColumns())
		var l c10Lender
		twoPhase(buf, buf.ColumnBuffers,
			func(i, j int) error { defer l.reclaim(); _, err := buf.WriteRows(l.lend(in1[i:j])); return err },
			func() error { defer l.reclaim(); _, err := buf.WriteRows(l.lend(in2)); return err })
	case "rowbuf-rows":
		buf := parquet.NewRowBuffer[T](sorting)
		res.declared = c10SortingText(buf.SortingColumns())
		var l c10Lender
		twoPhase(buf, nil,
			func(i, j int) error { defer l.reclaim(); _, err := buf.WriteRows(l.lend(in1[i:j])); return err },
			func() error { defer l.reclaim(); _, err := buf.WriteRows(l.lend(in2)); return err })
	case "buffer":
		buf := parquet.NewBuffer(schema, sorting)
		res.declared = c10SortingText(buf.SortingColumns())
		twoPhase(buf, buf.ColumnBuffers,
			func(i, j int) error {
				for k := i; k < j; k++ {
					if err := buf.Write(&rows[k]); err != nil {
						return err
					}
				}
				return nil
			},
			func() error {
				for k := range extra {
					if err := buf.Write(&extra[k]); err != nil {
						return err
					}
				}
				return nil
			})
	case "rowbuf":
		buf := parquet.NewRowBuffer[T](sorting)
		res.declared = c10SortingText(buf.SortingColumns())
		twoPhase(buf, nil,
			func(i, j int) error { _, err := buf.Write(rows[i:j]); return err },
			func() error { _, err := buf.Write(extra); return err })
	case "sortw", "sortw-rows":
		var ph c10Phase
		var l c10Lender
		func() {
			defer func() {
				if r := recover(); r != nil {
					ph.panicked = fmt.Sprint(r)
				}
			}()
			out := new(bytes.Buffer)
			w := parquet.NewSortingWriter[T](out, int64(cs.SortRun),
				parquet.SortingWriterConfig(parquet.SortingColumns(scols...), parquet.DropDuplicatedRows(cs.Dedupe)))
			afterBatch = func(k int) error {
				for _, f := range cs.Flushes {
					if f == k {
						if err := w.Flush(); err != nil {
							return fmt.Errorf("flush: %w", err)
						}
					}
				}
				return nil
			}
			if err := batched(len(rows), func(i, j int) error {
				if cs.Container == "sortw-rows" {
					defer l.reclaim()
					_, err := w.WriteRows(l.lend(in1[i:j]))
					return err
				}
				_, err := w.Write(rows[i:j])
				return err
			}); err != nil {
				ph.err = err.Error()
				return
			}
			if err := w.Close(); err != nil {
				ph.err = "close: " + err.Error()
				return
			}
			f, err := parquet.OpenFile(bytes.NewReader(out.Bytes()), int64(out.Len()))
			if err != nil {
				ph.err = "open: " + err.Error()
				return
			}
			leaves := f.Schema().Columns()
			for gi, rg := range f.RowGroups() {
				rs, err := c10ReadAll(rg)
				ph.out = append(ph.out, rs...)
				if err != nil {
					ph.err = "read: " + err.Error()
					return
				}
				var m []string
				for _, sc := range f.Metadata().RowGroups[gi].SortingColumns {
					p := []string{"?"}
					if int(sc.ColumnIdx) < len(leaves) {
						p = leaves[sc.ColumnIdx]
					}
					m = append(m, c10Sort{Path: p, Desc: sc.Descending, NullsFirst: sc.NullsFirst}.String())
				}
				ph.meta = append(ph.meta, m)
			}
		}()
		for _, s := range cs.Sorting {
			res.declared = append(res.declared, s.String())
		}
		res.phases = append(res.phases, ph)
	}
	return res, in1, in2
}

// ---------------------------------------------------------------- the L1 oracle

var c10KernelBad atomic.Bool // the range kernel failed its own L1 check in this build

func c10Check(ctx *core.Ctx, cs *c10Case, schema *parquet.Schema, res c10Result, in1, in2 []parquet.Row) {
	keys := c10Resolve(schema, cs.Sorting)
	hasRep, hasNullable := false, false
	for _, k := range keys {
		hasRep = hasRep || k.maxRep > 0
		hasNullable = hasNullable || k.maxDef > 0
	}
	detail := func(more map[string]any) map[string]any {
		m := map[string]any{"case": cs, "variant": ctx.Variant}
		for k, v := range more {
			m[k] = v
		}
		return m
	}
	// the declaration is what the container reports
	var decl []string
	for _, s := range cs.Sorting {
		decl = append(decl, s.String())
	}
	if strings.Join(decl, " ") != strings.Join(res.declared, " ") {
		ctx.Fail("L1", "sorting-columns-not-reported "+cs.Container, "SortingColumns() differs from the declaration",
			detail(map[string]any{"reported": res.declared}))
	}
	in := in1
	for pi, ph := range res.phases {
		phase := "first-sort"
		if pi == 1 {
			phase = "resort-after-read"
			in = append(append([]parquet.Row(nil), in1...), in2...)
		}
		attributed := func(symptom string) string {
			// symptoms of a broken row index in the assembly build are attributed to the range kernel
			if ph.rowIndex != "" && pi == 0 {
				if c10KernelBad.Load() {
					return "broadcast-range-avx2-tail"
				}
				return "row-index-broken-after-write " + cs.Container
			}
			if pi == 1 {
				if ph.rowIndex != "" {
					return "resort-after-read row-index-broken-by-page"
				}
				return "resort-after-read " + symptom
			}
			return symptom + " " + cs.Container
		}
		if ph.panicked != "" {
			ctx.Fail("L1", attributed("panic"), phase+": panic: "+ph.panicked, detail(map[string]any{"row_index": ph.rowIndex}))
			return
		}
		if ph.err != "" {
			ctx.Fail("L1", attributed("error"), phase+": error: "+ph.err, detail(nil))
			return
		}
		out := ph.out
		// --- permutation of whole rows (or, with duplicate dropping, one row per key)
		var ic, oc []string
		for _, r := range in {
			ic = append(ic, c10Canon(r))
		}
		for _, r := range out {
			oc = append(oc, c10Canon(r))
		}
		if !cs.Dedupe {
			a, b := append([]string(nil), ic...), append([]string(nil), oc...)
			sort.Strings(a)
			sort.Strings(b)
			if strings.Join(a, "\n") != strings.Join(b, "\n") {
				// every column still holds the cells written, but the rows are no longer intact across
				// their columns: name the columns that are out of step with the rest
				if cols := c10ColumnsOutOfStep(in, out, len(schema.Columns())); cols != nil {
					key := attributed("rows-not-intact")
					what := fmt.Sprintf("%s: every column holds the values written, but the rows are not intact: column(s) %v moved out of step with the other columns", phase, cols)
					if ph.rowIndex == "" && pi == 0 && c10AllEmptyByteArrayColumns(in, cols) && c10ColumnsKeepWrittenOrder(in, out, cols) {
						key = "rows-not-intact-byte-array-column-with-empty-value"
						what += " (BYTE_ARRAY column(s) holding an empty non-null value, whose values are still in the order they were written: the column did not follow the swaps)"
					}
					ctx.Fail("L1", key, what, detail(map[string]any{"out": oc, "columns_out_of_step": cols, "row_index": ph.rowIndex}))
					return
				}
				ctx.Fail("L1", attributed("not-a-permutation"), phase+": rows out are not a permutation of rows in (whole rows)",
					detail(map[string]any{"out": oc, "row_index": ph.rowIndex}))
				return
			}
		} else {
			inSet, inKeys, outKeys := map[string]int{}, map[string]bool{}, map[string]int{}
			for i, r := range in {
				inSet[ic[i]]++
				inKeys[c10KeyCanon(keys, r)] = true
			}
			bad := ""
			for i, r := range out {
				if inSet[oc[i]] == 0 {
					bad = "row out was never written: " + oc[i]
				}
				inSet[oc[i]]--
				k := c10KeyCanon(keys, r)
				outKeys[k]++
				if !inKeys[k] {
					bad = "key out was never written"
				}
			}
			for k, n := range outKeys {
				if n > 1 {
					bad = fmt.Sprintf("%d rows remain for key %s", n, k)
				}
			}
			if len(outKeys) != len(inKeys) {
				bad = fmt.Sprintf("%d keys written, %d keys remain", len(inKeys), len(outKeys))
			}
			if bad != "" {
				ctx.Fail("L1", "dedupe "+cs.Container, phase+": with DropDuplicatedRows: "+bad, detail(map[string]any{"out": oc}))
				return
			}
		}
		// --- ordered as declared
		for i := 0; i+1 < len(out); i++ {
			c, by, nullVsValue := c10Compare(keys, out[i], out[i+1])
			if c > 0 {
				k := keys[by]
				key := attributed("order-violated " + k.colKind())
				if ph.rowIndex == "" {
					switch {
					case k.maxRep > 0 && strings.HasPrefix(cs.Container, "sortw"):
						key = "sorting-writer-merge-repeated-key-bounds" // page bounds of a repeated column do not bound its rows (lists)
					case k.maxRep > 0:
						key = "repeated-sort-key-order"
					case nullVsValue && strings.HasPrefix(cs.Container, "sortw"):
						key = "sorting-writer-merge-ignores-nulls" // F12 (C09): row-group ranges from non-null bounds only
					case nullVsValue && k.Desc:
						key = "descending-nullable-null-order-reversed"
					}
				}
				ctx.Fail("L1", key, fmt.Sprintf("%s: rows %d and %d are out of order on sorting column %s", phase, i, i+1, k.String()),
					detail(map[string]any{"out": oc, "row_i": oc[i], "row_i+1": oc[i+1], "row_index": ph.rowIndex}))
				return
			}
			lc, lp := res.comparator(out[i], out[i+1])
			if lp != "" {
				ctx.Fail("L1", "schema-comparator-panics "+c10KeyKinds(keys), "Schema.Comparator panicked on two rows of the buffer: "+lp,
					detail(map[string]any{"row_a": oc[i], "row_b": oc[i+1]}))
				return
			}
			if lc > 0 {
				ctx.Fail("L1", "order-disagrees-with-schema-comparator "+cs.Container, fmt.Sprintf("%s: Schema.Comparator says rows %d and %d are out of order", phase, i, i+1),
					detail(map[string]any{"out": oc}))
				return
			}
		}
		// --- the file's sorting metadata equals the declaration
		for gi, m := range ph.meta {
			if strings.Join(m, " ") != strings.Join(decl, " ") {
				ctx.Fail("L1", "file-sorting-metadata", fmt.Sprintf("row group %d records sorting columns %v, declared %v", gi, m, decl), detail(nil))
				return
			}
		}
	}
	// --- Schema.Comparator agrees with the declaration (adjacent and random pairs of the input)
	if n := len(in1); n >= 2 {
		r := rand.New(rand.NewSource(int64(n)*7919 + int64(len(cs.Sorting))))
		for t := 0; t < 2*n && t < 200; t++ {
			a, b := in1[r.Intn(n)], in1[r.Intn(n)]
			c, by, _ := c10Compare(keys, a, b)
			lcRaw, lp := res.comparator(a, b)
			if lp != "" {
				ctx.Fail("L1", "schema-comparator-panics "+c10KeyKinds(keys), "Schema.Comparator panicked on two rows written: "+lp,
					detail(map[string]any{"row_a": c10Canon(a), "row_b": c10Canon(b)}))
				break
			}
			if lc := sign(lcRaw); lc != c {
				kk := "equal-keys"
				if by >= 0 {
					kk = keys[by].colKind()
				}
				ctx.Fail("L1", "schema-comparator-disagrees-with-declaration "+kk,
					fmt.Sprintf("Schema.Comparator returns %d, the declared order says %d", lc, c),
					detail(map[string]any{"row_a": c10Canon(a), "row_b": c10Canon(b)}))
				break
			}
		}
	}
	_ = hasRep
	_ = hasNullable
}

// c10CanonWithout is c10Canon over the columns not in skip (nil: all) or, with only >= 0, over
// that column alone.
func c10CanonCols(row parquet.Row, skip map[int]bool, only int) string {
	var sb strings.Builder
	for _, v := range row {
		if skip[v.Column()] || (only >= 0 && v.Column() != only) {
			continue
		}
		if v.IsNull() {
			fmt.Fprintf(&sb, "%d/%d/%d/n ", v.Column(), v.RepetitionLevel(), v.DefinitionLevel())
		} else {
			fmt.Fprintf(&sb, "%d/%d/%d/%s ", v.Column(), v.RepetitionLevel(), v.DefinitionLevel(), gen.ValueKey(v))
		}
	}
	return sb.String()
}

func c10SameMultiset(in, out []parquet.Row, skip map[int]bool, only int) bool {
	if len(in) != len(out) {
		return false
	}
	count := map[string]int{}
	for _, r := range in {
		count[c10CanonCols(r, skip, only)]++
	}
	for _, r := range out {
		k := c10CanonCols(r, skip, only)
		if count[k] == 0 {
			return false
		}
		count[k]--
	}
	return true
}

// c10ColumnsOutOfStep diagnoses rows that are not a permutation of the rows written: if every
// leaf column on its own still holds the multiset of cells (row by row) that was written, it
// returns a smallest-first set of columns whose removal makes the remaining columns a permutation
// of whole rows again (the columns that moved out of step); nil if values were lost or invented.
func c10ColumnsOutOfStep(in, out []parquet.Row, ncols int) []int {
	for c := 0; c < ncols; c++ {
		if !c10SameMultiset(in, out, nil, c) {
			return nil
		}
	}
	// single columns first, then pairs, then give up naming them (all columns reported)
	for c := 0; c < ncols; c++ {
		if c10SameMultiset(in, out, map[int]bool{c: true}, -1) {
			return []int{c}
		}
	}
	for c := 0; c < ncols; c++ {
		for d := c + 1; d < ncols; d++ {
			if c10SameMultiset(in, out, map[int]bool{c: true, d: true}, -1) {
				return []int{c, d}
			}
		}
	}
	all := make([]int, ncols)
	for c := range all {
		all[c] = c
	}
	return all
}

// every one of these columns is a BYTE_ARRAY column in which some row written holds an empty
// non-null value
func c10AllEmptyByteArrayColumns(in []parquet.Row, cols []int) bool {
	for _, c := range cols {
		found := false
		for _, r := range in {
			for _, v := range r {
				if v.Column() == c && !v.IsNull() && v.Kind() == parquet.ByteArray && len(v.ByteArray()) == 0 {
					found = true
				}
			}
		}
		if !found {
			return false
		}
	}
	return len(cols) > 0
}

// the non-null values of each of these columns come out in exactly the order they were written
func c10ColumnsKeepWrittenOrder(in, out []parquet.Row, cols []int) bool {
	seq := func(rows []parquet.Row, c int) string {
		var sb strings.Builder
		for _, r := range rows {
			for _, v := range r {
				if v.Column() == c && !v.IsNull() {
					sb.WriteString(gen.ValueKey(v) + ",")
				}
			}
		}
		return sb.String()
	}
	for _, c := range cols {
		if seq(in, c) != seq(out, c) {
			return false
		}
	}
	return true
}

func c10KeyKinds(keys []c10Key) string {
	seen := map[string]bool{}
	for _, k := range keys {
		seen[k.colKind()] = true
	}
	var ks []string
	for k := range seen {
		ks = append(ks, k)
	}
	sort.Strings(ks)
	return "keys=" + strings.Join(ks, "+")
}

// c10Guard runs one step of the check; a panic anywhere in it (library call or oracle step) is an
// L1 failure carrying the replayable input, never the end of the harness process.
func c10Guard(ctx *core.Ctx, key, what string, detail func() map[string]any, f func()) {
	defer func() {
		if r := recover(); r != nil {
			buf := make([]byte, 4096)
			buf = buf[:runtime.Stack(buf, false)]
			d := map[string]any{}
			if detail != nil {
				d = detail()
			}
			d["panic"] = fmt.Sprint(r)
			d["stack"] = string(buf)
			d["variant"] = ctx.Variant
			ctx.Fail("L1", key, what+": panic: "+fmt.Sprint(r), d)
		}
	}()
	f()
}

// ---------------------------------------------------------------- generators

var c10RunLens = []int{1, 1, 2, 3, 7, 8, 9, 15, 16, 17, 64, 65}

// nullPattern: alternating null / non-null runs with lengths around 8 and 64
func c10NullPattern(r *rand.Rand, n int) []bool {
	out := make([]bool, 0, n)
	null := r.Intn(2) == 0
	mode := r.Intn(4) // 0: boundary runs, 1: coin flips, 2: no nulls, 3: mostly long value runs
	for len(out) < n {
		l := c10RunLens[r.Intn(len(c10RunLens))]
		switch mode {
		case 1:
			l = 1
			null = r.Intn(3) == 0
		case 2:
			null = false
		case 3:
			if null {
				l = 1 + r.Intn(2)
			} else {
				l = []int{9, 10, 12, 15, 17, 23, 33, 65}[r.Intn(8)]
			}
		}
		for i := 0; i < l && len(out) < n; i++ {
			out = append(out, null)
		}
		if mode != 1 {
			null = !null
		}
	}
	return out
}

var c10Ints = []int32{0, 1, 2, 3, -1, -2, 5, 100, math.MaxInt32, math.MinInt32}
// "" among the first three (the small alphabet): an EMPTY non-null value shares its offset with the
// value stored after it in a byte-array column buffer (required strings, non-nil empty []byte,
// elements of a []string); for `string,optional` fields it is one more null
var c10Strs = []string{"a", "", "b", "ab", "abc", "b\x00", "\xff", "\xff\xff", "z", "aa"}
var c10Floats = []float64{0, 1, -1, 2.5, math.Inf(1), math.Inf(-1), 1e-300, -2.5}

func pick[T any](r *rand.Rand, pool []T, small bool) T {
	if small {
		return pool[r.Intn(min(3, len(pool)))]
	}
	return pool[r.Intn(len(pool))]
}

func c10GenA(r *rand.Rand, n int, small bool, idBase int) []c10A {
	rows := make([]c10A, n)
	np, no, ns := c10NullPattern(r, n), c10NullPattern(r, n), c10NullPattern(r, n)
	for i := range rows {
		rows[i].K = pick(r, c10Ints, small)
		if !np[i] {
			v := pick(r, c10Ints, small)
			rows[i].P = &v
		}
		if !no[i] {
			rows[i].O = int64(pick(r, c10Ints[1:], small))
		}
		if !ns[i] {
			rows[i].S = pick(r, c10Strs, small)
		}
		rows[i].ID = int64(idBase + i)
		if small && r.Intn(2) == 0 {
			rows[i].ID = int64(r.Intn(2)) // whole-row duplicates
		}
	}
	return rows
}

func c10GenB(r *rand.Rand, n int, small bool, idBase int) []c10B {
	rows := make([]c10B, n)
	ng, nx := c10NullPattern(r, n), c10NullPattern(r, n)
	for i := range rows {
		if !ng[i] {
			g := &c10G{Y: pick(r, c10Ints, small)}
			if !nx[i] {
				v := pick(r, c10Ints, small)
				g.X = &v
			}
			rows[i].G = g
		}
		switch l := r.Intn(5); l {
		case 0: // nil list
		default:
			rows[i].L = make([]int32, l-1+r.Intn(2))
			for j := range rows[i].L {
				rows[i].L[j] = pick(r, c10Ints, true)
			}
			if len(rows[i].L) == 0 {
				rows[i].L = nil
			}
		}
		rows[i].T = pick(r, c10Strs, small)
		rows[i].ID = int64(idBase + i)
		if small && r.Intn(2) == 0 {
			rows[i].ID = int64(r.Intn(2))
		}
	}
	return rows
}

func c10GenC(r *rand.Rand, n int, small bool, idBase int) []c10C {
	rows := make([]c10C, n)
	nf, ny := c10NullPattern(r, n), c10NullPattern(r, n)
	for i := range rows {
		rows[i].U = uint32(pick(r, c10Ints, small))
		if !nf[i] {
			v := pick(r, c10Floats, small)
			rows[i].F = &v
		}
		rows[i].B = r.Intn(2) == 0
		if !ny[i] {
			rows[i].Y = []byte(pick(r, c10Strs, small))
		}
		for j := r.Intn(4); j > 0; j-- {
			rows[i].W = append(rows[i].W, pick(r, c10Strs, true))
		}
		rows[i].ID = int64(idBase + i)
		if small && r.Intn(2) == 0 {
			rows[i].ID = int64(r.Intn(2))
		}
	}
	return rows
}

func c10GenD(r *rand.Rand, n int, small bool, idBase int) []c10D {
	rows := make([]c10D, n)
	np := c10NullPattern(r, n)
	for i := range rows {
		for j := r.Intn(5); j > 0; j-- {
			rows[i].L = append(rows[i].L, pick(r, c10Ints, false))
		}
		for j := r.Intn(4); j > 0; j-- {
			rows[i].W = append(rows[i].W, pick(r, c10Strs, false))
		}
		rows[i].K = pick(r, c10Ints, small)
		rows[i].S = pick(r, c10Strs, small)
		rows[i].U = uint32(pick(r, c10Ints, small))
		if !np[i] {
			v := pick(r, c10Ints, small)
			rows[i].P = &v
		}
		rows[i].ID = int64(idBase + i)
		if small && r.Intn(2) == 0 {
			rows[i].ID = int64(r.Intn(2))
		}
		copy(rows[i].X[:], pick(r, []string{"aaaa", "aaab", "zzzz", "\x00\x00\x00\x01", "\xff\xff\xff\xff", "abcd"}, small))
	}
	return rows
}

func c10GenE(r *rand.Rand, n int, small bool, idBase int) []c10E {
	rows := make([]c10E, n)
	ngg, nh, nq, nb := c10NullPattern(r, n), c10NullPattern(r, n), c10NullPattern(r, n), c10NullPattern(r, n)
	for i := range rows {
		if !ngg[i] {
			gg := &c10GG{V: pick(r, c10Ints, small)}
			if !nh[i] {
				h := &c10H{Z: pick(r, c10Ints, small)}
				if !nq[i] {
					v := pick(r, c10Ints, small)
					h.Q = &v
				}
				gg.H = h
			}
			rows[i].GG = gg
		}
		for j := r.Intn(4); j > 0; j-- {
			g := c10G{Y: pick(r, c10Ints, true)}
			if r.Intn(3) > 0 {
				v := pick(r, c10Ints, true)
				g.X = &v
			}
			rows[i].R = append(rows[i].R, g)
		}
		rows[i].N.A = pick(r, c10Ints, small)
		if !nb[i] {
			v := pick(r, c10Ints, small)
			rows[i].N.B = &v
		}
		rows[i].ID = int64(idBase + i)
		if small && r.Intn(2) == 0 {
			rows[i].ID = int64(r.Intn(2))
		}
	}
	return rows
}

type c10TypeInfo struct {
	name string
	cols [][]string // candidate sorting columns; repeated ones last
	nrep int        // how many of them are repeated
	run  func(ctx *core.Ctx, cs *c10Case, r *rand.Rand, n int, small bool)
	// replay runs a recorded case (corpus file or the case of a replay file)
	replay func(ctx *core.Ctx, cs *c10Case) error
}

func c10ReplayAs[T any](ctx *core.Ctx, cs *c10Case) error {
	var rows, extra []T
	if len(cs.Input) > 0 {
		if err := json.Unmarshal(cs.Input, &rows); err != nil {
			return err
		}
	}
	if len(cs.InputMore) > 0 {
		if err := json.Unmarshal(cs.InputMore, &extra); err != nil {
			return err
		}
	}
	c10Exec(ctx, cs, rows, extra)
	return nil
}

func c10Exec[T any](ctx *core.Ctx, cs *c10Case, rows, extra []T) {
	cs.Input, _ = json.Marshal(rows)
	if cs.Extra >= 0 {
		cs.InputMore, _ = json.Marshal(extra)
	}
	c10Guard(ctx, "panic-outside-guarded-call "+cs.Container, "a library call or an oracle step of the sort check panicked",
		func() map[string]any { return map[string]any{"case": cs} },
		func() { c10ExecUnguarded(ctx, cs, rows, extra) })
}

func c10ExecUnguarded[T any](ctx *core.Ctx, cs *c10Case, rows, extra []T) {
	schema := parquet.SchemaOf(new(T))
	res, in1, in2 := c10Run(cs, rows, extra)
	cs.Rows = nil
	for _, r := range in1 {
		cs.Rows = append(cs.Rows, c10Canon(r))
	}
	for _, r := range in2 {
		cs.Rows = append(cs.Rows, "+"+c10Canon(r))
	}
	keys := c10Resolve(schema, cs.Sorting)
	nontrivial := false
	for _, k := range keys {
		if k.maxDef == 0 || k.maxRep > 0 {
			continue
		}
		hasNull, hasVal := false, false
		for _, r := range in1 {
			for _, v := range c10ColumnValues(r, k.leaf) {
				if v.IsNull() {
					hasNull = true
				} else {
					hasVal = true
				}
			}
		}
		nontrivial = nontrivial || (hasNull && hasVal)
	}
	ctx.Case(fmt.Sprintf("%s|%s|%v|%v|%d|%v|%v|%d|%s", cs.Type, cs.Container, cs.Sorting, cs.Batches, cs.SortRun, cs.Flushes, cs.Dedupe, cs.Extra, strings.Join(cs.Rows, ";")), nontrivial)
	ctx.Hist("container", cs.Container)
	ctx.Hist("rows", fmt.Sprint(len(rows)))
	ctx.Hist("sorting-columns", fmt.Sprint(len(cs.Sorting)))
	for _, k := range keys {
		d := "asc"
		if k.Desc {
			d = "desc"
		}
		nf := "nulls-last"
		if k.NullsFirst {
			nf = "nulls-first"
		}
		ctx.Hist("sort-key", k.colKind()+" "+d+" "+nf)
	}
	if strings.HasPrefix(cs.Container, "sortw") {
		ctx.Hist("sorting-writer-flush-calls", fmt.Sprint(min(len(cs.Flushes), 4)))
	}
	for _, k := range keys {
		ctx.Hist("sort-key-levels", fmt.Sprintf("maxRep=%d maxDef=%d", k.maxRep, k.maxDef))
	}
	if cs.Extra >= 0 {
		ctx.Hist("history", "sort,read,write,sort,read")
	} else {
		ctx.Hist("history", "sort,read")
	}
	c10Check(ctx, cs, schema, res, in1, in2)
}

var c10Types = []c10TypeInfo{
	{name: "A{k int32; p *int32?; o int64?; s string?; id}", cols: [][]string{{"k"}, {"p"}, {"o"}, {"s"}, {"id"}},
		run: func(ctx *core.Ctx, cs *c10Case, r *rand.Rand, n int, small bool) {
			rows := c10GenA(r, n, small, 1000)
			var extra []c10A
			if cs.Extra >= 0 {
				extra = c10GenA(r, cs.Extra, small, 5000)
			}
			c10Exec(ctx, cs, rows, extra)
		}, replay: c10ReplayAs[c10A]},
	{name: "B{g {x *int32?; y}?; l []int32; t string; id}", cols: [][]string{{"g", "x"}, {"g", "y"}, {"t"}, {"id"}, {"l"}}, nrep: 1,
		run: func(ctx *core.Ctx, cs *c10Case, r *rand.Rand, n int, small bool) {
			rows := c10GenB(r, n, small, 1000)
			var extra []c10B
			if cs.Extra >= 0 {
				extra = c10GenB(r, cs.Extra, small, 5000)
			}
			c10Exec(ctx, cs, rows, extra)
		}, replay: c10ReplayAs[c10B]},
	{name: "C{u uint32; f *float64?; b bool; y []byte?; w []string; id}", cols: [][]string{{"u"}, {"f"}, {"b"}, {"y"}, {"id"}, {"w"}}, nrep: 1,
		run: func(ctx *core.Ctx, cs *c10Case, r *rand.Rand, n int, small bool) {
			rows := c10GenC(r, n, small, 1000)
			var extra []c10C
			if cs.Extra >= 0 {
				extra = c10GenC(r, cs.Extra, small, 5000)
			}
			c10Exec(ctx, cs, rows, extra)
		}, replay: c10ReplayAs[c10C]},
	{name: "D{l []int32; w []string; k int32; s string; u uint32; p *int32?; id; x [4]byte}", cols: [][]string{{"k"}, {"s"}, {"u"}, {"p"}, {"id"}, {"x"}, {"l"}, {"w"}}, nrep: 2,
		run: func(ctx *core.Ctx, cs *c10Case, r *rand.Rand, n int, small bool) {
			rows := c10GenD(r, n, small, 1000)
			var extra []c10D
			if cs.Extra >= 0 {
				extra = c10GenD(r, cs.Extra, small, 5000)
			}
			c10Exec(ctx, cs, rows, extra)
		}, replay: c10ReplayAs[c10D]},
	{name: "E{gg {h {z; q *int32?}?; v}?; r []{x *int32?; y}; n {a; b *int32?}; id}",
		cols: [][]string{{"gg", "h", "z"}, {"gg", "h", "q"}, {"gg", "v"}, {"n", "a"}, {"n", "b"}, {"id"}, {"r", "x"}, {"r", "y"}}, nrep: 2,
		run: func(ctx *core.Ctx, cs *c10Case, r *rand.Rand, n int, small bool) {
			rows := c10GenE(r, n, small, 1000)
			var extra []c10E
			if cs.Extra >= 0 {
				extra = c10GenE(r, cs.Extra, small, 5000)
			}
			c10Exec(ctx, cs, rows, extra)
		}, replay: c10ReplayAs[c10E]},
}

// c10ReplayFile runs one recorded case: a corpus file (a c10Case) or a replay file written by
// ./check (the case sits under detail.case).
func c10ReplayFile(ctx *core.Ctx, path string) {
	b, err := os.ReadFile(path)
	if err != nil {
		ctx.Fail("L2", "corpus-unreadable", err.Error(), map[string]any{"file": path})
		return
	}
	var wrapped struct {
		Detail struct {
			Case *c10Case    `json:"case"`
			Cuts *c10CutCase `json:"cuts"`
			Len  *int        `json:"len"`
			Base *int32   `json:"base"`
		} `json:"detail"`
	}
	cs := new(c10Case)
	if json.Unmarshal(b, &wrapped) == nil && wrapped.Detail.Cuts != nil {
		ctx.Hist("corpus", "replayed")
		c10CutsRun(ctx, wrapped.Detail.Cuts, nil, nil)
		return
	}
	if json.Unmarshal(b, &wrapped) == nil && wrapped.Detail.Case != nil {
		cs = wrapped.Detail.Case
	} else if json.Unmarshal(b, &wrapped) == nil && wrapped.Detail.Len != nil && wrapped.Detail.Base != nil {
		cs.Kernel = &c10KernelCase{Base: *wrapped.Detail.Base, Len: *wrapped.Detail.Len}
	} else if err := json.Unmarshal(b, cs); err != nil {
		ctx.Fail("L2", "corpus-unreadable", err.Error(), map[string]any{"file": path})
		return
	}
	ctx.Hist("corpus", "replayed")
	if cs.Kernel != nil {
		c10KernelOne(ctx, cs.Kernel.Len, cs.Kernel.Base, 0, nil, nil)
		return
	}
	for _, t := range c10Types {
		if strings.HasPrefix(t.name, cs.Type) {
			if err := t.replay(ctx, cs); err != nil {
				ctx.Fail("L2", "corpus-unreadable", err.Error(), map[string]any{"file": path})
			}
			return
		}
	}
	ctx.Fail("L2", "corpus-unreadable", "unknown type "+cs.Type, map[string]any{"file": path})
}

var c10Sizes = []int{0, 1, 2, 3, 5, 8, 9, 10, 16, 17, 18, 33, 64, 65, 66, 100, 130}
var c10BatchSizes = []int{1, 2, 7, 8, 9, 15, 16, 17, 64, 1000}

func c10RandCase(r *rand.Rand, ti int, forceCols [][]int) (*c10Case, int, bool) {
	t := c10Types[ti]
	cs := &c10Case{Type: t.name, Extra: -1}
	cs.Container = []string{"gbuf", "gbuf", "gbuf-rows", "buffer", "buffer-rows", "rowbuf", "rowbuf-rows", "sortw", "sortw", "sortw-rows"}[r.Intn(10)]
	n := c10Sizes[r.Intn(len(c10Sizes))]
	if r.Intn(12) == 0 {
		n = 130 + r.Intn(270)
	}
	// sorting columns: 1..3 distinct columns (rarely none); a repeated key in ~1 case out of 8
	nk := []int{1, 1, 1, 2, 2, 3, 0}[r.Intn(7)]
	plain := len(t.cols) - t.nrep
	perm := r.Perm(plain)
	var chosen []int
	for _, p := range perm[:min(nk, plain)] {
		chosen = append(chosen, p)
	}
	repOdds := 8
	if t.nrep >= 2 {
		repOdds = 4
	}
	if t.nrep > 0 && r.Intn(repOdds) == 0 {
		chosen = append(chosen, plain+r.Intn(t.nrep))
		r.Shuffle(len(chosen), func(i, j int) { chosen[i], chosen[j] = chosen[j], chosen[i] })
	}
	for _, c := range chosen {
		cs.Sorting = append(cs.Sorting, c10Sort{Path: t.cols[c], Desc: r.Intn(2) == 0, NullsFirst: r.Intn(2) == 0})
	}
	for left := n; left > 0; {
		b := c10BatchSizes[r.Intn(len(c10BatchSizes))]
		cs.Batches = append(cs.Batches, b)
		left -= b
	}
	small := r.Intn(3) > 0
	switch cs.Container {
	case "sortw", "sortw-rows":
		cs.SortRun = []int{1, 2, 3, 8, 9, 17, 64, 1000}[r.Intn(8)]
		// (without sorting columns every row has the same, empty key; duplicate dropping is then
		// applied per sort run only — degenerate, not generated)
		cs.Dedupe = r.Intn(3) == 0 && len(cs.Sorting) > 0
		// explicit Flush() calls between writes (also twice in a row: the second finds an empty buffer)
		if r.Intn(3) == 0 {
			for k := range cs.Batches {
				if r.Intn(3) == 0 {
					cs.Flushes = append(cs.Flushes, k)
					if r.Intn(4) == 0 {
						cs.Flushes = append(cs.Flushes, k)
					}
				}
			}
		}
	case "gbuf", "gbuf-rows", "buffer", "buffer-rows", "rowbuf-rows":
		if r.Intn(3) == 0 {
			cs.Extra = []int{0, 1, 3, 9, 17}[r.Intn(5)]
		}
	}
	return cs, n, small
}

// ---------------------------------------------------------------- L2: kernel and OptCol mirror

func c10Kernel(ctx *core.Ctx, d interface {
	AskMany([]string) ([]string, error)
}) {
	var lens []int
	for n := 0; n <= 40; n++ {
		lens = append(lens, n)
	}
	lens = append(lens, 63, 64, 65, 127, 128, 129, 255, 257)
	bases := []int32{0, 1, 2, 3, 7, 8, 9, 100, 65535, -1, -5, -9, math.MaxInt32, math.MaxInt32 - 8, math.MaxInt32 - 20, math.MinInt32, 1 << 30}
	var reqs []string
	var pend []func(string)
	for _, n := range lens {
		for _, base := range bases {
			for _, slack := range []int{0, 3} { // capacity larger than the length, dirty
				c10Guard(ctx, "panic-in-range-kernel", "broadcastRangeInt32 panicked",
					func() map[string]any { return map[string]any{"len": n, "base": base} },
					func() { c10KernelOne(ctx, n, base, slack, &reqs, &pend) })
			}
		}
	}
	c06Flush(ctx, d, &reqs, &pend)
}

func c10KernelOne(ctx *core.Ctx, n int, base int32, slack int, reqs *[]string, pend *[]func(string)) {
	buf := make([]int32, n+slack)
	for i := range buf {
		buf[i] = 0x7f7f7f7f
	}
	dst := buf[:n]
	parquet.VerifBroadcastRangeInt32(dst, base)
	ctx.Case(fmt.Sprintf("bcast %d %d %d", base, n, slack), n >= 8 && n%8 != 0)
	ctx.Hist("kernel-length", fmt.Sprint(min(n, 41)))
	// L1: non-null runs get consecutive indexes
	for i := range dst {
		if dst[i] != base+int32(i) {
			c10KernelBad.Store(true)
			ctx.Fail("L1", "broadcast-range-avx2-tail",
				fmt.Sprintf("broadcastRangeInt32(dst[:%d], %d): dst[%d] = %d, want %d", n, base, i, dst[i], base+int32(i)),
				map[string]any{"len": n, "base": base, "dst": core.JoinInts(dst), "variant": ctx.Variant})
			break
		}
	}
	for i := n; i < len(buf); i++ {
		if buf[i] != 0x7f7f7f7f {
			ctx.Fail("L1", "broadcast-range-writes-past-len", fmt.Sprintf("broadcastRangeInt32(dst[:%d], %d) wrote beyond len", n, base),
				map[string]any{"len": n, "base": base})
		}
	}
	if slack == 0 && reqs != nil {
		got := "ok " + core.JoinInts(dst)
		*reqs = append(*reqs, fmt.Sprintf("bcast %s %d %d", ctx.Variant, base, n))
		*pend = append(*pend, func(ans string) {
			if ans != got {
				ctx.Fail("L2", "broadcast-range-mirror", "broadcastRangeInt32 differs from the Lean mirror",
					map[string]any{"len": n, "base": base, "impl": got, "model": ans, "variant": ctx.Variant})
			}
		})
	}
}

// the shape of the single column of an L2 history: its path, its maximum definition level, how a
// row is made (level == maxDef: the value v; below: null at that level). flat: the leaf sits
// directly under the root (the typed path then writes null / value *runs* through the kernels,
// and the history records the runs); otherwise one op per row, null marks compared by sign.
type c10Hist[T any] struct {
	name   string
	path   []string
	maxDef int
	flat   bool
	mk     func(level int, v int64) T
}

func c10History(ctx *core.Ctx, r *rand.Rand, reqs *[]string, pend *[]func(string)) {
	c10HistoryOf(ctx, r, reqs, pend, c10Hist[c10One]{name: "flat", path: []string{"a"}, maxDef: 1, flat: true,
		mk: func(level int, v int64) c10One {
			if level == 1 {
				return c10One{A: v}
			}
			return c10One{}
		}})
}

func c10HistoryNested(ctx *core.Ctx, r *rand.Rand, reqs *[]string, pend *[]func(string)) {
	if r.Intn(2) == 0 {
		c10HistoryOf(ctx, r, reqs, pend, c10Hist[c10Nest1]{name: "required-in-optional-group", path: []string{"g", "a"}, maxDef: 1,
			mk: func(level int, v int64) c10Nest1 {
				if level == 1 {
					return c10Nest1{G: &c10NestG1{A: v}}
				}
				return c10Nest1{}
			}})
		return
	}
	c10HistoryOf(ctx, r, reqs, pend, c10Hist[c10Nest2]{name: "optional-in-optional-group", path: []string{"g", "a"}, maxDef: 2,
		mk: func(level int, v int64) c10Nest2 {
			switch level {
			case 2:
				return c10Nest2{G: &c10NestG2{A: &v}}
			case 1:
				return c10Nest2{G: &c10NestG2{}}
			}
			return c10Nest2{}
		}})
}

// one history on a single nullable int64 column: typed writes (runs), row writes, Swap, Less, Page
func c10HistoryOf[T any](ctx *core.Ctx, r *rand.Rand, reqs *[]string, pend *[]func(string), h c10Hist[T]) {
	s := c10Sort{Path: h.path, Desc: r.Intn(2) == 0, NullsFirst: r.Intn(2) == 0}
	buf := parquet.NewGenericBuffer[T](parquet.SortingRowGroupConfig(parquet.SortingColumns(s.column())))
	base := parquet.VerifBufferOf(buf)
	schema := buf.Schema()
	var ops []string
	var lessBits []byte
	n := 0
	stopped := ""
	write := func() {
		k := []int{1, 2, 3, 7, 8, 9, 10, 15, 16, 17, 18, 24, 25, 33, 64, 65, 70}[r.Intn(17)]
		nulls := c10NullPattern(r, k)
		batch := make([]T, k)
		vals := make([]int64, k)
		levels := make([]int, k)
		for i := range batch {
			levels[i] = h.maxDef
			if nulls[i] {
				levels[i] = r.Intn(h.maxDef)
			} else {
				vals[i] = int64(1 + r.Intn(6))
			}
			batch[i] = h.mk(levels[i], vals[i])
		}
		typed := r.Intn(3) > 0
		if typed {
			buf.Write(batch)
			ctx.Hist("history-op", "typed-write")
		} else {
			rows := make([]parquet.Row, k)
			for i := range batch {
				rows[i] = schema.Deconstruct(nil, &batch[i])
			}
			buf.WriteRows(rows)
			ctx.Hist("history-op", "rows-write")
		}
		if typed && h.flat {
			for i := 0; i < k; {
				j := i
				for j < k && nulls[j] == nulls[i] {
					j++
				}
				if nulls[i] {
					ops = append(ops, fmt.Sprintf("N:0:%d", j-i)) // one broadcastValueInt32 call
				} else {
					var vs []string
					for _, v := range vals[i:j] {
						vs = append(vs, fmt.Sprint(v))
					}
					ops = append(ops, "v:"+strings.Join(vs, ";"))
				}
				i = j
			}
		} else {
			for i := range batch {
				if nulls[i] {
					ops = append(ops, fmt.Sprintf("n:%d:1", levels[i]))
				} else {
					ops = append(ops, fmt.Sprintf("v:%d", vals[i]))
				}
			}
		}
		n += k
	}
	guarded := func(what string, f func()) bool {
		defer func() {
			if rec := recover(); rec != nil {
				stopped = fmt.Sprintf("%s: %v", what, rec)
			}
		}()
		f()
		return stopped == ""
	}
	corrupt := ""
	sane := func() bool {
		if corrupt == "" {
			corrupt = c10RowIndexState(buf.ColumnBuffers(), schema)
		}
		return corrupt == ""
	}
	steps := func(k int) {
		for t := 0; t < k && stopped == "" && n > 0 && sane(); t++ {
			i, j := r.Intn(n), r.Intn(n)
			if r.Intn(2) == 0 {
				var less bool
				if guarded(fmt.Sprintf("Less(%d,%d)", i, j), func() { less, _ = parquet.VerifSortedColumnLess(base, 0, i, j) }) {
					ops = append(ops, fmt.Sprintf("l:%d:%d", i, j))
					if less {
						lessBits = append(lessBits, '1')
					} else {
						lessBits = append(lessBits, '0')
					}
					ctx.Hist("history-op", "less")
				}
			} else {
				buf.Swap(i, j)
				ops = append(ops, fmt.Sprintf("s:%d:%d", i, j))
				ctx.Hist("history-op", "swap")
			}
		}
	}
	var pageVals []string
	page := func() {
		if stopped != "" || !sane() {
			return
		}
		if guarded("Page()", func() {
			pg := buf.ColumnBuffers()[0].Page()
			vals := make([]parquet.Value, pg.NumValues()+1)
			m, _ := pg.Values().ReadValues(vals)
			pageVals = pageVals[:0]
			for _, v := range vals[:m] {
				if !v.IsNull() {
					pageVals = append(pageVals, fmt.Sprint(v.Int64()))
				}
			}
		}) {
			ops = append(ops, "p")
			ctx.Hist("history-op", "page")
		}
	}
	for w := 1 + r.Intn(3); w > 0; w-- {
		write()
	}
	steps(r.Intn(12))
	page()
	if r.Intn(2) == 0 {
		if r.Intn(2) == 0 {
			write()
		}
		steps(1 + r.Intn(8))
		page()
	}
	rows, defs, _ := parquet.VerifOptionalRows(buf.ColumnBuffers()[0])
	if !h.flat {
		// how a null row is marked depends on the write path taken below the group (-1 or a
		// broadcast byte pattern); the library and the model only test the sign
		for i, x := range rows {
			if x < 0 {
				rows[i] = -1
			}
		}
	}
	ctx.Hist("history-column", h.name)
	bits := "-"
	if len(lessBits) > 0 {
		bits = string(lessBits)
	}
	dtext := make([]int, len(defs))
	for i, d := range defs {
		dtext[i] = int(d)
	}
	bs := "-"
	if len(pageVals) > 0 {
		bs = strings.Join(pageVals, ",")
	}
	nf, desc := "0", "0"
	if s.NullsFirst {
		nf = "1"
	}
	if s.Desc {
		desc = "1"
	}
	req := fmt.Sprintf("optcol %s %d %s %s %s", ctx.Variant, h.maxDef, nf, desc, strings.Join(ops, " "))
	ctx.Case(req, len(ops) > 3)
	if corrupt != "" {
		// the history stops here (Less/Page on such a state panic or spin); the state reached so far
		// is still compared with the mirror below
		key := "row-index-broken " + map[bool]string{true: "after-page", false: "after-write"}[strings.Contains(req, " p")]
		if c10KernelBad.Load() && !strings.Contains(req, " p") {
			key = "broadcast-range-avx2-tail"
		}
		ctx.Fail("L1", key, "the optional buffer's row index no longer describes the rows written: "+corrupt, map[string]any{"history": req, "variant": ctx.Variant, "rows": core.JoinInts(rows)})
		bs = "*"
	}
	if stopped != "" {
		key := "panic-in-optional-buffer-op"
		if c10KernelBad.Load() {
			key = "broadcast-range-avx2-tail"
		}
		ctx.Fail("L1", key, "an operation on an optional column buffer panicked: "+stopped, map[string]any{"history": req, "variant": ctx.Variant})
		return
	}
	got := fmt.Sprintf("ok rows=%s defs=%s base=%s less=%s", core.JoinInts(rows), core.JoinInts(dtext), bs, bits)
	*reqs = append(*reqs, req)
	*pend = append(*pend, func(ans string) {
		if bs == "*" { // no page values to compare when the history was cut short
			if i := strings.Index(ans, " base="); i >= 0 {
				if j := strings.Index(ans[i+1:], " "); j >= 0 {
					ans = ans[:i] + " base=*" + ans[i+1+j:]
				}
			}
		}
		if ans != got {
			ctx.Fail("L2", "optional-buffer-mirror", "optional column buffer (rows index, levels, page values, Less) differs from the Lean mirror",
				map[string]any{"history": req, "impl": got, "model": ans, "variant": ctx.Variant})
		}
	})
}

// one repeated column, for the L2 histories against the RepCol mirror
type c10Rep struct {
	L []int64 `parquet:"l"`
}

type c10RepE struct {
	V *int64 `parquet:"v,optional"`
}

// a list whose ELEMENTS are nullable: r.v has max repetition level 1, max definition level 2
// (0 empty list, 1 null element, 2 value); null elements take no slot in the base column
type c10RepN struct {
	R []c10RepE `parquet:"r"`
}

// one history on a single repeated int64 column: typed writes, row writes, Swap, Less, Page
func c10RepHistory(ctx *core.Ctx, r *rand.Rand, reqs *[]string, pend *[]func(string)) {
	if r.Intn(2) == 0 {
		c10RepHistoryOf(ctx, r, reqs, pend, []string{"l"}, 1, func(lists [][]*int64) []c10Rep {
			batch := make([]c10Rep, len(lists))
			for i, l := range lists {
				for _, v := range l {
					batch[i].L = append(batch[i].L, *v)
				}
			}
			return batch
		})
		return
	}
	c10RepHistoryOf(ctx, r, reqs, pend, []string{"r", "v"}, 2, func(lists [][]*int64) []c10RepN {
		batch := make([]c10RepN, len(lists))
		for i, l := range lists {
			for _, v := range l {
				batch[i].R = append(batch[i].R, c10RepE{V: v})
			}
		}
		return batch
	})
}

// maxDef 1: the elements are required (lists of values); maxDef 2: elements may be null
func c10RepHistoryOf[T any](ctx *core.Ctx, r *rand.Rand, reqs *[]string, pend *[]func(string), path []string, maxDef int, mk func([][]*int64) []T) {
	s := c10Sort{Path: path, Desc: r.Intn(2) == 0, NullsFirst: r.Intn(2) == 0}
	buf := parquet.NewGenericBuffer[T](parquet.SortingRowGroupConfig(parquet.SortingColumns(s.column())))
	base := parquet.VerifBufferOf(buf)
	schema := buf.Schema()
	ctx.Hist("rep-history-max-definition-level", fmt.Sprint(maxDef))
	var ops []string
	var lessBits []byte
	n := 0
	write := func() {
		k := 1 + r.Intn(6)
		lists := make([][]*int64, k)
		for i := range lists {
			for j := r.Intn(5); j > 0; j-- {
				if maxDef == 2 && r.Intn(3) == 0 {
					lists[i] = append(lists[i], nil)
					continue
				}
				v := int64(1 + r.Intn(4))
				lists[i] = append(lists[i], &v)
			}
			if len(lists[i]) == 0 {
				ops = append(ops, "w:0/0/n")
			} else {
				var cs []string
				for j, v := range lists[i] {
					rep := 1
					if j == 0 {
						rep = 0
					}
					if v == nil {
						cs = append(cs, fmt.Sprintf("%d/%d/n", rep, maxDef-1))
					} else {
						cs = append(cs, fmt.Sprintf("%d/%d/%d", rep, maxDef, *v))
					}
				}
				ops = append(ops, "w:"+strings.Join(cs, ";"))
			}
		}
		batch := mk(lists)
		if r.Intn(2) == 0 {
			buf.Write(batch)
			ctx.Hist("rep-history-op", "typed-write")
		} else {
			rows := make([]parquet.Row, k)
			for i := range batch {
				rows[i] = schema.Deconstruct(nil, &batch[i])
			}
			buf.WriteRows(rows)
			ctx.Hist("rep-history-op", "rows-write")
		}
		n += k
	}
	steps := func(k int) {
		for t := 0; t < k; t++ {
			i, j := r.Intn(n), r.Intn(n)
			if r.Intn(2) == 0 {
				less, _ := parquet.VerifSortedColumnLess(base, 0, i, j)
				ops = append(ops, fmt.Sprintf("l:%d:%d", i, j))
				if less {
					lessBits = append(lessBits, '1')
				} else {
					lessBits = append(lessBits, '0')
				}
				ctx.Hist("rep-history-op", "less")
			} else {
				buf.Swap(i, j)
				ops = append(ops, fmt.Sprintf("s:%d:%d", i, j))
				ctx.Hist("rep-history-op", "swap")
			}
		}
	}
	var pageVals []string
	page := func() {
		pg := buf.ColumnBuffers()[0].Page()
		vals := make([]parquet.Value, pg.NumValues()+1)
		m, _ := pg.Values().ReadValues(vals)
		pageVals = pageVals[:0]
		for _, v := range vals[:m] {
			if !v.IsNull() {
				pageVals = append(pageVals, fmt.Sprint(v.Int64()))
			}
		}
		ops = append(ops, "p")
		ctx.Hist("rep-history-op", "page")
	}
	for w := 1 + r.Intn(2); w > 0; w-- {
		write()
	}
	steps(r.Intn(12))
	page()
	if r.Intn(2) == 0 {
		if r.Intn(2) == 0 {
			write()
		}
		steps(1 + r.Intn(8))
		page()
	}
	offs, bos, reps, defs, _ := parquet.VerifRepeatedRows(buf.ColumnBuffers()[0])
	var rowText, lvText []string
	for i := range offs {
		rowText = append(rowText, fmt.Sprintf("%d/%d", offs[i], bos[i]))
	}
	for i := range reps {
		lvText = append(lvText, fmt.Sprintf("%d/%d", reps[i], defs[i]))
	}
	join := func(xs []string) string {
		if len(xs) == 0 {
			return "-"
		}
		return strings.Join(xs, ",")
	}
	bits := "-"
	if len(lessBits) > 0 {
		bits = string(lessBits)
	}
	nf, desc := "0", "0"
	if s.NullsFirst {
		nf = "1"
	}
	if s.Desc {
		desc = "1"
	}
	req := fmt.Sprintf("repcol %d %s %s %s", maxDef, nf, desc, strings.Join(ops, " "))
	got := fmt.Sprintf("ok rows=%s lv=%s base=%s less=%s", join(rowText), join(lvText), join(pageVals), bits)
	ctx.Case(req, len(ops) > 3)
	*reqs = append(*reqs, req)
	*pend = append(*pend, func(ans string) {
		if ans != got {
			ctx.Fail("L2", "repeated-buffer-mirror", "repeated column buffer (row mappings, levels, page values, Less) differs from the Lean mirror",
				map[string]any{"history": req, "impl": got, "model": ans, "variant": ctx.Variant})
		}
	})
}

// ---------------------------------------------------------------- L2: byte array column buffer

type c10Str struct {
	S string `parquet:"s"`
}

var c10BAStrs = []string{"", "", "a", "b", "ab", "", "abc", "\x00", "a"}

// one history on a single required string column: typed writes, row writes, Swap, Page, against
// the BACol mirror (offsets, end offset, lengths, value bytes, and the values of the last page
// handed out)
func c10BAHistory(ctx *core.Ctx, r *rand.Rand, reqs *[]string, pend *[]func(string)) {
	buf := parquet.NewGenericBuffer[c10Str]()
	schema := buf.Schema()
	var ops []string
	n := 0
	hexOf := func(b []byte) string {
		if len(b) == 0 {
			return "-"
		}
		return hex.EncodeToString(b)
	}
	write := func() {
		k := 1 + r.Intn(4)
		batch := make([]c10Str, k)
		for i := range batch {
			batch[i].S = c10BAStrs[r.Intn(len(c10BAStrs))]
			ops = append(ops, "w:"+hexOf([]byte(batch[i].S)))
		}
		switch r.Intn(3) {
		case 0:
			buf.Write(batch)
			ctx.Hist("bytearray-history-op", "typed-write")
		case 1:
			rows := make([]parquet.Row, k)
			for i := range batch {
				rows[i] = schema.Deconstruct(nil, &batch[i])
			}
			buf.WriteRows(rows)
			ctx.Hist("bytearray-history-op", "rows-write")
		default:
			vals := make([]parquet.Value, k)
			for i := range batch {
				vals[i] = parquet.ByteArrayValue([]byte(batch[i].S))
			}
			buf.ColumnBuffers()[0].WriteValues(vals)
			ctx.Hist("bytearray-history-op", "column-write-values")
		}
		n += k
	}
	swaps := func(k int) {
		for t := 0; t < k && n > 0; t++ {
			i, j := r.Intn(n), r.Intn(n)
			if r.Intn(3) > 0 && n > 1 { // mostly neighbours: an empty value next to a non-empty one
				i = r.Intn(n - 1)
				j = i + 1
			}
			buf.ColumnBuffers()[0].Swap(i, j)
			ops = append(ops, fmt.Sprintf("s:%d:%d", i, j))
			ctx.Hist("bytearray-history-op", "swap")
		}
	}
	pageText := "none"
	page := func() {
		pg := buf.ColumnBuffers()[0].Page()
		vals := make([]parquet.Value, pg.NumValues()+1)
		m, _ := pg.Values().ReadValues(vals)
		var vs []string
		for _, v := range vals[:m] {
			vs = append(vs, hexOf(v.ByteArray()))
		}
		pageText = "empty"
		if len(vs) > 0 {
			pageText = strings.Join(vs, ";")
		}
		ops = append(ops, "p")
		ctx.Hist("bytearray-history-op", "page")
	}
	for steps := 1 + r.Intn(6); steps > 0; steps-- {
		switch r.Intn(4) {
		case 0, 1:
			write()
		case 2:
			swaps(1 + r.Intn(3))
		default:
			page()
		}
	}
	if r.Intn(3) > 0 {
		page()
	}
	offs, lens, vals, ok := parquet.VerifByteArrayColumn(buf.ColumnBuffers()[0])
	if !ok {
		ctx.Fail("L2", "bytearray-buffer-mirror", "the column buffer of a required string column is not a byteArrayColumnBuffer", nil)
		return
	}
	end := "n"
	if len(offs) > len(lens) {
		end = fmt.Sprint(offs[len(lens)])
		offs = offs[:len(lens)]
	}
	list := func(xs []uint32) string {
		if len(xs) == 0 {
			return "-"
		}
		ss := make([]string, len(xs))
		for i, x := range xs {
			ss[i] = fmt.Sprint(x)
		}
		return strings.Join(ss, ",")
	}
	req := "bacol"
	if len(ops) > 0 {
		req += " " + strings.Join(ops, " ")
	}
	got := fmt.Sprintf("ok off=%s end=%s len=%s vals=%s page=%s", list(offs), end, list(lens), hexOf(vals), pageText)
	emptyNextToValue := false
	for i := 0; i+1 < len(lens); i++ {
		emptyNextToValue = emptyNextToValue || (lens[i] == 0) != (lens[i+1] == 0)
	}
	ctx.Case(req, len(ops) > 3 && emptyNextToValue)
	*reqs = append(*reqs, req)
	*pend = append(*pend, func(ans string) {
		if ans != got {
			ctx.Fail("L2", "bytearray-buffer-mirror", "byte array column buffer (offsets, lengths, value bytes, values of the page handed out) differs from the Lean mirror",
				map[string]any{"history": req, "impl": got, "model": ans, "variant": ctx.Variant})
		}
	})
}

// ---------------------------------------------------------------- L2: Buffer.configure on nested leaves

// a random schema: groups (required / optional / repeated) up to depth 3 over int32 / int64 / string
// leaves (required / optional / repeated)
func c10RandSchemaNode(r *rand.Rand, depth int) parquet.Node {
	var n parquet.Node
	if depth == 0 || r.Intn(3) == 0 {
		switch r.Intn(3) {
		case 0:
			n = parquet.Leaf(parquet.Int32Type)
		case 1:
			n = parquet.Leaf(parquet.Int64Type)
		default:
			n = parquet.String()
		}
	} else {
		g := parquet.Group{}
		for i, k := 0, 1+r.Intn(3); i < k; i++ {
			g[string(rune('a'+i))] = c10RandSchemaNode(r, depth-1)
		}
		n = g
	}
	switch r.Intn(3) {
	case 0:
		return parquet.Optional(n)
	case 1:
		return parquet.Repeated(n)
	}
	return parquet.Required(n)
}

// c10Conf: what Buffer.configure sets up for the sorting columns of a schema (hook
// VerifSortedColumnConfig) against the Lean mirror `configure` on the leaf's inherited levels.
func c10Conf(ctx *core.Ctx, schema *parquet.Schema, r *rand.Rand, reqs *[]string, pend *[]func(string)) {
	leaves := schema.Columns()
	if len(leaves) == 0 {
		return
	}
	perm := r.Perm(len(leaves))
	nk := min(1+r.Intn(3), len(leaves))
	var sorting []c10Sort
	for _, li := range perm[:nk] {
		sorting = append(sorting, c10Sort{Path: leaves[li], Desc: r.Intn(2) == 0, NullsFirst: r.Intn(2) == 0})
	}
	var scols []parquet.SortingColumn
	for _, s := range sorting {
		scols = append(scols, s.column())
	}
	buf := parquet.NewBuffer(schema, parquet.SortingRowGroupConfig(parquet.SortingColumns(scols...)))
	for k, s := range sorting {
		leaf, _ := schema.Lookup(s.Path...)
		own := "required"
		switch {
		case leaf.Node.Optional():
			own = "optional"
		case leaf.Node.Repeated():
			own = "repeated"
		}
		wrap, reversed, ord, ok := parquet.VerifSortedColumnConfig(buf, k)
		canon := fmt.Sprintf("bufconf %s | %s", schema.String(), s.String())
		inherited := (leaf.MaxDefinitionLevel > 0 || leaf.MaxRepetitionLevel > 0) && own == "required"
		ctx.Case(canon, inherited)
		ctx.Hist("configure-leaf", fmt.Sprintf("own=%s maxRep=%d maxDef=%d", own, min(leaf.MaxRepetitionLevel, 2), min(leaf.MaxDefinitionLevel, 3)))
		if !ok {
			ctx.Fail("L2", "sorted-column-missing", "Buffer.configure did not register a sorting column that exists in the schema",
				map[string]any{"schema": schema.String(), "sorting": fmt.Sprint(sorting), "k": k})
			continue
		}
		rev := 0
		if reversed {
			rev = 1
		}
		got := fmt.Sprintf("ok wrap=%s reversed=%d ord=%s", wrap, rev, ord)
		d, nf := 0, 0
		if s.Desc {
			d = 1
		}
		if s.NullsFirst {
			nf = 1
		}
		*reqs = append(*reqs, fmt.Sprintf("bufconf %d %d 1 %d %d", leaf.MaxRepetitionLevel, leaf.MaxDefinitionLevel, d, nf))
		sc, path := schema.String(), s.String()
		*pend = append(*pend, func(ans string) {
			if ans != got {
				ctx.Fail("L2", "buffer-configure-mirror "+own+"-leaf", "what Buffer.configure set up for a sorting column (buffer kind, reversed wrapper, null ordering) differs from the Lean mirror on the leaf's inherited levels",
					map[string]any{"schema": sc, "sorting_column": path, "max_repetition_level": leaf.MaxRepetitionLevel, "max_definition_level": leaf.MaxDefinitionLevel,
						"impl": got, "model": ans, "variant": ctx.Variant})
			}
		})
	}
}

// ---------------------------------------------------------------- L1 + L2: sorting writer call histories

type c10K struct {
	K int64 `parquet:"k"`
	V int64 `parquet:"v"`
}

// a sorting writer call history: per round the calls "w:<k;k;…>" (Write of rows with these keys),
// "r:<k;k;…>" (WriteRows), "f" (Flush); a round ends with Close, the next starts with Reset
type c10CutCase struct {
	SortRowCount int        `json:"sort_row_count"`
	Dedupe       bool       `json:"drop_duplicated_rows"`
	Rounds       [][]string `json:"rounds"`
	Abandon      []bool     `json:"abandoned_rounds,omitempty"` // the round ends with Reset alone (no Close): its rows are discarded
}

// c10Cuts: a history of Write / WriteRows / Flush calls on a SortingWriter: the rows of every
// temporary row group (hook) against the Lean mirror of the writeRows loop (L2), and the output
// against the property (L1: sorted permutation; with duplicate dropping one row per key).
func c10Cuts(ctx *core.Ctx, r *rand.Rand, reqs *[]string, pend *[]func(string)) {
	cs := &c10CutCase{SortRowCount: []int{1, 2, 3, 4, 7, 8, 9, 16, 17, 64}[r.Intn(10)], Dedupe: r.Intn(3) == 0}
	nkeys := []int{2, 5, 1000}[r.Intn(3)]
	// the writer is reused through Reset for a second, independent history in one case out of four
	rounds := 1
	if r.Intn(4) == 0 {
		rounds = 2
	}
	for round := 0; round < rounds; round++ {
		var calls []string
		for i, k := 0, 1+r.Intn(8); i < k; i++ {
			if r.Intn(4) == 0 {
				calls = append(calls, "f")
				continue
			}
			nb := []int{0, 1, 2, 3, 5, 8, 9, 17, 40, 130}[r.Intn(10)]
			ks := make([]string, nb)
			for j := range ks {
				ks[j] = fmt.Sprint(r.Intn(nkeys))
			}
			calls = append(calls, []string{"w:", "r:"}[r.Intn(2)]+strings.Join(ks, ";"))
		}
		cs.Rounds = append(cs.Rounds, calls)
		cs.Abandon = append(cs.Abandon, round+1 < rounds && r.Intn(2) == 0)
	}
	c10CutsRun(ctx, cs, reqs, pend)
}

func c10CutsRun(ctx *core.Ctx, cs *c10CutCase, reqs *[]string, pend *[]func(string)) {
	out := new(bytes.Buffer)
	w := parquet.NewSortingWriter[c10K](out, int64(cs.SortRowCount),
		parquet.SortingWriterConfig(parquet.SortingColumns(parquet.Ascending("k")), parquet.DropDuplicatedRows(cs.Dedupe)))
	schema := w.Schema()
	for round, calls := range cs.Rounds {
		if round > 0 {
			out = new(bytes.Buffer)
			w.Reset(out)
			ctx.Hist("sorting-writer-call", "Reset")
		}
		detail := func() map[string]any {
			return map[string]any{"cuts": cs, "round": round, "variant": ctx.Variant}
		}
		var ops []string // the calls as the Lean op reads them
		var written []c10K
		fail := ""
		for _, call := range calls {
			if fail != "" {
				break
			}
			if call == "f" {
				ops = append(ops, "f")
				ctx.Hist("sorting-writer-call", "Flush")
				if err := w.Flush(); err != nil {
					fail = "Flush: " + err.Error()
				}
				continue
			}
			var batch []c10K
			if len(call) > 2 {
				for _, t := range strings.Split(call[2:], ";") {
					var k int64
					fmt.Sscan(t, &k)
					batch = append(batch, c10K{K: k, V: int64(round)*100000 + int64(len(written)+len(batch))}) // V: unique per writer
				}
			}
			written = append(written, batch...)
			ops = append(ops, "w:"+call[2:])
			var err error
			var n int
			if call[0] == 'w' {
				ctx.Hist("sorting-writer-call", "Write")
				n, err = w.Write(batch)
			} else {
				ctx.Hist("sorting-writer-call", "WriteRows")
				rows := make([]parquet.Row, len(batch))
				for j := range batch {
					rows[j] = schema.Deconstruct(nil, &batch[j])
				}
				n, err = w.WriteRows(rows)
			}
			if err != nil {
				fail = "write: " + err.Error()
			} else if n != len(batch) {
				fail = fmt.Sprintf("write of %d rows returned %d", len(batch), n)
			}
		}
		req := fmt.Sprintf("swcuts %d %d %s", cs.SortRowCount, map[bool]int{false: 0, true: 1}[cs.Dedupe], strings.Join(ops, " "))
		ctx.Case(fmt.Sprintf("%s | round %d of %v %v", req, round, cs.Rounds, cs.Abandon), len(ops) > 2)
		ctx.Hist("sort-run-rows", fmt.Sprint(cs.SortRowCount))
		if fail == "" && round < len(cs.Abandon) && cs.Abandon[round] {
			ctx.Hist("sorting-writer-call", "Reset without Close")
			continue // the next round's output must hold that round's rows only
		}
		if fail == "" {
			if err := w.Flush(); err != nil { // what Close starts with
				fail = "Flush: " + err.Error()
			}
		}
		if fail != "" {
			ctx.Fail("L1", "sorting-writer-call-error", "a Write/WriteRows/Flush call on a sorting writer failed: "+fail, detail())
			return
		}
		runs, buffered := parquet.VerifSortingWriterRuns(w)
		got := fmt.Sprintf("ok runs=%s buf=%d", core.JoinInts(runs), buffered)
		if reqs != nil {
			*reqs = append(*reqs, req)
			*pend = append(*pend, func(ans string) {
				if ans != got {
					d := detail()
					d["impl"], d["model"] = got, ans
					ctx.Fail("L2", "sorting-writer-runs-mirror", "the rows per temporary row group of the sorting writer differ from the Lean mirror of writeRows/Flush", d)
				}
			})
		}
		// L1 on the output
		if err := w.Close(); err != nil {
			ctx.Fail("L1", "sorting-writer-call-error", "Close failed: "+err.Error(), detail())
			return
		}
		var got1 []c10K
		if len(written) > 0 || out.Len() > 0 {
			rd := parquet.NewGenericReader[c10K](bytes.NewReader(out.Bytes()))
			got1 = make([]c10K, rd.NumRows())
			if n, err := rd.Read(got1); n != len(got1) || (err != nil && err != io.EOF) {
				ctx.Fail("L1", "sorting-writer-call-error", fmt.Sprintf("reading the output back: %d of %d rows, %v", n, len(got1), err), detail())
				return
			}
			rd.Close()
		}
		bad := ""
		for i := 0; i+1 < len(got1); i++ {
			if got1[i].K > got1[i+1].K || (cs.Dedupe && got1[i].K == got1[i+1].K) {
				bad = fmt.Sprintf("rows %d and %d are out of order (or duplicate keys remain): k=%d, k=%d", i, i+1, got1[i].K, got1[i+1].K)
				break
			}
		}
		if bad == "" {
			in := map[c10K]int{}
			inKeys := map[int64]bool{}
			for _, x := range written {
				in[x]++
				inKeys[x.K] = true
			}
			outKeys := map[int64]bool{}
			for _, x := range got1 {
				if in[x] == 0 {
					bad = fmt.Sprintf("row out {k=%d v=%d} was never written to this output (or comes out twice)", x.K, x.V)
					break
				}
				in[x]--
				outKeys[x.K] = true
			}
			if bad == "" && !cs.Dedupe && len(got1) != len(written) {
				bad = fmt.Sprintf("%d rows written, %d rows out", len(written), len(got1))
			}
			if bad == "" && cs.Dedupe && len(outKeys) != len(inKeys) {
				bad = fmt.Sprintf("%d keys written, %d keys remain", len(inKeys), len(outKeys))
			}
		}
		if bad != "" {
			d := detail()
			d["out"] = fmt.Sprint(got1)
			ctx.Fail("L1", "sorting-writer-history "+map[bool]string{false: "order-or-permutation", true: "dedupe"}[cs.Dedupe],
				"after a history of Write/WriteRows/Flush calls and Close: "+bad, d)
			return
		}
	}
}

// ---------------------------------------------------------------- entry point

func RunC10(ctx *core.Ctx) {
	ctx.SetRule("L1: sort.Sort on GenericBuffer[T], Buffer, RowBuffer[T] and SortingWriter[T] Close, each through its typed Write and through its []Row entry point (WriteRows; the rows are lent from producer memory that is reused and overwritten after every call) over five struct schemas (required / optional pointer / optional zero-is-null / nested optional group / repeated leaves, also repeated leaves placed before the required key columns; required and optional leaves below two optional groups, below a repeated group and below a required group), 0-3 sorting columns x asc/desc x nulls first/last, null and value runs of length 1,2,3,7,8,9,15,16,17,64,65, small alphabets (duplicates; the EMPTY string / empty non-nil []byte among the first three values of every byte-array pool), write batches around 8 and 64, explicit Flush() calls between the writes of a sorting writer, optional second phase (write more, sort again); a directed stream of sorting writers whose first sorting column is repeated (sort runs of 1-3 rows, short lists sharing prefixes); Write/WriteRows/Flush/Close histories on a sorting writer with sort runs of 1..64 rows, the writer reused through Reset (after Close, or abandoning the rows written so far) for a second history; L2: broadcastRangeInt32 for lengths 0..40,63..65,127..129,255,257 x 17 bases, and write/Swap/Less/Page histories on one optional column against the Lean OptCol mirror (flat, and as required / optional leaf of an optional group with nulls at every level below the maximum) and on one repeated column (required elements, and nullable elements with max definition level 2) against the RepCol mirror; write (typed / []Row / ColumnBuffer.WriteValues) / Swap / Page histories on a required string column against the BACol mirror of byteArrayColumnBuffer (values \"\", a, b, ab, abc, 00; swaps mostly between neighbours); what Buffer.configure sets up (buffer kind, reversed wrapper, null ordering function) for every leaf of the static schemas and of random schemas nested up to depth 4 against the Lean mirror `configure`; the rows per temporary row group of the sorting writer against the Lean mirror of the writeRows loop. Distinct by canonical input; non-trivial = some nullable sorting column holds both nulls and values (L1), run length >= 8 not a multiple of 8 (kernel), more than 3 ops (history; byte array history: and an empty value next to a non-empty one), a required leaf with inherited levels (configure), more than 2 calls (sorting writer history)")
	d := ctx.Driver()
	if ctx.Replay != "" {
		c10Guard(ctx, "panic-in-replay", "replaying a recorded case panicked", func() map[string]any { return map[string]any{"file": ctx.Replay} },
			func() { c10ReplayFile(ctx, ctx.Replay) })
		return
	}
	// 0. the kernel corpus cases, then the kernel sweep, then the recorded sort cases
	for _, f := range ctx.CorpusFiles() {
		if strings.Contains(f, "kernel") {
			c10Guard(ctx, "panic-in-replay", "replaying a recorded case panicked", func() map[string]any { return map[string]any{"file": f} },
				func() { c10ReplayFile(ctx, f) })
		}
	}
	// 1. the kernel first: later symptoms are attributed to it when it is broken
	c10Kernel(ctx, d)
	for _, f := range ctx.CorpusFiles() {
		if !strings.Contains(f, "kernel") {
			c10Guard(ctx, "panic-in-replay", "replaying a recorded case panicked", func() map[string]any { return map[string]any{"file": f} },
				func() { c10ReplayFile(ctx, f) })
		}
	}
	// 2b. the round-3 L2 ties, on their own driver, concurrently with the histories above and the L1 cases
	var extras sync.WaitGroup
	extras.Add(1)
	go func() {
		defer extras.Done()
		d2 := ctx.Driver()
		var reqs []string
		var pend []func(string)
		// … on a required / optional leaf of an optional group (null at levels below the maximum)
		rn := ctx.Rand("c10-nested-history")
		for i, n := 0, ctx.Scale(1500, 6000); i < n; i++ {
			c10Guard(ctx, "panic-in-optional-buffer-history", "a write/Swap/Less/Page history panicked outside its guarded operations", nil,
				func() { c10HistoryNested(ctx, rn, &reqs, &pend) })
			if len(reqs) >= 2000 {
				c06Flush(ctx, d2, &reqs, &pend)
			}
		}
		c06Flush(ctx, d2, &reqs, &pend)
		// … write/Swap/Page histories on a byte array column buffer against the BACol mirror
		rb := ctx.Rand("c10-bytearray-history")
		for i, n := 0, ctx.Scale(3000, 10000); i < n; i++ {
			c10Guard(ctx, "panic-in-bytearray-buffer-history", "a write/Swap/Page history on a byte array column buffer panicked", nil,
				func() { c10BAHistory(ctx, rb, &reqs, &pend) })
			if len(reqs) >= 2000 {
				c06Flush(ctx, d2, &reqs, &pend)
			}
		}
		c06Flush(ctx, d2, &reqs, &pend)
		// … Buffer.configure on the leaves of the static schemas and of random nested schemas
		rc := ctx.Rand("c10-configure")
		static := []*parquet.Schema{parquet.SchemaOf(new(c10A)), parquet.SchemaOf(new(c10B)), parquet.SchemaOf(new(c10C)),
			parquet.SchemaOf(new(c10D)), parquet.SchemaOf(new(c10E)), parquet.SchemaOf(new(c10Nest1)), parquet.SchemaOf(new(c10Nest2))}
		for i, n := 0, ctx.Scale(2000, 8000); i < n; i++ {
			c10Guard(ctx, "panic-in-buffer-configure", "NewBuffer on a nested schema with sorting columns panicked", nil, func() {
				var schema *parquet.Schema
				if i < 40*len(static) {
					schema = static[i%len(static)]
				} else {
					g := parquet.Group{}
					for j, k := 0, 1+rc.Intn(3); j < k; j++ {
						g[string(rune('p'+j))] = c10RandSchemaNode(rc, 3)
					}
					schema = parquet.NewSchema("s", g)
				}
				c10Conf(ctx, schema, rc, &reqs, &pend)
			})
			if len(reqs) >= 2000 {
				c06Flush(ctx, d2, &reqs, &pend)
			}
		}
		c06Flush(ctx, d2, &reqs, &pend)
		// … and the run cuts of the sorting writer over Write/WriteRows/Flush histories
		rw := ctx.Rand("c10-sorting-writer-history")
		for i, n := 0, ctx.Scale(1000, 4000); i < n; i++ {
			c10Guard(ctx, "panic-in-sorting-writer-history", "a Write/WriteRows/Flush/Close history on a sorting writer panicked", nil,
				func() { c10Cuts(ctx, rw, &reqs, &pend) })
			if len(reqs) >= 1000 {
				c06Flush(ctx, d2, &reqs, &pend)
			}
		}
		c06Flush(ctx, d2, &reqs, &pend)
	}()
	defer extras.Wait()
	// 2. L2 histories (on the first driver, which the kernel sweep no longer needs; concurrently
	// with the L1 cases below, which do not talk to a driver)
	extras.Add(1)
	go func() {
		defer extras.Done()
		r := ctx.Rand("c10-history")
		var reqs []string
		var pend []func(string)
		for i, n := 0, ctx.Scale(6000, 24000); i < n; i++ {
			c10Guard(ctx, "panic-in-optional-buffer-history", "a write/Swap/Less/Page history panicked outside its guarded operations", nil,
				func() { c10History(ctx, r, &reqs, &pend) })
			if len(reqs) >= 2000 {
				c06Flush(ctx, d, &reqs, &pend)
			}
		}
		c06Flush(ctx, d, &reqs, &pend)
		// … and on a repeated column against the RepCol mirror
		rr := ctx.Rand("c10-rep-history")
		for i, n := 0, ctx.Scale(3000, 12000); i < n; i++ {
			c10Guard(ctx, "panic-in-repeated-buffer-history", "a write/Swap/Less/Page history on a repeated column panicked",
				nil, func() { c10RepHistory(ctx, rr, &reqs, &pend) })
			if len(reqs) >= 2000 {
				c06Flush(ctx, d, &reqs, &pend)
			}
		}
		c06Flush(ctx, d, &reqs, &pend)
	}()
	// 3. L1 cases, in parallel per worker (each with its own PRNG stream)
	workers := 16
	per := ctx.Scale(8000, 48000) / workers
	var wg sync.WaitGroup
	for w := 0; w < workers; w++ {
		wg.Add(1)
		go func(w int) {
			defer wg.Done()
			r := ctx.Rand(fmt.Sprintf("c10-l1-%d", w))
			for i := 0; i < per; i++ {
				ti := (w + i) % len(c10Types)
				cs, n, small := c10RandCase(r, ti, nil)
				if w == 0 && i < 3 {
					ctx.Sample(map[string]any{"type": cs.Type, "container": cs.Container, "sorting": fmt.Sprint(cs.Sorting), "rows": n, "batches": fmt.Sprint(cs.Batches)})
				}
				c10Guard(ctx, "panic-in-case-generation", "generating or running a sort case panicked",
					func() map[string]any { return map[string]any{"case": cs} },
					func() { c10Types[ti].run(ctx, cs, r, n, small) })
			}
		}(w)
	}
	wg.Wait()
	// 4. directed: a sorting writer whose FIRST sorting column is repeated, sort runs of 1-3 rows,
	// few rows with short lists over {0,1,2} (shared prefixes, different lengths): the merge of the
	// temporary row groups must order lists element-wise, a proper prefix first, in both directions
	{
		r := ctx.Rand("c10-sortw-repeated-key")
		for i, n := 0, ctx.Scale(800, 3200); i < n; i++ {
			var ti int
			for ti = r.Intn(len(c10Types)); c10Types[ti].nrep == 0; ti = r.Intn(len(c10Types)) {
			}
			t := c10Types[ti]
			cs, _, _ := c10RandCase(r, ti, nil)
			cs.Container = []string{"sortw", "sortw-rows"}[r.Intn(2)]
			cs.Extra = -1
			cs.SortRun = 1 + r.Intn(3)
			cs.Dedupe = r.Intn(3) == 0
			rep := c10Sort{Path: t.cols[len(t.cols)-t.nrep+r.Intn(t.nrep)], Desc: r.Intn(2) == 0, NullsFirst: r.Intn(2) == 0}
			var rest []c10Sort
			for _, s := range cs.Sorting {
				if strings.Join(s.Path, ".") != strings.Join(rep.Path, ".") {
					rest = append(rest, s)
				}
			}
			cs.Sorting = append([]c10Sort{rep}, rest...)
			rows := 2 + r.Intn(11)
			ctx.Hist("directed", "sortw-repeated-first-key")
			c10Guard(ctx, "panic-in-case-generation", "generating or running a sort case panicked",
				func() map[string]any { return map[string]any{"case": cs} },
				func() { t.run(ctx, cs, r, rows, true) })
		}
	}
}
