package props

import (
	"bytes"
	"fmt"
	"io"
	"math/rand"
	"reflect"
	"sort"
	"strings"
	"sync"

	"github.com/parquet-go/parquet-go"

	"verifharness/core"
	"verifharness/gen"
)

func init() { RegisterSub("C03", "paths", RunC03) }

type c03Path struct {
	name  string
	write func(e *gen.Entry, rows any, batches []int, r *rand.Rand) ([]byte, error)
}

var c03Paths = []c03Path{
	{"generic-writer", func(e *gen.Entry, rows any, b []int, r *rand.Rand) ([]byte, error) {
		var buf bytes.Buffer
		err := e.WriteGeneric(&buf, rows, b)
		return buf.Bytes(), err
	}},
	{"writer-write-any", func(e *gen.Entry, rows any, b []int, r *rand.Rand) ([]byte, error) {
		var buf bytes.Buffer
		err := e.WriteReflect(&buf, rows)
		return buf.Bytes(), err
	}},
	{"generic-buffer", func(e *gen.Entry, rows any, b []int, r *rand.Rand) ([]byte, error) {
		var buf bytes.Buffer
		err := e.WriteGenericBuffer(&buf, rows, b)
		return buf.Bytes(), err
	}},
	{"buffer-write-any", func(e *gen.Entry, rows any, b []int, r *rand.Rand) ([]byte, error) {
		var buf bytes.Buffer
		err := e.WriteBuffer(&buf, rows)
		return buf.Bytes(), err
	}},
	{"row-buffer", func(e *gen.Entry, rows any, b []int, r *rand.Rand) ([]byte, error) {
		var buf bytes.Buffer
		err := e.WriteRowBuffer(&buf, rows)
		return buf.Bytes(), err
	}},
	{"write-rows-deconstruct", func(e *gen.Entry, rows any, b []int, r *rand.Rand) ([]byte, error) {
		var buf bytes.Buffer
		err := e.WriteRows(&buf, rows)
		return buf.Bytes(), err
	}},
	// the any-typed generic APIs: rows travel as []any (values and pointers alternating) through the
	// per-node value writers of column_buffer_reflect.go (writeValueFuncOf), a third implementation
	{"generic-writer-any", func(e *gen.Entry, rows any, b []int, r *rand.Rand) ([]byte, error) {
		var buf bytes.Buffer
		err := c03WriteAny(&buf, e, rows, false)
		return buf.Bytes(), err
	}},
	{"generic-buffer-any", func(e *gen.Entry, rows any, b []int, r *rand.Rand) ([]byte, error) {
		var buf bytes.Buffer
		err := c03WriteAny(&buf, e, rows, true)
		return buf.Bytes(), err
	}},
}

func c03WriteAny(w io.Writer, e *gen.Entry, rows any, viaBuffer bool) (err error) {
	defer func() {
		if r := recover(); r != nil {
			err = fmt.Errorf("PANIC: %v", r)
		}
	}()
	rv := reflect.ValueOf(rows)
	anys := make([]any, rv.Len())
	for i := range anys {
		if i%2 == 0 {
			anys[i] = rv.Index(i).Interface()
		} else {
			anys[i] = rv.Index(i).Addr().Interface()
		}
	}
	if viaBuffer {
		buf := parquet.NewGenericBuffer[any](e.Schema)
		if len(anys) > 0 {
			if _, err := buf.Write(anys); err != nil {
				return err
			}
		}
		pw := parquet.NewWriter(w, e.Schema)
		if _, err := pw.WriteRowGroup(buf); err != nil {
			return err
		}
		return pw.Close()
	}
	gw := parquet.NewGenericWriter[any](w, e.Schema)
	if len(anys) > 0 {
		if _, err := gw.Write(anys); err != nil {
			return err
		}
	}
	return gw.Close()
}

// describe a leaf column for failure keys: repetition pattern of its ancestors + physical type
func colDesc(schema *parquet.Schema, ci int) string {
	path := schema.Columns()[ci]
	var n parquet.Node = schema
	var sb strings.Builder
	for _, name := range path {
		for _, f := range n.Fields() {
			if f.Name() == name {
				n = f
				break
			}
		}
		switch {
		case n.Optional():
			sb.WriteString("O")
		case n.Repeated():
			sb.WriteString("R")
		default:
			sb.WriteString("q")
		}
	}
	return sb.String() + ":" + n.Type().Kind().String()
}

// goLeafType: the Go type of the struct field (element, map key/value) feeding the leaf column at
// the given schema path, "" if it cannot be resolved.
func goLeafType(t reflect.Type, path []string) string {
	for len(path) > 0 {
		for t.Kind() == reflect.Ptr {
			t = t.Elem()
		}
		switch {
		case t.Kind() == reflect.Slice && t.Elem().Kind() != reflect.Uint8:
			if len(path) >= 2 && path[0] == "list" && path[1] == "element" {
				path = path[2:]
			}
			t = t.Elem()
		case t.Kind() == reflect.Map:
			if len(path) < 2 || path[0] != "key_value" {
				return ""
			}
			if path[1] == "key" {
				t = t.Key()
			} else {
				t = t.Elem()
			}
			path = path[2:]
		case t.Kind() == reflect.Struct && t.String() != "time.Time":
			ft, ok := c03FieldType(t, path[0])
			if !ok {
				return ""
			}
			t, path = ft, path[1:]
		default:
			return ""
		}
	}
	for t.Kind() == reflect.Ptr || t.Kind() == reflect.Slice && t.Elem().Kind() != reflect.Uint8 {
		t = t.Elem()
	}
	return t.String()
}

// underOptionalValueStruct: some ancestor of the leaf at path is an optional schema node fed by a
// non-pointer Go struct field.
func underOptionalValueStruct(schema *parquet.Schema, t reflect.Type, path []string) bool {
	var n parquet.Node = schema
	for len(path) > 0 {
		for t.Kind() == reflect.Ptr {
			t = t.Elem()
		}
		switch {
		case t.Kind() == reflect.Slice && t.Elem().Kind() != reflect.Uint8:
			if len(path) >= 2 && path[0] == "list" && path[1] == "element" {
				n = fieldNamed(fieldNamed(n, "list"), "element")
				path = path[2:]
			}
			t = t.Elem()
		case t.Kind() == reflect.Struct && t.String() != "time.Time":
			ft, ok := c03FieldType(t, path[0])
			if !ok {
				return false
			}
			n = fieldNamed(n, path[0])
			if n == nil {
				return false
			}
			if n.Optional() && ft.Kind() == reflect.Struct && ft.String() != "time.Time" {
				return true
			}
			t, path = ft, path[1:]
		default:
			return false
		}
		if n == nil {
			return false
		}
	}
	return false
}

func fieldNamed(n parquet.Node, name string) parquet.Node {
	if n == nil || n.Leaf() {
		return nil
	}
	for _, f := range n.Fields() {
		if f.Name() == name {
			return f
		}
	}
	return nil
}

// colKey: column description for failure keys — repetition pattern of the ancestors, physical
// type, and the Go leaf type with the logical type when the leaf is not the plain image of its Go
// type (width tags, time, decimal, uuid, ...), so that defects of different conversions get
// different keys.
func colKey(e *gen.Entry, ci int) string {
	d := colDesc(e.Schema, ci)
	path := e.Schema.Columns()[ci]
	if underOptionalValueStruct(e.Schema, e.Type, path) {
		// an optional ancestor that is a NON-pointer Go struct (null = the zero struct): a wrapper
		// of its own on the typed path, so its defects get keys of their own
		d = strings.Replace(d, ":", "~struct:", 1)
	}
	leaf, _ := e.Schema.Lookup(path...)
	gt := goLeafType(e.Type, path)
	plain := map[string]string{"BOOLEAN": "bool", "FLOAT": "float32", "DOUBLE": "float64"}
	kind := leaf.Node.Type().Kind().String()
	switch {
	case gt == "" || plain[kind] == gt:
		return d
	case kind == "INT32" && (gt == "int32" || gt == "uint32") || kind == "INT64" && (gt == "int64" || gt == "uint64" || gt == "int" || gt == "uint"):
		if lt := leaf.Node.Type().LogicalType(); lt == nil || strings.HasPrefix(lt.String(), "INT(") {
			return d
		}
	case (kind == "BYTE_ARRAY" || kind == "FIXED_LEN_BYTE_ARRAY") && (gt == "string" || gt == "[]uint8" || strings.HasSuffix(gt, "]uint8")):
		if lt := leaf.Node.Type().LogicalType(); lt == nil || lt.String() == "STRING" || lt.String() == "UUID" && gt != "string" {
			return d
		}
	}
	s := d + "/" + gt
	if lt := leaf.Node.Type().LogicalType(); lt != nil {
		name, _, _ := strings.Cut(lt.String(), "(")
		s += ":" + name
	}
	return s
}

func c03Batches(r *rand.Rand, n int) []int {
	var b []int
	switch r.Intn(4) {
	case 0:
		return nil // one call
	case 1:
		for left := n; left > 0; {
			k := 1 + r.Intn(3)
			b = append(b, k)
			left -= k
		}
	case 2:
		for left := n; left > 0; {
			k := []int{63, 64, 65, 1, 7, 8, 9, 128}[r.Intn(8)]
			b = append(b, k)
			left -= k
		}
	default:
		for left := n; left > 0; {
			k := 1 + r.Intn(n)
			b = append(b, k)
			left -= k
		}
	}
	return b
}

func firstDiff(a, b [][]gen.Triple) (col int, idx int, desc string) {
	if len(a) != len(b) {
		return -1, 0, fmt.Sprintf("column count %d vs %d", len(a), len(b))
	}
	for c := range a {
		n := len(a[c])
		if len(b[c]) < n {
			n = len(b[c])
		}
		for i := 0; i < n; i++ {
			if a[c][i] != b[c][i] {
				return c, i, fmt.Sprintf("expected %v got %v", a[c][i], b[c][i])
			}
		}
		if len(a[c]) != len(b[c]) {
			return c, n, fmt.Sprintf("stream length expected %d got %d", len(a[c]), len(b[c]))
		}
	}
	return -2, 0, ""
}

// c03Types: the shared catalogue plus the round-3 extension types.
func c03Types() []*gen.Entry {
	out := append([]*gen.Entry(nil), gen.Catalog...)
	for _, e := range gen.ExtCatalog {
		if gen.ByName(e.Name) == nil {
			out = append(out, e)
		}
	}
	return out
}

// splitRows cuts a column stream into rows (a row starts at repetition level 0).
func splitRows(col []gen.Triple) [][]gen.Triple {
	var out [][]gen.Triple
	for _, t := range col {
		if t.Rep == 0 || len(out) == 0 {
			out = append(out, nil)
		}
		out[len(out)-1] = append(out[len(out)-1], t)
	}
	return out
}

// unorderedDiff compares streams up to the order of map entries: per column and per row the
// multisets of values, of repetition levels and of definition levels must agree (each of them is
// invariant under a permutation of the entries of any map of the row, nested maps included; the
// (rep, def) pairing is not, because the first entry of a map carries the parent's repetition
// level). A null / non-null flip of any position changes the multiset of definition levels.
func unorderedDiff(a, b [][]gen.Triple) (col int, row int, desc string) {
	if len(a) != len(b) {
		return -1, 0, fmt.Sprintf("column count %d vs %d", len(a), len(b))
	}
	for c := range a {
		ra, rb := splitRows(a[c]), splitRows(b[c])
		if len(ra) != len(rb) {
			return c, 0, fmt.Sprintf("row count expected %d got %d", len(ra), len(rb))
		}
		for i := range ra {
			for what, key := range map[string]func(gen.Triple) string{
				"values":            func(t gen.Triple) string { return fmt.Sprint(t.Null, t.Val) },
				"repetition levels": func(t gen.Triple) string { return fmt.Sprint(t.Rep) },
				"definition levels": func(t gen.Triple) string { return fmt.Sprint(t.Def) },
			} {
				ka, kb := make([]string, len(ra[i])), make([]string, len(rb[i]))
				for j, t := range ra[i] {
					ka[j] = key(t)
				}
				for j, t := range rb[i] {
					kb[j] = key(t)
				}
				sort.Strings(ka)
				sort.Strings(kb)
				if strings.Join(ka, ",") != strings.Join(kb, ",") {
					return c, i, fmt.Sprintf("%s of the row differ (as multisets): expected %v got %v", what, ra[i], rb[i])
				}
			}
		}
	}
	return -2, 0, ""
}

func RunC03(ctx *core.Ctx) {
	ctx.SetRule("catalogue of generated Go struct types (required/optional-tag/pointer/slice/list/nested list/struct/pointer-to-struct/slice-of-struct leaves of all physical kinds) x random rows with null-run patterns around multiples of 8 and 64 x write batchings x 8 ingestion paths (GenericWriter[T], Writer.Write(any), GenericBuffer[T], Buffer.Write(any), RowBuffer[T], WriteRows(Deconstruct), GenericWriter[any], GenericBuffer[any]); expected streams from the harness reference shredder, which is compared row by row with the Lean `shred` (theorem assemble_shred); non-trivial = at least one optional or repeated leaf column holding both null and non-null entries; " + c03nsRule)
	ncases := ctx.Scale(6, 60) // per catalogue entry
	var wg sync.WaitGroup
	sem := make(chan struct{}, 16)
	for ei, e := range c03Types() {
		wg.Add(1)
		sem <- struct{}{}
		go func(ei int, e *gen.Entry) {
			defer wg.Done()
			defer func() { <-sem }()
			d := ctx.Driver()
			r := ctx.Rand("c03/" + e.Name)
			nodeText := gen.NodeText(e.Schema)
			for k := 0; k < ncases; k++ {
				n := []int{1, 2, 3, 5, 17, 64, 65, 70, 130, 200}[r.Intn(10)]
				if k == 0 {
					n = 3
				}
				if k == 1 || r.Intn(12) == 0 {
					// more rows than any internal batching constant (64-row write chunks,
					// 512-value dictionary insert chunks)
					n = []int{513, 700, 1100}[r.Intn(3)]
				}
				if k == 2 {
					n = 2
				}
				prof := &gen.Profile{NullProb: []float64{0.1, 0.5, 0.9}[r.Intn(3)], MaxLen: 1 + r.Intn(4), SmallDomain: r.Intn(3) == 0, TagNulls: true}
				if r.Intn(2) == 0 {
					prof.RunLen = 70
				}
				if n > 500 {
					prof.SmallDomain = false // new dictionary values keep appearing late in the batch
					prof.MaxLen = 2
				} else if k == 2 || n <= 3 && r.Intn(3) == 0 {
					prof.LongLists = true // one row holding more list elements than any chunk size
					prof.SmallDomain = false
				}
				rows := e.NewRows(n)
				gen.FillRows(r, rows, prof)
				c03Case(ctx, d, e, nodeText, rows, c03Batches(r, n), r, ei == 0 && k == 0)
			}
		}(ei, e)
	}
	wg.Wait()
	// types with Go maps: entry order is unspecified, so the paths are compared value-wise:
	// re-assembly of the shredded row, and every ingestion path read back with Read[T]
	for _, e := range append(append([]*gen.Entry(nil), gen.MapCatalog...), gen.MapValueOptCatalog...) {
		r := ctx.Rand("c03map/" + e.Name)
		mapTag := "map"
		if e.Shape != "" {
			mapTag = "map shape=" + e.Shape // a field shape of its own: its defects get keys of their own
		}
		for k := 0; k < ctx.Scale(40, 400); k++ {
			n := 1 + r.Intn(6)
			rows := e.NewRows(n)
			gen.FillRows(r, rows, &gen.Profile{NullProb: 0.3, MaxLen: 3, TagNulls: true})
			ctx.Case(fmt.Sprintf("%s/%d/%v", e.Name, k, rows.Interface()), true)
			// reference streams, map entries in key order
			var all gen.Shredder
			var valTexts []string
			for i := 0; i < n; i++ {
				valTexts = append(valTexts, all.ShredRow(e.Schema, rows.Index(i)))
			}
			back, err := e.Reconstruct(rows.Interface())
			if err != nil && e.OpenReadBack != "" {
				ctx.Fail("L1", e.OpenReadBack+" api=reconstruct "+errClass(err), "Schema.Reconstruct(Deconstruct(v)) failed: "+err.Error(), map[string]any{"type": e.Name, "rows": fmt.Sprintf("%+v", rows.Interface())})
			} else if err != nil {
				ctx.Fail("L1", "reconstruct-error "+mapTag+" "+errClass(err), "Schema.Reconstruct(Deconstruct(v)) failed: "+err.Error(), map[string]any{"type": e.Name, "rows": fmt.Sprintf("%+v", rows.Interface())})
			} else if ok, diff := gen.CanonEqualOpt(rows, reflect.ValueOf(back), e.Name); !ok {
				ctx.Fail("L1", "reconstruct-differs "+mapTag, "Schema.Reconstruct(Deconstruct(v)) differs from v: "+diff, map[string]any{"type": e.Name, "rows": fmt.Sprintf("%+v", rows.Interface()), "diff": diff})
			}
			for _, p := range c03Paths {
				file, err := p.write(e, rows.Interface(), nil, r)
				if err != nil {
					ctx.Fail("L1", "path-error "+mapTag+" path="+p.name+" "+errClass(err), "ingestion path failed on a valid value: "+err.Error(), map[string]any{"type": e.Name, "rows": fmt.Sprintf("%+v", rows.Interface())})
					continue
				}
				// the stored streams, up to the order of map entries: which positions are null
				// (definition levels) is the same on every path
				if cols, err := gen.ReadColumns(file); err != nil {
					ctx.Fail("L1", "readback-error "+mapTag+" path="+p.name+" "+errClass(err), "stored streams cannot be read back: "+err.Error(), map[string]any{"type": e.Name, "rows": fmt.Sprintf("%+v", rows.Interface())})
				} else if c, i, desc := unorderedDiff(all.Cols, cols); c != -2 {
					cd := "?"
					if c >= 0 {
						cd = colKey(e, c)
					}
					ctx.Fail("L1", "stream-mismatch "+mapTag+" path="+p.name+" col="+cd,
						fmt.Sprintf("path %s stores a different Dremel stream than the documented mapping (compared up to map entry order): column %d row %d: %s", p.name, c, i, desc),
						map[string]any{"type": e.Name, "path": p.name, "schema": gen.NodeText(e.Schema), "rows": valTexts, "go_rows": fmt.Sprintf("%+v", rows.Interface()), "column": c, "row": i})
				}
				got, err := e.ReadAll(bytes.NewReader(file), int64(len(file)))
				if err != nil && e.OpenReadBack != "" {
					ctx.Fail("L1", e.OpenReadBack+" api=read "+errClass(err), "Read[T] of the file written by path "+p.name+" failed: "+err.Error(), map[string]any{"type": e.Name, "path": p.name, "rows": fmt.Sprintf("%+v", rows.Interface())})
				} else if err != nil {
					ctx.Fail("L1", "readback-error "+mapTag+" path="+p.name+" "+errClass(err), err.Error(), map[string]any{"type": e.Name, "rows": fmt.Sprintf("%+v", rows.Interface())})
				} else if ok, diff := gen.CanonEqual(rows, reflect.ValueOf(got), e.Name); !ok {
					ctx.Fail("L1", "value-mismatch "+mapTag+" path="+p.name, "rows read back differ: "+diff, map[string]any{"type": e.Name, "rows": fmt.Sprintf("%+v", rows.Interface()), "diff": diff})
				}
			}
		}
	}
	// undocumented shapes: what each path does is an observation, never a failure
	for _, e := range gen.OddCatalog {
		r := ctx.Rand("c03odd/" + e.Name)
		rows := e.NewRows(4)
		gen.FillRows(r, rows, &gen.Profile{NullProb: 0.5, MaxLen: 3})
		for _, p := range c03Paths {
			outcome := "stores the rows"
			if _, err := p.write(e, rows.Interface(), nil, r); err != nil {
				outcome = errClass(err)
			}
			ctx.Observe("undocumented-shape type="+e.Name+" path="+p.name+" "+outcome,
				"a field shape outside the documented tags ("+e.Type.Field(0).Type.String()+") is accepted by SchemaOf; outcome of the path: "+outcome,
				map[string]any{"type": e.Name, "go_type": e.Type.Field(0).Type.String(), "rows": fmt.Sprintf("%+v", rows.Interface())})
		}
	}
	for name, why := range gen.Skipped {
		ctx.Hist("catalogue-type-rejected-by-SchemaOf", name+": "+why)
	}
}

func c03Case(ctx *core.Ctx, d interface {
	AskMany([]string) ([]string, error)
}, e *gen.Entry, nodeText string, rows reflect.Value, batches []int, r *rand.Rand, sample bool) {
	n := rows.Len()
	// reference streams (documented mapping) + Lean shred per row
	var all gen.Shredder
	var reqs []string
	var rowCols []string
	var valTexts []string
	for i := 0; i < n; i++ {
		var one gen.Shredder
		vt := one.ShredRow(e.Schema, rows.Index(i))
		all.ShredRow(e.Schema, rows.Index(i))
		reqs = append(reqs, "shred "+nodeText+" "+vt)
		rowCols = append(rowCols, one.ColsText())
		valTexts = append(valTexts, vt)
	}
	expected := all.Cols
	nontrivial := false
	for _, c := range expected {
		hasNull, hasVal := false, false
		for _, t := range c {
			if t.Null {
				hasNull = true
			} else {
				hasVal = true
			}
		}
		if hasNull && hasVal {
			nontrivial = true
		}
	}
	canon := e.Name + "|" + strings.Join(valTexts, "|") + fmt.Sprint(batches)
	ctx.Case(canon, nontrivial)
	ctx.Hist("rows", fmt.Sprint(n))
	if sample {
		ctx.Sample(map[string]any{"type": e.Name, "schema": nodeText, "row0": valTexts[0], "row0_streams": rowCols[0], "batches": fmt.Sprint(batches)})
	}
	if d != nil {
		ans, err := d.AskMany(reqs)
		if err != nil {
			ctx.Fail("L2", "driver-error", err.Error(), nil)
		}
		for i, a := range ans {
			want := "ok 1 1 " + rowCols[i] + " " + valTexts[i]
			if a != want {
				ctx.Fail("L2", "reference-shredder-vs-lean-shred", "harness reference shredder and the Lean model disagree (or the value does not conform / round-trip in the model)",
					map[string]any{"type": e.Name, "schema": nodeText, "value": valTexts[i], "harness": want, "lean": a})
			}
		}
	}
	// every ingestion path must store exactly these streams
	for _, p := range c03Paths {
		file, err := p.write(e, rows.Interface(), batches, r)
		if err != nil {
			ctx.Fail("L1", "path-error path="+p.name+" "+errClass(err), "ingestion path failed on a valid value: "+err.Error(),
				map[string]any{"type": e.Name, "path": p.name, "rows": valTexts, "batches": batches})
			continue
		}
		got, err := gen.ReadColumns(file)
		if err != nil {
			ctx.Fail("L1", "readback-error path="+p.name+" "+errClass(err), "stored streams cannot be read back: "+err.Error(),
				map[string]any{"type": e.Name, "path": p.name, "rows": valTexts, "batches": batches})
			continue
		}
		ctx.Hist("path", p.name)
		if c, i, desc := firstDiff(expected, got); c != -2 {
			cd := "?"
			if c >= 0 {
				cd = colKey(e, c)
			}
			ctx.Fail("L1", "stream-mismatch path="+p.name+" col="+cd,
				fmt.Sprintf("path %s stores a different Dremel stream than the documented mapping: column %d entry %d: %s", p.name, c, i, desc),
				map[string]any{"type": e.Name, "path": p.name, "schema": nodeText, "rows": valTexts, "batches": batches, "column": c, "index": i})
		}
	}
	// re-assembling a shredded row yields the original value
	back, err := e.Reconstruct(rows.Interface())
	if err != nil {
		ctx.Fail("L1", "reconstruct-error "+errClass(err), "Schema.Reconstruct(Deconstruct(v)) failed: "+err.Error(), map[string]any{"type": e.Name, "rows": valTexts})
	} else if ok, diff := gen.CanonEqualOpt(rows, reflect.ValueOf(back), e.Name); !ok {
		ctx.Fail("L1", "reconstruct-differs", "Schema.Reconstruct(Deconstruct(v)) differs from v: "+diff, map[string]any{"type": e.Name, "rows": valTexts, "diff": diff})
	}
}

// errClass maps an error to a short stable class for failure keys.
func errClass(err error) string {
	s := err.Error()
	if strings.HasPrefix(s, "PANIC") {
		if len(s) > 60 {
			s = s[:60]
		}
		return "panic:" + strings.Map(func(r rune) rune {
			if r >= '0' && r <= '9' {
				return '#'
			}
			return r
		}, s)
	}
	if len(s) > 40 {
		s = s[:40]
	}
	return "err:" + strings.Map(func(r rune) rune {
		if r >= '0' && r <= '9' {
			return '#'
		}
		return r
	}, s)
}
