package props

import (
	"fmt"
	"io"
	"math/rand"
	"strings"
	"sync"

	"github.com/parquet-go/parquet-go"
	"github.com/parquet-go/parquet-go/encoding"

	"verifharness/core"
)

// C08/pageslice: optionalPage.Slice, repeatedPage.Slice and the ReadValues loops of both page kinds
// against their Lean mirrors (lean/PqModel/PageSlice.lean, PageValues.lean; driver ops pslice.run
// and pvalues.run; theorems in Props/C08PageSlice.lean).
//
// A case is a page built directly from generated level arrays (hooks VerifNewOptionalPage /
// VerifNewRepeatedPage over an int32 base page holding the non-null values) — so that shapes no
// writer of this library produces are reached too: pages beginning inside a row, pages without a
// row start, definition levels of any pattern — and either a slice (i, j) or a list of buffer
// sizes for ReadValues together with a schedule of short reads of the base page's reader.
//
//	L1  Slice(i, j) holds exactly rows i..j-1 of the page: NumRows, NumValues, NumNulls and the
//	    (repetition level, definition level, value) triples read back through Values() with
//	    arbitrary buffer sizes and short reads below; a slice of a slice is the slice of the sums;
//	    reading a whole page returns the triples the level arrays and the base values spell out
//	    (oracle written from the Dremel reading of the arrays, independent of the mirror).
//	L2  the three arrays of the sliced page == pslice.run; every ReadValues call (count, io.EOF or
//	    not, the triples) == pvalues.run, calls after io.EOF included, also on pages whose base holds
//	    fewer values than the definition levels announce.
//
// The base page is an int32 page or a boolean page (whose own Slice shares bytes and keeps a bit
// offset). Two more case kinds slice the base pages that have index arithmetic of their own, twice
// in a row: boolean pages (L1 values i..j-1; L2 bytes, bit offset, count and values == bslice.run,
// through the hook VerifBooleanPageState) and byte array pages (L1; L2 offsets and values ==
// baslice.run). Observation (never a failure): Data() of a boolean slice that starts inside a byte.
func init() { RegisterSub("C08", "pageslice", RunC08PageSlice) }

const c08psRule = "C08/pageslice: pages built from level arrays (optional: max definition level 1..3; repeated: max repetition level 1..2, max definition level 1..4, with or without a leading fragment of a row begun earlier, rows of 1..n slots, pages without any row start; 0..130 slots around 0,1,2,7..9,31..33,63..65,127..129; definition levels uniform / all defined / all null / runs with boundaries around multiples of 8) x every (i, j) with i <= j <= NumRows on pages of up to 6 rows, edge and random pairs beyond x buffer sizes 1..200 and base reader short-read schedules, over an int32 or a boolean base page; boolean pages of 0..129 values in runs, sliced at (i, j) and again at (a, b) (bit offsets 0..7 twice); byte array pages of 0..129 values of 0..9 bytes sliced twice likewise; non-trivial = the page holds both a null and a value and (slice: 0 < i < j < NumRows; read: more than one call before io.EOF; boolean: both slices start off a byte boundary and the second is a proper non-empty one; byte array: both slices are inner, the second non-empty)"

type c08psPage struct {
	kind           byte // 'o' optional, 'r' repeated
	maxRep, maxDef byte
	rep, dfn       []byte
	base           []int32
	short          bool // base holds fewer values than the definition levels announce
	boolBase       bool // the base page is a boolean page (bit-packed, sliced by bit offset); values are 0/1
}

type c08psTriple struct {
	rep, def byte
	null     bool
	v        int32
}

var c08psSizes = []int{0, 1, 2, 3, 4, 5, 6, 7, 8, 9, 15, 16, 17, 31, 32, 33, 63, 64, 65, 100, 127, 128, 129}
var c08psRuns = []int{1, 1, 2, 3, 7, 8, 9, 15, 16, 17, 24}
var c08psBufs = []int{1, 1, 2, 3, 7, 8, 9, 37, 64, 200}

func c08psGen(r *rand.Rand) *c08psPage {
	p := &c08psPage{kind: 'r'}
	if r.Intn(5) < 2 {
		p.kind = 'o'
	}
	n := c08psSizes[r.Intn(len(c08psSizes))]
	if r.Intn(2) == 0 {
		n = r.Intn(14)
	}
	if p.kind == 'o' {
		p.maxDef = byte(1 + r.Intn(3))
	} else {
		p.maxRep = byte(1 + r.Intn(2))
		p.maxDef = byte(1 + r.Intn(4))
	}
	p.dfn = make([]byte, n)
	switch mode := r.Intn(6); mode {
	case 0: // all defined
		for i := range p.dfn {
			p.dfn[i] = p.maxDef
		}
	case 1: // all null
		for i := range p.dfn {
			p.dfn[i] = byte(r.Intn(int(p.maxDef)))
		}
	case 2, 3: // runs
		def := r.Intn(2) == 0
		for i := 0; i < n; {
			l := c08psRuns[r.Intn(len(c08psRuns))]
			for k := 0; k < l && i < n; k, i = k+1, i+1 {
				if def {
					p.dfn[i] = p.maxDef
				} else {
					p.dfn[i] = byte(r.Intn(int(p.maxDef)))
				}
			}
			def = !def
		}
	default:
		for i := range p.dfn {
			p.dfn[i] = byte(r.Intn(int(p.maxDef) + 1))
		}
	}
	if p.kind == 'r' {
		p.rep = make([]byte, n)
		frag := 0
		if n > 0 && r.Intn(4) == 0 {
			frag = 1 + r.Intn(3)
			if r.Intn(8) == 0 {
				frag = n // no row start at all
			}
		}
		pz := []int{10, 50, 90, 100}[r.Intn(4)]
		for i := range p.rep {
			if i < frag || (i > frag && r.Intn(100) >= pz) {
				p.rep[i] = byte(1 + r.Intn(int(p.maxRep)))
			}
		}
	}
	p.boolBase = r.Intn(3) == 0
	for _, d := range p.dfn {
		if d == p.maxDef {
			if p.boolBase {
				p.base = append(p.base, int32(r.Intn(2)))
			} else {
				p.base = append(p.base, int32(1000+len(p.base)))
			}
		}
	}
	if len(p.base) > 0 && r.Intn(10) == 0 {
		p.short = true
		p.base = p.base[:len(p.base)-1-r.Intn(min(3, len(p.base)))]
	}
	return p
}

// c08psCapPage is a base page whose value reader delivers at most the next cap of the schedule per
// call (no cap once the schedule is used up): what a page reader is allowed to do.
type c08psCapPage struct {
	parquet.Page
	caps *[]int
}

func (p c08psCapPage) Values() parquet.ValueReader {
	return &c08psCapReader{r: p.Page.Values(), caps: p.caps}
}
func (p c08psCapPage) Slice(i, j int64) parquet.Page {
	return c08psCapPage{p.Page.Slice(i, j), p.caps}
}

type c08psCapReader struct {
	r    parquet.ValueReader
	caps *[]int
}

func (r *c08psCapReader) ReadValues(vs []parquet.Value) (int, error) {
	if len(*r.caps) > 0 {
		c := max((*r.caps)[0], 1)
		*r.caps = (*r.caps)[1:]
		if c < len(vs) {
			vs = vs[:c]
		}
	}
	return r.r.ReadValues(vs)
}

func (p *c08psPage) build(caps *[]int) parquet.Page {
	var base parquet.Page
	if p.boolBase {
		base = parquet.BooleanType.NewPage(0, len(p.base), encoding.BooleanValues(c08psPack(p.base)))
	} else {
		base = parquet.Int32Type.NewPage(0, len(p.base), encoding.Int32Values(append([]int32{}, p.base...)))
	}
	if caps != nil {
		base = c08psCapPage{base, caps}
	}
	if p.kind == 'o' {
		return parquet.VerifNewOptionalPage(base, p.maxDef, append([]byte{}, p.dfn...))
	}
	return parquet.VerifNewRepeatedPage(base, p.maxRep, p.maxDef, append([]byte{}, p.rep...), append([]byte{}, p.dfn...))
}

// oracle: the stream of the page, read off the arrays (stops where the base runs out)
func (p *c08psPage) triples() []c08psTriple {
	var out []c08psTriple
	k := 0
	for i, d := range p.dfn {
		t := c08psTriple{def: d, null: d != p.maxDef}
		if p.kind == 'r' {
			t.rep = p.rep[i]
		}
		if !t.null {
			if k == len(p.base) {
				break
			}
			t.v = p.base[k]
			k++
		}
		out = append(out, t)
	}
	return out
}

// oracle: the rows of a stream (optional: one slot per row; repeated: a row starts at every
// repetition level 0, what precedes the first one belongs to no row of this page)
func (p *c08psPage) rows(ts []c08psTriple) [][]c08psTriple {
	var rows [][]c08psTriple
	for _, t := range ts {
		if p.kind == 'o' || t.rep == 0 {
			rows = append(rows, nil)
		}
		if len(rows) > 0 {
			rows[len(rows)-1] = append(rows[len(rows)-1], t)
		}
	}
	return rows
}

func c08psShow(ts []c08psTriple) string {
	if len(ts) == 0 {
		return "-"
	}
	var sb strings.Builder
	for i, t := range ts {
		if i > 0 {
			sb.WriteByte('|')
		}
		if t.null {
			fmt.Fprintf(&sb, "%d.%d.n", t.rep, t.def)
		} else {
			fmt.Fprintf(&sb, "%d.%d.%d", t.rep, t.def, t.v)
		}
	}
	return sb.String()
}

// c08psRead calls ReadValues once per size on dirty buffers; returns the per-call tokens of the
// protocol, the triples delivered up to the first io.EOF, whether io.EOF was seen, the number of
// calls before it, and whether every value carried column index 0.
func c08psRead(pg parquet.Page, sizes []int) (toks []string, upto []c08psTriple, sawEOF bool, callsBefore int, colOK bool) {
	vr := pg.Values()
	colOK = true
	junk := parquet.ValueOf(int64(-7)).Level(5, 6, 3)
	for _, sz := range sizes {
		buf := make([]parquet.Value, sz)
		for i := range buf {
			buf[i] = junk
		}
		n, err := vr.ReadValues(buf)
		ts := make([]c08psTriple, 0, max(n, 0))
		for _, v := range buf[:max(n, 0)] {
			t := c08psTriple{rep: byte(v.RepetitionLevel()), def: byte(v.DefinitionLevel()), null: v.IsNull()}
			if !t.null {
				if v.Kind() == parquet.Boolean {
					if v.Boolean() {
						t.v = 1
					}
				} else {
					t.v = v.Int32()
				}
			}
			if v.Column() != 0 {
				colOK = false
			}
			ts = append(ts, t)
		}
		e := "0"
		switch {
		case err == io.EOF:
			e = "1"
		case err != nil:
			e = "E"
		}
		toks = append(toks, fmt.Sprintf("%d:%s:%s", n, e, c08psShow(ts)))
		if !sawEOF {
			upto = append(upto, ts...)
			if err != nil {
				sawEOF = err == io.EOF
				if !sawEOF {
					return
				}
			} else {
				callsBefore++
			}
		}
	}
	return
}

// the values the base page of pg holds: Data() of an int32 base; for a boolean base (whose Data()
// are the shared bytes) the non-null values its reader delivers
func c08psBaseInts(pg parquet.Page, boolBase bool) string {
	if !boolBase {
		data := pg.Data()
		return core.JoinInts(data.Int32())
	}
	_, ts, _, _, _ := c08psRead(pg, []int{int(pg.NumValues()) + 1})
	var vs []int32
	for _, t := range ts {
		if !t.null {
			vs = append(vs, t.v)
		}
	}
	return core.JoinInts(vs)
}

// PLAIN bit-packing, least significant bit first
func c08psPack(vs []int32) []byte {
	out := make([]byte, (len(vs)+7)/8)
	for i, v := range vs {
		if v != 0 {
			out[i/8] |= 1 << (i % 8)
		}
	}
	return out
}

// ---- byteArrayPage.Slice: the offsets window (baslice.run)
func c08psBytes(ctx *core.Ctx, r *rand.Rand, pend *[]c08psPending) {
	n := c08psSizes[r.Intn(len(c08psSizes))]
	if r.Intn(2) == 0 {
		n = r.Intn(10)
	}
	var data []byte
	offs := []uint32{0}
	vals := make([]string, n)
	for k := 0; k < n; k++ {
		l := []int{0, 0, 1, 1, 2, 3, 9}[r.Intn(7)]
		for x := 0; x < l; x++ {
			data = append(data, byte(r.Intn(256)))
		}
		offs = append(offs, uint32(len(data)))
		vals[k] = string(data[offs[k]:])
	}
	i := r.Intn(n + 1)
	j := i + r.Intn(n+1-i)
	switch r.Intn(6) {
	case 0:
		i, j = 0, n
	case 1:
		j = n
	case 2:
		i = 0
	}
	a := r.Intn(j - i + 1)
	b := a + r.Intn(j-i+1-a)
	detail := map[string]any{"bytes": core.JoinInts(data), "offsets": core.JoinInts(offs), "i": i, "j": j, "a": a, "b": b}
	show := func(pg parquet.Page) (string, []string) {
		d := pg.Data()
		_, o := d.ByteArray()
		vr := pg.Values()
		buf := make([]parquet.Value, int(pg.NumValues())+1)
		m, _ := vr.ReadValues(buf)
		vs := make([]string, m)
		txt := make([]string, m)
		for k, v := range buf[:m] {
			vs[k] = string(v.ByteArray())
			txt[k] = "e"
			if len(vs[k]) > 0 {
				txt[k] = strings.ReplaceAll(core.JoinInts([]byte(vs[k])), ",", ".")
			}
		}
		t := "-"
		if m > 0 {
			t = strings.Join(txt, "|")
		}
		return core.JoinInts(o) + " " + t, vs
	}
	var s1, s2 string
	var v1, v2 []string
	ok := func() (ok bool) {
		defer func() {
			if rec := recover(); rec != nil {
				ctx.Fail("L1", "pageslice-panic byte-array", fmt.Sprintf("byteArrayPage.Slice panicked: %v", rec), detail)
				ok = false
			}
		}()
		pg := parquet.ByteArrayType.NewPage(0, n, encoding.ByteArrayValues(append([]byte{}, data...), append([]uint32{}, offs...)))
		sl := pg.Slice(int64(i), int64(j))
		s1, v1 = show(sl)
		s2, v2 = show(sl.Slice(int64(a), int64(b)))
		return true
	}()
	if !ok {
		return
	}
	ctx.Case(fmt.Sprintf("baslice %s %s %d %d %d %d", core.JoinInts(data), core.JoinInts(offs), i, j, a, b), i > 0 && j < n && a > 0 && a < b)
	ctx.Hist("pageslice byte array slice", map[bool]string{true: "inner twice", false: "touches an edge or empty"}[i > 0 && j < n && a > 0 && a < b])
	eq := func(x, y []string) bool {
		if len(x) != len(y) {
			return false
		}
		for k := range x {
			if x[k] != y[k] {
				return false
			}
		}
		return true
	}
	if !eq(v1, vals[i:j]) || !eq(v2, vals[i+a:i+b]) {
		d := map[string]any{"slice": s1, "slice_of_slice": s2}
		for k, v := range detail {
			d[k] = v
		}
		ctx.Fail("L1", "pageslice-wrong-rows byte-array", "the values of byteArrayPage.Slice(i,j) (or of a slice of it) are not values i..j-1", d)
	}
	*pend = append(*pend, c08psPending{
		req:  fmt.Sprintf("baslice.run %s %s %d %d %d %d", core.JoinInts(data), core.JoinInts(offs), i, j, a, b),
		real: "ok " + s1 + " " + s2, key: "pageslice-mirror byte-array",
		what: "offsets or values of byteArrayPage.Slice differ from the Lean mirror (baslice.run)", detail: detail})
}

// ---- booleanPage.Slice at the bit level (bslice.run)
func c08psBool(ctx *core.Ctx, r *rand.Rand, pend *[]c08psPending) {
	n := c08psSizes[r.Intn(len(c08psSizes))]
	vals := make([]int32, n)
	bit := int32(r.Intn(2))
	for i := 0; i < n; {
		l := c08psRuns[r.Intn(len(c08psRuns))]
		if r.Intn(2) == 0 {
			l = 1
		}
		for k := 0; k < l && i < n; k, i = k+1, i+1 {
			vals[i] = bit
		}
		bit = 1 - bit
	}
	i := r.Intn(n + 1)
	j := i + r.Intn(n+1-i)
	switch r.Intn(6) {
	case 0:
		i, j = 0, n
	case 1:
		j = n
	case 2:
		i = min(n, 8*r.Intn(3))
		j = max(i, j)
	}
	a := r.Intn(j - i + 1)
	b := a + r.Intn(j-i+1-a)
	packed := c08psPack(vals)
	detail := map[string]any{"values": core.JoinInts(vals), "i": i, "j": j, "a": a, "b": b}
	show := func(pg parquet.Page) (string, []int32, bool) {
		bits, off, nv, ok := parquet.VerifBooleanPageState(pg)
		if !ok {
			return "not-a-boolean-page", nil, false
		}
		_, ts, _, _, _ := c08psRead(pg, []int{int(pg.NumValues()) + 1})
		vs := make([]int32, len(ts))
		for k, t := range ts {
			vs[k] = t.v
		}
		data := pg.Data()
		aligned := true // the first numValues bits of Data() are the values
		for k, v := range vs {
			if db := data.Boolean(); k/8 >= len(db) || int32(db[k/8]>>(k%8))&1 != v {
				aligned = false
			}
		}
		return fmt.Sprintf("%s %d %d %s", core.JoinInts(bits), off, nv, core.JoinInts(vs)), vs, aligned
	}
	var s1, s2 string
	var v1, v2 []int32
	var al1 bool
	ok := func() (ok bool) {
		defer func() {
			if rec := recover(); rec != nil {
				ctx.Fail("L1", "pageslice-panic boolean", fmt.Sprintf("booleanPage.Slice panicked: %v", rec), detail)
				ok = false
			}
		}()
		pg := parquet.BooleanType.NewPage(0, n, encoding.BooleanValues(append([]byte{}, packed...)))
		sl := pg.Slice(int64(i), int64(j))
		s1, v1, al1 = show(sl)
		s2, v2, _ = show(sl.Slice(int64(a), int64(b)))
		return true
	}()
	if !ok {
		return
	}
	ctx.Case(fmt.Sprintf("bslice %s %d %d %d %d", core.JoinInts(vals), i, j, a, b), i%8 != 0 && (i+a)%8 != 0 && a > 0 && a < b)
	al := map[bool]string{true: "byte boundary", false: "inside a byte"}
	ctx.Hist("pageslice boolean slice starts", al[i%8 == 0]+", then "+al[(i+a)%8 == 0])
	eq := func(x, y []int32) bool { return core.JoinInts(x) == core.JoinInts(y) }
	if !eq(v1, vals[i:j]) || !eq(v2, vals[i+a:i+b]) {
		d := map[string]any{"slice": s1, "slice_of_slice": s2}
		for k, v := range detail {
			d[k] = v
		}
		ctx.Fail("L1", "pageslice-wrong-rows boolean", "the values of booleanPage.Slice(i,j) (or of a slice of it) are not values i..j-1", d)
	}
	if !al1 && j > i {
		ctx.Observe("boolean-slice-data-unaligned", "Data() of a boolean page sliced at a row that is not a multiple of 8 returns the bytes shared with the parent page: its first bit is not the first value of the slice (Values() is right; nothing in the library encodes Data() of a sliced page)", detail)
	}
	*pend = append(*pend, c08psPending{
		req:  fmt.Sprintf("bslice.run %s 0 %d %d %d %d %d", core.JoinInts(packed), n, i, j, a, b),
		real: "ok " + s1 + " " + s2, key: "pageslice-mirror boolean",
		what: "bytes, bit offset, count or values of booleanPage.Slice differ from the Lean mirror (bslice.run)", detail: detail})
}

func c08psBucket(n int) string {
	switch {
	case n <= 2:
		return fmt.Sprint(n)
	case n <= 9:
		return "3..9"
	case n <= 33:
		return "10..33"
	case n <= 65:
		return "34..65"
	default:
		return ">65"
	}
}

func c08psGenSizes(r *rand.Rand, slots int) []int {
	var sizes []int
	sum := 0
	fixed := 0
	if r.Intn(3) == 0 {
		fixed = c08psBufs[r.Intn(len(c08psBufs))]
	}
	for sum <= slots+1 && len(sizes) < 300 {
		s := fixed
		if s == 0 {
			s = c08psBufs[r.Intn(len(c08psBufs))]
		}
		sizes = append(sizes, s)
		sum += s
	}
	if r.Intn(8) == 0 && len(sizes) > 1 { // a caller that stops early
		sizes = sizes[:1+r.Intn(len(sizes)-1)]
	} else {
		sizes = append(sizes, 1+r.Intn(4)) // one more call after io.EOF
	}
	return sizes
}

func c08psGenCaps(r *rand.Rand) []int {
	if r.Intn(3) == 0 {
		return nil
	}
	caps := make([]int, r.Intn(40))
	for i := range caps {
		caps[i] = []int{1, 1, 2, 3, 8, 1000}[r.Intn(6)]
	}
	return caps
}

func (p *c08psPage) text() string {
	rep := "-"
	if p.kind == 'r' {
		rep = core.JoinInts(p.rep)
	}
	return fmt.Sprintf("%c %d %s %s %s", p.kind, p.maxDef, rep, core.JoinInts(p.dfn), core.JoinInts(p.base))
}

func (p *c08psPage) baseKind() string {
	if p.boolBase {
		return "boolean"
	}
	return "int32"
}

type c08psPending struct {
	req, real, key, what string
	detail               map[string]any
}

func c08psEq(a, b []c08psTriple) bool {
	if len(a) != len(b) {
		return false
	}
	for i := range a {
		if a[i] != b[i] {
			return false
		}
	}
	return true
}

func c08psFlat(rows [][]c08psTriple) []c08psTriple {
	var out []c08psTriple
	for _, r := range rows {
		out = append(out, r...)
	}
	return out
}

func c08psNulls(ts []c08psTriple) int {
	n := 0
	for _, t := range ts {
		if t.null {
			n++
		}
	}
	return n
}

func c08psOne(ctx *core.Ctx, r *rand.Rand, pend *[]c08psPending) {
	p := c08psGen(r)
	all := p.triples()
	rows := p.rows(all)
	nr := len(rows)
	mixed := c08psNulls(all) > 0 && c08psNulls(all) < len(all)
	kindText := map[byte]string{'o': "optional", 'r': "repeated"}[p.kind]
	ctx.Hist("pageslice page kind", kindText+map[bool]string{true: " short-base", false: ""}[p.short])
	ctx.Hist("pageslice slots", c08psBucket(len(p.dfn)))
	ctx.Hist("pageslice base page", p.baseKind())
	if p.kind == 'r' {
		switch {
		case len(p.rep) > 0 && nr == 0:
			ctx.Hist("pageslice page start", "no row start in the page")
		case len(p.rep) > 0 && p.rep[0] != 0:
			ctx.Hist("pageslice page start", "inside a row")
		default:
			ctx.Hist("pageslice page start", "row boundary")
		}
	}

	// ---- reading the whole page
	{
		sizes := c08psGenSizes(r, len(p.dfn))
		caps := c08psGenCaps(r)
		detail := map[string]any{"page": p.text(), "base_kind": p.baseKind(), "max_rep": p.maxRep, "sizes": core.JoinInts(sizes), "caps": core.JoinInts(caps)}
		run := append([]int{}, caps...)
		var toks []string
		var upto []c08psTriple
		var sawEOF, colOK bool
		var calls int
		func() {
			defer func() {
				if rec := recover(); rec != nil {
					ctx.Fail("L1", "pageslice-read-panic "+kindText, fmt.Sprintf("ReadValues panicked: %v", rec), detail)
					toks = nil
				}
			}()
			toks, upto, sawEOF, calls, colOK = c08psRead(p.build(&run), sizes)
		}()
		if toks != nil {
			ctx.Case("pvalues "+p.baseKind()+" "+p.text()+" "+core.JoinInts(sizes)+" "+core.JoinInts(caps), mixed && calls > 1)
			ctx.Hist("pageslice read calls before io.EOF", c08psBucket(calls))
			if sawEOF && !c08psEq(upto, all) || !sawEOF && (len(upto) > len(all) || !c08psEq(upto, all[:len(upto)])) || !colOK {
				d := map[string]any{"read": c08psShow(upto), "expected": c08psShow(all), "saw_eof": sawEOF, "column_ok": colOK}
				for k, v := range detail {
					d[k] = v
				}
				ctx.Fail("L1", "pageslice-read-wrong-values "+kindText, "the values read from a page are not the stream its level arrays and base values spell out", d)
			}
			*pend = append(*pend, c08psPending{
				req:  fmt.Sprintf("pvalues.run %s %s %s", p.text(), core.JoinInts(sizes), core.JoinInts(caps)),
				real: "ok " + strings.Join(toks, " "), key: "pageslice-values-mirror " + kindText,
				what: "the ReadValues calls on a page differ from the Lean mirror (pvalues.run)", detail: detail})
		}
	}
	if p.short {
		return // base.Slice would be out of range: outside what Slice is specified for
	}

	// ---- slices
	var pairs [][2]int
	if nr <= 6 {
		for i := 0; i <= nr; i++ {
			for j := i; j <= nr; j++ {
				pairs = append(pairs, [2]int{i, j})
			}
		}
	} else {
		pairs = append(pairs, [2]int{0, nr}, [2]int{nr, nr}, [2]int{0, 0}, [2]int{1, nr}, [2]int{0, nr - 1}, [2]int{nr - 1, nr})
		for t := 0; t < 6; t++ {
			i := r.Intn(nr + 1)
			pairs = append(pairs, [2]int{i, i + r.Intn(nr+1-i)})
		}
	}
	for _, ij := range pairs {
		i, j := ij[0], ij[1]
		want := c08psFlat(rows[i:j])
		sizes := c08psGenSizes(r, len(want))
		caps := c08psGenCaps(r)
		detail := map[string]any{"page": p.text(), "base_kind": p.baseKind(), "max_rep": p.maxRep, "i": i, "j": j, "page_rows": nr, "sizes": core.JoinInts(sizes), "caps": core.JoinInts(caps)}
		run := append([]int{}, caps...)
		var real string
		var upto []c08psTriple
		var sawEOF bool
		var numRows, numValues, numNulls int64
		var sub2 []c08psTriple
		a, b := 0, 0
		if j-i > 0 {
			a = r.Intn(j - i + 1)
			b = a + r.Intn(j-i+1-a)
		}
		ok := func() (ok bool) {
			defer func() {
				if rec := recover(); rec != nil {
					ctx.Fail("L1", "pageslice-panic "+kindText, fmt.Sprintf("Page.Slice(%d,%d) of a page of %d rows panicked: %v", i, j, nr, rec), detail)
					ok = false
				}
			}()
			pg := p.build(&run)
			sl := pg.Slice(int64(i), int64(j))
			numRows, numValues, numNulls = sl.NumRows(), sl.NumValues(), sl.NumNulls()
			real = fmt.Sprintf("ok %s %s %s", core.JoinInts(sl.RepetitionLevels()), core.JoinInts(sl.DefinitionLevels()), c08psBaseInts(sl, p.boolBase))
			_, upto, sawEOF, _, _ = c08psRead(sl, sizes)
			none := []int{}
			_, sub2, _, _, _ = c08psRead(p.build(&none).Slice(int64(i), int64(j)).Slice(int64(a), int64(b)), []int{len(want) + 1})
			return true
		}()
		if !ok {
			continue
		}
		inner := i > 0 && i < j && j < nr
		ctx.Case(fmt.Sprintf("pslice %s %s %d %d", p.baseKind(), p.text(), i, j), mixed && inner)
		ctx.Hist("pageslice slice", map[bool]string{true: "inner", false: "touches-page-edge-or-empty"}[inner])
		if int(numRows) != j-i || int(numValues) != len(want) || int(numNulls) != c08psNulls(want) ||
			(sawEOF && !c08psEq(upto, want)) || (!sawEOF && (len(upto) > len(want) || !c08psEq(upto, want[:len(upto)]))) {
			d := map[string]any{"num_rows": numRows, "num_values": numValues, "num_nulls": numNulls, "read": c08psShow(upto), "expected": c08psShow(want), "slice": real}
			for k, v := range detail {
				d[k] = v
			}
			ctx.Fail("L1", "pageslice-wrong-rows "+kindText, fmt.Sprintf("Slice(%d,%d) of a page of %d rows does not hold rows %d..%d", i, j, nr, i, j-1), d)
		}
		if want2 := c08psFlat(rows[i+a : i+b]); !c08psEq(sub2, want2) {
			d := map[string]any{"a": a, "b": b, "read": c08psShow(sub2), "expected": c08psShow(want2)}
			for k, v := range detail {
				d[k] = v
			}
			ctx.Fail("L1", "pageslice-slice-of-slice "+kindText, fmt.Sprintf("Slice(%d,%d).Slice(%d,%d) does not hold rows %d..%d", i, j, a, b, i+a, i+b-1), d)
		}
		*pend = append(*pend, c08psPending{
			req:  fmt.Sprintf("pslice.run %s %d %d", p.text(), i, j),
			real: real, key: "pageslice-mirror " + kindText,
			what: "the level arrays and base values of Page.Slice differ from the Lean mirror (pslice.run)", detail: detail})
	}
}

func RunC08PageSlice(ctx *core.Ctx) {
	npages := ctx.Scale(700, 12000)
	const workers = 16
	var wg sync.WaitGroup
	for w := 0; w < workers; w++ {
		wg.Add(1)
		go func(w int) {
			defer wg.Done()
			d := ctx.Driver()
			if d == nil {
				return
			}
			r := ctx.Rand(fmt.Sprintf("c08ps/%d", w))
			var pend []c08psPending
			flush := func() {
				if len(pend) == 0 {
					return
				}
				reqs := make([]string, len(pend))
				for i, c := range pend {
					reqs[i] = c.req
				}
				ans, err := d.AskMany(reqs)
				if err != nil {
					ctx.Fail("L2", "driver-error", err.Error(), nil)
					pend = pend[:0]
					return
				}
				for i, a := range ans {
					c := pend[i]
					if a != c.real {
						c.detail["request"], c.detail["model"], c.detail["impl"] = c.req, a, c.real
						ctx.Fail("L2", c.key, c.what, c.detail)
					}
				}
				pend = pend[:0]
			}
			for k := 0; k < npages; k++ {
				c08psOne(ctx, r, &pend)
				for t := 0; t < 4; t++ {
					c08psBool(ctx, r, &pend)
					c08psBytes(ctx, r, &pend)
				}
				if len(pend) >= 2000 {
					flush()
				}
			}
			flush()
		}(w)
	}
	wg.Wait()
}
