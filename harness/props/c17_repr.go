package props

import (
	"bytes"
	"fmt"
	"math/rand"
	"reflect"
	"sort"
	"strings"
	"sync"

	"github.com/parquet-go/parquet-go"

	"verifharness/core"
	"verifharness/gen"
)

// C17 "repr" (L1): "the same rows" means equal VALUES, not equal memory layouts. Every row set is
// written twice through every write path: as generated, and RESPELLED — each value replaced by an
// equal value with another representation:
//
//	""            <-> an empty string whose data pointer is not nil (the tail of a longer string)
//	"abc"         <-> the same bytes inside a longer string at an odd offset
//	[]byte{}      <-> an empty, non-nil slice with capacity, inside a larger array
//	[]byte("ab")  <-> the same bytes at an odd offset of a larger array, with spare capacity
//	[]T{...}      <-> a copy with spare capacity (nil stays nil, empty non-nil stays empty non-nil)
//	*T            <-> a newly allocated copy
//	map[K]V       <-> an equal map with another capacity hint, filled in another order
//
// The two files must be byte-identical (on each build; the cross-build sub-check carries
// respelled rows in its corpus too). Go map-typed values are excepted by the property: a
// difference on a type with maps is an observation, not a failure.
func init() { RegisterSub("C17", "repr", RunC17Repr) }

// built at run time so that no tail is a compile-time constant
var c17Arena = func() string {
	b := make([]byte, 4096)
	for i := range b {
		b[i] = byte('a' + i%26)
	}
	return string(b)
}()

type c17Respeller struct {
	r       *rand.Rand
	changed map[string]int
}

func (s *c17Respeller) str(v string) string {
	if len(v) == 0 {
		off := 1 + s.r.Intn(100)
		if s.r.Intn(2) == 0 {
			s.changed["empty string with non-nil data pointer (tail of a longer string)"]++
			return c17Arena[:off][off:] // s[len(s):]
		}
		s.changed["empty string with non-nil data pointer (middle of a longer string)"]++
		return c17Arena[off:off]
	}
	// the same bytes at an odd offset inside a longer string
	pad := 1 + 2*s.r.Intn(4)
	b := make([]byte, pad+len(v)+3)
	copy(b[pad:], v)
	for i := 0; i < pad; i++ {
		b[i] = 0xFF
	}
	s.changed["string inside a longer string at an odd offset"]++
	return string(b)[pad : pad+len(v)]
}

func (s *c17Respeller) value(v reflect.Value) reflect.Value {
	out := reflect.New(v.Type()).Elem()
	switch v.Kind() {
	case reflect.String:
		out.SetString(s.str(v.String()))
	case reflect.Ptr:
		if !v.IsNil() {
			p := reflect.New(v.Type().Elem())
			p.Elem().Set(s.value(v.Elem()))
			out.Set(p)
		}
	case reflect.Struct:
		t := v.Type()
		for i := 0; i < t.NumField(); i++ {
			if t.Field(i).IsExported() {
				out.Field(i).Set(s.value(v.Field(i)))
			} else {
				return v // cannot rebuild: keep the value as it is
			}
		}
	case reflect.Slice:
		if v.IsNil() {
			return v
		}
		n := v.Len()
		if v.Type().Elem().Kind() == reflect.Uint8 {
			pad := 1 + 2*s.r.Intn(4)
			arr := reflect.MakeSlice(v.Type(), pad+n+5, pad+n+5)
			for i := 0; i < arr.Len(); i++ {
				arr.Index(i).SetUint(0xFF)
			}
			reflect.Copy(arr.Slice(pad, pad+n), v)
			if n == 0 {
				s.changed["empty non-nil []byte inside a larger array"]++
			} else {
				s.changed["[]byte at an odd offset with spare capacity"]++
			}
			return arr.Slice(pad, pad+n) // capacity reaches to the end of the larger array
		}
		c := reflect.MakeSlice(v.Type(), n, n+1+s.r.Intn(4))
		for i := 0; i < n; i++ {
			c.Index(i).Set(s.value(v.Index(i)))
		}
		s.changed["slice copy with spare capacity"]++
		return c
	case reflect.Array:
		for i := 0; i < v.Len(); i++ {
			out.Index(i).Set(s.value(v.Index(i)))
		}
	case reflect.Map:
		// an equal map built the other way round: other capacity hint, keys inserted in descending
		// order (maps are excepted by the property; differences on such types are observations)
		if v.IsNil() {
			return v
		}
		m := reflect.MakeMapWithSize(v.Type(), 2*v.Len()+3)
		keys := v.MapKeys()
		sort.Slice(keys, func(i, j int) bool { return fmt.Sprint(keys[i].Interface()) > fmt.Sprint(keys[j].Interface()) })
		for _, k := range keys {
			m.SetMapIndex(s.value(k), s.value(v.MapIndex(k)))
		}
		s.changed["map rebuilt with another capacity and insertion order"]++
		return m
	default: // scalars, interfaces
		return v
	}
	return out
}

func c17Respell(r *rand.Rand, rows reflect.Value) (reflect.Value, map[string]int) {
	s := &c17Respeller{r: r, changed: map[string]int{}}
	out := reflect.MakeSlice(rows.Type(), rows.Len(), rows.Len())
	for i := 0; i < rows.Len(); i++ {
		out.Index(i).Set(s.value(rows.Index(i)))
	}
	return out, s.changed
}

func RunC17Repr(ctx *core.Ctx) {
	ctx.SetRule(c17Rule)
	ncases := ctx.Scale(6, 20)
	var wg sync.WaitGroup
	sem := make(chan struct{}, 16)
	for _, e := range gen.WithGeo() {
		wg.Add(1)
		sem <- struct{}{}
		go func(e *gen.Entry) {
			defer wg.Done()
			defer func() { <-sem }()
			r := ctx.Rand("c17r/" + e.Name)
			for k := 0; k < ncases; k++ {
				c17ReprCase(ctx, e, r)
			}
		}(e)
	}
	wg.Wait()
}

func c17ReprCase(ctx *core.Ctx, e *gen.Entry, r *rand.Rand) {
	n := []int{1, 2, 3, 9, 33, 64, 65, 100, 130}[r.Intn(9)]
	rows := c17GenRows(r, e, n, r.Intn(3) == 0)
	twin, changed := c17Respell(r, rows)
	cfg := c17RandCfg(r, e)
	batches := c01Batches(r, n)
	texts := c17RowTexts(e, rows)
	nchanged := 0
	for k, v := range changed {
		ctx.HistN("repr-respelled", k, int64(v))
		nchanged += v
	}
	ctx.Case("repr|"+e.Name+"|"+cfg.desc+"|"+strings.Join(texts, "|")+fmt.Sprint(batches), nchanged > 0)
	// the shredded text of the twin must be the text of the original: the respelling kept the values
	if t2 := c17RowTexts(e, twin); strings.Join(t2, "|") != strings.Join(texts, "|") {
		ctx.Fail("L2", "repr-respelling-changed-the-values", "harness defect: the respelled rows do not shred to the same values", map[string]any{"type": e.Name, "rows": texts, "respelled": t2})
		return
	}
	type path struct {
		name  string
		write func(w *bytes.Buffer, rows any) error
	}
	paths := []path{
		{"GenericWriter.Write", func(w *bytes.Buffer, rs any) error { return e.WriteGeneric(w, rs, batches, cfg.opts()...) }},
		{"Writer.Write", func(w *bytes.Buffer, rs any) error { return e.WriteReflect(w, rs, cfg.opts()...) }},
		{"GenericBuffer.Write+WriteRowGroup", func(w *bytes.Buffer, rs any) error { return e.WriteGenericBuffer(w, rs, batches, cfg.opts()...) }},
		{"Buffer.Write+WriteRowGroup", func(w *bytes.Buffer, rs any) error { return e.WriteBuffer(w, rs, cfg.opts()...) }},
		{"RowBuffer.Write+WriteRowGroup", func(w *bytes.Buffer, rs any) error { return e.WriteRowBuffer(w, rs, cfg.opts()...) }},
		{"Deconstruct+Writer.WriteRows", func(w *bytes.Buffer, rs any) error { return e.WriteRows(w, rs, cfg.opts()...) }},
	}
	if !ctx.Thorough() { // quick: the two main paths always, two of the others in rotation
		i := 2 + r.Intn(4)
		j := 2 + (i-2+1+r.Intn(3))%4
		paths = []path{paths[0], paths[1], paths[i], paths[j]}
	}
	for _, p := range paths {
		if p.write == nil {
			continue
		}
		var a, b bytes.Buffer
		errA := c17Guard(func() error { return p.write(&a, rows.Interface()) })
		errB := c17Guard(func() error { return p.write(&b, twin.Interface()) })
		ctx.Hist("repr-path", p.name)
		detail := map[string]any{"type": e.Name, "config": cfg.desc, "batches": batches, "rows": texts, "write_path": p.name,
			"respelled": changed, "variant": ctx.Variant}
		if errA != nil || errB != nil {
			if (errA == nil) != (errB == nil) || errClass(errA) != errClass(errB) {
				detail["as_generated"], detail["respelled_outcome"] = fmt.Sprint(errA), fmt.Sprint(errB)
				ctx.Fail("L1", "repr-write-outcome-differs "+c17HistKey(p.name), "writing equal rows ends differently depending on how the values are laid out in memory", detail)
			} else {
				ctx.Hist("reference-write-error", p.name+" "+errClass(errA))
			}
			continue
		}
		if bytes.Equal(a.Bytes(), b.Bytes()) {
			continue
		}
		class, label := c17DiffFiles(a.Bytes(), b.Bytes())
		if ca, err1 := gen.ReadColumns(a.Bytes()); err1 == nil {
			if cb, err2 := gen.ReadColumns(b.Bytes()); err2 != nil {
				class = "file-unreadable " + errClass(err2)
			} else if gen.ColsString(ca) != gen.ColsString(cb) {
				detail["byte_level_first_difference"] = class
				class = "stored-values-differ"
			}
		}
		detail["first_difference"] = label
		detail["as_generated_sha256"], detail["respelled_sha256"] = c17ShaFull(a.Bytes()), c17ShaFull(b.Bytes())
		detail["as_generated_len"], detail["respelled_len"] = a.Len(), b.Len()
		if e.HasMap {
			// Go map-typed values are excepted by the property (Schema.Deconstruct walks MapKeys in
			// Go's random order): a difference on a type with maps is reported, never a failure
			ctx.Observe("repr-map-typed-rows-different-bytes "+c17HistKey(p.name), "files of equal rows differ on a type with Go maps (excepted by C17)", detail)
			continue
		}
		ctx.Fail("L1", "repr-equal-rows-different-bytes "+class, fmt.Sprintf("%s: equal rows (same values, other memory layout: empty strings with a non-nil data pointer, values inside larger arrays, spare capacity) give different files; first difference: %s at %s",
			p.name, class, label), detail)
	}
}

var _ = parquet.Release
