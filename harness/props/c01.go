package props

import (
	"bytes"
	"fmt"
	"math/rand"
	"reflect"
	"strings"
	"sync"

	"verifharness/core"
	"verifharness/gen"
)

func init() { RegisterSub("C01", "roundtrip", RunC01) }

// batches with interleaved Flush (0 = Flush)
func c01Batches(r *rand.Rand, n int) []int {
	b := c03Batches(r, n)
	if r.Intn(3) == 0 {
		var out []int
		for _, k := range b {
			out = append(out, k)
			if r.Intn(3) == 0 {
				out = append(out, 0)
			}
		}
		return out
	}
	return b
}

func RunC01(ctx *core.Ctx) {
	ctx.SetRule("catalogue struct types x random rows (boundary values, NaN payloads, -0.0, empty/long byte strings, nil pointers, empty lists) x random writer configuration (page version, codec, page buffer size from 1 byte, MaxRowsPerRowGroup from 1, DictionaryMaxBytes from 1, statistics, index size limit, write buffer) x Write/Flush batching x {GenericWriter, Writer.Write} -> Close -> {Read[T], GenericReader with a batch size, Rows().ReadRows + stored streams vs the Lean-validated reference shredder}; non-trivial = a column with both nulls and values, and a non-default configuration")
	ncases := ctx.Scale(8, 120)
	var wg sync.WaitGroup
	sem := make(chan struct{}, 16)
	for _, e := range gen.Catalog {
		wg.Add(1)
		sem <- struct{}{}
		go func(e *gen.Entry) {
			defer wg.Done()
			defer func() { <-sem }()
			r := ctx.Rand("c01/" + e.Name)
			for k := 0; k < ncases; k++ {
				n := []int{0, 1, 2, 3, 9, 33, 64, 65, 100, 257, 300}[r.Intn(11)]
				if k == 1 || r.Intn(12) == 0 {
					n = []int{600, 1100, 2100}[r.Intn(3)]
				}
				prof := &gen.Profile{NullProb: []float64{0.1, 0.5, 0.9}[r.Intn(3)], MaxLen: 1 + r.Intn(4), SmallDomain: r.Intn(3) == 0}
				if r.Intn(3) == 0 {
					prof.RunLen = 70
				}
				if k == 2 {
					n = 2
				}
				if k == 2 || n <= 3 && n > 0 && r.Intn(3) == 0 {
					prof.LongLists = true
					prof.SmallDomain = false
				}
				rows := e.NewRows(n)
				gen.FillRows(r, rows, prof)
				cfg := gen.RandWriterCfg(r)
				if k == 2 {
					// default page buffer and dictionary limits: the whole list reaches the
					// column writer and its dictionary in one call
					cfg = gen.PlainWriterCfg(r)
				}
				c01Case(ctx, e, rows, cfg, c01Batches(r, n), r, k == 0 && e.Name == "T000")
			}
		}(e)
	}
	wg.Wait()
}

func c01Case(ctx *core.Ctx, e *gen.Entry, rows reflect.Value, cfg *gen.WriterCfg, batches []int, r *rand.Rand, sample bool) {
	n := rows.Len()
	var all gen.Shredder
	var valTexts []string
	for i := 0; i < n; i++ {
		valTexts = append(valTexts, all.ShredRow(e.Schema, rows.Index(i)))
	}
	expected := all.Cols
	if n == 0 {
		expected = make([][]gen.Triple, len(e.Schema.Columns()))
	}
	nontrivial := false
	for _, c := range expected {
		hasNull, hasVal := false, false
		for _, t := range c {
			hasNull = hasNull || t.Null
			hasVal = hasVal || !t.Null
		}
		nontrivial = nontrivial || (hasNull && hasVal)
	}
	ctx.Case(e.Name+"|"+cfg.Desc+"|"+strings.Join(valTexts, "|")+fmt.Sprint(batches), nontrivial)
	ctx.Hist("codec", cfg.Codec)
	ctx.Hist("pageversion", fmt.Sprint(cfg.PageVersion))
	ctx.Hist("rows", fmt.Sprint(n))
	detail := func(extra map[string]any) map[string]any {
		m := map[string]any{"type": e.Name, "config": cfg.Desc, "batches": batches, "rows": valTexts}
		if len(valTexts) > 40 {
			m["rows"] = append(append([]string{}, valTexts[:40]...), fmt.Sprintf("... %d rows, regenerate with the run seed", len(valTexts)))
		}
		for k, v := range extra {
			m[k] = v
		}
		return m
	}
	if sample {
		ctx.Sample(detail(nil))
	}
	writers := []struct {
		name string
		f    func() ([]byte, error)
	}{
		{"generic-writer", func() ([]byte, error) {
			var buf bytes.Buffer
			err := e.WriteGeneric(&buf, rows.Interface(), batches, cfg.Opts...)
			return buf.Bytes(), err
		}},
		{"writer-write-any", func() ([]byte, error) {
			var buf bytes.Buffer
			err := e.WriteReflect(&buf, rows.Interface(), cfg.Opts...)
			return buf.Bytes(), err
		}},
		// the caller refills ONE set of scratch rows before every Write call and wipes it before
		// Close: a writer must not keep references into caller memory after Write returned
		{"generic-writer caller-reuses-memory", func() ([]byte, error) {
			var buf bytes.Buffer
			err := e.WriteGenericReuse(&buf, rows, batches, cfg.Opts...)
			return buf.Bytes(), err
		}},
		{"writer-write-any caller-reuses-memory", func() ([]byte, error) {
			var buf bytes.Buffer
			err := e.WriteReflectReuse(&buf, rows, cfg.Opts...)
			return buf.Bytes(), err
		}},
	}
	w := writers[r.Intn(2)]
	if r.Intn(4) == 0 {
		w = writers[0]
	}
	if r.Intn(3) == 0 {
		w = writers[2+r.Intn(2)]
	}
	file, err := w.f()
	sig := fmt.Sprintf("codec=%s v%d", cfg.Codec, cfg.PageVersion)
	if strings.HasSuffix(w.name, "caller-reuses-memory") {
		sig += " caller-reuses-memory"
	}
	if err != nil {
		ctx.Fail("L1", "write-error writer="+w.name+" "+errClass(err), "writing valid rows failed: "+err.Error(), detail(map[string]any{"writer": w.name}))
		return
	}
	ctx.Hist("writer", w.name)
	// 1. typed read of everything
	back, err := e.ReadAll(bytes.NewReader(file), int64(len(file)))
	if err != nil {
		ctx.Fail("L1", "read-error reader=Read[T] "+sig+" "+errClass(err), "parquet.Read[T] failed on a file the writer closed successfully: "+err.Error(), detail(map[string]any{"writer": w.name}))
	} else if ok, diff := gen.CanonEqual(rows, reflect.ValueOf(back), e.Name); !ok {
		ctx.Fail("L1", "rows-differ reader=Read[T] "+sig+" "+diffClass(diff), "rows read back differ from rows written: "+diff, detail(map[string]any{"writer": w.name, "diff": diff}))
	}
	// 2. GenericReader with a batch size
	batch := []int{1, 2, 7, 64, 1000}[r.Intn(5)]
	back2, err := e.ReadGeneric(bytes.NewReader(file), batch)
	if err != nil {
		ctx.Fail("L1", "read-error reader=GenericReader "+sig+" "+errClass(err), "GenericReader.Read failed: "+err.Error(), detail(map[string]any{"writer": w.name, "read_batch": batch}))
	} else if ok, diff := gen.CanonEqual(rows, reflect.ValueOf(back2), e.Name); !ok {
		ctx.Fail("L1", "rows-differ reader=GenericReader "+sig+" "+diffClass(diff), "rows read back differ from rows written: "+diff, detail(map[string]any{"writer": w.name, "read_batch": batch, "diff": diff}))
	}
	// 3. stored streams (pages) and row reader vs the reference shredder; the page-level API is
	// driven through one of its read histories: chunk by chunk or through the whole-column
	// reader, with or without loading the dictionary first, with value buffers of any capacity
	mode := gen.PageReadMode{DictFirst: r.Intn(3) == 0, WholeColumn: r.Intn(4) == 0, ValueBuf: []int{0, 0, 1, 2, 3, 7, 1000}[r.Intn(7)]}
	ctx.Hist("pagemode", fmt.Sprintf("dictfirst=%v wholecolumn=%v", mode.DictFirst && !mode.WholeColumn, mode.WholeColumn))
	msig := ""
	if mode.DictFirst && !mode.WholeColumn {
		msig += " dict-first"
	}
	if mode.WholeColumn {
		msig += " whole-column"
	}
	got, err := gen.ReadColumnsMode(file, mode)
	if err != nil {
		ctx.Fail("L1", "read-error reader=pages"+msig+" "+sig+" "+c01ErrKind(err), "reading pages failed: "+err.Error(), detail(map[string]any{"writer": w.name, "page_read_mode": mode.String()}))
	} else if c, i, desc := firstDiff(expected, got); c != -2 {
		ctx.Fail("L1", "stream-differs reader=pages"+msig+" "+sig, fmt.Sprintf("stored column stream differs: column %d entry %d: %s", c, i, desc), detail(map[string]any{"writer": w.name, "page_read_mode": mode.String()}))
	}
	got2, nrows, err := gen.ReadRowsColumns(file, batch)
	if err != nil {
		ctx.Fail("L1", "read-error reader=rows "+sig+" "+errClass(err), "Rows().ReadRows failed: "+err.Error(), detail(map[string]any{"writer": w.name, "read_batch": batch}))
	} else {
		if nrows != n {
			ctx.Fail("L1", "row-count reader=rows "+sig, fmt.Sprintf("ReadRows returned %d rows, %d written", nrows, n), detail(map[string]any{"writer": w.name}))
		} else if c, i, desc := firstDiff(expected, got2); c != -2 {
			ctx.Fail("L1", "stream-differs reader=rows "+sig, fmt.Sprintf("rows differ: column %d entry %d: %s", c, i, desc), detail(map[string]any{"writer": w.name, "read_batch": batch}))
		}
	}
}

// c01ErrKind maps an error of the page-level readers to a small enum (a misaligned page stream
// produces a different thrift message on every input).
func c01ErrKind(err error) string {
	s := err.Error()
	switch {
	case strings.Contains(s, "PANIC"):
		return errClass(err)
	case strings.Contains(s, "thrift") || strings.Contains(s, "missing required field"):
		return "err:page-header-decode"
	case strings.Contains(s, "EOF"):
		return "err:eof"
	case strings.Contains(s, "orrupt") || strings.Contains(s, "checksum"):
		return "err:corrupted"
	case strings.Contains(s, "returned 0 values"):
		return "err:no-progress"
	}
	return "err:other"
}

// diffClass keeps the kind of difference (not the position) for failure keys.
func diffClass(d string) string {
	if i := strings.LastIndex(d, ": "); i >= 0 {
		d = d[i+2:]
	}
	f := strings.Fields(d)
	if len(f) > 0 {
		return "diff=" + f[0]
	}
	return "diff"
}
