package props

// C13 "levels" — the stored checksum covers the whole stored body of every page, level bytes included.
//
//	write  L1 (oracle from the format, independent of the library and of the mirror): every dictionary
//	       and data page a writer of the library stores must carry a CRC field equal to the CRC-32 of
//	       the stored body (levels + values, V1 and V2, compressed or not) unless that CRC-32 is exactly
//	       0 (finding F8: then the field cannot be represented). Files are written through
//	       GenericWriter.Write (one page per call) and through a Buffer + WriteRowGroup, over schemas
//	       whose pages are often made of level bytes only: optional leaves and optional groups that are
//	       null on every row of a page, lists that are empty on every row, next to mixed pages.
//	       L2: header size and CRC vs the Lean mirror of writerBuffers.crc32 (op c13.wcrc) on the three
//	       sections rep / def / values of the same page.
//	flips  L1: the fault enumeration of c13_flips.go on files of these schemas with an enumerator that
//	       concentrates on the LEVEL sections of V2 pages (every bit of short sections, the first and
//	       last bytes of long ones, bursts across rep|def and def|values), including pages whose values
//	       section is empty; every access path of the flips sub-check.
//	       L2: as there (c13.load on the stored header and the altered body).

import (
	"bytes"
	"encoding/json"
	"fmt"
	"hash/crc32"
	"math/rand"
	"os"
	"runtime"
	"strings"
	"sync"

	"github.com/parquet-go/parquet-go"

	"verifharness/core"
)

func init() {
	RegisterSub("C13", "levels", RunC13Levels)
	c13ExtraSchemas["lvopt"] = func() c13Typed { return c13TypedOf(c13GenLvOptRows) }
	c13ExtraSchemas["lvrep"] = func() c13Typed { return c13TypedOf(c13GenLvRepRows) }
	c13ExtraFaults["lvopt"] = c13LevelFaults
	c13ExtraFaults["lvrep"] = c13LevelFaults
}

const c13LevelsRule = "write: one case = (file configuration, way of writing, page, stored body), distinct by that text; non-trivial = the page body carries level bytes. " +
	"flips: as in the flips sub-check (file configuration, page, xor mask, access path); non-trivial = the page body carries levels; masks are bursts of width 1..32 bits, most of them inside the level section of a V2 page"

type c13LvGroup struct {
	B *int64  `parquet:"b,plain"`
	S *string `parquet:"s,plain"`
}

// optional leaves and groups: maximum definition level 1 (o, d, x, t) and 2 (a.b, a.s)
type c13LvOpt struct {
	ID int64       `parquet:"id,plain"`
	A  *c13LvGroup `parquet:"a"`
	O  *int32      `parquet:"o,plain"`
	D  *string     `parquet:"d,dict"`
	X  *float64    `parquet:"x,split"`
	T  *int64      `parquet:"t"`
}

type c13LvList struct {
	N []string `parquet:"n,plain"`
}

// repeated columns: l (rep 1, def 1), g.b / g.s (rep 1, def 2), ll (LIST: rep 1, def 2), m.n (rep 1, def 2)
type c13LvRep struct {
	ID int64        `parquet:"id,plain"`
	L  []int32      `parquet:"l,plain"`
	G  []c13LvGroup `parquet:"g"`
	LL []int64      `parquet:"ll,list"`
	M  *c13LvList   `parquet:"m"`
}

// page modes: what the rows of one page (one Write call of cfg.PageRows rows) look like
const (
	c13LvNull   = iota // every optional thing nil / every list empty: no value in any nested column
	c13LvHollow        // groups present, their leaves nil / lists of groups whose leaves are nil
	c13LvFull          // everything present
	c13LvMixed         // row by row at random
)

// c13LvMode: the mode of page k of a file. One file in four is made of value-less pages only (the
// shape a Buffer + WriteRowGroup needs to produce such a page, its pages being whole columns).
func c13LvMode(cfg c13Config, r *rand.Rand, k int) int {
	if cfg.Seed%4 == 0 {
		return []int{c13LvNull, c13LvHollow}[int(cfg.Seed/4+int64(k))%2]
	}
	switch r.Intn(6) {
	case 0, 1:
		return c13LvNull
	case 2:
		return c13LvHollow
	case 3:
		return c13LvFull
	}
	return c13LvMixed
}

func c13LvPages(cfg c13Config, r *rand.Rand, row func(mode, i int)) {
	step := cfg.PageRows
	if step < 1 {
		step = cfg.Rows + 1
	}
	for i := 0; i < cfg.Rows; i++ {
		mode := c13LvMode(cfg, rand.New(rand.NewSource(cfg.Seed^int64(i/step)*7561)), i/step)
		row(mode, i)
	}
}

func c13LvGroupOf(r *rand.Rand, mode int) c13LvGroup {
	var g c13LvGroup
	if mode == c13LvFull || (mode == c13LvMixed && r.Intn(2) == 0) {
		v := r.Int63() - (1 << 62)
		g.B = &v
	}
	if mode == c13LvFull || (mode == c13LvMixed && r.Intn(2) == 0) {
		s := c13Words[r.Intn(len(c13Words))]
		g.S = &s
	}
	return g
}

func c13GenLvOptRows(cfg c13Config, r *rand.Rand) []c13LvOpt {
	rows := make([]c13LvOpt, cfg.Rows)
	c13LvPages(cfg, r, func(mode, i int) {
		row := c13LvOpt{ID: int64(i)}
		has := func() bool { return mode == c13LvFull || (mode == c13LvMixed && r.Intn(2) == 0) }
		if mode == c13LvHollow || has() {
			g := c13LvGroupOf(r, mode)
			row.A = &g
		}
		if has() {
			v := int32(r.Uint32())
			row.O = &v
		}
		if has() {
			s := c13Words[r.Intn(4)]
			row.D = &s
		}
		if has() {
			v := float64(r.Intn(2000)-1000) / 8
			row.X = &v
		}
		if has() {
			v := int64(i*5 - r.Intn(4))
			row.T = &v
		}
		rows[i] = row
	})
	return rows
}

func c13GenLvRepRows(cfg c13Config, r *rand.Rand) []c13LvRep {
	rows := make([]c13LvRep, cfg.Rows)
	c13LvPages(cfg, r, func(mode, i int) {
		row := c13LvRep{ID: int64(i)}
		n := func() int {
			switch mode {
			case c13LvFull:
				return 1 + r.Intn(3)
			case c13LvMixed:
				return r.Intn(3)
			}
			return 0
		}
		for k := n(); k > 0; k-- {
			row.L = append(row.L, int32(r.Intn(1000)-500))
		}
		ng := n()
		if mode == c13LvHollow {
			ng = 1 + r.Intn(2)
		}
		for k := ng; k > 0; k-- {
			row.G = append(row.G, c13LvGroupOf(r, mode))
		}
		for k := n(); k > 0; k-- {
			row.LL = append(row.LL, int64(r.Intn(9)))
		}
		if mode != c13LvNull && (mode != c13LvMixed || r.Intn(2) == 0) {
			m := &c13LvList{}
			for k := n(); k > 0; k-- {
				m.N = append(m.N, c13Words[r.Intn(5)])
			}
			row.M = m
		}
		rows[i] = row
	})
	return rows
}

// c13AbsentKey: a page whose header has no CRC field although the CRC-32 of its stored body is not 0.
// Named by the page kind and by what the body is made of, so that a writer that forgets the levels of
// a V2 page, one that forgets compressed pages and one that forgets dictionary pages get different keys.
func c13AbsentKey(p c13Page) string {
	kind := p.Kind
	if kind != "dict" {
		kind = "data-" + kind
	}
	shape := ""
	switch {
	case p.Kind == "v2" && p.Levels > 0 && p.Levels == p.BodyLen:
		shape = "-levels-only-body"
	case p.Kind == "v2" && p.Levels > 0:
		shape = "-levels-and-values"
	}
	return "crc-field-absent-nonzero-crc-" + kind + shape
}

// c13LevelFaults: masks for one page, most of them in the level section of a V2 page.
func c13LevelFaults(p c13Page, tier string, r *rand.Rand) []c13Fault {
	nbits := 8 * p.BodyLen
	if nbits == 0 {
		return nil
	}
	if p.Kind != "v2" || p.Levels == 0 {
		// dictionary pages, V1 pages (levels inside the values buffer), flat columns: a thin slice of
		// the general enumeration
		fs := c13Faults(p, "quick", r)
		if tier != "thorough" && len(fs) > 6 {
			fs = fs[:6]
		}
		return fs
	}
	var out []c13Fault
	seen := map[[2]int]bool{}
	mk := func(start, width int) {
		if start < 0 || width < 1 || start+width > nbits || seen[[2]int{start, width}] {
			return
		}
		seen[[2]int{start, width}] = true
		m := c13Burst((start%8+width+7)/8, start%8, width, r)
		out = append(out, c13Fault{RG: p.RG, Col: p.Col, Page: p.Idx, Bit: start, Width: width, Mask: core.Hex(m)})
	}
	// single bits of a section [lo, hi) in bytes: all of a short one, head and tail of a long one
	section := func(lo, hi int) {
		n := hi - lo
		limit := 6
		if tier == "thorough" {
			limit = 24
		}
		for b := lo; b < hi; b++ {
			if n > limit && b >= lo+limit/2 && b < hi-limit/2 {
				continue
			}
			for k := 0; k < 8; k++ {
				if tier != "thorough" && n > 2 && k%2 == (b-lo)%2 && k != 0 && k != 7 {
					continue // quick: alternate bits of longer sections
				}
				mk(8*b+k, 1)
			}
		}
	}
	section(0, p.RepLen)
	section(p.RepLen, p.RepLen+p.DefLen)
	// bursts across the section boundaries and inside the levels
	for _, edge := range []int{p.RepLen, p.Levels} {
		if edge > 0 && edge < p.BodyLen {
			mk(8*edge-1, 2)
			mk(8*edge-3, 9)
		}
	}
	for _, w := range []int{2, 9, 17, 32} {
		if w <= 8*p.Levels {
			mk(r.Intn(8*p.Levels-w+1), w)
		}
	}
	mk(8*p.Levels-1, 1)
	// the values section: its first bit and one more
	if p.Levels < p.BodyLen {
		mk(8*p.Levels, 1)
		mk(8*p.Levels+r.Intn(nbits-8*p.Levels), 1)
	}
	return out
}

// ---------------------------------------------------------------- the write-side oracle

type c13WJob struct {
	Config c13Config `json:"config"`
	Via    string    `json:"via"` // write (one page per Write call) | rowgroup (Buffer + WriteRowGroup)
}

func (j c13WJob) canon() string { return j.Config.canon() + " via=" + j.Via }

func c13WriteVia[T any](j c13WJob, rows []T) ([]byte, error) {
	cfg := j.Config
	buf := new(bytes.Buffer)
	opts := []parquet.WriterOption{parquet.PageBufferSize(1), parquet.DataPageVersion(cfg.Version), parquet.Compression(c13Codec(cfg.Codec))}
	w := parquet.NewGenericWriter[T](buf, opts...)
	b := parquet.NewGenericBuffer[T]()
	if _, err := b.Write(rows); err != nil {
		return nil, err
	}
	if _, err := w.WriteRowGroup(b); err != nil {
		return nil, err
	}
	if err := w.Close(); err != nil {
		return nil, err
	}
	return buf.Bytes(), nil
}

func c13WriteFile(j c13WJob) ([]byte, error) {
	if j.Via == "write" {
		return c13TypedFor(j.Config).write(j.Config)
	}
	r := rand.New(rand.NewSource(j.Config.Seed))
	switch j.Config.Schema {
	case "lvopt":
		return c13WriteVia(j, c13GenLvOptRows(j.Config, r))
	case "lvrep":
		return c13WriteVia(j, c13GenLvRepRows(j.Config, r))
	case "flat":
		rows := make([]c13Flat, j.Config.Rows)
		for i := range rows {
			rows[i] = c13GenFlat(r, i)
		}
		return c13WriteVia(j, rows)
	}
	rows := make([]c13Nested, j.Config.Rows)
	for i := range rows {
		rows[i] = c13GenNested(r, i)
	}
	return c13WriteVia(j, rows)
}

func c13WJobs(ctx *core.Ctx) []c13WJob {
	var jobs []c13WJob
	r := ctx.Rand("c13levels/wconfigs")
	seeds := ctx.Scale(3, 12)
	for s := 0; s < seeds; s++ {
		for _, schema := range []string{"lvopt", "lvrep", "flat", "nested"} {
			for _, version := range []int{1, 2} {
				for _, codec := range []string{"none", "snappy", "gzip", "zstd"} {
					for _, via := range []string{"write", "rowgroup"} {
						c := c13Config{Schema: schema, Version: version, Codec: codec, Seed: r.Int63n(1 << 40)}
						if s == 0 {
							c.Seed &^= 3 // one file of value-less pages per combination
						}
						c.PageRows = []int{1, 2, 3, 7, 8, 9, 16, 33, 100}[r.Intn(9)]
						c.Rows = c.PageRows*(1+r.Intn(4)) + r.Intn(c.PageRows)
						jobs = append(jobs, c13WJob{Config: c, Via: via})
					}
				}
			}
		}
	}
	return jobs
}

func c13RunWJob(ctx *core.Ctx, j c13WJob, ask func(req string, on func(string))) {
	fail := func(layer, key, what string, detail map[string]any) {
		detail["config"] = j.canon()
		detail["wjob"] = j
		ctx.Fail(layer, key, what, detail)
	}
	data, err := c13WriteFile(j)
	if err != nil {
		fail("L2", "cannot-write-file", "the harness could not write its test file: "+err.Error(), map[string]any{})
		return
	}
	f, err := c13Open(data)
	if err != nil {
		fail("L2", "cannot-open-pristine", err.Error(), map[string]any{})
		return
	}
	pages, err := c13Locate(data, f)
	if err != nil {
		fail("L2", "cannot-locate-pages", err.Error(), map[string]any{})
		return
	}
	for _, p := range pages {
		body := data[p.BodyOff : p.BodyOff+int64(p.BodyLen)]
		levels := p.Levels > 0 || (p.Kind == "v1" && p.MaxLevels > 0)
		hx := core.Hex(body)
		if len(hx) > 96 {
			hx = fmt.Sprintf("%s…%08x/%d", hx[:64], crc32.ChecksumIEEE(body), len(body))
		}
		ctx.Case(fmt.Sprintf("w %s|%d.%d.%d %s|%s", j.canon(), p.RG, p.Col, p.Idx, p.Kind, hx), levels)
		shape := "values-only"
		switch {
		case p.BodyLen == 0:
			shape = "empty-body"
		case p.Kind == "v2" && p.Levels == p.BodyLen:
			shape = "levels-only"
		case levels:
			shape = "levels+values"
		}
		ctx.Hist("levels.write.page", p.Kind+"/"+shape)
		ctx.Hist("levels.write.codec", j.Config.Codec+"/"+j.Via)
		// SPEC: crc = CRC-32 of the page as stored (for V2: levels ‖ values). An independent table-free
		// computation stands next to hash/crc32 (which C13/crc ties to the Lean definition).
		want := c13BitwiseCRC(body)
		if want != crc32.ChecksumIEEE(body) {
			fail("L2", "crc32-bitwise-mismatch", "hash/crc32 differs from the bit-serial CRC-32", map[string]any{"body": core.Hex(body)})
		}
		detail := func() map[string]any {
			return map[string]any{"page": p, "body": core.Hex(body), "stored_crc": fmt.Sprintf("%08x", p.CRC), "spec_crc": fmt.Sprintf("%08x", want)}
		}
		switch {
		case want == 0:
			ctx.Hist("levels.write.crc", "spec-crc-is-zero(F8)")
			if p.CRC != 0 {
				fail("L1", "crc-field-wrong-"+p.Kind, "a page whose body has CRC-32 0 carries another CRC", detail())
			}
		case p.CRC == 0:
			ctx.Hist("levels.write.crc", "absent")
			fail("L1", c13AbsentKey(p), fmt.Sprintf("%s page of column %q (%s, page v%d, written through %s) is stored without a CRC field although the CRC-32 of its %d-byte body (%d level bytes) is %08x, not 0: the reader will verify nothing",
				p.Kind, p.ColName, j.Config.Codec, j.Config.Version, j.Via, p.BodyLen, p.Levels, want), detail())
		case p.CRC != want:
			ctx.Hist("levels.write.crc", "wrong")
			fail("L1", "crc-field-wrong-"+p.Kind, fmt.Sprintf("%s page of column %q (%s, page v%d, written through %s): the header CRC %08x is not the CRC-32 %08x of the stored body",
				p.Kind, p.ColName, j.Config.Codec, j.Config.Version, j.Via, p.CRC, want), detail())
		default:
			ctx.Hist("levels.write.crc", "present=spec")
		}
		// L2: the mirror of the column writer's header on the three sections
		rep, def, vals := body[:0], body[:0], body
		if p.Kind == "v2" && p.Levels <= p.BodyLen {
			rep, def, vals = body[:p.RepLen], body[p.RepLen:p.Levels], body[p.Levels:]
		}
		code := fmt.Sprintf("ok size=%d crc=%08x spec=%08x", p.BodyLen, p.CRC, want)
		det := detail()
		ask(fmt.Sprintf("c13.wcrc %s %s %s", core.Hex(rep), core.Hex(def), core.Hex(vals)), func(ans string) {
			if ans != code {
				det["code"], det["model"] = code, ans
				fail("L2", "writer-header-mismatch", "page header written by the library vs the mirror C13Levels.writerHeader: code "+code+", mirror "+ans, det)
			}
		})
	}
}

// c13BitwiseCRC: CRC-32/IEEE, one bit at a time (reflected, polynomial 0xEDB88320), no table
func c13BitwiseCRC(b []byte) uint32 {
	s := ^uint32(0)
	for _, x := range b {
		s ^= uint32(x)
		for k := 0; k < 8; k++ {
			if s&1 != 0 {
				s = s>>1 ^ 0xEDB88320
			} else {
				s >>= 1
			}
		}
	}
	return ^s
}

// ---------------------------------------------------------------- the sub-check

func c13LevelFlipJobs(ctx *core.Ctx) []c13Job {
	var jobs []c13Job
	r := ctx.Rand("c13levels/fconfigs")
	seeds := ctx.Scale(1, 4)
	for s := 0; s < seeds; s++ {
		for _, schema := range []string{"lvopt", "lvrep"} {
			for _, vc := range [][2]string{{"2", "none"}, {"2", "snappy"}, {"1", "none"}} {
				c := c13Config{Schema: schema, Version: int(vc[0][0] - '0'), Codec: vc[1], Seed: r.Int63n(1<<40) | 1}
				c.PageRows = []int{3, 7, 8, 9}[r.Intn(4)]
				c.Rows = c.PageRows*(3+r.Intn(2)) + r.Intn(c.PageRows)
				if r.Intn(3) == 0 {
					c.RowGroup = c.PageRows * 2
				}
				jobs = append(jobs, c13Job{Config: c, Origin: "generated"})
			}
		}
	}
	return jobs
}

func RunC13Levels(ctx *core.Ctx) {
	ctx.SetRule(c13LevelsRule)
	var wjobs []c13WJob
	var fjobs []c13Job
	if ctx.Replay != "" {
		b, _ := os.ReadFile(ctx.Replay)
		var rp struct {
			Detail struct {
				WJob *c13WJob `json:"wjob"`
			} `json:"detail"`
		}
		if json.Unmarshal(b, &rp) == nil && rp.Detail.WJob != nil {
			wjobs = []c13WJob{*rp.Detail.WJob}
		} else if j, ok := c13ReplayJob(ctx.Replay); ok {
			fjobs = []c13Job{j}
		} else {
			ctx.Fail("L2", "replay-unreadable", "cannot extract a C13 levels job from "+ctx.Replay, nil)
			return
		}
	} else {
		wjobs, fjobs = c13WJobs(ctx), c13LevelFlipJobs(ctx)
	}
	// write-side oracle, in process
	d := ctx.Driver()
	var reqs []string
	var pend []func(string)
	flush := func() {
		if d == nil || len(reqs) == 0 {
			reqs, pend = reqs[:0], pend[:0]
			return
		}
		ans, err := d.AskMany(reqs)
		if err != nil {
			ctx.Fail("L2", "driver-error", err.Error(), nil)
		}
		for i, a := range ans {
			pend[i](a)
		}
		reqs, pend = reqs[:0], pend[:0]
	}
	for _, j := range wjobs {
		c13RunWJob(ctx, j, func(req string, on func(string)) {
			reqs, pend = append(reqs, req), append(pend, on)
		})
		if len(reqs) >= 1500 {
			flush()
		}
	}
	flush()
	// fault enumeration on the level sections, in worker subprocesses
	if len(fjobs) == 0 {
		return
	}
	exe, err := os.Executable()
	if err != nil {
		ctx.Fail("L2", "no-self-exe", err.Error(), nil)
		return
	}
	par := runtime.GOMAXPROCS(0) / 2
	if par < 1 {
		par = 1
	}
	sem := make(chan struct{}, par)
	var wg sync.WaitGroup
	results := make([]c13JobResult, len(fjobs))
	for i := range fjobs {
		j := fjobs[i]
		j.Tier, j.Driver, j.Threads = ctx.Tier, ctx.DriverPath, 3
		res := &results[i]
		wg.Add(1)
		sem <- struct{}{}
		go func() {
			defer wg.Done()
			defer func() { <-sem }()
			out, stderr, err := c13RunWorker(ctx, exe, j)
			if err != nil {
				c13WorkerCrashed(ctx, res, exe, j, stderr, err)
				return
			}
			for name, m := range out.Hist {
				if strings.HasPrefix(name, "flips.") {
					out.Hist["levels."+name] = m
					delete(out.Hist, name)
				}
			}
			res.merge(j, out)
		}()
	}
	wg.Wait()
	for i := range results {
		for _, f := range results[i].apply {
			f(ctx)
		}
	}
}
