package props

import (
	"bytes"
	"context"
	"crypto/sha256"
	"encoding/hex"
	"encoding/json"
	"fmt"
	"io"
	"math/rand"
	"os"
	"os/exec"
	"reflect"
	"strconv"
	"strings"
	"sync"
	"time"

	"github.com/parquet-go/parquet-go"

	"verifharness/core"
	"verifharness/gen"
)

// C17 sub-check cache (L1): "output bytes are a function of input and options only" quantifies
// over the histories of the PROCESS, not only of one writer instance: the library keeps
// process-wide caches keyed by the Go type (cachedSchemas, structFieldsCache, the per-schema lazily
// built function tables of a cached *Schema; factgen family `globalcaches` lists them) which
// earlier, unrelated calls with OTHER options may have written.
//
// A first-derivation effect cannot be seen in a process that has already derived the type, and the
// shared catalogue derives every one of its types while the harness starts. So this sub-check has
// row types of its own that nothing derives at start-up, and every case runs in two FRESH worker
// subprocesses: one performs 1..4 earlier activities on the Go type (SchemaOf / NewGenericWriter /
// NewGenericReader / NewWriter+Write / GenericBuffer / Deconstruct, closed or abandoned, each with
// its own StructTag replacements - other codecs, encodings, optionality, names, dropped columns - or
// none, and its own writer configuration) and then writes the rows with the options under test;
// the other one writes the same rows with the same options as the first thing it ever does with the
// type. Same rows, same options => the files must be byte-identical. Each worker process handles
// one case per row type (the caches are keyed by type; what the process did with the other types
// is part of the history as well).
//
// L2 part (c17_cache_l2.go): the same worker processes, and a third one per batch that only calls
// SchemaOf, record what cachedSchemas did at every step; the parent compares the sequence with the
// Lean mirror of schemaOf (PqModel/SchemaCache.lean).

const c17CacheRule = " cache (L1, two fresh worker subprocesses per batch, one case per private row type and batch): rows x options under test {generic-writer, reflect-writer, generic-buffer -> WriteRowGroup, Deconstruct -> WriteRows} x {no StructTag replacement | 1..3 replacements} x gen.RandWriterCfg, written after 1..4 earlier activities on the same Go type {SchemaOf, generic-writer closed / abandoned, write + NewGenericReader read-back, reflect-writer, generic-buffer, deconstruct} x {no replacement | 1..3 replacements: codec, encoding, optional, rename, drop} x another writer configuration, vs the same write as the first activity of a process: byte-identical files; non-trivial = at least one row and an earlier activity whose options differ from the ones under test." + c17CacheL2Rule

func init() {
	RegisterSub("C17", "cache", RunC17Cache)
	workers["c17cache"] = c17CacheWorker
}

// ---------------------------------------------------------------- private row types

type c17cFlat struct {
	ID    int64   `parquet:"id"`
	Name  string  `parquet:"name"`
	Score float64 `parquet:"score"`
	Flag  bool    `parquet:"flag"`
}

type c17cTagged struct {
	ID   int64  `parquet:"id,delta"`
	Name string `parquet:"name,dict,snappy"`
	Blob []byte `parquet:"blob,zstd"`
	N    int32  `parquet:"n,optional"`
}

type c17cOpt struct {
	A *int64  `parquet:"a"`
	B *string `parquet:"b"`
	C int32   `parquet:"c,optional"`
}

type c17cInner struct {
	X int64  `parquet:"x"`
	Y string `parquet:"y,optional"`
}

type c17cNested struct {
	K  string    `parquet:"k"`
	In c17cInner `parquet:"in"`
}

type c17cList struct {
	ID   int32    `parquet:"id"`
	Tags []string `parquet:"tags"`
	Nums []int64  `parquet:"nums"`
}

type c17cUntagged struct {
	ID   int64
	Name string
	V    float32
}

// the demonstration's shape: no names in the tags
type c17cRec struct {
	ID   int64
	Name string `parquet:",dict"`
	Note string `parquet:",optional"`
}

type c17cWide struct {
	I32 int32   `parquet:"i32"`
	I64 int64   `parquet:"i64,dict"`
	U32 uint32  `parquet:"u32"`
	F32 float32 `parquet:"f32"`
	F64 float64 `parquet:"f64,split"`
	S   string  `parquet:"s,gzip"`
	B   []byte  `parquet:"b"`
	P   *int32  `parquet:"p"`
}

type c17cLeaf struct {
	path []string
	name string
	kind string // int, str, bytes, float, bool, group
}

type c17cType interface {
	name() string
	leaves() []c17cLeaf
	newRows(n int) reflect.Value
	run(a *c17cAct, rows reflect.Value) ([]byte, error)
	defaultSchema() string
}

type c17cT[T any] struct {
	nm string
	lv []c17cLeaf
}

func (t c17cT[T]) name() string                { return t.nm }
func (t c17cT[T]) leaves() []c17cLeaf          { return t.lv }
func (t c17cT[T]) newRows(n int) reflect.Value { return reflect.ValueOf(make([]T, n)) }
func (t c17cT[T]) defaultSchema() (s string) {
	defer func() {
		if r := recover(); r != nil {
			s = fmt.Sprint("PANIC: ", r)
		}
	}()
	return parquet.SchemaOf(new(T)).String()
}

// c17cL: a field a StructTag option can name. The option's path is matched against the path of
// parquet names of the enclosing groups followed by the GO name of the field (schema.go
// appendStructFields); name is the column's parquet name, kept by most replacements.
func c17cL(kind, name string, path ...string) c17cLeaf { return c17cLeaf{path, name, kind} }

// none of these types is derived before a worker runs its cases (no SchemaOf at init)
var c17cTypes = []c17cType{
	c17cT[c17cFlat]{"c17cFlat", []c17cLeaf{c17cL("int", "id", "ID"), c17cL("str", "name", "Name"), c17cL("float", "score", "Score"), c17cL("bool", "flag", "Flag")}},
	c17cT[c17cTagged]{"c17cTagged", []c17cLeaf{c17cL("int", "id", "ID"), c17cL("str", "name", "Name"), c17cL("bytes", "blob", "Blob"), c17cL("int", "n", "N")}},
	c17cT[c17cOpt]{"c17cOpt", []c17cLeaf{c17cL("int", "a", "A"), c17cL("str", "b", "B"), c17cL("int", "c", "C")}},
	c17cT[c17cNested]{"c17cNested", []c17cLeaf{c17cL("str", "k", "K"), c17cL("group", "in", "In"), c17cL("int", "x", "in", "X"), c17cL("str", "y", "in", "Y")}},
	c17cT[c17cList]{"c17cList", []c17cLeaf{c17cL("int", "id", "ID"), c17cL("str", "tags", "Tags"), c17cL("int", "nums", "Nums")}},
	c17cT[c17cUntagged]{"c17cUntagged", []c17cLeaf{c17cL("int", "ID", "ID"), c17cL("str", "Name", "Name"), c17cL("float", "V", "V")}},
	c17cT[c17cRec]{"c17cRec", []c17cLeaf{c17cL("int", "ID", "ID"), c17cL("str", "Name", "Name"), c17cL("str", "Note", "Note")}},
	c17cT[c17cWide]{"c17cWide", []c17cLeaf{c17cL("int", "i32", "I32"), c17cL("int", "i64", "I64"), c17cL("int", "u32", "U32"), c17cL("float", "f32", "F32"),
		c17cL("float", "f64", "F64"), c17cL("str", "s", "S"), c17cL("bytes", "b", "B"), c17cL("int", "p", "P")}},
}

// ---------------------------------------------------------------- activities

type c17cTag struct {
	Tag  string   `json:"tag"`
	Path []string `json:"path"`
}

// c17cAct: one use of the Go type. Cfg is drawn again from its own seed so that the options are
// the same values in both worker processes.
type c17cAct struct {
	Op      string    `json:"op"`
	Tags    []c17cTag `json:"struct_tags"`
	CfgSeed int64     `json:"cfg_seed"`
	CfgDesc string    `json:"config"`
	Rows    int       `json:"rows"`
	RowSeed int64     `json:"row_seed"`

	// the *Schema a direct SchemaOf call of the activity handed out (schema-cache trace, c17_cache_l2.go)
	seen *parquet.Schema
	// the activity went on to NewGenericWriter[T] with an explicit schema and no StructTag option
	// (a second, default derivation of T inside the library)
	alsoDefault bool
}

func (a *c17cAct) kind() string {
	if len(a.Tags) > 0 {
		return a.Op + "+struct-tag"
	}
	return a.Op
}

func (a *c17cAct) String() string {
	var sb strings.Builder
	sb.WriteString(a.Op)
	for _, t := range a.Tags {
		fmt.Fprintf(&sb, " StructTag(`%s`, %s)", t.Tag, strings.Join(t.Path, "."))
	}
	fmt.Fprintf(&sb, " [%s] rows=%d/seed %d", a.CfgDesc, a.Rows, a.RowSeed)
	return sb.String()
}

var c17cFinalOps = []string{"generic-writer", "generic-writer", "reflect-writer", "generic-buffer", "deconstruct"}
var c17cPriorOps = []string{"schema-of", "schema-of", "generic-writer", "generic-writer", "generic-writer-abandoned", "read-back",
	"reflect-writer", "generic-buffer", "deconstruct"}

func c17cRandTags(r *rand.Rand, t c17cType) (tags []c17cTag) {
	lv := t.leaves()
	used := map[string]bool{}
	for n := 1 + r.Intn(3); n > 0; n-- {
		l := lv[r.Intn(len(lv))]
		key := strings.Join(l.path, ".")
		if used[key] {
			continue
		}
		used[key] = true
		name := l.name
		var opts []string
		switch l.kind {
		case "group":
			opts = []string{"optional"}
		default:
			if r.Intn(3) > 0 {
				opts = append(opts, []string{"snappy", "gzip", "zstd", "lz4", "brotli", "uncompressed"}[r.Intn(6)])
			}
			var encs []string
			switch l.kind {
			case "int":
				encs = []string{"delta", "dict", "plain"}
			case "str", "bytes":
				encs = []string{"delta", "dict", "plain"}
			case "float":
				encs = []string{"split", "dict", "plain"}
			case "bool":
				encs = []string{"plain"}
			}
			if r.Intn(3) > 0 {
				opts = append(opts, encs[r.Intn(len(encs))])
			}
			if r.Intn(5) == 0 {
				opts = append(opts, "optional")
			}
		}
		tag := ""
		switch r.Intn(12) {
		case 0:
			tag = `parquet:"-"` // the column is dropped
		case 1:
			tag = `parquet:"` + name + `_renamed` + c17cJoin(opts) + `"`
		case 2:
			tag = `parquet:"` + c17cJoin(opts) + `"` // name taken from the Go field
		default:
			tag = `parquet:"` + name + c17cJoin(opts) + `"`
		}
		tags = append(tags, c17cTag{Tag: tag, Path: l.path})
	}
	return tags
}

func c17cJoin(opts []string) string {
	if len(opts) == 0 {
		return ""
	}
	return "," + strings.Join(opts, ",")
}

func c17cRandAct(r *rand.Rand, t c17cType, ops []string, tagged bool) *c17cAct {
	a := &c17cAct{Op: ops[r.Intn(len(ops))], CfgSeed: r.Int63(), RowSeed: r.Int63()}
	a.Rows = []int{1, 2, 3, 9, 33, 100}[r.Intn(6)]
	if tagged {
		a.Tags = c17cRandTags(r, t)
	}
	a.CfgDesc = gen.RandWriterCfg(rand.New(rand.NewSource(a.CfgSeed))).Desc
	return a
}

type c17cScenario struct {
	Type  string     `json:"type"`
	Prior []*c17cAct `json:"prior"`
	Final *c17cAct   `json:"final"`
}

// the case of (batch, type): the same in both worker processes and in the parent
func c17cScenarioOf(ctx *core.Ctx, batch int, t c17cType) *c17cScenario {
	r := ctx.Rand(fmt.Sprintf("c17cache/%d/%s", batch, t.name()))
	sc := &c17cScenario{Type: t.name()}
	sc.Final = c17cRandAct(r, t, c17cFinalOps, r.Intn(4) == 0)
	for n := 1 + r.Intn(4); n > 0; n-- {
		// the first activity decides what a first-derivation cache holds: mostly with replacements
		tagged := r.Intn(3) > 0
		if len(sc.Prior) > 0 {
			tagged = r.Intn(2) == 0
		}
		sc.Prior = append(sc.Prior, c17cRandAct(r, t, c17cPriorOps, tagged))
	}
	return sc
}

func (t c17cT[T]) run(a *c17cAct, rowsV reflect.Value) (file []byte, err error) {
	defer catchErr(&err)
	rows := rowsV.Interface().([]T)
	cfg := gen.RandWriterCfg(rand.New(rand.NewSource(a.CfgSeed)))
	var sopts []parquet.SchemaOption
	var wopts []parquet.WriterOption
	var ropts []parquet.ReaderOption
	wopts = append(wopts, cfg.Opts...)
	for _, tg := range a.Tags {
		o := parquet.StructTag(reflect.StructTag(tg.Tag), tg.Path...)
		sopts = append(sopts, o)
		wopts = append(wopts, o.(parquet.WriterOption))
		ropts = append(ropts, o.(parquet.ReaderOption))
	}
	buf := new(bytes.Buffer)
	switch a.Op {
	case "schema-of":
		s := parquet.SchemaOf(new(T), sopts...)
		a.seen = s
		return []byte(s.String()), nil
	case "generic-writer", "generic-writer-abandoned", "read-back":
		w := parquet.NewGenericWriter[T](buf, wopts...)
		if _, err := w.Write(rows); err != nil {
			return nil, err
		}
		if a.Op == "generic-writer-abandoned" {
			return buf.Bytes(), nil
		}
		if err := w.Close(); err != nil {
			return nil, err
		}
		if a.Op == "read-back" {
			rd := parquet.NewGenericReader[T](bytes.NewReader(buf.Bytes()), ropts...)
			out := make([]T, len(rows)+1)
			if _, err := rd.Read(out); err != nil && err != io.EOF {
				return nil, err
			}
			rd.Close()
		}
	case "reflect-writer":
		s := parquet.SchemaOf(new(T), sopts...)
		a.seen = s
		w := parquet.NewWriter(buf, append([]parquet.WriterOption{s}, cfg.Opts...)...)
		for i := range rows {
			if err := w.Write(&rows[i]); err != nil {
				return nil, err
			}
		}
		if err := w.Close(); err != nil {
			return nil, err
		}
	case "generic-buffer":
		var b *parquet.GenericBuffer[T]
		var w *parquet.GenericWriter[T]
		if len(sopts) == 0 {
			b = parquet.NewGenericBuffer[T]()
			w = parquet.NewGenericWriter[T](buf, cfg.Opts...)
		} else {
			s := parquet.SchemaOf(new(T), sopts...)
			a.seen = s
			b = parquet.NewGenericBuffer[T](s)
			a.alsoDefault = true
			w = parquet.NewGenericWriter[T](buf, append([]parquet.WriterOption{s}, cfg.Opts...)...)
		}
		if _, err := b.Write(rows); err != nil {
			return nil, err
		}
		if _, err := w.WriteRowGroup(b); err != nil {
			return nil, err
		}
		if err := w.Close(); err != nil {
			return nil, err
		}
	case "deconstruct":
		s := parquet.SchemaOf(new(T), sopts...)
		a.seen = s
		prs := make([]parquet.Row, len(rows))
		for i := range rows {
			prs[i] = s.Deconstruct(nil, &rows[i])
		}
		w := parquet.NewWriter(buf, append([]parquet.WriterOption{s}, cfg.Opts...)...)
		if _, err := w.WriteRows(prs); err != nil {
			return nil, err
		}
		if err := w.Close(); err != nil {
			return nil, err
		}
	default:
		return nil, fmt.Errorf("unknown op %q", a.Op)
	}
	return buf.Bytes(), nil
}

func catchErr(err *error) {
	if r := recover(); r != nil {
		*err = fmt.Errorf("PANIC: %v", r)
	}
}

func c17cRows(t c17cType, a *c17cAct) reflect.Value {
	r := rand.New(rand.NewSource(a.RowSeed))
	prof := &gen.Profile{NullProb: []float64{0.1, 0.5}[r.Intn(2)], MaxLen: 1 + r.Intn(4), SmallDomain: r.Intn(2) == 0}
	rows := t.newRows(a.Rows)
	gen.FillRows(r, rows, prof)
	return rows
}

// ---------------------------------------------------------------- worker

type c17cResult struct {
	Type      string   `json:"type"`
	Sha       string   `json:"sha256"`
	Size      int      `json:"size"`
	Err       string   `json:"err"`
	PriorErrs []string `json:"prior_errors"`
	Schema    string   `json:"default_schema_afterwards"`
	// every activity of the case as a step of the process-wide schema-cache trace (c17_cache_l2.go)
	Trace []c17cStep `json:"schema_cache_trace,omitempty"`
}

// c17CacheWorker: `-worker c17cache <batch> <hist|ref|calls> <seed> <tier> <variant> <out>`; one case per
// private row type; `ref` skips the earlier activities; `calls` runs a history of direct SchemaOf
// calls only (L2 trace against the schemaOf mirror, c17_cache_l2.go).
func c17CacheWorker(args []string) int {
	if len(args) < 6 {
		fmt.Fprintln(os.Stderr, "usage: -worker c17cache <batch> <hist|ref|calls> <seed> <tier> <variant> <out>")
		return 2
	}
	batch, _ := strconv.Atoi(args[0])
	seed, _ := strconv.ParseInt(args[2], 10, 64)
	ctx := core.NewCtx()
	ctx.Prop, ctx.Seed, ctx.Tier, ctx.Variant = "C17", seed, args[3], args[4]
	var out []c17cResult
	tr := newC17cTracer()
	if args[1] == "calls" {
		out = append(out, c17cResult{Type: "calls", PriorErrs: []string{}, Trace: c17cCallsHistory(ctx, batch, tr)})
	}
	for ti, t := range c17cTypes {
		if args[1] == "calls" {
			break
		}
		sc := c17cScenarioOf(ctx, batch, t)
		res := c17cResult{Type: t.name(), PriorErrs: []string{}}
		if args[1] == "hist" {
			for _, a := range sc.Prior {
				_, err := t.run(a, c17cRows(t, a))
				if err != nil {
					res.PriorErrs = append(res.PriorErrs, a.kind()+": "+err.Error())
				}
				tr.step(a.kind(), ti, a.Tags, a.seen, err != nil, a.alsoDefault)
			}
		}
		file, err := t.run(sc.Final, c17cRows(t, sc.Final))
		tr.step(sc.Final.kind(), ti, sc.Final.Tags, sc.Final.seen, err != nil, sc.Final.alsoDefault)
		if err != nil {
			res.Err = err.Error()
		} else {
			sum := sha256.Sum256(file)
			res.Sha, res.Size = hex.EncodeToString(sum[:]), len(file)
		}
		res.Schema = tr.defaultSchema(t, ti)
		res.Trace, tr.steps = tr.steps, nil
		out = append(out, res)
	}
	blob, _ := json.Marshal(out)
	if err := os.WriteFile(args[5], blob, 0o644); err != nil {
		fmt.Fprintln(os.Stderr, "cannot write result:", err)
		return 2
	}
	return 0
}

// ---------------------------------------------------------------- parent

func RunC17Cache(ctx *core.Ctx) {
	ctx.SetRule(c17Rule)
	batches := ctx.Scale(48, 400)
	exe, err := os.Executable()
	if err != nil {
		ctx.Fail("L2", "harness-worker-unavailable", err.Error(), nil)
		return
	}
	dir, err := os.MkdirTemp("", "c17cache-*")
	if err != nil {
		ctx.Fail("L2", "harness-worker-unavailable", err.Error(), nil)
		return
	}
	defer os.RemoveAll(dir)
	var wg sync.WaitGroup
	sem := make(chan struct{}, 8)
	for b := 0; b < batches; b++ {
		wg.Add(1)
		sem <- struct{}{}
		go func(b int) {
			defer wg.Done()
			defer func() { <-sem }()
			c17cBatch(ctx, exe, dir, b)
		}(b)
	}
	wg.Wait()
	c17cCompareTraces(ctx)
}

func c17cSpawn(ctx *core.Ctx, exe, dir string, batch int, mode string) ([]c17cResult, string) {
	out := fmt.Sprintf("%s/%d-%s.json", dir, batch, mode)
	cctx, cancel := context.WithTimeout(context.Background(), 120*time.Second)
	defer cancel()
	cmd := exec.CommandContext(cctx, exe, "-worker", "c17cache", fmt.Sprint(batch), mode, fmt.Sprint(ctx.Seed), ctx.Tier, ctx.Variant, out)
	cmd.Env = append(os.Environ(), "GOTRACEBACK=single", "GOMAXPROCS=2")
	var stderr bytes.Buffer
	cmd.Stderr, cmd.Stdout = &stderr, &stderr
	if err := cmd.Run(); err != nil {
		msg := stderr.String()
		if len(msg) > 3000 {
			msg = msg[:3000]
		}
		return nil, err.Error() + ": " + msg
	}
	blob, err := os.ReadFile(out)
	if err != nil {
		return nil, err.Error()
	}
	var res []c17cResult
	if err := json.Unmarshal(blob, &res); err != nil {
		return nil, err.Error()
	}
	return res, ""
}

func c17cBatch(ctx *core.Ctx, exe, dir string, batch int) {
	hist, herr := c17cSpawn(ctx, exe, dir, batch, "hist")
	ref, rerr := c17cSpawn(ctx, exe, dir, batch, "ref")
	calls, cerr := c17cSpawn(ctx, exe, dir, batch, "calls")
	c17cCollectTrace(ctx, batch, "hist", hist, herr)
	c17cCollectTrace(ctx, batch, "ref", ref, rerr)
	c17cCollectTrace(ctx, batch, "calls", calls, cerr)
	if rerr != "" || len(ref) != len(c17cTypes) {
		ctx.Fail("L2", "harness-worker-died-outside-a-case", "c17cache reference worker (no earlier activity) failed: "+rerr, map[string]any{"batch": batch})
		return
	}
	if herr != "" || len(hist) != len(c17cTypes) {
		var scs []*c17cScenario
		for _, t := range c17cTypes {
			scs = append(scs, c17cScenarioOf(ctx, batch, t))
		}
		ctx.Fail("L1", "process-history-kills-the-process", "the worker running earlier activities and then the write under test died: "+herr,
			map[string]any{"batch": batch, "scenarios": scs, "variant": ctx.Variant})
		return
	}
	for i, t := range c17cTypes {
		sc := c17cScenarioOf(ctx, batch, t)
		h, f := hist[i], ref[i]
		differing := false
		finalOpts := fmt.Sprint(sc.Final.Tags, sc.Final.CfgDesc)
		var prior []string
		for _, a := range sc.Prior {
			prior = append(prior, a.String())
			if fmt.Sprint(a.Tags, a.CfgDesc) != finalOpts {
				differing = true
			}
		}
		ctx.Case(fmt.Sprintf("cache|%s|%s|%s", t.name(), strings.Join(prior, ";"), sc.Final.String()), sc.Final.Rows > 0 && differing)
		ctx.Hist("cache-first-activity", sc.Prior[0].kind())
		ctx.Hist("cache-write-under-test", sc.Final.kind())
		ctx.Hist("cache-earlier-activities", fmt.Sprint(len(sc.Prior)))
		for _, pe := range h.PriorErrs {
			ctx.Hist("cache-earlier-activity-error", errClass(fmt.Errorf("%s", pe)))
		}
		if f.Err != "" {
			ctx.Hist("cache-reference-write-error", sc.Final.kind()+" "+errClass(fmt.Errorf("%s", f.Err)))
		}
		if batch == 0 && i < 3 {
			ctx.Sample(map[string]any{"sub": "cache", "type": t.name(), "earlier": prior, "under_test": sc.Final.String()})
		}
		detail := map[string]any{
			"type": t.name(), "case_stream": fmt.Sprintf("c17cache/%d/%s", batch, t.name()), "variant": ctx.Variant,
			"earlier_activities_in_the_process": prior, "write_under_test": sc.Final.String(), "scenario": sc,
			"earlier_activity_errors": h.PriorErrs,
			"fresh_process":           map[string]any{"sha256": f.Sha, "size": f.Size, "err": f.Err, "SchemaOf(T) afterwards": f.Schema},
			"after_earlier_activity":  map[string]any{"sha256": h.Sha, "size": h.Size, "err": h.Err, "SchemaOf(T) afterwards": h.Schema},
			"replay":                  fmt.Sprintf("pqcheck -worker c17cache %d hist|ref %d %s %s <out>", batch, ctx.Seed, ctx.Tier, ctx.Variant),
		}
		first := "default-derivation"
		if len(sc.Prior[0].Tags) > 0 {
			first = "struct-tag-replacement"
		}
		key := "process-history-changes-file write=" + sc.Final.kind() + " first-activity-on-the-type=" + first
		switch {
		case (f.Err == "") != (h.Err == ""):
			ctx.Fail("L1", key+" error-differs", "same rows, same options: the write fails in one process and succeeds in the other, depending on what the process did with the Go type before", detail)
		case f.Err == "" && f.Sha != h.Sha:
			ctx.Fail("L1", key, "same rows, same options, different bytes: the file written after earlier activity on the same Go type (other options) differs from the file a fresh process writes", detail)
		}
	}
}
