package props

import (
	"fmt"
	"strings"
	"sync"

	"github.com/parquet-go/parquet-go"

	"verifharness/core"
)

func init() { RegisterSub("C10", "bufless", RunC10BufLess) }

// Sub-check `bufless`: the value order the C10 theorems are now instantiated with (Props/C10Compare.lean `typeOrd`):
// `lt` = Less(i, j) of the column buffer that Type.NewColumnBuffer creates for the leaf type, `cmp` = Type.Compare.
// For every leaf type of c05cFns (31 types) and a pair of operands: write the two values into a fresh column buffer
// of the type and call Less(0, 1), Less(1, 0).
//   L1  Less(0,1) == (Type.Compare(x, y) < 0) and Less(1,0) == (Type.Compare(x, y) > 0): the consistency `VOrd.lt_iff`
//       the buffer theorems need (stated here on the real code, NaN operands included)
//   L2  Less(0,1), Less(1,0) == CompareRows.bufferLess (op c10c.less), the transliteration of the Less methods.
// Operand generators are those of the C05 `compare` sub-check; fixed-length types get operands of their length.

func c10blOne(ctx *core.Ctx, b *c05Batch, class string, x, y c05cArg) {
	canon := "bufless " + class + " " + c05cText(class, x) + " " + c05cText(class, y)
	ran := false
	for _, f := range c05cFns(class) {
		f := f
		if f.typ == nil {
			continue
		}
		if f.typ.Kind() == parquet.FixedLenByteArray && (len(x.b) != f.typ.Length() || len(y.b) != f.typ.Length()) {
			continue
		}
		ran = true
		var l01, l10 bool
		var cmp int
		detail := map[string]any{"case": canon, "function": f.name, "build": ctx.Variant}
		if p := c05Recover(func() {
			buf := f.typ.NewColumnBuffer(0, 2)
			if n, err := buf.WriteValues([]parquet.Value{f.val(x), f.val(y)}); err != nil || n != 2 {
				panic(fmt.Sprintf("WriteValues: n=%d err=%v", n, err))
			}
			l01, l10 = buf.Less(0, 1), buf.Less(1, 0)
			cmp = c05cSign(f.typ.Compare(f.val(x), f.val(y)))
		}); p != nil {
			ctx.Fail("L1", "bufless-panic "+f.name, fmt.Sprint(p), detail)
			continue
		}
		ctx.Hist("bufless-type", f.tag)
		ctx.Hist("bufless-result", fmt.Sprintf("%v/%v", l01, l10))
		if l01 != (cmp < 0) || l10 != (cmp > 0) {
			detail["less01"], detail["less10"], detail["type_compare"] = l01, l10, cmp
			ctx.Fail("L1", "bufless-not-type-compare "+f.name, "Less of the type's column buffer is not `Type.Compare < 0`", detail)
		}
		var ax, ay string
		if class == "bytes" || class == "b16" {
			ax, ay = c05Hex(x.b), c05Hex(y.b)
		} else {
			ax, ay = c05cPayload("int32s", x), c05cPayload("int32s", y)
			if class != "w32" {
				ax, ay = c05cPayload("", x), c05cPayload("", y)
			}
		}
		for _, dir := range []struct {
			a, b string
			got  bool
		}{{ax, ay, l01}, {ay, ax, l10}} {
			dir := dir
			req := "c10c.less " + f.tag + " " + dir.a + " " + dir.b
			b.ask(req, func(ans string) {
				if ans != fmt.Sprintf("ok %d", c05cBool(dir.got)) {
					ctx.Fail("L2", "bufless-mirror "+f.name, "Less of the type's column buffer differs from its Lean mirror bufferLess", map[string]any{"case": canon, "function": f.name, "request": req, "impl": dir.got, "model": ans, "build": ctx.Variant})
				}
			})
		}
	}
	if ran {
		ctx.Case(canon, true)
		ctx.Hist("bufless-class", class)
	}
}

func RunC10BufLess(ctx *core.Ctx) {
	ctx.SetRule("one case = an operand class of the C05 compare sub-check (bool, 32-bit / 64-bit word, float32 / float64 bit pattern incl. NaNs and both zeros, byte strings, 16-byte values) and a pair of operands; for every leaf type of the class (31 types) the two values are written into a fresh column buffer of the type and Less(0,1), Less(1,0) are compared with Type.Compare (L1) and with the Lean mirror bufferLess (L2); fixed-length types run on operands of their length only; distinct by class and operands, non-trivial = always")
	if ctx.Replay != "" {
		d := c05ReplayDetail(ctx)
		if d == nil {
			return
		}
		s, _ := d["case"].(string)
		toks := strings.Fields(s)
		if len(toks) != 4 || toks[0] != "bufless" {
			ctx.Fail("L2", "replay-unreadable", "detail.case is not `bufless <class> <x> <y>`", s)
			return
		}
		x, ok1 := c05cParseArg(toks[1], toks[2])
		y, ok2 := c05cParseArg(toks[1], toks[3])
		if !ok1 || !ok2 || c05cFns(toks[1]) == nil {
			ctx.Fail("L2", "replay-unreadable", "bad operands", s)
			return
		}
		b := &c05Batch{ctx: ctx, d: ctx.Driver()}
		c10blOne(ctx, b, toks[1], x, y)
		b.flush()
		return
	}
	workers := 8
	total := ctx.Scale(16000, 320000)
	var wg sync.WaitGroup
	for w := 0; w < workers; w++ {
		wg.Add(1)
		go func(w int) {
			defer wg.Done()
			r := ctx.Rand(fmt.Sprintf("c10bufless/%d", w))
			b := &c05Batch{ctx: ctx, d: ctx.Driver()}
			if w == 0 {
				for p := uint64(0); p < 4; p++ {
					c10blOne(ctx, b, "bool", c05cArg{bits: p & 1}, c05cArg{bits: p >> 1})
				}
				for _, cl := range []string{"f32", "f64", "w32", "w64"} {
					edges := map[string][]uint64{"f32": c05cEdgesF32, "f64": c05cEdgesF64, "w32": c05cEdges32, "w64": c05cEdges64}[cl]
					for _, p := range edges {
						for _, q := range edges {
							c10blOne(ctx, b, cl, c05cArg{bits: p}, c05cArg{bits: q})
						}
					}
				}
			}
			for i := 0; i < total/workers; i++ {
				class := c05cClasses[r.Intn(len(c05cClasses))]
				x, y := c05cGenPair(r, class)
				if class == "bytes" && r.Intn(3) == 0 { // operands of the fixed lengths in play: FLBA(7), INTERVAL (12)
					n := []int{7, 12}[r.Intn(2)]
					x.b, y.b = c05cGenBytes(r, n), c05cGenBytes(r, n)
					if r.Intn(3) == 0 {
						y.b = append([]byte{}, x.b...)
						y.b[r.Intn(n)] ^= byte(1 << uint(r.Intn(8)))
					}
				}
				c10blOne(ctx, b, class, x, y)
			}
			b.flush()
		}(w)
	}
	wg.Wait()
}
