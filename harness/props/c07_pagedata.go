package props

// Property C07, sub-check "pagedata": what Page().Data() of the typed column buffers hands to the
// bloom filter, and the filter writePageToFilter builds from it.
//
// A real column buffer (Type.NewColumnBuffer, every physical type; uint32/uint64 logical types and
// the 16-byte be128 buffer included) runs a random history of WriteValues batches and Resets (for
// BOOLEAN also single values through booleanColumnBuffer.writeBoolean, hook
// VerifBooleanBufferWriteBoolean). Then exactly what ColumnWriter.writePageToFilter does is done:
//   page := col.Page(); filter, _ = page.Type().Encode(filter, page.Data(), splitBlockEncoding)
//
// L2: the raw layout of Page().Data() (bit-packed bytes / value array / flat buffer / bytes+offsets)
//     and the filter bytes equal the Lean mirror's (`pagedata.buf`, `pagedata.bool`: PageDataBuf.lean
//     run on the same history, with a random `junk` byte for the recycled memory);
//     for BOOLEAN also booleanPage.Slice(i,j) and a slice of the slice: bytes, bit offset, count
//     and the filter built from the slice's Data().
// One case in four does the same for a typed dictionary (Type.NewDictionary, Insert batches with
// repeated values): dict.Page().Data() -> filter, as flushFilterPages does (mirror `pagedata.dict`).
// One case in four runs an OPTIONAL column's buffer (Buffer.ColumnBuffers of a schema with one optional
// leaf): batches mixing nulls (runs of them) and values, Resets; mirror `pagedata.opt` (run splitting of
// optionalColumnBuffer.WriteValues + the base buffer); L1: the filter is that of the non-null values.
// L1 (oracles written from the property, independent of the mirror):
//   * every value left in the buffer is found in the filter (Value.hash + SplitBlockFilter.Check);
//   * kinds other than BOOLEAN: the filter equals, byte for byte, a filter into which the read-side
//     hash (Value.hash) of every buffered value was inserted once -- nothing else got in;
//   * BOOLEAN: the bytes are the LSB-first packing of the buffered values with zero padding, and
//     the filter holds the hashes of the buffered values plus at most hash(false) for the padding
//     (never when the count is a multiple of 8);
//   * the values of a sliced boolean page are found in the filter built from the slice's Data().

import (
	"fmt"
	"math"
	"math/rand"
	"strings"
	"sync"

	"github.com/parquet-go/parquet-go"
	"github.com/parquet-go/parquet-go/bloom"
	"github.com/parquet-go/parquet-go/deprecated"
	"github.com/parquet-go/parquet-go/encoding"

	"verifharness/core"
)

func init() { RegisterSub("C07", "pagedata", RunC07PageData) }

const c07PageDataRule = "pagedata: a case is one history of WriteValues/writeBoolean/Reset on a typed column buffer followed by Page().Data() -> filter; " +
	"non-trivial = at least two write operations and at least one value left in the buffer at the end (dictionary cases: two Insert batches, one value)"

var c07PdBatchLens = []int{0, 1, 1, 2, 3, 4, 5, 6, 7, 8, 9, 10, 15, 16, 17, 23, 24, 25, 31, 32, 33, 63, 64, 65, 127, 128, 129, 130, 257}

type c07PdKind struct {
	name string // name of the buffer variant (histogram)
	lean string // kind token of the mirror
	typ  parquet.Type
	size int // byte length of flat values
}

func c07PdKinds() []c07PdKind {
	ks := []c07PdKind{
		{"boolean", "boolean", parquet.BooleanType, 0},
		{"boolean", "boolean", parquet.BooleanType, 0},
		{"boolean", "boolean", parquet.BooleanType, 0},
		{"int32", "int32", parquet.Int32Type, 0},
		{"uint32", "int32", parquet.Uint(32).Type(), 0},
		{"int64", "int64", parquet.Int64Type, 0},
		{"uint64", "int64", parquet.Uint(64).Type(), 0},
		{"float", "float", parquet.FloatType, 0},
		{"double", "double", parquet.DoubleType, 0},
		{"int96", "int96", parquet.Int96Type, 12},
		{"bytearray", "bytearray", parquet.ByteArrayType, 0},
		{"bytearray", "bytearray", parquet.ByteArrayType, 0},
	}
	for _, n := range []int{1, 3, 12, 16, 16, 17} {
		ks = append(ks, c07PdKind{fmt.Sprintf("flba%d", n), fmt.Sprintf("flba%d", n), parquet.FixedLenByteArrayType(n), n})
	}
	return ks
}

// one value of the kind: the parquet.Value and its token for the mirror
func c07PdValue(r *rand.Rand, k c07PdKind, mode int) (parquet.Value, string) {
	switch k.lean {
	case "boolean":
		var b bool
		switch mode {
		case 0:
			b = true
		case 1:
			b = false
		default:
			b = r.Intn(2) == 1
		}
		if b {
			return parquet.BooleanValue(true), "1"
		}
		return parquet.BooleanValue(false), "0"
	case "int32":
		u := c07U32(r)
		return parquet.Int32Value(int32(u)), fmt.Sprint(u)
	case "float":
		u := c07U32(r)
		return parquet.FloatValue(math.Float32frombits(u)), fmt.Sprint(u)
	case "int64":
		u := c07U64(r)
		return parquet.Int64Value(int64(u)), fmt.Sprint(u)
	case "double":
		u := c07U64(r)
		return parquet.DoubleValue(math.Float64frombits(u)), fmt.Sprint(u)
	case "int96":
		x := deprecated.Int96{c07U32(r), c07U32(r), c07U32(r)}
		raw := make([]byte, 12)
		for i := 0; i < 3; i++ {
			raw[4*i], raw[4*i+1], raw[4*i+2], raw[4*i+3] = byte(x[i]), byte(x[i]>>8), byte(x[i]>>16), byte(x[i]>>24)
		}
		return parquet.Int96Value(x), core.Hex(raw)
	case "bytearray":
		n := []int{0, 0, 1, 2, 3, 7, 8, 9, 31, 32, 33, 40}[r.Intn(12)]
		raw := make([]byte, n)
		c07Fill(r, raw)
		return parquet.ByteArrayValue(raw), c07BytesTok(raw)
	default:
		raw := make([]byte, k.size)
		c07Fill(r, raw)
		return parquet.FixedLenByteArrayValue(raw), c07BytesTok(raw)
	}
}

func c07PdLayout(k c07PdKind, data *encoding.Values) string {
	switch k.lean {
	case "boolean":
		return core.Hex(data.Boolean())
	case "int32":
		xs := data.Int32()
		us := make([]uint32, len(xs))
		for i, x := range xs {
			us[i] = uint32(x)
		}
		return core.JoinInts(us)
	case "float":
		xs := data.Float()
		us := make([]uint32, len(xs))
		for i, x := range xs {
			us[i] = math.Float32bits(x)
		}
		return core.JoinInts(us)
	case "int64":
		xs := data.Int64()
		us := make([]uint64, len(xs))
		for i, x := range xs {
			us[i] = uint64(x)
		}
		return c07U64s(us)
	case "double":
		xs := data.Double()
		us := make([]uint64, len(xs))
		for i, x := range xs {
			us[i] = math.Float64bits(x)
		}
		return c07U64s(us)
	case "int96":
		xs := data.Int96()
		raw := make([]byte, 0, 12*len(xs))
		for _, x := range xs {
			for i := 0; i < 3; i++ {
				raw = append(raw, byte(x[i]), byte(x[i]>>8), byte(x[i]>>16), byte(x[i]>>24))
			}
		}
		return core.Hex(raw)
	case "bytearray":
		vals, offs := data.ByteArray()
		return core.Hex(vals) + "/" + core.JoinInts(offs)
	default:
		raw, _ := data.FixedLenByteArray()
		return core.Hex(raw)
	}
}

func c07PdPack(vals []bool) []byte {
	out := make([]byte, (len(vals)+7)/8)
	for i, v := range vals {
		if v {
			out[i/8] |= 1 << uint(i%8)
		}
	}
	return out
}

func c07PdFilterOf(nb int, hashes []uint64) []byte {
	buf := make([]byte, nb*bloom.BlockSize)
	f := bloom.MakeSplitBlockFilter(buf)
	for _, h := range hashes {
		f.Insert(h)
	}
	return f.Bytes()
}

func c07PageDataCase(ctx *core.Ctx, b *c07Batch, r *rand.Rand, kinds []c07PdKind) {
	k := kinds[r.Intn(len(kinds))]
	isBool := k.lean == "boolean"
	capacity := []int{0, 1, 8, 64, 1000}[r.Intn(5)]
	col := k.typ.NewColumnBuffer(0, capacity)
	nops := 1 + r.Intn(6)
	var toks []string
	var kept []parquet.Value // values since the last Reset
	writes := 0
	unaligned := false
	defer func() {
		if p := recover(); p != nil {
			ctx.Fail("L1", "column-buffer-history-panics-"+k.name, fmt.Sprint("panic: ", p), strings.Join(toks, ";"))
		}
	}()
	for i := 0; i < nops; i++ {
		switch {
		case i > 0 && r.Intn(7) == 0:
			col.Reset()
			kept = kept[:0]
			toks = append(toks, "r")
		case isBool && r.Intn(4) == 0:
			v, tok := c07PdValue(r, k, 2)
			if !parquet.VerifBooleanBufferWriteBoolean(col, v.Boolean()) {
				ctx.Fail("L2", "boolean-buffer-type", "BooleanType.NewColumnBuffer is not a booleanColumnBuffer", fmt.Sprintf("%T", col))
				return
			}
			kept = append(kept, v)
			toks = append(toks, "o"+tok)
			writes++
		default:
			n := c07PdBatchLens[r.Intn(len(c07PdBatchLens))]
			mode := r.Intn(5)
			vals := make([]parquet.Value, n)
			vt := make([]string, n)
			for j := range vals {
				vals[j], vt[j] = c07PdValue(r, k, mode)
			}
			if len(kept)%8 != 0 && n > 0 {
				unaligned = true
			}
			if _, err := col.WriteValues(vals); err != nil {
				ctx.Fail("L1", "column-buffer-write-error-"+k.name, err.Error(), strings.Join(toks, ";"))
				return
			}
			kept = append(kept, vals...)
			lst := "-"
			if n > 0 {
				lst = strings.Join(vt, ",")
			}
			if isBool {
				toks = append(toks, "b:"+lst)
			} else {
				toks = append(toks, "w:"+lst)
			}
			writes++
		}
	}
	ops := strings.Join(toks, ";")
	nb := []int{1, 2, 3, 8, 33}[r.Intn(5)]
	junk := []int{0, 0xFF, 0xAA, r.Intn(256)}[r.Intn(4)]
	enc := parquet.SplitBlockFilter(10, "x").Encoding()

	page := col.Page()
	data := page.Data()
	layout := c07PdLayout(k, &data)
	filter := make([]byte, nb*bloom.BlockSize)
	filter, err := page.Type().Encode(filter, data, enc)
	if err != nil {
		ctx.Fail("L1", "write-page-to-filter-error-"+k.name, err.Error(), ops)
		return
	}
	canon := fmt.Sprintf("%s cap=%d nb=%d %s", k.name, capacity, nb, ops)
	ctx.Case(canon, writes >= 2 && len(kept) > 0)
	ctx.Hist("pagedata.kind", k.name)
	ctx.Hist("pagedata.values", c07Bucket(len(kept)))
	ctx.Hist("pagedata.ops", fmt.Sprint(nops))
	if isBool {
		ctx.Hist("pagedata.bool.tail", fmt.Sprint(len(kept)%8))
		if unaligned {
			ctx.Hist("pagedata.bool.batch", "unaligned-start")
		} else {
			ctx.Hist("pagedata.bool.batch", "aligned-start")
		}
	}
	if int(page.NumValues()) != len(kept) {
		ctx.Fail("L1", "buffer-page-numvalues-"+k.name, fmt.Sprintf("Page().NumValues() = %d, %d values written since Reset", page.NumValues(), len(kept)), canon)
	}

	// L1: every buffered value is found; the filter holds nothing else
	sbf := bloom.MakeSplitBlockFilter(filter)
	hashes := make([]uint64, len(kept))
	for i, v := range kept {
		hashes[i] = parquet.VerifBloomValueHash(v)
		if !sbf.Check(hashes[i]) {
			ctx.Fail("L1", "buffered-value-absent-from-filter-"+k.name, fmt.Sprintf("value %d of the buffer is not found in the filter built from Page().Data()", i), canon)
			break
		}
	}
	want := c07PdFilterOf(nb, hashes)
	if !isBool {
		if string(want) != string(filter) {
			ctx.Fail("L1", "filter-differs-from-read-side-hashes-"+k.name, "filter built from Page().Data() is not the filter of the read-side hashes of the buffered values",
				map[string]any{"case": canon, "got": core.Hex(filter), "want": core.Hex(want)})
		}
	} else {
		bools := make([]bool, len(kept))
		for i, v := range kept {
			bools[i] = v.Boolean()
		}
		if pk := c07PdPack(bools); string(pk) != string(data.Boolean()) {
			ctx.Fail("L1", "boolean-buffer-bits-not-packed-values", "Page().Data() of the boolean buffer is not the zero-padded LSB-first packing of the buffered values",
				map[string]any{"case": canon, "got": core.Hex(data.Boolean()), "want": core.Hex(pk)})
		}
		padded := c07PdFilterOf(nb, append(append([]uint64{}, hashes...), parquet.VerifBloomValueHash(parquet.BooleanValue(false))))
		if string(filter) != string(want) && (len(kept)%8 == 0 || string(filter) != string(padded)) {
			ctx.Fail("L1", "boolean-filter-holds-foreign-hash", "filter of a boolean buffer holds more than the buffered values' hashes and the padding's hash(false)",
				map[string]any{"case": canon, "got": core.Hex(filter), "want": core.Hex(want)})
		}
	}

	if !isBool {
		req := fmt.Sprintf("pagedata.buf %s %d %d %s", k.lean, junk, nb, ops)
		got := "ok " + layout + " " + core.Hex(filter)
		b.add(req, func(resp string) {
			if resp != got {
				ctx.Fail("L2", "buffer-pagedata-vs-mirror-"+k.name, "Page().Data() layout / filter of the column buffer differs from the Lean mirror",
					map[string]any{"request": req, "go": got, "lean": resp})
			}
		})
		return
	}

	// BOOLEAN: slices of the page
	n := len(kept)
	i := 0
	j := n
	if n > 0 {
		i = r.Intn(n + 1)
		j = i + r.Intn(n-i+1)
	}
	i2 := 0
	j2 := j - i
	if j-i > 0 {
		i2 = r.Intn(j - i + 1)
		j2 = i2 + r.Intn(j-i-i2+1)
	}
	p1 := page.Slice(int64(i), int64(j))
	p2 := p1.Slice(int64(i2), int64(j2))
	d2 := p2.Data()
	f2 := make([]byte, nb*bloom.BlockSize)
	f2, err = p2.Type().Encode(f2, d2, enc)
	if err != nil {
		ctx.Fail("L1", "write-page-to-filter-error-boolean-slice", err.Error(), canon)
		return
	}
	ctx.Hist("pagedata.bool.slice.offset", fmt.Sprint((i%8+i2)%8))
	sf2 := bloom.MakeSplitBlockFilter(f2)
	for x := i + i2; x < i+j2; x++ {
		if !sf2.Check(hashes[x]) {
			ctx.Fail("L1", "sliced-boolean-value-absent-from-filter", fmt.Sprintf("value %d of the sliced page is not found in the filter built from its Data()", x-i-i2),
				fmt.Sprintf("%s slice %d:%d slice %d:%d", canon, i, j, i2, j2))
			break
		}
	}
	tok := func(p parquet.Page, off int) string {
		d := p.Data()
		return fmt.Sprintf("%s.%d.%d", core.Hex(d.Boolean()), off, p.NumValues())
	}
	req := fmt.Sprintf("pagedata.bool %d %d %s %d %d %d %d", junk, nb, ops, i, j, i2, j2)
	got := fmt.Sprintf("ok %s %d %s %s %s %s", layout, n, core.Hex(filter), tok(p1, i%8), tok(p2, (i%8+i2)%8), core.Hex(f2))
	b.add(req, func(resp string) {
		if resp != got {
			ctx.Fail("L2", "boolean-buffer-pagedata-vs-mirror", "bits / slices / filters of the boolean column buffer differ from the Lean mirror",
				map[string]any{"request": req, "go": got, "lean": resp})
		}
	})
}

// optional column: nulls and values mixed; only the non-null values reach the base buffer and the filter
func c07PageDataOptCase(ctx *core.Ctx, b *c07Batch, r *rand.Rand, kinds []c07PdKind) {
	k := kinds[r.Intn(len(kinds))]
	isBool := k.lean == "boolean"
	schema := parquet.NewSchema("t", parquet.Group{"c": parquet.Optional(parquet.Leaf(k.typ))})
	buf := parquet.NewBuffer(schema)
	col := buf.ColumnBuffers()[0]
	if tn := fmt.Sprintf("%T", col); !strings.Contains(tn, "optionalColumnBuffer") {
		ctx.Fail("L2", "optional-buffer-type", "the column buffer of an optional leaf is not an optionalColumnBuffer", tn)
		return
	}
	nops := 1 + r.Intn(5)
	var toks []string
	var kept []parquet.Value // non-null values since the last Reset
	rows, nulls, writes := 0, 0, 0
	defer func() {
		if p := recover(); p != nil {
			ctx.Fail("L1", "optional-buffer-history-panics-"+k.name, fmt.Sprint("panic: ", p), strings.Join(toks, ";"))
		}
	}()
	for i := 0; i < nops; i++ {
		if i > 0 && r.Intn(7) == 0 {
			col.Reset()
			kept, rows = kept[:0], 0
			toks = append(toks, "r")
			continue
		}
		n := []int{0, 1, 2, 3, 7, 8, 9, 17, 33, 130}[r.Intn(10)]
		nullPct := []int{0, 10, 50, 90, 100}[r.Intn(5)]
		runLen := 1 + r.Intn(5) // nulls come in runs
		vals := make([]parquet.Value, n)
		vt := make([]string, n)
		isNull := false
		for j := range vals {
			if j%runLen == 0 {
				isNull = r.Intn(100) < nullPct
			}
			if isNull {
				vals[j], vt[j] = parquet.NullValue().Level(0, 0, 0), "n"
				nulls++
			} else {
				v, tok := c07PdValue(r, k, 2+r.Intn(3))
				vals[j], vt[j] = v.Level(0, 1, 0), "v"+tok
				kept = append(kept, v)
			}
		}
		if _, err := col.WriteValues(vals); err != nil {
			ctx.Fail("L1", "optional-buffer-write-error-"+k.name, err.Error(), strings.Join(toks, ";"))
			return
		}
		rows += n
		writes++
		lst := "-"
		if n > 0 {
			lst = strings.Join(vt, ",")
		}
		toks = append(toks, "w:"+lst)
	}
	ops := strings.Join(toks, ";")
	nb := []int{1, 2, 3, 8}[r.Intn(4)]
	junk := []int{0, 0xFF, r.Intn(256)}[r.Intn(3)]
	enc := parquet.SplitBlockFilter(10, "x").Encoding()
	page := col.Page()
	data := page.Data()
	layout := c07PdLayout(k, &data)
	filter := make([]byte, nb*bloom.BlockSize)
	filter, err := page.Type().Encode(filter, data, enc)
	if err != nil {
		ctx.Fail("L1", "write-optional-page-to-filter-error-"+k.name, err.Error(), ops)
		return
	}
	canon := fmt.Sprintf("opt %s nb=%d %s", k.name, nb, ops)
	ctx.Case(canon, writes >= 2 && len(kept) > 0)
	ctx.Hist("pagedata.opt.kind", k.name)
	ctx.Hist("pagedata.opt.nonnull", c07Bucket(len(kept)))
	if nulls > 0 && len(kept) > 0 {
		ctx.Hist("pagedata.opt.mix", "nulls+values")
	} else if nulls > 0 {
		ctx.Hist("pagedata.opt.mix", "nulls-only")
	} else {
		ctx.Hist("pagedata.opt.mix", "values-only")
	}
	if int(page.NumValues()) != rows || int(page.NumNulls()) != rows-len(kept) {
		ctx.Fail("L1", "optional-page-counts-"+k.name, fmt.Sprintf("NumValues %d NumNulls %d, written %d rows with %d non-null", page.NumValues(), page.NumNulls(), rows, len(kept)), canon)
	}
	sbf := bloom.MakeSplitBlockFilter(filter)
	hashes := make([]uint64, len(kept))
	for i, v := range kept {
		hashes[i] = parquet.VerifBloomValueHash(v)
		if !sbf.Check(hashes[i]) {
			ctx.Fail("L1", "optional-nonnull-value-absent-from-filter-"+k.name, fmt.Sprintf("non-null value %d is not found in the filter built from Page().Data()", i), canon)
			break
		}
	}
	if !isBool {
		if want := c07PdFilterOf(nb, hashes); string(want) != string(filter) {
			ctx.Fail("L1", "optional-filter-differs-from-nonnull-hashes-"+k.name, "filter of an optional column's page is not the filter of the read-side hashes of its non-null values (a null was hashed, or a value was not)",
				map[string]any{"case": canon, "got": core.Hex(filter), "want": core.Hex(want)})
		}
	}
	req := fmt.Sprintf("pagedata.opt %s %d %d %s", k.lean, junk, nb, ops)
	got := "ok " + layout + " " + core.Hex(filter)
	b.add(req, func(resp string) {
		if resp != got {
			ctx.Fail("L2", "optional-pagedata-vs-mirror-"+k.name, "Page().Data() layout / filter of the optional column buffer differs from the Lean mirror",
				map[string]any{"request": req, "go": got, "lean": resp})
		}
	})
}

// the dictionary's own page: writePageToFilter(dict.Page()) of flushFilterPages
func c07PageDataDictCase(ctx *core.Ctx, b *c07Batch, r *rand.Rand, kinds []c07PdKind) {
	k := kinds[r.Intn(len(kinds))]
	isBool := k.lean == "boolean"
	dict := k.typ.NewDictionary(0, 0, k.typ.NewValues(nil, nil))
	nbatches := 1 + r.Intn(4)
	var all []parquet.Value
	var toks []string
	// a small pool so that values repeat
	pool := make([]parquet.Value, 1+r.Intn(12))
	ptok := make([]string, len(pool))
	for i := range pool {
		pool[i], ptok[i] = c07PdValue(r, k, 2+r.Intn(3))
	}
	defer func() {
		if p := recover(); p != nil {
			ctx.Fail("L1", "dictionary-insert-panics-"+k.name, fmt.Sprint("panic: ", p), strings.Join(toks, ","))
		}
	}()
	for i := 0; i < nbatches; i++ {
		n := []int{0, 1, 2, 3, 7, 8, 9, 33, 130}[r.Intn(9)]
		vals := make([]parquet.Value, n)
		for j := range vals {
			x := r.Intn(len(pool))
			vals[j] = pool[x]
			toks = append(toks, ptok[x])
		}
		dict.Insert(make([]int32, n), vals)
		all = append(all, vals...)
	}
	lst := "-"
	if len(toks) > 0 {
		lst = strings.Join(toks, ",")
	}
	nb := []int{1, 2, 3, 8}[r.Intn(4)]
	enc := parquet.SplitBlockFilter(10, "x").Encoding()
	page := dict.Page()
	data := page.Data()
	layout := c07PdLayout(k, &data)
	filter := make([]byte, nb*bloom.BlockSize)
	filter, err := page.Type().Encode(filter, data, enc)
	if err != nil {
		ctx.Fail("L1", "write-dictionary-page-to-filter-error-"+k.name, err.Error(), lst)
		return
	}
	canon := fmt.Sprintf("dict %s nb=%d %s", k.name, nb, lst)
	ctx.Case(canon, nbatches >= 2 && len(all) > 0)
	ctx.Hist("pagedata.dict.kind", k.name)
	ctx.Hist("pagedata.dict.len", c07Bucket(dict.Len()))
	sbf := bloom.MakeSplitBlockFilter(filter)
	hashes := make([]uint64, 0, len(all))
	for i, v := range all {
		h := parquet.VerifBloomValueHash(v)
		hashes = append(hashes, h)
		if !sbf.Check(h) {
			ctx.Fail("L1", "dictionary-value-absent-from-filter-"+k.name, fmt.Sprintf("inserted value %d is not found in the filter built from dict.Page().Data()", i), canon)
			break
		}
	}
	if !isBool {
		if want := c07PdFilterOf(nb, hashes); string(want) != string(filter) {
			ctx.Fail("L1", "dictionary-filter-differs-from-read-side-hashes-"+k.name, "filter built from dict.Page().Data() is not the filter of the read-side hashes of the inserted values",
				map[string]any{"case": canon, "got": core.Hex(filter), "want": core.Hex(want)})
		}
	}
	req := fmt.Sprintf("pagedata.dict %s %d %s", k.lean, nb, lst)
	got := "ok " + layout + " " + core.Hex(filter)
	b.add(req, func(resp string) {
		if resp != got {
			ctx.Fail("L2", "dictionary-pagedata-vs-mirror-"+k.name, "dict.Page().Data() layout / filter differs from the Lean mirror",
				map[string]any{"request": req, "go": got, "lean": resp})
		}
	})
}

func RunC07PageData(ctx *core.Ctx) {
	ctx.SetRule(c07Rule + "; " + c07PageDataRule)
	nw := 8
	total := ctx.Scale(24000, 400000)
	kinds := c07PdKinds()
	var wg sync.WaitGroup
	for w := 0; w < nw; w++ {
		w := w
		wg.Add(1)
		go func() {
			defer wg.Done()
			r := ctx.Rand(fmt.Sprintf("pagedata-%d", w))
			b := &c07Batch{ctx: ctx, d: ctx.Driver()}
			for i := 0; i < total/nw; i++ {
				if i%4 == 3 {
					c07PageDataDictCase(ctx, b, r, kinds)
				} else if i%4 == 1 {
					c07PageDataOptCase(ctx, b, r, kinds)
				} else {
					c07PageDataCase(ctx, b, r, kinds)
				}
			}
			b.flush()
		}()
	}
	wg.Wait()
}
