package props

import (
	"bytes"
	"context"
	"encoding/json"
	"fmt"
	"io"
	"math/rand"
	"os"
	"os/exec"
	"reflect"
	"runtime/debug"
	"sort"
	"strconv"
	"strings"
	"sync"
	"syscall"
	"time"

	"github.com/parquet-go/parquet-go"

	"verifharness/core"
	"verifharness/drv"
	"verifharness/gen"
)

func init() {
	RegisterSub("C12", "schemas", RunC12)
	workers["c12"] = c12Worker
}

// ---------------------------------------------------------------- schema model

// c12Node is a named schema node: a field with its repetition type; leaf (kind >= 0) or group.
// A LIST-annotated group has list = true and exactly one field `list` (repeated group) holding
// one field `element`.
type c12Node struct {
	name   string
	rep    int // 0 required, 1 optional, 2 repeated
	kind   int // index into c12Kinds, -1 = group
	list   bool
	fields []*c12Node
}

var c12RepName = []string{"required", "optional", "repeated"}

type c12Kind struct {
	name string
	node func() parquet.Node
	zero parquet.Value
	gen  func(r *rand.Rand) parquet.Value
}

var c12Kinds = []c12Kind{
	{"bool", func() parquet.Node { return parquet.Leaf(parquet.BooleanType) }, parquet.ValueOf(false),
		func(r *rand.Rand) parquet.Value { return parquet.ValueOf(r.Intn(2) == 0) }},
	{"int32", func() parquet.Node { return parquet.Leaf(parquet.Int32Type) }, parquet.ValueOf(int32(0)),
		func(r *rand.Rand) parquet.Value {
			return parquet.ValueOf([]int32{0, 1, -1, 7, 1 << 30, -1 << 31, 2147483647}[r.Intn(7)])
		}},
	{"int64", func() parquet.Node { return parquet.Leaf(parquet.Int64Type) }, parquet.ValueOf(int64(0)),
		func(r *rand.Rand) parquet.Value {
			return parquet.ValueOf([]int64{0, 1, -1, 42, 1 << 40, -1 << 63, 1<<63 - 1}[r.Intn(7)])
		}},
	{"float", func() parquet.Node { return parquet.Leaf(parquet.FloatType) }, parquet.ValueOf(float32(0)),
		func(r *rand.Rand) parquet.Value { return parquet.ValueOf([]float32{0, 1.5, -2.25, 3e10}[r.Intn(4)]) }},
	{"double", func() parquet.Node { return parquet.Leaf(parquet.DoubleType) }, parquet.ValueOf(float64(0)),
		func(r *rand.Rand) parquet.Value { return parquet.ValueOf([]float64{0, 1.5, -2.25, 3e100}[r.Intn(4)]) }},
	{"string", func() parquet.Node { return parquet.String() }, parquet.ValueOf(""),
		func(r *rand.Rand) parquet.Value {
			return parquet.ValueOf([]string{"", "a", "bc", "x-y", "hello world", "zz"}[r.Intn(6)])
		}},
	{"bytes", func() parquet.Node { return parquet.Leaf(parquet.ByteArrayType) }, parquet.ValueOf([]byte{}),
		func(r *rand.Rand) parquet.Value {
			return parquet.ValueOf([][]byte{{}, {0}, {0xff, 0xff}, {1, 2, 3}}[r.Intn(4)])
		}},
	{"flba3", func() parquet.Node { return parquet.Leaf(parquet.FixedLenByteArrayType(3)) }, parquet.ValueOf([3]byte{}),
		func(r *rand.Rand) parquet.Value {
			return parquet.ValueOf([][3]byte{{}, {1, 2, 3}, {0xff, 0xff, 0xff}}[r.Intn(3)])
		}},
}

// c12Group is a group node that keeps a chosen field order (parquet.Group sorts by name), so
// that permuted targets really differ in column order.
type c12Group struct {
	parquet.Group
	order []string
}

func (g c12Group) Fields() []parquet.Field {
	fs := g.Group.Fields()
	by := map[string]parquet.Field{}
	for _, f := range fs {
		by[f.Name()] = f
	}
	out := make([]parquet.Field, 0, len(fs))
	for _, n := range g.order {
		out = append(out, by[n])
	}
	return out
}

func (n *c12Node) build() parquet.Node {
	var x parquet.Node
	switch {
	case n.kind >= 0:
		x = c12Kinds[n.kind].node()
	case n.list:
		x = parquet.List(n.fields[0].fields[0].build())
	default:
		g := c12Group{Group: parquet.Group{}}
		for _, f := range n.fields {
			g.Group[f.name] = f.build()
			g.order = append(g.order, f.name)
		}
		x = g
	}
	switch n.rep {
	case 1:
		x = parquet.Optional(x)
	case 2:
		x = parquet.Repeated(x)
	}
	return x
}

func (n *c12Node) clone() *c12Node {
	c := *n
	c.fields = nil
	for _, f := range n.fields {
		c.fields = append(c.fields, f.clone())
	}
	return &c
}

func (n *c12Node) field(name string) *c12Node {
	for _, f := range n.fields {
		if f.name == name {
			return f
		}
	}
	return nil
}

func (n *c12Node) numLeaves() int {
	if n.kind >= 0 {
		return 1
	}
	k := 0
	for _, f := range n.fields {
		k += f.numLeaves()
	}
	return k
}

// describe in Parquet-like text (for failure details)
func (n *c12Node) text() string {
	var sb strings.Builder
	n.textTo(&sb)
	return sb.String()
}

func (n *c12Node) textTo(sb *strings.Builder) {
	sb.WriteString(c12RepName[n.rep])
	sb.WriteString(" ")
	if n.kind >= 0 {
		sb.WriteString(c12Kinds[n.kind].name + " " + n.name)
		return
	}
	if n.list {
		sb.WriteString("LIST ")
	}
	sb.WriteString("group " + n.name + " {")
	for i, f := range n.fields {
		if i > 0 {
			sb.WriteString("; ")
		}
		f.textTo(sb)
	}
	sb.WriteString("}")
}

// leanText: `F` | `G(<id>:<q|o|r><node>,...)`
func (n *c12Node) leanText(ids map[string]int, sb *strings.Builder) {
	if n.kind >= 0 {
		sb.WriteString("F")
		return
	}
	sb.WriteString("G(")
	for i, f := range n.fields {
		if i > 0 {
			sb.WriteString(",")
		}
		fmt.Fprintf(sb, "%d:%c", ids[f.name], "qor"[f.rep])
		f.leanText(ids, sb)
	}
	sb.WriteString(")")
}

type c12Leaf struct {
	path   []string
	node   *c12Node
	maxRep int
	maxDef int
}

func (n *c12Node) leaves() []c12Leaf {
	var out []c12Leaf
	var walk func(n *c12Node, path []string, r, d int)
	walk = func(n *c12Node, path []string, r, d int) {
		if n.kind >= 0 {
			out = append(out, c12Leaf{append([]string(nil), path...), n, r, d})
			return
		}
		for _, f := range n.fields {
			fr, fd := r, d
			if f.rep >= 1 {
				fd++
			}
			if f.rep == 2 {
				fr++
			}
			walk(f, append(path, f.name), fr, fd)
		}
	}
	walk(n, nil, 0, 0)
	return out
}

// ---------------------------------------------------------------- abstract values (the Lean `Val`)

type c12Val struct {
	k    byte // 'P' prim, 'S' struct, 'N' none, 'J' some, 'L' list
	p    parquet.Value
	kids []*c12Val
}

type c12Ids struct {
	names map[string]int
	vals  map[string]int
}

// id of a leaf value in the Lean text: 0 is the zero value of the leaf's type
func (t *c12Ids) val(kind int, v parquet.Value) int {
	key := gen.ValueKey(v)
	if key == gen.ValueKey(c12Kinds[kind].zero) || (c12Kinds[kind].name == "flba3" && key == "-") {
		return 0
	}
	key = c12Kinds[kind].name + ":" + key
	if i, ok := t.vals[key]; ok {
		return i
	}
	i := len(t.vals) + 1
	t.vals[key] = i
	return i
}

func c12GenBody(r *rand.Rand, n *c12Node, nullP float64, maxLen int) *c12Val {
	if n.kind >= 0 {
		return &c12Val{k: 'P', p: c12Kinds[n.kind].gen(r)}
	}
	v := &c12Val{k: 'S'}
	for _, f := range n.fields {
		v.kids = append(v.kids, c12GenField(r, f, nullP, maxLen))
	}
	return v
}

func c12GenField(r *rand.Rand, n *c12Node, nullP float64, maxLen int) *c12Val {
	switch n.rep {
	case 1:
		if r.Float64() < nullP {
			return &c12Val{k: 'N'}
		}
		return &c12Val{k: 'J', kids: []*c12Val{c12GenBody(r, n, nullP, maxLen)}}
	case 2:
		v := &c12Val{k: 'L'}
		k := 0
		if r.Float64() >= nullP {
			k = 1 + r.Intn(maxLen)
		}
		for i := 0; i < k; i++ {
			v.kids = append(v.kids, c12GenBody(r, n, nullP, maxLen))
		}
		return v
	}
	return c12GenBody(r, n, nullP, maxLen)
}

func c12DefaultBody(n *c12Node) *c12Val {
	if n.kind >= 0 {
		return &c12Val{k: 'P', p: c12Kinds[n.kind].zero}
	}
	v := &c12Val{k: 'S'}
	for _, f := range n.fields {
		v.kids = append(v.kids, c12DefaultField(f))
	}
	return v
}

func c12DefaultField(n *c12Node) *c12Val {
	switch n.rep {
	case 1:
		return &c12Val{k: 'N'}
	case 2:
		return &c12Val{k: 'L'}
	}
	return c12DefaultBody(n)
}

// c12Project is the specification side, written from the property statement: fields are matched
// by name, source fields the target lacks are dropped, target fields the source lacks are null /
// empty / zero; required->optional wraps, optional->required unwraps (null becomes zero).
func c12ProjectBody(s, t *c12Node, v *c12Val) *c12Val {
	if s.kind >= 0 && t.kind >= 0 && v.k == 'P' {
		return v
	}
	if s.kind < 0 && t.kind < 0 && v.k == 'S' {
		out := &c12Val{k: 'S'}
		for _, tf := range t.fields {
			var sf *c12Node
			var sv *c12Val
			for i, f := range s.fields {
				if f.name == tf.name {
					sf, sv = f, v.kids[i]
					break
				}
			}
			if sf == nil || (sf.kind >= 0) != (tf.kind >= 0) {
				// no such field (a group and a leaf of the same name are different columns)
				out.kids = append(out.kids, c12DefaultField(tf))
				continue
			}
			out.kids = append(out.kids, c12ProjectField(sf, tf, sv))
		}
		return out
	}
	return c12DefaultBody(t)
}

func c12ProjectField(s, t *c12Node, v *c12Val) *c12Val {
	switch {
	case s.rep == 0 && t.rep == 0:
		return c12ProjectBody(s, t, v)
	case s.rep == 1 && t.rep == 1:
		if v.k == 'J' {
			return &c12Val{k: 'J', kids: []*c12Val{c12ProjectBody(s, t, v.kids[0])}}
		}
		return &c12Val{k: 'N'}
	case s.rep == 2 && t.rep == 2:
		out := &c12Val{k: 'L'}
		for _, e := range v.kids {
			out.kids = append(out.kids, c12ProjectBody(s, t, e))
		}
		return out
	case s.rep == 0 && t.rep == 1:
		return &c12Val{k: 'J', kids: []*c12Val{c12ProjectBody(s, t, v)}}
	case s.rep == 1 && t.rep == 0:
		if v.k == 'J' {
			return c12ProjectBody(s, t, v.kids[0])
		}
		return c12DefaultBody(t)
	}
	return c12DefaultField(t)
}

func (v *c12Val) leanText(n *c12Node, ids *c12Ids, sb *strings.Builder) {
	switch v.k {
	case 'P':
		fmt.Fprintf(sb, "P%d", ids.val(n.kind, v.p))
	case 'N':
		sb.WriteString("N")
	case 'J':
		sb.WriteString("J(")
		v.kids[0].leanText(n, ids, sb)
		sb.WriteString(")")
	case 'L':
		sb.WriteString("L(")
		for i, e := range v.kids {
			if i > 0 {
				sb.WriteString(",")
			}
			e.leanText(n, ids, sb)
		}
		sb.WriteString(")")
	case 'S':
		sb.WriteString("S(")
		for i, e := range v.kids {
			if i > 0 {
				sb.WriteString(",")
			}
			e.leanText(n.fields[i], ids, sb)
		}
		sb.WriteString(")")
	}
}

// c12Shred is the reference Dremel shredder over abstract values (Dremel paper / format docs):
// one stream of (value, repetition level, definition level) per leaf column.
type c12Shred struct {
	cols [][]parquet.Value
	col  int
}

func (s *c12Shred) emit(v parquet.Value, rep, def int) {
	s.cols[s.col] = append(s.cols[s.col], v.Level(rep, def, s.col))
	s.col++
}

func (s *c12Shred) absent(n *c12Node, rep, def int) {
	if n.kind >= 0 {
		s.emit(parquet.NullValue(), rep, def)
		return
	}
	for _, f := range n.fields {
		s.absent(f, rep, def)
	}
}

func (s *c12Shred) body(n *c12Node, v *c12Val, rep, depth, def int) {
	if n.kind >= 0 {
		s.emit(v.p, rep, def)
		return
	}
	for i, f := range n.fields {
		s.fieldv(f, v.kids[i], rep, depth, def)
	}
}

func (s *c12Shred) fieldv(n *c12Node, v *c12Val, rep, depth, def int) {
	switch n.rep {
	case 1:
		if v.k == 'J' {
			s.body(n, v.kids[0], rep, depth, def+1)
		} else {
			s.absent(n, rep, def)
		}
	case 2:
		if len(v.kids) == 0 {
			s.absent(n, rep, def)
			return
		}
		start := s.col
		for i, e := range v.kids {
			s.col = start
			if i == 0 {
				s.body(n, e, rep, depth+1, def+1)
			} else {
				s.body(n, e, depth+1, depth+1, def+1)
			}
		}
	default:
		s.body(n, v, rep, depth, def)
	}
}

func c12ShredRow(root *c12Node, v *c12Val) [][]parquet.Value {
	s := &c12Shred{cols: make([][]parquet.Value, root.numLeaves())}
	s.body(root, v, 0, 0, 0)
	return s.cols
}

func c12RowOf(cols [][]parquet.Value) parquet.Row {
	var row parquet.Row
	for _, c := range cols {
		row = append(row, c...)
	}
	return row
}

// ---------------------------------------------------------------- generators

type c12Gen struct {
	r    *rand.Rand
	next int
}

func (g *c12Gen) name() string {
	g.next++
	// names whose lexical order differs from creation order
	return fmt.Sprintf("%c%d", "fcnakz"[g.r.Intn(6)], g.next)
}

func (g *c12Gen) leaf() *c12Node {
	return &c12Node{name: g.name(), rep: g.r.Intn(3), kind: g.r.Intn(len(c12Kinds))}
}

func (g *c12Gen) node(depth int, budget *int) *c12Node {
	r := g.r
	if depth >= 3 || *budget <= 1 || r.Intn(3) > 0 {
		*budget--
		return g.leaf()
	}
	if r.Intn(4) == 0 { // LIST
		el := g.node(depth+2, budget)
		el.name = "element"
		if el.rep == 2 {
			el.rep = r.Intn(2)
		}
		lst := &c12Node{name: "list", rep: 2, kind: -1, fields: []*c12Node{el}}
		return &c12Node{name: g.name(), rep: r.Intn(2), kind: -1, list: true, fields: []*c12Node{lst}}
	}
	n := &c12Node{name: g.name(), rep: r.Intn(3), kind: -1}
	k := 1 + r.Intn(3)
	for i := 0; i < k && *budget > 0; i++ {
		n.fields = append(n.fields, g.node(depth+1, budget))
	}
	return n
}

func (g *c12Gen) schema() *c12Node {
	budget := 2 + g.r.Intn(9)
	root := &c12Node{name: "", kind: -1}
	k := 1 + g.r.Intn(4)
	for i := 0; i < k || len(root.fields) == 0; i++ {
		root.fields = append(root.fields, g.node(0, &budget))
		if budget <= 0 {
			break
		}
	}
	return root
}

// all group nodes below (and including) n in which fields may be edited (everything but the
// LIST skeleton `group (LIST) { repeated group list { element } }`)
func c12Groups(n *c12Node, out *[]*c12Node) {
	if n.kind >= 0 {
		return
	}
	if !n.list && n.name != "list" {
		*out = append(*out, n)
	}
	for _, f := range n.fields {
		c12Groups(f, out)
	}
}

type c12Target struct {
	node *c12Node
	mode string
	what string // for incompatible targets: what was changed
	ops  []string
}

// derive a target schema from src
func (g *c12Gen) target(src *c12Node, mode string) *c12Target {
	r := g.r
	t := &c12Target{node: src.clone(), mode: mode}
	var groups []*c12Node
	regroup := func() {
		groups = groups[:0]
		c12Groups(t.node, &groups)
	}
	regroup()
	// delete
	ndel := r.Intn(3)
	if mode == "permute" {
		ndel = 0
	}
	for k := ndel; k > 0; k-- {
		grp := groups[r.Intn(len(groups))]
		if len(grp.fields) > 1 {
			i := r.Intn(len(grp.fields))
			t.ops = append(t.ops, "delete "+grp.fields[i].name)
			grp.fields = append(grp.fields[:i:i], grp.fields[i+1:]...)
			regroup()
		}
	}
	// permute
	for _, grp := range groups {
		if (r.Intn(2) == 0 || mode == "permute") && len(grp.fields) > 1 {
			before := append([]*c12Node(nil), grp.fields...)
			r.Shuffle(len(grp.fields), func(i, j int) { grp.fields[i], grp.fields[j] = grp.fields[j], grp.fields[i] })
			if mode == "permute" && reflect.DeepEqual(before, grp.fields) {
				// the shuffle came out as the identity: rotate, so that the order really changes
				grp.fields = append(grp.fields[1:len(grp.fields):len(grp.fields)], grp.fields[0])
			}
			t.ops = append(t.ops, "permute "+grp.name)
		}
	}
	if mode == "permute" && len(t.ops) == 0 {
		t.mode = "drop-permute" // no group with two fields: the target is the source itself
	}
	var allFields func(n *c12Node, f func(parent, fld *c12Node))
	allFields = func(n *c12Node, f func(parent, fld *c12Node)) {
		for _, c := range n.fields {
			f(n, c)
			allFields(c, f)
		}
	}
	pickField := func(ok func(parent, fld *c12Node) bool) *c12Node {
		var cand []*c12Node
		allFields(t.node, func(p, f *c12Node) {
			if f.name != "list" && ok(p, f) {
				cand = append(cand, f)
			}
		})
		if len(cand) == 0 {
			return nil
		}
		return cand[r.Intn(len(cand))]
	}
	switch mode {
	case "add":
		for k := 1 + r.Intn(2); k > 0; k-- {
			grp := groups[r.Intn(len(groups))]
			budget := 1 + r.Intn(3)
			nn := g.node(1+r.Intn(2), &budget)
			nn.name = "x" + nn.name
			if r.Intn(2) == 0 {
				nn.name = "A" + nn.name // sorts before every source name
			}
			i := r.Intn(len(grp.fields) + 1)
			grp.fields = append(grp.fields[:i:i], append([]*c12Node{nn}, grp.fields[i:]...)...)
			t.ops = append(t.ops, "add "+nn.text()+" in "+grp.name)
		}
	case "widen":
		for k := 1 + r.Intn(2); k > 0; k-- {
			if f := pickField(func(p, f *c12Node) bool { return f.rep == 0 }); f != nil {
				f.rep = 1
				t.ops = append(t.ops, "widen "+f.name)
			}
		}
	case "narrow":
		if f := pickField(func(p, f *c12Node) bool { return f.rep == 1 && f.name != "element" }); f != nil {
			f.rep = 0
			t.ops = append(t.ops, "narrow "+f.name)
		}
	case "incompat":
		switch r.Intn(3) {
		case 0: // repetition change
			if f := pickField(func(p, f *c12Node) bool { return !f.list && f.name != "element" }); f != nil {
				from := f.rep
				if from == 2 {
					f.rep = r.Intn(2)
				} else {
					f.rep = 2
				}
				t.what = "repetition-" + c12RepName[from] + "-to-" + c12RepName[f.rep]
				t.ops = append(t.ops, t.what+" "+f.name)
			}
		case 1: // group <-> leaf
			if f := pickField(func(p, f *c12Node) bool { return !f.list && f.name != "element" }); f != nil {
				if f.kind >= 0 {
					f.kind = -1
					f.fields = []*c12Node{{name: "q1", rep: r.Intn(2), kind: r.Intn(len(c12Kinds))}}
					t.what = "leaf-to-group"
				} else {
					f.kind = r.Intn(len(c12Kinds))
					f.fields = nil
					t.what = "group-to-leaf"
				}
				t.ops = append(t.ops, t.what+" "+f.name)
			}
		case 2: // string -> int64 with non-numeric strings
			if f := pickField(func(p, f *c12Node) bool { return f.kind == 5 }); f != nil {
				f.kind = 2
				t.what = "type-string-to-int64"
				t.ops = append(t.ops, t.what+" "+f.name)
			}
		}
		if t.what == "" {
			t.mode = "drop-permute"
		}
	}
	return t
}

// ---------------------------------------------------------------- streams

// canonical triple of a value read from the library, relative to the column's max definition
// level: the payload only counts at the max definition level (below it the entry is a null
// whatever the in-memory kind says; a null kind at the max level reads as the zero value).
func c12Canon(ctx *core.Ctx, v parquet.Value, lf c12Leaf) gen.Triple {
	d := v.DefinitionLevel()
	t := gen.Triple{Rep: v.RepetitionLevel(), Def: d}
	if d < lf.maxDef {
		t.Null = true
		if !v.IsNull() && ctx != nil {
			ctx.Hist("value-kind-vs-level", "non-null-kind-below-max-definition-level")
		}
		return t
	}
	if v.IsNull() {
		if ctx != nil {
			ctx.Hist("value-kind-vs-level", "null-kind-at-max-definition-level")
		}
		t.Val = gen.ValueKey(c12Kinds[lf.node.kind].zero)
		return t
	}
	t.Val = gen.ValueKey(v)
	if c12Kinds[lf.node.kind].name == "flba3" && t.Val == "-" {
		if ctx != nil {
			ctx.Hist("value-kind-vs-level", "empty-fixed-len-zero-value")
		}
		t.Val = gen.ValueKey(c12Kinds[lf.node.kind].zero)
	}
	return t
}

func c12SplitRows(ctx *core.Ctx, rows []parquet.Row, leaves []c12Leaf) ([][]gen.Triple, error) {
	cols := make([][]gen.Triple, len(leaves))
	for ri, row := range rows {
		last := -1
		seen := 0
		for _, v := range row {
			c := v.Column()
			if c < 0 || c >= len(leaves) {
				return cols, fmt.Errorf("row %d: value with column index %d of %d", ri, c, len(leaves))
			}
			if c < last {
				return cols, fmt.Errorf("row %d: column %d after column %d", ri, c, last)
			}
			if c != last {
				seen++
				if v.RepetitionLevel() != 0 {
					return cols, fmt.Errorf("row %d: column %d starts with repetition level %d", ri, c, v.RepetitionLevel())
				}
			}
			last = c
			cols[c] = append(cols[c], c12Canon(ctx, v, leaves[c]))
		}
		if seen != len(leaves) {
			return cols, fmt.Errorf("row %d: values for %d of %d columns", ri, seen, len(leaves))
		}
	}
	return cols, nil
}

func c12ReadRows(rr parquet.RowReader, batch int) (rows []parquet.Row, err error) {
	defer func() {
		if x := recover(); x != nil {
			err = fmt.Errorf("PANIC: %v", x)
		}
	}()
	buf := make([]parquet.Row, batch)
	for guard := 0; guard < 100000; guard++ {
		n, err := rr.ReadRows(buf)
		for _, row := range buf[:n] {
			rows = append(rows, row.Clone())
		}
		if err == io.EOF {
			return rows, nil
		}
		if err != nil {
			return rows, err
		}
		if n == 0 {
			return rows, fmt.Errorf("ReadRows returned 0 rows and no error")
		}
	}
	return rows, fmt.Errorf("ReadRows does not terminate")
}

type c12Out struct {
	cols    [][]gen.Triple
	nrows   int
	raw     []parquet.Row     // row paths only
	rawCols [][]parquet.Value // convert-rowgroup-chunks only: the values as served by the chunks
	extra   []c12Extra        // further L1 failures of the path (page slices, seeks)
	order   []int             // non-nil: the output must hold these rows (global ids: id % number of rows = row index), in this order
}

// c12Extra is an L1 failure a path found besides the comparison of its output streams.
type c12Extra struct {
	key, what string
	detail    map[string]any
}

type c12Case struct {
	src, tgt   *c12Node
	srcS, tgtS *parquet.Schema
	rows       []parquet.Row
	file       []byte
	batch      int
	tleaves    []c12Leaf
	cuts       *rand.Rand // page slice bounds and seek positions of the column-chunk path
	trows      []parquet.Row // the projected rows, shredded against the target schema by the harness
	tfile      []byte        // a file holding trows under the target schema (nil: not available)
	views      *c12View      // composition of row-group views read by the composed-views paths
}

func (c *c12Case) open() (*parquet.File, error) {
	return parquet.OpenFile(bytes.NewReader(c.file), int64(len(c.file)))
}

// c12Guard runs library calls under recover: a panic becomes the error "PANIC: ..." (with the
// innermost library frames), never the end of the harness.
func c12Guard(f func() (*c12Out, error)) (out *c12Out, err error) {
	defer func() {
		if x := recover(); x != nil {
			out = nil
			err = fmt.Errorf("PANIC: %v [%s]", x, c12Frames(debug.Stack()))
		}
	}()
	return f()
}

// the first few parquet-go frames of a stack trace
func c12Frames(stack []byte) string {
	var fr []string
	for _, l := range strings.Split(string(stack), "\n") {
		if strings.HasPrefix(l, "github.com/parquet-go/parquet-go") && len(fr) < 4 {
			if i := strings.LastIndex(l, "("); i > 0 {
				l = l[:i]
			}
			fr = append(fr, strings.TrimPrefix(l, "github.com/parquet-go/parquet-go"))
		}
	}
	return strings.Join(fr, " < ")
}

func (c *c12Case) rowsOut(ctx *core.Ctx, rows []parquet.Row) (*c12Out, error) {
	cols, err := c12SplitRows(ctx, rows, c.tleaves)
	if err != nil {
		return &c12Out{cols: cols, nrows: len(rows), raw: rows}, fmt.Errorf("malformed row: %w", err)
	}
	return &c12Out{cols: cols, nrows: len(rows), raw: rows}, nil
}

func (c *c12Case) fileOut(ctx *core.Ctx, file []byte) (*c12Out, error) {
	f, err := parquet.OpenFile(bytes.NewReader(file), int64(len(file)))
	if err != nil {
		return nil, fmt.Errorf("reopen: %w", err)
	}
	if got, want := len(f.Schema().Columns()), len(c.tleaves); got != want {
		return nil, fmt.Errorf("written file has %d columns, target schema %d", got, want)
	}
	out := &c12Out{cols: make([][]gen.Triple, len(c.tleaves)), nrows: int(f.NumRows())}
	for _, rg := range f.RowGroups() {
		for ci, cc := range rg.ColumnChunks() {
			vals, err := c12ChunkValues(cc)
			if err != nil {
				return out, fmt.Errorf("column %d: %w", ci, err)
			}
			for _, v := range vals {
				out.cols[ci] = append(out.cols[ci], c12Canon(ctx, v, c.tleaves[ci]))
			}
		}
	}
	return out, nil
}

func c12ChunkValues(cc parquet.ColumnChunk) (vals []parquet.Value, err error) {
	pages := cc.Pages()
	defer pages.Close()
	for guard := 0; guard < 100000; guard++ {
		p, err := pages.ReadPage()
		if err == io.EOF {
			return vals, nil
		}
		if err != nil {
			return vals, err
		}
		vr := p.Values()
		buf := make([]parquet.Value, 64)
		for {
			n, err := vr.ReadValues(buf)
			for _, v := range buf[:n] {
				vals = append(vals, v.Clone())
			}
			if err == io.EOF {
				break
			}
			if err != nil {
				parquet.Release(p)
				return vals, err
			}
			if n == 0 {
				parquet.Release(p)
				return vals, fmt.Errorf("ReadValues returned 0 values and no error")
			}
		}
		parquet.Release(p)
	}
	return vals, fmt.Errorf("ReadPage does not terminate")
}

// c12SlicedChunk reads a column chunk of a converted row group again (1) through slices of its
// pages cut at random row bounds and (2) after Pages().SeekToRow(k). Whatever the cuts, the chunk
// must serve the values `whole` (what plain ReadPage calls gave), every value and every sliced
// page under the target column index `ci`.
//
// A difference is classified by what differs (c12SliceDiffClass): the key of a difference in
// nullness or payload is another one than the key of a difference in levels or counts, so that
// two defects of Slice/SeekToRow never share a key.
func c12SlicedChunk(cc parquet.ColumnChunk, ci int, maxDef int, whole []parquet.Value, r *rand.Rand) (fails []c12Extra) {
	fail := func(key, what string, detail map[string]any) {
		if detail == nil {
			detail = map[string]any{}
		}
		detail["target_column_index"] = ci
		fails = append(fails, c12Extra{key, what, detail})
	}
	text := func(vs []parquet.Value) string {
		var sb strings.Builder
		for i, v := range vs {
			if i > 0 {
				sb.WriteString(" ")
			}
			fmt.Fprintf(&sb, "%+v", v)
		}
		return sb.String()
	}
	same := func(a, b []parquet.Value) bool {
		if len(a) != len(b) {
			return false
		}
		for i := range a {
			if !parquet.DeepEqual(a[i], b[i]) || a[i].Column() != b[i].Column() ||
				a[i].RepetitionLevel() != b[i].RepetitionLevel() || a[i].DefinitionLevel() != b[i].DefinitionLevel() {
				return false
			}
		}
		return true
	}
	readAll := func(p parquet.Page) ([]parquet.Value, error) {
		var vals []parquet.Value
		vr := p.Values()
		buf := make([]parquet.Value, 16)
		for guard := 0; guard < 1<<20; guard++ {
			n, err := vr.ReadValues(buf)
			for _, v := range buf[:n] {
				vals = append(vals, v.Clone())
			}
			if err == io.EOF {
				return vals, nil
			}
			if err != nil {
				return vals, err
			}
			if n == 0 {
				return vals, fmt.Errorf("ReadValues returned 0 values and no error")
			}
		}
		return vals, fmt.Errorf("ReadValues does not terminate")
	}
	// (1) slices
	func() {
		pages := cc.Pages()
		defer pages.Close()
		var got []parquet.Value
		var cutsText []string
		for guard := 0; guard < 100000; guard++ {
			p, err := pages.ReadPage()
			if err == io.EOF {
				break
			}
			if err != nil {
				fail("converted-page-slice:read-error", "ReadPage: "+err.Error(), nil)
				return
			}
			n := p.NumRows()
			bounds := []int64{0}
			for k := r.Intn(3); k > 0 && n > 0; k-- {
				bounds = append(bounds, r.Int63n(n+1))
			}
			bounds = append(bounds, n)
			sort.Slice(bounds, func(i, j int) bool { return bounds[i] < bounds[j] })
			for i := 1; i < len(bounds); i++ {
				a, b := bounds[i-1], bounds[i]
				cutsText = append(cutsText, fmt.Sprintf("[%d,%d)", a, b))
				q := p.Slice(a, b)
				if q.Column() != ci {
					fail("converted-page-slice:page-column-index", fmt.Sprintf("Slice(%d,%d) of a page of target column %d reports column %d", a, b, ci, q.Column()), nil)
					parquet.Release(p)
					return
				}
				if q.NumRows() != b-a {
					fail("converted-page-slice:row-count", fmt.Sprintf("Slice(%d,%d) of a page of %d rows has %d rows", a, b, n, q.NumRows()), nil)
					parquet.Release(p)
					return
				}
				vs, err := readAll(q)
				if err != nil {
					fail("converted-page-slice:read-error", fmt.Sprintf("values of Slice(%d,%d): %v", a, b, err), nil)
					parquet.Release(p)
					return
				}
				got = append(got, vs...)
			}
			parquet.Release(p)
		}
		for _, v := range got {
			if v.Column() != ci {
				fail("converted-page-slice:value-column-index", fmt.Sprintf("a value read from a page slice of target column %d carries column index %d", ci, v.Column()),
					map[string]any{"slices": cutsText, "got": text(got)})
				return
			}
		}
		if !same(got, whole) {
			cls, why := c12SliceDiffClass(got, whole, maxDef)
			fail("converted-page-slice:"+cls, "the slices of the pages yield other values than the whole pages ("+why+")",
				map[string]any{"slices": cutsText, "whole": text(whole), "sliced": text(got), "difference": cls})
		}
	}()
	// (2) seek: the values from row k on
	func() {
		var starts []int // index in whole of the first value of every row
		for i, v := range whole {
			if v.RepetitionLevel() == 0 {
				starts = append(starts, i)
			}
		}
		if len(starts) == 0 {
			return
		}
		k := r.Intn(len(starts))
		pages := cc.Pages()
		defer pages.Close()
		if err := pages.SeekToRow(int64(k)); err != nil {
			fail("converted-chunk-seek:error", fmt.Sprintf("Pages().SeekToRow(%d): %v", k, err), nil)
			return
		}
		var got []parquet.Value
		for guard := 0; guard < 100000; guard++ {
			p, err := pages.ReadPage()
			if err == io.EOF {
				break
			}
			if err != nil {
				fail("converted-chunk-seek:error", fmt.Sprintf("ReadPage after SeekToRow(%d): %v", k, err), nil)
				return
			}
			if p.Column() != ci {
				fail("converted-chunk-seek:page-column-index", fmt.Sprintf("after SeekToRow(%d) a page of target column %d reports column %d", k, ci, p.Column()), nil)
				parquet.Release(p)
				return
			}
			vs, err := readAll(p)
			parquet.Release(p)
			if err != nil {
				fail("converted-chunk-seek:error", err.Error(), nil)
				return
			}
			got = append(got, vs...)
		}
		if want := whole[starts[k]:]; !same(got, want) {
			cls, why := c12SliceDiffClass(got, want, maxDef)
			fail("converted-chunk-seek:"+cls, fmt.Sprintf("after Pages().SeekToRow(%d) the chunk does not serve the values of rows %d.. (%s)", k, k, why),
				map[string]any{"seek": k, "expected": text(want), "got": text(got), "difference": cls})
		}
	}()
	return fails
}

// c12SliceDiffClass says WHAT differs between the values `got` of a re-read of a column chunk
// (page slices, seek) and the values `want` of its whole pages:
//
//	null-flag-differs  a value whose IsNull() contradicts its definition level (null <=> level below
//	                   the maximum of the column) where the whole pages have no such value, or more /
//	                   fewer non-null values although the entry count is the same: a slice that turns
//	                   nulls into values or values into nulls
//	payload-differs    a non-null payload the whole pages never show
//	values-differ      everything else: levels, entry counts, order
//
// The class depends only on the two value sequences and the column's maximal definition level.
func c12SliceDiffClass(got, want []parquet.Value, maxDef int) (cls, why string) {
	incoherent := func(vs []parquet.Value) (int, string) {
		n, first := 0, ""
		for _, v := range vs {
			if v.IsNull() != (v.DefinitionLevel() < maxDef) {
				if n == 0 {
					first = fmt.Sprintf("%+v", v)
				}
				n++
			}
		}
		return n, first
	}
	nonNull := func(vs []parquet.Value) (n int) {
		for _, v := range vs {
			if !v.IsNull() {
				n++
			}
		}
		return n
	}
	gi, first := incoherent(got)
	wi, _ := incoherent(want)
	if gi > 0 && wi == 0 {
		return "null-flag-differs", fmt.Sprintf("%d values whose null flag contradicts their definition level (maximum %d), first %s; none in the whole pages", gi, maxDef, first)
	}
	if gn, wn := nonNull(got), nonNull(want); len(got) == len(want) && gn != wn {
		return "null-flag-differs", fmt.Sprintf("%d non-null values, the whole pages hold %d among as many entries", gn, wn)
	}
	payloads := map[string]bool{}
	for _, v := range want {
		if !v.IsNull() {
			payloads[fmt.Sprintf("%d:%x", v.Kind(), v.Bytes())] = true
		}
	}
	if len(want) > 0 {
		for _, v := range got {
			if !v.IsNull() && !payloads[fmt.Sprintf("%d:%x", v.Kind(), v.Bytes())] {
				return "payload-differs", fmt.Sprintf("value %+v is no value of the whole pages", v)
			}
		}
	}
	return "values-differ", "levels, count or order"
}

type c12Path struct {
	name   string
	chunks bool // reads the converted row group through its column chunks
	dup    int  // the output holds the rows this many times
	run    func(ctx *core.Ctx, c *c12Case) (*c12Out, error)
}

var c12Paths = []c12Path{
	{"convert-rows", false, 1, func(ctx *core.Ctx, c *c12Case) (*c12Out, error) {
		conv, err := parquet.Convert(c.tgtS, c.srcS)
		if err != nil {
			return nil, err
		}
		var out []parquet.Row
		for i := 0; i < len(c.rows); i += c.batch {
			j := min(i+c.batch, len(c.rows))
			b := make([]parquet.Row, 0, j-i)
			for _, row := range c.rows[i:j] {
				b = append(b, row.Clone())
			}
			n, err := conv.Convert(b)
			if err != nil {
				return nil, err
			}
			if n != len(b) {
				return nil, fmt.Errorf("Convert returned %d of %d rows and no error", n, len(b))
			}
			out = append(out, b...)
		}
		return c.rowsOut(ctx, out)
	}},
	{"convert-rowgroup-rows", false, 1, func(ctx *core.Ctx, c *c12Case) (*c12Out, error) {
		f, err := c.open()
		if err != nil {
			return nil, err
		}
		conv, err := parquet.Convert(c.tgtS, f.Schema())
		if err != nil {
			return nil, err
		}
		var out []parquet.Row
		for _, rg := range f.RowGroups() {
			rr := parquet.ConvertRowGroup(rg, conv).Rows()
			rows, err := c12ReadRows(rr, c.batch)
			rr.Close()
			if err != nil {
				return nil, err
			}
			out = append(out, rows...)
		}
		return c.rowsOut(ctx, out)
	}},
	{"convert-rowgroup-chunks", true, 1, func(ctx *core.Ctx, c *c12Case) (*c12Out, error) {
		f, err := c.open()
		if err != nil {
			return nil, err
		}
		conv, err := parquet.Convert(c.tgtS, f.Schema())
		if err != nil {
			return nil, err
		}
		out := &c12Out{cols: make([][]gen.Triple, len(c.tleaves))}
		for _, rg := range f.RowGroups() {
			crg := parquet.ConvertRowGroup(rg, conv)
			out.nrows += int(crg.NumRows())
			chunks := crg.ColumnChunks()
			if len(chunks) != len(c.tleaves) {
				return nil, fmt.Errorf("converted row group has %d column chunks, target schema %d columns", len(chunks), len(c.tleaves))
			}
			for ci, cc := range chunks {
				vals, err := c12ChunkValues(cc)
				if err != nil {
					return nil, fmt.Errorf("column %d: %w", ci, err)
				}
				for _, v := range vals {
					if v.Column() != ci {
						return nil, fmt.Errorf("column chunk %d yields a value with column index %d", ci, v.Column())
					}
					out.cols[ci] = append(out.cols[ci], c12Canon(ctx, v, c.tleaves[ci]))
				}
				if out.rawCols == nil {
					out.rawCols = make([][]parquet.Value, len(c.tleaves))
				}
				out.rawCols[ci] = append(out.rawCols[ci], vals...)
				// the same chunk read through slices of its pages, and after a seek: the values and
				// their column index must not depend on how the pages are cut
				if c.cuts != nil {
					out.extra = append(out.extra, c12SlicedChunk(cc, ci, c.tleaves[ci].maxDef, vals, c.cuts)...)
				}
			}
		}
		return out, nil
	}},
	{"new-reader-schema", false, 1, func(ctx *core.Ctx, c *c12Case) (*c12Out, error) {
		f, err := c.open()
		if err != nil {
			return nil, err
		}
		rd := parquet.NewReader(f, c.tgtS)
		defer rd.Close()
		rows, err := c12ReadRows(rd, c.batch)
		if err != nil {
			return nil, err
		}
		return c.rowsOut(ctx, rows)
	}},
	{"rowgroup-reader-schema", false, 1, func(ctx *core.Ctx, c *c12Case) (*c12Out, error) {
		f, err := c.open()
		if err != nil {
			return nil, err
		}
		var out []parquet.Row
		for _, rg := range f.RowGroups() {
			rd := parquet.NewRowGroupReader(rg, c.tgtS)
			rows, err := c12ReadRows(rd, c.batch)
			rd.Close()
			if err != nil {
				return nil, err
			}
			out = append(out, rows...)
		}
		return c.rowsOut(ctx, out)
	}},
	{"generic-reader-schema", false, 1, func(ctx *core.Ctx, c *c12Case) (*c12Out, error) {
		f, err := c.open()
		if err != nil {
			return nil, err
		}
		rd := parquet.NewGenericReader[any](f, c.tgtS)
		defer rd.Close()
		rows, err := c12ReadRows(rd, c.batch)
		if err != nil {
			return nil, err
		}
		return c.rowsOut(ctx, rows)
	}},
	{"generic-rowgroup-reader", false, 1, func(ctx *core.Ctx, c *c12Case) (*c12Out, error) {
		f, err := c.open()
		if err != nil {
			return nil, err
		}
		var out []parquet.Row
		for _, rg := range f.RowGroups() {
			rd := parquet.NewGenericRowGroupReader[any](rg, c.tgtS)
			rows, err := c12ReadRows(rd, c.batch)
			rd.Close()
			if err != nil {
				return nil, err
			}
			out = append(out, rows...)
		}
		return c.rowsOut(ctx, out)
	}},
	{"generic-rowgroup-reader-buffer", false, 1, func(ctx *core.Ctx, c *c12Case) (*c12Out, error) {
		b := parquet.NewBuffer(c.srcS)
		for _, row := range c.rows {
			if _, err := b.WriteRows([]parquet.Row{row.Clone()}); err != nil {
				return nil, err
			}
		}
		rd := parquet.NewGenericRowGroupReader[any](b, c.tgtS)
		defer rd.Close()
		rows, err := c12ReadRows(rd, c.batch)
		if err != nil {
			return nil, err
		}
		return c.rowsOut(ctx, rows)
	}},
	{"copy-rows-writer", false, 1, func(ctx *core.Ctx, c *c12Case) (*c12Out, error) {
		f, err := c.open()
		if err != nil {
			return nil, err
		}
		var buf bytes.Buffer
		w := parquet.NewWriter(&buf, c.tgtS)
		var total int64
		for _, rg := range f.RowGroups() {
			rr := rg.Rows()
			n, err := parquet.CopyRows(w, rr)
			rr.Close()
			if err != nil {
				return nil, err
			}
			total += n
		}
		if err := w.Close(); err != nil {
			return nil, err
		}
		if int(total) != len(c.rows) {
			return nil, fmt.Errorf("CopyRows reported %d rows for %d", total, len(c.rows))
		}
		return c.fileOut(ctx, buf.Bytes())
	}},
	{"write-rowgroup-converted", false, 1, func(ctx *core.Ctx, c *c12Case) (*c12Out, error) {
		f, err := c.open()
		if err != nil {
			return nil, err
		}
		conv, err := parquet.Convert(c.tgtS, f.Schema())
		if err != nil {
			return nil, err
		}
		var buf bytes.Buffer
		w := parquet.NewWriter(&buf, c.tgtS)
		for _, rg := range f.RowGroups() {
			if _, err := w.WriteRowGroup(parquet.ConvertRowGroup(rg, conv)); err != nil {
				return nil, err
			}
		}
		if err := w.Close(); err != nil {
			return nil, err
		}
		return c.fileOut(ctx, buf.Bytes())
	}},
	{"merge-rowgroups-schema", true, 2, func(ctx *core.Ctx, c *c12Case) (*c12Out, error) {
		f, err := c.open()
		if err != nil {
			return nil, err
		}
		g, err := c.open()
		if err != nil {
			return nil, err
		}
		rgs := append(append([]parquet.RowGroup{}, f.RowGroups()...), g.RowGroups()...)
		m, err := parquet.MergeRowGroups(rgs, c.tgtS)
		if err != nil {
			return nil, err
		}
		rr := m.Rows()
		defer rr.Close()
		rows, err := c12ReadRows(rr, c.batch)
		if err != nil {
			return nil, err
		}
		return c.rowsOut(ctx, rows)
	}},
}


// ---------------------------------------------------------------- views composed of views

// c12View is a composition of row-group views over the rows of the case: leaves are row groups
// holding the source rows under the source schema (S: file row group, SB: Buffer) or the projected
// rows under the target schema (T: file row group, TB: Buffer); inner nodes are the library's view
// constructors: merge = MergeRowGroups(kids, target schema) without sorting columns, multi =
// MultiRowGroup(kids...) (kids under the target schema), conv = ConvertRowGroup(kid, Convert(target,
// kid schema)), range = rows [off, off+n) of a leaf as the merge planner cuts them (hook
// VerifNewRowRange; a conversion goes on top of the range). Whatever the
// shape, reading the root must yield the projected rows its leaves stand for, in order: a view
// handed to another view constructor is a row group like any other.
type c12View struct {
	op     string
	kids   []*c12View
	off, n int // range: rows [off, off+n) of the kid
}

func (v *c12View) text() string {
	if len(v.kids) == 0 {
		return v.op
	}
	var parts []string
	for _, k := range v.kids {
		parts = append(parts, k.text())
	}
	if v.op == "range" {
		return fmt.Sprintf("range[%d,%d)(%s)", v.off, v.off+v.n, parts[0])
	}
	return v.op + "(" + strings.Join(parts, ",") + ")"
}

func (v *c12View) leafCount() int {
	if len(v.kids) == 0 {
		return 1
	}
	n := 0
	for _, k := range v.kids {
		n += k.leafCount()
	}
	return n
}

func (v *c12View) depth() int {
	d := 0
	for _, k := range v.kids {
		d = max(d, 1+k.depth())
	}
	return d
}

func (v *c12View) count(op string) int {
	n := 0
	if v.op == op {
		n = 1
	}
	for _, k := range v.kids {
		n += k.count(op)
	}
	return n
}

// expect: the rows the view stands for, as global ids (leaf number * nrows + row index); next is
// the number of leaves seen so far.
func (v *c12View) expect(nrows int, next *int) []int {
	if len(v.kids) == 0 {
		ids := make([]int, nrows)
		for i := range ids {
			ids[i] = *next*nrows + i
		}
		*next++
		return ids
	}
	var ids []int
	for _, k := range v.kids {
		ids = append(ids, k.expect(nrows, next)...)
	}
	if v.op == "range" {
		ids = ids[v.off : v.off+v.n]
	}
	return ids
}

// c12GenView draws a view of the given depth budget over leaves of nrows rows; tgtOnly: the view
// must present the target schema (member of a MultiRowGroup); haveT: a file/buffer under the
// target schema is available.
func c12GenView(r *rand.Rand, depth, nrows int, tgtOnly, haveT bool) *c12View {
	leaf := func() *c12View {
		ops := []string{"S", "SB"}
		if haveT {
			ops = []string{"S", "SB", "T", "T", "TB"}
		}
		op := ops[r.Intn(len(ops))]
		v := &c12View{op: op}
		// a row range of the leaf, sometimes a range of a range; a conversion goes on top of the
		// range, which is where rowRangeOf puts the range of a converted row group
		for n := nrows; n > 1 && r.Intn(4) == 0; {
			off := r.Intn(n)
			ln := 1 + r.Intn(n-off)
			if ln == n {
				ln--
			}
			v = &c12View{op: "range", kids: []*c12View{v}, off: off, n: ln}
			n = ln
		}
		if tgtOnly && (op == "S" || op == "SB") {
			v = &c12View{op: "conv", kids: []*c12View{v}}
		}
		return v
	}
	if depth <= 0 || r.Intn(10) < 4 {
		return leaf()
	}
	switch x := r.Intn(10); {
	case x < 6:
		v := &c12View{op: "merge"}
		for i, n := 0, 2+r.Intn(2); i < n; i++ {
			v.kids = append(v.kids, c12GenView(r, depth-1, nrows, false, haveT))
		}
		return v
	case x < 9:
		v := &c12View{op: "multi"}
		for i, n := 0, 2+r.Intn(2); i < n; i++ {
			v.kids = append(v.kids, c12GenView(r, depth-1, nrows, true, haveT))
		}
		return v
	}
	return &c12View{op: "conv", kids: []*c12View{c12GenView(r, depth-1, nrows, false, haveT)}}
}

// c12RootView: the root is a merge or a multi row group of at least two members.
func c12RootView(r *rand.Rand, nrows int, haveT bool) *c12View {
	for {
		v := c12GenView(r, 2+r.Intn(2), nrows, false, haveT)
		if v.op == "merge" || v.op == "multi" {
			return v
		}
	}
}

// c12Built is a view as built from the library's constructors, with its text for the Lean model
// (`L<n>` leaf, `C(..)` a conversion that ConvertRowGroup really installs, `M(..)` multi row
// group, `R<off>.<len>(..)` row range) and, for every node of that text in preorder, what the
// library says about the row group: rowGroupReadsChunksInOrder.
type c12Built struct {
	rg    parquet.RowGroup
	lean  string
	flags []string
}

func c12ViewFlags(rg parquet.RowGroup) string {
	return map[bool]string{true: "1", false: "0"}[parquet.VerifReadsChunksInOrder(rg)]
}

// converted: ConvertRowGroup(b, Convert(target, schema of b)) - the row group itself when the
// schemas are equal
func (c *c12Case) converted(b *c12Built) (*c12Built, error) {
	if parquet.EqualNodes(b.rg.Schema(), c.tgtS) {
		return b, nil
	}
	conv, err := parquet.Convert(c.tgtS, b.rg.Schema())
	if err != nil {
		return nil, err
	}
	cg := parquet.ConvertRowGroup(b.rg, conv)
	return &c12Built{rg: cg, lean: "C(" + b.lean + ")", flags: append([]string{c12ViewFlags(cg)}, b.flags...)}, nil
}

func (c *c12Case) buildView(v *c12View) (*c12Built, error) {
	leaf := func(rg parquet.RowGroup) (*c12Built, error) {
		return &c12Built{rg: rg, lean: fmt.Sprintf("L%d", len(c.rows)), flags: []string{c12ViewFlags(rg)}}, nil
	}
	switch v.op {
	case "S":
		f, err := c.open()
		if err != nil {
			return nil, err
		}
		return leaf(parquet.MultiRowGroup(f.RowGroups()...))
	case "T":
		f, err := parquet.OpenFile(bytes.NewReader(c.tfile), int64(len(c.tfile)))
		if err != nil {
			return nil, err
		}
		return leaf(parquet.MultiRowGroup(f.RowGroups()...))
	case "SB", "TB":
		schema, rows := c.srcS, c.rows
		if v.op == "TB" {
			schema, rows = c.tgtS, c.trows
		}
		b := parquet.NewBuffer(schema)
		for _, row := range rows {
			if _, err := b.WriteRows([]parquet.Row{row.Clone()}); err != nil {
				return nil, err
			}
		}
		return leaf(b)
	}
	kids := make([]*c12Built, len(v.kids))
	for i, k := range v.kids {
		b, err := c.buildView(k)
		if err != nil {
			return nil, err
		}
		kids[i] = b
	}
	switch v.op {
	case "conv":
		return c.converted(kids[0])
	case "range":
		rg := parquet.VerifNewRowRange(kids[0].rg, int64(v.off), int64(v.n))
		return &c12Built{rg: rg, lean: fmt.Sprintf("R%d.%d(%s)", v.off, v.n, kids[0].lean),
			flags: append([]string{c12ViewFlags(rg)}, kids[0].flags...)}, nil
	}
	rgs := make([]parquet.RowGroup, len(kids))
	var texts, flags []string
	for i, k := range kids {
		rgs[i] = k.rg
		m := k
		if v.op == "merge" {
			// what MergeRowGroups puts into its multi row group
			var err error
			if m, err = c.converted(k); err != nil {
				return nil, err
			}
		}
		texts = append(texts, m.lean)
		flags = append(flags, m.flags...)
	}
	var rg parquet.RowGroup
	if v.op == "merge" {
		var err error
		if rg, err = parquet.MergeRowGroups(rgs, c.tgtS); err != nil {
			return nil, err
		}
	} else {
		rg = parquet.MultiRowGroup(rgs...)
	}
	return &c12Built{rg: rg, lean: "M(" + strings.Join(texts, ",") + ")", flags: append([]string{c12ViewFlags(rg)}, flags...)}, nil
}

var errC12NoViews = fmt.Errorf("no composed views for this case")

// c12ViewPath wraps a reader of the composed root view as a path.
func c12ViewPath(name string, read func(ctx *core.Ctx, c *c12Case, root parquet.RowGroup) (*c12Out, error)) c12Path {
	return c12Path{name, false, 1, func(ctx *core.Ctx, c *c12Case) (*c12Out, error) {
		if c.views == nil {
			return nil, errC12NoViews
		}
		b, err := c.buildView(c.views)
		if err != nil {
			return nil, err
		}
		next := 0
		order := c.views.expect(len(c.rows), &next)
		if n := b.rg.NumRows(); int(n) != len(order) {
			return nil, fmt.Errorf("the composed view reports %d rows for %d", n, len(order))
		}
		out, err := read(ctx, c, b.rg)
		if out != nil {
			out.order = order
		}
		return out, err
	}}
}

func init() {
	c12Paths = append(c12Paths,
		c12ViewPath("composed-views-rows", func(ctx *core.Ctx, c *c12Case, root parquet.RowGroup) (*c12Out, error) {
			rr := root.Rows()
			defer rr.Close()
			rows, err := c12ReadRows(rr, c.batch)
			if err != nil {
				return nil, err
			}
			return c.rowsOut(ctx, rows)
		}),
		c12ViewPath("composed-views-generic-reader", func(ctx *core.Ctx, c *c12Case, root parquet.RowGroup) (*c12Out, error) {
			rd := parquet.NewGenericRowGroupReader[any](root, c.tgtS)
			defer rd.Close()
			rows, err := c12ReadRows(rd, c.batch)
			if err != nil {
				return nil, err
			}
			return c.rowsOut(ctx, rows)
		}),
		c12ViewPath("composed-views-copy-rows", func(ctx *core.Ctx, c *c12Case, root parquet.RowGroup) (*c12Out, error) {
			var buf bytes.Buffer
			w := parquet.NewWriter(&buf, c.tgtS)
			rr := root.Rows()
			n, err := parquet.CopyRows(w, rr)
			rr.Close()
			if err != nil {
				return nil, err
			}
			if err := w.Close(); err != nil {
				return nil, err
			}
			if n != root.NumRows() {
				return nil, fmt.Errorf("CopyRows reported %d rows for %d", n, root.NumRows())
			}
			return c.fileOut(ctx, buf.Bytes())
		}),
		c12ViewPath("composed-views-write-rowgroup", func(ctx *core.Ctx, c *c12Case, root parquet.RowGroup) (*c12Out, error) {
			var buf bytes.Buffer
			w := parquet.NewWriter(&buf, c.tgtS)
			if _, err := w.WriteRowGroup(root); err != nil {
				return nil, err
			}
			if err := w.Close(); err != nil {
				return nil, err
			}
			return c.fileOut(ctx, buf.Bytes())
		}),
	)
}

func c12FirstDiff(exp, got [][]gen.Triple) (col, idx int, desc string) {
	for c := range exp {
		n := min(len(exp[c]), len(got[c]))
		for i := 0; i < n; i++ {
			if exp[c][i] != got[c][i] {
				return c, i, fmt.Sprintf("entry %d: expected %v got %v", i, exp[c][i], got[c][i])
			}
		}
		if len(exp[c]) != len(got[c]) {
			return c, n, fmt.Sprintf("stream length expected %d got %d", len(exp[c]), len(got[c]))
		}
	}
	return -1, 0, ""
}

// shape of an added target column relative to the source: repetition of the topmost added node
// and the repetition of the closest leaf sibling (smallest name among the direct leaf children of
// the deepest source group on the column's path; none when the path ends on a source group).
// toggled reports a required<->optional change on the path of a shared column.
func c12AddedShape(src *c12Node, tgt *c12Node, path []string) (added bool, shape string, toggled bool) {
	s, t := src, tgt
	for _, name := range path {
		tf := t.field(name)
		sf := s.field(name)
		if sf == nil || (sf.kind >= 0) != (tf.kind >= 0) {
			sib := "no-leaf"
			var best *c12Node
			for _, f := range s.fields {
				if f.kind >= 0 && (best == nil || f.name < best.name) {
					best = f
				}
			}
			if best != nil && !(sf != nil && sf.kind < 0) {
				sib = c12RepName[best.rep]
			}
			return true, c12RepName[tf.rep] + "-next-to-" + sib + "-sibling", toggled
		}
		if sf.rep != tf.rep {
			toggled = true
		}
		s, t = sf, tf
	}
	return false, "", toggled
}

// key of a failure on an added column
func c12AddedKey(p c12Path, c *c12Case, col int) string {
	lf := c.tleaves[col]
	_, shape, _ := c12AddedShape(c.src, c.tgt, lf.path)
	if p.chunks {
		where := "flat"
		if lf.maxRep > 0 {
			where = "under-repeated"
		}
		return "added-column-chunk-mirrors-adjacent:" + strings.SplitN(shape, "-next-to-", 2)[0] + "-" + where
	}
	return "added-column-borrows-sibling-levels:" + shape
}

// ---------------------------------------------------------------- the check

const c12Rule = "random source schemas (required/optional/repeated leaves of 8 physical kinds, groups, LIST groups, depth <= 4, <= 10 leaves, field order kept by an ordered group node) x random targets (pure permutation at every depth / delete + permute at any depth, then one of: nothing / add optional, required, repeated leaves and groups incl. inside repeated groups and lists / required->optional / optional->required / an incompatible change) x random rows shredded by the harness reference shredder x 15 library paths (Convert+conversion.Convert, ConvertRowGroup rows and column chunks - every chunk also re-read through Page.Slice at random row bounds and after Pages().SeekToRow(k); a difference is keyed by what differs: null flag against definition level, payload, levels/count -, NewReader(schema), NewRowGroupReader(schema), NewGenericReader[any](schema), NewGenericRowGroupReader[any](schema) over a file row group and over a Buffer, CopyRows into a writer, WriteRowGroup of the converted row group, MergeRowGroups with a schema; and a random composition of views - MergeRowGroups(schema) / MultiRowGroup / ConvertRowGroup / row ranges over files and Buffers under the source and under the target schema - read through Rows(), NewGenericRowGroupReader[any], CopyRows, WriteRowGroup) + 5 struct pairs through Read[B], NewGenericReader[B], NewGenericRowGroupReader[B], Reader.Read(&B) and Reader.Read with the target type drawn per call + sorted sources (2-3 declared sorting columns, asc/desc, buffers and files) x targets dropping every subset of the sorting columns (declared order of the converted row group and of the merge must be a true order of the rows) + MergeRowGroups(schema, sorting) over two sorted files with small pages whose key ranges overlap in part (lone stretches > 1024 rows; targets delete/permute, then add / widen / narrow) read as rows, through CopyRows and WriteRowGroup; expected = reference shred of the projected value against the target schema; L2: conversion.Convert vs the Lean mirror convertRow, the harness projection vs the Lean spec, EqualNodes/SameNodes vs equalN/sameN, Reader.Read histories vs Rd.run, rowGroupReadsChunksInOrder on every node of every composed view vs inOrder; every library call runs in a worker subprocess (address-space limit, recover, timeout): a panic, fatal error or hang is an L1 failure of that case; non-trivial = the target differs from the source and a shared optional/repeated column holds both nulls and values"

// RunC12 is the parent: it never calls the library itself. The cases run in worker
// subprocesses (`pqcheck -worker c12 ...`); when a worker dies (fatal error: out of memory,
// stack overflow, a panic on a goroutine of the library) or hangs, the case it was executing
// becomes an L1 failure and a new worker continues behind it.
func RunC12(ctx *core.Ctx) {
	ctx.SetRule(c12Rule)
	npairs := ctx.Scale(2000, 40000)
	shards := 16
	var wg sync.WaitGroup
	for w := 0; w < shards; w++ {
		wg.Add(1)
		go func(w int) {
			defer wg.Done()
			c12RunShard(ctx, "random", w, npairs/shards)
		}(w)
	}
	wg.Add(2)
	go func() { defer wg.Done(); c12RunShard(ctx, "typed", 0, ctx.Scale(20, 200)) }()
	go func() { defer wg.Done(); c12RunShard(ctx, "sorted", 0, ctx.Scale(60, 1500)) }()
	wg.Add(1)
	go func() { defer wg.Done(); c12RunShard(ctx, "seek", 0, ctx.Scale(300, 6000)) }()
	for w := 0; w < 2; w++ {
		wg.Add(1)
		go func(w int) { defer wg.Done(); c12RunShard(ctx, "bigmerge", w, ctx.Scale(5, 60)) }(w)
	}
	for w := 0; w < 2; w++ {
		wg.Add(1)
		go func(w int) { defer wg.Done(); c12RunShard(ctx, "variant", w, ctx.Scale(100, 2000)) }(w)
	}
	wg.Wait()
}

type c12Asker interface {
	AskMany([]string) ([]string, error)
}

// what the worker is doing right now (written before every library call)
type c12At struct {
	K      int    `json:"k"`
	Path   string `json:"path"`
	Mode   string `json:"mode"`
	Detail any    `json:"detail"`
}

func c12RunShard(ctx *core.Ctx, kind string, shard, n int) {
	exe, err := os.Executable()
	if err != nil {
		ctx.Fail("L2", "harness-worker-unavailable", err.Error(), nil)
		return
	}
	dir, err := os.MkdirTemp("", "c12-*")
	if err != nil {
		ctx.Fail("L2", "harness-worker-unavailable", err.Error(), nil)
		return
	}
	defer os.RemoveAll(dir)
	start, restarts, serial := 0, 0, 0
	for start < n {
		serial++
		out := fmt.Sprintf("%s/out-%d.json", dir, serial)
		at := fmt.Sprintf("%s/at-%d.json", dir, serial)
		limit := time.Duration(ctx.Scale(180, 1200)) * time.Second
		cctx, cancel := context.WithTimeout(context.Background(), limit)
		cmd := exec.CommandContext(cctx, exe, "-worker", "c12", kind, fmt.Sprint(shard), fmt.Sprint(start), fmt.Sprint(n),
			fmt.Sprint(ctx.Seed), ctx.Tier, ctx.DriverPath, out, at)
		cmd.Env = append(os.Environ(), "GOTRACEBACK=single", "GOMAXPROCS=2")
		var stderr bytes.Buffer
		cmd.Stderr = &stderr
		cmd.Stdout = &stderr
		werr := cmd.Run()
		timedOut := cctx.Err() != nil
		cancel()
		c12Merge(ctx, out, fmt.Sprintf("%s-%d-%d", kind, shard, serial))
		if werr == nil {
			return
		}
		// the worker died: attribute it to the library call it was in
		var cur c12At
		cur.K = -1
		if blob, err := os.ReadFile(at); err == nil {
			json.Unmarshal(blob, &cur)
		}
		msg := stderr.String()
		first := msg
		if i := strings.Index(first, "\n"); i >= 0 {
			first = first[:i]
		}
		if timedOut {
			first = "no answer within " + limit.String() + " (killed)"
		}
		if len(msg) > 3000 {
			msg = msg[:3000]
		}
		if cur.K < 0 {
			ctx.Fail("L2", "harness-worker-died-outside-a-case", "c12 worker ("+kind+") died before its first case: "+first, map[string]any{"stderr": msg})
			return
		}
		ctx.Fail("L1", "path-panic:"+cur.Path+":"+cur.Mode,
			"the library takes the process down (or hangs) on this case: "+first,
			map[string]any{"kind": kind, "shard": shard, "case": cur.K, "case_detail": cur.Detail, "worker_exit": werr.Error(), "stderr": msg})
		start = cur.K + 1
		restarts++
		if restarts > 40 {
			ctx.Fail("L1", "path-panic:worker-restarts-exhausted:"+kind, fmt.Sprintf("more than 40 cases of shard %d kill the worker; %d cases not run", shard, n-start), nil)
			return
		}
	}
}

// c12Merge folds a worker's result file into the parent's context.
func c12Merge(ctx *core.Ctx, path, tag string) {
	blob, err := os.ReadFile(path)
	if err != nil {
		return
	}
	var r core.Result
	if json.Unmarshal(blob, &r) != nil {
		return
	}
	for i := int64(0); i < r.Evaluations; i++ {
		ctx.Case(fmt.Sprintf("%s/%d", tag, i), i < r.DistinctNontrivial)
	}
	for name, m := range r.Histograms {
		for k, v := range m {
			ctx.HistN(name, k, v)
		}
	}
	for _, f := range r.Failures {
		ctx.Fail(f.Layer, f.Key, f.What, f.Detail)
	}
	for _, o := range r.Observations {
		ctx.Observe(o.Key, o.What, o.Detail)
	}
	for _, sm := range r.Samples {
		ctx.Sample(sm)
	}
	ctx.HistN("driver-requests-in-workers", "convert.run", r.DriverRequests)
}

// c12Worker: `-worker c12 <kind> <shard> <start> <n> <seed> <tier> <driver> <out> <at>` runs the
// cases start..n-1 of one shard; after every case the cumulative result is written to <out>,
// before every library call the current position to <at>.
func c12Worker(args []string) int {
	if len(args) < 9 {
		fmt.Fprintln(os.Stderr, "usage: -worker c12 <kind> <shard> <start> <n> <seed> <tier> <driver> <out> <at>")
		return 2
	}
	lim := uint64(4096) << 20
	syscall.Setrlimit(syscall.RLIMIT_AS, &syscall.Rlimit{Cur: lim, Max: lim})
	debug.SetMemoryLimit(int64(lim / 2))
	kind := args[0]
	shard, _ := strconv.Atoi(args[1])
	start, _ := strconv.Atoi(args[2])
	n, _ := strconv.Atoi(args[3])
	seed, _ := strconv.ParseInt(args[4], 10, 64)
	ctx := core.NewCtx()
	ctx.Prop, ctx.Seed, ctx.Tier, ctx.DriverPath = "C12", seed, args[5], args[6]
	out, atPath := args[7], args[8]
	var d *drv.Driver
	{
		var err error
		if d, err = drv.Start(ctx.DriverPath); err != nil {
			ctx.Fail("L2", "driver-unavailable", "pqdriver cannot be started: "+err.Error(), nil)
			d = nil
		}
	}
	for k := start; k < n; k++ {
		at := func(path, mode string, detail any) {
			blob, _ := json.Marshal(c12At{K: k, Path: path, Mode: mode, Detail: detail})
			os.WriteFile(atPath, blob, 0o644)
		}
		func() {
			defer func() {
				if x := recover(); x != nil {
					ctx.Fail("L1", "path-panic:harness-case:"+kind, fmt.Sprintf("panic outside the guarded library calls: %v", x),
						map[string]any{"kind": kind, "shard": shard, "case": k, "stack": string(debug.Stack())})
				}
			}()
			r := ctx.Rand(fmt.Sprintf("c12/%s/%d/%d", kind, shard, k))
			var ask c12Asker
			if d != nil {
				ask = d
			}
			switch kind {
			case "random":
				c12RandomCase(ctx, ask, &c12Gen{r: r}, shard == 0 && k < 3, at)
			case "typed":
				c12TypedCase(ctx, ask, r, at)
			case "sorted":
				c12SortedCase(ctx, ask, r, at)
			case "seek":
				c12SeekCase(ctx, ask, r, at)
			case "seekhist":
				c12SeekHistCase(ctx, ask, r, at)
			case "bigmerge":
				c12BigMergeCase(ctx, r, at)
			case "variant":
				c12VariantCase(ctx, r, at)
			}
		}()
		if d != nil {
			ctx.HistN("driver-requests", "convert.run", 0)
		}
		if err := ctx.Finish(out); err != nil {
			fmt.Fprintln(os.Stderr, "cannot write result:", err)
			return 2
		}
	}
	if d != nil {
		d.Close()
	}
	return 0
}

func c12Mode(r *rand.Rand) string {
	switch x := r.Intn(100); {
	case x < 8:
		return "permute" // the target declares exactly the source fields, in another order
	case x < 35:
		return "drop-permute"
	case x < 70:
		return "add"
	case x < 85:
		return "widen"
	case x < 90:
		return "narrow"
	}
	return "incompat"
}

func c12RandomCase(ctx *core.Ctx, d interface {
	AskMany([]string) ([]string, error)
}, g *c12Gen, sample bool, at func(path, mode string, detail any)) {
	r := g.r
	g.next = 0
	src := g.schema()
	tg := g.target(src, c12Mode(r))
	tgt := tg.node
	nrows := []int{1, 2, 3, 5, 17, 40}[r.Intn(6)]
	nullP := []float64{0.1, 0.4, 0.8}[r.Intn(3)]
	maxLen := 1 + r.Intn(3)

	ids := &c12Ids{names: map[string]int{}, vals: map[string]int{}}
	var names []string
	var collect func(n *c12Node)
	collect = func(n *c12Node) {
		for _, f := range n.fields {
			if _, ok := ids.names[f.name]; !ok {
				ids.names[f.name] = 0
				names = append(names, f.name)
			}
			collect(f)
		}
	}
	collect(src)
	collect(tgt)
	sort.Strings(names)
	for i, n := range names {
		ids.names[n] = i + 1
	}
	var sb strings.Builder
	src.leanText(ids.names, &sb)
	srcText := sb.String()
	sb.Reset()
	tgt.leanText(ids.names, &sb)
	tgtText := sb.String()

	c := &c12Case{src: src, tgt: tgt, batch: []int{1, 2, 3, 64}[r.Intn(4)], tleaves: tgt.leaves()}
	c.cuts = rand.New(rand.NewSource(r.Int63()))
	c.srcS = parquet.NewSchema("src", src.build())
	c.tgtS = parquet.NewSchema("tgt", tgt.build())
	sleaves := src.leaves()

	// string -> int64: make sure some string is not numeric (all generated strings are non-numeric or empty)
	var vals []*c12Val
	var valTexts, projTexts []string
	exp := make([][]gen.Triple, len(c.tleaves))
	var expRows [][][]gen.Triple
	for i := 0; i < nrows; i++ {
		v := c12GenBody(r, src, nullP, maxLen)
		vals = append(vals, v)
		c.rows = append(c.rows, c12RowOf(c12ShredRow(src, v)))
		pv := c12ProjectBody(src, tgt, v)
		cols := c12ShredRow(tgt, pv)
		c.trows = append(c.trows, c12RowOf(cols))
		one := make([][]gen.Triple, len(cols))
		for ci, col := range cols {
			for _, x := range col {
				one[ci] = append(one[ci], c12Canon(nil, x, c.tleaves[ci]))
			}
			exp[ci] = append(exp[ci], one[ci]...)
		}
		expRows = append(expRows, one)
		sb.Reset()
		v.leanText(src, ids, &sb)
		valTexts = append(valTexts, sb.String())
		sb.Reset()
		pv.leanText(tgt, ids, &sb)
		projTexts = append(projTexts, sb.String())
	}

	detail := func(extra map[string]any) map[string]any {
		m := map[string]any{"source": src.text(), "target": tgt.text(), "mode": tg.mode, "ops": tg.ops,
			"lean_source": srcText, "lean_target": tgtText, "rows": valTexts, "batch": c.batch}
		if c.views != nil {
			m["composed_views"] = c.views.text()
		}
		for k, v := range extra {
			m[k] = v
		}
		return m
	}

	// write the source file
	{
		at("source-write", tg.mode, detail(nil))
		var buf bytes.Buffer
		_, err := c12Guard(func() (*c12Out, error) {
			w := parquet.NewWriter(&buf, c.srcS)
			_, err := w.WriteRows(append([]parquet.Row(nil), c.rows...))
			if err == nil {
				err = w.Close()
			}
			return nil, err
		})
		if err != nil {
			ctx.Fail("L1", "source-write-error "+errClass(err), "cannot write the source file: "+err.Error(), detail(nil))
			return
		}
		c.file = buf.Bytes()
		// the harness shredder against the library's own reading of the file
		got, err := gen.ReadColumns(c.file)
		if err != nil {
			ctx.Fail("L1", "source-read-error "+errClass(err), err.Error(), detail(nil))
			return
		}
		for ci := range got {
			var want []gen.Triple
			for _, row := range c.rows {
				for _, v := range row {
					if v.Column() == ci {
						want = append(want, c12Canon(nil, v, sleaves[ci]))
					}
				}
			}
			var have []gen.Triple
			for _, t := range got[ci] {
				have = append(have, t)
			}
			if len(want) != len(have) {
				ctx.Fail("L1", "source-roundtrip-differs", "the source file does not hold the rows written", detail(map[string]any{"column": ci}))
				return
			}
		}
	}

	// the projected rows under the target schema (members of the composed views), then the
	// composition itself
	if tg.mode != "incompat" {
		at("target-write", tg.mode, detail(nil))
		var buf bytes.Buffer
		_, err := c12Guard(func() (*c12Out, error) {
			w := parquet.NewWriter(&buf, c.tgtS)
			_, err := w.WriteRows(append([]parquet.Row(nil), c.trows...))
			if err == nil {
				err = w.Close()
			}
			return nil, err
		})
		if err != nil {
			ctx.Fail("L1", "target-write-error "+errClass(err), "cannot write the projected rows under the target schema: "+err.Error(), detail(nil))
		} else {
			c.tfile = buf.Bytes()
		}
		c.views = c12RootView(rand.New(rand.NewSource(r.Int63())), nrows, c.tfile != nil)
		ctx.Hist("composed-views-leaves", fmt.Sprint(c.views.leafCount()))
		ctx.Hist("composed-views-row-ranges", fmt.Sprint(c.views.count("range")))
		ctx.Hist("composed-views-depth", fmt.Sprint(c.views.depth()))
		ctx.Hist("composed-views-root", c.views.op)
	}

	nontrivial := false
	if tgtText != srcText {
		for ci, lf := range c.tleaves {
			if added, _, _ := c12AddedShape(src, tgt, lf.path); added {
				continue
			}
			hasNull, hasVal := false, false
			for _, t := range exp[ci] {
				if t.Null {
					hasNull = true
				} else {
					hasVal = true
				}
			}
			if hasNull && hasVal {
				nontrivial = true
			}
		}
	}
	ctx.Case(srcText+"|"+tgtText+"|"+strings.Join(valTexts, "|"), nontrivial)
	ctx.Hist("mode", tg.mode)
	ctx.Hist("rows", fmt.Sprint(nrows))
	ctx.Hist("source-leaves", fmt.Sprint(len(sleaves)))
	ctx.Hist("target-leaves", fmt.Sprint(len(c.tleaves)))
	for _, op := range tg.ops {
		ctx.Hist("target-op", strings.SplitN(op, " ", 2)[0])
	}
	if tg.what != "" {
		ctx.Hist("incompatible-change", tg.what)
	}
	if sample {
		ctx.Sample(map[string]any{"source": src.text(), "target": tgt.text(), "mode": tg.mode, "row0": valTexts[0], "row0_projected": projTexts[0]})
	}

	var convRows []parquet.Row
	var chunkCols [][]parquet.Value
	addedKey := "" // key of the added-column failure seen on the convert-rows path, if any
	// the Lean mirror of conversion.Convert on every row, asked before the paths run: besides the
	// L2 comparison below it states which levels the recorded defect F19 gives an added column, so
	// that a wrong added column is filed under F19 only when it shows those (c12_adddrop.go)
	var mirrorAns []string
	var mirrorErr error
	var borrowed *c12Borrowed
	if d != nil && tg.what != "type-string-to-int64" {
		reqs := make([]string, nrows)
		for i := range reqs {
			reqs[i] = "convert.run " + srcText + " " + tgtText + " " + valTexts[i]
		}
		if mirrorAns, mirrorErr = d.AskMany(reqs); mirrorErr == nil {
			borrowed = c12ParseBorrowed(mirrorAns, len(c.tleaves))
		}
	}
	for _, p := range c12Paths {
		at(p.name, tg.mode, detail(nil))
		out, err := c12Guard(func() (*c12Out, error) { return p.run(ctx, c) })
		if err == errC12NoViews {
			continue
		}
		ctx.Hist("path", p.name)
		if tg.mode == "incompat" {
			kindChange := tg.what == "group-to-leaf" || tg.what == "leaf-to-group"
			if !kindChange {
				c12Incompat(ctx, tg, p, c, out, err, detail)
				continue
			}
			// a group and a leaf of the same name: rejecting is fine; otherwise it is a dropped
			// column plus an added column and is judged as such below
			if err != nil && out == nil && !strings.HasPrefix(err.Error(), "PANIC") {
				ctx.Hist("incompatible-outcome", tg.what+": rejected with an error")
				continue
			}
			ctx.Hist("incompatible-outcome", tg.what+": treated as dropped column + added column")
		}
		if p.name == "convert-rows" && out != nil {
			convRows = out.raw
		}
		if p.name == "convert-rowgroup-chunks" && out != nil && err == nil {
			chunkCols = out.rawCols
		}
		if out != nil {
			for _, x := range out.extra {
				key := x.key + ":" + tg.mode
				ci, _ := x.detail["target_column_index"].(int)
				if added, _, _ := c12AddedShape(src, tgt, c.tleaves[ci].path); added {
					parts := strings.SplitN(x.key, ":", 2)
					if c.tleaves[ci].maxRep > 0 && len(parts) == 2 && parts[1] == "values-differ" {
						// a column the target adds below a repeated node is served by
						// missingColumnChunk mirroring an adjacent column through ONE shared page
						// reader: the slices past the first / the pages after a seek find that reader
						// consumed. That mechanism changes levels and entry counts only, and only
						// where there is an adjacent chunk (maximal repetition level > 0): same family
						// as the other failures of added columns on the column-chunk path.
						key = c12AddedKey(p, c, ci) + ":" + parts[0]
					} else {
						// anything else - a flat added column (no adjacent reader to share) whose
						// slices differ from its pages, nulls coming out as values, another payload -
						// is another defect and keeps a key of its own
						key = "added-column-slice-differs-from-page:" + strings.TrimPrefix(c12AddedKey(p, c, ci), "added-column-chunk-mirrors-adjacent:") + ":" + x.key
					}
				}
				ctx.Fail("L1", key, "path "+p.name+", target column "+strings.Join(c.tleaves[ci].path, ".")+": "+x.what,
					detail(map[string]any{"path": p.name, "column": strings.Join(c.tleaves[ci].path, "."), "finding": x.detail}))
			}
			if p.name == "convert-rowgroup-chunks" {
				ctx.HistN("converted-chunks-reread-through-page-slices-and-seek", tg.mode, int64(len(c.tleaves)))
			}
		}
		want := exp
		wantRows := nrows
		if p.dup > 1 {
			want = make([][]gen.Triple, len(exp))
			for ci := range exp {
				for k := 0; k < p.dup; k++ {
					want[ci] = append(want[ci], exp[ci]...)
				}
			}
			wantRows = p.dup * nrows
		}
		if out != nil && out.order != nil {
			want = make([][]gen.Triple, len(exp))
			for _, id := range out.order {
				for ci := range exp {
					want[ci] = append(want[ci], expRows[id%nrows][ci]...)
				}
			}
			wantRows = len(out.order)
		}
		if err != nil && out == nil {
			switch {
			case strings.Contains(err.Error(), "FIXED_LEN_BYTE_ARRAY"):
				ctx.Fail("L1", "fixed-len-zero-value-is-empty:"+tg.mode,
					"path "+p.name+": the zero value synthesised for a required FIXED_LEN_BYTE_ARRAY column has no bytes and the writer rejects it: "+err.Error(), detail(map[string]any{"path": p.name}))
			case (tg.mode == "add" || tg.mode == "incompat") && addedKey != "":
				ctx.Fail("L1", addedKey, "path "+p.name+" fails on the rows whose added column carries borrowed levels: "+err.Error(), detail(map[string]any{"path": p.name}))
			case strings.HasPrefix(err.Error(), "PANIC"):
				ctx.Fail("L1", "path-panic:"+p.name+":"+tg.mode,
					"the path panics on a compatible target schema: "+err.Error(), detail(map[string]any{"path": p.name}))
			default:
				ctx.Fail("L1", "path-error:"+p.name+":"+tg.mode+":"+errClass(err),
					"a compatible target schema is rejected or the path fails: "+err.Error(), detail(map[string]any{"path": p.name}))
			}
			continue
		}
		col, _, desc := c12FirstDiff(want, out.cols)
		if col < 0 && err == nil && out.nrows == wantRows {
			continue
		}
		what := ""
		if err != nil {
			what = err.Error()
		}
		// which columns differ: added ones, shared ones
		firstAdded, firstShared := -1, -1
		sharedToggled := false
		var addedDiffer []int
		for ci, lf := range c.tleaves {
			if reflect.DeepEqual(want[ci], out.cols[ci]) || (len(want[ci]) == 0 && len(out.cols[ci]) == 0) {
				continue
			}
			added, _, toggled := c12AddedShape(src, tgt, lf.path)
			if added {
				addedDiffer = append(addedDiffer, ci)
			}
			if added && firstAdded < 0 {
				firstAdded = ci
			}
			if !added && firstShared < 0 {
				firstShared = ci
				sharedToggled = toggled
			}
		}
		key := ""
		switch {
		case firstShared >= 0 && sharedToggled && (tg.mode == "widen" || tg.mode == "narrow") && p.name == "convert-rowgroup-chunks":
			// (only the direct read of ConvertRowGroup(...).ColumnChunks() is the recorded finding;
			// on every other path a widened/narrowed column that differs is a shared column altered)
			key, col = tg.mode+"ed-column-keeps-source-levels:"+p.name, firstShared
		case firstAdded >= 0 && (firstShared < 0 || p.chunks):
			// (on the column-chunk paths a short added column also misaligns the rows)
			key, col = c12AddedKey(p, c, firstAdded), firstAdded
			if !p.chunks {
				// F19 only when the column shows the borrowed levels; anything else is keyed by
				// what it shows
				key, col = c12AddedRowKey(p, c, addedDiffer, out.cols, expRows, borrowed, out.order)
			}
			if p.name == "convert-rows" && !strings.HasPrefix(key, c12NotBorrowedPrefix) {
				addedKey = key
			}
		case firstShared >= 0:
			key, col = "shared-column-altered:"+p.name+":"+tg.mode, firstShared
		case (tg.mode == "add" || tg.mode == "incompat") && addedKey != "":
			key = addedKey
		default:
			key = "row-count-or-structure:" + p.name + ":" + tg.mode
		}
		if firstAdded >= 0 || firstShared >= 0 {
			_, _, desc = c12FirstDiff(want[col:col+1], out.cols[col:col+1])
		} else {
			col = 0
			desc = fmt.Sprintf("rows expected %d got %d", wantRows, out.nrows)
		}
		ctx.Fail("L1", key, fmt.Sprintf("path %s, target column %s: %s %s", p.name, strings.Join(c.tleaves[col].path, "."), desc, what),
			detail(map[string]any{"path": p.name, "column": strings.Join(c.tleaves[col].path, "."),
				"expected": fmt.Sprint(want[col]), "got": fmt.Sprint(out.cols[col])}))
	}

	// L2: conversion.Convert row by row vs the Lean mirror; harness projection + shredder vs the Lean spec
	if d == nil || tg.what == "type-string-to-int64" {
		return
	}
	// L2: EqualNodes / SameNodes (the guards of the reader entry points) vs their Lean mirrors
	{
		var goEq, goSame bool
		_, gerr := c12Guard(func() (*c12Out, error) {
			goEq, goSame = parquet.EqualNodes(c.tgtS, c.srcS), parquet.SameNodes(c.tgtS, c.srcS)
			return nil, nil
		})
		a, err := d.AskMany([]string{"convert.guards " + srcText + " " + tgtText})
		b := map[bool]string{true: "1", false: "0"}
		switch {
		case gerr != nil:
			ctx.Fail("L1", "path-panic:schema-comparison:"+tg.mode, gerr.Error(), detail(nil))
		case err != nil:
			ctx.Fail("L2", "driver-error", err.Error(), nil)
		case a[0] != "ok "+b[goEq]+" "+b[goSame]+" 1 1":
			ctx.Fail("L2", "schema-guards-vs-lean-mirror", "EqualNodes/SameNodes(target, source) and the Lean mirrors equalN/sameN disagree (or field names are not unique)",
				detail(map[string]any{"go": "ok " + b[goEq] + " " + b[goSame] + " 1 1", "lean": a[0]}))
		}
		ctx.Hist("guards", "EqualNodes="+b[goEq]+" SameNodes="+b[goSame]+" ("+tg.mode+")")
	}
	// L2: the composed view vs the Lean mirror of rowGroupReadsChunksInOrder on every node, and the harness expectation vs the Lean spec `sem`
	if c.views != nil {
		var b *c12Built
		_, gerr := c12Guard(func() (*c12Out, error) {
			var err error
			b, err = c.buildView(c.views)
			return nil, err
		})
		if gerr == nil {
			next := 0
			var ids []string
			for _, id := range c.views.expect(nrows, &next) {
				ids = append(ids, fmt.Sprint(id))
			}
			a, err := d.AskMany([]string{"convert.views " + b.lean})
			switch {
			case err != nil:
				ctx.Fail("L2", "driver-error", err.Error(), nil)
			default:
				parts := strings.Split(a[0], " | ")
				switch {
				case len(parts) != 3 || !strings.HasPrefix(parts[0], "ok "):
					ctx.Fail("L2", "lean-rejects-case", "convert.views: "+a[0], detail(map[string]any{"lean_view": b.lean}))
				case strings.TrimPrefix(parts[0], "ok ") != strings.Join(b.flags, ","):
					ctx.Fail("L2", "views-read-chunks-in-order-vs-lean-mirror", "rowGroupReadsChunksInOrder of the nodes of a composed view (preorder) and the Lean mirror inOrder disagree",
						detail(map[string]any{"lean_view": b.lean, "go": strings.Join(b.flags, ","), "lean": strings.TrimPrefix(parts[0], "ok ")}))
				case parts[1] != "1":
					ctx.Fail("L2", "lean-view-mirror-differs-from-spec", "the Lean mirror of Rows() differs from the spec on a composition the harness takes for well formed",
						detail(map[string]any{"lean_view": b.lean, "lean": a[0]}))
				case parts[2] != strings.Join(ids, ","):
					ctx.Fail("L2", "harness-view-expectation-vs-lean-spec", "the rows the harness expects from the composed view and the Lean spec `sem` disagree",
						detail(map[string]any{"lean_view": b.lean, "harness": strings.Join(ids, ","), "lean": parts[2]}))
				}
				ctx.Hist("composed-views-vs-lean", "compared")
			}
		}
	}
	ans, err := mirrorAns, mirrorErr
	if err != nil {
		ctx.Fail("L2", "driver-error", err.Error(), nil)
		return
	}
	idText := func(cols [][]parquet.Value) string {
		var sb strings.Builder
		for ci, col := range cols {
			if ci > 0 {
				sb.WriteString(";")
			}
			for j, v := range col {
				if j > 0 {
					sb.WriteString(" ")
				}
				if v.IsNull() {
					fmt.Fprintf(&sb, "n/%d/%d", v.RepetitionLevel(), v.DefinitionLevel())
				} else {
					fmt.Fprintf(&sb, "%d/%d/%d", ids.val(c.tleaves[ci].node.kind, v), v.RepetitionLevel(), v.DefinitionLevel())
				}
			}
		}
		return sb.String()
	}
	for i, a := range ans {
		parts := strings.Split(a, " | ")
		if len(parts) != 4 || !strings.HasPrefix(parts[0], "ok 1 ") || !strings.HasSuffix(parts[0], " 1") {
			ctx.Fail("L2", "lean-rejects-case", "the Lean model does not accept the case (value must conform, schema must be well formed): "+a, detail(map[string]any{"row": valTexts[i]}))
			continue
		}
		mirror, spec, projLean := parts[1], parts[2], parts[3]
		if i == 0 {
			// which theorem covers this schema pair
			switch flags := strings.Fields(parts[0]); {
			case flags[2] == "1":
				ctx.Hist("theorem-coverage", "convert_shred (delete/permute/widen)")
			case flags[3] == "1":
				ctx.Hist("theorem-coverage", "convert_shred_added_partial (added fields, addOk)")
			default:
				ctx.Hist("theorem-coverage", "none ("+tg.mode+")")
			}
		}
		if fl := strings.Fields(parts[0]); fl[2] == "1" && mirror != spec {
			ctx.Fail("L2", "lean-theorem-hypotheses-hold-but-mirror-differs-from-spec", "subN holds yet convertRow differs from shred tgt (project v) in the compiled model",
				detail(map[string]any{"row": valTexts[i], "lean": a}))
		}
		// spec side of the model vs the harness reference (projection, shredder)
		pv := c12ProjectBody(src, tgt, vals[i])
		if want := idText(c12ShredRow(tgt, pv)); want != spec || projTexts[i] != projLean {
			ctx.Fail("L2", "harness-projection-vs-lean-spec", "harness projection/shredder and the Lean spec `shred tgt (project v)` disagree",
				detail(map[string]any{"row": valTexts[i], "harness": want + " " + projTexts[i], "lean": spec + " " + projLean}))
		}
		if convRows != nil && i < len(convRows) && tg.mode != "incompat" {
			cols := make([][]parquet.Value, len(c.tleaves))
			okRow := true
			for _, v := range convRows[i] {
				if v.Column() < 0 || v.Column() >= len(cols) {
					okRow = false
					break
				}
				cols[v.Column()] = append(cols[v.Column()], v)
			}
			if got := idText(cols); !okRow || got != mirror {
				ctx.Fail("L2", "convert-row-vs-lean-mirror:"+tg.mode, "conversion.Convert and the Lean mirror convertRow disagree",
					detail(map[string]any{"row": valTexts[i], "go": got, "lean": mirror}))
			}
		}
	}
	// L2: the column-chunk view of the converted row group vs the Lean mirror `chunkView`
	if chunkCols != nil && tg.mode != "incompat" {
		a, err := d.AskMany([]string{"convert.chunks " + srcText + " " + tgtText + " " + fmt.Sprint(nrows) + " " + strings.Join(valTexts, ";")})
		if err != nil {
			ctx.Fail("L2", "driver-error", err.Error(), nil)
			return
		}
		parts := strings.Split(a[0], " | ")
		if len(parts) != 3 || parts[0] != "ok" {
			ctx.Fail("L2", "lean-rejects-case", "convert.chunks: "+a[0], detail(nil))
			return
		}
		ctx.Hist("chunk-view-vs-row-view-in-model", map[bool]string{true: "equal", false: "different"}[parts[1] == parts[2]]+" ("+tg.mode+")")
		if got := idText(chunkCols); got != parts[1] {
			ctx.Fail("L2", "chunk-view-vs-lean-mirror:"+tg.mode, "ConvertRowGroup(...).ColumnChunks() and the Lean mirror chunkView disagree",
				detail(map[string]any{"go": got, "lean": parts[1]}))
		}
	}
}

// repetition changes (repeated <-> not repeated) and a leaf type that cannot convert the stored
// values: the only acceptable outcome is an error
func c12Incompat(ctx *core.Ctx, tg *c12Target, p c12Path, c *c12Case, out *c12Out, err error,
	detail func(map[string]any) map[string]any) {
	key := "incompatible-target-accepted:" + tg.what
	if p.chunks {
		key += ":column-chunk-path"
	}
	if err != nil && !strings.HasPrefix(err.Error(), "PANIC") && !strings.HasPrefix(err.Error(), "malformed row") {
		ctx.Hist("incompatible-outcome", tg.what+": rejected with an error")
		return
	}
	if err != nil {
		ctx.Fail("L1", key, fmt.Sprintf("path %s: an incompatible target is not rejected; the path yields %v", p.name, err),
			detail(map[string]any{"path": p.name}))
		return
	}
	if tg.what == "type-string-to-int64" {
		// every string null or absent: nothing to convert
		allNull := true
		for _, row := range c.rows {
			for _, v := range row {
				if !v.IsNull() && v.Kind() == parquet.ByteArray {
					allNull = false
				}
			}
		}
		if allNull {
			ctx.Hist("incompatible-outcome", tg.what+": no value to convert")
			return
		}
	}
	ctx.Fail("L1", key, fmt.Sprintf("path %s: an incompatible target is converted without an error", p.name),
		detail(map[string]any{"path": p.name, "got": fmt.Sprint(out.cols)}))
}

// ---------------------------------------------------------------- Read[T] with T differing from the written type

type c12A1 struct {
	X int64   `parquet:"x"`
	Y string  `parquet:"y"`
	Z *int32  `parquet:"z,optional"`
	W []int64 `parquet:"w"`
}
type c12B1 struct {
	Z *int32 `parquet:"z,optional"`
	X int64  `parquet:"x"`
}
type c12Item struct {
	K string   `parquet:"k"`
	V *float64 `parquet:"v,optional"`
}
type c12ItemB struct {
	V *float64 `parquet:"v,optional"`
}
type c12A2 struct {
	ID    int64     `parquet:"id"`
	Items []c12Item `parquet:"items"`
}
type c12B2 struct {
	Items []c12ItemB `parquet:"items"`
	ID    int64      `parquet:"id"`
}
type c12A3 struct {
	ID   int64  `parquet:"id"`
	Name string `parquet:"name"`
}
type c12B3 struct {
	ID    int64   `parquet:"id"`
	Name  string  `parquet:"name"`
	Extra *string `parquet:"extra,optional"`
	N     int32   `parquet:"n"`
}
type c12A4 struct {
	F1 *string `parquet:"f1,optional"`
}

// pure permutation, at the top and inside groups; the columns that swap places have the same
// physical type, so that unconverted rows would reconstruct without an error
type c12Pos struct {
	Lat  float64 `parquet:"lat"`
	Lon  float64 `parquet:"lon"`
	Note *string `parquet:"note,optional"`
}
type c12PosB struct {
	Note *string `parquet:"note,optional"`
	Lon  float64 `parquet:"lon"`
	Lat  float64 `parquet:"lat"`
}
type c12A5 struct {
	ID    int64    `parquet:"id"`
	Name  string   `parquet:"name"`
	Score int64    `parquet:"score"`
	Pos   c12Pos   `parquet:"pos"`
	Tags  []string `parquet:"tags"`
}
type c12B5 struct {
	Tags  []string `parquet:"tags"`
	Score int64    `parquet:"score"`
	Pos   c12PosB  `parquet:"pos"`
	Name  string   `parquet:"name"`
	ID    int64    `parquet:"id"`
}
type c12N3 struct {
	F4 []int64 `parquet:"f4"`
}
type c12B4 struct {
	F1 *string `parquet:"f1,optional"`
	N3 []c12N3 `parquet:"n3"`
}

func c12ReadAs[A, B any](ctx *core.Ctx, at func(path, mode string, detail any), name, key string, rows []A, want []B) {
	at("read-typed:"+name, "typed", fmt.Sprintf("%+v", rows))
	var buf bytes.Buffer
	if _, err := c12Guard(func() (*c12Out, error) { return nil, parquet.Write(&buf, rows) }); err != nil {
		ctx.Fail("L1", "typed-write-error:"+name, err.Error(), nil)
		return
	}
	file := buf.Bytes()
	drain := func(rd *parquet.GenericReader[B]) ([]B, error) {
		defer rd.Close()
		var out []B
		tmp := make([]B, 3)
		for guard := 0; guard < 1<<20; guard++ {
			n, err := rd.Read(tmp)
			out = append(out, tmp[:n]...)
			if err == io.EOF {
				return out, nil
			}
			if err != nil {
				return out, err
			}
			if n == 0 {
				return out, fmt.Errorf("Read returned 0 rows and no error")
			}
			tmp = make([]B, 3)
		}
		return out, fmt.Errorf("Read does not terminate")
	}
	// every typed entry point that reads a file / row group written as A into B
	entries := []struct {
		name string
		run  func() ([]B, error)
	}{
		{"read-typed", func() ([]B, error) { return parquet.Read[B](bytes.NewReader(file), int64(len(file))) }},
		{"generic-reader-typed", func() ([]B, error) {
			return drain(parquet.NewGenericReader[B](bytes.NewReader(file)))
		}},
		{"generic-rowgroup-reader-typed-file", func() ([]B, error) {
			f, err := parquet.OpenFile(bytes.NewReader(file), int64(len(file)))
			if err != nil {
				return nil, err
			}
			var out []B
			for _, rg := range f.RowGroups() {
				got, err := drain(parquet.NewGenericRowGroupReader[B](rg))
				out = append(out, got...)
				if err != nil {
					return out, err
				}
			}
			return out, nil
		}},
		{"generic-rowgroup-reader-typed-buffer", func() ([]B, error) {
			gb := parquet.NewGenericBuffer[A]()
			if _, err := gb.Write(rows); err != nil {
				return nil, err
			}
			return drain(parquet.NewGenericRowGroupReader[B](gb))
		}},
		{"reader-read-typed", func() ([]B, error) {
			rd := parquet.NewReader(bytes.NewReader(file))
			defer rd.Close()
			var out []B
			for guard := 0; guard < 1<<20; guard++ {
				var b B
				err := rd.Read(&b)
				if err == io.EOF {
					return out, nil
				}
				if err != nil {
					return out, err
				}
				out = append(out, b)
			}
			return out, fmt.Errorf("Read does not terminate")
		}},
	}
	for _, e := range entries {
		at(e.name+":"+name, "typed", fmt.Sprintf("%+v", rows))
		var got []B
		_, err := c12Guard(func() (*c12Out, error) {
			var err error
			got, err = e.run()
			return nil, err
		})
		ctx.Case(e.name+name+fmt.Sprint(rows), true)
		ctx.Hist("path", e.name+":"+name)
		if err != nil {
			k := "path-error:" + e.name + ":" + name + ":" + errClass(err)
			if strings.HasPrefix(err.Error(), "PANIC") {
				k = "path-panic:" + e.name + ":" + name
			}
			if key != "" {
				k = key
			}
			ctx.Fail("L1", k, err.Error(), map[string]any{"rows": fmt.Sprintf("%+v", rows), "entry": e.name})
			continue
		}
		if !c12DeepEq(reflect.ValueOf(got), reflect.ValueOf(want)) {
			k := key
			if k == "" {
				k = "shared-column-altered:" + e.name + ":" + name
			}
			ctx.Fail("L1", k, fmt.Sprintf("%s: %T read from rows written as %T", e.name, *new(B), *new(A)),
				map[string]any{"rows": fmt.Sprintf("%+v", rows), "entry": e.name, "expected": c12Dump(reflect.ValueOf(want)), "got": c12Dump(reflect.ValueOf(got))})
		}
	}
}

// c12Retarget: one deprecated Reader over a file written as A, every Read call with a target
// type drawn at random from {A, B}: the k-th call must yield row k seen through the type it was
// given (the row cursor is shared, the conversion is that of the CURRENT target).
func c12Retarget[A, B any](ctx *core.Ctx, d c12Asker, r *rand.Rand, at func(path, mode string, detail any), name string, rows []A, want []B) {
	var buf bytes.Buffer
	if _, err := c12Guard(func() (*c12Out, error) { return nil, parquet.Write(&buf, rows) }); err != nil {
		ctx.Fail("L1", "typed-write-error:"+name, err.Error(), nil)
		return
	}
	file := buf.Bytes()
	var targets []string
	for range rows {
		targets = append(targets, []string{"A", "B"}[r.Intn(2)])
	}
	// runs of the same target of length >= 2 and switches both ways are wanted
	det := map[string]any{"rows": fmt.Sprintf("%+v", rows), "targets": strings.Join(targets, ""), "written_as": fmt.Sprintf("%T", *new(A)), "other_target": fmt.Sprintf("%T", *new(B))}
	at("reader-read-retarget:"+name, "typed", det)
	switches := 0
	for i := 1; i < len(targets); i++ {
		if targets[i] != targets[i-1] {
			switches++
		}
	}
	ctx.Case("retarget"+name+fmt.Sprint(rows)+strings.Join(targets, ""), switches > 0)
	ctx.Hist("path", "reader-read-retarget:"+name)
	ctx.Hist("retarget-switches", fmt.Sprint(min(switches, 8)))
	bad := ""
	var goAns []string // per call: <target><row> when the call yields that row through that target
	_, err := c12Guard(func() (*c12Out, error) {
		rd := parquet.NewReader(bytes.NewReader(file))
		defer rd.Close()
		for i, tg := range targets {
			var got, exp reflect.Value
			var err error
			if tg == "A" {
				var a A
				err = rd.Read(&a)
				got, exp = reflect.ValueOf(a), reflect.ValueOf(rows[i])
			} else {
				var b B
				err = rd.Read(&b)
				got, exp = reflect.ValueOf(b), reflect.ValueOf(want[i])
			}
			if err != nil {
				return nil, fmt.Errorf("call %d (target %s): %w", i, tg, err)
			}
			if c12DeepEq(got, exp) {
				goAns = append(goAns, fmt.Sprintf("%s%d", tg, i))
			} else {
				goAns = append(goAns, "?")
				if bad == "" {
					bad = fmt.Sprintf("call %d (target %s): expected %s got %s", i, tg, c12Dump(exp), c12Dump(got))
				}
			}
		}
		var a A
		if err := rd.Read(&a); err != io.EOF {
			return nil, fmt.Errorf("call %d after the last row: %v instead of io.EOF", len(targets), err)
		}
		goAns = append(goAns, "eof")
		return nil, nil
	})
	// L2: the Lean mirror of Reader.Read / reader.init / SeekToRow / ReadRows on the same history
	if d != nil && err == nil {
		if a, derr := d.AskMany([]string{fmt.Sprintf("convert.retarget %d %sA", len(rows), strings.Join(targets, ""))}); derr != nil {
			ctx.Fail("L2", "driver-error", derr.Error(), nil)
		} else if want := "ok " + strings.Join(goAns, ";"); a[0] != want {
			ctx.Fail("L2", "reader-retarget-vs-lean-mirror", "Reader.Read with changing target types and the Lean mirror Rd.run disagree ('?' = a row that is not the expected one)",
				map[string]any{"go": want, "lean": a[0], "case": det})
		}
	}
	if err != nil {
		k := "path-error:reader-read-retarget:" + name + ":" + errClass(err)
		if strings.HasPrefix(err.Error(), "PANIC") {
			k = "path-panic:reader-read-retarget:" + name
		}
		ctx.Fail("L1", k, err.Error(), det)
		return
	}
	if bad != "" {
		ctx.Fail("L1", "shared-column-altered:reader-read-retarget:"+name,
			"Reader.Read with a target type that changes between calls: "+bad, det)
	}
}

// deep equality with nil slice == empty slice
func c12DeepEq(a, b reflect.Value) bool { return c12Dump(a) == c12Dump(b) }

func c12Dump(v reflect.Value) string {
	switch v.Kind() {
	case reflect.Ptr:
		if v.IsNil() {
			return "nil"
		}
		return "&" + c12Dump(v.Elem())
	case reflect.Slice:
		var sb strings.Builder
		sb.WriteString("[")
		for i := 0; i < v.Len(); i++ {
			if i > 0 {
				sb.WriteString(" ")
			}
			sb.WriteString(c12Dump(v.Index(i)))
		}
		return sb.String() + "]"
	case reflect.Struct:
		var sb strings.Builder
		sb.WriteString("{")
		for i := 0; i < v.NumField(); i++ {
			if i > 0 {
				sb.WriteString(" ")
			}
			sb.WriteString(v.Type().Field(i).Name + ":" + c12Dump(v.Field(i)))
		}
		return sb.String() + "}"
	}
	return fmt.Sprintf("%#v", v.Interface())
}

func c12TypedCase(ctx *core.Ctx, d c12Asker, r *rand.Rand, at func(path, mode string, detail any)) {
	p32 := func(x int32) *int32 { return &x }
	pf := func(x float64) *float64 { return &x }
	ps := func(x string) *string { return &x }
	{
		n := 1 + r.Intn(20)
		var a1 []c12A1
		var b1 []c12B1
		var a2 []c12A2
		var b2 []c12B2
		var a3 []c12A3
		var b3 []c12B3
		var a4 []c12A4
		var b4 []c12B4
		var a5 []c12A5
		var b5 []c12B5
		for i := 0; i < n; i++ {
			x := c12A1{X: r.Int63n(100) - 50, Y: fmt.Sprint("s", r.Intn(5))}
			if r.Intn(2) == 0 {
				x.Z = p32(int32(r.Intn(7)))
			}
			for j := r.Intn(3); j > 0; j-- {
				x.W = append(x.W, int64(j))
			}
			a1 = append(a1, x)
			b1 = append(b1, c12B1{Z: x.Z, X: x.X})

			y := c12A2{ID: int64(i)}
			yb := c12B2{ID: int64(i)}
			for j := r.Intn(4); j > 0; j-- {
				it := c12Item{K: fmt.Sprint("k", j)}
				if r.Intn(2) == 0 {
					it.V = pf(float64(j) / 2)
				}
				y.Items = append(y.Items, it)
				yb.Items = append(yb.Items, c12ItemB{V: it.V})
			}
			a2 = append(a2, y)
			b2 = append(b2, yb)

			a3 = append(a3, c12A3{ID: int64(i), Name: fmt.Sprint("n", i)})
			b3 = append(b3, c12B3{ID: int64(i), Name: fmt.Sprint("n", i)})

			z := c12A4{}
			if r.Intn(2) == 0 {
				z.F1 = ps(fmt.Sprint("v", i))
			}
			a4 = append(a4, z)
			b4 = append(b4, c12B4{F1: z.F1})

			u := c12A5{ID: int64(i), Name: fmt.Sprint("name-", i), Score: 1000 + r.Int63n(50), Pos: c12Pos{Lat: float64(i) / 4, Lon: -float64(i) / 2}}
			if r.Intn(2) == 0 {
				u.Pos.Note = ps(fmt.Sprint("note-", i))
			}
			for j := r.Intn(3); j > 0; j-- {
				u.Tags = append(u.Tags, fmt.Sprint("t", i, "-", j))
			}
			a5 = append(a5, u)
			b5 = append(b5, c12B5{ID: u.ID, Name: u.Name, Score: u.Score, Tags: u.Tags, Pos: c12PosB{Lat: u.Pos.Lat, Lon: u.Pos.Lon, Note: u.Pos.Note}})
		}
		c12ReadAs(ctx, at, "drop-permute-flat", "", a1, b1)
		c12ReadAs(ctx, at, "drop-permute-in-repeated-group", "", a2, b2)
		c12ReadAs(ctx, at, "add-optional-and-required-at-root", "", a3, b3)
		c12ReadAs(ctx, at, "add-repeated-group-next-to-optional", "added-column-borrows-sibling-levels:repeated-next-to-optional-sibling", a4, b4)
		c12ReadAs(ctx, at, "permute-only", "", a5, b5)
		c12Retarget(ctx, d, r, at, "drop-permute-flat", a1, b1)
		c12Retarget(ctx, d, r, at, "drop-permute-in-repeated-group", a2, b2)
		c12Retarget(ctx, d, r, at, "add-optional-and-required-at-root", a3, b3)
		c12Retarget(ctx, d, r, at, "permute-only", a5, b5)
	}
}

// ---------------------------------------------------------------- sorted sources

// One case: a source with 2-3 declared sorting columns (required int32/int64/string leaves,
// ascending or descending), a few payload columns, rows really sorted that way, held in a Buffer
// or in a file; for EVERY subset of the sorting columns a target that drops that subset (and maybe
// payload columns, fields permuted):
//   - ConvertRowGroup(...).SortingColumns() must be a true order of the converted rows (the
//     longest prefix of the source's sorting columns that survives is what is expected);
//   - MergeRowGroups of two converted groups with that schema yields all rows, ordered by what the
//     merged row group declares.
//
// Sorting columns are required leaves so that null ordering (C09/C10) stays out of this check.
func c12SortedCase(ctx *core.Ctx, d c12Asker, r *rand.Rand, at func(path, mode string, detail any)) {
	nsort := 2 + r.Intn(2)
	kinds := []int{1, 2, 5} // int32 int64 string
	type scol struct {
		name string
		kind int
		desc bool
	}
	var sc []scol
	root := &c12Node{kind: -1}
	for i := 0; i < nsort; i++ {
		c := scol{name: fmt.Sprintf("s%c", "abc"[i]), kind: kinds[r.Intn(3)], desc: r.Intn(2) == 0}
		sc = append(sc, c)
		root.fields = append(root.fields, &c12Node{name: c.name, kind: c.kind})
	}
	npay := 1 + r.Intn(3)
	for i := 0; i < npay; i++ {
		root.fields = append(root.fields, &c12Node{name: fmt.Sprintf("p%d", i), rep: r.Intn(3), kind: r.Intn(len(c12Kinds))})
	}
	r.Shuffle(len(root.fields), func(i, j int) { root.fields[i], root.fields[j] = root.fields[j], root.fields[i] })
	srcS := parquet.NewSchema("src", root.build())
	var sorting []parquet.SortingColumn
	var order []string
	for _, c := range sc {
		if c.desc {
			sorting = append(sorting, parquet.Descending(c.name))
			order = append(order, c.name+" desc")
		} else {
			sorting = append(sorting, parquet.Ascending(c.name))
			order = append(order, c.name+" asc")
		}
	}
	small := []func() parquet.Value{
		1: func() parquet.Value { return parquet.ValueOf(int32(r.Intn(3) - 1)) },
		2: func() parquet.Value { return parquet.ValueOf(int64(r.Intn(3)) * (1 << 40)) },
		5: func() parquet.Value { return parquet.ValueOf([]string{"", "a", "b"}[r.Intn(3)]) },
	}
	cmpVal := func(kind int, a, b parquet.Value) int {
		switch kind {
		case 1:
			return c12Cmp(int64(a.Int32()), int64(b.Int32()))
		case 2:
			return c12Cmp(a.Int64(), b.Int64())
		}
		return bytes.Compare(a.ByteArray(), b.ByteArray())
	}
	// two sorted inputs
	genRows := func(n int) []*c12Val {
		var vs []*c12Val
		for i := 0; i < n; i++ {
			v := &c12Val{k: 'S'}
			for _, f := range root.fields {
				if strings.HasPrefix(f.name, "s") {
					v.kids = append(v.kids, &c12Val{k: 'P', p: small[f.kind]()})
				} else {
					v.kids = append(v.kids, c12GenField(r, f, 0.3, 2))
				}
			}
			vs = append(vs, v)
		}
		key := func(v *c12Val, name string) parquet.Value {
			for i, f := range root.fields {
				if f.name == name {
					return v.kids[i].p
				}
			}
			panic("no column " + name)
		}
		sort.SliceStable(vs, func(i, j int) bool {
			for _, c := range sc {
				d := cmpVal(c.kind, key(vs[i], c.name), key(vs[j], c.name))
				if c.desc {
					d = -d
				}
				if d != 0 {
					return d < 0
				}
			}
			return false
		})
		return vs
	}
	inputs := [][]*c12Val{genRows(1 + r.Intn(25)), genRows(1 + r.Intn(25))}
	inFile := r.Intn(2) == 0
	holder := "buffer"
	if inFile {
		holder = "file"
	}
	describe := func(tgt *c12Node, extra map[string]any) map[string]any {
		m := map[string]any{"source": root.text(), "source_order": order, "held_in": holder, "target": tgt.text(),
			"rows": []int{len(inputs[0]), len(inputs[1])}}
		for k, v := range extra {
			m[k] = v
		}
		return m
	}
	var groups []parquet.RowGroup
	at("sorted-source", "sorted", describe(root, nil))
	_, err := c12Guard(func() (*c12Out, error) {
		for _, vs := range inputs {
			var rows []parquet.Row
			for _, v := range vs {
				rows = append(rows, c12RowOf(c12ShredRow(root, v)))
			}
			if !inFile {
				b := parquet.NewBuffer(srcS, parquet.SortingRowGroupConfig(parquet.SortingColumns(sorting...)))
				if _, err := b.WriteRows(rows); err != nil {
					return nil, err
				}
				groups = append(groups, b)
				continue
			}
			var buf bytes.Buffer
			w := parquet.NewWriter(&buf, srcS, parquet.SortingWriterConfig(parquet.SortingColumns(sorting...)))
			if _, err := w.WriteRows(rows); err != nil {
				return nil, err
			}
			if err := w.Close(); err != nil {
				return nil, err
			}
			f, err := parquet.OpenFile(bytes.NewReader(buf.Bytes()), int64(buf.Len()))
			if err != nil {
				return nil, err
			}
			if len(f.RowGroups()) != 1 {
				return nil, fmt.Errorf("%d row groups", len(f.RowGroups()))
			}
			groups = append(groups, f.RowGroups()[0])
		}
		return nil, nil
	})
	if err != nil {
		ctx.Fail("L1", "sorted-source-error "+errClass(err), err.Error(), describe(root, nil))
		return
	}
	if got := c12OrderText(groups[0].SortingColumns()); got != strings.Join(order, ", ") {
		ctx.Fail("L1", "sorted-source-declares-other-order", "the source row group does not declare the configured sorting columns: "+got, describe(root, nil))
		return
	}
	for mask := 0; mask < 1<<nsort; mask++ {
		tgt := &c12Node{kind: -1}
		var dropped, want []string
		alive := true
		for _, f := range root.fields {
			si := -1
			for i, c := range sc {
				if c.name == f.name {
					si = i
				}
			}
			if si >= 0 && mask&(1<<si) != 0 {
				continue
			}
			if si < 0 && len(root.fields) > 3 && r.Intn(4) == 0 {
				continue // drop a payload column too
			}
			tgt.fields = append(tgt.fields, f.clone())
		}
		for i, c := range sc {
			if mask&(1<<i) != 0 {
				dropped = append(dropped, c.name)
				alive = false
			} else if alive {
				want = append(want, order[i])
			}
		}
		if len(tgt.fields) == 0 {
			continue
		}
		r.Shuffle(len(tgt.fields), func(i, j int) { tgt.fields[i], tgt.fields[j] = tgt.fields[j], tgt.fields[i] })
		tgtS := parquet.NewSchema("tgt", tgt.build())
		tleaves := tgt.leaves()
		shape := "dropped=" + strings.Join(dropped, "+")
		if len(dropped) == 0 {
			shape = "dropped=none"
		}
		det := describe(tgt, map[string]any{"dropped_sorting_columns": dropped, "expected_order": want})
		ctx.Case(fmt.Sprint(det)+fmt.Sprint(inputs[0][0].kids[0].p), len(dropped) > 0 && len(dropped) < nsort)
		ctx.Hist("sorted-target", fmt.Sprintf("%d of %d sorting columns dropped", len(dropped), nsort))
		ctx.Hist("path", "sorted-convert-rowgroup")
		// ordered by the declared columns?
		ordered := func(rows []parquet.Row, decl []parquet.SortingColumn) (bool, string) {
			type dc struct {
				col, kind int
				desc      bool
			}
			var dcs []dc
			for _, sc := range decl {
				found := false
				for ci, lf := range tleaves {
					if len(lf.path) == 1 && len(sc.Path()) == 1 && lf.path[0] == sc.Path()[0] {
						dcs = append(dcs, dc{ci, lf.node.kind, sc.Descending()})
						found = true
					}
				}
				if !found {
					return false, "declared sorting column " + strings.Join(sc.Path(), ".") + " is not a column of the target"
				}
			}
			val := func(row parquet.Row, col int) (parquet.Value, bool) {
				for _, v := range row {
					if v.Column() == col {
						return v, true
					}
				}
				return parquet.Value{}, false
			}
			for i := 1; i < len(rows); i++ {
				for _, d := range dcs {
					a, ok1 := val(rows[i-1], d.col)
					b, ok2 := val(rows[i], d.col)
					if !ok1 || !ok2 {
						return false, fmt.Sprintf("row %d has no value for a sorting column", i)
					}
					c := cmpVal(d.kind, a, b)
					if d.desc {
						c = -c
					}
					if c < 0 {
						break
					}
					if c > 0 {
						return false, fmt.Sprintf("rows %d and %d are out of order on %s: %v then %v", i-1, i, strings.Join(tleaves[d.col].path, "."), a, b)
					}
				}
			}
			return true, ""
		}
		var converted []parquet.RowGroup
		okAll := true
		for gi, rg := range groups {
			at("sorted-convert-rowgroup", "sorted:"+shape, det)
			var decl []parquet.SortingColumn
			out, err := c12Guard(func() (*c12Out, error) {
				conv, err := parquet.Convert(tgtS, rg.Schema())
				if err != nil {
					return nil, err
				}
				crg := parquet.ConvertRowGroup(rg, conv)
				converted = append(converted, crg)
				decl = crg.SortingColumns()
				rr := crg.Rows()
				defer rr.Close()
				rows, err := c12ReadRows(rr, 7)
				return &c12Out{raw: rows, nrows: len(rows)}, err
			})
			if err != nil {
				k := "path-error:sorted-convert-rowgroup:" + errClass(err)
				if strings.HasPrefix(err.Error(), "PANIC") {
					k = "path-panic:sorted-convert-rowgroup:sorted"
				}
				ctx.Fail("L1", k, err.Error(), det)
				okAll = false
				break
			}
			if out.nrows != len(inputs[gi]) {
				ctx.Fail("L1", "row-count-or-structure:sorted-convert-rowgroup", fmt.Sprintf("%d rows for %d", out.nrows, len(inputs[gi])), det)
			}
			if ok, why := ordered(out.raw, decl); !ok {
				ctx.Fail("L1", "converted-rowgroup-declares-false-order:"+c12DropShape(mask, nsort),
					fmt.Sprintf("ConvertRowGroup(...).SortingColumns() = [%s] is not an order of the converted rows: %s", c12OrderText(decl), why),
					describe(tgt, map[string]any{"dropped_sorting_columns": dropped, "expected_order": want, "declared": c12OrderText(decl)}))
			} else if got := c12OrderText(decl); got != strings.Join(want, ", ") {
				ctx.Observe("converted-rowgroup-declares-shorter-order", "a true but shorter order than the surviving prefix of the source's sorting columns is declared: ["+got+"]", det)
			}
			ctx.Hist("converted-declared-order-length", fmt.Sprint(len(decl)))
			if d != nil {
				// L2: the carry-over loop vs the Lean mirror `carrySorting`
				var flags []string
				for i := range sc {
					flags = append(flags, map[bool]string{true: "0", false: "1"}[mask&(1<<i) != 0])
				}
				if a, err := d.AskMany([]string{"convert.sorting " + strings.Join(flags, ",")}); err != nil {
					ctx.Fail("L2", "driver-error", err.Error(), nil)
				} else if a[0] != fmt.Sprintf("ok %d", len(decl)) {
					ctx.Fail("L2", "converted-sorting-vs-lean-mirror", fmt.Sprintf("ConvertRowGroup declares %d sorting columns [%s], the Lean mirror carrySorting says %s", len(decl), c12OrderText(decl), a[0]),
						describe(tgt, map[string]any{"dropped_sorting_columns": dropped}))
				}
			}
		}
		if !okAll || len(converted) != 2 {
			continue
		}
		// merge the converted groups
		ctx.Hist("path", "sorted-merge-converted")
		at("sorted-merge-converted", "sorted:"+shape, det)
		var decl []parquet.SortingColumn
		out, err := c12Guard(func() (*c12Out, error) {
			m, err := parquet.MergeRowGroups(converted, tgtS)
			if err != nil {
				return nil, err
			}
			decl = m.SortingColumns()
			rr := m.Rows()
			defer rr.Close()
			rows, err := c12ReadRows(rr, 5)
			return &c12Out{raw: rows, nrows: len(rows)}, err
		})
		if err != nil {
			k := "path-error:sorted-merge-converted:" + errClass(err)
			if strings.HasPrefix(err.Error(), "PANIC") {
				k = "path-panic:sorted-merge-converted:sorted"
			}
			ctx.Fail("L1", k, err.Error(), det)
			continue
		}
		ctx.Hist("merge-declared-order-length", fmt.Sprint(len(decl)))
		if ok, why := ordered(out.raw, decl); !ok {
			ctx.Fail("L1", "merge-of-converted-rowgroups-not-in-declared-order:"+c12DropShape(mask, nsort),
				fmt.Sprintf("MergeRowGroups of the converted row groups declares [%s] but: %s", c12OrderText(decl), why),
				describe(tgt, map[string]any{"dropped_sorting_columns": dropped, "expected_order": want, "declared": c12OrderText(decl)}))
			continue
		}
		// all rows, each as often as in the inputs (multiset of projected rows)
		count := map[string]int{}
		for _, vs := range inputs {
			for _, v := range vs {
				count[fmt.Sprintf("%+v", c12RowOf(c12ShredRow(tgt, c12ProjectBody(root, tgt, v))))]++
			}
		}
		bad := ""
		if len(tgt.fields) > 0 {
			for _, row := range out.raw {
				var canon parquet.Row
				for _, v := range row {
					x := v.Clone()
					if v.DefinitionLevel() < tleaves[v.Column()].maxDef {
						x = parquet.NullValue().Level(v.RepetitionLevel(), v.DefinitionLevel(), v.Column())
					}
					canon = append(canon, x)
				}
				k := fmt.Sprintf("%+v", canon)
				count[k]--
				if count[k] < 0 && bad == "" {
					bad = "row not in the inputs (or too often): " + k
				}
			}
		}
		for k, n := range count {
			if n > 0 && bad == "" {
				bad = "row missing from the merge: " + k
			}
		}
		if bad != "" {
			ctx.Fail("L1", "merge-of-converted-rowgroups-loses-or-alters-rows", bad, det)
		}
	}
}

func c12Cmp(a, b int64) int {
	switch {
	case a < b:
		return -1
	case a > b:
		return 1
	}
	return 0
}

func c12OrderText(cols []parquet.SortingColumn) string {
	var out []string
	for _, c := range cols {
		d := " asc"
		if c.Descending() {
			d = " desc"
		}
		out = append(out, strings.Join(c.Path(), ".")+d)
	}
	return strings.Join(out, ", ")
}

// which sorting columns were dropped: first / middle / last / several
func c12DropShape(mask, n int) string {
	var pos []string
	for i := 0; i < n; i++ {
		if mask&(1<<i) != 0 {
			switch {
			case i == 0:
				pos = append(pos, "first")
			case i == n-1:
				pos = append(pos, "last")
			default:
				pos = append(pos, "middle")
			}
		}
	}
	if len(pos) == 0 {
		return "dropped-none"
	}
	return "dropped-" + strings.Join(pos, "+")
}

// ---------------------------------------------------------------- merge of partly overlapping sorted files through a schema

// One case: two files sorted by a required int64 `id`, written with small pages and page indexes,
// whose key ranges overlap only in part (file A holds ids [0,nA), file B ids [lo,lo+nB) with
// 0 < lo < nA < lo+nB and both lone stretches longer than the 1024 rows from which MergeRowGroups
// serves a stretch as a row-range view over the column chunks of the converted row group). The
// row of an id is a function of the id, so that the two copies of an id in the overlap are equal
// and the merged sequence is fully determined. Target: fields deleted and permuted at any depth
// (never `id`), then nothing / fields added / required->optional / optional->required. Paths: MergeRowGroups(schema, sorting).Rows(); CopyRows of those rows into a
// writer; WriteRowGroup of the merged row group. Expected: the reference shredding of the
// projected rows in id order.
func c12BigMergeCase(ctx *core.Ctx, r *rand.Rand, at func(path, mode string, detail any)) {
	g := &c12Gen{r: r}
	var src *c12Node
	for {
		src = g.schema()
		if len(src.fields) >= 2 || src.numLeaves() >= 2 {
			break
		}
	}
	idf := &c12Node{name: "id", rep: 0, kind: 2}
	pos := r.Intn(len(src.fields) + 1)
	src.fields = append(src.fields[:pos:pos], append([]*c12Node{idf}, src.fields[pos:]...)...)
	var tg *c12Target
	for try := 0; ; try++ {
		mode := []string{"drop-permute", "drop-permute", "drop-permute", "permute", "widen", "widen", "add", "add", "add", "narrow"}[r.Intn(10)]
		if try > 10 {
			mode = "permute"
		}
		tg = g.target(src, mode)
		if tg.node.field("id") != nil && tg.node.text() != src.text() {
			break
		}
		if try > 20 {
			break
		}
	}
	tgt := tg.node
	tleaves := tgt.leaves()
	srcS := parquet.NewSchema("src", src.build())
	tgtS := parquet.NewSchema("tgt", tgt.build())
	nA := 1200 + r.Intn(1800)
	lo := 1030 + r.Intn(nA-1030-20)
	nB := (nA - lo) + 1030 + r.Intn(1500)
	pageBytes := []int{256, 1024, 4096}[r.Intn(3)]
	salt := r.Int63()
	nullP := []float64{0.1, 0.4}[r.Intn(2)]
	valOf := func(id int64) *c12Val {
		rr := rand.New(rand.NewSource(salt ^ (id * 0x9E3779B97F4A7C)))
		v := c12GenBody(rr, src, nullP, 2)
		for i, f := range src.fields {
			if f.name == "id" {
				v.kids[i] = &c12Val{k: 'P', p: parquet.ValueOf(id)}
			}
		}
		return v
	}
	det := map[string]any{"source": src.text(), "target": tgt.text(), "mode": tg.mode, "ops": tg.ops,
		"file_a_ids": fmt.Sprintf("[0,%d)", nA), "file_b_ids": fmt.Sprintf("[%d,%d)", lo, lo+nB),
		"page_buffer_size": pageBytes, "row_salt": salt, "null_probability": nullP,
		"sorting": "id asc", "rows": "row(id) = c12GenBody(rand(salt ^ id*0x9E3779B97F4A7C), source, null_probability, 2) with id set"}
	ctx.Case(fmt.Sprint(det), true)
	ctx.Hist("big-merge-mode", tg.mode)
	ctx.Hist("big-merge-page-buffer-size", fmt.Sprint(pageBytes))

	sorting := parquet.SortingColumns(parquet.Ascending("id"))
	write := func(from, n int) (*parquet.File, error) {
		var buf bytes.Buffer
		w := parquet.NewWriter(&buf, srcS, parquet.PageBufferSize(pageBytes), parquet.SortingWriterConfig(sorting))
		batch := make([]parquet.Row, 0, 64)
		for i := 0; i < n; i++ {
			batch = append(batch, c12RowOf(c12ShredRow(src, valOf(int64(from+i)))))
			if len(batch) == cap(batch) || i == n-1 {
				if _, err := w.WriteRows(batch); err != nil {
					return nil, err
				}
				batch = batch[:0]
			}
		}
		if err := w.Close(); err != nil {
			return nil, err
		}
		f, err := parquet.OpenFile(bytes.NewReader(buf.Bytes()), int64(buf.Len()))
		if err != nil {
			return nil, err
		}
		if len(f.RowGroups()) != 1 {
			return nil, fmt.Errorf("%d row groups", len(f.RowGroups()))
		}
		return f, nil
	}
	var fa, fb *parquet.File
	at("big-merge-source-write", tg.mode, det)
	if _, err := c12Guard(func() (*c12Out, error) {
		var err error
		if fa, err = write(0, nA); err != nil {
			return nil, err
		}
		fb, err = write(lo, nB)
		return nil, err
	}); err != nil {
		ctx.Fail("L1", "source-write-error "+errClass(err), "cannot write the sorted source files: "+err.Error(), det)
		return
	}
	// expected streams
	var ids []int64
	for a, b := 0, lo; a < nA || b < lo+nB; {
		if b >= lo+nB || (a < nA && a <= b) {
			ids = append(ids, int64(a))
			a++
		} else {
			ids = append(ids, int64(b))
			b++
		}
	}
	exp := make([][]gen.Triple, len(tleaves))
	for _, id := range ids {
		cols := c12ShredRow(tgt, c12ProjectBody(src, tgt, valOf(id)))
		for ci, col := range cols {
			for _, x := range col {
				exp[ci] = append(exp[ci], c12Canon(nil, x, tleaves[ci]))
			}
		}
	}
	cs := &c12Case{src: src, tgt: tgt, srcS: srcS, tgtS: tgtS, tleaves: tleaves}
	// targets that add columns: where conversion.Convert itself gives an added column borrowed
	// levels on some row of this case (F19, recorded), the failures of the case belong to that
	// family; where it converts every row as expected, every path must do so too
	addedKey := ""
	if tg.mode == "add" {
		at("big-merge-convert-rows", tg.mode, det)
		_, err := c12Guard(func() (*c12Out, error) {
			conv, err := parquet.Convert(tgtS, srcS)
			if err != nil {
				return nil, err
			}
			for id := int64(0); id < int64(lo+nB) && addedKey == ""; id++ {
				v := valOf(id)
				rows := []parquet.Row{c12RowOf(c12ShredRow(src, v))}
				if _, err := conv.Convert(rows); err != nil {
					return nil, err
				}
				got, err := c12SplitRows(nil, rows, tleaves)
				want := c12ShredRow(tgt, c12ProjectBody(src, tgt, v))
				for ci := range want {
					var w []gen.Triple
					for _, x := range want[ci] {
						w = append(w, c12Canon(nil, x, tleaves[ci]))
					}
					if err != nil || !reflect.DeepEqual(w, got[ci]) {
						if added, _, _ := c12AddedShape(src, tgt, tleaves[ci].path); added || err != nil {
							addedKey = c12AddedKey(c12Path{}, cs, ci)
							break
						}
					}
				}
			}
			return nil, nil
		})
		if err != nil {
			ctx.Fail("L1", "path-error:convert-rows:add:"+errClass(err), "Convert fails on a target that adds columns: "+err.Error(), det)
			return
		}
		ctx.Hist("big-merge-added-columns", map[bool]string{true: "row conversion right on every row", false: "row conversion borrows levels (F19)"}[addedKey == ""])
	}
	merge := func() (parquet.RowGroup, error) {
		m, err := parquet.MergeRowGroups([]parquet.RowGroup{fa.RowGroups()[0], fb.RowGroups()[0]}, tgtS, parquet.SortingRowGroupConfig(sorting))
		if err != nil {
			return nil, err
		}
		if int(m.NumRows()) != len(ids) {
			return nil, fmt.Errorf("merged row group declares %d rows for %d", m.NumRows(), len(ids))
		}
		return m, nil
	}
	paths := []struct {
		name string
		run  func() (*c12Out, error)
	}{
		{"merge-sorted-overlapping-rows", func() (*c12Out, error) {
			m, err := merge()
			if err != nil {
				return nil, err
			}
			rr := m.Rows()
			defer rr.Close()
			rows, err := c12ReadRows(rr, 100)
			if err != nil {
				return nil, err
			}
			return cs.rowsOut(ctx, rows)
		}},
		{"merge-sorted-overlapping-copy-rows", func() (*c12Out, error) {
			m, err := merge()
			if err != nil {
				return nil, err
			}
			rr := m.Rows()
			defer rr.Close()
			var buf bytes.Buffer
			w := parquet.NewWriter(&buf, tgtS)
			n, err := parquet.CopyRows(w, rr)
			if err != nil {
				return nil, err
			}
			if err := w.Close(); err != nil {
				return nil, err
			}
			if int(n) != len(ids) {
				return nil, fmt.Errorf("CopyRows reported %d rows for %d", n, len(ids))
			}
			return cs.fileOut(ctx, buf.Bytes())
		}},
		{"merge-sorted-overlapping-write-rowgroup", func() (*c12Out, error) {
			m, err := merge()
			if err != nil {
				return nil, err
			}
			var buf bytes.Buffer
			w := parquet.NewWriter(&buf, tgtS)
			if _, err := w.WriteRowGroup(m); err != nil {
				return nil, err
			}
			if err := w.Close(); err != nil {
				return nil, err
			}
			return cs.fileOut(ctx, buf.Bytes())
		}},
	}
	for _, p := range paths {
		at(p.name, tg.mode, det)
		ctx.Hist("path", p.name)
		out, err := c12Guard(p.run)
		if err != nil && out == nil {
			k := "path-error:" + p.name + ":" + tg.mode + ":" + errClass(err)
			if strings.HasPrefix(err.Error(), "PANIC") {
				k = "path-panic:" + p.name + ":" + tg.mode
			}
			if addedKey != "" {
				k = addedKey
			}
			if strings.Contains(err.Error(), "FIXED_LEN_BYTE_ARRAY") && (tg.mode == "add" || tg.mode == "narrow") {
				// the zero value synthesised for a required FIXED_LEN_BYTE_ARRAY column has no bytes
				k = "fixed-len-zero-value-is-empty:" + tg.mode
			}
			ctx.Fail("L1", k, "path "+p.name+": "+err.Error(), det)
			continue
		}
		col, idx, desc := c12FirstDiff(exp, out.cols)
		if col < 0 && err == nil && out.nrows == len(ids) {
			continue
		}
		what := fmt.Sprintf("rows expected %d got %d", len(ids), out.nrows)
		key := "row-count-or-structure:" + p.name + ":" + tg.mode
		if addedKey != "" {
			m := map[string]any{"path": p.name}
			for k, v := range det {
				m[k] = v
			}
			ctx.Fail("L1", addedKey, "path "+p.name+" on rows whose added column carries borrowed levels: "+what+" "+desc, m)
			continue
		}
		if err != nil {
			what += "; " + err.Error()
		}
		if col >= 0 {
			key = "shared-column-altered:" + p.name + ":" + tg.mode
			what = fmt.Sprintf("target column %s (index %d), stream entry %d: %s", strings.Join(tleaves[col].path, "."), col, idx, desc)
			if err != nil {
				what += "; " + err.Error()
			}
		}
		m := map[string]any{"path": p.name}
		for k, v := range det {
			m[k] = v
		}
		ctx.Fail("L1", key, "path "+p.name+": "+what, m)
	}
}

// ---------------------------------------------------------------- ConvertRowReader: batches and seeks

// c12SliceReader hands out min(len(buf), rest) rows per call, io.EOF when nothing is left.
type c12SliceReader struct {
	rows   []parquet.Row
	schema *parquet.Schema
}

func (r *c12SliceReader) ReadRows(buf []parquet.Row) (int, error) {
	if len(r.rows) == 0 {
		return 0, io.EOF
	}
	n := min(len(buf), len(r.rows))
	for i := 0; i < n; i++ {
		buf[i] = append(buf[i][:0], r.rows[i]...)
	}
	r.rows = r.rows[n:]
	return n, nil
}

func (r *c12SliceReader) Schema() *parquet.Schema { return r.schema }

// One case: rows 0..n-1 (column `id` = row number) read through ConvertRowReader with a target
// that drops and permutes columns, by a random history of ReadRows(cap) and forward SeekToRow
// calls. Oracle (the property): a read hands out the converted rows in order from the current
// position, and after SeekToRow(k) the next row is row k; nothing lost or repeated otherwise.
// L2: every call's outcome vs the Lean mirror of forwardRowSeeker.ReadRows.
func c12SeekCase(ctx *core.Ctx, d c12Asker, r *rand.Rand, at func(path, mode string, detail any)) {
	src := &c12Node{kind: -1, fields: []*c12Node{{name: "id", kind: 2}, {name: "p", kind: 5}, {name: "q", rep: 1, kind: 1}, {name: "w", rep: 2, kind: 2}}}
	tgt := &c12Node{kind: -1, fields: []*c12Node{{name: "w", rep: 2, kind: 2}, {name: "id", kind: 2}}}
	if r.Intn(2) == 0 {
		tgt.fields = []*c12Node{{name: "q", rep: 1, kind: 1}, {name: "id", kind: 2}, {name: "p", kind: 5}}
	}
	n := []int{0, 1, 3, 8, 20, 40}[r.Intn(6)]
	var rows []parquet.Row
	for i := 0; i < n; i++ {
		v := &c12Val{k: 'S', kids: []*c12Val{{k: 'P', p: parquet.ValueOf(int64(i))}, c12GenField(r, src.fields[1], 0.3, 2),
			c12GenField(r, src.fields[2], 0.3, 2), c12GenField(r, src.fields[3], 0.3, 2)}}
		rows = append(rows, c12RowOf(c12ShredRow(src, v)))
	}
	// history
	var ops []string
	pos := 0 // the row the property says comes next
	kindOfHistory := "reads-only"
	for k := 1 + r.Intn(6); k > 0; k-- {
		if r.Intn(3) == 0 {
			row := pos + r.Intn(12)
			ops = append(ops, fmt.Sprintf("s%d", row))
			pos = row
			kindOfHistory = "with-seek"
		} else {
			c := []int{1, 2, 4, 7, 64}[r.Intn(5)]
			ops = append(ops, fmt.Sprintf("r%d", c))
			pos += c
		}
	}
	det := map[string]any{"rows": n, "ops": ops, "target": tgt.text()}
	ctx.Case(fmt.Sprint(n, ops, tgt.text()), kindOfHistory == "with-seek")
	ctx.Hist("path", "convert-row-reader-history")
	ctx.Hist("seek-history", kindOfHistory)
	at("convert-row-reader-history", kindOfHistory, det)
	srcS := parquet.NewSchema("src", src.build())
	tgtS := parquet.NewSchema("tgt", tgt.build())
	idCol := -1
	for ci, lf := range tgt.leaves() {
		if lf.path[0] == "id" {
			idCol = ci
		}
	}
	var outcomes []string
	next := 0 // property oracle: the next row
	var l1 string
	seekPending, readBefore := false, false
	_, err := c12Guard(func() (*c12Out, error) {
		conv, err := parquet.Convert(tgtS, srcS)
		if err != nil {
			return nil, err
		}
		rr := parquet.ConvertRowReader(&c12SliceReader{rows: rows, schema: srcS}, conv)
		for _, op := range ops {
			arg, _ := strconv.Atoi(op[1:])
			if op[0] == 's' {
				if err := rr.(parquet.RowSeeker).SeekToRow(int64(arg)); err != nil {
					outcomes = append(outcomes, "err")
					continue
				}
				outcomes = append(outcomes, "ok")
				next = arg
				seekPending = true
				continue
			}
			buf := make([]parquet.Row, arg)
			var got []string
			var nread int
			var rerr error
			func() {
				defer func() {
					if x := recover(); x != nil {
						rerr = fmt.Errorf("PANIC: %v", x)
					}
				}()
				nread, rerr = rr.ReadRows(buf)
			}()
			if rerr != nil && strings.HasPrefix(rerr.Error(), "PANIC") {
				outcomes = append(outcomes, "panic")
				if l1 == "" {
					l1 = "forward-row-seeker:seek-inside-batch-panics"
					if !seekPending {
						l1 = "path-panic:convert-row-reader-history:" + kindOfHistory
					}
					det["failed_op"] = op
					det["error"] = rerr.Error()
				}
				for len(outcomes) < len(ops) {
					outcomes = append(outcomes, "dead")
				}
				return nil, nil
			}
			for _, row := range buf[:nread] {
				id := "?"
				for _, v := range row {
					if v.Column() == idCol {
						id = fmt.Sprint(v.Int64())
					}
				}
				got = append(got, id)
			}
			if len(got) == 0 {
				outcomes = append(outcomes, "-")
			} else {
				outcomes = append(outcomes, strings.Join(got, ","))
			}
			// the property: rows next, next+1, ... (as many as fit / remain)
			var want []string
			for i := next; i < n && len(want) < arg; i++ {
				want = append(want, fmt.Sprint(i))
			}
			// a reader may hand out fewer rows than the buffer holds, but not none while rows remain
			short := len(got) <= len(want) && strings.Join(got, ",") == strings.Join(want[:min(len(got), len(want))], ",") && (len(got) > 0 || len(want) == 0)
			if short {
				want = want[:len(got)]
			}
			if !short && l1 == "" {
				l1 = "forward-row-seeker:wrong-rows-without-seek"
				if seekPending || kindOfHistory == "with-seek" {
					l1 = "forward-row-seeker:seek-lands-on-wrong-row"
					if readBefore {
						l1 = "forward-row-seeker:seek-after-read-skips-rows"
					}
				}
				det["failed_op"] = op
				det["expected_ids"] = want
				det["got_ids"] = got
			}
			next += len(want)
			if len(got) > 0 {
				seekPending = false
			}
			readBefore = true
			if rerr != nil && rerr != io.EOF {
				return nil, rerr
			}
		}
		return nil, nil
	})
	if err != nil {
		k := "path-error:convert-row-reader-history:" + errClass(err)
		if strings.HasPrefix(err.Error(), "PANIC") {
			k = "path-panic:convert-row-reader-history:" + kindOfHistory
		}
		ctx.Fail("L1", k, err.Error(), det)
		return
	}
	det["outcomes"] = outcomes
	if l1 != "" {
		ctx.Fail("L1", l1, "reading converted rows through ConvertRowReader with SeekToRow does not continue at the sought row", det)
	}
	if d != nil {
		a, err := d.AskMany([]string{fmt.Sprintf("convert.fwd %d %s", n, strings.Join(ops, ";"))})
		if err != nil {
			ctx.Fail("L2", "driver-error", err.Error(), nil)
		} else if want := "ok " + strings.Join(outcomes, ";"); a[0] != want {
			ctx.Fail("L2", "forward-row-seeker-vs-lean-mirror", "forwardRowSeeker.ReadRows history and the Lean mirror Fwd.read disagree",
				map[string]any{"rows": n, "ops": ops, "go": want, "lean": a[0]})
		}
	}
}
