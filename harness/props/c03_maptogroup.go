package props

import (
	"bytes"
	"encoding/binary"
	"encoding/hex"
	"fmt"
	"math/rand"
	"sort"
	"strings"
	"sync"

	"github.com/parquet-go/parquet-go"

	"verifharness/core"
	"verifharness/gen"
)

// C03/maptogroup: Go maps written onto GROUP schemas (writeRowsFuncOfMapToGroup: the
// map[string]string branch, the map[string]any branch and the default branch on map[string]int32;
// below them the per-node value writers writeValueFuncOf).
//
// L1: a reference shredder written from the property (every member of the group is looked up by
// name; missing key / nil / zero value below an optional member = null; a missing required member
// holds the zero value; extra keys are ignored) against the streams stored by four ingestion paths:
// one GenericBuffer[record].Write call for the batch, the map being the member "m" of a record
// (typed path: the real writeRowsFuncOfMapToGroup; for the "iface" branch a struct of `any` fields:
// writeRowsFuncOfStruct over writeRowsFuncOfInterface), one GenericWriter[M].Write call (schema
// differs from SchemaOf(M): the value writers writeValueFuncOf), Writer.Write row by row (reflection
// path, Schema.Deconstruct) and GenericWriter[any].Write (value writers from the root).
// L2: both typed paths against the Lean mirror (PqModel.MapToGroup: m2gWrite / m2gWriteStr, then what
// the column buffer keeps and a reader gets back: storeNull, readBack), theorems in
// PqModel.Props.C03MapToGroup.
//
// Two situations in which the paths disagree on the unmodified library are recorded as observations
// with their own keys (see the slice report), every other disagreement is a failure.
func init() { RegisterSub("C03", "maptogroup", RunC03MapToGroup) }

// m2gIface: a row type of interface-typed fields written onto an explicit schema whose members
// a..f are leaves, optional nodes or nested groups (writeRowsFuncOfStruct over
// writeRowsFuncOfInterface over the value writers).
type m2gIface struct {
	A any `parquet:"a"`
	B any `parquet:"b"`
	C any `parquet:"c"`
	D any `parquet:"d"`
	E any `parquet:"e"`
	F any `parquet:"f"`
}

// record types whose map field is written onto a GROUP node "m" of an explicit schema:
// GenericBuffer[T] always takes the typed path (writeRowsFuncOfStruct -> writeRowsFuncOfMap ->
// writeRowsFuncOfMapToGroup), GenericWriter[T] with a schema that differs from SchemaOf(T) the
// value writers (writeValueFuncOf).
type m2gRecS struct {
	M map[string]string `parquet:"m"`
}
type m2gRecA struct {
	M map[string]any `parquet:"m"`
}
type m2gRecI struct {
	M map[string]int32 `parquet:"m"`
}

type m2gNode struct {
	name     string
	optional bool
	kind     int // 0 string, 1 int32, 2 int64, 3 group
	fields   []*m2gNode
	col      int
	maxDef   int
}

var m2gNames = []string{"a", "b", "c", "d", "e", "f", "x", "y"}

func m2gNameID(s string) int {
	for i, n := range m2gNames {
		if n == s {
			return i + 1
		}
	}
	return 0
}

func (n *m2gNode) node() parquet.Node {
	var p parquet.Node
	switch n.kind {
	case 0:
		p = parquet.String()
	case 1:
		p = parquet.Leaf(parquet.Int32Type)
	case 2:
		p = parquet.Leaf(parquet.Int64Type)
	default:
		g := parquet.Group{}
		for _, f := range n.fields {
			g[f.name] = f.node()
		}
		p = g
	}
	if n.optional {
		p = parquet.Optional(p)
	}
	return p
}

// text in the GNode grammar of Driver.Ops.C03MapToGroup
func (n *m2gNode) text(sb *strings.Builder) {
	if n.optional {
		sb.WriteString("O(")
		defer sb.WriteString(")")
	}
	if n.kind != 3 {
		sb.WriteString("F")
		return
	}
	sb.WriteString("G(")
	for i, f := range n.fields {
		if i > 0 {
			sb.WriteString(",")
		}
		fmt.Fprintf(sb, "%d:", m2gNameID(f.name))
		f.text(sb)
	}
	sb.WriteString(")")
}

func (n *m2gNode) number(col *int, def int) {
	if n.optional {
		def++
	}
	if n.kind != 3 {
		n.col, n.maxDef = *col, def
		*col++
		return
	}
	sort.Slice(n.fields, func(i, j int) bool { return n.fields[i].name < n.fields[j].name })
	for _, f := range n.fields {
		f.number(col, def)
	}
}

func m2gGenGroup(r *rand.Rand, depth int, kinds []int, nf int) *m2gNode {
	g := &m2gNode{kind: 3}
	perm := r.Perm(6)
	if nf == 0 {
		nf = 1 + r.Intn(4)
	}
	for i := 0; i < nf; i++ {
		f := &m2gNode{name: m2gNames[perm[i]], optional: r.Intn(2) == 0, kind: kinds[r.Intn(len(kinds))]}
		if depth > 0 && len(kinds) > 1 && r.Intn(3) == 0 {
			sub := m2gGenGroup(r, depth-1, kinds, 0)
			sub.name, sub.optional = f.name, r.Intn(3) != 0
			f = sub
		}
		g.fields = append(g.fields, f)
	}
	return g
}

func m2gKey(kind int, v any) string {
	switch kind {
	case 0:
		if s := v.(string); s != "" {
			return hex.EncodeToString([]byte(s))
		}
		return "-"
	case 1:
		var b [4]byte
		binary.LittleEndian.PutUint32(b[:], uint32(v.(int32)))
		return hex.EncodeToString(b[:])
	default:
		var b [8]byte
		binary.LittleEndian.PutUint64(b[:], uint64(v.(int64)))
		return hex.EncodeToString(b[:])
	}
}

func m2gZero(kind int) any {
	switch kind {
	case 0:
		return ""
	case 1:
		return int32(0)
	default:
		return int64(0)
	}
}

// identifiers of value texts for the Lean side: the zero value of every leaf kind is 0 (the payload
// the mirror's storeNull / readBack use for it)
type m2gIDs struct{ m map[string]int }

func (d *m2gIDs) id(key string) int {
	switch key {
	case "-", "00000000", "0000000000000000":
		return 0
	}
	if d.m == nil {
		d.m = map[string]int{}
	}
	if x, ok := d.m[key]; ok {
		return x
	}
	d.m[key] = len(d.m) + 1
	return len(d.m)
}

type m2gCase struct {
	ids        *m2gIDs
	cols       [][]gen.Triple // reference streams
	hole       bool           // a required member is missing below a present optional group
	anyZeroOpt bool           // map[string]any holds a non-nil interface with a zero value below an optional member
}

func m2gGenLeaf(r *rand.Rand, kind int) any {
	switch kind {
	case 0:
		return []string{"s", "tt", "uuu", "a-longer-string-value"}[r.Intn(4)]
	case 1:
		return []int32{1, -1, 7, 1 << 30, -1 << 31}[r.Intn(5)]
	default:
		return []int64{1, -1, 9, 1 << 40, -1 << 63}[r.Intn(5)]
	}
}

// genMap generates a map[string]any for the members of g; noHole / noZero = the first / second
// recorded disagreement situation is not generated.
func m2gGenMap(r *rand.Rand, g *m2gNode, noHole, noZero bool, underOpt bool) map[string]any {
	m := map[string]any{}
	for _, f := range g.fields {
		opt := underOpt || f.optional
		switch x := r.Intn(10); {
		case x < 3: // missing key
			if noHole && underOpt && !f.optional {
				// would be a required member missing below a present optional group
				if f.kind == 3 {
					m[f.name] = m2gGenMap(r, f, noHole, noZero, opt)
				} else {
					m[f.name] = m2gGenLeaf(r, f.kind)
				}
			}
		case x == 3 && !noZero && !(noHole && underOpt && !f.optional && f.kind == 3): // zero value / nil map inside the interface
			if f.kind == 3 {
				m[f.name] = map[string]any(nil)
			} else {
				m[f.name] = m2gZero(f.kind)
			}
		case x == 4 && !(noHole && underOpt && !f.optional): // key present, nil interface
			m[f.name] = nil
		default:
			if f.kind == 3 {
				m[f.name] = m2gGenMap(r, f, noHole, noZero, opt)
			} else {
				m[f.name] = m2gGenLeaf(r, f.kind)
			}
		}
	}
	if r.Intn(3) == 0 {
		m[[]string{"x", "y"}[r.Intn(2)]] = []any{"extra", int32(5), nil}[r.Intn(3)]
	}
	return m
}

// walk is the reference shredder and the abstraction at once: it appends the expected triple of
// every leaf below n and returns the Val text of v (present = the key was found).
func (c *m2gCase) walk(n *m2gNode, v any, present bool, def int, typed bool) string {
	return c.walkV(n, v, present, def, typed, false)
}

// strict = v is the value of an interface-typed STRUCT field: the writers see a reflect.Value of
// kind Interface, for which isNullValue only tests nil (a non-nil interface holding "" / 0 / a nil
// map is present on every path). Values taken out of a map[string]any are unwrapped first
// (reflect.ValueOf(m[name])): there the zero value is null on the value-writer paths.
func (c *m2gCase) walkV(n *m2gNode, v any, present bool, def int, typed, strict bool) string {
	null := !present || v == nil
	if !null && !strict {
		switch x := v.(type) {
		case map[string]any:
			null = x == nil
		default:
			null = n.kind != 3 && x == m2gZero(n.kind)
		}
		if null && n.optional && !typed {
			c.anyZeroOpt = true
		}
	}
	if n.optional {
		if null {
			c.absent(n, def)
			return "N"
		}
		return "J(" + c.walkReq(n, v, true, def+1) + ")"
	}
	if n.kind != 3 && present && v != nil {
		null = false // a required leaf stores the zero value as a value
	}
	return c.walkReq(n, v, !null, def)
}

func (c *m2gCase) walkReq(n *m2gNode, v any, present bool, def int) string {
	if !present {
		c.absent(n, def)
		return "N"
	}
	if n.kind != 3 {
		key := m2gKey(n.kind, v)
		c.cols[n.col] = append(c.cols[n.col], gen.Triple{Val: key, Def: def})
		return fmt.Sprintf("P%d", c.ids.id(key))
	}
	return c.walkMap(n, v.(map[string]any), def, false)
}

func (c *m2gCase) walkMap(g *m2gNode, m map[string]any, def int, typed bool) string {
	texts := map[string]string{}
	for _, f := range g.fields {
		v, ok := m[f.name]
		t := c.walk(f, v, ok, def, typed)
		if ok {
			texts[f.name] = t
		}
	}
	keys := make([]string, 0, len(m))
	for k := range m {
		keys = append(keys, k)
	}
	sort.Strings(keys)
	var sb strings.Builder
	sb.WriteString("L(")
	for i, k := range keys {
		if i > 0 {
			sb.WriteString(",")
		}
		t, ok := texts[k]
		if !ok {
			t = "P0" // extra key
		}
		fmt.Fprintf(&sb, "S(P%d,%s)", m2gNameID(k), t)
	}
	sb.WriteString(")")
	return sb.String()
}

// walkStruct: a struct of interface-typed fields = every member key present (possibly nil)
func (c *m2gCase) walkStruct(g *m2gNode, m map[string]any) string {
	ts := make([]string, len(g.fields))
	for i, f := range g.fields {
		ts[i] = c.walkV(f, m[f.name], true, 0, false, true)
	}
	return "S(" + strings.Join(ts, ",") + ")"
}

// absent: a null / missing member. Every leaf below gets one entry at the current definition
// level; a leaf whose maximum level this is (a required member, all optional ancestors present)
// holds the zero value.
func (c *m2gCase) absent(n *m2gNode, def int) {
	if n.kind != 3 {
		if def == n.maxDef {
			if def > 0 {
				c.hole = true
			}
			c.cols[n.col] = append(c.cols[n.col], gen.Triple{Val: m2gKey(n.kind, m2gZero(n.kind)), Def: def})
		} else {
			c.cols[n.col] = append(c.cols[n.col], gen.Triple{Null: true, Def: def})
		}
		return
	}
	for _, f := range n.fields {
		c.absent(f, def)
	}
}

func m2gRun(f func() error) (err error) {
	defer func() {
		if r := recover(); r != nil {
			err = fmt.Errorf("PANIC %v", r)
		}
	}()
	return f()
}

func m2gWriteTyped[M any](schema *parquet.Schema, rows []M) ([]byte, error) {
	var buf bytes.Buffer
	err := m2gRun(func() error {
		w := parquet.NewGenericWriter[M](&buf, schema)
		if _, err := w.Write(rows); err != nil {
			return err
		}
		return w.Close()
	})
	return buf.Bytes(), err
}

// m2gWriteBuffer: one GenericBuffer[T].Write call for the batch (one call of the row type's
// writeRowsFunc), the buffer then written as a row group.
func m2gWriteBuffer[T any](schema *parquet.Schema, rows []T) ([]byte, error) {
	var out bytes.Buffer
	err := m2gRun(func() error {
		buf := parquet.NewGenericBuffer[T](schema)
		if _, err := buf.Write(rows); err != nil {
			return err
		}
		w := parquet.NewWriter(&out, schema)
		if _, err := w.WriteRowGroup(buf); err != nil {
			return err
		}
		return w.Close()
	})
	return out.Bytes(), err
}

func m2gWriteRows[M any](schema *parquet.Schema, rows []M, generic bool) ([]byte, error) {
	var buf bytes.Buffer
	err := m2gRun(func() error {
		if generic {
			w := parquet.NewGenericWriter[any](&buf, schema)
			for _, r := range rows {
				if _, err := w.Write([]any{r}); err != nil {
					return err
				}
			}
			return w.Close()
		}
		w := parquet.NewWriter(&buf, schema)
		for _, r := range rows {
			if err := w.Write(r); err != nil {
				return err
			}
		}
		return w.Close()
	})
	return buf.Bytes(), err
}

func (c *m2gCase) streams(cols [][]gen.Triple) string {
	var sb strings.Builder
	for i, col := range cols {
		if i > 0 {
			sb.WriteString(";")
		}
		for j, t := range col {
			if j > 0 {
				sb.WriteString(" ")
			}
			if t.Null {
				fmt.Fprintf(&sb, "n/%d/%d", t.Rep, t.Def)
			} else {
				fmt.Fprintf(&sb, "%d/%d/%d", c.ids.id(t.Val), t.Rep, t.Def)
			}
		}
	}
	return sb.String()
}

// m2gModelStreams combines the triples of the model (levels) with its read-back values:
// "ok <cols> | <read>" -> the text of the streams a reader of the stored columns sees.
func m2gModelStreams(ans string) (string, bool) {
	body, ok := strings.CutPrefix(ans, "ok ")
	if !ok {
		return ans, false
	}
	parts := strings.Split(body, " | ")
	if len(parts) < 2 {
		return ans, false
	}
	a, b := parts[0], parts[1]
	cols, reads := strings.Split(a, ";"), strings.Split(b, ";")
	if len(cols) != len(reads) {
		return ans, false
	}
	var sb strings.Builder
	for i := range cols {
		if i > 0 {
			sb.WriteString(";")
		}
		ts, rs := strings.Fields(cols[i]), strings.Fields(reads[i])
		if len(ts) != len(rs) {
			return ans, false
		}
		for j := range ts {
			if j > 0 {
				sb.WriteString(" ")
			}
			_, lv, _ := strings.Cut(ts[j], "/")
			sb.WriteString(rs[j] + "/" + lv)
		}
	}
	return sb.String(), true
}

func RunC03MapToGroup(ctx *core.Ctx) {
	ctx.SetRule("non-trivial: some column of the batch holds both a null and a value")
	ncases := ctx.Scale(120, 1200)
	var wg sync.WaitGroup
	for wk := 0; wk < 12; wk++ {
		wg.Add(1)
		go func(wk int) {
			defer wg.Done()
			d := ctx.Driver()
			if d == nil {
				return
			}
			r := ctx.Rand(fmt.Sprintf("c03/maptogroup/%d", wk))
			for k := 0; k < ncases; k++ {
				branch := []string{"string", "any", "int32", "iface"}[(wk+k)%4]
				noHole, noZero := r.Intn(8) != 0, r.Intn(5) < 3
				if branch == "string" || branch == "int32" {
					noHole, noZero = true, true
				}
				var root *m2gNode
				switch branch {
				case "string":
					root = m2gGenGroup(r, 0, []int{0}, 0)
				case "int32":
					root = m2gGenGroup(r, 0, []int{1}, 0)
				case "iface":
					root = m2gGenGroup(r, 2, []int{0, 1, 2}, 6)
				default:
					root = m2gGenGroup(r, 2, []int{0, 1, 2}, 0)
				}
				ncol := 0
				root.number(&ncol, 0)
				schema := parquet.NewSchema("t", root.node())
				// the same group as the required member "m" of a record: same leaf columns, same levels
				recSchema := parquet.NewSchema("t", parquet.Group{"m": root.node()})
				n := []int{1, 2, 3, 7, 63, 64, 65, 130}[r.Intn(8)]
				c := &m2gCase{ids: &m2gIDs{}, cols: make([][]gen.Triple, ncol)}
				vals := make([]string, n)
				anyRows := make([]map[string]any, n)
				for i := range anyRows {
					if branch == "iface" {
						anyRows[i] = m2gGenMap(r, root, noHole, noZero, false)
						vals[i] = c.walkStruct(root, anyRows[i])
						continue
					}
					if r.Intn(8) == 0 {
						vals[i] = "N"
						c.absent(root, 0)
						continue
					}
					anyRows[i] = m2gGenMap(r, root, noHole, noZero, false)
					vals[i] = c.walkMap(root, anyRows[i], 0, branch == "string" || branch == "int32")
				}
				nontrivial := false
				for _, col := range c.cols {
					hasNull, hasVal := false, false
					for _, t := range col {
						hasNull = hasNull || t.Null
						hasVal = hasVal || !t.Null
					}
					nontrivial = nontrivial || (hasNull && hasVal)
				}
				var gsb strings.Builder
				root.text(&gsb)
				gtext := gsb.String()
				ctx.Case("maptogroup|"+branch+"|"+gtext+"|"+strings.Join(vals, "|"), nontrivial)
				ctx.Hist("maptogroup-branch", branch)
				ctx.Hist("maptogroup-rows", c03nsLenBucket(n))
				ctx.Hist("maptogroup-columns", fmt.Sprint(ncol))
				ctx.Hist("maptogroup-situation", fmt.Sprintf("missing-required-below-optional=%v any-zero-below-optional=%v", c.hole, c.anyZeroOpt))
				detail := map[string]any{"branch": branch, "schema": gtext, "names": "a..f = 1..6, x y = 7 8", "rows": vals, "build": ctx.Variant}

				type path struct {
					name string
					data []byte
					err  error
				}
				var paths []path
				var req string
				switch branch {
				case "string":
					rows := make([]map[string]string, n)
					for i, m := range anyRows {
						if m != nil {
							rows[i] = map[string]string{}
							for k, v := range m {
								if s, ok := v.(string); ok {
									rows[i][k] = s
								} else {
									rows[i][k] = "" // nil interface / extra key of another type
								}
							}
						}
					}
					t, e := m2gWriteTyped(schema, rows)
					paths = append(paths, path{"generic-writer-typed", t, e})
					t, e = m2gWriteRows(schema, rows, false)
					paths = append(paths, path{"writer-write", t, e})
					t, e = m2gWriteRows(schema, rows, true)
					paths = append(paths, path{"generic-writer-any", t, e})
					recs := make([]m2gRecS, n)
					for i := range rows {
						recs[i].M = rows[i]
					}
					t, e = m2gWriteBuffer(recSchema, recs)
					paths = append(paths, path{"generic-buffer-typed", t, e})
					var ms []string
					for _, f := range root.fields {
						ms = append(ms, fmt.Sprintf("%d:%s", m2gNameID(f.name), map[bool]string{true: "o", false: "r"}[f.optional]))
					}
					req = "m2g.str " + strings.Join(ms, ",") + " " + strings.Join(vals, " ")
				case "int32":
					rows := make([]map[string]int32, n)
					for i, m := range anyRows {
						if m != nil {
							rows[i] = map[string]int32{}
							for k, v := range m {
								if x, ok := v.(int32); ok {
									rows[i][k] = x
								} else {
									rows[i][k] = 0
								}
							}
						}
					}
					t, e := m2gWriteTyped(schema, rows)
					paths = append(paths, path{"generic-writer-typed", t, e})
					t, e = m2gWriteRows(schema, rows, false)
					paths = append(paths, path{"writer-write", t, e})
					t, e = m2gWriteRows(schema, rows, true)
					paths = append(paths, path{"generic-writer-any", t, e})
					recs := make([]m2gRecI, n)
					for i := range rows {
						recs[i].M = rows[i]
					}
					t, e = m2gWriteBuffer(recSchema, recs)
					paths = append(paths, path{"generic-buffer-typed", t, e})
					req = "m2g.write " + gtext + " " + strings.Join(vals, " ")
				case "iface":
					rows := make([]m2gIface, n)
					for i, m := range anyRows {
						rows[i] = m2gIface{m["a"], m["b"], m["c"], m["d"], m["e"], m["f"]}
					}
					t, e := m2gWriteTyped(schema, rows)
					paths = append(paths, path{"generic-writer-typed", t, e})
					t, e = m2gWriteRows(schema, rows, false)
					paths = append(paths, path{"writer-write", t, e})
					t, e = m2gWriteRows(schema, rows, true)
					paths = append(paths, path{"generic-writer-any", t, e})
					t, e = m2gWriteBuffer(schema, rows)
					paths = append(paths, path{"generic-buffer-typed", t, e})
					req = "m2g.iface " + gtext + " " + strings.Join(vals, " ")
				default:
					t, e := m2gWriteTyped(schema, anyRows)
					paths = append(paths, path{"generic-writer-typed", t, e})
					t, e = m2gWriteRows(schema, anyRows, false)
					paths = append(paths, path{"writer-write", t, e})
					t, e = m2gWriteRows(schema, anyRows, true)
					paths = append(paths, path{"generic-writer-any", t, e})
					recs := make([]m2gRecA, n)
					for i := range anyRows {
						recs[i].M = anyRows[i]
					}
					t, e = m2gWriteBuffer(recSchema, recs)
					paths = append(paths, path{"generic-buffer-typed", t, e})
					req = "m2g.write " + gtext + " " + strings.Join(vals, " ")
				}
				want := c.streams(c.cols)
				// the same maps as the member "m" of a record on an OPTIONAL group node: the optional
				// wrapper (null index of map types: nil map) over writeRowsFuncOfMapToGroup; every
				// level one up, the nil map a null group
				if branch != "iface" {
					nc := 0
					root.number(&nc, 1)
					c2 := &m2gCase{ids: c.ids, cols: make([][]gen.Triple, ncol)}
					vals2 := make([]string, n)
					for i, m := range anyRows {
						if m == nil {
							c2.absent(root, 0)
							vals2[i] = "N"
						} else {
							vals2[i] = "J(" + c2.walkMap(root, m, 1, branch != "any") + ")"
						}
					}
					c2.hole = c2.hole && branch != "string" // the string branch writes the zero string as a value
					optSchema := parquet.NewSchema("t", parquet.Group{"m": parquet.Optional(root.node())})
					var data []byte
					var err error
					switch branch {
					case "string":
						recs := make([]m2gRecS, n)
						for i, m := range anyRows {
							if m != nil {
								recs[i].M = map[string]string{}
								for k, v := range m {
									s, _ := v.(string)
									recs[i].M[k] = s
								}
							}
						}
						data, err = m2gWriteBuffer(optSchema, recs)
					case "int32":
						recs := make([]m2gRecI, n)
						for i, m := range anyRows {
							if m != nil {
								recs[i].M = map[string]int32{}
								for k, v := range m {
									x, _ := v.(int32)
									recs[i].M[k] = x
								}
							}
						}
						data, err = m2gWriteBuffer(optSchema, recs)
					default:
						recs := make([]m2gRecA, n)
						for i := range anyRows {
							recs[i].M = anyRows[i]
						}
						data, err = m2gWriteBuffer(optSchema, recs)
					}
					ctx.Hist("maptogroup-optional-member", fmt.Sprintf("branch=%s missing-required-member=%v", branch, c2.hole))
					d2 := map[string]any{"branch": branch, "schema": "m: optional " + gtext, "rows": vals2, "build": ctx.Variant, "path": "generic-buffer-typed-optional-member"}
					report2 := func(layer, key, what string) {
						if c2.hole {
							ctx.Observe("maptogroup-required-member-missing-below-optional-group path=generic-buffer-typed-optional-member", what+" [a required member of the optional group has no key in the map: writeNull at the maximum definition level]", d2)
						} else {
							ctx.Fail(layer, key, what, d2)
						}
					}
					var got2 [][]gen.Triple
					if err == nil {
						got2, err = gen.ReadColumns(data)
					}
					if err != nil {
						report2("L1", "path-error path=generic-buffer-typed-optional-member branch="+branch+" "+errClass(err), "writing maps onto an optional GROUP member failed: "+err.Error())
					} else {
						impl2, want2 := c.streams(got2), c.streams(c2.cols)
						d2["impl"], d2["want"] = impl2, want2
						if impl2 != want2 {
							report2("L1", "stream-mismatch path=generic-buffer-typed-optional-member branch="+branch, "the streams stored for maps on an optional GROUP member differ from the reference shredder")
						}
						if branch != "string" {
							ans, err := d.Ask("m2g.owrite " + gtext + " " + strings.Join(vals2, " "))
							if err != nil {
								ctx.Fail("L2", "driver-error", err.Error(), nil)
								return
							}
							if model, ok := m2gModelStreams(ans); !ok || model != impl2 {
								d2["model"] = ans
								report2("L2", "maptogroup-typed-path-differs-from-mirror path=generic-buffer-typed-optional-member branch="+branch, "the streams stored by one GenericBuffer[record].Write call differ from the Lean mirror m2gOptWrite")
							}
						}
					}
					nc = 0
					root.number(&nc, 0)
				}
				for _, p := range paths {
					// the two recorded situations (see the slice report)
					holePath := c.hole && p.name != "writer-write"
					zeroPath := c.anyZeroOpt && p.name == "writer-write"
					report := func(key, what string) {
						switch {
						case holePath:
							ctx.Observe("maptogroup-required-member-missing-below-optional-group path="+p.name, what+" [a required leaf below a present optional group has no key in the map: writeNull at the maximum definition level]", detail)
						case zeroPath:
							ctx.Observe("maptogroup-any-zero-value-below-optional path="+p.name, what+" [an interface holding a zero value / nil map below an optional member: present on Writer.Write, null on the typed path]", detail)
						default:
							ctx.Fail("L1", key, what, detail)
						}
					}
					var got [][]gen.Triple
					err := p.err
					if err == nil {
						got, err = gen.ReadColumns(p.data)
					}
					if err != nil {
						report("path-error path="+p.name+" branch="+branch+" "+errClass(err), "writing a batch of maps onto a GROUP schema failed: "+err.Error())
						continue
					}
					impl := c.streams(got)
					if impl != want {
						detail["path"], detail["impl"], detail["want"] = p.name, impl, want
						report("stream-mismatch path="+p.name+" branch="+branch, "the streams stored for maps on a GROUP schema differ from the reference shredder")
						detail = map[string]any{"branch": branch, "schema": gtext, "rows": vals, "build": ctx.Variant}
					}
					if p.name != "generic-writer-typed" && p.name != "generic-buffer-typed" {
						continue
					}
					detail["path"] = p.name
					ans, err := d.Ask(req)
					if err != nil {
						ctx.Fail("L2", "driver-error", err.Error(), nil)
						return
					}
					model, ok := m2gModelStreams(ans)
					if ps := strings.Split(ans, " | "); ok && len(ps) == 3 && (ps[2] == "1") != c.hole {
						// the mirror's okF (hypothesis of maptogroup_store_eq_rowpath) against the
						// harness's own detection of a required member missing below a present optional group
						detail["model"], detail["request"] = ans, req
						ctx.Fail("L2", "maptogroup-ok-predicate-differs-from-harness branch="+branch, "the Lean predicate okF and the reference shredder disagree on whether a required member is missing below a present optional group", detail)
						detail = map[string]any{"branch": branch, "schema": gtext, "rows": vals, "build": ctx.Variant}
					}
					if !ok || model != impl {
						detail["impl"], detail["model"], detail["request"] = impl, ans, req
						if c.hole && ok {
							// the stored column is not a well-formed page (fewer values than maximum
							// levels): what a reader returns for it is outside the model's promise
							ctx.Observe("maptogroup-readback-of-level-without-value-differs-from-mirror", "read-back of a column with a definition level without value differs from the mirror's readBack", detail)
						} else {
							ctx.Fail("L2", "maptogroup-typed-path-differs-from-mirror path="+p.name+" branch="+branch, "the streams stored by one typed Write call for the batch differ from the Lean mirror ("+ctx.Variant+" build)", detail)
						}
						detail = map[string]any{"branch": branch, "schema": gtext, "rows": vals, "build": ctx.Variant}
					}
				}
				if k == 0 && wk < 3 {
					ctx.Sample(map[string]any{"sub": "maptogroup", "branch": branch, "schema": gtext, "row0": vals[0], "want": want})
				}
			}
		}(wk)
	}
	wg.Wait()
}
