package props

import (
	"bytes"
	"fmt"
	"io"
	"math/rand"
	"strconv"
	"strings"
	"sync"

	"github.com/parquet-go/parquet-go"

	"verifharness/core"
)

// Sub-check "history" (L2 on the writer state machine of Aad.lean): a real encrypting writer is
// driven through an exactly known history of the operations the model has — rows buffered in the
// writer's own row group, single pages flushed through ColumnWriter.Flush, row-group flushes, rows
// and page flushes on row groups made by BeginRowGroup, their Commits, Close, Reset and the next
// file — with page buffers so large that no page is cut unless the history says so. The model
// (`aad.wrun`) predicts, for every file, the exact set of sealed modules and for each of them the
// module type, the ordinals AND the generation of the file identifier handed to makeAAD. Every
// module of the real file is then opened with crypto/aes+GCM under exactly that prediction (the
// identifier of generation g is the one stored in the footer of the g-th file of the writer).

func init() { RegisterSub("C18", "history", RunC18History) }

type c18HRow struct {
	A int64  `parquet:"a,plain"`
	B string `parquet:"b,dict"`
	C int64  `parquet:"c,plain"`
	D string `parquet:"d,dict"`
}

const c18HCols = 4

type c18HFile struct {
	Ops    []string // the model history from newWriter up to and including this file's Close
	Data   []byte
	Rows   int // rows that must be in this file
	Err    error
	ErrAt  string
	Lay    *c18Layout
	Events map[string]c18HEvent
}

type c18HEvent struct {
	Kind string
	Ords []int
	FU   int // generation, -1 = nil identifier
	used bool
}

type c18HCase struct {
	Enc    *c18Enc
	Bloom  []int // columns with a bloom filter (2 = plain column: built by re-reading the sealed pages; 3 = dictionary column)
	Stats  bool
	Script []string // what was called on the real writer, for the replay
	Files  []*c18HFile
}

func (c *c18HCase) detail(extra map[string]any) map[string]any {
	m := map[string]any{"schema": "c18HRow{a int64 plain, b string dict, c int64 plain, d string dict} (harness/props/c18_history.go)",
		"encryption": c.Enc.Desc(), "bloom_filter_columns": c.Bloom, "page_statistics": c.Stats,
		"calls": c.Script, "options": "PageBufferSize(1MiB) MaxRowsPerRowGroup(0): no page or row group is cut unless a call says so"}
	for k, v := range extra {
		m[k] = v
	}
	return m
}

func c18HColsText(cols []int) string {
	if len(cols) == 0 {
		return "-"
	}
	var s []string
	for _, c := range cols {
		s = append(s, strconv.Itoa(c))
	}
	return strings.Join(s, ",")
}

// c18HRun draws a history and runs it on a real writer.
func c18HRun(r *rand.Rand) (hc *c18HCase) {
	schema := parquet.SchemaOf(c18HRow{})
	hc = &c18HCase{Enc: c18RandEnc(r, schema), Stats: r.Intn(2) == 0}
	for _, c := range []int{2, 3} {
		if r.Intn(2) == 0 {
			hc.Bloom = append(hc.Bloom, c)
		}
	}
	opts := []parquet.WriterOption{schema, parquet.PageBufferSize(1 << 20), parquet.MaxRowsPerRowGroup(0),
		parquet.DataPageStatistics(hc.Stats), parquet.WithEncryption(hc.Enc.Config())}
	if len(hc.Bloom) > 0 {
		var fs []parquet.BloomFilterColumn
		for _, c := range hc.Bloom {
			fs = append(fs, parquet.SplitBlockFilter(10, []string{"a", "b", "c", "d"}[c]))
		}
		opts = append(opts, parquet.BloomFilters(fs...))
	}
	var ops []string
	cur := &c18HFile{}
	var out bytes.Buffer
	fail := func(at string, err error) *c18HCase {
		cur.Err, cur.ErrAt = err, at
		cur.Ops = append([]string{}, ops...)
		hc.Files = append(hc.Files, cur)
		return hc
	}
	defer func() {
		if p := recover(); p != nil {
			fail("panic", fmt.Errorf("PANIC: %v", p))
		}
	}()
	dict := []string{"alpha", "bravo", "charlie", "delta", "echo"}
	mkRows := func(k int) []parquet.Row {
		rows := make([]parquet.Row, k)
		for i := range rows {
			v := c18HRow{A: r.Int63(), B: dict[r.Intn(len(dict))], C: r.Int63(), D: dict[r.Intn(len(dict))]}
			rows[i] = schema.Deconstruct(nil, &v)
		}
		return rows
	}
	pw := parquet.NewWriter(&out, opts...)
	hc.Script = append(hc.Script, "w := NewWriter")
	mainPend := make([]int, c18HCols) // values buffered per column of the writer's own row group
	mainRows := 0                     // rows of the writer's own row group not yet in the file
	rgs := map[int]*parquet.ConcurrentRowGroupWriter{}
	rgRows := map[int]int{}
	pending := func(p []int) (cols []int) {
		for c, n := range p {
			if n > 0 {
				cols = append(cols, c)
			}
		}
		return cols
	}
	all := []int{0, 1, 2, 3}
	nfiles := 1 + r.Intn(3)
	for fi := 0; fi < nfiles; fi++ {
		nsteps := r.Intn(9)
		for st := 0; st < nsteps; st++ {
			switch r.Intn(10) {
			case 0, 1, 2:
				k := 1 + r.Intn(5)
				if _, err := pw.WriteRows(mkRows(k)); err != nil {
					return fail("w.WriteRows", err)
				}
				hc.Script = append(hc.Script, fmt.Sprintf("w.WriteRows(%d rows)", k))
				ops = append(ops, "w")
				for c := range mainPend {
					mainPend[c] += k
				}
				mainRows += k
			case 3, 4:
				cols := pending(mainPend)
				if len(cols) == 0 {
					continue
				}
				c := cols[r.Intn(len(cols))]
				if err := pw.ColumnWriters()[c].Flush(); err != nil {
					return fail("ColumnWriter.Flush", err)
				}
				hc.Script = append(hc.Script, fmt.Sprintf("w.ColumnWriters()[%d].Flush()", c))
				ops = append(ops, fmt.Sprintf("p:%d", c))
				mainPend[c] = 0
			case 5:
				if err := pw.Flush(); err != nil {
					return fail("w.Flush", err)
				}
				hc.Script = append(hc.Script, "w.Flush()")
				ops = append(ops, "f:"+c18HColsText(pending(mainPend)))
				cur.Rows += mainRows
				mainRows = 0
				mainPend = make([]int, c18HCols)
			case 6, 7:
				id := r.Intn(2)
				if rgs[id] == nil {
					rgs[id] = pw.BeginRowGroup()
					hc.Script = append(hc.Script, fmt.Sprintf("rg%d := w.BeginRowGroup()", id))
				}
				k := 1 + r.Intn(5)
				if _, err := rgs[id].WriteRows(mkRows(k)); err != nil {
					return fail("rg.WriteRows", err)
				}
				hc.Script = append(hc.Script, fmt.Sprintf("rg%d.WriteRows(%d rows)", id, k))
				ops = append(ops, fmt.Sprintf("cw:%d", id))
				rgRows[id] += k
				if r.Intn(3) == 0 { // a page flush before the ordinal is known: must not seal anything
					c := r.Intn(c18HCols)
					if err := rgs[id].ColumnWriters()[c].Flush(); err != nil {
						return fail("rg ColumnWriter.Flush", err)
					}
					hc.Script = append(hc.Script, fmt.Sprintf("rg%d.ColumnWriters()[%d].Flush()", id, c))
					ops = append(ops, fmt.Sprintf("cp:%d:%d", id, c))
				}
			default:
				id := r.Intn(2)
				if rgs[id] == nil || rgRows[id] == 0 {
					continue
				}
				if _, err := rgs[id].Commit(); err != nil {
					return fail("rg.Commit", err)
				}
				hc.Script = append(hc.Script, fmt.Sprintf("rg%d.Commit()", id))
				ops = append(ops, fmt.Sprintf("c:%d:%s:%s", id, c18HColsText(pending(mainPend)), c18HColsText(all)))
				cur.Rows += mainRows + rgRows[id]
				mainRows, rgRows[id] = 0, 0
				mainPend = make([]int, c18HCols)
			}
		}
		// Close: every column writer flushes its pending page (ColumnWriter.Close), then the row group, then the footer
		if err := pw.Close(); err != nil {
			return fail("w.Close", err)
		}
		hc.Script = append(hc.Script, "w.Close()")
		for _, c := range pending(mainPend) {
			ops = append(ops, fmt.Sprintf("p:%d", c))
		}
		ops = append(ops, "f:-")
		cur.Rows += mainRows
		mainRows = 0
		mainPend = make([]int, c18HCols)
		cur.Ops = append([]string{}, ops...)
		cur.Data = append([]byte{}, out.Bytes()...)
		hc.Files = append(hc.Files, cur)
		if fi+1 < nfiles {
			cur = &c18HFile{}
			out = bytes.Buffer{}
			pw.Reset(&out)
			hc.Script = append(hc.Script, "w.Reset(next file)")
			ops = append(ops, "r")
		}
	}
	return hc
}

func (hc *c18HCase) request(f *c18HFile) string {
	plain := 1
	if hc.Enc.EncFooter {
		plain = 0
	}
	var reread []int
	for _, c := range hc.Bloom {
		if c == 2 {
			reread = append(reread, c)
		}
	}
	return fmt.Sprintf("aad.wrun %d 1,3 %s %s %d %s", c18HCols, c18HColsText(hc.Bloom), c18HColsText(reread), plain, strings.Join(f.Ops, " "))
}

func c18HParseAnswer(a string) (gen, nrg, reopened int, same bool, evs map[string]c18HEvent, err error) {
	t := strings.Fields(a)
	if len(t) != 6 || t[0] != "ok" {
		return 0, 0, 0, false, nil, fmt.Errorf("answer %q", truncate(a, 200))
	}
	gen, _ = strconv.Atoi(t[1])
	nrg, _ = strconv.Atoi(t[2])
	reopened, _ = strconv.Atoi(t[3])
	same = t[4] == "1"
	evs = map[string]c18HEvent{}
	if t[5] == "-" {
		return
	}
	for _, e := range strings.Split(t[5], ",") {
		p := strings.Split(e, ":")
		if len(p) != 7 {
			return 0, 0, 0, false, nil, fmt.Errorf("event %q", e)
		}
		ev := c18HEvent{Kind: p[4], FU: -1}
		if p[5] != "-" {
			for _, o := range strings.Split(p[5], ".") {
				n, _ := strconv.Atoi(o)
				ev.Ords = append(ev.Ords, n)
			}
		}
		if p[6] != "n" {
			ev.FU, _ = strconv.Atoi(p[6])
		}
		key := strings.Join(p[:4], ":")
		if _, dup := evs[key]; dup {
			return 0, 0, 0, false, nil, fmt.Errorf("the model puts two modules in slot %s", key)
		}
		evs[key] = ev
	}
	return
}

func RunC18History(ctx *core.Ctx) {
	ctx.SetRule(c18Rule)
	d := ctx.Driver()
	if d == nil {
		return
	}
	ncases := ctx.Scale(2000, 20000)
	cases := make([]*c18HCase, ncases)
	var wg sync.WaitGroup
	for w := 0; w < 16; w++ {
		wg.Add(1)
		go func(w int) {
			defer wg.Done()
			r := ctx.Rand(fmt.Sprintf("c18/history/%d", w))
			for i := w; i < ncases; i += 16 {
				cases[i] = c18HRun(r)
			}
		}(w)
	}
	wg.Wait()
	var reqs []string
	type ref struct{ c, f int }
	var refs []ref
	for ci, hc := range cases {
		for fi, f := range hc.Files {
			resets := strings.Count(" "+strings.Join(f.Ops, " ")+" ", " r ")
			commits := 0
			for _, o := range f.Ops {
				if strings.HasPrefix(o, "c:") {
					commits++
				}
			}
			ctx.Case("history|"+hc.Enc.Desc()+"|"+fmt.Sprint(hc.Bloom, hc.Stats)+"|"+strings.Join(f.Ops, " "), resets > 0 || commits > 0)
			ctx.Hist("history_resets", c18Bucket(resets))
			ctx.Hist("history_commits", c18Bucket(commits))
			ctx.Hist("history_ops", c18Bucket(len(f.Ops)))
			if f.Err != nil {
				ctx.Fail("L1", "history-write-error at="+f.ErrAt+" "+c18ErrKind(f.Err), "a call of the history fails on an encrypting writer: "+f.Err.Error(), hc.detail(map[string]any{"file_index": fi}))
				continue
			}
			reqs = append(reqs, hc.request(f))
			refs = append(refs, ref{ci, fi})
		}
	}
	if len(cases) > 0 && len(cases[0].Files) > 0 {
		ctx.Sample(cases[0].detail(map[string]any{"model_history": strings.Join(cases[0].Files[len(cases[0].Files)-1].Ops, " ")}))
	}
	ans, err := d.AskMany(reqs)
	if err != nil {
		ctx.Fail("L2", "driver-error", err.Error(), nil)
		return
	}
	for i, a := range ans {
		hc, fi := cases[refs[i].c], refs[i].f
		f := hc.Files[fi]
		det := func(extra map[string]any) map[string]any {
			m := hc.detail(map[string]any{"file_index": fi, "model_history": strings.Join(f.Ops, " "), "request": truncate(reqs[i], 2000)})
			for k, v := range extra {
				m[k] = v
			}
			return m
		}
		gen, nrg, reopened, same, evs, perr := c18HParseAnswer(a)
		if perr != nil {
			ctx.Fail("L2", "driver-answer", "the model refused or garbled a writer history: "+perr.Error(), det(nil))
			continue
		}
		if gen != fi {
			ctx.Fail("L2", "history-generation", fmt.Sprintf("the model is in encryption state %d at the close of file %d of the writer", gen, fi), det(nil))
		}
		if !same {
			ctx.Fail("L2", "history-model-reread-differs", "the model re-opens one of its own pages with other arguments than it sealed it with (writer_rereads_own_pages says it cannot)", det(nil))
		}
		ctx.Hist("history_reread_pages", c18Bucket(reopened))
		// identifiers by generation: the g-th file of the writer carries the identifier of generation g
		fus := make([][]byte, fi+1)
		for g := 0; g <= fi; g++ {
			_, fu, e := c18FileUnique(hc.Files[g].Data)
			if e != nil {
				ctx.Fail("L1", "history-footer-unreadable", "the AAD parameters of a closed file cannot be read: "+e.Error(), det(nil))
			}
			fus[g] = fu
		}
		// files of one writer are different files: without a configured FileIdentifier they must not share the identifier
		if hc.Enc.FileID == nil {
			for g := 0; g < fi; g++ {
				if len(fus[g]) > 0 && bytes.Equal(fus[g], fus[fi]) {
					ctx.Fail("L1", "history-reset-reuses-file-identifier", fmt.Sprintf("files %d and %d of one writer (Reset in between, FileIdentifier nil) carry the same AadFileUnique %x: every module has the same AAD in both and can be transplanted between them", g, fi, fus[fi]), det(nil))
					break
				}
			}
		}
		var missing []string
		aadOf := func(prefix, fu []byte, kind string, rg, col, page int) []byte {
			key := fmt.Sprintf("%s:%d:%d:%d", kind, rg, col, page)
			ev, ok := evs[key]
			if !ok {
				missing = append(missing, key)
				return []byte("the model has no module in this slot")
			}
			ev.used = true
			evs[key] = ev
			b := append([]byte{}, prefix...)
			if ev.FU >= 0 && ev.FU < len(fus) {
				b = append(b, fus[ev.FU]...)
			} else if ev.FU >= len(fus) {
				b = append(b, []byte("identifier of a later file")...)
			}
			b = append(b, c18Codes[ev.Kind])
			for _, o := range ev.Ords {
				b = append(b, byte(o), byte(o>>8))
			}
			return b
		}
		lay, lerr := c18Parse(f.Data, hc.Enc.Keys(), aadOf)
		if lerr != nil {
			// which side is off? the harness's own AAD (slot ordinals, the file's identifier) tells
			kind := "?"
			if w := strings.Fields(lerr.Error()); len(w) > 0 {
				kind = strings.SplitN(w[0], "(", 2)[0]
			}
			_, herr := c18Parse(f.Data, hc.Enc.Keys(), c18AAD)
			what := "the file is well-formed under slot ordinals and the file's own identifier: the model predicts something else"
			if herr != nil {
				what = "the file is not well-formed either under slot ordinals and the file's own identifier (" + herr.Error() + ")"
			}
			ctx.Fail("L2", "history-module-mismatch kind="+kind, "a module of the file does not open under the module type, ordinals and identifier generation the writer model predicts for the history: "+lerr.Error()+"; "+what,
				det(map[string]any{"slots_without_model_module": missing}))
			if herr != nil {
				if _, oerr := c18HReadRows(f.Data, hc.Enc.Keys()); oerr != nil {
					ctx.Fail("L1", "history-file-unreadable "+c18ErrKind(oerr), "a file the writer closed without error cannot be read back with the right keys: "+oerr.Error(), det(nil))
				}
			}
			continue
		}
		f.Lay = lay
		if nrg != len(lay.Meta.RowGroups) {
			ctx.Fail("L2", "history-rowgroup-count", fmt.Sprintf("the model closes the file with %d row groups, the file has %d", nrg, len(lay.Meta.RowGroups)), det(nil))
		}
		for key, ev := range evs {
			if !ev.used && lay.NoKey == 0 {
				ctx.Fail("L2", "history-model-module-absent kind="+strings.SplitN(key, ":", 2)[0], "the model seals a module the file does not contain: "+key, det(nil))
				break
			}
		}
		if len(lay.Gaps) > 0 {
			ctx.Fail("L2", "history-unpredicted-bytes", "bytes of the file belong to no module the model predicts: "+lay.Gaps[0], det(nil))
		}
		ctx.HistN("history_modules", "opened-under-model-prediction", int64(len(lay.Mods)))
		// and the library reads back what the history put in this file
		n, oerr := c18HReadRows(f.Data, hc.Enc.Keys())
		if oerr != nil {
			ctx.Fail("L1", "history-file-unreadable "+c18ErrKind(oerr), "a file the writer closed without error cannot be read back with the right keys: "+oerr.Error(), det(nil))
		} else if n != f.Rows {
			ctx.Fail("L1", "history-row-count", fmt.Sprintf("%d rows were flushed, committed or closed into the file, %d are read back", f.Rows, n), det(nil))
		}
	}
}

func c18HReadRows(file []byte, keys parquet.KeyRetriever) (n int, err error) {
	defer func() {
		if p := recover(); p != nil {
			err = fmt.Errorf("PANIC: %v", p)
		}
	}()
	f, err := parquet.OpenFile(bytes.NewReader(file), int64(len(file)), parquet.WithDecryption(keys))
	if err != nil {
		return 0, err
	}
	for _, rg := range f.RowGroups() {
		rows := rg.Rows()
		buf := make([]parquet.Row, 64)
		for {
			k, err := rows.ReadRows(buf)
			n += k
			if err == io.EOF {
				break
			}
			if err != nil {
				rows.Close()
				return n, err
			}
			if k == 0 {
				rows.Close()
				return n, fmt.Errorf("ReadRows returned 0 rows and no error")
			}
		}
		rows.Close()
	}
	return n, nil
}
